/-
C02 — multilinear products equal their definition (a sum over the subscripts of the array the
operand denotes) in every representation and under every way of designating the modes.
Only property theorems and non-vacuity examples; proofs are in Lemmas/ML*.lean.
`Spec.*` (Spec/Multilinear.lean) are the definitions by sums over indices; `X.den` is the array
an object denotes; `r.get` / `r.shape` the one denotation of a scalar / dense / sparse result.
-/
import PyttbModel.Lemmas.MLTtvUser
import PyttbModel.Lemmas.MLSparseCollapse
namespace Pyttb

variable {α : Type}

/-! ### how modes are designated (shared by `ttv` and `ttm`, every representation) -/

/-- One multiplicand per listed mode: whatever order `dims` is listed in, the kernel receives the
modes in increasing order, each paired with the multiplicand listed at the same position. -/
theorem C02_list_len_P {β : Type} (N : Nat) (mults : List β) (d : List Nat) (hd : d.Nodup)
    (hN : ∀ x ∈ d, x < N) (hl : mults.length = d.length) :
    ∃ pairs, resolveModes N mults (some (d.map Int.ofNat)) none = .ok pairs ∧
      (pairs.map (·.1)).Pairwise (· < ·) ∧ pairs.Perm (d.zip mults) := ML.resolve_dims_P N mults d hd hN hl

/-- One multiplicand per mode of the tensor (`len(mults) = N ≠ len(dims)`): mode `m` uses `mults[m]`. -/
theorem C02_list_len_N_vs_P {β : Type} (N : Nat) (mults : List β) (d : List Nat) (hd : d.Nodup)
    (hN : ∀ x ∈ d, x < N) (hl : mults.length = N) (hne : d.length ≠ N) :
    ∃ pairs, resolveModes N mults (some (d.map Int.ofNat)) none = .ok pairs ∧
      (pairs.map (·.1)).Pairwise (· < ·) ∧ (pairs.map (·.1)).Perm d ∧
      ∀ p ∈ pairs, mults[p.1]? = some p.2 := ML.resolve_dims_N N mults d hd hN hl hne

/-- The answer depends on which multiplicand belongs to which mode, not on the order in which
`dims` lists the modes. -/
theorem C02_dims_any_order {β : Type} (N : Nat) (m₁ m₂ : List β) (d₁ d₂ : List Nat) (hd : d₁.Nodup)
    (hN : ∀ x ∈ d₁, x < N) (hl₁ : m₁.length = d₁.length) (hl₂ : m₂.length = d₂.length)
    (h : (d₁.zip m₁).Perm (d₂.zip m₂)) :
    resolveModes N m₁ (some (d₁.map Int.ofNat)) none = resolveModes N m₂ (some (d₂.map Int.ofNat)) none :=
  ML.resolve_any_order N m₁ m₂ d₁ d₂ hd hN hl₁ hl₂ h

/-- `exclude_dims = e` designates exactly the modes not in `e` (and no designation at all
designates every mode). -/
theorem C02_exclude_dims {β : Type} (N : Nat) (mults : List β) (e : List Nat) (he : ∀ x ∈ e, x < N) (hn : e.Nodup) :
    resolveModes N mults none (some (e.map Int.ofNat)) =
      resolveModes N mults (some ((complDims N e).map Int.ofNat)) none ∧
    resolveModes N mults none none = resolveModes N mults (some ((List.range N).map Int.ofNat)) none :=
  ⟨ML.resolve_exclude N mults e he hn, ML.resolve_none N mults⟩

/-- The value `ttv` is specified to have depends on the set of selected modes only. -/
theorem C02_ttv_spec_set [CommSemiring α] (X : Den α) {a b : List Nat} (h : a.Perm b) (w : Nat → Nat → α)
    (i : List Nat) : Spec.ttv X a w i = Spec.ttv X b w i ∧ Spec.ttvShape X.shape a = Spec.ttvShape X.shape b :=
  ⟨ML.spec_ttv_perm X h w i, ML.spec_ttvShape_perm _ h⟩

/-! ### tensor times vector -/

/-- Dense `ttv` kernel (transpose selected modes last, reshape·dot from the highest mode down):
for distinct in-range modes and vectors of matching length the result — a scalar when every mode
is selected, otherwise a tensor over the remaining modes — is `Σ_{k ∈ fiber} X[k]·∏_d v_d[k_d]`. -/
theorem C02_ttv_dense [CommSemiring α] (T : Dense α) (hT : T.WF) (pairs : List (Nat × List α))
    (hnd : (pairs.map (·.1)).Nodup) (hlt : ∀ p ∈ pairs, p.1 < T.shape.length)
    (hlen : ∀ p ∈ pairs, p.2.length = T.shape.getD p.1 0)
    (w : Nat → Nat → α) (hw : ∀ p ∈ pairs, ∀ k, w p.1 k = p.2.getD k 0) :
    ∃ r, T.ttvCore pairs = .ok r ∧ r.toRes.shape = Spec.ttvShape T.shape (pairs.map (·.1)) ∧
      ∀ i, InBounds r.toRes.shape i → r.toRes.get i = Spec.ttv T.den (pairs.map (·.1)) w i :=
  ML.dense_ttvCore_spec T hT pairs hnd hlt hlen w hw

/-- Dense `ttv` as called with `dims` listed in any order and one vector per listed mode. -/
theorem C02_ttv_dense_dims [CommSemiring α] (T : Dense α) (hT : T.WF) (d : List Nat) (vs : List (List α))
    (hd : d.Nodup) (hN : ∀ x ∈ d, x < T.shape.length) (hl : vs.length = d.length)
    (hsz : ∀ p ∈ d.zip vs, p.2.length = T.shape.getD p.1 0)
    (w : Nat → Nat → α) (hw : ∀ p ∈ d.zip vs, ∀ k, w p.1 k = p.2.getD k 0) :
    ∃ r, T.ttv vs (some (d.map Int.ofNat)) none = .ok r ∧ r.toRes.shape = Spec.ttvShape T.shape d ∧
      ∀ i, InBounds r.toRes.shape i → r.toRes.get i = Spec.ttv T.den d w i :=
  ML.dense_ttv_dims T hT d vs hd hN hl hsz w hw

/-- Sparse `ttv` kernel on both sides of every data-dependent switch: all modes selected (scalar),
one mode left (accumulated vector kept sparse at ≤ 50 % fill, dense above), several modes left
(aggregated, densified above 50 % fill), nothing stored. One statement covers all result kinds. -/
theorem C02_ttv_sparse [CommSemiring α] [DecidableEq α] (S : Sparse α) (hS : S.WF)
    (pairs : List (Nat × List α))
    (hnd : (pairs.map (·.1)).Nodup) (hlt : ∀ p ∈ pairs, p.1 < S.shape.length)
    (hlen : ∀ p ∈ pairs, p.2.length = S.shape.getD p.1 0)
    (w : Nat → Nat → α) (hw : ∀ p ∈ pairs, ∀ k, w p.1 k = p.2.getD k 0) :
    ∃ r, S.ttvCore pairs = .ok r ∧ r.shape = Spec.ttvShape S.shape (pairs.map (·.1)) ∧
      ∀ i, InBounds r.shape i → r.get i = Spec.ttv S.den (pairs.map (·.1)) w i :=
  ML.sparse_ttvCore_spec S hS pairs hnd hlt hlen w hw

/-- Sparse `ttv` as called with `dims` listed in any order and one vector per listed mode. -/
theorem C02_ttv_sparse_dims [CommSemiring α] [DecidableEq α] (S : Sparse α) (hS : S.WF) (d : List Nat)
    (vs : List (List α))
    (hd : d.Nodup) (hN : ∀ x ∈ d, x < S.shape.length) (hl : vs.length = d.length)
    (hsz : ∀ p ∈ d.zip vs, p.2.length = S.shape.getD p.1 0)
    (w : Nat → Nat → α) (hw : ∀ p ∈ d.zip vs, ∀ k, w p.1 k = p.2.getD k 0) :
    ∃ r, S.ttv vs (some (d.map Int.ofNat)) none = .ok r ∧ r.shape = Spec.ttvShape S.shape d ∧
      ∀ i, InBounds r.shape i → r.get i = Spec.ttv S.den d w i :=
  ML.sparse_ttv_dims S hS d vs hd hN hl hsz w hw

/-! ### inner product and norm -/

/-- Dense inner product is `Σ_k A[k]·B[k]`; different shapes are rejected. -/
theorem C02_innerprod_dense [CommSemiring α] (A B : Dense α) (hA : A.WF) (hB : B.WF) :
    (A.shape = B.shape → A.innerprod B = .ok (Spec.inner A.den B.den)) ∧
    (A.shape ≠ B.shape → A.innerprod B = .error .reject) :=
  ⟨ML.dense_innerprod_spec A B hA hB, ML.dense_innerprod_rejects A B⟩

/-- Sparse · dense inner product (values gathered at the stored subscripts). -/
theorem C02_innerprod_sparse_dense [CommSemiring α] [DecidableEq α] (S : Sparse α) (hS : S.WF) (D : Dense α)
    (hs : S.shape = D.shape) : S.innerprodDense D = .ok (Spec.inner S.den D.den) :=
  ML.sparse_innerprodDense_spec S hS D hs

/-- Sparse · sparse inner product, whichever operand is looked up in the other, and with either
operand empty. -/
theorem C02_innerprod_sparse_sparse [CommSemiring α] [DecidableEq α] (S O : Sparse α) (hS : S.WF) (hO : O.WF)
    (hs : S.shape = O.shape) : S.innerprodSparse O = .ok (Spec.inner S.den O.den) :=
  ML.sparse_innerprodSparse_spec S O hS hO hs

/-- The square of the dense norm is `Σ_k A[k]²` (`norm` is the `sqrt` service applied to it). -/
theorem C02_norm_dense [CommSemiring α] (A : Dense α) (hA : A.WF) : A.normSq = Spec.normSq A.den :=
  ML.dense_normSq_spec A hA

/-- The square of the sparse norm is `Σ_k S[k]²`. -/
theorem C02_norm_sparse [CommSemiring α] [DecidableEq α] (S : Sparse α) (hS : S.WF) :
    S.normSq = Spec.normSq S.den := ML.sparse_normSq_spec S hS

/-! ### sparse scale / contract / collapse -/

/-- Sparse `scale` by a dense tensor, a sparse tensor or a plain array over the selected modes
(taken in increasing order, however `dims` lists them): `Y[i] = X[i]·F[i[sel]]` at EVERY subscript. -/
theorem C02_scale_sparse [CommSemiring α] [DecidableEq α] (S : Sparse α) (hS : S.WF) (F : Sparse.ScaleFactor α)
    (d : List Nat) (hd : d.Nodup) (hN : ∀ x ∈ d, x < S.shape.length) (Fden : Den α)
    (hF : match F with
      | .dense D => D.shape = gather S.shape (sdimsOf d) ∧ Fden = D.den
      | .sparse G => G.shape = gather S.shape (sdimsOf d) ∧ G.WF ∧ Fden = G.den
      | .array v => d.length = 1 ∧ [v.length] = gather S.shape (sdimsOf d) ∧ Fden = (⟨[v.length], v⟩ : Dense α).den) :
    ∃ Y, S.scale F (d.map Int.ofNat) = .ok Y ∧ Y.shape = S.shape ∧
      ∀ i, Y.get i = Spec.scale S.den Fden (sdimsOf d) i := ML.sparse_scale_spec S hS F d hd hN Fden hF

/-- Sparse `contract` of two distinct modes of equal extent on every branch (nothing stored,
2-way → scalar, aggregated result kept sparse or densified above 50 % fill). -/
theorem C02_contract_sparse [CommSemiring α] [DecidableEq α] (S : Sparse α) (hS : S.WF) (a b : Nat)
    (ha : a < S.shape.length) (hb : b < S.shape.length) (hab : a ≠ b)
    (hsz : S.shape.getD a 0 = S.shape.getD b 0) :
    ∃ r, S.contract a b = .ok r ∧ r.shape = gather S.shape (complDims S.shape.length [a, b]) ∧
      ∀ i, InBounds r.shape i → r.get i = Spec.contract S.den a b i :=
  ML.sparse_contract_spec S hS a b ha hb hab hsz

/-- Sparse `collapse` with a reducer that depends only on the multiset of its non-zero arguments
and maps the empty list to 0 (the sparse code hands the reducer the stored values only): all
modes (scalar), one mode left (plain vector), several left (sparse), nothing stored. -/
theorem C02_collapse_sparse [CommSemiring α] [DecidableEq α] (S : Sparse α) (hS : S.WF)
    (dims : Option (List Nat)) (sel : List Nat)
    (hdims : match dims with
      | none => sel = List.range S.shape.length
      | some d => d.Nodup ∧ (∀ x ∈ d, x < S.shape.length) ∧ sel = sdimsOf d)
    (f : List α → α) (hf : ML.ZeroInsensitive f) (hf0 : f [] = 0) :
    ∃ r, S.collapse (dims.map fun d => d.map Int.ofNat) f = .ok r ∧
      r.shape = gather S.shape (complDims S.shape.length sel) ∧
      ∀ i, InBounds r.shape i → r.get i = Spec.collapse S.den sel f i :=
  ML.sparse_collapse_spec S hS dims sel hdims f hf hf0

/-- `sum` is such a reducer. -/
theorem C02_collapse_sum_ok [CommSemiring α] [DecidableEq α] :
    ML.ZeroInsensitive (List.sum : List α → α) ∧ (List.sum ([] : List α) = 0) :=
  ⟨ML.zeroInsensitive_sum, rfl⟩

/-! ### non-vacuity -/

example : (⟨[2, 3], [1, 2, 3, 4, 5, 6]⟩ : Dense Int).ttv [[1, 1, 1]] (some [1]) none =
    .ok (.obj ⟨[2], [9, 12]⟩) := by decide +kernel
example : (⟨[2, 3], [[0, 1], [1, 2]], [5, 7]⟩ : Sparse Int).ttv [[1, 1, 1]] (some [1]) none =
    .ok (.dense ⟨[2], [5, 7]⟩) := by decide +kernel
example : (⟨[2, 3], [[0, 1], [1, 2]], [5, 7]⟩ : Sparse Int).WF :=
  ⟨rfl, by decide, by decide, by decide⟩
example : (⟨[2, 3], [1, 2, 3, 4, 5, 6]⟩ : Dense Int).WF := rfl
example : Spec.ttv (⟨[2, 3], [1, 2, 3, 4, 5, 6]⟩ : Dense Int).den [1] (fun _ _ => 1) [1] = 12 := by decide

end Pyttb
