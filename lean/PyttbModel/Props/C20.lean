/-
C20 — generators and aggregating constructors build what they advertise.
Only property theorems and non-vacuity examples live here; proofs are in
Lemmas/Generators.lean, Lemmas/Teneye.lean and Lemmas/TeneyeId.lean.
Everything random is an explicit input of the model (`draws`, `draw k`, `fh n`), so every
generator is a function of its draws.
-/
import PyttbModel.Lemmas.TeneyeId
namespace Pyttb

variable {α : Type}

/-! ### dense generators -/

/-- `tenones(shape)`: exactly the requested shape, every entry one (any order ≥ 1, any extents). -/
theorem C20_ones [One α] [Zero α] (s : List Nat) (hs : s ≠ []) :
    ∃ T : Dense α, Dense.tenones s = .ok T ∧ T.shape = s ∧ T.WF ∧
      T.data = List.replicate (numel s) 1 ∧ ∀ i, InBounds s i → T.get i = 1 := by
  refine ⟨_, Dense.tenones_ok s hs, rfl, Dense.ofFn_WF _ _, ?_, fun i hi => Dense.ofFn_get _ _ hi⟩
  simp [Dense.ofFn, List.map_const', length_allSubs]

/-- `tenzeros(shape)`: exactly the requested shape, every entry zero. -/
theorem C20_zeros [Zero α] (s : List Nat) (hs : s ≠ []) :
    ∃ T : Dense α, Dense.tenzeros s = .ok T ∧ T.shape = s ∧ T.WF ∧
      T.data = List.replicate (numel s) 0 ∧ ∀ i, InBounds s i → T.get i = 0 := by
  refine ⟨_, Dense.tenzeros_ok s hs, rfl, Dense.ofFn_WF _ _, ?_, fun i hi => Dense.ofFn_get _ _ hi⟩
  simp [Dense.ofFn, List.map_const', length_allSubs]

/-- `tenrand(shape)`: the entries are the draws, first index fastest; they lie in `[0,1)` when
the draws do. -/
theorem C20_rand_range [Zero α] [One α] [LE α] [LT α] (s : List Nat) (draws : List α) (hs : s ≠ [])
    (hn : draws.length = numel s) :
    ∃ T : Dense α, Dense.tenrand s draws = .ok T ∧ T.shape = s ∧ T.WF ∧ T.data = draws ∧
      (∀ i, InBounds s i → T.get i = draws.getD (sub2ind s i) 0) ∧
      ((∀ u ∈ draws, 0 ≤ u ∧ u < 1) → ∀ i, InBounds s i → 0 ≤ T.get i ∧ T.get i < 1) := by
  refine ⟨⟨s, draws⟩, Dense.tenrand_ok s draws hs hn, rfl, hn, rfl, fun i _ => rfl, ?_⟩
  intro hu i hi
  have hlt : sub2ind s i < draws.length := hn ▸ sub2ind_lt hi
  have : (⟨s, draws⟩ : Dense α).get i = draws[sub2ind s i] := by
    simp [Dense.get, List.getD_eq_getElem?_getD, List.getElem?_eq_getElem hlt]
  rw [this]
  exact hu _ (List.getElem_mem hlt)

/-- `tensor.from_function`: whatever shape the produced array has, its values are laid out
first index fastest in the requested shape; an array that already has the requested shape
is returned unchanged. -/
theorem C20_from_function_layout [Zero α] (s : List Nat) (out : Dense α) (hs : s ≠ [])
    (hn : out.data.length = numel s) :
    ∃ T : Dense α, Dense.fromFunction s out = .ok T ∧ T.shape = s ∧ T.WF ∧ T.data = out.data ∧
      (∀ i, InBounds s i → T.get i = out.data.getD (sub2ind s i) 0) ∧ (out.shape = s → T = out) := by
  refine ⟨⟨s, out.data⟩, Dense.fromFunction_ok s out hs hn, rfl, hn, rfl, fun i _ => rfl, ?_⟩
  intro h; cases out; simp_all

/-- The dense generators refuse the 0-way shape, and `from_function` refuses a produced
array with another number of elements than the shape has cells. -/
theorem C20_dense_rejects [Zero α] [One α] (s : List Nat) (out : Dense α) (draws : List α) :
    Dense.tenones (α := α) [] = .error .reject ∧ Dense.tenzeros (α := α) [] = .error .reject ∧
    Dense.tenrand [] draws = .error .reject ∧
    (s ≠ [] → out.data.length ≠ numel s → Dense.fromFunction s out = .error .reject) :=
  ⟨rfl, rfl, rfl, (Dense.fromFunction_rejects s out).2⟩

/-- The documented shape rule of `tendiag` / `sptendiag`: without a shape `N` modes of extent
`N`; with a shape every extent is raised to at least `N`, larger extents are kept. -/
theorem C20_diag_shape_rule (N : Nat) (s : List Nat) :
    diagShape N none = List.replicate N N ∧
    (diagShape N (some s)).length = s.length ∧
    ∀ j < s.length, (diagShape N (some s)).getD j 0 = max N (s.getD j 0) := by
  refine ⟨rfl, by simp [diagShape], ?_⟩
  intro j hj
  simp [diagShape, List.getD_eq_getElem?_getD, List.getElem?_eq_getElem hj]

/-- `tendiag(elements, shape)` (elements longer or shorter than the shape): the constructed
shape, `elements[k]` at `(k,…,k)`, zero everywhere else. -/
theorem C20_tendiag [Zero α] (elements : List α) (shape : Option (List Nat))
    (hN : elements ≠ []) (hs : diagShape elements.length shape ≠ []) :
    ∃ T, Dense.tendiag elements shape = .ok T ∧ T.shape = diagShape elements.length shape ∧ T.WF ∧
      (∀ k (hk : k < elements.length), T.get (List.replicate T.shape.length k) = elements[k]) ∧
      (∀ i, InBounds T.shape i → (∀ k < elements.length, i ≠ List.replicate T.shape.length k) → T.get i = 0) :=
  tendiag_spec elements shape hN hs

/-- Without elements `tendiag` raises (`np.max` of an empty subscript array / 0-way zeros). -/
theorem C20_tendiag_rejects [Zero α] (shape : Option (List Nat)) :
    Dense.tendiag ([] : List α) shape = .error .reject := by
  cases h : Dense.tenzeros (α := α) (diagShape 0 shape) <;> simp [Dense.tendiag, h]

/-! ### teneye -/

/-- Closed form of `teneye(m, n)` for every even order `m ≥ 2` and every size `n`: the entry at
`i` is the share of the `m!` rearrangements of `i` whose positions `{m-1,0},{1,2},{3,4},…` carry
equal indices. -/
theorem C20_teneye_entry [Zero α] [NatCast α] [Div α] (m n : Nat) (hm : m % 2 = 0) (hm0 : m ≠ 0) :
    ∃ E : Dense α, Dense.teneye m n = .ok E ∧ E.shape = List.replicate m n ∧ E.WF ∧
      ∀ i, InBounds (List.replicate m n) i → E.get i = (pairCount m i : α) / (fact m : α) :=
  teneye_entry m n hm hm0

/-- `teneye` is symmetric under every permutation `p` of its modes. -/
theorem C20_teneye_sym [Zero α] [NatCast α] [Div α] (m n : Nat) (hm : m % 2 = 0) (hm0 : m ≠ 0)
    (p : List Nat) (hp : isPermOf p m = true) (i : List Nat) (hi : InBounds (List.replicate m n) i) :
    ∃ E : Dense α, Dense.teneye m n = .ok E ∧ InBounds E.shape (gather i p) ∧
      E.get (gather i p) = E.get i :=
  teneye_sym m n hm hm0 p hp i hi

/-- The identity action, for every even order `m = 2(h+1)` and every size `n`, over any field
of characteristic zero: `ttsv(teneye(m,n), x, skip first mode) = (xᵀx)^(m/2-1) · x`. -/
theorem C20_teneye_identity [Field α] [CharZero α] (h n : Nat) (x : List α) (hx : x.length = n) :
    ∃ E y, Dense.teneye (2 * (h + 1)) n = .ok E ∧ E.ttsvFirst x = .ok y ∧ y.length = n ∧
      ∀ k < n, y.getD k 0 = dotW n (xw x) (xw x) ^ h * xw x k :=
  teneye_identity h n x hx

/-- Hence `teneye` acts as the identity on unit vectors: `xᵀx = 1 → ttsv(E, x, skip first) = x`. -/
theorem C20_teneye_unit [Field α] [CharZero α] (h n : Nat) (x : List α) (hx : x.length = n)
    (hunit : dotW n (xw x) (xw x) = 1) :
    ∃ E, Dense.teneye (2 * (h + 1)) n = .ok E ∧ E.ttsvFirst x = .ok x := by
  obtain ⟨E, y, h1, h2, h3, h4⟩ := teneye_identity h n x hx
  refine ⟨E, h1, ?_⟩
  rw [h2]
  congr 1
  apply List.ext_getElem (by omega)
  intro k hk1 hk2
  have := h4 k (by omega)
  simp only [hunit, one_pow, one_mul, xw, List.getD_eq_getElem?_getD, List.getElem?_eq_getElem hk1,
    List.getElem?_eq_getElem hk2, Option.getD_some] at this
  exact this

/-- Odd orders and order zero are refused. -/
theorem C20_teneye_rejects [Zero α] [NatCast α] [Div α] (m n : Nat) :
    (m % 2 = 1 → Dense.teneye (α := α) m n = .error .reject) ∧
    (m = 0 → Dense.teneye (α := α) m n = .error .reject) :=
  teneye_rejects m n

/-! ### aggregating constructor -/

/-- `sptensor.from_aggregator` on a validated request (at least one row, all subscripts inside
the shape, as many values as rows), for ANY reducer `r`: the result is well-formed, its
entry at a listed subscript is `r` applied to the values stored under it (in stored order),
zero results are not stored, nothing else is stored.  The stored order of the input is
irrelevant to which values meet which subscript. -/
theorem C20_aggregator [AddMonoid α] [BEq α] [LawfulBEq α]
    (subs : List (List Nat)) (vals : List α) (s : List Nat) (r : List α → α)
    (hne : subs ≠ []) (hs : s ≠ []) (hin : ∀ i ∈ subs, InBounds s i) (hl : vals.length = subs.length) :
    ∃ S, Sparse.fromAggregator (subs.map fun i => i.map Int.ofNat) vals (some s) r = .ok S ∧
      S.shape = s ∧ S.WF ∧
      (∀ i, i ∈ S.subs ↔ i ∈ subs ∧ (r (groupVals subs vals i) == 0) = false) ∧
      ∀ i, S.get i = if i ∈ subs then r (groupVals subs vals i) else 0 :=
  fromAggregator_spec subs vals s r hne hs hin hl

/-- With the default reducer the result denotes, at every subscript, the sum of the values
listed for it. -/
theorem C20_aggregator_sum [AddMonoid α] [BEq α] [LawfulBEq α]
    (subs : List (List Nat)) (vals : List α) (s : List Nat)
    (hne : subs ≠ []) (hs : s ≠ []) (hin : ∀ i ∈ subs, InBounds s i) (hl : vals.length = subs.length) :
    ∃ S, Sparse.fromAggregator (subs.map fun i => i.map Int.ofNat) vals (some s) List.sum = .ok S ∧
      S.shape = s ∧ S.WF ∧ ∀ i, S.get i = (⟨s, subs, vals⟩ : Sparse α).get i :=
  fromAggregator_sum subs vals s hne hs hin hl

/-- For a reducer that is invariant under permutation of its arguments (`sum`, `max`, `min`,
`prod`, a count, …) listing the same (subscript, value) pairs in any other order gives a
well-formed tensor with the same entries. -/
theorem C20_aggregator_perm [AddMonoid α] [BEq α] [LawfulBEq α]
    (subs subs' : List (List Nat)) (vals vals' : List α) (s : List Nat) (r : List α → α)
    (hr : ∀ l₁ l₂ : List α, l₁.Perm l₂ → r l₁ = r l₂)
    (hne : subs ≠ []) (hs : s ≠ []) (hin : ∀ i ∈ subs, InBounds s i) (hl : vals.length = subs.length)
    (hl' : vals'.length = subs'.length) (hp : (subs'.zip vals').Perm (subs.zip vals)) :
    ∃ S S', Sparse.fromAggregator (subs.map fun i => i.map Int.ofNat) vals (some s) r = .ok S ∧
      Sparse.fromAggregator (subs'.map fun i => i.map Int.ofNat) vals' (some s) r = .ok S' ∧
      S'.WF ∧ ∀ i, S'.get i = S.get i :=
  fromAggregator_perm subs subs' vals vals' s r hr hne hs hin hl hl' hp

/-- No subscripts: the empty tensor of the given shape. -/
theorem C20_aggregator_empty [Zero α] [BEq α] (vals : List α) (s : List Nat) (r : List α → α)
    (hpos : ∀ e ∈ s, 0 < e) : Sparse.fromAggregator [] vals (some s) r = .ok ⟨s, [], []⟩ :=
  fromAggregator_empty vals s r hpos

/-- Refused: a negative subscript; a subscript outside the shape (too few / too many columns
included); a value list of another length. -/
theorem C20_aggregator_rejects [Zero α] [BEq α] (vals : List α) (r : List α → α) :
    (∀ (subs : List (List Int)) (shape : Option (List Nat)), subs ≠ [] → (subs.headD []).length ≠ 0 →
      (∃ row ∈ subs, ∃ x ∈ row, x < 0) → Sparse.fromAggregator subs vals shape r = .error .reject) ∧
    (∀ (subs : List (List Nat)) (s : List Nat), subs ≠ [] → (subs.headD []).length ≠ 0 →
      ((¬ ∀ i ∈ subs, InBounds s i) ∨ vals.length ≠ subs.length) →
      Sparse.fromAggregator (subs.map fun i => i.map Int.ofNat) vals (some s) r = .error .reject) :=
  ⟨fun subs shape h1 h2 h3 => fromAggregator_rejects_neg subs vals shape r h1 h2 h3,
   fun subs s h1 h2 h3 => fromAggregator_rejects subs vals s r h1 h2 h3⟩

/-- `sptendiag(elements, shape)`: the shape rule and the denotation of `tendiag`
(`elements[k]` at `(k,…,k)`, zero elsewhere), well-formed, exactly the non-zero elements are
stored. -/
theorem C20_sptendiag [AddMonoid α] [BEq α] [LawfulBEq α] (elements : List α) (shape : Option (List Nat))
    (hN : elements ≠ []) (hs : diagShape elements.length shape ≠ []) :
    ∃ S, Sparse.sptendiag elements shape = .ok S ∧ S.shape = diagShape elements.length shape ∧ S.WF ∧
      (∀ k (hk : k < elements.length), S.get (List.replicate S.shape.length k) = elements[k]) ∧
      (∀ i, (∀ k < elements.length, i ≠ List.replicate S.shape.length k) → S.get i = 0) ∧
      (∀ k (hk : k < elements.length),
        List.replicate S.shape.length k ∈ S.subs ↔ (elements[k] == 0) = false) ∧
      (∀ i ∈ S.subs, ∃ k < elements.length, i = List.replicate S.shape.length k) :=
  sptendiag_spec elements shape hN hs

/-- `sptendiag` and `tendiag` denote the same tensor. -/
theorem C20_sptendiag_tendiag [AddMonoid α] [BEq α] [LawfulBEq α] (elements : List α)
    (shape : Option (List Nat)) (hN : elements ≠ []) (hs : diagShape elements.length shape ≠ []) :
    ∃ S T, Sparse.sptendiag elements shape = .ok S ∧ Dense.tendiag elements shape = .ok T ∧
      S.shape = T.shape ∧ ∀ i, InBounds T.shape i → S.get i = T.get i := by
  obtain ⟨S, h1, h2, _, h4, h5, _⟩ := sptendiag_spec elements shape hN hs
  obtain ⟨T, g1, g2, _, g4, g5⟩ := tendiag_spec elements shape hN hs
  refine ⟨S, T, h1, g1, h2.trans g2.symm, ?_⟩
  intro i hi
  have hlen : S.shape.length = T.shape.length := by rw [h2, g2]
  by_cases hd : ∃ k < elements.length, i = List.replicate T.shape.length k
  · obtain ⟨k, hk, rfl⟩ := hd
    rw [g4 k hk, ← hlen, h4 k hk]
  · have hd' : ∀ k < elements.length, i ≠ List.replicate T.shape.length k :=
      fun k hk h => hd ⟨k, hk, h⟩
    rw [g5 i hi hd', h5 i (by rw [hlen]; exact hd')]

/-! ### random sparse generators -/

/-- The request as a count: whole numbers up to the tensor size are taken as they are; a
density `d ∈ (0,1]` handed to `sptenrand` asks for `max(1, ⌊size·d⌋)` nonzeros. -/
theorem C20_sptenrand_request (shape : List Nat) :
    (∀ k : Nat, k ≤ numel shape → nonzerosRequest true shape (k : Rat) = .ok k) ∧
    (∀ d : Rat, 0 < d → d ≤ 1 → 0 < numel shape →
      nonzerosRequest true shape (densityRequest true shape d) =
        .ok (max 1 (((numel shape : Nat) : Rat) * d).floor.toNat)) ∧
    (∀ (q : Rat) (nz : Nat), nonzerosRequest true shape q = .ok nz → nz ≤ numel shape) :=
  ⟨nonzerosRequest_nat shape, densityRequest_count shape, nonzerosRequest_le shape⟩

/-- `sptenrand` is `sptensor.from_function` with uniform values and the density turned into a
count once. -/
theorem C20_sptenrand_eq (shape : List Nat) (draw : Nat → List (List Rat)) (vd : Nat → List α) :
    (∀ d : Rat, 0 < d → d ≤ 1 → Sparse.sptenrand shape (some d) none draw vd =
      Sparse.fromFunction shape (densityRequest true shape d) draw vd) ∧
    (∀ q : Rat, Sparse.sptenrand shape none (some q) draw vd = Sparse.fromFunction shape q draw vd) :=
  sptenrand_eq shape draw vd

/-- The random sparse generators return a well-formed tensor of the requested shape whose
values are what the function returned, after at most ten draws — for every accepted request,
all draws in `[0,1)`, and a function that returns as many non-zero values as it is asked for
(contract of the value function: `np.zeros`, or a uniform draw of exactly 0.0, would be
stored as explicit zeros). -/
theorem C20_sptenrand_wf [Zero α] [BEq α] (shape : List Nat) (q : Rat) (nz : Nat)
    (draw : Nat → List (List Rat)) (fh : Nat → List α)
    (hq : nonzerosRequest true shape q = .ok nz)
    (hdraw : ∀ k < 10, ∀ row ∈ draw k, row.length = shape.length ∧ ∀ u ∈ row, 0 ≤ u ∧ u < 1)
    (hfh : ∀ n, (fh n).length = n ∧ ∀ v ∈ fh n, (v == 0) = false) :
    ∃ S cnt, Sparse.fromFunction shape q draw fh = .ok (S, cnt) ∧ S.shape = shape ∧ S.WF ∧ cnt ≤ 10 ∧
      S.vals = fh S.nnz ∧ S.nnz ≤ nz := by
  obtain ⟨S, cnt, h1, h2, h3, h4, h5, h6⟩ := fromFunction_spec shape q nz draw fh hq hdraw hfh
  refine ⟨S, cnt, h1, h2, h3, h4, h5, ?_⟩
  have := (chooseSubs_spec nz fun k => scaleDraw shape (draw k)).2.1
  simpa [Sparse.nnz, h6] using this

/-- The requested count is reached whenever the draws allow it: exactly `nz` nonzeros as soon
as some single draw among the (at most ten) draws, or all ten together, contain `nz`
distinct subscripts `R`; if even the ten draws together contain fewer, all of them are
returned.  (Reaching the count is probabilistic: it fails only when ten draws of `nz` rows
each hit fewer than `nz` distinct cells.) -/
theorem C20_sptenrand_count [Zero α] [BEq α] (shape : List Nat) (q : Rat) (nz : Nat)
    (draw : Nat → List (List Rat)) (fh : Nat → List α)
    (hq : nonzerosRequest true shape q = .ok nz)
    (hdraw : ∀ k < 10, ∀ row ∈ draw k, row.length = shape.length ∧ ∀ u ∈ row, 0 ≤ u ∧ u < 1)
    (hfh : ∀ n, (fh n).length = n ∧ ∀ v ∈ fh n, (v == 0) = false) :
    ∃ S cnt, Sparse.fromFunction shape q draw fh = .ok (S, cnt) ∧
      (∀ R : List (List Nat), R.Nodup → (∀ r ∈ R, ∃ k < 10, r ∈ scaleDraw shape (draw k)) →
        nz ≤ R.length → S.nnz = nz) ∧
      (∀ R : List (List Nat), R.Nodup → (∀ r ∈ R, ∃ k < 10, r ∈ scaleDraw shape (draw k)) →
        R.length < nz → (∀ k < 10, ∀ r ∈ scaleDraw shape (draw k), r ∈ R) → S.nnz = R.length) := by
  obtain ⟨S, cnt, h1, _, _, _, _, h6⟩ := fromFunction_spec shape q nz draw fh hq hdraw hfh
  obtain ⟨_, _, _, _, _, c1, c2⟩ := chooseSubs_spec nz fun k => scaleDraw shape (draw k)
  refine ⟨S, cnt, h1, ?_, ?_⟩
  · intro R hR hmem hlen
    simpa [Sparse.nnz, h6] using c1 R hR hmem hlen
  · intro R hR hmem hlen hall
    simpa [Sparse.nnz, h6] using c2 R hR hmem hlen hall

/-- Reproducibility: the result is a function of the request and of the first ten draws
(and of what the value function returns) — nothing else enters. -/
theorem C20_reproducible (shape : List Nat) (q : Rat) (draw draw' : Nat → List (List Rat))
    (fh : Nat → List α) (h : ∀ k < 10, draw k = draw' k) :
    Sparse.fromFunction shape q draw fh = Sparse.fromFunction shape q draw' fh :=
  fromFunction_congr shape q draw draw' fh h

/-- Refused requests: a negative count, more nonzeros than cells; for `sptenrand` neither or
both of density / nonzeros, a density outside `(0,1]`. -/
theorem C20_sptenrand_rejects (shape : List Nat) (draw : Nat → List (List Rat)) (fh : Nat → List α) :
    (∀ q : Rat, (q < 0 ∨ ((numel shape : Nat) : Rat) < q) →
      Sparse.fromFunction shape q draw fh = .error .reject) ∧
    Sparse.sptenrand shape none none draw fh = .error .reject ∧
    (∀ d q : Rat, Sparse.sptenrand shape (some d) (some q) draw fh = .error .reject) ∧
    (∀ d : Rat, (d ≤ 0 ∨ 1 < d) → Sparse.sptenrand shape (some d) none draw fh = .error .reject) := by
  refine ⟨fun q hq => fromFunction_rejects shape q draw fh hq, rfl, fun d q => rfl, ?_⟩
  intro d hd
  exact (sptenrand_rejects shape (some d) none draw fh).2.2 d rfl rfl hd

/-- The three defects of the pinned code (8.26), on explicit inputs: (a) every redraw replaced
the previous one — ten draws that each hit one cell of a 2-cell tensor, both cells overall,
gave one nonzero where two were requested; (b) a request for as many nonzeros as cells
(density 1.0) was refused; (c) a density below `1/size` was applied twice (`0.005` of 100
cells asked for 50 nonzeros). -/
theorem C20_sptenrand_pinned_counterexample :
    ((chooseSubs false 2 fun k => if k % 2 == 0 then [[0], [0]] else [[1], [1]]).1.length = 1 ∧
     (chooseSubs true 2 fun k => if k % 2 == 0 then [[0], [0]] else [[1], [1]]).1 = [[0], [1]]) ∧
    (nonzerosRequest false [2, 2] 4 = .error .reject ∧ nonzerosRequest true [2, 2] 4 = .ok 4) ∧
    (nonzerosRequest false [10, 10] (densityRequest false [10, 10] (1 / 200)) = .ok 50 ∧
     nonzerosRequest true [10, 10] (densityRequest true [10, 10] (1 / 200)) = .ok 1) := by
  refine ⟨?_, by decide +kernel⟩
  simp [chooseSubs, drawLoop, uniqueRowsSorted, List.mergeSort, List.MergeSort.Internal.splitInTwo, lexLt,
    List.eraseDups_cons]

/-! ### Kruskal generator -/

/-- `ktensor.from_function`: unit weights, the `k`-th produced matrix as the `k`-th factor; the
requested shape when the function returns matrices with the requested row counts. -/
theorem C20_ktensor_from_function [One α] (shape : List Nat) (R : Nat) (outs : List (Mat α))
    (hs : shape ≠ []) (hl : outs.length = shape.length)
    (hc : ∀ A ∈ outs, ∀ row ∈ A, row.length = R) :
    ∃ K, Ktensor.fromFunction shape R outs = .ok K ∧ K.weights = List.replicate R 1 ∧
      K.factors = outs ∧ K.WF ∧ K.ncomp = R ∧ (outs.map List.length = shape → K.shape = shape) :=
  ktensor_fromFunction_spec shape R outs hs hl hc

/-- 0-way shapes and factor matrices of another width are refused. -/
theorem C20_ktensor_rejects [One α] (shape : List Nat) (R : Nat) (outs : List (Mat α)) :
    (shape = [] → Ktensor.fromFunction shape R outs = .error .reject) ∧
    ((∃ A ∈ outs, ∃ row ∈ A, row.length ≠ R) → Ktensor.fromFunction shape R outs = .error .reject) :=
  ktensor_fromFunction_rejects shape R outs

/-! ### non-vacuity -/

example : Dense.tenones (α := Int) [2, 3] = .ok ⟨[2, 3], [1, 1, 1, 1, 1, 1]⟩ := by decide
example : Dense.tendiag ([1, 2] : List Int) (some [3, 1]) =
    .ok ⟨[3, 2], [1, 0, 0, 0, 2, 0]⟩ := by decide
example : Dense.tendiag ([1, 2, 3] : List Int) (some [2]) = .ok ⟨[3], [1, 2, 3]⟩ := by decide
example : pairCount 4 [0, 0, 1, 1] = 8 ∧ fact 4 = 24 := by decide
example : Sparse.fromAggregator [[1, 1], [0, 0], [1, 1]] ([5, 2, -5] : List Int) (some [2, 2]) List.sum =
    .ok ⟨[2, 2], [[0, 0]], [2]⟩ := by
  simp [Sparse.fromAggregator, aggregateWith, groupVals, uniqueRowsSorted, List.mergeSort,
    List.MergeSort.Internal.splitInTwo, lexLt, List.eraseDups_cons, inBounds]
example : Sparse.sptendiag ([1, 0, 3] : List Int) (some [2, 2]) =
    .ok ⟨[3, 3], [[0, 0], [2, 2]], [1, 3]⟩ := by
  simp [Sparse.sptendiag, diagShape, diagSubs, Sparse.fromAggregator, aggregateWith, groupVals, uniqueRowsSorted,
    List.mergeSort, List.MergeSort.Internal.splitInTwo, lexLt, List.eraseDups_cons, inBounds, List.range_succ]
example : isPermOf [2, 0, 3, 1] 4 = true := by decide
/-- finite test (not a theorem about all sizes): order 4, size 2, and its action on `(3,4)`:
`(3²+4²)^(4/2-1) · (3,4) = (75,100)`. -/
example : Dense.teneye (α := Rat) 4 2 = .ok ⟨[2, 2, 2, 2],
    [1, 0, 0, 1/3, 0, 1/3, 1/3, 0, 0, 1/3, 1/3, 0, 1/3, 0, 0, 1]⟩ := by decide +kernel
example : (⟨[2, 2, 2, 2], [1, 0, 0, 1/3, 0, 1/3, 1/3, 0, 0, 1/3, 1/3, 0, 1/3, 0, 0, 1]⟩ : Dense Rat).ttsvFirst
    [3, 4] = .ok [75, 100] := by decide +kernel
example : dotW 2 (xw [(3 : Rat) / 5, 4 / 5]) (xw [(3 : Rat) / 5, 4 / 5]) = 1 := by
  simp [dotW, xw, Finset.sum_range_succ]; norm_num

end Pyttb
