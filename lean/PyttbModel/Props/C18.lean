/-
C18 — decomposition results do not depend on how the problem is presented.

Only property theorems and non-vacuity examples live here; the models are in
`Alg/Presentation.lean` (import-free) and, for the whole CP-ALS run, `Alg/CpAls.lean` (the model of
C09); the proofs in `Lemmas/Presentation.lean` and `Lemmas/PresentationRun.lean`.
All statements are about exact arithmetic (an arbitrary field / ordered field / ℝ); "up to
rounding" in the property is what the paired runs of the harness measure on the implementation.

What is proved for all inputs, and what is not:
* representation: a driver that looks at its data object only through the interface queries
  produces the same state sequence for any two data objects that answer those queries alike
  (`C18_repr_independent`, `_out`); the CP-ALS sweep written against the oracle is such a driver
  (`C18_repr_als_uses_interface`); a dense and a sparse holder with the same denotation answer
  the specification-level interface alike (`C18_repr_denote`); CP-APR, which does NOT go through
  an interface but has one code path per representation, computes the same sums on both paths
  (`C18_repr_apr_phi`, `C18_repr_apr_loglik`).  That the real kernels (`mttkrp`, `innerprod`,
  `norm`) equal the specification sums is C02's business; here it is a hypothesis.
* printing: `C18_print_independent` (+ `_pure`, `_silent`) for the drivers' loop shape, for
  every pair of printing decisions, under a precise "printing only observes" hypothesis;
  `C18_print_apr_renormalise` discharges that hypothesis for the one printing branch that
  writes to the model (PDNR/PQNR's likelihood evaluation).
* seeds: `C18_seed_deterministic`.
* scaling: HOSVD in full at the matrix level (`C18_scale_hosvd`, `C18_scale_hosvd_rank`), one
  Tucker-ALS mode update (`C18_scale_tucker_step`), one CP-ALS mode update
  (`C18_scale_als_step`, and `C18_scale_als_step_colscaled` when the other factors are only known
  up to an invertible column scaling), the reported fits (`C18_scale_fit`).  Whole-run scale
  equivariance of CP-ALS is proved for the branch-by-branch model of `cp_als.py` used by C09
  (`Alg/CpAls.lean`, scalar formulas generated from the source): `C18_scale_cpals_run`, built from
  `C18_scale_cpals_mode_update`, `C18_scale_cpals_pass`, `C18_scale_cpals_sweeps` (simulation
  relation `CpAls.Sim`: factors equal up to positive per-column scalings whose product with the
  weights accounts for `c`) and `C18_scale_cpals_cleanup` (`arrange`/`fixsigns` do not change the
  array).  Hypotheses: exact arithmetic, both runs succeed, `norm() ≠ 0`, and every coefficient
  matrix met by the unscaled run is zero or non-singular (automatic for rank one,
  `C18_scale_cpals_rank_one`).  For CP-APR and GCP nothing is claimed (their losses are not
  scale-equivariant).
* relabelling: `C18_relabel_step`, `C18_relabel_sweep` for any update rule whose per-mode query
  is relabelling-consistent, `C18_relabel_als_query` shows CP-ALS's query is, given the interface
  law `mttkrp (permute X π) (permute U π) k = mttkrp X U (π k)`, and `C18_relabel_mttkrp_spec`
  proves that law for the specification-level `mttkrp`.
-/
import PyttbModel.Lemmas.Presentation
import PyttbModel.Lemmas.PresentationRun
import PyttbModel.Lemmas.PresentationRelabelWitness
import PyttbModel.Lemmas.PresentationTuckerWitness
import PyttbModel.Lemmas.PresentationHosvdWitness
import PyttbModel.Lemmas.PresentationTuckerRelabel
namespace Pyttb
open Pres

/-! ### representation -/

/-- A driver `step` that consults its data oracle only through queries satisfying `P`
(the interface) produces the same iterates — and the same whole state sequence — for two data
objects that answer every interface query alike, however they differ elsewhere (storage,
class, stored order). -/
theorem C18_repr_independent {Q A σ : Type} (P : Q → Prop) (step : (Q → A) → σ → σ)
    (huses : UsesOnly P step) (d₁ d₂ : Q → A) (hag : ∀ q, P q → d₁ q = d₂ q) (k : Nat) (s : σ) :
    iter (step d₁) k s = iter (step d₂) k s ∧ trace (step d₁) k s = trace (step d₂) k s :=
  repr_independent P step huses d₁ d₂ hag k s

/-- …and the same returned model / reported numbers, when the final clean-up also uses only
the interface. -/
theorem C18_repr_independent_out {Q A σ β : Type} (P : Q → Prop) (step : (Q → A) → σ → σ)
    (finish : (Q → A) → σ → β) (huses : UsesOnly P step) (hfin : UsesOnly P finish)
    (d₁ d₂ : Q → A) (hag : ∀ q, P q → d₁ q = d₂ q) (k : Nat) (s : σ) :
    finish d₁ (iter (step d₁) k s) = finish d₂ (iter (step d₂) k s) :=
  repr_independent_out P step finish huses hfin d₁ d₂ hag k s

/-- The CP-ALS outer iteration written against the oracle (MTTKRP per mode in `dimorder`, solve
and normalise, fit from `norm()` and the last MTTKRP) uses only interface queries, for every
solver / normalisation / fit formula and every mode order. -/
theorem C18_repr_als_uses_interface {α : Type} [Zero α]
    (solveNorm : List (Mat α) → Nat → Mat α → Mat α) (fitOf : α → List (Mat α) → Mat α → α)
    (dimorder : List Nat) :
    UsesOnly (fun q : Query α => q.isIface = true) (alsSweep solveNorm fitOf dimorder) :=
  alsSweep_usesOnly solveNorm fitOf dimorder

/-- A dense and a sparse holder of the same shape whose entries agree at every in-bounds
subscript give the same answer to every query of the specification-level oracle (shape, norm,
MTTKRP, inner product with a Kruskal tensor, single entries). -/
theorem C18_repr_denote {α : Type} [Add α] [Mul α] [One α] [Zero α] (T : Dense α) (S : Sparse α)
    (hs : T.shape = S.shape) (hget : ∀ i, InBounds T.shape i → T.get i = S.get i) (q : Query α) :
    denoteOracle T.shape T.get q = denoteOracle S.shape S.get q := by
  rw [← hs]; exact denoteOracle_congr T.shape T.get S.get hget q

/-- `shape` / `ndims` are metadata: the answer to `Query.shape` is the shape itself, whatever the
entries and whatever the representation — it is part of the interface (`isIface`), so a driver that
reads it (every driver does: for the guess; `hosvd` and `tucker_als` also to validate the requested
ranks against it) still satisfies the hypothesis of `C18_repr_independent`. -/
theorem C18_repr_shape_is_metadata {α : Type} [Add α] [Mul α] [One α] [Zero α] (shape : List Nat)
    (g₁ g₂ : List Nat → α) :
    denoteOracle shape g₁ .shape = .nats shape ∧
    denoteOracle shape g₁ .shape = denoteOracle shape g₂ .shape ∧
    (Query.shape : Query α).isIface = true := ⟨rfl, rfl, rfl⟩

/-- Hence the oracle-level CP-ALS iterates from the same guess coincide for the two holders. -/
theorem C18_repr_als_dense_sparse {α : Type} [Add α] [Mul α] [One α] [Zero α]
    (solveNorm : List (Mat α) → Nat → Mat α → Mat α) (fitOf : α → List (Mat α) → Mat α → α)
    (dimorder : List Nat) (T : Dense α) (S : Sparse α)
    (hs : T.shape = S.shape) (hget : ∀ i, InBounds T.shape i → T.get i = S.get i)
    (k : Nat) (s : AlsState α) :
    iter (alsSweep solveNorm fitOf dimorder (denoteOracle T.shape T.get)) k s =
    iter (alsSweep solveNorm fitOf dimorder (denoteOracle S.shape S.get)) k s :=
  (repr_independent _ _ (alsSweep_usesOnly solveNorm fitOf dimorder) _ _
    (fun q _ => C18_repr_denote T S hs hget q) k s).1

/-- CP-APR, multiplicative-update matrix Φ (and the gradient of PDNR/PQNR, which is `1 − Φ`):
the sparse branch (sum over the stored entries of a row) and the dense branch (sum over the
whole unfolded row) are the same number whenever every entry outside the stored set is zero. -/
theorem C18_repr_apr_phi {α J : Type} [Field α] [LinearOrder α] [DecidableEq J]
    (all supp : Finset J) (hsub : supp ⊆ all) (x v p : J → α) (eps : α)
    (hz : ∀ j ∈ all, j ∉ supp → x j = 0) :
    ∑ j ∈ supp, x j / max (v j) eps * p j = ∑ j ∈ all, x j / max (v j) eps * p j :=
  apr_phi_dense_eq_sparse all supp hsub x v p eps hz

/-- CP-APR, data term of the log-likelihood: the sparse sum over stored entries equals the dense
loop that skips zero entries. -/
theorem C18_repr_apr_loglik {α J : Type} [Field α] [LinearOrder α] [DecidableEq J]
    (all supp : Finset J) (hsub : supp ⊆ all) (x g : J → α)
    (hz : ∀ j ∈ all, j ∉ supp → x j = 0) :
    ∑ j ∈ supp, x j * g j = ∑ j ∈ all.filter (fun j => x j ≠ 0), x j * g j :=
  apr_loglik_dense_eq_sparse all supp hsub x g hz

/-! ### printing -/

/-- The drivers' loop (`step`, stop test, printing branch, break).  "Printing only observes"
means precisely: there is an equivalence `R` on states such that what the printing branch does
to the state stays inside the class (`R (observe s) s`), one outer iteration maps equivalent
states to equivalent states, and the stop test cannot tell equivalent states apart.  Then for
ANY two printing decisions (any two printing intervals, silent or not) the final states are
equivalent and the iteration counts are equal. -/
theorem C18_print_independent {σ : Type} (L : Loop σ) (R : σ → σ → Prop) (hR : Equivalence R)
    (hobs : ∀ s, R (L.observe s) s) (hstep : ∀ s t, R s t → R (L.step s) (L.step t))
    (hconv : ∀ it s t, R s t → L.converged it s = L.converged it t)
    (pr₁ pr₂ : Nat → Bool → Bool) (maxiters : Nat) (s : σ) :
    R (L.run pr₁ maxiters 0 s []).state (L.run pr₂ maxiters 0 s []).state ∧
    (L.run pr₁ maxiters 0 s []).iters = (L.run pr₂ maxiters 0 s []).iters :=
  run_print_independent L R hR hobs hstep hconv pr₁ pr₂ maxiters 0 s s [] [] (hR.refl s)

/-- The usual case (`cp_als`, `tucker_als`, `hosvd`, `gcp_opt`, CP-APR's MU): the printing
branch computes a message and leaves the state alone; then the final state is literally the
same for every printing interval — in particular for the intervals 0, 1, 2, 7 of both the
`cp_als` rule (print also on convergence) and the plain modulus rule. -/
theorem C18_print_independent_pure {σ : Type} (L : Loop σ) (hobs : ∀ s, L.observe s = s)
    (p₁ p₂ : Nat) (maxiters : Nat) (s : σ) :
    (L.run (prAls p₁) maxiters 0 s []).state = (L.run (prAls p₂) maxiters 0 s []).state ∧
    (L.run (prMod p₁) maxiters 0 s []).state = (L.run (prMod p₂) maxiters 0 s []).state ∧
    (L.run (prAls p₁) maxiters 0 s []).iters = (L.run (prAls p₂) maxiters 0 s []).iters ∧
    (L.run (prMod p₁) maxiters 0 s []).iters = (L.run (prMod p₂) maxiters 0 s []).iters :=
  ⟨(run_print_independent_pure L hobs _ _ maxiters 0 s [] []).1,
   (run_print_independent_pure L hobs _ _ maxiters 0 s [] []).1,
   (run_print_independent_pure L hobs _ _ maxiters 0 s [] []).2,
   (run_print_independent_pure L hobs _ _ maxiters 0 s [] []).2⟩

/-- interval 0 prints nothing -/
theorem C18_print_silent {σ : Type} (L : Loop σ) (maxiters : Nat) (s : σ) :
    (L.run (prMod 0) maxiters 0 s []).printed = [] ∧ (L.run (prAls 0) maxiters 0 s []).printed = [] := by
  have h1 : prMod 0 = fun _ _ => false := by funext i f; simp [prMod]
  have h2 : prAls 0 = fun _ _ => false := by funext i f; simp [prAls]
  rw [h1, h2]
  exact ⟨run_silent_printed L maxiters 0 s [], run_silent_printed L maxiters 0 s []⟩

/-- CP-APR MU (`tt_cp_apr_mu`): the outer loop modelled WITH its kappa fix-up — at the start of every
mode of every outer iteration after the first, entries of the LIVE factor below `kappatol` whose
multiplier `Phi` of the previous outer iteration is positive are lifted by `kappa` — and with the
per-iteration status line as a pure read (`observe = id`).  For every `kappa`, `kappatol`, every
data-dependent inner update and any two printing decisions the final state (model, multipliers,
counters) and the iteration count coincide. -/
theorem C18_print_independent_mu {α : Type} [Add α] [Zero α] [LT α] [DecidableLT α] (kappa kappatol : α)
    (inner : Ktensor α → Nat → Ktensor α × Mat α × α × Bool) (p₁ p₂ maxiters : Nat) (s : MuState α) :
    ((muLoop kappa kappatol inner).run (prMod p₁) maxiters 0 s []).state =
      ((muLoop kappa kappatol inner).run (prMod p₂) maxiters 0 s []).state ∧
    ((muLoop kappa kappatol inner).run (prMod p₁) maxiters 0 s []).iters =
      ((muLoop kappa kappatol inner).run (prMod p₂) maxiters 0 s []).iters :=
  mu_print_independent kappa kappatol inner _ _ maxiters 0 s [] []

/-- Why strictly positive guesses cannot tell a printing branch that touches the live model from one
that does not: the fix-up is the identity on a factor none of whose entries is below `kappatol`. -/
theorem C18_print_mu_fixup_id {α : Type} [Add α] [Zero α] [LT α] [DecidableLT α] (kappa kappatol : α)
    (Phi A : Mat α) (hsh : List.Forall₂ (fun prow arow => arow.length ≤ prow.length) Phi A)
    (hpos : ∀ arow ∈ A, ∀ a ∈ arow, ¬ a < kappatol) : muFixup kappa kappatol Phi A = A :=
  muFixup_id kappa kappatol Phi A hsh hpos

/-- …and why the live model must not be touched when it has (near-)zero entries: the fix-up does not
commute with a column rescaling of the factor (labelled instance: entry 1, threshold 2, lift 1, column
weight 3 — fix-up then rescale gives 6, rescale then fix-up gives 3).  The equivalence "same Kruskal tensor
up to redistribution of the weights" under which PDNR/PQNR's printing branch is harmless
(`C18_print_apr_renormalise`) is therefore NOT respected by MU's step: MU's printing branch has to be a
pure read. -/
theorem C18_print_mu_fixup_sees_scaling :
    scaleCols (muFixup (1 : Int) 2 [[1]] [[1]]) [3] = [[6]] ∧
    muFixup (1 : Int) 2 [[1]] (scaleCols [[1]] [3]) = [[3]] := by decide

/-- CP-APR PDNR/PQNR: the printing branch evaluates the log-likelihood, which re-normalises the
model IN PLACE (`normalize(weight_factor=0, normtype=1)`).  At the end of an outer iteration
every factor column has 1-norm one; then that re-normalisation followed by the
`redistribute(mode=0)` with which the next outer iteration starts gives exactly the model that
`redistribute(mode=0)` alone gives — the next iterate does not see the printing.
(`colNorms` is the column-norm service; rows no longer than the weight vector.) -/
theorem C18_print_apr_renormalise {α : Type} [Field α] [LinearOrder α] [IsStrictOrderedRing α]
    (colNorms : Mat α → List α) (K : Ktensor α)
    (hnorm : ∀ A ∈ K.factors, colNorms A = List.replicate K.weights.length 1)
    (hrows : ∀ A ∈ K.factors, ∀ row ∈ A, row.length ≤ K.weights.length) :
    redistribute0 (aprObserve colNorms K) = redistribute0 K :=
  apr_observe_then_redistribute colNorms K hnorm hrows

/-! ### seeds -/

/-- A driver with a random start is a function of the draw sequence, and only of the first
`Σ rows·cols` draws of it: two streams (two runs with the same global seed) that agree on
that prefix give the same result. -/
theorem C18_seed_deterministic {α β : Type} (dims : List (Nat × Nat)) (run : List (Mat α) → β)
    (d₁ d₂ : List α) (h : d₁.take (drawsNeeded dims) = d₂.take (drawsNeeded dims)) :
    withRandomStart dims run d₁ = withRandomStart dims run d₂ :=
  seed_deterministic dims run d₁ d₂ h

/-! ### scaling the data by c > 0 -/

section scale
open Matrix
variable {m n r : Type} [Fintype m] [Fintype n] [Fintype r] [DecidableEq r] {𝕜 : Type} [Field 𝕜]

/-- One CP-ALS mode update, normal equations `A⋆ (ZᵀZ) = X₍ₙ₎ Z` (`Z` the Khatri-Rao product of
the other factors): for the data scaled by `c`, `c • A⋆` solves the scaled system — the other
factors are untouched — and the mode-n unfolding `A⋆ Zᵀ` of the model TENSOR scales by `c`;
when `ZᵀZ` is invertible `c • A⋆` is the only solution. -/
theorem C18_scale_als_step (X : Matrix m n 𝕜) (Z : Matrix n r 𝕜) (A : Matrix m r 𝕜) (c : 𝕜)
    (h : A * (Zᵀ * Z) = X * Z) :
    (c • A) * (Zᵀ * Z) = (c • X) * Z ∧ (c • A) * Zᵀ = c • (A * Zᵀ) ∧
    ∀ (Gi : Matrix r r 𝕜) (A' : Matrix m r 𝕜), (Zᵀ * Z) * Gi = 1 →
      A' * (Zᵀ * Z) = (c • X) * Z → A' = c • A :=
  ⟨(als_step_scale X Z A c h).1, (als_step_scale X Z A c h).2,
   fun Gi A' hG h' => als_step_scale_unique X Z A A' Gi c hG h h'⟩

/-- The one data-dependent switch inside a CP-ALS mode update — skip the solve when the coefficient
matrix `Y` (Hadamard product of the other Gram matrices) is exactly zero — is scale-free: for data
scaled by `c ≠ 0` the matrix is `c² Y` (or a positive column rescaling of it) and `c² Y = 0 ↔ Y = 0`.
An absolute tolerance in that test (e.g. `allclose(Y, 0)`) is NOT: it fires for small `c` only. -/
theorem C18_scale_als_zero_guard {r : Type} {𝕜 : Type} [Field 𝕜] (Y : Matrix r r 𝕜) (c : 𝕜) (hc : c ≠ 0) :
    (c * c) • Y = 0 ↔ Y = 0 :=
  als_zero_guard_scale Y c hc

/-- The mode update when the other factors are known only up to an invertible column scaling `D`
(which is what happens in a whole run: after the first sweep CP-ALS normalises columns by
`max(max|·|, 1)`, which is not scale-equivariant, so the factor matrices of the run on `c • X`
differ from those of the run on `X` by a column scaling).  If the other factors enter as `Z D`
instead of `Z`, the update for the data scaled by `c` is `c • A⋆ D⁻ᵀ` and the model tensor is again
exactly `c` times the unscaled one.  (Matrix-level counterpart of `C18_scale_cpals_mode_update`;
the whole run is `C18_scale_cpals_run`.) -/
theorem C18_scale_als_step_colscaled (X : Matrix m n 𝕜) (Z : Matrix n r 𝕜) (A : Matrix m r 𝕜)
    (D E : Matrix r r 𝕜) (c : 𝕜) (hDE : D * E = 1) (h : A * (Zᵀ * Z) = X * Z) :
    (c • (A * Eᵀ)) * ((Z * D)ᵀ * (Z * D)) = (c • X) * (Z * D) ∧
    (c • (A * Eᵀ)) * (Z * D)ᵀ = c • (A * Zᵀ) :=
  als_step_scale_colscaled X Z A D E c hDE h

/-- The reported numbers: relative error `‖X−M‖/‖X‖` (Frobenius), `cp_als`'s fit
`1 − sqrt|‖X‖²+‖M‖²−2⟨X,M⟩|/‖X‖` and `tucker_als`'s fit `1 − sqrt|‖X‖²−‖G‖²|/‖X‖` are unchanged
when data and model are both scaled by `c > 0`. -/
theorem C18_scale_fit {m n : Type} [Fintype m] [Fintype n] (c : ℝ) (hc : 0 < c)
    (X M : Matrix m n ℝ) (normX normM2 iprod core2 : ℝ) :
    relErr (c • X) (c • M) = relErr X M ∧
    alsFit (c * normX) (c * c * normM2) (c * c * iprod) = alsFit normX normM2 iprod ∧
    tuckerFit (c * normX) (c * c * core2) = tuckerFit normX core2 :=
  ⟨relErr_scale c hc X M, alsFit_scale c hc normX normM2 iprod, tuckerFit_scale c hc normX core2⟩

/-- HOSVD on scaled data, per mode: the Gram matrix of the unfolding scales by `c²`; every
eigenpair `(μ, v)` becomes `(c² μ, v)` — same eigenvectors; the projected (shrunk) tensor and
the core `Uᵀ Y` scale by `c`. -/
theorem C18_scale_hosvd (Y : Matrix m n 𝕜) (U : Matrix m r 𝕜) (c : 𝕜) :
    (c • Y) * (c • Y)ᵀ = (c * c) • (Y * Yᵀ) ∧
    (∀ (v : m → 𝕜) (μ : 𝕜), (Y * Yᵀ) *ᵥ v = μ • v → ((c * c) • (Y * Yᵀ)) *ᵥ v = (c * c * μ) • v) ∧
    Uᵀ * (c • Y) = c • (Uᵀ * Y) :=
  ⟨gram_scale Y c, fun v μ h => eig_scale _ v μ (c * c) h, core_scale U Y c⟩

/-- HOSVD's data-dependent decision: the eigenvalue threshold `tol²‖X‖²/d` scales by `c²` like
the eigenvalues, and the rank chosen from the descending eigenvalues (last index whose reverse
cumulative sum exceeds the threshold, plus one; `none` where the code raises) is the same. -/
theorem C18_scale_hosvd_rank {α : Type} [Field α] [LinearOrder α] [IsStrictOrderedRing α]
    (c : α) (hc : 0 < c) (eigs : List α) (tol normSq d : α) :
    eigThresh tol (c * c * normSq) d = c * c * eigThresh tol normSq d ∧
    hosvdRank (eigs.map (c * c * ·)) (eigThresh tol (c * c * normSq) d) =
      hosvdRank eigs (eigThresh tol normSq d) := by
  refine ⟨eigThresh_scale c tol normSq d, ?_⟩
  rw [eigThresh_scale, hosvdRank_scale c hc]

/-- One Tucker-ALS mode update on scaled data: `W = X₍ₙ₎ K` (`K` the Kronecker product of the
other factors) scales by `c`, its Gram matrix by `c²` with the same eigenvectors in the same
order (`μ₁ ≤ μ₂ ↔ c²μ₁ ≤ c²μ₂`), so the leading eigenvectors — the new factor — are unchanged,
and the core `Uᵀ W` scales by `c`. -/
theorem C18_scale_tucker_step (X : Matrix m n ℝ) (K : Matrix n r ℝ) (U : Matrix m r ℝ) (c : ℝ) (hc : 0 < c) :
    (c • X) * K = c • (X * K) ∧
    ((c • X) * K) * ((c • X) * K)ᵀ = (c * c) • ((X * K) * (X * K)ᵀ) ∧
    (∀ (v : m → ℝ) (μ : ℝ), ((X * K) * (X * K)ᵀ) *ᵥ v = μ • v →
      ((c * c) • ((X * K) * (X * K)ᵀ)) *ᵥ v = (c * c * μ) • v) ∧
    (∀ μ₁ μ₂ : ℝ, μ₁ ≤ μ₂ ↔ c * c * μ₁ ≤ c * c * μ₂) ∧
    Uᵀ * ((c • X) * K) = c • (Uᵀ * (X * K)) := by
  have h1 : (c • X) * K = c • (X * K) := Matrix.smul_mul c X K
  refine ⟨h1, ?_, fun v μ h => eig_scale _ v μ (c * c) h, ?_, ?_⟩
  · rw [h1]; exact gram_scale (X * K) c
  · intro μ₁ μ₂; exact (mul_le_mul_iff_right₀ (mul_pos hc hc)).symm
  · rw [h1]; exact core_scale U (X * K) c

end scale


/-! ### scaling the data by c > 0: a whole CP-ALS run

The model is the one of C09 (`Alg/CpAls.lean`: `modeUpdate`, `iterStep`, `loopFrom`, `finish`,
`run`, branch by branch as in `cp_als.py`, scalar formulas generated from the source).  `D` is the
data object of the first run and denotes the array `X` (`DataLaws D X`, the interface laws of C02);
`D'` is the data object of the second run and denotes `c • X`, has the same shape, and answers
`norm()` with `c · D.norm`.  Both runs use the same services (`solve` with its contract
`A · Y = B`), the same lawful number system, the same options and the same start.

`CpAls.Sim c shape rank st st'` — the simulation relation — says: the factor matrices of `st'`
are those of `st` up to positive per-column scalings `d m r` (mode `m`, component `r`) with
`weights'[r] · ∏ₘ d m r = c · weights[r]`; the stored Gram matrices are those of the factors;
`fit' = fit`, `normresidual' = c · normresidual`, same pass counter, same stop flag.
`CpAls.RegularY o Y rank` says: `Y` passes the all-zero guard or is non-singular
(`v · Y = 0 → v = 0`); `RegularSweep` / `RegularLoop` / `RegularRun` say this of every coefficient
matrix the FIRST run meets in a sweep / from some pass on / in the whole run. -/

section cpals_run
open CpAls
variable {α : Type} [Field α] [LinearOrder α] [IsStrictOrderedRing α]

/-- One mode update (`Unew = mttkrp; Y = ∗ UtU; solve (guarded); column scale; store`) maps
related states to related states.  The column scale may be the 2-norm (pass 0) or
`max(max|·|, 1)` (later passes): in both cases the new factor of the second run is the new factor
of the first up to a positive column scaling, and the new weights absorb what is missing to `c`.
The all-zero guard takes the same branch in both runs; the solver's answer is pinned down by its
contract because `Y` is non-singular when the guard does not fire (`hreg`). -/
theorem C18_scale_cpals_mode_update {D D' : Data α} {S : Services α} {o : NumOps α} {X : List Nat → α} {c : α}
    (ho : o.Lawful) (hS : SolveContract S) (hc : 0 < c) (hD : DataLaws D X)
    (hD' : DataLaws D' (fun j => c * X j)) (hs : D'.shape = D.shape) {rank it last n : Nat}
    (hn : n < D.shape.length) {st st' st1 st1' : State α} (hsim : Sim c D.shape rank st st')
    (hreg : RegularY o (coef st.UtU D.shape.length rank n) rank)
    (h : CpAls.modeUpdate D S o rank it last n st = .ok st1)
    (h' : CpAls.modeUpdate D' S o rank it last n st' = .ok st1') :
    Sim c D.shape rank st1 st1' :=
  (modeUpdate_sim ho hS hc hD hD' hs hn hsim hreg h h').1

/-- Related states denote model tensors that differ exactly by the factor `c`:
`[[weights'; U']] = c · [[weights; U]]` (`Ktensor.get`, at every subscript of the right length). -/
theorem C18_scale_cpals_tensor {c : α} {s : List Nat} {rank : Nat} {st st' : State α}
    (h : Sim c s rank st st') (hw : st.weights.length = rank) (j : List Nat) (hj : j.length = s.length) :
    Ktensor.get ⟨st'.weights, st'.U⟩ j = c * Ktensor.get ⟨st.weights, st.U⟩ j :=
  h.tensor hw j hj

/-- One pass of the main loop (all mode updates in `dims`, then `iprod`, `M.norm()`,
`normresidual`, `fit`, `fitchange`, the stop test) maps related states to related states.  In
particular, after the pass: the fit is THE SAME NUMBER in both runs, the stop test gives the same
answer, the residual norm scales by `c`, and the model tensor of the second run is `c` times that
of the first.  (`hnz`: for data whose `norm()` is reported as zero — sum tensors — the code reports
`‖M‖² − 2⟨X,M⟩` as "fit", which scales by `c²`; that case is excluded.) -/
theorem C18_scale_cpals_pass {D D' : Data α} {S : Services α} {o : NumOps α} {X : List Nat → α} {c : α}
    (ho : o.Lawful) (hS : SolveContract S) (hc : 0 < c) (hD : DataLaws D X)
    (hD' : DataLaws D' (fun j => c * X j)) (hs : D'.shape = D.shape)
    (hnorm : D'.norm = c * D.norm) (hnz : D.norm ≠ 0) {rank it : Nat} {stoptol : α}
    {dims : List Nat} (hne : dims ≠ []) (hdims : ∀ n ∈ dims, n < D.shape.length) {st st' st2 st2' : State α}
    (hsim : Sim c D.shape rank st st') (hreg : RegularSweep D S o rank it (dims.getLastD 0) dims st)
    (h : iterStep D S o rank stoptol dims it st = .ok st2)
    (h' : iterStep D' S o rank stoptol dims it st' = .ok st2') :
    Sim c D.shape rank st2 st2' ∧ st2'.fit = st2.fit ∧ st2'.stop = st2.stop ∧
    st2'.normresidual = c * st2.normresidual ∧
    ∀ j, j.length = D.shape.length →
      Ktensor.get ⟨st2'.weights, st2'.U⟩ j = c * Ktensor.get ⟨st2.weights, st2.U⟩ j := by
  obtain ⟨hsim2, hw, _⟩ := iterStep_sim ho hS hc hD hD' hs hnorm hnz hne hdims hsim hreg h h'
  exact ⟨hsim2, hsim2.fit, hsim2.stop, hsim2.normresidual, fun j hj => hsim2.tensor hw j hj⟩

/-- Any number of passes: `for iteration in range(maxiters): pass; if flag == 0: break`, started at
pass `k` with `fuel` passes left in related states (e.g. the common start, `CpAls.sim_init`).  The
two runs take the same stop decision after every pass (the relation is re-established pass by pass
and contains the equality of the fits and of the stop flags), hence execute the same number of
passes, and they end in related states: same last pass index, same fit, residual scaled by `c`,
model tensor scaled by `c`.  No final `arrange` here — that is `C18_scale_cpals_run`. -/
theorem C18_scale_cpals_sweeps {D D' : Data α} {S : Services α} {o : NumOps α} {X : List Nat → α} {c : α}
    (ho : o.Lawful) (hS : SolveContract S) (hc : 0 < c) (hD : DataLaws D X)
    (hD' : DataLaws D' (fun j => c * X j)) (hs : D'.shape = D.shape)
    (hnorm : D'.norm = c * D.norm) (hnz : D.norm ≠ 0) {rank : Nat} {stoptol : α}
    {dims : List Nat} (hne : dims ≠ []) (hdims : ∀ n ∈ dims, n < D.shape.length)
    (fuel k : Nat) (hfuel : 0 < fuel) {st st' stF stF' : State α} (hsim : Sim c D.shape rank st st')
    (hreg : RegularLoop D S o rank stoptol dims fuel k st)
    (h : loopFrom (iterStep D S o rank stoptol dims) fuel k st = .ok stF)
    (h' : loopFrom (iterStep D' S o rank stoptol dims) fuel k st' = .ok stF') :
    Sim c D.shape rank stF stF' ∧ stF'.iteration = stF.iteration ∧ stF'.stop = stF.stop ∧
    stF'.fit = stF.fit ∧ stF'.normresidual = c * stF.normresidual ∧
    ∀ j, j.length = D.shape.length →
      Ktensor.get ⟨stF'.weights, stF'.U⟩ j = c * Ktensor.get ⟨stF.weights, stF.U⟩ j := by
  obtain ⟨hsimF, hw⟩ := loop_sim ho hS hc hD hD' hs hnorm hnz hne hdims fuel k hsim hreg h h'
  exact ⟨hsimF, hsimF.iteration, hsimF.stop, hsimF.fit, hsimF.normresidual,
    fun j hj => hsimF.tensor (hw hfuel) j hj⟩

/-- The final clean-up `M.arrange()` (normalise the columns to 2-norm one, make the weights
non-negative, sort by decreasing weight — in whatever order the sort leaves equal weights) and
`M.fixsigns()` (an even number of sign flips per component) do not change the array the Kruskal
tensor denotes.  So although the two runs may return their components in different orders and with
different signs, the returned model TENSORS are comparable. -/
theorem C18_scale_cpals_cleanup {o : NumOps α} (ho : o.Lawful) (fix : Bool) (K : Ktensor α)
    (h0 : 0 < K.factors.length) (j : List Nat) (hj : j.length = K.factors.length) :
    (cleanup o fix K).get j = K.get j :=
  cleanup_get ho fix K h0 j hj

/-- **Whole-run scale equivariance of CP-ALS.**  Let `run D S o P init` (data `X`) and
`run D' S o P init` (data `c • X`, `c > 0`; same services, options and start) both return.  If
`norm()` of the data is not zero and every coefficient matrix the first run meets is zero (guard) or
non-singular, then: both runs stop after the same pass (`iters`), report the same `fit`, the
residual norm of the second is `c` times that of the first — whether or not the report is
recomputed from the cleaned-up model (`printitn > 0`) —, the returned model tensor of the second
run is `c` times that of the first (`Ktensor.get`, after `arrange` and the optional `fixsigns`),
and `init`, `dimorder`, `optdims` of the output coincide.  The final loop states are related by
the simulation relation.  (`hnv` only matters for `init = "nvecs"`: the leading eigenvectors of
`X₍ₙ₎X₍ₙ₎ᵀ` do not change under scaling, `C18_scale_hosvd`.) -/
theorem C18_scale_cpals_run {D D' : Data α} {S : Services α} {o : NumOps α} {X : List Nat → α} {c : α}
    (ho : o.Lawful) (hS : SolveContract S) (hc : 0 < c) (hD : DataLaws D X)
    (hD' : DataLaws D' (fun j => c * X j)) (hs : D'.shape = D.shape)
    (hnorm : D'.norm = c * D.norm) (hnz : D.norm ≠ 0) {P : Params α} {init : Init α}
    (hnv : init = .nvecs → D'.nvecs = D.nvecs) (hi : InitOK D P.rank init)
    (hreg : RegularRun D S o P init) {out out' : Output α}
    (h : run D S o P init = .ok out) (h' : run D' S o P init = .ok out') :
    out'.iters = out.iters ∧ out'.fit = out.fit ∧ out'.normresidual = c * out.normresidual ∧
    (∀ j, j.length = D.shape.length → out'.M.get j = c * out.M.get j) ∧
    out'.init = out.init ∧ out'.dimorder = out.dimorder ∧ out'.optdims = out.optdims ∧
    ∃ st st' : State α, Sim c D.shape P.rank st st' ∧
      out.M = cleanup o P.fixsigns ⟨st.weights, st.U⟩ ∧ out'.M = cleanup o P.fixsigns ⟨st'.weights, st'.U⟩ :=
  run_scaled ho hS hc hD hD' hs hnorm hnz hnv hi hreg h h'

/-- For rank one the regularity hypothesis of `C18_scale_cpals_run` is no restriction: a `1 × 1`
coefficient matrix is zero (the guard fires) or non-singular. -/
theorem C18_scale_cpals_rank_one {o : NumOps α} (ho : o.Lawful) (D : Data α) (S : Services α) (P : Params α)
    (init : Init α) (hr : P.rank = 1) : RegularRun D S o P init :=
  regularRun_one ho D S P init hr

end cpals_run

/-! ### relabelling the modes -/

section relabel
variable {ι F : Type} [DecidableEq ι]

/-- One mode update commutes with a consistent relabelling: if the per-mode query of the
relabelled problem on the relabelled factors is the original query at the relabelled mode
(`qY (U ∘ π) k = qX U (π k)`), then updating mode `k` of the relabelled problem gives the
relabelling of the original problem's update of mode `π k`. -/
theorem C18_relabel_step (π : Equiv.Perm ι) (qX qY : (ι → F) → ι → F)
    (h : ∀ U k, qY (U ∘ π) k = qX U (π k)) (U : ι → F) (k : ι) :
    modeUpdate qY (U ∘ π) k = modeUpdate qX U (π k) ∘ π :=
  modeUpdate_relabel π qX qY h U k

/-- …and so does a whole sweep when the mode order is relabelled too (`order.map π⁻¹`). -/
theorem C18_relabel_sweep (π : Equiv.Perm ι) (qX qY : (ι → F) → ι → F)
    (h : ∀ U k, qY (U ∘ π) k = qX U (π k)) (order : List ι) (U : ι → F) :
    sweep qY (order.map π.symm) (U ∘ π) = sweep qX order U ∘ π :=
  sweep_relabel π qX qY h order U

/-- CP-ALS's query (solve against the product — Hadamard, commutative — of the other modes'
Gram matrices applied to the MTTKRP) is relabelling-consistent as soon as the data interface
satisfies `mttkrp (permute X π) (permute U π) k = mttkrp X U (π k)`. -/
theorem C18_relabel_als_query [Fintype ι] {G B : Type} [CommMonoid G] (gram : F → G) (solve : G → B → F)
    (π : Equiv.Perm ι) (mX mY : (ι → F) → ι → B) (h : ∀ U k, mY (U ∘ π) k = mX U (π k))
    (U : ι → F) (k : ι) :
    alsQuery gram solve mY (U ∘ π) k = alsQuery gram solve mX U (π k) :=
  alsQuery_relabel gram solve π mX mY h U k

/-- The interface law itself, for `mttkrp` as the sum the property defines (all modes indexed by
one finite type): permuting data and factors consistently permutes the mode argument. -/
theorem C18_relabel_mttkrp_spec [Fintype ι] {κ ρ α : Type} [Fintype κ] [DecidableEq κ] [CommSemiring α]
    (X : (ι → κ) → α) (U : ι → κ → ρ → α) (π : Equiv.Perm ι) (k : ι) (j : κ) (r : ρ) :
    mttkrpF (fun i' => X (i' ∘ π.symm)) (fun m => U (π m)) k j r = mttkrpF X U (π k) j r :=
  mttkrpF_relabel X U π k j r

end relabel

/-! ### relabelling the modes: a whole CP-ALS run

The model is again the one of C09 (`Alg/CpAls.lean`).  `D` is the data object of the first run and denotes the
array `X` of shape `s`; `D'` is the data object of the second run and denotes `permute X p`: shape
`gather s p` (mode `k` of the second problem is mode `p[k]` of the first), entries
`X' j' = X (gather j' (invPerm p))`.  The second run gets the start relabelled (`CpAls.relabelInit`:
`U'[k] = U[p[k]]`, the drawn matrices of a random start likewise), `dimorder` — with the default made
explicit — and `optdims` mapped through `invPerm p` (`CpAls.relabelParams`), and a solver that answers the
request tagged `k` the way the first run's solver answers the request tagged `p[k]`: the solver is a FUNCTION
of the system it is handed (for a solver that ignores the tag: the same solver).  No contract of the solver, no
regularity of the coefficient matrices and no "both runs return" is needed: relabelling is an exact symmetry
of every step.  `CpAls.relabelSt p st` is the state with the per-mode lists (`U`, `UtU`) relabelled;
`CpAls.relabelK p K` the Kruskal tensor with the factor list relabelled and the same weights;
`CpAls.qmap p l` the mode list `l` expressed in modes of the second problem. -/

section cpals_relabel
open CpAls
set_option linter.unusedSectionVars false
variable {α : Type} [Field α] [LinearOrder α] [IsStrictOrderedRing α]

/-- The interface law `mttkrp (permute X p) (U ∘ p) k = mttkrp X U p[k]` — the hypothesis of
`C18_relabel_als_query` — is a consequence of the two `mttkrp` / `innerprod` laws of C02 for `X` and for
`permute X p` (as an equality of matrices: for data whose `mttkrp` returns matrices of the documented size). -/
theorem C18_relabel_mttkrp_law {D D' : Data α} {X : List Nat → α} {p : List Nat}
    (hp : isPermOf p D.shape.length = true) (hD : DataLaws D X)
    (hD' : DataLaws D' (fun j' => X (gather j' (invPerm p)))) (hs : D'.shape = gather D.shape p)
    (hm : MttkrpShaped D) (hm' : MttkrpShaped D')
    {R : Nat} {U : List (Mat α)} (hU : ShapeOK D.shape R U) {k : Nat} (hk : k < D.shape.length) :
    D'.mttkrp (gatherD U p []) k = D.mttkrp U (p.getD k 0) :=
  mttkrp_relabel hp hD hD' hs hm hm' hU hk

/-- One mode update of the concrete model: updating mode `k` of the relabelled problem in the relabelled
state succeeds when updating mode `p[k]` of the original problem does, and gives the relabelled state (same
`mttkrp` matrix, same coefficient matrix — a product over the other modes, commutative —, same guard, same
solver answer, same column scale, same weights).  `hlast` says that `k` is the last mode of the second
sweep exactly when `p[k]` is the last mode of the first. -/
theorem C18_relabel_cpals_mode_update {D D' : Data α} {S S' : Services α} {o : NumOps α} {p : List Nat}
    (h : RelabelHyp D D' S S' p) {rank it last last' k : Nat} (hk : k < D.shape.length)
    (hlast : (k == last') = (p.getD k 0 == last)) {st st1 : State α} (hst : StOK D rank st)
    (hmu : CpAls.modeUpdate D S o rank it last (p.getD k 0) st = .ok st1) :
    CpAls.modeUpdate D' S' o rank it last' k (relabelSt p st) = .ok (relabelSt p st1) :=
  modeUpdate_relabel h hk hlast hst hmu

/-- One pass (the sweep over `dims`, `iprod`, `M.norm()`, `normresidual`, `fit`, the stop test): the pass of
the second run over the relabelled mode list ends in the relabelled state — in particular with the SAME fit,
residual, fit change and stop flag (these fields are not touched by `relabelSt`). -/
theorem C18_relabel_cpals_pass {D D' : Data α} {S S' : Services α} {o : NumOps α} {p : List Nat}
    (h : RelabelHyp D D' S S' p) {rank it : Nat} {stoptol : α} {dims : List Nat} (hne : dims ≠ [])
    (hdims : ∀ n ∈ dims, n < D.shape.length) {st st2 : State α} (hst : StOK D rank st)
    (hi : iterStep D S o rank stoptol dims it st = .ok st2) :
    iterStep D' S' o rank stoptol (qmap p dims) it (relabelSt p st) = .ok (relabelSt p st2) ∧
    (relabelSt p st2).fit = st2.fit ∧ (relabelSt p st2).normresidual = st2.normresidual ∧
    (relabelSt p st2).stop = st2.stop ∧ (relabelSt p st2).weights = st2.weights :=
  ⟨(iterStep_relabel h hne hdims hst hi).1, rfl, rfl, rfl, rfl⟩

/-- Any number of passes: the second run executes the same number of passes (same stop decisions) and ends
in the relabelled final state. -/
theorem C18_relabel_cpals_sweeps {D D' : Data α} {S S' : Services α} {o : NumOps α} {p : List Nat}
    (h : RelabelHyp D D' S S' p) {rank : Nat} {stoptol : α} {dims : List Nat} (hne : dims ≠ [])
    (hdims : ∀ n ∈ dims, n < D.shape.length) (fuel k : Nat) {st stF : State α} (hst : StOK D rank st)
    (hl : loopFrom (iterStep D S o rank stoptol dims) fuel k st = .ok stF) :
    loopFrom (iterStep D' S' o rank stoptol (qmap p dims)) fuel k (relabelSt p st) = .ok (relabelSt p stF) ∧
    (relabelSt p stF).iteration = stF.iteration :=
  ⟨(loop_relabel h hne hdims fuel k hst hl).1, rfl⟩

/-- `arrange()` commutes with the relabelling when no weight is negative (CP-ALS's weights are column
scales): the column norms are taken factor by factor, the weights collect their product — in a different
order of multiplication —, the sign step of `normalize()`, which touches factor 0 (a DIFFERENT factor of the
two problems), does nothing, and both runs sort the same weight vector. -/
theorem C18_relabel_cpals_arrange {p : List Nat} {N : Nat} (hp : isPermOf p N = true) {o : NumOps α} (ho : o.Lawful)
    (K : Ktensor α) (hK : K.factors.length = N) (hw : NoNeg K) (hwf : K.WF) :
    arrange o (relabelK p K) = relabelK p (arrange o K) :=
  arrange_relabel hp ho K hK hw hwf

/-- `fixsigns()` commutes with the relabelling when, in every component, the number of modes whose dominant
entry is negative is even or at most one (`ParityOK`): then the flipped set is all of them / none of them,
whatever the mode order. -/
theorem C18_relabel_cpals_fixsigns {p : List Nat} {N : Nat} (hp : isPermOf p N = true) (o : NumOps α) (K : Ktensor α)
    (hK : K.factors.length = N) (hpar : ParityOK o K) :
    fixsigns o (relabelK p K) = relabelK p (fixsigns o K) :=
  fixsigns_relabel hp o K hK hpar

/-- …and NOT otherwise (finding F18-fixsigns-relabel): with three modes whose dominant entries are all
negative `fixsigns()` flips "the first two" — modes 0, 1 of the model, but modes `p[0] = 2`, `p[1] = 0` of
its relabelling by `p = [2, 0, 1]`.  Explicit instance over ℚ: the two results are not relabellings of each
other (they denote the same array: `C18_scale_cpals_cleanup`). -/
theorem C18_relabel_cpals_fixsigns_counterexample :
    fixsigns ratOps (relabelK [2, 0, 1] negK) ≠ relabelK [2, 0, 1] (fixsigns ratOps negK) ∧
    (fixsigns ratOps negK).factors = [[[1]], [[3], [4]], [[-4], [-3]]] ∧
    (fixsigns ratOps (relabelK [2, 0, 1] negK)).factors = [[[4], [3]], [[1]], [[-3], [-4]]] ∧
    (negModes ratOps negK 0).length = 3 :=
  relabel_fixsigns_counterexample

/-- **Whole-run mode relabelling of CP-ALS.**  If `run D S o P init` (data `X`) returns `out`, then the run on
`permute X p` with the start, `dimorder` and `optdims` relabelled RETURNS too, and its output `out'` satisfies:
the same `iters` (same stop decision after every pass), the same `fit` and `normresidual` — whether kept from
the last pass or recomputed from the cleaned-up model (`printitn > 0`) —, `dimorder` / `optdims` / `init` of
the output relabelled, the same weights, and the returned model TENSOR is the relabelled tensor
(`out'.M.get j' = out.M.get (gather j' (invPerm p))`).  At the level of the factor LISTS: there is one
Kruskal tensor `M1` (the arranged model of the first run) such that `out.M` is `M1` resp. `fixsigns M1` and
`out'.M` is `relabelK p M1` resp. `fixsigns (relabelK p M1)`; hence `out'.M = relabelK p out.M` — factor list
permuted, weights equal — when `fixsigns` is off, and also when it is on and `M1` satisfies the parity
condition.  Without it the factor lists can differ in sign
(`C18_relabel_cpals_fixsigns_counterexample`).
Hypotheses: a lawful number system; `p` a permutation of the modes; the data laws of C02 for `X` and
`permute X p`, whose `mttkrp` return matrices of the documented size; the same `norm()`; the solver a function
of the system (`hsolve`); for `init = "nvecs"` the relabelled `nvecs`; a well-shaped random / nvecs start. -/
theorem C18_relabel_cpals_run {D D' : Data α} {S S' : Services α} {o : NumOps α} {X : List Nat → α} {p : List Nat}
    (ho : o.Lawful) (hp : isPermOf p D.shape.length = true) (hD : DataLaws D X)
    (hD' : DataLaws D' (fun j' => X (gather j' (invPerm p)))) (hs : D'.shape = gather D.shape p)
    (hnorm : D'.norm = D.norm) (hm : MttkrpShaped D) (hm' : MttkrpShaped D')
    (hsolve : ∀ k < D.shape.length, ∀ Y B, S'.solve k Y B = S.solve (p.getD k 0) Y B)
    {P : Params α} {init : Init α}
    (hnv : init = .nvecs → D'.nvecs = D.nvecs.map fun f k r => f (p.getD k 0) r)
    (hi : InitOK D P.rank init) {out : Output α} (hrun : run D S o P init = .ok out) :
    ∃ out' : Output α, run D' S' o (relabelParams p D.shape.length P) (relabelInit p init) = .ok out' ∧
      out'.iters = out.iters ∧ out'.fit = out.fit ∧ out'.normresidual = out.normresidual ∧
      out'.dimorder = qmap p out.dimorder ∧ out'.optdims = relabelOd p P.optdims out.optdims ∧
      out'.init = relabelK p out.init ∧ out'.M.weights = out.M.weights ∧
      (∀ j', j'.length = D.shape.length → out'.M.get j' = out.M.get (gather j' (invPerm p))) ∧
      ∃ M1 : Ktensor α, M1.factors.length = D.shape.length ∧
        out.M = (if P.fixsigns then fixsigns o M1 else M1) ∧
        out'.M = (if P.fixsigns then fixsigns o (relabelK p M1) else relabelK p M1) ∧
        (P.fixsigns = false ∨ ParityOK o M1 → out'.M = relabelK p out.M) :=
  run_relabel ho (relabelHyp_of_laws hp hD hD' hs hnorm hm hm' hsolve) hD hD' hnv hi hrun

end cpals_relabel

/-! ### scaling the data by c > 0: a whole Tucker-ALS run

The model is the one of C10 (`Alg/TuckerAls.lean`: `sweepStep`, `sweep`, `iterate`, `tuckerAlsRun`, scalar
formulas generated from the source), executed over ℝ (`Tk.realOps`).  `Tk.dscale c X` is `c • X`.
`tensor.nvecs` is a service `nvecs k W n r` (call number, tensor, mode, rank).  Its contract `Tk.NvecsSpec`
says nothing about scaling: *whenever the Gram matrix `Z` of the requested unfolding has an `m × r` matrix of
leading eigenvectors in the sense of `Tk.LeadSpec` (orthonormal columns; column `i` an eigenvector for `μ i`;
`μ` decreasing; every eigenvalue with an eigenvector orthogonal to the columns is `≤` every `μ i`; in every
column an entry of largest magnitude is positive — `flipsign`), the answer is one*.  That `LeadSpec Z m r A`
and `LeadSpec (t • Z) m r A` are equivalent for `t > 0` is a theorem (`C18_scale_tucker_nvecs_spec`), so where
the contract has exactly one admissible answer (`∃! A, LeadSpec …` — the generic case of distinct leading
eigenvalues; `Tk.DetRun` says this of every request of the FIRST run) the service must give the same matrix
for `W` and for `c • W` (`C18_scale_tucker_nvecs`): the equality of the factor matrices is a consequence. -/

section tucker_run
open Tk

/-- Leading eigenvectors (in the sense of the contract) of `Z` and of `t • Z`, `t > 0`, are the same matrices. -/
theorem C18_scale_tucker_nvecs_spec {Z : Mat ℝ} {m r : Nat} {A : Mat ℝ} {t : ℝ} (ht : 0 < t) :
    LeadSpec (mscale t Z) m r A ↔ LeadSpec Z m r A :=
  leadSpec_scale_iff ht

/-- A service that satisfies the contract answers the request about `c • W` like the request about `W`
wherever the contract determines the answer: the Gram matrix of the unfolding of `c • W` is `c²` times that of
`W` (`gramMode_dscale`), both answers are leading-eigenvector matrices of the SAME matrix, and there is only one. -/
theorem C18_scale_tucker_nvecs {nvecs : Nat → Dense ℝ → Nat → Nat → Mat ℝ} (hC : NvecsSpec nvecs) {c : ℝ}
    (hc : 0 < c) (k : Nat) (W : Dense ℝ) (n r : Nat)
    (hdet : ∃! A, LeadSpec (gramMode W n) (W.shape.getD n 0) r A) :
    nvecs k (dscale c W) n r = nvecs k W n r :=
  nvecs_dscale hC hc k W n r hdet

/-- One pass of `for n in dimorder` + the core: same factors, the core scaled by `c`, same number of service
calls — and the second sweep fails exactly when the first does. -/
theorem C18_scale_tucker_sweep {nvecs : Nat → Dense ℝ → Nat → Nat → Mat ℝ} (hC : NvecsSpec nvecs) {c : ℝ}
    (hc : 0 < c) (X : Dense ℝ) (rank order : List Nat) (U : List (Mat ℝ)) (calls : Nat)
    (hdet : DetSweep nvecs X rank order ⟨U, none, calls⟩) :
    sweep nvecs (dscale c X) rank order U calls =
      (sweep nvecs X rank order U calls).map fun t => (t.1, dscale c t.2.1, t.2.2) :=
  sweep_dscale hC hc X rank order U calls hdet

/-- **Whole-run scale equivariance of Tucker-ALS.**  For `c > 0`, the same start, options and services, the
run on `c • X` is the run on `X` with every core and every residual norm multiplied by `c`:
`tuckerAlsRun … (c • X) … = (tuckerAlsRun … X …).map (scaleOut c, recs.map (scaleRec c))` — an equality of
results, so the second run rejects exactly when the first does, executes the same number of passes (the list
of executed passes has the same length: same stop iteration), has in every pass the SAME factor matrices, the
core scaled by `c`, the same `fit` and `fitchange`, and returns the same factors, the core scaled by `c`, the
same `uinit`, `iters`, `fit` and `c ·` the residual norm.
Hypotheses: the contract of `nvecs`; `c > 0`; every request of the first run has exactly one admissible answer
(`DetRun`; automatic when all modes have extent one, `Tk.detRun11`); for `init = "nvecs"` (only) the two
starts — answers of the service about the data itself — coincide (`InitScaleOK`). -/
theorem C18_scale_tucker_run {nvecs : Nat → Dense ℝ → Nat → Nat → Mat ℝ} (hC : NvecsSpec nvecs)
    (uniform : Nat → Nat → Nat → Mat ℝ) {c : ℝ} (hc : 0 < c) (X : Dense ℝ) (rank : List Nat) (stoptol : ℝ)
    (maxiters : Int) (dimorder : Option (List Nat)) (init : Tk.Init ℝ) (hinit : InitScaleOK nvecs c X init)
    (hdet : DetRun nvecs uniform X rank maxiters dimorder init) :
    tuckerAlsRun realOps nvecs uniform (dscale c X) rank stoptol maxiters dimorder init =
      (tuckerAlsRun realOps nvecs uniform X rank stoptol maxiters dimorder init).map
        fun t => (scaleOut c t.1, t.2.map (scaleRec c)) :=
  run_dscale hC uniform hc X rank stoptol maxiters dimorder init hinit hdet

/-- The same, read off for a run that returns: the run on `c • X` returns; same `iters`, same `fit`, residual
norm times `c`, the same factor matrices, the core times `c`, and pass by pass the same factors / fits. -/
theorem C18_scale_tucker_run_ok {nvecs : Nat → Dense ℝ → Nat → Nat → Mat ℝ} (hC : NvecsSpec nvecs)
    (uniform : Nat → Nat → Nat → Mat ℝ) {c : ℝ} (hc : 0 < c) (X : Dense ℝ) (rank : List Nat) (stoptol : ℝ)
    (maxiters : Int) (dimorder : Option (List Nat)) (init : Tk.Init ℝ) (hinit : InitScaleOK nvecs c X init)
    (hdet : DetRun nvecs uniform X rank maxiters dimorder init) {out : TaOut ℝ} {recs : List (IterRec ℝ)}
    (h : tuckerAlsRun realOps nvecs uniform X rank stoptol maxiters dimorder init = .ok (out, recs)) :
    ∃ out' recs', tuckerAlsRun realOps nvecs uniform (dscale c X) rank stoptol maxiters dimorder init = .ok (out', recs') ∧
      out'.iters = out.iters ∧ out'.fit = out.fit ∧ out'.normresidual = c * out.normresidual ∧
      out'.solution.factors = out.solution.factors ∧ out'.solution.core = dscale c out.solution.core ∧
      out'.uinit = out.uinit ∧ recs'.length = recs.length ∧
      recs'.map (·.factors) = recs.map (·.factors) ∧ recs'.map (·.fit) = recs.map (·.fit) := by
  refine ⟨scaleOut c out, recs.map (scaleRec c), ?_, rfl, rfl, rfl, rfl, rfl, rfl, by simp, ?_, ?_⟩
  · rw [C18_scale_tucker_run hC uniform hc X rank stoptol maxiters dimorder init hinit hdet, h]; rfl
  · simp [List.map_map, Function.comp_def, scaleRec]
  · simp [List.map_map, Function.comp_def, scaleRec]

end tucker_run

/-! ### relabelling the modes: HOSVD

The model is the one of C10 (`Alg/Hosvd.lean`: `hosvdStep`, `hosvdRun`), over ℝ.  `Tk.permuteD p X` is
`X.permute(p)` by its entry-wise meaning (shape `gather X.shape p`, entry `j'` = entry `gather j' (invPerm p)` of
`X`).  `scipy.linalg.eigh` is the service `eigh c Z` (call number, matrix) and NOTHING is assumed about it. -/

section hosvd_relabel
open Tk CpAls

/-- The mode product and the Gram matrix of an unfolding under relabelling: multiplying mode `k` of the
relabelled array is multiplying mode `p[k]` of the array, and the Gram matrix of the mode-`k` unfolding of the
relabelled array IS (entry by entry, the sum over the other subscripts taken in another order) the Gram matrix
of the mode-`p[k]` unfolding of the array. -/
theorem C18_relabel_hosvd_step {p : List Nat} (Y : Dense ℝ) (hp : isPermOf p Y.shape.length = true) (U : Mat ℝ)
    {k : Nat} (hk : k < Y.shape.length) (tr : Bool) :
    ttmT (permuteD p Y) U k tr = permuteD p (ttmT Y U (p.getD k 0) tr) ∧
    gramMode (permuteD p Y) k = gramMode Y (p.getD k 0) :=
  ⟨ttmT_permuteD Y hp U hk tr, gramMode_permuteD Y hp hk⟩

/-- **Mode relabelling of HOSVD**, sequential and not.  If `hosvd` on `X` returns the Tucker tensor `T` (and the
per-mode records `trace`), then `hosvd` on `X.permute(p)` with the requested ranks relabelled (`gather ranks p`;
automatic ranks stay automatic) and `dimorder` — the default made explicit — mapped through `invPerm p`
RETURNS `relabelT p T`: the factor list relabelled (`factors'[k] = factors[p[k]]`) and the core permuted
(`permuteD p T.core`), with the same per-mode records (same Gram matrices, same eigenvalues in the same order,
same chosen ranks — automatic or given —, same factors), only the mode numbers relabelled.  The threshold
`tol²‖X‖²/d` is the same number (`‖X.permute(p)‖ = ‖X‖`); the `c`-th call of `eigh` gets the same matrix in
both runs.  In the non-sequential variant the core is the product with ALL factors in increasing mode order — a
different order for the two runs; products in distinct modes commute. -/
theorem C18_relabel_hosvd {p : List Nat} (eigh : Nat → Mat ℝ → List ℝ × Mat ℝ) (X : Dense ℝ) (hX : X.WF)
    (hp : isPermOf p X.shape.length = true) (tol : ℝ) (dimorder : Option (List Nat)) (sequential : Bool)
    (ranks : Option (List Nat)) {T : Ttensor ℝ} {trace : List (ModeRec ℝ)}
    (h : hosvdRun realOps eigh X tol dimorder sequential ranks = .ok (T, trace)) :
    hosvdRun realOps eigh (permuteD p X) tol (some (qmap p (modeOrder dimorder X.shape.length))) sequential
        (ranks.map fun r => gather r p) =
      .ok (relabelT p T, trace.map (relabelRec p)) :=
  hosvdRun_relabel eigh X hX hp tol dimorder sequential ranks h

/-- **Whole-run mode relabelling of Tucker-ALS.**  If `tucker_als` on `X` returns `out` (with the executed passes
`recs`), then `tucker_als` on `X.permute(p)` with the rank vector relabelled (`gather ranks p`, a scalar rank expanded
first), the start relabelled (`relabelTInit`: a given list gathered by `p`; `"random"` draws the same matrices, for
the relabelled modes) and `dimorder` — default made explicit — mapped through `invPerm p` RETURNS `relabelOut p out`:
factor list relabelled, core permuted, `uinit` relabelled, the same `iters`, `fit` and `normresidual`; pass by pass
(`relabelIter`) the same fit, residual and fit change (hence the same stop iteration), the factors relabelled and the
core permuted.  The projection on all factors but one multiplies the other modes in increasing order — a different
order for the two problems (products in distinct modes commute); the Gram matrix `nvecs` is asked about for mode
`invPerm p [n]` of the second problem IS the one for mode `n` of the first, so under the contract `NvecsSpec` and the
determinacy hypothesis `DetRun` about the first run (as for `C18_scale_tucker_run`) the answers coincide
(`Tk.nvecs_relabel`).  For `init = "nvecs"` (only) the relation of the two starts is a hypothesis. -/
theorem C18_relabel_tucker_run {nvecs : Nat → Dense ℝ → Nat → Nat → Mat ℝ} (hC : NvecsSpec nvecs)
    (uniform : Nat → Nat → Nat → Mat ℝ) {p : List Nat} (X : Dense ℝ) (hX : X.WF)
    (hp : isPermOf p X.shape.length = true) (rank : List Nat) (stoptol : ℝ) (maxiters : Int)
    (dimorder : Option (List Nat)) (init : Tk.Init ℝ) (hinit : InitRelabelOK nvecs p X init)
    (hdet : DetRun nvecs uniform X rank maxiters dimorder init) {out : TaOut ℝ} {recs : List (IterRec ℝ)}
    (h : tuckerAlsRun realOps nvecs uniform X rank stoptol maxiters dimorder init = .ok (out, recs)) :
    tuckerAlsRun realOps nvecs uniform (permuteD p X) (gather (parseRank rank X.shape.length) p) stoptol maxiters
        (some (qmap p (modeOrder dimorder X.shape.length))) (relabelTInit p init) =
      .ok (relabelOut p out, recs.map (relabelIter p)) :=
  tuckerAlsRun_relabel hC uniform X hX hp rank stoptol maxiters dimorder init hinit hdet h

end hosvd_relabel

/-! ### the hypotheses are satisfiable / the models compute something -/

-- the stream fills matrices row by row, in call order, and reports what is left
example : drawMats [(2, 2), (1, 3)] [1, 2, 3, 4, 5, 6, 7, 8] = ([[[1, 2], [3, 4]], [[5, 6, 7]]], [8]) := by
  decide
example : drawsNeeded [(2, 2), (1, 3)] = 7 := by decide
-- rank choice: eigenvalues 9,4,1 and threshold 2: reverse cumulative sums 14,5,1 → rank 2;
-- scaled by c² = 4 the decision is the same
example : hosvdRank [(9 : Int), 4, 1] 2 = some 2 ∧ hosvdRank [(36 : Int), 16, 4] 8 = some 2 := by decide
example : hosvdRank [(1 : Int), 1] 5 = none := by decide
-- the loop really iterates and really prints, and the printing interval does not change the state
example : let L : Loop Nat := ⟨(· + 3), fun it _ => it == 4, id, fun it s => s!"{it}:{s}"⟩
    (L.run (prMod 2) 10 0 0 []).state = 15 ∧ (L.run (prMod 2) 10 0 0 []).iters = 4 ∧
    (L.run (prMod 2) 10 0 0 []).printed = ["0:3", "2:9", "4:15"] ∧
    (L.run (prAls 7) 10 0 0 []).printed = ["0:3", "4:15"] ∧
    (L.run (prMod 0) 10 0 0 []).state = 15 := by decide
-- the re-normalisation hypothesis is satisfiable: a normalised 2-component model over any ordered field
example {α : Type} [Field α] [LinearOrder α] [IsStrictOrderedRing α] :
    redistribute0 (aprObserve (fun _ => [1, 1]) ⟨[(3 : α), 5], [[[1, 0], [0, 1]], [[1, 1]]]⟩)
    = redistribute0 ⟨[(3 : α), 5], [[[1, 0], [0, 1]], [[1, 1]]]⟩ :=
  C18_print_apr_renormalise _ _ (by intro A _; rfl) (by simp)
-- … and the model computes: weights absorbed into factor 0
example : redistribute0 (⟨[(3 : Int), 5], [[[1, 0], [0, 1]], [[1, 1]]]⟩ : Ktensor Int)
    = ⟨[1, 1], [[[3, 0], [0, 5]], [[1, 1]]]⟩ := by decide
-- whole-run scaling of CP-ALS, all hypotheses of `C18_scale_cpals_run` at once on a concrete instance:
-- ℝ with `Real.sqrt`; data = the 1 × 1 array [[1/2]] and its multiple [[3/2]] (c = 3) behind the
-- interface `CpAls.data11` (its `mttkrp` / `innerprod` satisfy the laws); rank 1, two passes (pass 0
-- uses the 2-norm; in pass 1 the `max(·, 1)` floor is active for 1/2 but not for 3/2, so the factors of
-- the two runs really differ by a column scaling), start all ones, report recomputed, `fixsigns`;
-- the 1 × 1 solver.  Both runs return, and the theorem applies: same `iters`, same `fit`, tensor times 3.
example : ∃ out out' : CpAls.Output ℝ,
    CpAls.run (CpAls.data11 (1 / 2)) CpAls.solve1 CpAls.realNumOps CpAls.params11 (.given CpAls.start11) = .ok out ∧
    CpAls.run (CpAls.data11 (3 * (1 / 2))) CpAls.solve1 CpAls.realNumOps CpAls.params11 (.given CpAls.start11) = .ok out' ∧
    out'.iters = out.iters ∧ out'.fit = out.fit ∧ out'.normresidual = 3 * out.normresidual ∧
    out'.M.get [0, 0] = 3 * out.M.get [0, 0] := by
  obtain ⟨out, out', hS, hD, hD', hs, hnorm, hnz, hnv, hi, hreg, h, h'⟩ :=
    CpAls.instance11 CpAls.realNumOps_lawful (1 / 2 : ℝ) 3 (by norm_num)
  obtain ⟨r1, r2, r3, r4, _⟩ :=
    C18_scale_cpals_run CpAls.realNumOps_lawful hS (by norm_num) hD hD' hs hnorm hnz hnv hi hreg h h'
  exact ⟨out, out', h, h', r1, r2, r3, r4 [0, 0] rfl⟩
-- whole-run relabelling of CP-ALS, all hypotheses of `C18_relabel_cpals_run` at once on a concrete instance:
-- ℝ with `Real.sqrt`; data = the 2 × 1 array [[3], [4]] behind the interface `CpAls.data21` and its transpose
-- [[3, 4]] behind `CpAls.data12` (both satisfy the laws, proved entry by entry), p = [1, 0]; rank 1, two passes,
-- dimorder [1, 0] (so the second run sweeps [0, 1]), start all ones, report recomputed, `fixsigns`; the 1 × 1
-- solver.  The first run returns, hence the second does, with the same `iters` / `fit` and the transposed tensor.
example : ∃ out out' : CpAls.Output ℝ,
    CpAls.run (CpAls.data21 3 4 5) CpAls.solve1 CpAls.realNumOps CpAls.params21 (.given CpAls.start21) = .ok out ∧
    CpAls.run (CpAls.data12 3 4 5) CpAls.solve1 CpAls.realNumOps
      (CpAls.relabelParams [1, 0] 2 CpAls.params21) (.given (CpAls.relabelK [1, 0] CpAls.start21)) = .ok out' ∧
    out'.iters = out.iters ∧ out'.fit = out.fit ∧ out'.dimorder = [0, 1] ∧ out'.M.weights = out.M.weights ∧
    out'.M.get [0, 1] = out.M.get [1, 0] := by
  obtain ⟨out, hH, hD, hD', hi, h⟩ := CpAls.instance21 CpAls.realNumOps_lawful (3 : ℝ) 4 5
  obtain ⟨out', h', r1, r2, _, r4, _, _, r7, r8, _⟩ :=
    CpAls.run_relabel CpAls.realNumOps_lawful hH hD hD' (fun hn => by cases hn) hi h
  refine ⟨out, out', h, h', r1, r2, ?_, r7, r8 [0, 1] rfl⟩
  rw [r4]
  obtain ⟨di, od, dims, K, st, hsu, _, _, rfl⟩ := CpAls.run_ok h
  rw [CpAls.setup21] at hsu
  cases hsu
  show CpAls.qmap [1, 0] [1, 0] = [0, 1]
  decide
-- the parity condition of `C18_relabel_cpals_fixsigns` is satisfiable by a model with negative columns
-- (two negative modes: both are flipped, in any mode order), and fails for the counterexample
example : CpAls.ParityOK CpAls.ratOps ⟨[2], [[[-1]], [[3], [4]], [[-4], [-3]]]⟩ ∧ ¬ CpAls.ParityOK CpAls.ratOps CpAls.negK := by
  unfold CpAls.ParityOK
  decide
-- whole-run scaling of Tucker-ALS, all hypotheses of `C18_scale_tucker_run` at once: the service `Tk.svc1` satisfies
-- the contract (it answers [[1]] for a mode of extent one, otherwise — by choice — some matrix of leading eigenvectors
-- when there is one); data = the 1 × 1 array [[2]] and 3 · [[2]]; ranks [1, 1], second mode first, given start; every
-- request has exactly one admissible answer; the first run returns, hence the second: same factors, core times 3.
example : ∃ out recs out' recs',
    Tk.tuckerAlsRun Tk.realOps Tk.svc1 (fun _ _ _ => []) Tk.X11 [1, 1] 0 1 (some [1, 0]) (.list [[[1]], [[1]]]) = .ok (out, recs) ∧
    Tk.tuckerAlsRun Tk.realOps Tk.svc1 (fun _ _ _ => []) (Tk.dscale 3 Tk.X11) [1, 1] 0 1 (some [1, 0]) (.list [[[1]], [[1]]])
      = .ok (out', recs') ∧
    out'.fit = out.fit ∧ out'.iters = out.iters ∧ out'.solution.factors = out.solution.factors ∧
    out'.solution.core = Tk.dscale 3 out.solution.core := by
  obtain ⟨⟨out, recs⟩, h⟩ := Tk.run11_ok
  obtain ⟨out', recs', h', r1, r2, _, r4, r5, _⟩ :=
    C18_scale_tucker_run_ok Tk.svc1_spec (fun _ _ _ => []) (c := 3) (by norm_num) Tk.X11 [1, 1] 0 1 (some [1, 0])
      (.list [[[1]], [[1]]]) trivial (Tk.detRun11 _ _ _ _ _) h
  exact ⟨out, recs, out', recs', h, h', r2, r1, r4, r5⟩
-- the determinacy hypothesis of the Tucker-ALS theorems (`∃! A, LeadSpec …`) is not confined to modes of extent one: for
-- the 2 × 1 array [[3], [4]] the Gram matrix of the mode-0 unfolding is [[9, 12], [12, 16]] (eigenvalues 25 and 0), and
-- the contract has exactly one admissible answer for one leading vector, [[3/5], [4/5]]
example : ∃! A, Tk.LeadSpec (Tk.gramMode ⟨[2, 1], [3, 4]⟩ 0) 2 1 A := by
  rw [Tk.gramMode_34]; exact Tk.leadSpec_34_existsUnique
-- relabelling of HOSVD on a concrete instance, both variants: the 2 × 1 array [[3], [4]], p = [1, 0], ranks [1, 1],
-- second mode first, and a service `Tk.eighE1` that is not even an eigen-solver (nothing is assumed about `eigh`).
-- The run returns; hence the run on the transposed array with dimorder [0, 1] returns the relabelled Tucker tensor.
example (seq : Bool) : ∃ T trace,
    Tk.hosvdRun Tk.realOps Tk.eighE1 Tk.X21 0 (some [1, 0]) seq (some [1, 1]) = .ok (T, trace) ∧
    Tk.hosvdRun Tk.realOps Tk.eighE1 (Tk.permuteD [1, 0] Tk.X21) 0 (some [0, 1]) seq (some [1, 1]) =
      .ok (Tk.relabelT [1, 0] T, trace.map (Tk.relabelRec [1, 0])) := by
  obtain ⟨⟨T, trace⟩, h⟩ := Tk.hosvd21_ok seq
  exact ⟨T, trace, h, C18_relabel_hosvd (p := [1, 0]) Tk.eighE1 Tk.X21 Tk.X21_WF (by decide) 0 (some [1, 0]) seq (some [1, 1]) h⟩
-- relabelling of Tucker-ALS, all hypotheses of `C18_relabel_tucker_run` on the instance of the scaling example (service
-- `Tk.svc1` satisfying the contract, the 1 × 1 array [[2]], ranks [1, 1], given start, determinacy), p = [1, 0]
example : ∃ out recs,
    Tk.tuckerAlsRun Tk.realOps Tk.svc1 (fun _ _ _ => []) Tk.X11 [1, 1] 0 1 (some [1, 0]) (.list [[[1]], [[1]]]) = .ok (out, recs) ∧
    Tk.tuckerAlsRun Tk.realOps Tk.svc1 (fun _ _ _ => []) (Tk.permuteD [1, 0] Tk.X11) [1, 1] 0 1 (some [0, 1])
      (.list [[[1]], [[1]]]) = .ok (Tk.relabelOut [1, 0] out, recs.map (Tk.relabelIter [1, 0])) := by
  obtain ⟨⟨out, recs⟩, h⟩ := Tk.run11_ok
  exact ⟨out, recs, h, C18_relabel_tucker_run (p := [1, 0]) Tk.svc1_spec (fun _ _ _ => []) Tk.X11
    (show ([2] : List ℝ).length = numel [1, 1] by decide) (by decide) [1, 1] 0 1 (some [1, 0]) (.list [[[1]], [[1]]]) trivial (Tk.detRun11 _ _ _ _ _) h⟩
-- the MU fix-up acts exactly on the (near-)zero entries with a positive multiplier, never in the first iteration
example : muFixupIf 1 (1 : Int) 1 [[1, 0], [2, 3]] [[0, 0], [5, 0]] = [[1, 0], [5, 1]] ∧
    muFixupIf 0 (1 : Int) 1 [[1, 0], [2, 3]] [[0, 0], [5, 0]] = [[0, 0], [5, 0]] ∧
    muViolates (1 : Int) [[1, 0], [2, 3]] [[0, 0], [5, 0]] = true ∧
    muViolates (1 : Int) [[1, 0], [2, 3]] [[4, 0], [5, 2]] = false := by decide
-- the interface predicate separates the two kinds of query
example : (Query.mttkrp ([] : List (Mat Int)) 0).isIface = true ∧ (Query.stored 0 : Query Int).isIface = false := by
  decide

end Pyttb
