/-
C18 — decomposition results do not depend on how the problem is presented.

Only property theorems and non-vacuity examples live here; the models are in
`Alg/Presentation.lean` (import-free), the proofs in `Lemmas/Presentation.lean`.
All statements are about exact arithmetic (an arbitrary field / ordered field / ℝ); "up to
rounding" in the property is what the paired runs of the harness measure on the implementation.

What is proved for all inputs, and what is not:
* representation: a driver that looks at its data object only through the interface queries
  produces the same state sequence for any two data objects that answer those queries alike
  (`C18_repr_independent`, `_out`); the CP-ALS sweep written against the oracle is such a driver
  (`C18_repr_als_uses_interface`); a dense and a sparse holder with the same denotation answer
  the specification-level interface alike (`C18_repr_denote`); CP-APR, which does NOT go through
  an interface but has one code path per representation, computes the same sums on both paths
  (`C18_repr_apr_phi`, `C18_repr_apr_loglik`).  That the real kernels (`mttkrp`, `innerprod`,
  `norm`) equal the specification sums is C02's business; here it is a hypothesis.
* printing: `C18_print_independent` (+ `_pure`, `_silent`) for the drivers' loop shape, for
  every pair of printing decisions, under a precise "printing only observes" hypothesis;
  `C18_print_apr_renormalise` discharges that hypothesis for the one printing branch that
  writes to the model (PDNR/PQNR's likelihood evaluation).
* seeds: `C18_seed_deterministic`.
* scaling: HOSVD in full at the matrix level (`C18_scale_hosvd`, `C18_scale_hosvd_rank`), one
  Tucker-ALS mode update (`C18_scale_tucker_step`), one CP-ALS mode update
  (`C18_scale_als_step`), the reported fits (`C18_scale_fit`).  Whole-run scale equivariance of
  CP-ALS is `C18_scale_cpals_run_partial`: only the simulation step (factors equal up to an
  invertible column scaling ⇒ the next update is again so and the model tensor scales by c) is
  proved, not the induction over a run; for CP-APR and GCP nothing is claimed (their losses are
  not scale-equivariant).
* relabelling: `C18_relabel_step`, `C18_relabel_sweep` for any update rule whose per-mode query
  is relabelling-consistent, `C18_relabel_als_query` shows CP-ALS's query is, given the interface
  law `mttkrp (permute X π) (permute U π) k = mttkrp X U (π k)`, and `C18_relabel_mttkrp_spec`
  proves that law for the specification-level `mttkrp`.
-/
import PyttbModel.Lemmas.Presentation
namespace Pyttb
open Pres

/-! ### representation -/

/-- A driver `step` that consults its data oracle only through queries satisfying `P`
(the interface) produces the same iterates — and the same whole state sequence — for two data
objects that answer every interface query alike, however they differ elsewhere (storage,
class, stored order). -/
theorem C18_repr_independent {Q A σ : Type} (P : Q → Prop) (step : (Q → A) → σ → σ)
    (huses : UsesOnly P step) (d₁ d₂ : Q → A) (hag : ∀ q, P q → d₁ q = d₂ q) (k : Nat) (s : σ) :
    iter (step d₁) k s = iter (step d₂) k s ∧ trace (step d₁) k s = trace (step d₂) k s :=
  repr_independent P step huses d₁ d₂ hag k s

/-- …and the same returned model / reported numbers, when the final clean-up also uses only
the interface. -/
theorem C18_repr_independent_out {Q A σ β : Type} (P : Q → Prop) (step : (Q → A) → σ → σ)
    (finish : (Q → A) → σ → β) (huses : UsesOnly P step) (hfin : UsesOnly P finish)
    (d₁ d₂ : Q → A) (hag : ∀ q, P q → d₁ q = d₂ q) (k : Nat) (s : σ) :
    finish d₁ (iter (step d₁) k s) = finish d₂ (iter (step d₂) k s) :=
  repr_independent_out P step finish huses hfin d₁ d₂ hag k s

/-- The CP-ALS outer iteration written against the oracle (MTTKRP per mode in `dimorder`, solve
and normalise, fit from `norm()` and the last MTTKRP) uses only interface queries, for every
solver / normalisation / fit formula and every mode order. -/
theorem C18_repr_als_uses_interface {α : Type} [Zero α]
    (solveNorm : List (Mat α) → Nat → Mat α → Mat α) (fitOf : α → List (Mat α) → Mat α → α)
    (dimorder : List Nat) :
    UsesOnly (fun q : Query α => q.isIface = true) (alsSweep solveNorm fitOf dimorder) :=
  alsSweep_usesOnly solveNorm fitOf dimorder

/-- A dense and a sparse holder of the same shape whose entries agree at every in-bounds
subscript give the same answer to every query of the specification-level oracle (shape, norm,
MTTKRP, inner product with a Kruskal tensor, single entries). -/
theorem C18_repr_denote {α : Type} [Add α] [Mul α] [One α] [Zero α] (T : Dense α) (S : Sparse α)
    (hs : T.shape = S.shape) (hget : ∀ i, InBounds T.shape i → T.get i = S.get i) (q : Query α) :
    denoteOracle T.shape T.get q = denoteOracle S.shape S.get q := by
  rw [← hs]; exact denoteOracle_congr T.shape T.get S.get hget q

/-- Hence the oracle-level CP-ALS iterates from the same guess coincide for the two holders. -/
theorem C18_repr_als_dense_sparse {α : Type} [Add α] [Mul α] [One α] [Zero α]
    (solveNorm : List (Mat α) → Nat → Mat α → Mat α) (fitOf : α → List (Mat α) → Mat α → α)
    (dimorder : List Nat) (T : Dense α) (S : Sparse α)
    (hs : T.shape = S.shape) (hget : ∀ i, InBounds T.shape i → T.get i = S.get i)
    (k : Nat) (s : AlsState α) :
    iter (alsSweep solveNorm fitOf dimorder (denoteOracle T.shape T.get)) k s =
    iter (alsSweep solveNorm fitOf dimorder (denoteOracle S.shape S.get)) k s :=
  (repr_independent _ _ (alsSweep_usesOnly solveNorm fitOf dimorder) _ _
    (fun q _ => C18_repr_denote T S hs hget q) k s).1

/-- CP-APR, multiplicative-update matrix Φ (and the gradient of PDNR/PQNR, which is `1 − Φ`):
the sparse branch (sum over the stored entries of a row) and the dense branch (sum over the
whole unfolded row) are the same number whenever every entry outside the stored set is zero. -/
theorem C18_repr_apr_phi {α J : Type} [Field α] [LinearOrder α] [DecidableEq J]
    (all supp : Finset J) (hsub : supp ⊆ all) (x v p : J → α) (eps : α)
    (hz : ∀ j ∈ all, j ∉ supp → x j = 0) :
    ∑ j ∈ supp, x j / max (v j) eps * p j = ∑ j ∈ all, x j / max (v j) eps * p j :=
  apr_phi_dense_eq_sparse all supp hsub x v p eps hz

/-- CP-APR, data term of the log-likelihood: the sparse sum over stored entries equals the dense
loop that skips zero entries. -/
theorem C18_repr_apr_loglik {α J : Type} [Field α] [LinearOrder α] [DecidableEq J]
    (all supp : Finset J) (hsub : supp ⊆ all) (x g : J → α)
    (hz : ∀ j ∈ all, j ∉ supp → x j = 0) :
    ∑ j ∈ supp, x j * g j = ∑ j ∈ all.filter (fun j => x j ≠ 0), x j * g j :=
  apr_loglik_dense_eq_sparse all supp hsub x g hz

/-! ### printing -/

/-- The drivers' loop (`step`, stop test, printing branch, break).  "Printing only observes"
means precisely: there is an equivalence `R` on states such that what the printing branch does
to the state stays inside the class (`R (observe s) s`), one outer iteration maps equivalent
states to equivalent states, and the stop test cannot tell equivalent states apart.  Then for
ANY two printing decisions (any two printing intervals, silent or not) the final states are
equivalent and the iteration counts are equal. -/
theorem C18_print_independent {σ : Type} (L : Loop σ) (R : σ → σ → Prop) (hR : Equivalence R)
    (hobs : ∀ s, R (L.observe s) s) (hstep : ∀ s t, R s t → R (L.step s) (L.step t))
    (hconv : ∀ it s t, R s t → L.converged it s = L.converged it t)
    (pr₁ pr₂ : Nat → Bool → Bool) (maxiters : Nat) (s : σ) :
    R (L.run pr₁ maxiters 0 s []).state (L.run pr₂ maxiters 0 s []).state ∧
    (L.run pr₁ maxiters 0 s []).iters = (L.run pr₂ maxiters 0 s []).iters :=
  run_print_independent L R hR hobs hstep hconv pr₁ pr₂ maxiters 0 s s [] [] (hR.refl s)

/-- The usual case (`cp_als`, `tucker_als`, `hosvd`, `gcp_opt`, CP-APR's MU): the printing
branch computes a message and leaves the state alone; then the final state is literally the
same for every printing interval — in particular for the intervals 0, 1, 2, 7 of both the
`cp_als` rule (print also on convergence) and the plain modulus rule. -/
theorem C18_print_independent_pure {σ : Type} (L : Loop σ) (hobs : ∀ s, L.observe s = s)
    (p₁ p₂ : Nat) (maxiters : Nat) (s : σ) :
    (L.run (prAls p₁) maxiters 0 s []).state = (L.run (prAls p₂) maxiters 0 s []).state ∧
    (L.run (prMod p₁) maxiters 0 s []).state = (L.run (prMod p₂) maxiters 0 s []).state ∧
    (L.run (prAls p₁) maxiters 0 s []).iters = (L.run (prAls p₂) maxiters 0 s []).iters ∧
    (L.run (prMod p₁) maxiters 0 s []).iters = (L.run (prMod p₂) maxiters 0 s []).iters :=
  ⟨(run_print_independent_pure L hobs _ _ maxiters 0 s [] []).1,
   (run_print_independent_pure L hobs _ _ maxiters 0 s [] []).1,
   (run_print_independent_pure L hobs _ _ maxiters 0 s [] []).2,
   (run_print_independent_pure L hobs _ _ maxiters 0 s [] []).2⟩

/-- interval 0 prints nothing -/
theorem C18_print_silent {σ : Type} (L : Loop σ) (maxiters : Nat) (s : σ) :
    (L.run (prMod 0) maxiters 0 s []).printed = [] ∧ (L.run (prAls 0) maxiters 0 s []).printed = [] := by
  have h1 : prMod 0 = fun _ _ => false := by funext i f; simp [prMod]
  have h2 : prAls 0 = fun _ _ => false := by funext i f; simp [prAls]
  rw [h1, h2]
  exact ⟨run_silent_printed L maxiters 0 s [], run_silent_printed L maxiters 0 s []⟩

/-- CP-APR PDNR/PQNR: the printing branch evaluates the log-likelihood, which re-normalises the
model IN PLACE (`normalize(weight_factor=0, normtype=1)`).  At the end of an outer iteration
every factor column has 1-norm one; then that re-normalisation followed by the
`redistribute(mode=0)` with which the next outer iteration starts gives exactly the model that
`redistribute(mode=0)` alone gives — the next iterate does not see the printing.
(`colNorms` is the column-norm service; rows no longer than the weight vector.) -/
theorem C18_print_apr_renormalise {α : Type} [Field α] [LinearOrder α] [IsStrictOrderedRing α]
    (colNorms : Mat α → List α) (K : Ktensor α)
    (hnorm : ∀ A ∈ K.factors, colNorms A = List.replicate K.weights.length 1)
    (hrows : ∀ A ∈ K.factors, ∀ row ∈ A, row.length ≤ K.weights.length) :
    redistribute0 (aprObserve colNorms K) = redistribute0 K :=
  apr_observe_then_redistribute colNorms K hnorm hrows

/-! ### seeds -/

/-- A driver with a random start is a function of the draw sequence, and only of the first
`Σ rows·cols` draws of it: two streams (two runs with the same global seed) that agree on
that prefix give the same result. -/
theorem C18_seed_deterministic {α β : Type} (dims : List (Nat × Nat)) (run : List (Mat α) → β)
    (d₁ d₂ : List α) (h : d₁.take (drawsNeeded dims) = d₂.take (drawsNeeded dims)) :
    withRandomStart dims run d₁ = withRandomStart dims run d₂ :=
  seed_deterministic dims run d₁ d₂ h

/-! ### scaling the data by c > 0 -/

section scale
open Matrix
variable {m n r : Type} [Fintype m] [Fintype n] [Fintype r] [DecidableEq r] {𝕜 : Type} [Field 𝕜]

/-- One CP-ALS mode update, normal equations `A⋆ (ZᵀZ) = X₍ₙ₎ Z` (`Z` the Khatri-Rao product of
the other factors): for the data scaled by `c`, `c • A⋆` solves the scaled system — the other
factors are untouched — and the mode-n unfolding `A⋆ Zᵀ` of the model TENSOR scales by `c`;
when `ZᵀZ` is invertible `c • A⋆` is the only solution. -/
theorem C18_scale_als_step (X : Matrix m n 𝕜) (Z : Matrix n r 𝕜) (A : Matrix m r 𝕜) (c : 𝕜)
    (h : A * (Zᵀ * Z) = X * Z) :
    (c • A) * (Zᵀ * Z) = (c • X) * Z ∧ (c • A) * Zᵀ = c • (A * Zᵀ) ∧
    ∀ (Gi : Matrix r r 𝕜) (A' : Matrix m r 𝕜), (Zᵀ * Z) * Gi = 1 →
      A' * (Zᵀ * Z) = (c • X) * Z → A' = c • A :=
  ⟨(als_step_scale X Z A c h).1, (als_step_scale X Z A c h).2,
   fun Gi A' hG h' => als_step_scale_unique X Z A A' Gi c hG h h'⟩

/-- The one data-dependent switch inside a CP-ALS mode update — skip the solve when the coefficient
matrix `Y` (Hadamard product of the other Gram matrices) is exactly zero — is scale-free: for data
scaled by `c ≠ 0` the matrix is `c² Y` (or a positive column rescaling of it) and `c² Y = 0 ↔ Y = 0`.
An absolute tolerance in that test (e.g. `allclose(Y, 0)`) is NOT: it fires for small `c` only. -/
theorem C18_scale_als_zero_guard {r : Type} {𝕜 : Type} [Field 𝕜] (Y : Matrix r r 𝕜) (c : 𝕜) (hc : c ≠ 0) :
    (c * c) • Y = 0 ↔ Y = 0 :=
  als_zero_guard_scale Y c hc

/-- PARTIAL (whole-run scale equivariance of CP-ALS).  After the first sweep CP-ALS normalises
columns by `max(max|·|, 1)`, which is not scale-equivariant, so the factor matrices of the two
runs differ by an invertible column scaling `D`.  What is proved is the simulation step: if the
other factors enter as `Z D` instead of `Z`, the update for the data scaled by `c` is
`c • A⋆ D⁻ᵀ` and the model tensor is again exactly `c` times the unscaled one.  NOT proved: the
induction over modes and outer iterations (it needs the Khatri-Rao structure of `Z` to turn the
per-factor scalings into `D`), the equality of the stop decisions, and anything for CP-APR and
GCP (whose losses are not scale-equivariant).  The harness checks the whole-run statement on
the implementation with `stoptol = 0`. -/
theorem C18_scale_cpals_run_partial (X : Matrix m n 𝕜) (Z : Matrix n r 𝕜) (A : Matrix m r 𝕜)
    (D E : Matrix r r 𝕜) (c : 𝕜) (hDE : D * E = 1) (h : A * (Zᵀ * Z) = X * Z) :
    (c • (A * Eᵀ)) * ((Z * D)ᵀ * (Z * D)) = (c • X) * (Z * D) ∧
    (c • (A * Eᵀ)) * (Z * D)ᵀ = c • (A * Zᵀ) :=
  als_step_scale_colscaled X Z A D E c hDE h

/-- The reported numbers: relative error `‖X−M‖/‖X‖` (Frobenius), `cp_als`'s fit
`1 − sqrt|‖X‖²+‖M‖²−2⟨X,M⟩|/‖X‖` and `tucker_als`'s fit `1 − sqrt|‖X‖²−‖G‖²|/‖X‖` are unchanged
when data and model are both scaled by `c > 0`. -/
theorem C18_scale_fit {m n : Type} [Fintype m] [Fintype n] (c : ℝ) (hc : 0 < c)
    (X M : Matrix m n ℝ) (normX normM2 iprod core2 : ℝ) :
    relErr (c • X) (c • M) = relErr X M ∧
    alsFit (c * normX) (c * c * normM2) (c * c * iprod) = alsFit normX normM2 iprod ∧
    tuckerFit (c * normX) (c * c * core2) = tuckerFit normX core2 :=
  ⟨relErr_scale c hc X M, alsFit_scale c hc normX normM2 iprod, tuckerFit_scale c hc normX core2⟩

/-- HOSVD on scaled data, per mode: the Gram matrix of the unfolding scales by `c²`; every
eigenpair `(μ, v)` becomes `(c² μ, v)` — same eigenvectors; the projected (shrunk) tensor and
the core `Uᵀ Y` scale by `c`. -/
theorem C18_scale_hosvd (Y : Matrix m n 𝕜) (U : Matrix m r 𝕜) (c : 𝕜) :
    (c • Y) * (c • Y)ᵀ = (c * c) • (Y * Yᵀ) ∧
    (∀ (v : m → 𝕜) (μ : 𝕜), (Y * Yᵀ) *ᵥ v = μ • v → ((c * c) • (Y * Yᵀ)) *ᵥ v = (c * c * μ) • v) ∧
    Uᵀ * (c • Y) = c • (Uᵀ * Y) :=
  ⟨gram_scale Y c, fun v μ h => eig_scale _ v μ (c * c) h, core_scale U Y c⟩

/-- HOSVD's data-dependent decision: the eigenvalue threshold `tol²‖X‖²/d` scales by `c²` like
the eigenvalues, and the rank chosen from the descending eigenvalues (last index whose reverse
cumulative sum exceeds the threshold, plus one; `none` where the code raises) is the same. -/
theorem C18_scale_hosvd_rank {α : Type} [Field α] [LinearOrder α] [IsStrictOrderedRing α]
    (c : α) (hc : 0 < c) (eigs : List α) (tol normSq d : α) :
    eigThresh tol (c * c * normSq) d = c * c * eigThresh tol normSq d ∧
    hosvdRank (eigs.map (c * c * ·)) (eigThresh tol (c * c * normSq) d) =
      hosvdRank eigs (eigThresh tol normSq d) := by
  refine ⟨eigThresh_scale c tol normSq d, ?_⟩
  rw [eigThresh_scale, hosvdRank_scale c hc]

/-- One Tucker-ALS mode update on scaled data: `W = X₍ₙ₎ K` (`K` the Kronecker product of the
other factors) scales by `c`, its Gram matrix by `c²` with the same eigenvectors in the same
order (`μ₁ ≤ μ₂ ↔ c²μ₁ ≤ c²μ₂`), so the leading eigenvectors — the new factor — are unchanged,
and the core `Uᵀ W` scales by `c`. -/
theorem C18_scale_tucker_step (X : Matrix m n ℝ) (K : Matrix n r ℝ) (U : Matrix m r ℝ) (c : ℝ) (hc : 0 < c) :
    (c • X) * K = c • (X * K) ∧
    ((c • X) * K) * ((c • X) * K)ᵀ = (c * c) • ((X * K) * (X * K)ᵀ) ∧
    (∀ (v : m → ℝ) (μ : ℝ), ((X * K) * (X * K)ᵀ) *ᵥ v = μ • v →
      ((c * c) • ((X * K) * (X * K)ᵀ)) *ᵥ v = (c * c * μ) • v) ∧
    (∀ μ₁ μ₂ : ℝ, μ₁ ≤ μ₂ ↔ c * c * μ₁ ≤ c * c * μ₂) ∧
    Uᵀ * ((c • X) * K) = c • (Uᵀ * (X * K)) := by
  have h1 : (c • X) * K = c • (X * K) := Matrix.smul_mul c X K
  refine ⟨h1, ?_, fun v μ h => eig_scale _ v μ (c * c) h, ?_, ?_⟩
  · rw [h1]; exact gram_scale (X * K) c
  · intro μ₁ μ₂; exact (mul_le_mul_iff_right₀ (mul_pos hc hc)).symm
  · rw [h1]; exact core_scale U (X * K) c

end scale

/-! ### relabelling the modes -/

section relabel
variable {ι F : Type} [DecidableEq ι]

/-- One mode update commutes with a consistent relabelling: if the per-mode query of the
relabelled problem on the relabelled factors is the original query at the relabelled mode
(`qY (U ∘ π) k = qX U (π k)`), then updating mode `k` of the relabelled problem gives the
relabelling of the original problem's update of mode `π k`. -/
theorem C18_relabel_step (π : Equiv.Perm ι) (qX qY : (ι → F) → ι → F)
    (h : ∀ U k, qY (U ∘ π) k = qX U (π k)) (U : ι → F) (k : ι) :
    modeUpdate qY (U ∘ π) k = modeUpdate qX U (π k) ∘ π :=
  modeUpdate_relabel π qX qY h U k

/-- …and so does a whole sweep when the mode order is relabelled too (`order.map π⁻¹`). -/
theorem C18_relabel_sweep (π : Equiv.Perm ι) (qX qY : (ι → F) → ι → F)
    (h : ∀ U k, qY (U ∘ π) k = qX U (π k)) (order : List ι) (U : ι → F) :
    sweep qY (order.map π.symm) (U ∘ π) = sweep qX order U ∘ π :=
  sweep_relabel π qX qY h order U

/-- CP-ALS's query (solve against the product — Hadamard, commutative — of the other modes'
Gram matrices applied to the MTTKRP) is relabelling-consistent as soon as the data interface
satisfies `mttkrp (permute X π) (permute U π) k = mttkrp X U (π k)`. -/
theorem C18_relabel_als_query [Fintype ι] {G B : Type} [CommMonoid G] (gram : F → G) (solve : G → B → F)
    (π : Equiv.Perm ι) (mX mY : (ι → F) → ι → B) (h : ∀ U k, mY (U ∘ π) k = mX U (π k))
    (U : ι → F) (k : ι) :
    alsQuery gram solve mY (U ∘ π) k = alsQuery gram solve mX U (π k) :=
  alsQuery_relabel gram solve π mX mY h U k

/-- The interface law itself, for `mttkrp` as the sum the property defines (all modes indexed by
one finite type): permuting data and factors consistently permutes the mode argument. -/
theorem C18_relabel_mttkrp_spec [Fintype ι] {κ ρ α : Type} [Fintype κ] [DecidableEq κ] [CommSemiring α]
    (X : (ι → κ) → α) (U : ι → κ → ρ → α) (π : Equiv.Perm ι) (k : ι) (j : κ) (r : ρ) :
    mttkrpF (fun i' => X (i' ∘ π.symm)) (fun m => U (π m)) k j r = mttkrpF X U (π k) j r :=
  mttkrpF_relabel X U π k j r

end relabel

/-! ### the hypotheses are satisfiable / the models compute something -/

-- the stream fills matrices row by row, in call order, and reports what is left
example : drawMats [(2, 2), (1, 3)] [1, 2, 3, 4, 5, 6, 7, 8] = ([[[1, 2], [3, 4]], [[5, 6, 7]]], [8]) := by
  decide
example : drawsNeeded [(2, 2), (1, 3)] = 7 := by decide
-- rank choice: eigenvalues 9,4,1 and threshold 2: reverse cumulative sums 14,5,1 → rank 2;
-- scaled by c² = 4 the decision is the same
example : hosvdRank [(9 : Int), 4, 1] 2 = some 2 ∧ hosvdRank [(36 : Int), 16, 4] 8 = some 2 := by decide
example : hosvdRank [(1 : Int), 1] 5 = none := by decide
-- the loop really iterates and really prints, and the printing interval does not change the state
example : let L : Loop Nat := ⟨(· + 3), fun it _ => it == 4, id, fun it s => s!"{it}:{s}"⟩
    (L.run (prMod 2) 10 0 0 []).state = 15 ∧ (L.run (prMod 2) 10 0 0 []).iters = 4 ∧
    (L.run (prMod 2) 10 0 0 []).printed = ["0:3", "2:9", "4:15"] ∧
    (L.run (prAls 7) 10 0 0 []).printed = ["0:3", "4:15"] ∧
    (L.run (prMod 0) 10 0 0 []).state = 15 := by decide
-- the re-normalisation hypothesis is satisfiable: a normalised 2-component model over any ordered field
example {α : Type} [Field α] [LinearOrder α] [IsStrictOrderedRing α] :
    redistribute0 (aprObserve (fun _ => [1, 1]) ⟨[(3 : α), 5], [[[1, 0], [0, 1]], [[1, 1]]]⟩)
    = redistribute0 ⟨[(3 : α), 5], [[[1, 0], [0, 1]], [[1, 1]]]⟩ :=
  C18_print_apr_renormalise _ _ (by intro A _; rfl) (by simp)
-- … and the model computes: weights absorbed into factor 0
example : redistribute0 (⟨[(3 : Int), 5], [[[1, 0], [0, 1]], [[1, 1]]]⟩ : Ktensor Int)
    = ⟨[1, 1], [[[3, 0], [0, 5]], [[1, 1]]]⟩ := by decide
-- the interface predicate separates the two kinds of query
example : (Query.mttkrp ([] : List (Mat Int)) 0).isIface = true ∧ (Query.stored 0 : Query Int).isIface = false := by
  decide

end Pyttb
