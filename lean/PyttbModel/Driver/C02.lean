import PyttbModel.Driver.C07
import PyttbModel.Driver.C17
import PyttbModel.Ops.MultilinearKT
import PyttbModel.Ops.MultilinearTS
import PyttbModel.Ops.MultilinearTtsv
import PyttbModel.Spec.Multilinear
import PyttbModel.Spec.MultilinearTtsv
open Lean Pyttb Pyttb.Codec
namespace Pyttb.Driver

/-! JSON forms of the C02 operands and results. -/

def asPart (j : Json) : R (ML.Part Rat) := do
  let k ← field j "kind" >>= asStr
  match k with
  | "dense" => do let t ← asDense j; .ok (.dense t)
  | "sparse" => do let s ← asSparse j; .ok (.sparse s)
  | "kruskal" => do let t ← asKtensor j; .ok (.kruskal t)
  | "tucker" => do let t ← asTtensor j; .ok (.tucker t)
  | _ => .error s!"bad part kind {k}"

/-- Any holder: a single object or a sum tensor. -/
def asHolder (j : Json) : R (ML.Part Rat ⊕ ML.Sumtensor Rat) := do
  let k ← field j "kind" >>= asStr
  if k == "sum" then do
    let ps ← field j "parts" >>= asList asPart
    .ok (.inr ps)
  else do
    let p ← asPart j
    .ok (.inl p)

def tag (k : String) (j : Json) : Json := j.mergeObj (Json.mkObj [("kind", Json.str k)])

def partJ : ML.Part Rat → Json
  | .dense t => tag "dense" (denseJ t)
  | .sparse s => tag "sparse" (sparseJ s)
  | .kruskal k => tag "kruskal" (ktensorJ k)
  | .tucker t => tag "tucker" (ttensorJ t)

def scalarJ (v : Rat) : Json := Json.mkObj [("kind", Json.str "scalar"), ("value", ratJ v)]

def resJ : ML.Res Rat → Json
  | .scalar v => scalarJ v
  | .dense t => tag "dense" (denseJ t)
  | .sparse s => tag "sparse" (sparseJ s)
  | .vec v => Json.mkObj [("kind", Json.str "vec"), ("data", ratsJ v)]

def sorJ {τ} (f : τ → Json) : ScalarOr Rat τ → Json
  | .scalar v => scalarJ v
  | .obj t => f t

def matJ (M : Mat Rat) : Json := ratMatJ M

def asMatArg (j : Json) : R (Dense.MatArg Rat) := do
  let rows ← field j "rows" >>= asRatMat
  let m ← field j "m" >>= asNat
  let n ← field j "n" >>= asNat
  .ok ⟨rows, m, n⟩

def asKOperand (j : Json) : R (KOperand Rat) :=
  match fieldOpt j "list" with
  | some l => do let u ← asList asRatMat l; .ok (.list u)
  | none => do let k ← field j "kruskal" >>= asKtensor; .ok (.kruskal k)

/-- Denotation of a holder, tabulated once (so that the spec sums read a table). -/
def holderDen : ML.Part Rat ⊕ ML.Sumtensor Rat → Den Rat
  | .inl p => (Den.tab ⟨p.shape, p.get⟩).den
  | .inr ps =>
    let shape := (ps.headD (.dense ⟨[], []⟩)).shape
    (Den.tab (Spec.sumDen shape (ps.map fun p => ⟨p.shape, p.get⟩))).den

def both (model spec : Json) : Json := Json.mkObj [("model", model), ("spec", spec)]

/-- A spec value over a result shape: a scalar for the empty shape, else the table. -/
def specTab (shape : List Nat) (f : List Nat → Rat) : Json :=
  if shape.isEmpty then scalarJ (f []) else tag "dense" (denseJ (Dense.ofFn shape f))

def vecAt (sel : List Nat) (ws : List (List Rat)) (d k : Nat) : Rat := (ws.getD (sel.idxOf d) []).getD k 0

def reducer (name : String) : R (List Rat → Rat) :=
  match name with
  | "sum" => .ok List.sum
  | "sumsq" => .ok fun l => (l.map fun x => x * x).sum
  | "max" => .ok fun l => match l with | [] => 0 | x :: xs => xs.foldl max x
  | "min" => .ok fun l => match l with | [] => 0 | x :: xs => xs.foldl min x
  | "prod" => .ok fun l => l.foldl (· * ·) 1
  | "count" => .ok fun l => (l.filter (· != 0)).length
  | "sumabs" => .ok fun l => (l.map fun x => if x < 0 then -x else x).sum
  | _ => .error s!"unknown reducer {name}"


/-- A Tucker tensor whose core is dense (`{"shape","data"}`) or sparse (`{"shape","subs","vals"}`). -/
def asTuckerAny (j : Json) : R (TuckerAny Rat) := do
  let cj ← field j "core"
  let fs ← field j "factors" >>= asList asRatMat
  match fieldOpt cj "subs" with
  | some _ => do let c ← asSparse cj; .ok (.sparseCore ⟨c, fs⟩)
  | none => do let c ← asDense cj; .ok (.denseCore ⟨c, fs⟩)

/-- The dense-core Tucker tensor with the same entries (spec side only). -/
def tuckerAnyExpand : TuckerAny Rat → Ttensor Rat
  | .denseCore t => t
  | .sparseCore t => ⟨t.core.full, t.factors⟩

def ttsvResJ : ML.TtsvRes Rat → Json
  | .scalar v => scalarJ v
  | .vec v => Json.mkObj [("kind", Json.str "vec"), ("data", ratsJ v)]
  | .mat t => Json.mkObj [("kind", Json.str "mat"),
      ("rows", ratMatJ (reshape2 t.data (t.shape.getD 0 0) (t.shape.getD 1 0)))]
  | .tensor t => tag "dense" (denseJ t)

def ops02 : List (String × Op) := [
  ("c02_ttv", fun j => do
    let X ← field j "X" >>= asHolder
    let vs ← field j "vs" >>= asList asRats
    let dims ← optInts j "dims"
    let excl ← optInts j "excl"
    let sel ← field j "sel" >>= asNats
    let ws ← field j "ws" >>= asList asRats
    let model : Json := match X with
      | .inl (.dense t) => exceptJ (sorJ (fun o => tag "dense" (denseJ o))) (t.ttv vs dims excl)
      | .inl (.sparse s) => exceptJ resJ (s.ttv vs dims excl)
      | .inl (.kruskal k) => exceptJ (sorJ (fun o => tag "kruskal" (ktensorJ o))) (k.ttv vs dims excl)
      | .inl (.tucker t) => exceptJ (sorJ (fun o => tag "tucker" (ttensorJ o))) (t.ttv vs dims excl)
      | .inr ps => exceptJ (sorJ (fun o => Json.mkObj [("kind", Json.str "sum"), ("parts", listJ partJ o)]))
                    (ML.Sumtensor.ttv ps vs dims excl)
    let D := holderDen X
    let spec := specTab (Spec.ttvShape D.shape sel) (Spec.ttv D sel (vecAt sel ws))
    .ok (both model spec)),
  ("c02_ttm", fun j => do
    let X ← field j "X" >>= asPart
    let Ms ← field j "Ms" >>= asList asMatArg
    let dims ← optInts j "dims"
    let excl ← optInts j "excl"
    let tr ← field j "tr" >>= asBool
    let sel ← field j "sel" >>= asNats
    let msel ← field j "msel" >>= asList asMatArg
    let model : Json := match X with
      | .dense t => exceptJ (fun o => tag "dense" (denseJ o)) (t.ttm Ms dims excl tr)
      | .sparse s => exceptJ (fun o => tag "dense" (denseJ o)) (s.ttm Ms dims excl tr)
      | .tucker t => exceptJ (fun o => tag "tucker" (ttensorJ o)) (t.ttm Ms dims excl tr)
      | .kruskal _ => rejectJ
    let D := holderDen (.inl X)
    let ent (d a b : Nat) : Rat :=
      let M := (msel.getD (sel.idxOf d) ⟨[], 0, 0⟩)
      if tr then M.rows.get b a else M.rows.get a b
    let outShape := (List.range D.shape.length).map fun d =>
      if sel.contains d then
        let M := (msel.getD (sel.idxOf d) ⟨[], 0, 0⟩)
        if tr then M.n else M.m
      else D.shape.getD d 0
    let spec := specTab outShape (Spec.ttm D sel ent)
    .ok (both model spec)),
  ("c02_mttkrp", fun j => do
    let X ← field j "X" >>= asHolder
    let U ← field j "U" >>= asKOperand
    let n ← field j "n" >>= asNat
    let fs ← field j "fs" >>= asList asRatMat
    let lam ← field j "lam" >>= asRats
    let model : Json := match X with
      | .inl p => exceptJ matJ (p.mttkrp U n)
      | .inr ps => exceptJ matJ (ML.Sumtensor.mttkrp ps U n)
    let D := holderDen X
    let R := lam.length
    let spec := matJ ((List.range (D.shape.getD n 0)).map fun i => (List.range R).map fun r =>
      Spec.mttkrp D (fun m a c => Mat.get (fs.getD m []) a c) (fun r => lam.getD r 0) n i r)
    .ok (both model spec)),
  ("c02_mttkrps", fun j => do
    let X ← field j "X" >>= asDense
    let U ← field j "U" >>= asKOperand
    let fs ← field j "fs" >>= asList asRatMat
    let lam ← field j "lam" >>= asRats
    let D := holderDen (.inl (.dense X))
    let R := lam.length
    let spec := listJ matJ ((List.range D.shape.length).map fun n =>
      (List.range (D.shape.getD n 0)).map fun i => (List.range R).map fun r =>
        Spec.mttkrp D (fun m a c => Mat.get (fs.getD m []) a c) (fun r => lam.getD r 0) n i r)
    .ok (both (exceptJ (listJ matJ) (X.mttkrps U)) spec)),
  ("c02_innerprod", fun j => do
    let X ← field j "X" >>= asHolder
    let Y ← field j "Y" >>= asPart
    let model : Json := match X with
      | .inl p => exceptJ ratJ (p.innerprod Y)
      | .inr ps => exceptJ ratJ (ML.Sumtensor.innerprod ps Y)
    let spec := ratJ (Spec.inner (holderDen X) (holderDen (.inl Y)))
    .ok (both model spec)),
  ("c02_norm", fun j => do
    let X ← field j "X" >>= asPart
    let model : Json := match X with
      | .dense t => Json.mkObj [("ok", ratJ t.normSq)]
      | .sparse s => Json.mkObj [("ok", ratJ s.normSq)]
      | .kruskal k => Json.mkObj [("ok", ratJ k.normSq)]
      | .tucker t => exceptJ ratJ t.normSq
    .ok (both model (ratJ (Spec.normSq (holderDen (.inl X)))))),
  ("c02_contract", fun j => do
    let X ← field j "X" >>= asPart
    let a ← field j "a" >>= asNat
    let b ← field j "b" >>= asNat
    let model : Json := match X with
      | .dense t => exceptJ (sorJ (fun o => tag "dense" (denseJ o))) (t.contract a b)
      | .sparse s => exceptJ resJ (s.contract a b)
      | _ => rejectJ
    let D := holderDen (.inl X)
    let spec := specTab (gather D.shape (complDims D.shape.length [a, b])) (Spec.contract D a b)
    .ok (both model spec)),
  ("c02_collapse", fun j => do
    let X ← field j "X" >>= asPart
    let dims ← optInts j "dims"
    let fname ← field j "fun" >>= asStr
    let f ← reducer fname
    let sel ← field j "sel" >>= asNats
    let model : Json := match X with
      | .dense t => exceptJ (sorJ (fun o => tag "dense" (denseJ o))) (t.collapse dims f)
      | .sparse s => exceptJ resJ (s.collapse dims f)
      | _ => rejectJ
    let D := holderDen (.inl X)
    let spec := specTab (gather D.shape (complDims D.shape.length sel)) (Spec.collapse D sel f)
    .ok (both model spec)),
  ("c02_scale", fun j => do
    let X ← field j "X" >>= asPart
    let dims ← field j "dims" >>= asInts
    let sel ← field j "sel" >>= asNats
    let Fj ← field j "F"
    let fk ← field Fj "kind" >>= asStr
    let F : Sparse.ScaleFactor Rat ← match fk with
      | "dense" => do let t ← asDense Fj; pure (Sparse.ScaleFactor.dense t)
      | "sparse" => do let s ← asSparse Fj; pure (Sparse.ScaleFactor.sparse s)
      | _ => do let v ← field Fj "data" >>= asRats; pure (Sparse.ScaleFactor.array v)
    let Fden : Den Rat := match F with
      | .dense t => t.den
      | .sparse s => s.den
      | .array v => (⟨[v.length], v⟩ : Dense Rat).den
    let model : Json := match X, F with
      | .dense t, .dense f => exceptJ (fun o => tag "dense" (denseJ o)) (t.scale f dims)
      | .dense t, .array v => exceptJ (fun o => tag "dense" (denseJ o)) (t.scale ⟨[v.length], v⟩ dims)
      | .sparse s, f => exceptJ (fun o => tag "sparse" (sparseJ o)) (s.scale f dims)
      | _, _ => rejectJ
    let D := holderDen (.inl X)
    let spec := specTab D.shape (Spec.scale D Fden sel)
    .ok (both model spec)),
  ("c02_ttt", fun j => do
    let X ← field j "X" >>= asDense
    let Y ← field j "Y" >>= asDense
    let xd ← field j "xd" >>= asNats
    let yd ← field j "yd" >>= asNats
    let model := exceptJ (sorJ (fun o => tag "dense" (denseJ o))) (X.ttt Y xd yd)
    let na := (complDims X.shape.length xd).length
    let shape := Spec.tttShape X.shape Y.shape xd yd
    let spec := specTab shape fun i => Spec.ttt X.den Y.den xd yd (i.take na) (i.drop na)
    .ok (both model spec)),
  ("c02_full", fun j => do
    let X ← field j "X" >>= asHolder
    let model : Json := match X with
      | .inl p => exceptJ (fun o => tag "dense" (denseJ o)) p.full
      | .inr ps => exceptJ (fun o => tag "dense" (denseJ o)) (ML.Sumtensor.full ps)
    let D := holderDen X
    .ok (both model (tag "dense" (denseJ (Den.tab D))))),
  ("c02_mask", fun j => do
    let K ← field j "X" >>= asKtensor
    let W ← field j "W" >>= asPart
    let (wshape, wsubs) : List Nat × List (List Nat) := match W with
      | .dense t => (t.shape, t.find.1)
      | .sparse s => (s.shape, s.subs)
      | _ => ([], [])
    let spec := ratsJ (wsubs.map K.get)
    .ok (both (exceptJ ratsJ (K.mask wshape wsubs)) spec)),
  ("c02_reconstruct", fun j => do
    let T ← field j "X" >>= asTtensor
    let asSample (sj : Json) : R (ReconSample Rat) :=
      match fieldOpt sj "idx" with
      | some l => do let v ← asNats l; .ok (.idx v)
      | none => do let m ← asMatArg sj; .ok (.mat m)
    let samples ← match fieldOpt j "samples" with
      | none => pure none
      | some v => do let l ← asList asSample v; pure (some l)
    let modes ← optNats j "modes"
    -- spec side: the sampled modes with their selection / mixing matrices, chosen by the harness
    let sel ← field j "sel" >>= asNats
    let ssel ← field j "ssel" >>= asList asSample
    let D := holderDen (.inl (.tucker T))
    let ent (d a b : Nat) : Rat :=
      match ssel.getD (sel.idxOf d) (.idx []) with
      | .idx l => if l.getD a 0 == b then 1 else 0
      | .mat M => M.rows.get a b
    let outShape := (List.range D.shape.length).map fun d =>
      if sel.contains d then
        match ssel.getD (sel.idxOf d) (.idx []) with
        | .idx l => l.length
        | .mat M => M.m
      else D.shape.getD d 0
    let spec := specTab outShape (Spec.ttm D sel ent)
    .ok (both (exceptJ (fun o => tag "dense" (denseJ o)) (T.reconstruct samples modes)) spec)),
  ("c02_tucker_sp", fun j => do
    -- Tucker tensor with a sparse core: `full`, `ttv`, `innerprod`, `norm`, `mttkrp`
    let Xj ← field j "X"
    let core ← field Xj "core" >>= asSparse
    let fs ← field Xj "factors" >>= asList asRatMat
    let T : TtensorS Rat := ⟨core, fs⟩
    let Xd ← field j "Xd" >>= asTtensor        -- the same object with the core expanded (spec side)
    let D := holderDen (.inl (.tucker Xd))
    let what ← field j "what" >>= asStr
    if what == "full" then
      .ok (both (exceptJ (fun o => tag "dense" (denseJ o)) T.full) (tag "dense" (denseJ (Den.tab D))))
    else if what == "norm" then
      .ok (both (exceptJ ratJ T.normSq) (ratJ (Spec.normSq D)))
    else if what == "innerprod" then do
      -- `X.innerprod(Y)` or (`rev`) `Y.innerprod(X)`; `Y` dense / sparse / Kruskal / Tucker of either core kind
      let Yj ← field j "Y"
      let yk ← field Yj "kind" >>= asStr
      let rev := (fieldOpt j "rev").isSome
      if yk == "tucker" then do
        let Y ← asTuckerAny Yj
        let DY := holderDen (.inl (.tucker (tuckerAnyExpand Y)))
        let model := if rev then TuckerAny.innerprodT Y (.sparseCore T) else TuckerAny.innerprodT (.sparseCore T) Y
        .ok (both (exceptJ ratJ model) (ratJ (Spec.inner D DY)))
      else do
        let Y ← asPart Yj
        let DY := holderDen (.inl Y)
        -- dense / sparse / Kruskal operands reverse their arguments and run the Tucker code
        let model : Json := match Y with
          | .dense y => exceptJ ratJ (T.innerprodDense y)
          | .sparse y => exceptJ ratJ (T.innerprodSparse y)
          | .kruskal y => exceptJ ratJ (T.innerprodKruskal y)
          | .tucker _ => rejectJ
        .ok (both model (ratJ (Spec.inner D DY)))
    else if what == "mttkrp" then do
      let U ← field j "U" >>= asKOperand
      let n ← field j "n" >>= asNat
      let ufs ← field j "fs" >>= asList asRatMat
      let lam ← field j "lam" >>= asRats
      let R := lam.length
      let spec := matJ ((List.range (D.shape.getD n 0)).map fun i => (List.range R).map fun r =>
        Spec.mttkrp D (fun m a c => Mat.get (ufs.getD m []) a c) (fun r => lam.getD r 0) n i r)
      .ok (both (exceptJ matJ (T.mttkrp U n)) spec)
    else do
      let vs ← field j "vs" >>= asList asRats
      let dims ← optInts j "dims"
      let excl ← optInts j "excl"
      let sel ← field j "sel" >>= asNats
      let ws ← field j "ws" >>= asList asRats
      let tuckerAnyJ : TuckerAny Rat → Json
        | .denseCore t => Json.mkObj [("kind", Json.str "tucker"), ("core", tag "dense" (denseJ t.core)),
                                      ("factors", listJ ratMatJ t.factors)]
        | .sparseCore t => Json.mkObj [("kind", Json.str "tucker"), ("core", tag "sparse" (sparseJ t.core)),
                                       ("factors", listJ ratMatJ t.factors)]
      let spec := specTab (Spec.ttvShape D.shape sel) (Spec.ttv D sel (vecAt sel ws))
      .ok (both (exceptJ (sorJ tuckerAnyJ) (T.ttv vs dims excl)) spec)),
  ("c02_ttsv", fun j => do
    -- `tensor.ttsv(x, skip_dim, version)`; `dnew` = number of kept modes (spec side, chosen by the harness)
    let X ← field j "X" >>= asDense
    let x ← field j "x" >>= asRats
    let skip ← match fieldOpt j "skip" with
      | none => pure none
      | some v => do let s ← asInt v; pure (some s)
    let vs ← field j "ver" >>= asStr
    let ver : ML.TtsvVer := if vs == "none" then .default else if vs == "1" then .v1 else if vs == "2" then .v2 else .other
    let dnew ← field j "dnew" >>= asNat
    let spec := specTab (Spec.ttsvShape X.shape dnew) (Spec.ttsv X.den x dnew)
    .ok (both (exceptJ ttsvResJ (X.ttsv x skip ver)) spec))
]

end Pyttb.Driver
