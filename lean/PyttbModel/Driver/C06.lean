import PyttbModel.Driver.C01
import PyttbModel.Ops.SptenmatOps
open Lean Pyttb Pyttb.Codec
namespace Pyttb.Driver
namespace C06

def optInt (j : Json) : R (Option Int) :=
  match j with
  | .null => .ok none
  | _ => do let i ← asInt j; .ok (some i)

/-- `{"int": i}` | `{"list": [...]}` | `{"slice": [a, b, c]}` (null = absent) -/
def asSpmKeyPart (j : Json) : R Sptenmat.KeyPart :=
  match fieldOpt j "int", fieldOpt j "list", fieldOpt j "slice" with
  | some i, _, _ => do let i ← asInt i; .ok (.int i)
  | _, some l, _ => do let l ← asInts l; .ok (.list l)
  | _, _, some s => do
    let l ← asList optInt s
    match l with
    | [a, b, c] => .ok (.slice a b c)
    | _ => .error "slice needs three entries"
  | _, _, _ => .error "bad key part"

/-- `{"scalar": v}` | `{"arr": [...]}` -/
def asSpmRhs (j : Json) : R (Sptenmat.SetRhs Rat) :=
  match fieldOpt j "scalar", fieldOpt j "arr" with
  | some v, _ => do let v ← asRat v; .ok (.scalar v)
  | _, some vs => do let vs ← asRats vs; .ok (.arr vs)
  | _, _ => .error "bad rhs"

/-- a sequence of assignments; a refused one leaves the object as it was. -/
def spmRun (M : Sptenmat Rat) : List (List Sptenmat.KeyPart × Sptenmat.SetRhs Rat) → List Json
  | [] => []
  | (k, r) :: rest =>
    match M.setitem k r with
    | .ok M' => Json.mkObj [("ok", sptenmatJ M')] :: spmRun M' rest
    | .error _ => rejectJ :: spmRun M rest

end C06
open C06

def ops06 : List (String × Op) := [
  ("spm_copy", fun j => do
    let M ← field j "M" >>= asSptenmat
    .ok (exceptJ sptenmatJ M.copy)),
  ("spm_pos", fun j => do
    let M ← field j "M" >>= asSptenmat
    .ok (exceptJ sptenmatJ M.pos)),
  ("spm_neg", fun j => do
    let M ← field j "M" >>= asSptenmat
    .ok (exceptJ sptenmatJ M.neg)),
  ("spm_setitem", fun j => do
    let M ← field j "M" >>= asSptenmat
    let steps ← field j "steps" >>= asList (fun s => do
      let k ← field s "key" >>= asList asSpmKeyPart
      let r ← field s "rhs" >>= asSpmRhs
      .ok (k, r))
    .ok (Json.mkObj [("steps", Json.arr (spmRun M steps).toArray)])),
  ("spm_observe", fun j => do
    let M ← field j "M" >>= asSptenmat
    .ok (Json.mkObj [("nnz", toJson M.nnz), ("normsq", ratJ M.normSq),
      ("double", exceptJ denseJ M.double), ("full", exceptJ tenmatJ M.full?),
      ("to_sptensor", exceptJ sparseJ M.toSptensor)])),
  ("spm_isequal", fun j => do
    let M ← field j "M" >>= asSptenmat
    let N ← field j "N" >>= asSptenmat
    .ok (exceptJ (fun b => Json.mkObj [("equal", Json.bool b)]) (M.isequal N))),
  ("sp_copy", fun j => do
    let S ← field j "S" >>= asSparse
    .ok (exceptJ sparseJ S.copy))
]

end Pyttb.Driver
