import PyttbModel.Core.Codec
import PyttbModel.Ops.Generators
open Lean Pyttb Pyttb.Codec
namespace Pyttb.Driver

private def optNats20 (j : Json) (k : String) : R (Option (List Nat)) :=
  match fieldOpt j k with
  | none => .ok none
  | some v => do let l ← asNats v; .ok (some l)

private def optRat20 (j : Json) (k : String) : R (Option Rat) :=
  match fieldOpt j k with
  | none => .ok none
  | some v => do let q ← asRat v; .ok (some q)

private def optBool20 (j : Json) (k : String) (d : Bool) : R Bool :=
  match fieldOpt j k with
  | none => .ok d
  | some v => asBool v

/-- The reducers the harness hands to `from_aggregator` (strings and lambdas). -/
def reducer20 (name : String) : R (List Rat → Rat) :=
  match name with
  | "sum" => .ok List.sum
  | "prod" => .ok (fun l => l.foldl (· * ·) 1)
  | "max" => .ok (fun l => l.foldl max (l.headD 0))
  | "min" => .ok (fun l => l.foldl min (l.headD 0))
  | "len" => .ok (fun l => (l.length : Rat))
  | "first" => .ok (fun l => l.headD 0)
  | "last" => .ok (fun l => l.getLastD 0)
  | "altsum" => .ok (fun l => ((List.range l.length).map fun k =>
      if k % 2 == 0 then l.getD k 0 else - l.getD k 0).sum)
  | _ => .error s!"unknown reducer {name}"

private def spCntJ (r : Except Reject (Sparse Rat × Nat)) : Json :=
  exceptJ (fun (p : Sparse Rat × Nat) => Json.mkObj [("S", sparseJ p.1), ("cnt", toJson p.2)]) r

def ops20 : List (String × Op) := [
  ("gen_from_function", fun j => do
    let s ← field j "shape" >>= asNats
    let o ← field j "out" >>= asDense
    .ok (exceptJ denseJ (Dense.fromFunction s o))),
  ("gen_tenones", fun j => do
    let s ← field j "shape" >>= asNats
    .ok (exceptJ denseJ (Dense.tenones (α := Rat) s))),
  ("gen_tenzeros", fun j => do
    let s ← field j "shape" >>= asNats
    .ok (exceptJ denseJ (Dense.tenzeros (α := Rat) s))),
  ("gen_tenrand", fun j => do
    let s ← field j "shape" >>= asNats
    let d ← field j "draws" >>= asRats
    .ok (exceptJ denseJ (Dense.tenrand s d))),
  ("gen_tendiag", fun j => do
    let e ← field j "elements" >>= asRats
    let s ← optNats20 j "shape"
    .ok (exceptJ denseJ (Dense.tendiag e s))),
  ("gen_teneye", fun j => do
    let m ← field j "m" >>= asNat
    let n ← field j "n" >>= asNat
    .ok (exceptJ denseJ (Dense.teneye (α := Rat) m n))),
  ("gen_ttsv_first", fun j => do
    let T ← field j "T" >>= asDense
    let x ← field j "x" >>= asRats
    .ok (exceptJ ratsJ (T.ttsvFirst x))),
  ("gen_sp_from_function", fun j => do
    let s ← field j "shape" >>= asNats
    let nz ← field j "nonzeros" >>= asRat
    let draws ← field j "draws" >>= asList asRatMat
    let vals ← field j "vals" >>= asRats
    let fixed ← optBool20 j "fixed" true
    .ok (spCntJ (Sparse.fromFunctionG fixed s nz (fun k => draws.getD k []) (fun _ => vals)))),
  ("gen_sptenrand", fun j => do
    let s ← field j "shape" >>= asNats
    let d ← optRat20 j "density"
    let nz ← optRat20 j "nonzeros"
    let draws ← field j "draws" >>= asList asRatMat
    let vals ← field j "vals" >>= asRats
    let fixed ← optBool20 j "fixed" true
    .ok (spCntJ (Sparse.sptenrandG fixed s d nz (fun k => draws.getD k []) (fun _ => vals)))),
  ("gen_aggregator", fun j => do
    let subs ← field j "subs" >>= asIntMat
    let vals ← field j "vals" >>= asRats
    let s ← optNats20 j "shape"
    let r ← field j "reducer" >>= asStr >>= reducer20
    .ok (exceptJ sparseJ (Sparse.fromAggregator subs vals s r))),
  ("gen_sptendiag", fun j => do
    let e ← field j "elements" >>= asRats
    let s ← optNats20 j "shape"
    .ok (exceptJ sparseJ (Sparse.sptendiag e s))),
  ("gen_k_from_function", fun j => do
    let s ← field j "shape" >>= asNats
    let r ← field j "R" >>= asNat
    let outs ← field j "outs" >>= asList asRatMat
    .ok (exceptJ ktensorJ (Ktensor.fromFunction s r outs)))
]

end Pyttb.Driver
