import PyttbModel.Core.Codec
import PyttbModel.Alg.Samplers
import PyttbModel.Alg.Optim
import PyttbModel.Alg.SamplersNoRepl
import PyttbModel.Alg.GcpSetup
open Lean Pyttb Pyttb.Codec
namespace Pyttb.Driver.C13

open Pyttb.Samp Pyttb.Opt

/-- Scalar codec: the same ops run at `Rat` (exact) and at `Float` (bit patterns). -/
structure SC (α : Type) where
  dec : Json → R α
  enc : α → Json

def scRat : SC Rat := ⟨asRat, ratJ⟩

def scFloat : SC Float :=
  ⟨fun j => do
      let s ← asStr j
      match s.toNat? with
      | some n => .ok (Float.ofBits n.toUInt64)
      | none => .error s!"bad float bits {s}",
   fun f => Json.str (toString f.toBits.toNat)⟩

variable {α : Type}

def decMat (sc : SC α) : Json → R (Mat α) := asList (asList sc.dec)
def encMat (sc : SC α) (A : Mat α) : Json := listJ (listJ sc.enc) A
def decFactors (sc : SC α) : Json → R (Factors α) := asList (decMat sc)
def encFactors (sc : SC α) (F : Factors α) : Json := listJ (encMat sc) F

def decOpt (sc : SC α) (j : Json) (k : String) : R (Option α) :=
  match fieldOpt j k with
  | none => .ok none
  | some v => do let x ← sc.dec v; .ok (some x)

def decKtensor (sc : SC α) (j : Json) : R (Ktensor α) := do
  let w ← field j "weights" >>= asList sc.dec
  let f ← field j "factors" >>= decFactors sc
  .ok ⟨w, f⟩

def decKind (j : Json) : R Opt.Kind := do
  let s ← asStr j
  match s with
  | "sgd" => .ok .sgd
  | "adam" => .ok .adam
  | "adagrad" => .ok .adagrad
  | _ => .error s!"bad solver kind {s}"

def decHyper (sc : SC α) (j : Json) : R (Hyper α) := do
  let rate ← field j "rate" >>= sc.dec
  let decay ← field j "decay" >>= sc.dec
  let maxFails ← field j "max_fails" >>= asNat
  let epochIters ← field j "epoch_iters" >>= asNat
  let maxIters ← field j "max_iters" >>= asNat
  let tol ← decOpt sc j "f_est_tol"
  let b1 ← field j "beta1" >>= sc.dec
  let b2 ← field j "beta2" >>= sc.dec
  let eps ← field j "eps" >>= sc.dec
  .ok ⟨rate, decay, maxFails, epochIters, maxIters, tol, b1, b2, eps⟩

def decState (sc : SC α) (kind : Opt.Kind) (j : Json) : R (OptState α) := do
  let nfails ← field j "nfails" >>= asNat
  match kind with
  | .sgd => .ok (.sgd nfails)
  | .adam => do
    let total ← field j "total_iters" >>= asNat
    let m ← field j "m" >>= decFactors sc
    let mp ← field j "m_prev" >>= decFactors sc
    let v ← field j "v" >>= decFactors sc
    let vp ← field j "v_prev" >>= decFactors sc
    .ok (.adam nfails total m mp v vp)
  | .adagrad => do
    let g ← field j "gnormsum" >>= sc.dec
    .ok (.adagrad nfails g)

def encState (sc : SC α) : OptState α → Json
  | .sgd n => Json.mkObj [("nfails", toJson n)]
  | .adam n t m mp v vp =>
    Json.mkObj [("nfails", toJson n), ("total_iters", toJson t),
      ("m", encFactors sc m), ("m_prev", encFactors sc mp), ("v", encFactors sc v),
      ("v_prev", encFactors sc vp)]
  | .adagrad n g => Json.mkObj [("nfails", toJson n), ("gnormsum", sc.enc g)]

def sampleJ (s : Sample Rat) : Json :=
  Json.mkObj [("subs", intMatJ s.subs), ("vals", ratsJ s.vals), ("wgts", ratsJ s.wgts)]

def decCount (j : Json) (k : String) : R Count :=
  match fieldOpt j k with
  | none => .ok .none
  | some (.arr a) => do
    let l ← a.toList.mapM asNat
    match l with
    | [x, y] => .ok (.strat x y)
    | _ => .error "count pair expected"
  | some v => do let n ← asNat v; .ok (.int n)

def decSKind (j : Json) (k : String) : R (Option Samp.Kind) :=
  match fieldOpt j k with
  | none => .ok none
  | some v => do
    let s ← asStr v
    match s with
    | "uniform" => .ok (some .uniform)
    | "semistrat" => .ok (some .semistrat)
    | "stratified" => .ok (some .stratified)
    | _ => .error s!"bad sampler kind {s}"

def planJ (p : Plan) : Json :=
  Json.mkObj [("kind", Json.str (match p.kind with
      | .uniform => "uniform" | .semistrat => "semistrat" | .stratified => "stratified")),
    ("num_nonzeros", toJson p.numNonzeros), ("num_zeros", toJson p.numZeros),
    ("crng", toJson p.crng), ("poisson", Json.bool p.poisson)]

section solve
variable [Add α] [Sub α] [Mul α] [Div α] [Zero α] [One α] [LT α] [DecidableLT α] [BEq α]

/-- Index of the last epoch boundary whose model is the one returned. -/
def bestIndex (L : Loop α) : Nat :=
  let hits := (List.range L.seen.length).filter fun j =>
    match L.seen[j]? with
    | some p => p.1 == L.model
    | none => false
  hits.getLastD 0

def loopJ (sc : SC α) (L : Loop α) : Json :=
  let r := report L
  Json.mkObj [("factors", encFactors sc r.model.factors), ("weights", listJ sc.enc r.model.weights),
    ("f_est_trace", listJ sc.enc r.fEstTrace),
    ("step_trace", listJ sc.enc r.stepTrace), ("n_epoch", toJson r.nEpoch),
    ("nfails", toJson L.opt.nfails), ("n_boundaries", toJson L.seen.length),
    ("best_index", toJson (bestIndex L)), ("f_best", sc.enc L.fPrev),
    ("state", encState sc L.opt)]

/-- A sequence of solves issued to ONE solver object (fields threaded through);
the oracles replay the recorded / scripted estimate values by call number. -/
def solvesOp (sc : SC α) (sqrt : Option (α → α)) (j : Json) : R Json := do
  let kind ← field j "kind" >>= decKind
  let sqrt ← match sqrt with
    | some f => pure f
    | none => if kind == .sgd then pure (fun x => x) else .error "exact arithmetic: sgd only"
  let h ← field j "hyper" >>= decHyper sc
  let st0 ← field j "state" >>= decState sc kind
  let solves ← field j "solves" >>= asList pure
  let mut st := st0
  let mut out : Array Json := #[]
  for s in solves do
    let init ← field s "init" >>= decKtensor sc
    let lb ← decOpt sc s "lb"
    let fs ← field s "fs" >>= asList sc.dec
    let gs ← field s "gs" >>= asList (decFactors sc)
    let fEst : Nat → Ktensor α → α := fun k _ => fs.getD k 0
    let gEst : Nat → Ktensor α → Factors α := fun k _ => gs.getD k []
    match solveLoop sqrt h st init lb fEst gEst with
    | .ok L =>
      out := out.push (Json.mkObj [("ok", loopJ sc L)])
      st := L.opt
    | .error _ =>
      out := out.push rejectJ
      break
  .ok (Json.arr out)

/-- One `update_step` from given object fields. -/
def stepOp (sc : SC α) (sqrt : Option (α → α)) (j : Json) : R Json := do
  let kind ← field j "kind" >>= decKind
  let sqrt ← match sqrt with
    | some f => pure f
    | none => if kind == .sgd then pure (fun x => x) else .error "exact arithmetic: sgd only"
  let h ← field j "hyper" >>= decHyper sc
  let st ← field j "state" >>= decState sc kind
  let model ← field j "model" >>= decKtensor sc
  let grad ← field j "grad" >>= decFactors sc
  let lb ← decOpt sc j "lb"
  .ok (exceptJ (fun (r : Factors α × α × OptState α) =>
      Json.mkObj [("factors", encFactors sc r.1), ("step", sc.enc r.2.1), ("state", encState sc r.2.2)])
    (updateStep sqrt h st model grad lb))

end solve

def decObjective (j : Json) : R GcpSetup.Objective := do
  let s ← asStr j
  match s with
  | "GAUSSIAN" => .ok .gaussian
  | "BERNOULLI_ODDS" => .ok .bernoulliOdds
  | "BERNOULLI_LOGIT" => .ok .bernoulliLogit
  | "POISSON" => .ok .poisson
  | "POISSON_LOG" => .ok .poissonLog
  | "RAYLEIGH" => .ok .rayleigh
  | "GAMMA" => .ok .gamma
  | "HUBER" => .ok .huber
  | "NEGATIVE_BINOMIAL" => .ok .negativeBinomial
  | "BETA" => .ok .beta
  | _ => .error s!"bad objective {s}"

end Pyttb.Driver.C13

namespace Pyttb.Driver
open Pyttb.Samp Pyttb.Opt Pyttb.Driver.C13

def ops13 : List (String × Op) := [
  ("c13_uniform", fun j => do
    let T ← field j "data" >>= asDense
    let samples ← field j "samples" >>= asNat
    let draws ← field j "draws" >>= asRatMat
    .ok (exceptJ sampleJ (uniformS Rat.floor T samples draws))),
  ("c13_nonzeros", fun j => do
    let S ← field j "data" >>= asSparse
    let samples ← field j "samples" >>= asNat
    let wr ← field j "with_replacement" >>= asBool
    let idx ← field j "idx" >>= asNats
    .ok (exceptJ (fun (r : List (List Nat) × List Rat) =>
        Json.mkObj [("subs", natMatJ r.1), ("vals", ratsJ r.2)]) (nonzerosS S samples wr idx))),
  ("c13_zeros", fun j => do
    let shape ← field j "shape" >>= asNats
    let nz ← field j "nz_idx" >>= asNats
    let samples ← field j "samples" >>= asNat
    let rate ← field j "rate" >>= asRat
    let draws ← field j "draws" >>= asRatMat
    .ok (Json.mkObj [
      ("need", exceptJ (fun (n : Nat) => toJson n)
        (zerosNeed Rat.ceil rate samples (numel shape) (numel shape - nz.length))),
      ("subs", exceptJ intMatJ (zerosS Rat.floor Rat.ceil shape nz samples rate draws))])),
  ("c13_zeros_norepl", fun j => do
    let shape ← field j "shape" >>= asNats
    let nz ← field j "nz_idx" >>= asNats
    let samples ← field j "samples" >>= asNat
    let rate ← field j "rate" >>= asRat
    let draws ← field j "draws" >>= asRatMat
    .ok (exceptJ intMatJ (zerosNoReplS Rat.floor Rat.ceil shape nz samples rate draws))),
  ("c13_setup", fun j => do
    -- data: null | {"sparse": bool, "vals": [...]} (what setup reads); param: null | number
    let obj ← field j "objective" >>= decObjective
    let data ← match fieldOpt j "data" with
      | none => pure none
      | some d => do
        let sp ← field d "sparse" >>= asBool
        let vals ← field d "vals" >>= asRats
        pure (some (⟨sp, vals⟩ : GcpSetup.DataView Rat))
    let param ← match fieldOpt j "param" with
      | none => pure none
      | some v => do let q ← asRat v; pure (some q)
    .ok (exceptJ (fun (lb : Option Rat) => match lb with
        | none => Json.str "-inf"
        | some q => ratJ q) (GcpSetup.setupS Rat.floor obj data param))),
  ("c13_semistrat", fun j => do
    let S ← field j "data" >>= asSparse
    let a ← field j "num_nonzeros" >>= asNat
    let b ← field j "num_zeros" >>= asNat
    let idx ← field j "idx" >>= asNats
    let draws ← field j "draws" >>= asRatMat
    .ok (exceptJ sampleJ (semistratS Rat.ceil S a b idx draws))),
  ("c13_stratified", fun j => do
    let S ← field j "data" >>= asSparse
    let nz ← field j "nz_idx" >>= asNats
    let a ← field j "num_nonzeros" >>= asNat
    let b ← field j "num_zeros" >>= asNat
    let rate ← field j "rate" >>= asRat
    let idx ← field j "idx" >>= asNats
    let draws ← field j "draws" >>= asRatMat
    .ok (exceptJ sampleJ (stratifiedS Rat.floor Rat.ceil S nz a b rate idx draws))),
  ("c13_plan", fun j => do
    let sparse ← field j "sparse" >>= asBool
    let size ← field j "size" >>= asNat
    let nnz ← field j "nnz" >>= asNat
    let fk ← decSKind j "fkind"
    let fc ← decCount j "fcount"
    let gk ← decSKind j "gkind"
    let gc ← decCount j "gcount"
    let mi ← field j "max_iters" >>= asNat
    .ok (match functionPlan sparse size nnz fk fc with
      | .error _ => rejectJ
      | .ok fp =>
        match gradientPlan sparse size nnz gk gc mi with
        | .error _ => rejectJ
        | .ok gp => Json.mkObj [("ok", Json.mkObj [("function", planJ fp), ("gradient", planJ gp)])])),
  ("c13_tovec", fun j => do
    let K ← field j "model" >>= asKtensor
    .ok (ratsJ (tovecF K))),
  ("c13_update", fun j => do
    let K ← field j "model" >>= asKtensor
    let d ← field j "data" >>= asRats
    .ok (ktensorJ (updateF K d))),
  ("c13_lbfgsb_inplace", fun j => do
    -- the model LBFGSB.solve returns when the optimiser evaluated `evals` (in order) and reports `x`
    let K ← field j "model" >>= asKtensor
    let evals ← field j "evals" >>= asList asRats
    let x ← field j "x" >>= asRats
    .ok (ktensorJ (lbfgsbSolveInPlace tovecF updateF (fun _ _ _ => ((x, 0), evals)) (fun _ => 0) K none).1)),
  ("c13_lbfgsb_opts", fun j => do
    -- the options an LBFGSB object holds after one solve (the service answer is irrelevant)
    let oj ← field j "opts"
    let optNat (k : String) : R (Option Nat) := match fieldOpt oj k with
      | none => pure none
      | some v => do let n ← asNat v; pure (some n)
    let optInt (k : String) : R (Option Int) := match fieldOpt oj k with
      | none => pure none
      | some v => do let n ← asInt v; pure (some n)
    let optRat (k : String) : R (Option Rat) := match fieldOpt oj k with
      | none => pure none
      | some v => do let q ← asRat v; pure (some q)
    let o : LbfgsbOpts Rat := ⟨← optNat "m", ← field oj "factr" >>= asRat, ← optRat "pgtol",
      ← optRat "epsilon", ← optInt "iprint", ← optInt "disp", ← optNat "maxfun",
      ← field oj "maxiter" >>= asNat, ← optNat "callback", ← optNat "maxls"⟩
    let K : Ktensor Rat := ⟨[1], [[[0]]]⟩
    let o' := (lbfgsbSolveObj tovecF updateF (fun _ _ x _ => (x, 0)) o (fun _ => 0) K none).2
    let nJ (x : Option Nat) : Json := match x with | none => Json.null | some n => toJson n
    let iJ (x : Option Int) : Json := match x with | none => Json.null | some n => toJson n
    let qJ (x : Option Rat) : Json := match x with | none => Json.null | some q => ratJ q
    .ok (Json.mkObj [("m", nJ o'.m), ("factr", ratJ o'.factr), ("pgtol", qJ o'.pgtol),
      ("epsilon", qJ o'.epsilon), ("iprint", iJ o'.iprint), ("disp", iJ o'.disp),
      ("maxfun", nJ o'.maxfun), ("maxiter", toJson o'.maxiter), ("callback", nJ o'.callback),
      ("maxls", nJ o'.maxls)])),
  ("c13_solves", fun j => solvesOp scRat none j),
  ("c13_solves_float", fun j => solvesOp scFloat (some Float.sqrt) j),
  ("c13_step", fun j => stepOp scRat none j),
  ("c13_step_float", fun j => stepOp scFloat (some Float.sqrt) j)
]

end Pyttb.Driver
