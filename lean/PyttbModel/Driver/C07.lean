import PyttbModel.Core.Codec
import PyttbModel.Ops.Sparse
import PyttbModel.Ops.Kruskal
open Lean Pyttb Pyttb.Codec
namespace Pyttb.Driver

def optNats (j : Json) (k : String) : R (Option (List Nat)) :=
  match fieldOpt j k with
  | none => .ok none
  | some v => do let l ← asNats v; .ok (some l)

def scalarOrJ {τ} (f : τ → Json) : ScalarOr Rat τ → Json
  | .scalar v => Json.mkObj [("scalar", ratJ v)]
  | .obj t => Json.mkObj [("obj", f t)]

def asTtensor (j : Json) : R (Ttensor Rat) := do
  let c ← field j "core" >>= asDense
  let f ← field j "factors" >>= asList asRatMat
  .ok ⟨c, f⟩

def ttensorJ (T : Ttensor Rat) : Json :=
  Json.mkObj [("core", denseJ T.core), ("factors", listJ ratMatJ T.factors)]

def ops07 : List (String × Op) := [
  ("dense_permute", fun j => do
    let T ← field j "T" >>= asDense
    let o ← field j "order" >>= asNats
    .ok (exceptJ denseJ (T.permute o))),
  ("dense_permute_pinned", fun j => do
    let T ← field j "T" >>= asDense
    let o ← field j "order" >>= asNats
    .ok (exceptJ denseJ (Dense.permuteG false T o))),
  ("dense_reshape", fun j => do
    let T ← field j "T" >>= asDense
    let s ← field j "shape" >>= asNats
    .ok (exceptJ denseJ (T.reshape s))),
  ("dense_squeeze", fun j => do
    let T ← field j "T" >>= asDense
    .ok (Json.mkObj [("ok", scalarOrJ denseJ T.squeeze)])),
  ("sp_permute", fun j => do
    let S ← field j "S" >>= asSparse
    let o ← field j "order" >>= asNats
    .ok (exceptJ sparseJ (S.permute o))),
  ("sp_reshape", fun j => do
    let S ← field j "S" >>= asSparse
    let s ← field j "shape" >>= asNats
    let om ← optNats j "old_modes"
    .ok (exceptJ sparseJ (S.reshape s om))),
  ("sp_squeeze", fun j => do
    let S ← field j "S" >>= asSparse
    .ok (exceptJ (scalarOrJ sparseJ) S.squeeze)),
  ("sp_squeeze_pinned", fun j => do
    let S ← field j "S" >>= asSparse
    .ok (exceptJ (scalarOrJ sparseJ) (Sparse.squeezeG false S))),
  ("k_permute", fun j => do
    let K ← field j "K" >>= asKtensor
    let o ← field j "order" >>= asNats
    .ok (exceptJ ktensorJ (K.permute o))),
  ("t_permute", fun j => do
    let T ← field j "T" >>= asTtensor
    let o ← field j "order" >>= asNats
    .ok (exceptJ ttensorJ (T.permute o)))
]

end Pyttb.Driver
