/-
Driver ops of C09 (CP-ALS): one-step trace validation at `Float`.
Floats cross the pipe as decimal strings of their 64-bit patterns.
-/
import PyttbModel.Core.Codec
import PyttbModel.Alg.CpAls
open Lean Pyttb Pyttb.Codec
namespace Pyttb.Driver.C09
open Pyttb.CpAls

/-! ### codec -/

def decF (j : Json) : R Float := do
  let s ← asStr j
  match s.toNat? with
  | some n => .ok (Float.ofBits n.toUInt64)
  | none => .error s!"bad float bits {s}"

def encF (f : Float) : Json := Json.str (toString f.toBits.toNat)

def decVec : Json → R (List Float) := asList decF
def encVec (v : List Float) : Json := listJ encF v
def decMatF : Json → R (Mat Float) := asList decVec
def encMatF (A : Mat Float) : Json := listJ encVec A
def decMats : Json → R (List (Mat Float)) := asList decMatF
def encMats (l : List (Mat Float)) : Json := listJ encMatF l

def optNatsF (j : Json) (k : String) : R (Option (List Nat)) :=
  match fieldOpt j k with
  | none => .ok none
  | some v => do let l ← asNats v; .ok (some l)

/-- Recorded outputs of a service, keyed by the mode. -/
def decByMode (j : Json) : R (List (Nat × Mat Float)) :=
  asList (fun e => do
    let n ← field e "n" >>= asNat
    let out ← field e "out" >>= decMatF
    .ok (n, out)) j

/-! ### the number system of the implementation -/

def floatOps : NumOps Float :=
  { sqrt := Float.sqrt, abs := Float.abs, lt := fun a b => decide (a < b),
    isZero := fun a => a == 0.0, ofNat := Float.ofNat }

/-- The data object and the solver replayed from a recording. -/
def replayData (shape : List Nat) (norm : Float) (mt : List (Nat × Mat Float)) (ip : Float) : Data Float :=
  { shape := shape, norm := norm,
    mttkrp := fun _ n => (mt.lookup n).getD [],
    innerprod := fun _ => ip,
    nvecs := none }

def replaySolve (sv : List (Nat × Mat Float)) : Services Float :=
  { solve := fun n _ _ => match sv.lookup n with
      | some A => .ok A
      | none => .error .reject }

def mkParams (rank maxiters : Nat) (dimorder optdims : Option (List Nat)) (printing fixs : Bool) :
    Params Float :=
  { rank := rank, stoptol := 0.0, maxiters := maxiters, dimorder := dimorder, optdims := optdims,
    printing := printing, fixsigns := fixs }

def mkState (U : List (Mat Float)) (w : List Float) (fit nr : Float) (iteration : Nat) : State Float :=
  { U := U, UtU := [], weights := w, Umttkrp := [], fit := fit, normresidual := nr, fitchange := 0.0,
    iteration := iteration, stop := false }

/-- A data object of which only the shape is used (option validation). -/
def shapeOnlyData (shape : List Nat) (hasNvecs : Bool) : Data Float :=
  { shape := shape, norm := 0.0, mttkrp := fun _ _ => [], innerprod := fun _ => 0.0,
    nvecs := if hasNvecs then some (fun n r => tab (shape.getD n 0) r fun _ _ => 0.0) else none }

def stateJ (st : State Float) : Json :=
  Json.mkObj [("U", encMats st.U), ("weights", encVec st.weights), ("Umttkrp", encMatF st.Umttkrp),
    ("fit", encF st.fit), ("normresidual", encF st.normresidual), ("fitchange", encF st.fitchange),
    ("iteration", toJson st.iteration), ("stop", Json.bool st.stop)]

/-- One pass of the main loop from a recorded state with the recorded service outputs. -/
def iterOp (j : Json) : R Json := do
  let shape ← field j "shape" >>= asNats
  let rank ← field j "rank" >>= asNat
  let stoptol ← field j "stoptol" >>= decF
  let norm ← field j "norm" >>= decF
  let dims ← field j "dims" >>= asNats
  let iteration ← field j "iteration" >>= asNat
  let U ← field j "U" >>= decMats
  let fitold ← field j "fit" >>= decF
  let mt ← field j "mttkrp" >>= decByMode
  let sv ← field j "solve" >>= decByMode
  let D := replayData shape norm mt 0.0
  let S := replaySolve sv
  let K : Ktensor Float := ⟨List.replicate rank 1.0, U⟩
  let st0 : State Float := { initState D rank dims K with fit := fitold }
  -- the trace of the mode updates (same function, exposed intermediate values)
  let last := dims.getLastD 0
  let mut st := st0
  let mut trace : Array Json := #[]
  let mut failed := false
  for n in dims do
    if failed then break
    let Y := coef st.UtU shape.length rank n
    match modeUpdate D S floatOps rank iteration last n st with
    | .ok st' =>
      trace := trace.push (Json.mkObj [("n", toJson n), ("Y", encMatF Y),
        ("guard", Json.bool (allZero floatOps Y)), ("Un", encMatF (st'.U.getD n [])),
        ("weights", encVec st'.weights)])
      st := st'
    | .error _ => failed := true
  match iterStep D S floatOps rank stoptol dims iteration st0 with
  | .error _ => .ok rejectJ
  | .ok st1 =>
    let lastI := shape.getD last 0
    .ok (Json.mkObj [("ok", Json.mkObj [("state", stateJ st1), ("trace", Json.arr trace),
      ("iprod", encF (iprodOf rank lastI (st1.U.getD last []) st1.Umttkrp st1.weights)),
      ("normM", encF (knorm floatOps st1.weights st1.U))])])

/-- Everything after the loop from the recorded final loop state. -/
def finishOp (j : Json) : R Json := do
  let shape ← field j "shape" >>= asNats
  let norm ← field j "norm" >>= decF
  let U ← field j "U" >>= decMats
  let w ← field j "weights" >>= decVec
  let fit ← field j "fit" >>= decF
  let nr ← field j "normresidual" >>= decF
  let iteration ← field j "iteration" >>= asNat
  let fixs ← field j "fixsigns" >>= asBool
  let printing ← field j "printing" >>= asBool
  let ip ← field j "innerprod" >>= decF
  let D := replayData shape norm [] ip
  let P : Params Float := mkParams w.length 1 none none printing fixs
  let st : State Float := mkState U w fit nr iteration
  let out := finish D floatOps P [] [] ⟨w, U⟩ st
  .ok (Json.mkObj [("weights", encVec out.M.weights), ("factors", encMats out.M.factors),
    ("iters", toJson out.iters), ("normresidual", encF out.normresidual), ("fit", encF out.fit),
    ("normM", encF (knorm floatOps out.M.weights out.M.factors))])

/-- Loop control: which pass is the last one, given the fit after each pass. -/
def ctrlOp (j : Json) : R Json := do
  let fits ← field j "fits" >>= decVec
  let stoptol ← field j "stoptol" >>= decF
  let maxiters ← field j "maxiters" >>= asNat
  let st0 : State Float := mkState [] [] 0.0 0.0 0
  let step : Nat → State Float → Except Reject (State Float) := fun k st =>
    match fits[k]? with
    | none => .error .reject
    | some f => .ok (closePass floatOps stoptol k st.fit f f st)
  match loopFrom step maxiters 0 st0 with
  | .error _ => .ok rejectJ
  | .ok st => .ok (Json.mkObj [("ok", Json.mkObj [("iters", toJson st.iteration),
      ("stop", Json.bool st.stop), ("fit", encF st.fit), ("fitchange", encF st.fitchange)])])

/-- Option validation. -/
def setupOp (j : Json) : R Json := do
  let shape ← field j "shape" >>= asNats
  let rank ← field j "rank" >>= asNat
  let maxiters ← field j "maxiters" >>= asNat
  let dimorder ← optNatsF j "dimorder"
  let optdims ← optNatsF j "optdims"
  let kind ← field j "init" >>= asStr
  let init : Init Float ← match kind with
    | "given" => do
      let f ← field j "factors" >>= decMats
      let w ← field j "weights" >>= decVec
      pure (Init.given ⟨w, f⟩)
    | "random" => do
      let f ← field j "factors" >>= decMats
      pure (Init.random f)
    | "nvecs" => pure Init.nvecs
    | _ => pure Init.unsupported
  let hasNvecs ← field j "has_nvecs" >>= asBool
  let D : Data Float := shapeOnlyData shape hasNvecs
  let P : Params Float := mkParams rank maxiters dimorder optdims false false
  match setup D P init with
  | .error _ => .ok rejectJ
  | .ok (dimorderIn, od, dims, K) =>
    if maxiters == 0 then .ok rejectJ else
    .ok (Json.mkObj [("ok", Json.mkObj [("dimorder", natsJ dimorderIn), ("optdims", natsJ od),
      ("dims", natsJ dims), ("init_shape", natsJ K.shape), ("init_weights", encVec K.weights)])])

/-- The generated formulas evaluated at `Float` (cross-check of the translator). -/
def formulaOp (j : Json) : R Json := do
  let name ← field j "name" >>= asStr
  let a ← field j "args" >>= decVec
  let k ← field j "nat" >>= asNat
  let x := fun (i : Nat) => a.getD i 0.0
  let o := floatOps
  let b := fun (v : Bool) => Json.mkObj [("bool", Json.bool v)]
  let f := fun (v : Float) => Json.mkObj [("float", encF v)]
  match name with
  | "branchZero" => .ok (b (Gen.branchZero o (x 0)))
  | "normresidualZero" => .ok (f (Gen.normresidualZero o (x 0) (x 1)))
  | "fitZero" => .ok (f (Gen.fitZero (x 0)))
  | "normresidual" => .ok (f (Gen.normresidual o (x 0) (x 1) (x 2)))
  | "fit" => .ok (f (Gen.fit o (x 0) (x 1)))
  | "fitchange" => .ok (f (Gen.fitchange o (x 0) (x 1)))
  | "stopTest" => .ok (b (Gen.stopTest o k (x 0) (x 1)))
  | "firstIteration" => .ok (b (Gen.firstIteration k))
  | "colWeightFirst" => .ok (f (Gen.colWeightFirst o a))
  | "colWeightLater" => .ok (f (Gen.colWeightLater o a))
  | "colWeight" => .ok (f (Gen.colWeight o k a))
  | _ => .error s!"unknown formula {name}"

end Pyttb.Driver.C09

namespace Pyttb.Driver
open Pyttb.Driver.C09

def ops09 : List (String × Op) := [
  ("c09_iter", iterOp),
  ("c09_finish", finishOp),
  ("c09_ctrl", ctrlOp),
  ("c09_setup", setupOp),
  ("c09_formula", formulaOp)
]

end Pyttb.Driver
