import PyttbModel.Driver.C07
import PyttbModel.Driver.C02
import PyttbModel.Ops.ConvertChain
open Lean Pyttb Pyttb.Codec
namespace Pyttb.Driver

def tenmatJ (M : Tenmat Rat) : Json :=
  Json.mkObj [("tshape", natsJ M.tshape), ("rdims", natsJ M.rdims), ("cdims", natsJ M.cdims),
              ("data", denseJ M.data)]

def asTenmat (j : Json) : R (Tenmat Rat) := do
  let ts ← field j "tshape" >>= asNats
  let r ← field j "rdims" >>= asNats
  let c ← field j "cdims" >>= asNats
  let d ← field j "data" >>= asDense
  .ok ⟨ts, r, c, d⟩

def sptenmatJ (M : Sptenmat Rat) : Json :=
  Json.mkObj [("tshape", natsJ M.tshape), ("rdims", natsJ M.rdims), ("cdims", natsJ M.cdims),
              ("subs", natMatJ M.subs), ("vals", ratsJ M.vals)]

def asSptenmat (j : Json) : R (Sptenmat Rat) := do
  let ts ← field j "tshape" >>= asNats
  let r ← field j "rdims" >>= asNats
  let c ← field j "cdims" >>= asNats
  let s ← field j "subs" >>= asNatMat
  let v ← field j "vals" >>= asRats
  .ok ⟨ts, r, c, s, v⟩

def optCyc (j : Json) : R (Option Cyclic) :=
  match fieldOpt j "cyc" with
  | none => .ok none
  | some (.str "fc") => .ok (some .fc)
  | some (.str "bc") => .ok (some .bc)
  | some (.str "t") => .ok (some .t)
  | some _ => .error "bad cyc"

/-! second batch: holders, conversion steps, reports -/

def asHolder01 (j : Json) : R (Holder Rat) := do
  let k ← field j "kind" >>= asStr
  match k with
  | "dense" => do let t ← asDense j; .ok (.dense t)
  | "sparse" => do let s ← asSparse j; .ok (.sparse s)
  | "kruskal" => do let t ← asKtensor j; .ok (.kruskal t)
  | "tucker" => do let t ← asTtensor j; .ok (.tucker t)
  | "sum" => do let ps ← field j "parts" >>= asList asPart; .ok (.sum ps)
  | "tenmat" => do let m ← asTenmat j; .ok (.tenmat m)
  | "sptenmat" => do let m ← asSptenmat j; .ok (.sptenmat m)
  | _ => .error s!"bad holder kind {k}"

def holderJ01 : Holder Rat → Json
  | .dense t => tag "dense" (denseJ t)
  | .sparse s => tag "sparse" (sparseJ s)
  | .kruskal k => tag "kruskal" (ktensorJ k)
  | .tucker t => tag "tucker" (ttensorJ t)
  | .sum ps => Json.mkObj [("kind", Json.str "sum"), ("parts", listJ partJ ps)]
  | .tenmat m => tag "tenmat" (tenmatJ m)
  | .sptenmat m => tag "sptenmat" (sptenmatJ m)

/-- what the object reports about itself -/
def reportsJ : Holder Rat → Json
  | .dense t => Json.mkObj [("shape", natsJ t.shape), ("nnz", toJson t.nnz)]
  | .sparse s => Json.mkObj [("shape", natsJ s.shape), ("nnz", toJson s.nnz)]
  | .kruskal k => Json.mkObj [("shape", natsJ k.shape)]
  | .tucker t => Json.mkObj [("shape", natsJ t.shape)]
  | .sum ps => Json.mkObj [("shape", natsJ (ps.headD (.dense ⟨[], []⟩)).shape)]
  | .tenmat m => Json.mkObj [("tshape", natsJ m.tshape), ("rdims", natsJ m.rdims), ("cdims", natsJ m.cdims),
      ("shape", natsJ m.shapeProp), ("ndims", toJson m.ndims)]
  | .sptenmat m => Json.mkObj [("tshape", natsJ m.tshape), ("rdims", natsJ m.rdims), ("cdims", natsJ m.cdims),
      ("shape", natsJ m.shapeProp), ("nnz", toJson m.nnz)]

def asConv (j : Json) : R Conv := do
  let c ← field j "c" >>= asStr
  match c with
  | "full" => .ok .full
  | "to_tensor" => .ok .toTensor
  | "to_sptensor" => .ok .toSptensor
  | "to_tenmat" => do
    let r ← optNats j "rdims"
    let cd ← optNats j "cdims"
    let cyc ← optCyc j
    .ok (.toTenmat r cd cyc)
  | "to_sptenmat" => do
    let r ← optNats j "rdims"
    let cd ← optNats j "cdims"
    let cyc ← optCyc j
    .ok (.toSptenmat r cd cyc)
  | _ => .error s!"bad conversion {c}"

def stateJ (h : Holder Rat) : Json :=
  Json.mkObj [("h", holderJ01 h), ("rep", reportsJ h), ("double", exceptJ denseJ h.double)]

def ops01 : List (String × Op) := [
  ("to_sptensor", fun j => do
    let T ← field j "T" >>= asDense
    .ok (Json.mkObj [("sp", sparseJ T.toSparse), ("nnz", toJson T.nnz)])),
  ("sp_full", fun j => do
    let S ← field j "S" >>= asSparse
    .ok (denseJ S.full)),
  ("to_tenmat", fun j => do
    let T ← field j "T" >>= asDense
    let r ← optNats j "rdims"
    let c ← optNats j "cdims"
    let cyc ← optCyc j
    .ok (exceptJ tenmatJ (T.toTenmat r c cyc))),
  ("tenmat_to_tensor", fun j => do
    let M ← field j "M" >>= asTenmat
    .ok (denseJ M.toTensor)),
  ("to_sptenmat", fun j => do
    let S ← field j "S" >>= asSparse
    let r ← optNats j "rdims"
    let c ← optNats j "cdims"
    let cyc ← optCyc j
    .ok (exceptJ sptenmatJ (S.toSptenmat r c cyc))),
  ("sptenmat_ctor", fun j => do
    let subs ← field j "subs" >>= asNatMat
    let vals ← field j "vals" >>= asRats
    let r ← field j "rdims" >>= asNats
    let c ← field j "cdims" >>= asNats
    let ts ← field j "tshape" >>= asNats
    .ok (exceptJ sptenmatJ (Sptenmat.mkCopy subs vals r c ts))),
  ("sptenmat_to_sptensor", fun j => do
    let M ← field j "M" >>= asSptenmat
    .ok (sparseJ M.toSparse)),
  ("sptenmat_full", fun j => do
    let M ← field j "M" >>= asSptenmat
    .ok (tenmatJ M.full)),
  ("k_full", fun j => do
    let K ← field j "K" >>= asKtensor
    .ok (exceptJ denseJ K.full)),
  ("k_full_pinned", fun j => do
    let K ← field j "K" >>= asKtensor
    .ok (exceptJ denseJ (Ktensor.fullG false K))),
  -- second batch --------------------------------------------------------------------------
  -- a chain of conversions: the state (stored form, reports, double()) after every prefix
  ("c01_chain", fun j => do
    let H ← field j "H" >>= asHolder01
    let steps ← field j "steps" >>= asList asConv
    let trace := (List.range (steps.length + 1)).map fun k =>
      exceptJ stateJ (runChain (steps.take k) H)
    .ok (Json.mkObj [("trace", Json.arr trace.toArray),
                     ("valid", Json.bool (chainValid H.shape.length steps H.kind))])),
  ("c01_tenmat_ctor", fun j => do
    let d ← field j "data" >>= asDense
    let r ← optNats j "rdims"
    let c ← optNats j "cdims"
    let ts ← optNats j "tshape"
    .ok (exceptJ (fun M => stateJ (.tenmat M)) (Tenmat.mk? d r c ts))),
  ("c01_k_tenmat", fun j => do
    let K ← field j "K" >>= asKtensor
    let r ← optNats j "rdims"
    let c ← optNats j "cdims"
    let cyc ← optCyc j
    let viaFull : Json := match K.full with
      | .error _ => rejectJ
      | .ok D => exceptJ tenmatJ (D.toTenmat r c cyc)
    let kr : Json := match K.toTenmat r c cyc with
      | .error _ => rejectJ
      | .ok M => exceptJ denseJ (K.krTenmat M.rdims M.cdims)
    .ok (Json.mkObj [("model", exceptJ (fun M => stateJ (.tenmat M)) (K.toTenmat r c cyc)),
                     ("via_full", viaFull), ("kr", kr)]))
]

end Pyttb.Driver
