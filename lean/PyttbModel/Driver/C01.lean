import PyttbModel.Driver.C07
open Lean Pyttb Pyttb.Codec
namespace Pyttb.Driver

def tenmatJ (M : Tenmat Rat) : Json :=
  Json.mkObj [("tshape", natsJ M.tshape), ("rdims", natsJ M.rdims), ("cdims", natsJ M.cdims),
              ("data", denseJ M.data)]

def asTenmat (j : Json) : R (Tenmat Rat) := do
  let ts ← field j "tshape" >>= asNats
  let r ← field j "rdims" >>= asNats
  let c ← field j "cdims" >>= asNats
  let d ← field j "data" >>= asDense
  .ok ⟨ts, r, c, d⟩

def sptenmatJ (M : Sptenmat Rat) : Json :=
  Json.mkObj [("tshape", natsJ M.tshape), ("rdims", natsJ M.rdims), ("cdims", natsJ M.cdims),
              ("subs", natMatJ M.subs), ("vals", ratsJ M.vals)]

def asSptenmat (j : Json) : R (Sptenmat Rat) := do
  let ts ← field j "tshape" >>= asNats
  let r ← field j "rdims" >>= asNats
  let c ← field j "cdims" >>= asNats
  let s ← field j "subs" >>= asNatMat
  let v ← field j "vals" >>= asRats
  .ok ⟨ts, r, c, s, v⟩

def optCyc (j : Json) : R (Option Cyclic) :=
  match fieldOpt j "cyc" with
  | none => .ok none
  | some (.str "fc") => .ok (some .fc)
  | some (.str "bc") => .ok (some .bc)
  | some (.str "t") => .ok (some .t)
  | some _ => .error "bad cyc"

def ops01 : List (String × Op) := [
  ("to_sptensor", fun j => do
    let T ← field j "T" >>= asDense
    .ok (Json.mkObj [("sp", sparseJ T.toSparse), ("nnz", toJson T.nnz)])),
  ("sp_full", fun j => do
    let S ← field j "S" >>= asSparse
    .ok (denseJ S.full)),
  ("to_tenmat", fun j => do
    let T ← field j "T" >>= asDense
    let r ← optNats j "rdims"
    let c ← optNats j "cdims"
    let cyc ← optCyc j
    .ok (exceptJ tenmatJ (T.toTenmat r c cyc))),
  ("tenmat_to_tensor", fun j => do
    let M ← field j "M" >>= asTenmat
    .ok (denseJ M.toTensor)),
  ("to_sptenmat", fun j => do
    let S ← field j "S" >>= asSparse
    let r ← optNats j "rdims"
    let c ← optNats j "cdims"
    let cyc ← optCyc j
    .ok (exceptJ sptenmatJ (S.toSptenmat r c cyc))),
  ("sptenmat_ctor", fun j => do
    let subs ← field j "subs" >>= asNatMat
    let vals ← field j "vals" >>= asRats
    let r ← field j "rdims" >>= asNats
    let c ← field j "cdims" >>= asNats
    let ts ← field j "tshape" >>= asNats
    .ok (exceptJ sptenmatJ (Sptenmat.mkCopy subs vals r c ts))),
  ("sptenmat_to_sptensor", fun j => do
    let M ← field j "M" >>= asSptenmat
    .ok (sparseJ M.toSparse)),
  ("sptenmat_full", fun j => do
    let M ← field j "M" >>= asSptenmat
    .ok (tenmatJ M.full)),
  ("k_full", fun j => do
    let K ← field j "K" >>= asKtensor
    .ok (exceptJ denseJ K.full)),
  ("k_full_pinned", fun j => do
    let K ← field j "K" >>= asKtensor
    .ok (exceptJ denseJ (Ktensor.fullG false K)))
]

end Pyttb.Driver
