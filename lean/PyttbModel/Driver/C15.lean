import PyttbModel.Core.Codec
import PyttbModel.Spec.Symmetric
import PyttbModel.Ops.SymmetrizeKruskal
import PyttbModel.Driver.C08
open Lean Pyttb Pyttb.Codec Pyttb.Sym
namespace Pyttb.Driver

/-- the group argument: `none`, or rows of integers.  The model's modes are naturals; a negative entry
is refused here, which is what the argument check `np.any(grps < 0)` of both routines does (adf6713). -/
def optGrps15 (j : Json) : R (Bool × Option (List (List Nat))) :=
  match fieldOpt j "grps" with
  | none => .ok (false, none)
  | some v => do
    let l ← asIntMat v
    .ok (l.any (fun g => g.any (· < 0)), some (l.map fun g => g.map Int.toNat))

def testOutJ : TestOut Rat → Json
  | .plain b => Json.mkObj [("b", Json.bool b)]
  | .details b d p => Json.mkObj [("b", Json.bool b), ("diffs", ratsJ d), ("perms", natMatJ p)]

def kdiffJ : KDiff Rat → Json
  | .zero => Json.str "zero"
  | .inf => Json.str "inf"
  | .normSq x => Json.mkObj [("sq", ratJ x)]

def ops15 : List (String × Op) := [
  -- model side ---------------------------------------------------------------
  ("sym_symmetrize", fun j => do
    let T ← field j "T" >>= asDense
    let (neg, g) ← optGrps15 j
    let v ← field j "version" >>= asBool
    .ok (if neg then rejectJ else exceptJ denseJ (Sym.symmetrize T g v))),
  ("sym_issymmetric", fun j => do
    let T ← field j "T" >>= asDense
    let (neg, g) ← optGrps15 j
    let v ← field j "version" >>= asBool
    let d ← field j "details" >>= asBool
    .ok (if neg then rejectJ else exceptJ testOutJ (Sym.issymmetric T g v d))),
  ("sym_ksymmetrize_core", fun j => do
    let Kn ← field j "Kn" >>= asKtensor
    .ok (ktensorJ (ksymmetrizeCore Kn))),
  ("sym_ksymmetrize_aligned", fun j => do
    -- the symmetrisation step on a normalised copy `Kn`, the decidable hypothesis `kaligned Kn` of
    -- C15_kruskal_keeps_value, and the conclusion of that theorem evaluated exactly: does the result denote
    -- the array of `Kn`?
    let Kn ← field j "Kn" >>= asKtensor
    let R := ksymmetrizeCore Kn
    .ok (Json.mkObj [("aligned", Json.bool (kaligned Kn)), ("R", ktensorJ R),
      ("same_array", Json.bool (sameArray R Kn))])),
  ("sym_ksymmetrize_full", fun j => do
    -- the whole routine from the un-normalised input: `normalize("all")` is the model of
    -- Ops/KruskalReparam.lean with the rational services of Driver/C08.lean (square and N-th roots exact when
    -- rational, else accurate to 2^-80)
    let K ← field j "K" >>= asKtensor
    let Kn := normAllOf svcRat K
    .ok (exceptJ (fun R => Json.mkObj [("R", ktensorJ R), ("Kn", ktensorJ Kn),
      ("aligned", Json.bool (kaligned Kn))]) (ksymmetrize (normAllOf svcRat) K))),
  ("sym_ksymmetrize_check", fun j => do
    -- rejection side of `ktensor.symmetrize` (the normalisation does not matter for it)
    let K ← field j "K" >>= asKtensor
    .ok (exceptJ (fun _ => Json.null) (ksymmetrize (fun K => K) K))),
  ("sym_kissymmetric", fun j => do
    let K ← field j "K" >>= asKtensor
    let r := kissymmetric K
    .ok (Json.mkObj [("b", Json.bool r.1), ("upper", listJ (listJ kdiffJ) r.2)])),
  -- specification side -----------------------------------------------------------
  ("sym_spec", fun j => do
    let T ← field j "T" >>= asDense
    let g ← field j "grps" >>= asNatMat
    .ok (denseJ (symSpec T g))),
  ("sym_isSym", fun j => do
    let T ← field j "T" >>= asDense
    let g ← field j "grps" >>= asNatMat
    .ok (Json.bool (isSymB T g))),
  ("sym_groupPerms", fun j => do
    let n ← field j "n" >>= asNat
    let g ← field j "grps" >>= asNatMat
    .ok (natMatJ (groupPerms n g))),
  ("sym_kfull_symmetric", fun j => do
    -- is the array denoted by K invariant under every permutation of its modes?
    let K ← field j "K" >>= asKtensor
    let n := K.factors.length
    let s := K.shape
    .ok (Json.bool ((permsLex (List.range n)).all fun p =>
      gather s p == s && (allSubs s).all fun i => K.get (gather i p) == K.get i)))
]

end Pyttb.Driver
