/-
Driver operations of C05: run a table entry of the heap model on the operand layouts the
harness observed and return mutation flags and the sharing matrix; run raw NumPy-level
steps (to tie the view / fresh classification to NumPy on every run).
-/
import PyttbModel.Core.Codec
import PyttbModel.Heap.Table2
open Lean Pyttb Pyttb.Codec Pyttb.Heap
namespace Pyttb.Driver

private def optField {β} (j : Json) (k : String) (f : Json → R β) (dflt : β) : R β :=
  match fieldOpt j k with
  | none => .ok dflt
  | some v => f v

private def asParams (j : Json) : R Params := do
  let perm ← optField j "perm" asNats []
  let shape ← optField j "shape" asNats []
  let copy ← optField j "copy" asBool true
  let n ← optField j "n" asNat 0
  let m ← optField j "m" asNat 0
  let k ← optField j "k" asNat 0
  let dims ← optField j "dims" asNats []
  let flag ← optField j "flag" asStr ""
  let kinds ← optField j "kinds" asNats []
  .ok { perm, shape, copy, n, m, k, dims, flag, kinds }

/-- operand i lives alone in buffer i -/
private def asOperands (j : Json) : R (List View) := do
  let l ← asList (fun o => do
    let s ← field o "shape" >>= asNats
    let t ← field o "strides" >>= asNats
    .ok (s, t)) j
  .ok ((List.range l.length).zip l |>.map fun (i, (s, t)) => ⟨i, 0, s, t⟩)

private def specName : Spec → String
  | .pureFresh => "pureFresh"
  | .noCopy _ => "noCopy"
  | .inPlace _ => "inPlace"
  | .knownAlias _ => "knownAlias"

private def asStep (j : Json) : R Step := do
  let a ← j.getArr?
  let name ← (a.getD 0 Json.null).getStr?
  let nat (i : Nat) : R Nat := (a.getD i Json.null).getNat?
  let nats (i : Nat) : R (List Nat) := asNats (a.getD i Json.null)
  match name with
  | "transpose" => do .ok (.transpose (← nat 1) (← nats 2))
  | "tr" => do .ok (.tr (← nat 1))
  | "reshapeF" => do .ok (.reshapeF (← nat 1) (← nats 2))
  | "asF" => do .ok (.asF (← nat 1))
  | "copy" => do .ok (.copy (← nat 1))
  | "squeeze" => do .ok (.squeeze (← nat 1))
  | "slice" => do .ok (.slice (← nat 1) (← nat 2) (← nat 3) (← nat 4))
  | "select" => do .ok (.select (← nat 1) (← nat 2) (← nat 3))
  | "newaxis" => do .ok (.newaxis (← nat 1) (← nat 2))
  | "alias" => do .ok (.alias (← nat 1))
  | "fresh" => do .ok (.fresh (← nats 1) [])
  | "write" => do .ok (.write (← nat 1) [])
  | s => .error s!"unknown step {s}"

def ops05 : List (String × Op) := [
  ("c05_run", fun j => do
    let cls ← field j "cls" >>= asStr
    let method ← field j "method" >>= asStr
    let pinned ← optField j "pinned" asBool false
    let ops ← field j "operands" >>= asOperands
    let p ← match fieldOpt j "params" with
      | some pj => asParams pj
      | none => .ok {}
    match lookup (if pinned then pinnedTable else table) cls method with
    | none => .ok (Json.mkObj [("unknown", Json.bool true)])
    | some e =>
      let B := e.build p ops
      if !wfProg ops.length B.prog then .error s!"ill-formed program for {cls}.{method}" else
      let st : Store Int := ops.map (bufferFor 0)
      let o := outcome (0 : Int) st ops B.prog (B.res.map (·.2))
      let nm (jx : Nat) : String := (B.res.getD jx ("", 0)).1
      .ok (Json.mkObj [("ok", Json.mkObj [
        ("mut", natsJ o.mutated),
        ("share", Json.arr (o.share.map (fun q => Json.arr #[Json.str (nm q.1), toJson q.2])).toArray),
        ("res", Json.arr (B.res.map (fun q => Json.str q.1)).toArray),
        ("spec", Json.str (specName (e.spec p))),
        ("check", Json.bool (e.pre p ops.length && specCheck (e.spec p) ops.length B))])])),
  ("c05_prim", fun j => do
    let ops ← field j "operands" >>= asOperands
    let prog ← field j "prog" >>= asList asStep
    if !wfProg ops.length prog then .error "ill-formed program" else
    let st : Store Int := ops.map (bufferFor 0)
    let S := exec (0 : Int) st ops prog
    let out := (S.regs.drop ops.length).map fun v =>
      Json.mkObj [("shape", natsJ v.shape), ("strides", natsJ v.strides), ("off", toJson v.off),
        ("shares", natsJ ((List.range ops.length).filter fun k => v.overlaps (ops.getD k default))),
        ("isF", Json.bool v.isF), ("isC", Json.bool v.isC)]
    let mutated := (List.range ops.length).filter fun k => S.wlog.any (·.overlaps (ops.getD k default))
    .ok (Json.mkObj [("regs", Json.arr out.toArray), ("mut", natsJ mutated)])),
  ("c05_table", fun _ => do
    .ok (Json.arr (table.map (fun e => Json.arr #[Json.str e.cls, Json.str e.method])).toArray))
]

end Pyttb.Driver
