import PyttbModel.Core.Codec
import PyttbModel.Ops.Validate
open Lean Pyttb Pyttb.Codec
namespace Pyttb.Driver.C19

def optIntsF (j : Json) (k : String) : R (Option (List Int)) :=
  match fieldOpt j k with
  | none => .ok none
  | some v => do let l ← asInts v; .ok (some l)

def optNatF (j : Json) (k : String) : R (Option Nat) :=
  match fieldOpt j k with
  | none => .ok none
  | some v => do let l ← asNat v; .ok (some l)

def optNatsF (j : Json) (k : String) : R (Option (List Nat)) :=
  match fieldOpt j k with
  | none => .ok none
  | some v => do let l ← asNats v; .ok (some l)

def asMatS (j : Json) : R MatS := do
  let l ← asNats j
  match l with
  | [a, b] => .ok (a, b)
  | _ => .error "matrix shape must have two entries"

def asMatSs := asList asMatS

def asRep (j : Json) : R Rep := do
  let s ← asStr j
  match s with
  | "dense" => .ok .dense
  | "sparse" => .ok .sparse
  | "ktensor" => .ok .ktensor
  | "ttensor" => .ok .ttensor
  | "sumtensor" => .ok .sumtensor
  | "tenmat" => .ok .dense
  | _ => .error s!"unknown representation {s}"

def optCyc (j : Json) (k : String) : R (Option Cyclic) :=
  match fieldOpt j k with
  | none => .ok none
  | some v => do
    let s ← asStr v
    match s with
    | "fc" => .ok (some .fc)
    | "bc" => .ok (some .bc)
    | "t" => .ok (some .t)
    | _ => .error s!"unknown cdims_cyclic {s}"

/-- the reply: the decidable precondition, the outcome of the validation model, and (for
in-place operations) whether the model leaves the receiver as it was when it rejects -/
def reply (pre : Bool) (v : Except Reject Unit) (unchanged : Bool := true) : Json :=
  Json.mkObj [("pre", Json.bool pre),
              ("validate", Json.str (match v with | .ok _ => "ok" | .error _ => "reject")),
              ("unchanged", Json.bool unchanged)]

/-- in-place operations: run the `inPlace` combinator on a token state with a step that
changes it, and report whether a rejection left the token alone -/
def replyInPlace (pre : Bool) (v : Except Reject Unit) : Json :=
  let out := inPlace v (fun (s : Nat) => s + 1) 0
  reply pre out.2 (match out.2 with | .error _ => out.1 == 0 | .ok _ => true)

def asInit (shape : List Nat) (j : Json) (k : String) : R InitSpec :=
  match fieldOpt j k with
  | none => .ok .random
  | some v =>
    match v with
    | .str s => .ok (if s == "random" then .random else if s == "nvecs" then .nvecs else .other)
    | .arr _ => do let ms ← asMatSs v; .ok (.mats ms)
    | _ => do
      let s ← field v "shape" >>= asNats
      let r ← field v "R" >>= asNat
      let neg := match fieldOpt v "neg" with
        | some (.str x) => x
        | _ => ""
      let _ := shape
      .ok (.ktensor s r (neg == "factor") (neg == "weight"))

def subsArgs (j : Json) (subsKey : String) : R SubsArgs := do
  let shape ← field j "shape" >>= asNats
  let subs ← field j subsKey >>= asIntMat
  let nvals ← match fieldOpt j "nvals" with
    | none => pure subs.length
    | some v => asNat v
  let width := match subs with | [] => shape.length | r :: _ => r.length
  .ok { shape, width, subs, nvals }

/-- `ttv`: multiplicands by length (`vecs`) or, for `ktensor.ttv`, by shape (`vshapes`: arrays of any order, singleton
axes are dropped) -/
def ttvOp (j : Json) : R Json := do
  let shape ← field j "shape" >>= asNats
  let dims ← optIntsF j "dims"
  let excl ← optIntsF j "excl"
  match fieldOpt j "vshapes" with
  | some v =>
    let vshapes ← asNatMat v
    let a : TtvMArgs := { shape, vshapes, dims, excl }
    .ok (reply (decide (Pre_ttvM a)) (validate_ttvM a))
  | none =>
    let vecs ← field j "vecs" >>= asNats
    let a : TtvArgs := { shape, vecs, dims, excl }
    .ok (reply (decide (Pre_ttv a)) (validate_ttv a))

/-- `khatrirao`: matrices (`mats`) or arguments of any order by shape (`shapes`) -/
def khatriraoOp (j : Json) : R Json := do
  let rev ← field j "rev" >>= asBool
  match fieldOpt j "shapes" with
  | some v =>
    let shapes ← asNatMat v
    .ok (reply (decide (Pre_khatriraoND shapes)) (validate_khatriraoND shapes rev))
  | none =>
    let ms ← field j "mats" >>= asMatSs
    .ok (reply (decide (Pre_khatrirao ms)) (validate_khatrirao ms rev))

def ops19 : List (String × Op) := [
  ("c19_dimscheck", fun j => do
    let n ← field j "N" >>= asNat
    let m ← optNatF j "M"
    let dims ← optIntsF j "dims"
    let excl ← optIntsF j "excl"
    .ok (reply (decide (Pre_dimscheck n m dims excl)) (validate_dimscheck n m dims excl))),
  ("c19_ttv", ttvOp),
  ("c19_ttm", fun j => do
    let rep ← field j "rep" >>= asRep
    let shape ← field j "shape" >>= asNats
    let mats ← field j "mats" >>= asMatSs
    let dims ← optIntsF j "dims"
    let excl ← optIntsF j "excl"
    let tr ← field j "tr" >>= asBool
    let single ← field j "single" >>= asBool
    let mats := if single then mats.take 1 else mats
    let a : TtmArgs := { rep, shape, mats, dims, excl, tr, single }
    .ok (reply (decide (Pre_ttm a)) (validate_ttm a))),
  ("c19_mttkrp", fun j => do
    let rep ← field j "rep" >>= asRep
    let shape ← field j "shape" >>= asNats
    let U ← field j "U" >>= asMatSs
    let n ← field j "n" >>= asInt
    let a : MttkrpArgs := { rep, shape, U, n }
    .ok (reply (decide (Pre_mttkrp a)) (validate_mttkrp a))),
  ("c19_innerprod", fun j => do
    let sa ← field j "sa" >>= asNats
    let sb ← field j "sb" >>= asNats
    .ok (reply (decide (Pre_sameShape sa sb)) (validate_sameShape sa sb))),
  ("c19_elementwise", fun j => do
    let sa ← field j "sa" >>= asNats
    let sb ← field j "sb" >>= asNats
    let a ← field j "a" >>= asStr
    if a == "tenmat" then .ok (reply (decide (Pre_tenmatAdd sa sb)) (validate_tenmatAdd sa sb))
    else .ok (reply (decide (Pre_sameShape sa sb)) (validate_sameShape sa sb))),
  ("c19_tenmat_mul", fun j => do
    let a ← field j "a" >>= asMatS
    let b ← field j "b" >>= asMatS
    .ok (reply (decide (Pre_tenmatMul a b)) (validate_tenmatMul a b))),
  ("c19_ttt", fun j => do
    let sa ← field j "sa" >>= asNats
    let sb ← field j "sb" >>= asNats
    let xd ← field j "xd" >>= asInts
    let yd ← field j "yd" >>= asInts
    let a : TttArgs := { sa, sb, xd, yd }
    .ok (reply (decide (Pre_ttt a)) (validate_ttt a))),
  ("c19_contract", fun j => do
    let shape ← field j "shape" >>= asNats
    let i ← field j "i" >>= asInt
    let k ← field j "j" >>= asInt
    .ok (reply (decide (Pre_contract shape i k)) (validate_contract shape i k))),
  ("c19_collapse", fun j => do
    let shape ← field j "shape" >>= asNats
    let dims ← optIntsF j "dims"
    .ok (reply (decide (Pre_collapse shape dims)) (validate_collapse shape dims))),
  ("c19_scale", fun j => do
    let rep ← field j "rep" >>= asRep
    let shape ← field j "shape" >>= asNats
    let dims ← field j "dims" >>= asInts
    let fshape ← field j "fshape" >>= asNats
    let fk ← field j "fkind" >>= asStr
    let fkind := if fk == "array" then FactorKind.array else if fk == "tensor" then .tensor else .sptensor
    let a : ScaleArgs := { rep, shape, dims, fshape, fkind }
    .ok (reply (decide (Pre_scale a)) (validate_scale a))),
  ("c19_permute", fun j => do
    let shape ← field j "shape" >>= asNats
    let order ← field j "order" >>= asInts
    .ok (reply (decide (Pre_permute shape order)) (validate_permute shape order))),
  ("c19_reshape", fun j => do
    let shape ← field j "shape" >>= asNats
    let target ← field j "target" >>= asNats
    let old ← optIntsF j "old"
    .ok (reply (decide (Pre_reshape shape target old)) (validate_reshape shape target old))),
  ("c19_to_mat", fun j => do
    let rep ← field j "rep" >>= asRep
    let shape ← field j "shape" >>= asNats
    let rdims ← optIntsF j "rdims"
    let cdims ← optIntsF j "cdims"
    let cyc ← optCyc j "cyc"
    let n := shape.length
    let v := if rep = Rep.sparse then validate_toSptenmat n rdims cdims cyc else validate_toTenmat n rdims cdims cyc
    .ok (reply (decide (Pre_toMat n rdims cdims cyc)) v)),
  ("c19_construct", fun j => do
    let k ← field j "k" >>= asStr
    match k with
    | "tensor" => do
      let ds ← field j "dshape" >>= asNats
      let s ← field j "shape" >>= asNats
      .ok (reply (decide (Pre_tensor ds s)) (validate_tensor ds s))
    | "sptensor" => do
      -- the extents as written (integers: zero and negative ones can be asked for)
      let shape ← field j "shape" >>= asInts
      let subs ← field j "subs" >>= asIntMat
      let nvals ← match fieldOpt j "nvals" with
        | none => pure subs.length
        | some v => asNat v
      let width := match subs with | [] => shape.length | r :: _ => r.length
      let a : SubsArgsI := { shape, width, subs, nvals }
      let agg ← field j "agg" >>= asBool
      .ok (reply (decide (Pre_subsI a)) (if agg then validate_fromAggregatorI a else validate_sptensorI a))
    | "ktensor" => do
      let fs ← field j "fshapes" >>= asMatSs
      let nw ← optNatF j "nw"
      -- element types other than float are named in `fdtype` / `wdtype`
      let ff := (fieldOpt j "fdtype").isNone
      let wf := (fieldOpt j "wdtype").isNone
      .ok (reply (decide (Pre_ktensorTyped fs nw ff wf)) (validate_ktensorTyped fs nw ff wf))
    | "ttensor" => do
      let core ← field j "core" >>= asNats
      let fs ← field j "fshapes" >>= asMatSs
      match fieldOpt j "omit" with
      | some (.str o) =>
        let hasCore := !(o == "core" || o == "both")
        let hasFactors := !(o == "factors" || o == "both")
        .ok (reply (decide (Pre_ttensorGiven hasCore hasFactors)) (validate_ttensorGiven hasCore hasFactors))
      | _ => .ok (reply (decide (Pre_ttensor core fs)) (validate_ttensor core fs))
    | "sumtensor" => do
      let shapes ← field j "shapes" >>= asNatMat
      .ok (reply (decide (Pre_sumtensor shapes)) (validate_sumtensor shapes))
    | "tenmat" => do
      let dshape ← field j "dshape" >>= asMatS
      let rdims ← optIntsF j "rdims"
      let cdims ← optIntsF j "cdims"
      let tshape ← field j "tshape" >>= asNats
      let vec : Bool := match fieldOpt j "vec" with | some (.bool b) => b | _ => false
      let a : TenmatArgs := { dshape, rdims, cdims, tshape, vec }
      .ok (reply (decide (Pre_tenmat a)) (validate_tenmat a))
    | "sptenmat" => do
      let subs ← field j "subs" >>= asIntMat
      let nvals ← field j "nvals" >>= asNat
      let rdims ← optIntsF j "rdims"
      let cdims ← optIntsF j "cdims"
      let tshape ← field j "tshape" >>= asNats
      let width := match subs with | [] => 2 | r :: _ => r.length
      let a : SptenmatArgs := { width, subs, nvals, rdims, cdims, tshape }
      .ok (reply (decide (Pre_sptenmat a)) (validate_sptenmat a))
    | "from_vector" => do
      let s ← field j "shape" >>= asNats
      let n ← field j "n" >>= asNat
      let cw ← field j "cw" >>= asBool
      .ok (reply (decide (Pre_fromVector s n cw)) (validate_fromVector s n cw))
    | "sptensor_given" => do
      let subs ← field j "subs" >>= asBool
      let vals ← field j "vals" >>= asBool
      .ok (reply (decide (Pre_sptensorGiven subs vals)) (validate_sptensorGiven subs vals))
    | "sptenmat_given" => do
      let subs ← field j "subs" >>= asBool
      let vals ← field j "vals" >>= asBool
      let dims ← field j "dims" >>= asBool
      .ok (reply (decide (Pre_sptenmatGiven subs vals dims)) (validate_sptenmatGiven subs vals dims))
    | "vector_data" => do
      let s ← field j "dshape" >>= asNats
      .ok (reply (decide (Pre_isVector s)) (validate_isVector s))
    | "shape_array" => do
      let s ← field j "ashape" >>= asNats
      .ok (reply (decide (Pre_shapeArray s)) (validate_shapeArray s))
    | _ => .error s!"unknown constructor {k}"),
  ("c19_ktensor_modes", fun j => do
    let shape ← field j "shape" >>= asNats
    let r ← field j "R" >>= asNat
    let fn ← field j "fn" >>= asStr
    let n := shape.length
    match fn with
    | "arrange_perm" => do
      let p ← field j "arg" >>= asInts
      .ok (replyInPlace (decide (Pre_karrange r p)) (validate_karrange r p))
    | "extract" => do
      let p ← field j "arg" >>= asInts
      .ok (reply (decide (Pre_kextract r p)) (validate_kextract r p))
    | "nvecs" => do
      let m ← field j "arg" >>= asInt
      .ok (reply (decide (Pre_nvecs shape m 1)) (validate_nvecs shape m 1))
    | _ => do
      let m ← field j "arg" >>= asInt
      .ok (replyInPlace (decide (Pre_kmode n m)) (validate_kmode n m))),
  ("c19_nvecs", fun j => do
    let shape ← field j "shape" >>= asNats
    let m ← field j "arg" >>= asInt
    let r ← field j "R" >>= asInt
    .ok (reply (decide (Pre_nvecs shape m r)) (validate_nvecs shape m r))),
  ("c19_mttkrps", fun j => do
    let shape ← field j "shape" >>= asNats
    let U ← field j "U" >>= asMatSs
    .ok (reply (decide (Pre_mttkrps shape U)) (validate_mttkrps shape U))),
  ("c19_ttsv", fun j => do
    let shape ← field j "shape" >>= asNats
    let veclen ← field j "veclen" >>= asNat
    let skip ← match fieldOpt j "skip" with | none => pure none | some v => do let k ← asInt v; pure (some k)
    let version : TtsvVersion := match fieldOpt j "version" with
      | none => .default
      | some v => match v.getNat? with
        | .ok 1 => .v1
        | .ok 2 => .v2
        | _ => .other
    let a : TtsvArgs := { shape, veclen, skip, version }
    match fieldOpt j "vshape" with
    | some v => do
      -- the multiplicand by shape and kind (ndarray / nested list)
      let vshape ← asNats v
      let isList ← field j "vlist" >>= asBool
      .ok (reply (decide (Pre_ttsvM a vshape isList)) (validate_ttsvM a vshape isList))
    | none => .ok (reply (decide (Pre_ttsv a)) (validate_ttsv a))),
  ("c19_symmetry", fun j => do
    let shape ← field j "shape" >>= asNats
    let fn ← field j "fn" >>= asStr
    let grps ← match fieldOpt j "grps" with | none => pure none | some v => do let g ← asIntMat v; pure (some g)
    let old := match fieldOpt j "old" with | some (.bool b) => b | _ => false
    match fn with
    | "symmetrize" => .ok (reply (decide (Pre_symmetrize shape grps)) (validate_symmetrize shape grps old))
    | "issymmetric" => .ok (reply (decide (Pre_issymmetric shape grps)) (validate_issymmetric shape grps))
    | _ => .ok (reply (decide (Pre_ksymmetrize shape)) (validate_ksymmetrize shape))),
  ("c19_kmatch", fun j => do
    let sa ← field j "sa" >>= asNats
    let sb ← field j "sb" >>= asNats
    let ra ← field j "ra" >>= asNat
    let rb ← field j "rb" >>= asNat
    let fn ← field j "fn" >>= asStr
    let pre := decide (Pre_kmatch sa sb ra rb)
    let v := validate_kmatch sa sb ra rb
    .ok (if fn == "fixsigns" then replyInPlace pre v else reply pre v)),
  ("c19_update", fun j => do
    let shape ← field j "shape" >>= asNats
    let r ← field j "R" >>= asNat
    let modes ← field j "modes" >>= asInts
    let datalen ← field j "n" >>= asNat
    let a : UpdateArgs := { shape, R := r, modes, datalen }
    .ok (replyInPlace (decide (Pre_update a)) (validate_update a))),
  ("c19_reconstruct", fun j => do
    let shape ← field j "shape" >>= asNats
    let modes ← optIntsF j "modes"
    let samples ← match fieldOpt j "samples" with
      | none => pure none
      | some v => do
        let l ← asList (fun (x : Json) => do
          let k ← field x "k" >>= asStr
          if k == "idx" then do let m ← field x "max" >>= asNat; pure (SampleS.idx m)
          else do let r ← field x "rows" >>= asNat; let c ← field x "cols" >>= asNat; pure (SampleS.mat r c)) v
        pure (some l)
    .ok (reply (decide (Pre_reconstruct shape samples modes)) (validate_reconstruct shape samples modes))),
  ("c19_from_function", fun j => do
    let k ← field j "k" >>= asStr
    let shape ← field j "shape" >>= asNats
    match k with
    | "tensor" => do
      let ds ← field j "ret" >>= asNats
      .ok (reply (decide (Pre_tensor ds shape)) (validate_tensor ds shape))
    | "sptensor" => do
      let nz ← field j "nz" >>= asInt
      let ok ← field j "ok" >>= asBool
      .ok (reply (decide (Pre_spFromFunction shape nz ok)) (validate_spFromFunction shape nz ok))
    | _ => do
      let r ← field j "R" >>= asNat
      let ret ← field j "ret" >>= asMatSs
      .ok (reply (decide (Pre_kfromFunction shape r ret)) (validate_kfromFunction shape r ret))),
  ("c19_matindex", fun j => do
    let k ← field j "k" >>= asStr
    match k with
    | "tenmat" => do
      let mshape ← field j "mshape" >>= asMatS
      let i ← field j "i" >>= asInt
      let c ← field j "j" >>= asInt
      .ok (reply (decide (Pre_tenmatIndex mshape i c)) (validate_tenmatIndex mshape i c))
    | "sptenmat" => do
      let mshape ← field j "mshape" >>= asMatS
      let rsubs ← field j "rsubs" >>= asInts
      let csubs ← field j "csubs" >>= asInts
      let nvals ← optNatF j "nvals"
      let a : SpSetArgs := { mshape, rsubs, csubs, nvals }
      .ok (replyInPlace (decide (Pre_sptenmatSet a)) (validate_sptenmatSet a))
    | _ => do
      let ashape ← field j "ashape" >>= asMatS
      let rdims ← optIntsF j "rdims"
      let cdims ← optIntsF j "cdims"
      let tshape ← field j "tshape" >>= asNats
      .ok (reply (decide (Pre_fromArray ashape rdims cdims tshape)) (validate_fromArray ashape rdims cdims tshape))),
  ("c19_misc", fun j => do
    let k ← field j "k" >>= asStr
    let shape ← field j "shape" >>= asNats
    match k with
    | "tenfun" => do
      let others ← field j "others" >>= asNatMat
      .ok (reply (decide (Pre_tenfunUnary shape others)) (validate_tenfunUnary shape others))
    | "viz" => do
      let lens ← field j "lens" >>= asNats
      .ok (reply (decide (Pre_viz shape.length lens)) (validate_viz shape.length lens))
    | "tenfun_arity" => do
      let nargs ← field j "nargs" >>= asNat
      let others ← field j "nothers" >>= asNat
      .ok (reply (decide (Pre_tenfunArity nargs others)) (validate_tenfunArity nargs others))
    | _ => .ok (reply (decide (Pre_spmatrix shape)) (validate_spmatrix shape))),
  ("c19_mask", fun j => do
    let shape ← field j "shape" >>= asNats
    let w ← field j "wshape" >>= asNats
    .ok (reply (decide (Pre_mask shape w)) (validate_mask shape w))),
  ("c19_extract", fun j => do
    let a ← subsArgs j "subs"
    let a := { a with nvals := a.subs.length }
    .ok (reply (decide (Pre_extract a)) (validate_extract a))),
  ("c19_khatrirao", khatriraoOp),
  ("c19_algorithms", fun j => do
    let alg ← field j "alg" >>= asStr
    let shape ← field j "shape" >>= asNats
    let opt ← field j "opt"
    let data ← field j "data" >>= asStr
    match alg with
    | "cp_als" => do
      let rank ← field j "rank" >>= asInt
      let dimorder ← optIntsF opt "dimorder"
      let optdims ← optIntsF opt "optdims"
      let init ← asInit shape opt "init"
      let a : CpAlsArgs := { shape, rank, dimorder, optdims, init }
      .ok (reply (decide (Pre_cpAls a)) (validate_cpAls a))
    | "cp_apr" => do
      let rank ← field j "rank" >>= asInt
      let init ← asInit shape opt "init"
      let neg := match fieldOpt opt "negdata" with | some (.bool b) => b | _ => false
      let algorithm : Option Nat := match fieldOpt opt "algorithm" with
        | none => some 0
        | some (.str s) => if s == "mu" then some 0 else if s == "pdnr" then some 1 else if s == "pqnr" then some 2 else none
        | _ => none
      let a : CpAprArgs := { shape, rank, dataNonneg := !neg, algorithm, init }
      .ok (reply (decide (Pre_cpApr a)) (validate_cpApr a))
    | "tucker_als" => do
      let rank ← match (← field j "rank") with
        | .arr xs => xs.toList.mapM asInt
        | v => do let k ← asInt v; pure [k]
      let dimorder ← optIntsF opt "dimorder"
      let init ← asInit shape opt "init"
      let mi : Int ← match fieldOpt opt "maxiters" with | none => pure 1 | some v => asInt v
      let a : TuckerArgs := { shape, rank, maxitersNonneg := decide (0 ≤ mi), dimorder, init }
      .ok (reply (decide (Pre_tucker a)) (validate_tucker a))
    | "hosvd" => do
      let ranks ← optIntsF opt "ranks"
      let dimorder ← optIntsF opt "dimorder"
      .ok (reply (decide (Pre_hosvd shape ranks dimorder)) (validate_hosvd shape ranks dimorder))
    | "gcp_opt" => do
      let rank ← field j "rank" >>= asInt
      let init ← asInit shape opt "init"
      let mask ← optNatsF opt "mask"
      let solver ← match fieldOpt opt "solver" with
        | some (.str s) => pure (if s == "lbfgsb" then 0 else if s == "sgd" then 1 else 2)
        | _ => pure 0
      let obj2 := match fieldOpt opt "objective2" with | some (.bool b) => b | _ => false
      let a : GcpArgs := { shape, rank, sparse := data == "sparse", objectiveOk := !obj2, solver, mask, init }
      .ok (reply (decide (Pre_gcp a)) (validate_gcp a))
    | _ => .error s!"unknown algorithm {alg}"),
  ("c19_sp_assign", fun j => do
    let rhs ← field j "rhs" >>= asNats
    let key ← field j "key" >>= asList (fun (e : Json) => do
      let t ← field e "t" >>= asStr
      if t == "int" then pure KeyEntry.int
      else if t == "slice" then do let b ← field e "stop" >>= asBool; pure (KeyEntry.slice b)
      else do let n ← field e "len" >>= asNat; pure (KeyEntry.list n))
    .ok (replyInPlace (decide (Pre_spAssign key rhs)) (validate_spAssign key rhs))),
  ("c19_sp_setsubs", fun j => do
    let shape ← field j "shape" >>= asNats
    let w ← field j "width" >>= asNat
    .ok (replyInPlace (decide (Pre_setSubsWidth shape.length w)) (validate_setSubsWidth shape.length w))),
  ("c19_subdims", fun j => do
    let n ← field j "N" >>= asNat
    let len ← field j "len" >>= asNat
    .ok (reply (decide (Pre_subdims n len)) (validate_subdims n len))),
  ("c19_import_data", fun j => do
    let k ← field j "k" >>= asStr
    let a : ImportArgs ← match k with
      | "tensor" => do
        let h ← field j "hdr_n" >>= asNat
        let s ← field j "shape" >>= asNats
        let n ← field j "nvals" >>= asNat
        pure (ImportArgs.tensor h s n)
      | "sptensor" => do
        let h ← field j "hdr_n" >>= asNat
        let s ← field j "shape" >>= asNats
        let nnz ← field j "nnz" >>= asNat
        let lines ← field j "lines" >>= asIntMat
        pure (ImportArgs.sptensor h s nnz lines)
      | "ktensor" => do
        let h ← field j "hdr_n" >>= asNat
        let s ← field j "shape" >>= asNats
        let r ← field j "R" >>= asNat
        let nw ← field j "nw" >>= asNat
        let fs ← field j "fshapes" >>= asMatSs
        pure (ImportArgs.ktensor h s r nw fs)
      | "type" => pure ImportArgs.unknown
      | _ => pure ImportArgs.missing
    .ok (reply (decide (Pre_import a)) (validate_import a)))
]

end Pyttb.Driver.C19
