import PyttbModel.Core.Codec
import PyttbModel.Ops.KruskalReparam
import PyttbModel.Ops.KruskalSeq
open Lean Pyttb Pyttb.Codec
namespace Pyttb.Driver

/-! Rational stand-ins for the square root and the N-th root: exact whenever the result is
rational, otherwise the floor at resolution 2^-80 (relative error far below one ulp of a
double), so every comparison of the model with floating-point output is a tolerance test
only where the exact value is irrational. -/

/-- floor of the `k`-th root of `n` (bisection). -/
def natRoot (k n : Nat) : Nat :=
  if k == 0 then 1 else
  let rec go (fuel lo hi : Nat) : Nat :=   -- invariant lo^k ≤ n < hi^k
    match fuel with
    | 0 => lo
    | fuel + 1 =>
      if hi ≤ lo + 1 then lo
      else
        let mid := (lo + hi) / 2
        if mid ^ k ≤ n then go fuel mid hi else go fuel lo mid
  go (n.log2 + 2) 0 (n + 1)

def scaleBits : Nat := 80

/-- `x ** (1/k)` for `x ≥ 0` (0 for negative input, which the code never produces). -/
def ratRoot (k : Nat) (q : Rat) : Rat :=
  if q ≤ 0 then 0
  else
    let n := q.num.toNat
    let d := q.den
    -- n/d = n d^(k-1) / d^k
    let m := n * d ^ (k - 1)
    let s := natRoot k m
    if s ^ k == m then (s : Rat) / (d : Rat)
    else
      let S := 2 ^ scaleBits
      ((natRoot k (m * S ^ k) : Nat) : Rat) / ((d * S : Nat) : Rat)

def ratSqrt (q : Rat) : Rat := ratRoot 2 q

def svcRat : Services Rat := Services.std ratSqrt ratRoot

def asNormType (j : Json) : R NormType :=
  match j with
  | .str "1" => .ok .one
  | .str "2" => .ok .two
  | .str "inf" => .ok .inf
  | _ => .error "bad normtype"

def optInt (j : Json) (k : String) : R (Option Int) :=
  match fieldOpt j k with
  | none => .ok none
  | some v => do let n ← asInt v; .ok (some n)

def optIntList (j : Json) (k : String) : R (Option (List Int)) :=
  match fieldOpt j k with
  | none => .ok none
  | some v => do let l ← asInts v; .ok (some l)

def optWF (j : Json) : R (Option Ktensor.WeightFactor) :=
  match fieldOpt j "wf" with
  | none => .ok none
  | some (.str "all") => .ok (some .all)
  | some v => do let n ← asInt v; .ok (some (.mode n))

def boolD (j : Json) (k : String) (d : Bool) : R Bool :=
  match fieldOpt j k with
  | none => .ok d
  | some v => asBool v

def matsJ (l : List (Mat Rat)) : Json := listJ ratMatJ l

def envJ (E : Ktensor.Env Rat) : Json :=
  Json.mkObj [("ks", listJ ktensorJ E.ks), ("vs", listJ ratsJ E.vs), ("ls", listJ matsJ E.ls)]

def asSeqOp (j : Json) : R Ktensor.SeqOp := do
  let name ← field j "op" >>= asStr
  let nat (k : String) : R Nat := field j k >>= asNat
  match name with
  | "normalize" => do
    let wf ← optWF j
    let sort ← boolD j "sort" false
    let nt ← field j "nt" >>= asNormType
    let mode ← optInt j "mode"
    .ok (.normalize (← nat "k") wf sort nt mode)
  | "arrange" => do .ok (.arrange (← nat "k") (← optInt j "wf") (← optIntList j "perm"))
  | "fixsigns" => do .ok (.fixsigns (← nat "k"))
  | "fixsigns_ref" => do .ok (.fixsignsRef (← nat "k") (← nat "other"))
  | "redistribute" => do .ok (.redistribute (← nat "k") (← field j "mode" >>= asInt))
  | "update" => do .ok (.update (← nat "k") (← field j "modes" >>= asInts) (← nat "v"))
  | "tovec" => do .ok (.tovec (← nat "k") (← field j "w" >>= asBool))
  | "from_vector" => do .ok (.fromVector (← nat "v") (← field j "shape" >>= asNats) (← field j "w" >>= asBool))
  | "extract" => do .ok (.extract (← nat "k") (← field j "idx" >>= asInts))
  | "copy" => do .ok (.copy (← nat "k"))
  | "add" => do .ok (.add (← nat "a") (← nat "b"))
  | "sub" => do .ok (.sub (← nat "a") (← nat "b"))
  | "tolist" => do .ok (.tolist (← nat "k") (← optInt j "mode"))
  | "construct" => do .ok (.construct (← nat "l"))
  | "smul" => do .ok (.smul (← nat "k") (← field j "c" >>= asInt))
  | "neg" => do .ok (.neg (← nat "k"))
  | "pos" => do .ok (.pos (← nat "k"))
  | "permute" => do .ok (.permute (← nat "k") (← field j "order" >>= asNats))
  | "symmetrize" => do .ok (.symmetrize (← nat "k"))
  | "reconstruct" => do .ok (.reconstruct (← nat "k"))
  | _ => .error s!"bad seq op {name}"

def ops08 : List (String × Op) := [
  ("k_seq", fun j => do
    let ks ← field j "ks" >>= asList asKtensor
    let vs ← field j "vs" >>= asList asRats
    let ls ← field j "ls" >>= asList (asList asRatMat)
    let prog ← field j "prog" >>= asList asSeqOp
    .ok (listJ (exceptJ envJ) (Ktensor.runSeq svcRat ⟨ks, vs, ls⟩ prog))),
  ("k_construct", fun j => do
    let f ← field j "factors" >>= asList asRatMat
    let w ← match fieldOpt j "weights" with
      | none => pure none
      | some v => do let l ← asRats v; pure (some l)
    .ok (exceptJ ktensorJ (Ktensor.construct f w))),
  ("k_normalize", fun j => do
    let K ← field j "K" >>= asKtensor
    let wf ← optWF j
    let sort ← boolD j "sort" false
    let nt ← field j "nt" >>= asNormType
    let mode ← optInt j "mode"
    .ok (exceptJ ktensorJ (Ktensor.normalize svcRat K wf sort nt mode))),
  ("k_arrange", fun j => do
    let K ← field j "K" >>= asKtensor
    let wf ← optInt j "wf"
    let p ← optIntList j "perm"
    .ok (exceptJ ktensorJ (Ktensor.arrange svcRat K wf p))),
  ("k_fixsigns", fun j => do
    let K ← field j "K" >>= asKtensor
    .ok (ktensorJ (Ktensor.fixsigns K))),
  ("k_fixsigns_ref", fun j => do
    let K ← field j "K" >>= asKtensor
    let o ← field j "other" >>= asKtensor
    let fixed ← boolD j "fixed" true
    -- diagnostics: the sign scores per component (columns of the normalised tensors)
    let scores : List (List Rat) :=
      match Ktensor.normalize svcRat K none false .two none, Ktensor.normalize svcRat o none false .two none with
      | .ok A, .ok B => (List.range (min A.ncomp B.ncomp)).map fun r =>
          (List.range A.ndims).map fun n => dot ((A.factors.getD n []).col r) ((B.factors.getD n []).col r)
      | _, _ => []
    let res := Ktensor.fixsignsRefG svcRat fixed K o
    let Bn := Ktensor.normalize svcRat o none false .two none
    -- the normal form on the model's result: sign scores after the call, the alignment predicate of
    -- `C08_fixsigns_ref_normal_form` per component of the reference, and a second call
    let (after, aligned) : List (List Rat) × List Bool :=
      match res, Bn with
      | .ok K', .ok B => ((List.range B.ncomp).map fun r => Ktensor.refScores K' B r,
                          (List.range B.ncomp).map fun r => Ktensor.alignedComp K' B r)
      | _, _ => ([], [])
    let res2 := match res with
      | .ok K' => Ktensor.fixsignsRefG svcRat fixed K' o
      | .error e => .error e
    .ok (Json.mkObj [("res", exceptJ ktensorJ res),
                     ("scores", ratMatJ scores),
                     ("after", ratMatJ after),
                     ("aligned", Json.arr (aligned.map Json.bool).toArray),
                     ("res2", exceptJ ktensorJ res2),
                     ("B", exceptJ ktensorJ Bn)])),
  ("k_normalize_twice", fun j => do
    let K ← field j "K" >>= asKtensor
    let nt ← field j "nt" >>= asNormType
    let r1 := Ktensor.normalize svcRat K none false nt none
    let r2 := match r1 with
      | .ok K1 => Ktensor.normalize svcRat K1 none false nt none
      | .error e => .error e
    .ok (Json.mkObj [("first", exceptJ ktensorJ r1), ("second", exceptJ ktensorJ r2)])),
  ("k_arrange_compose", fun j => do
    let K ← field j "K" >>= asKtensor
    let p ← field j "p" >>= asInts
    let q ← field j "q" >>= asInts
    let r1 := Ktensor.arrange svcRat K none (some p)
    let r2 := match r1 with
      | .ok K1 => Ktensor.arrange svcRat K1 none (some q)
      | .error e => .error e
    let pq : List Int := (gatherD (p.map Int.toNat) (q.map Int.toNat) 0).map Int.ofNat
    .ok (Json.mkObj [("first", exceptJ ktensorJ r1), ("second", exceptJ ktensorJ r2), ("pq", intsJ pq),
                     ("direct", exceptJ ktensorJ (Ktensor.arrange svcRat K none (some pq)))])),
  ("k_redistribute", fun j => do
    let K ← field j "K" >>= asKtensor
    let m ← field j "mode" >>= asInt
    .ok (exceptJ ktensorJ (Ktensor.redistribute K m))),
  ("k_extract", fun j => do
    let K ← field j "K" >>= asKtensor
    let arg ← match fieldOpt j "idx" with
      | none => pure Ktensor.ExtractArg.none
      | some (.arr a) => do let l ← a.toList.mapM asInt; pure (Ktensor.ExtractArg.list l)
      | some v => do let n ← asInt v; pure (Ktensor.ExtractArg.int n)
    .ok (exceptJ ktensorJ (Ktensor.extract K arg))),
  ("k_tovec", fun j => do
    let K ← field j "K" >>= asKtensor
    let w ← field j "w" >>= asBool
    .ok (ratsJ (Ktensor.tovec K w))),
  ("k_from_vector", fun j => do
    let d ← field j "data" >>= asRats
    let s ← field j "shape" >>= asNats
    let w ← field j "w" >>= asBool
    .ok (exceptJ ktensorJ (Ktensor.fromVector d s w))),
  ("k_update", fun j => do
    let K ← field j "K" >>= asKtensor
    let m ← field j "modes" >>= asInts
    let d ← field j "data" >>= asRats
    .ok (exceptJ ktensorJ (Ktensor.update K m d))),
  ("k_tolist", fun j => do
    let K ← field j "K" >>= asKtensor
    let mode ← optInt j "mode"
    .ok (exceptJ matsJ (Ktensor.tolist svcRat K mode))),
  ("k_add", fun j => do
    let K ← field j "K" >>= asKtensor
    let L ← field j "L" >>= asKtensor
    .ok (exceptJ ktensorJ (Ktensor.add K L))),
  ("k_sub", fun j => do
    let K ← field j "K" >>= asKtensor
    let L ← field j "L" >>= asKtensor
    .ok (exceptJ ktensorJ (Ktensor.sub K L))),
  ("k_neg", fun j => do
    let K ← field j "K" >>= asKtensor
    .ok (exceptJ ktensorJ (Ktensor.neg K))),
  ("k_pos", fun j => do
    let K ← field j "K" >>= asKtensor
    .ok (ktensorJ (Ktensor.pos K))),
  ("k_smul", fun j => do
    let K ← field j "K" >>= asKtensor
    let c ← field j "c" >>= asRat
    .ok (exceptJ ktensorJ (Ktensor.smul c K))),
  ("k_isequal", fun j => do
    let K ← field j "K" >>= asKtensor
    let L ← field j "L" >>= asKtensor
    let fixed ← boolD j "fixed" true
    .ok (exceptJ (fun (b : Bool) => Json.bool b) (Ktensor.isequalG fixed K L))),
  ("k_score", fun j => do
    let K ← field j "K" >>= asKtensor
    let o ← field j "other" >>= asKtensor
    let wp ← boolD j "wp" true
    let greedy ← boolD j "greedy" true
    let thr ← match fieldOpt j "thr" with
      | none => pure none
      | some v => do let q ← asRat v; pure (some q)
    let C : List (List Rat) := match Ktensor.scoreMatrix svcRat K o wp with
      | .ok (_, _, C) => C
      | .error _ => []
    .ok (Json.mkObj [("C", ratMatJ C), ("res", exceptJ (fun (r : Ktensor.ScoreResult Rat) =>
        Json.mkObj [("score", ratJ r.score), ("A", ktensorJ r.A), ("flag", Json.bool r.flag), ("perm", intsJ r.perm)])
      (Ktensor.scoreG svcRat 10 (fun n => ((99 : Rat) / 100) ^ n) (fun n => (n : Rat)) K o wp thr greedy))]))
]

end Pyttb.Driver
