import PyttbModel.Core.Codec
import PyttbModel.Alg.CpApr
open Lean Pyttb Pyttb.Codec
namespace Pyttb.Driver.C11
open Pyttb.CpApr

/-! Driver ops of C11.  Floats cross the pipe as decimal strings of their 64-bit pattern. -/

instance : Zero Float := ⟨0.0⟩
instance : One Float := ⟨1.0⟩

def fdec (j : Json) : R Float := do
  let s ← asStr j
  match s.toNat? with
  | some n => .ok (Float.ofBits n.toUInt64)
  | none => .error s!"bad float bits {s}"

def fenc (f : Float) : Json := Json.str (toString f.toBits.toNat)

def fvec := asList fdec
def fmat := asList fvec
def fvecJ (l : List Float) : Json := listJ fenc l
def fmatJ (A : Mat Float) : Json := listJ fvecJ A

def fops : NumOps Float :=
  ⟨Float.log, fun a b => a < b, fun a b => a ≤ b, Float.abs, fun a => a == 0.0, fun a => a < (1.0 / 0.0)⟩

/-- The literals of the source as doubles: `n / d` is the correctly rounded quotient of two
exactly representable integers, i.e. the double Python reads from the decimal literal. -/
def ratToFloat (q : Rat) : Float :=
  (Float.ofInt q.num) / (Float.ofNat q.den)

def fconsts : Consts Float := Consts.ofGen ratToFloat

def rops : NumOps Rat :=
  ⟨fun x => x, fun a b => decide (a < b), fun a b => decide (a ≤ b), fun a => if a < 0 then -a else a,
   fun a => a == 0, fun _ => true⟩

def rconsts : Consts Rat := Consts.ofGen id

structure SC (α : Type) where
  dec : Json → R α
  enc : α → Json

def scF : SC Float := ⟨fdec, fenc⟩
def scQ : SC Rat := ⟨asRat, ratJ⟩

variable {α : Type}

def decKt (sc : SC α) (j : Json) : R (Ktensor α) := do
  let w ← field j "weights" >>= asList sc.dec
  let f ← field j "factors" >>= asList (asList (asList sc.dec))
  .ok ⟨w, f⟩

def encKt (sc : SC α) (K : Ktensor α) : Json :=
  Json.mkObj [("weights", listJ sc.enc K.weights), ("factors", listJ (listJ (listJ sc.enc)) K.factors)]

/-- `{"shape", "data"}` (dense, F order) or `{"shape", "subs", "vals"}` (sparse, as stored). -/
def decData (sc : SC α) (j : Json) : R (Data α) := do
  let shape ← field j "shape" >>= asNats
  match fieldOpt j "subs" with
  | some s => do
    let subs ← asNatMat s
    let vals ← field j "vals" >>= asList sc.dec
    .ok (.sparse ⟨shape, subs, vals⟩)
  | none => do
    let d ← field j "data" >>= asList sc.dec
    .ok (.dense ⟨shape, d⟩)

def decAlg (j : Json) : R Alg := do
  let s ← asStr j
  match s with
  | "mu" => .ok .mu
  | "pdnr" => .ok .pdnr
  | "pqnr" => .ok .pqnr
  | _ => .error s!"bad algorithm {s}"

def decCfg (sc : SC α) (j : Json) : R (Cfg α) := do
  let rank ← field j "rank" >>= asNat
  let stoptol ← field j "stoptol" >>= sc.dec
  let maxiters ← field j "maxiters" >>= asNat
  let maxinner ← field j "maxinneriters" >>= asNat
  let eps ← field j "epsDivZero" >>= sc.dec
  let kappa ← field j "kappa" >>= sc.dec
  let kappatol ← field j "kappatol" >>= sc.dec
  let inexact ← field j "inexact" >>= asBool
  .ok ⟨rank, stoptol, maxiters, maxinner, eps, kappa, kappatol, inexact⟩

/-- `np.argsort(w)[::-1]` for the short vectors of the harness (NumPy sorts fewer than 17
elements by insertion, which is stable): stable ascending order, reversed. -/
def argsortDesc (w : List Float) : List Nat :=
  let idx := List.range w.length
  let sorted := idx.mergeSort fun a b => w.getD a 0.0 ≤ w.getD b 0.0
  sorted.reverse

/-- A scripted direction service: entries `{"it","n","jj","i","d"}`; `"d": null` is the fatal
assertion; a missing entry is an error of the script (reported as `none` as well, the
harness checks the number of consumed entries separately). -/
structure DirEntry where
  it : Nat
  n : Nat
  jj : Nat
  i : Nat
  d : Option (List Float)

def decDirs (j : Json) : R (List DirEntry) :=
  asList (fun e => do
    let it ← field e "it" >>= asNat
    let n ← field e "n" >>= asNat
    let jj ← field e "jj" >>= asNat
    let i ← field e "i" >>= asNat
    let d ← match fieldOpt e "d" with
      | none => pure none
      | some v => do let l ← fvec v; pure (some l)
    .ok ⟨it, n, jj, i, d⟩) j

def scripted (es : List DirEntry) : Dir Float := fun it n jj i _ _ =>
  match es.find? (fun e => e.it == it && e.n == n && e.jj == jj && e.i == i) with
  | some e => e.d
  | none => none

def natsJ' (l : List Nat) : Json := natsJ l

def outJ (r : Out Float) : Json :=
  Json.mkObj [("model", encKt scF r.M), ("obj", fenc r.obj), ("kkt", fvecJ r.kkt),
    ("nInner", natsJ r.nInner), ("nViol", natsJ r.nViol), ("iters", toJson r.iters)]

end Pyttb.Driver.C11

namespace Pyttb.Driver
open Pyttb.CpApr Pyttb.Driver.C11

def ops11 : List (String × Op) := [
  -- whole run at Float with scripted directions
  ("c11_run_float", fun j => do
    let alg ← field j "alg" >>= decAlg
    let X ← field j "data" >>= decData scF
    let init ← field j "init" >>= decKt scF
    let cfg ← field j "cfg" >>= decCfg scF
    let dirs ← match fieldOpt j "dirs" with
      | none => pure []
      | some v => decDirs v
    .ok (exceptJ outJ (cpApr fops fconsts cfg alg (scripted dirs) argsortDesc X init))),
  -- argument validation at exact rationals
  ("c11_validate", fun j => do
    let algS ← field j "alg" >>= asStr
    if !(["mu", "pdnr", "pqnr"].contains algS.toLower) then
      return Json.mkObj [("accept", Json.bool false)]
    let alg ← decAlg (Json.str algS.toLower)
    let X ← field j "data" >>= decData scQ
    let init ← field j "init" >>= decKt scQ
    let cfg ← field j "cfg" >>= decCfg scQ
    .ok (Json.mkObj [("accept", Json.bool (validate rops rconsts cfg alg X init))])),
  -- the same argument checks on the Float request of a whole run: lets the harness tell "the model
  -- refuses the request" from "the scripted direction service ran dry" (the implementation raised in
  -- the middle of a run, so fewer directions were recorded than the model asks for)
  ("c11_validate_float", fun j => do
    let alg ← field j "alg" >>= decAlg
    let X ← field j "data" >>= decData scF
    let init ← field j "init" >>= decKt scF
    let cfg ← field j "cfg" >>= decCfg scF
    .ok (Json.mkObj [("accept", Json.bool (validate fops fconsts cfg alg X init))])),
  -- Pi / Phi / KKT / multiplicative update of one mode (the model as given: weights are NOT
  -- redistributed here, the harness calls the helpers of cp_apr.py on the same model)
  ("c11_mu_mode_float", fun j => do
    let X ← field j "data" >>= decData scF
    let K ← field j "model" >>= decKt scF
    let n ← field j "n" >>= asNat
    let eps ← field j "epsDivZero" >>= fdec
    let A := factor K n
    let I := A.length
    let R := K.weights.length
    match modeData X K n with
    | .error _ => .ok rejectJ
    | .ok md =>
      let Pi := match md with
        | .dense _ Pi => Pi
        | .sparse S => piRows K n S.subs
      let Phi := phiOf fops eps md K n A I R
      let kkt := kktMat fops A Phi I R
      let A' := tab I R fun i r => Gen.muUpdate (A.get i r) (Phi.get i r)
      .ok (Json.mkObj [("ok", Json.mkObj [("Pi", fmatJ Pi), ("Phi", fmatJ Phi), ("kkt", fenc kkt),
        ("A", fmatJ A')])])),
  -- redistribute / L1 normalize of one mode / the two whole-model normalisations
  ("c11_ktensor_float", fun j => do
    let K ← field j "model" >>= decKt scF
    let what ← field j "what" >>= asStr
    let n ← match fieldOpt j "n" with
      | none => pure 0
      | some v => asNat v
    match what with
    | "redistribute" => .ok (encKt scF (redistribute K n))
    | "normalize_mode" => .ok (encKt scF (normalizeMode fops K n))
    | "normalize" => .ok (encKt scF (normalize1 fops K))
    | "normalize_sort" => .ok (encKt scF (normalizeSort fops argsortDesc K))
    | "normalize_absorb0" => .ok (encKt scF (normalizeAbsorb0 fops K))
    | _ => .error s!"bad what {what}"),
  -- row sub-problem pieces: phi_row, kkt, objective
  ("c11_row_float", fun j => do
    let sparse ← field j "sparse" >>= asBool
    let x ← field j "x" >>= fvec
    let Pi ← field j "Pi" >>= fmat
    let m ← field j "m" >>= fvec
    let eps ← field j "epsDivZero" >>= fdec
    let R := m.length
    let phi := rowPhi fops eps x Pi m R
    let g := phi.map Gen.rowGrad
    .ok (Json.mkObj [("phi", fvecJ phi), ("kkt", fenc (rowKkt fops m g R)),
      ("f", fenc (rowNegLL fops sparse x Pi m R))])),
  -- one projected trial step
  ("c11_project_float", fun j => do
    let mOld ← field j "m" >>= fvec
    let d ← field j "d" >>= fvec
    let step ← field j "step" >>= fdec
    .ok (fvecJ ((List.range mOld.length).map fun r =>
      Gen.project fops.gt0 (Gen.lsTrial (vget mOld r) step (vget d r))))),
  -- the whole projected line search
  ("c11_linesearch_float", fun j => do
    let sparse ← field j "sparse" >>= asBool
    let x ← field j "x" >>= fvec
    let Pi ← field j "Pi" >>= fmat
    let m ← field j "m" >>= fvec
    let d ← field j "d" >>= fvec
    let g ← field j "grad" >>= fvec
    let phi ← field j "phi" >>= fvec
    .ok (fvecJ (lineSearch fops fconsts sparse d g m x Pi phi m.length))),
  -- tt_loglikelihood
  ("c11_loglik_float", fun j => do
    let X ← field j "data" >>= decData scF
    let K ← field j "model" >>= decKt scF
    let r := logLik fops X K
    .ok (Json.mkObj [("model", encKt scF r.1), ("obj", fenc r.2)])),
  -- one generated scalar formula at Float (cross-check of the translator's reading, family `formulas`): the
  -- services are the ones the model hands to the generated definitions (`fops`)
  ("c11_formula", fun j => do
    let name ← field j "name" >>= asStr
    let a ← field j "args" >>= fvec
    let x := fun (i : Nat) => a.getD i 0.0
    let r ← match name with
      | "llTermSparse" => pure (Gen.llTermSparse fops.log (x 0) (x 1))
      | "llTermDense" => pure (Gen.llTermDense fops.log fops.isZero (x 0) (x 1))
      | "llCombine" => pure (Gen.llCombine (x 0) (x 1))
      | "kktEntry" => pure (Gen.kktEntry fops.abs fops.minimum (x 0) (x 1))
      | "muUpdate" => pure (Gen.muUpdate (x 0) (x 1))
      | "rowKktEntry" => pure (Gen.rowKktEntry fops.abs fops.minimum (x 0) (x 1))
      | "rowGrad" => pure (Gen.rowGrad (x 0))
      | "lsTrial" => pure (Gen.lsTrial (x 0) (x 1) (x 2))
      | "project" => pure (Gen.project fops.gt0 (x 0))
      | "lsFallback" => pure (Gen.lsFallback (x 0) (x 1))
      | "armijoBound" => pure (Gen.armijoBound (x 0) (x 1) (x 2))
      | _ => .error s!"bad formula {name}"
    .ok (Json.mkObj [("float", fenc r)])),
  -- the literals read from the source
  ("c11_consts", fun _ =>
    .ok (Json.mkObj [("minDescentTol", fenc fconsts.minDescentTol), ("smallStepTol", fenc fconsts.smallStepTol),
      ("stepLen", fenc fconsts.stepLen), ("stepRed", fenc fconsts.stepRed), ("suffDecr", fenc fconsts.suffDecr),
      ("zeroRowFill", fenc fconsts.zeroRowFill), ("inexactDiv", fenc fconsts.inexactDiv),
      ("maxSteps", toJson fconsts.maxSteps), ("inexactInner", toJson fconsts.inexactInner),
      ("inexactIteration", toJson fconsts.inexactIteration)]))
]

end Pyttb.Driver
