/- Driver ops of C16: the file-format model executed on bit patterns.

Values are the 64-bit patterns of the doubles (decimal strings on the pipe); the value token
`val t` carries the pattern the harness obtained by really parsing the token's text, so
`parse = fmt = id` here: formatting and parsing of numbers is done by the real libc/NumPy on
the Python side, the model does the structure.  An integer-looking token read at a value
position comes back as `{"int": n}` (the harness compares it with `float(n)`).

Tokens on the pipe: `"w:<text>"`, `"i:<int>"`, `"v:<bits>"`. -/
import PyttbModel.Core.Codec
import PyttbModel.IO.Format
import PyttbModel.IO.Digits
open Lean Pyttb Pyttb.Codec Pyttb.Format
namespace Pyttb.Driver

/-- A value in the driver: a bit pattern, or an integer token read as a number. -/
inductive DV where
  | bits (b : Nat)
  | int (n : Int)

def DV.toBits : DV → Nat
  | .bits b => b
  | .int _ => 0

def dvJ : DV → Json
  | .bits b => Json.str (toString b)
  | .int n => Json.mkObj [("int", toJson n)]

def asDV (j : Json) : R DV := do
  let s ← asStr j
  match s.toNat? with
  | some b => .ok (.bits b)
  | none => .error s!"bad bit pattern {s}"

def tokJ : Token Nat → Json
  | .word s => Json.str ("w:" ++ s)
  | .int n => Json.str ("i:" ++ toString n)
  | .val b => Json.str ("v:" ++ toString b)

def asTok (j : Json) : R (Token Nat) := do
  let s ← asStr j
  let body := (s.drop 2).toString
  if s.startsWith "w:" then .ok (.word body)
  else if s.startsWith "i:" then
    match body.toInt? with
    | some n => .ok (.int n)
    | none => .error s!"bad int token {s}"
  else if s.startsWith "v:" then
    match body.toNat? with
    | some b => .ok (.val b)
    | none => .error s!"bad value token {s}"
  else .error s!"bad token {s}"

def asNdC (j : Json) : R (NdC DV) := do
  let s ← field j "shape" >>= asNats
  let d ← field j "data" >>= asList asDV
  .ok ⟨s, d⟩

def ndcJ (A : NdC DV) : Json :=
  Json.mkObj [("shape", natsJ A.shape), ("data", listJ dvJ A.data)]

def asObj (j : Json) : R (Obj DV) := do
  let t ← field j "t" >>= asStr
  if t == "dense" then do
    let A ← asNdC j
    .ok (.dense ⟨A.shape, A.data⟩)
  else if t == "sparse" then do
    let s ← field j "shape" >>= asNats
    let subs ← field j "subs" >>= asIntMat
    let vals ← field j "vals" >>= asList asDV
    .ok (.sparse s subs vals)
  else if t == "ktensor" then do
    let w ← field j "weights" >>= asList asDV
    let fs ← field j "factors" >>= asList asNdC
    .ok (.ktensor w fs)
  else if t == "matrix" then do
    let A ← asNdC j
    .ok (.matrix A)
  else .error s!"bad object type {t}"

def objJ : Obj DV → Json
  | .dense T => Json.mkObj [("t", "dense"), ("shape", natsJ T.shape), ("data", listJ dvJ T.data)]
  | .sparse s subs vals =>
    Json.mkObj [("t", "sparse"), ("shape", natsJ s), ("subs", intMatJ subs), ("vals", listJ dvJ vals)]
  | .ktensor w fs => Json.mkObj [("t", "ktensor"), ("weights", listJ dvJ w), ("factors", listJ ndcJ fs)]
  | .matrix A => Json.mkObj [("t", "matrix"), ("shape", natsJ A.shape), ("data", listJ dvJ A.data)]

def ops16 : List (String × Op) := [
  -- the file export_data writes for an object (subscript offset `base`, 1 in export_data)
  ("c16.encode", fun j => do
    let o ← field j "obj" >>= asObj
    let b ← field j "base" >>= asInt
    let f : File Nat := encodeBase DV.toBits b o
    .ok (Json.mkObj [("file", listJ (listJ tokJ) f), ("wf", Json.bool o.wfb)])),
  -- what import_data(file, index_base=base) returns for a tokenised file
  ("c16.decode", fun j => do
    let f ← field j "file" >>= asList (asList asTok)
    let b ← field j "base" >>= asInt
    .ok (exceptJ objJ (decode DV.bits DV.int b f))),
  -- digits: `bits` the pattern of the value written, (`neg`,`d`,`k`) the decimal printed, `pbits` the
  -- pattern of the value read back, `P` the number of significant digits claimed:
  -- the decompositions, and the model's verdicts "the decimal is a nearest P-digit decimal of the
  -- value" and "the value read is a nearest finite binary64 value of the decimal"
  ("c16.digits", fun j => do
    let bits ← field j "bits" >>= asDV
    let pbits ← field j "pbits" >>= asDV
    let P ← field j "P" >>= asNat
    let neg ← field j "neg" >>= asBool
    let ds ← field j "d" >>= asStr
    let k ← field j "k" >>= asInt
    let d ← match ds.toNat? with
      | some d => pure d
      | none => throw s!"bad significand {ds}"
    let y : Digits.Dec := ⟨neg, d, k⟩
    let b64J (b : Option Digits.B64) : Json := match b with
      | none => Json.null
      | some b => Json.mkObj [("neg", Json.bool b.neg), ("m", Json.str (toString b.m)), ("e", toJson b.e),
                              ("wf", Json.bool (decide b.WF))]
    let x := Digits.B64.ofBits bits.toBits
    let x' := Digits.B64.ofBits pbits.toBits
    let nd := match x with
      | none => Json.null
      | some x => Json.bool (Digits.nearestDecB P x.toRat y)
    let nb := match x' with
      | none => Json.null
      | some x' => Json.bool (Digits.nearestBinB y.toRat x')
    .ok (Json.mkObj [("x", b64J x), ("xp", b64J x'), ("dec_wf", Json.bool (decide (y.WF P))),
                     ("nearest_dec", nd), ("nearest_bin", nb)]))
]

end Pyttb.Driver
