/-
C10 — driver ops.  Every op exists for two scalar types, selected by the request field
`"scalar"`: `"rat"` (exact; numbers as JSON ints / `"n/d"`) and `"float"` (IEEE doubles as
decimal strings of their 64-bit patterns).  The services `eigh`, `nvecs`, `uniform` are
replayed from the recorded calls of the implementation (`"eigh"`, `"nvecs"`, `"uniform"`
lists in the request: the `c`-th call returns the `c`-th recorded output).
-/
import PyttbModel.Core.Codec
import PyttbModel.Alg.TuckerAls
open Lean Pyttb Pyttb.Codec
namespace Pyttb.Driver.C10

open Pyttb.Tk

/-- Scalar codec + numeric services. -/
structure SC (α : Type) where
  dec : Json → R α
  enc : α → Json
  ops : NumOps α

def scRat : SC Rat :=
  ⟨asRat, ratJ,
   { div := fun a b => a / b
     sqrt := fun a => a          -- no exact square root: the "rat" ops never use it
     abs := fun a => if a < 0 then -a else a
     lt := fun a b => decide (a < b)
     ofNat := fun n => (n : Rat) }⟩

def scFloat : SC Float :=
  ⟨fun j => do
      let s ← asStr j
      match s.toNat? with
      | some n => .ok (Float.ofBits n.toUInt64)
      | none => .error s!"bad float bits {s}",
   fun f => Json.str (toString f.toBits.toNat),
   { div := fun a b => a / b
     sqrt := Float.sqrt
     abs := Float.abs
     lt := fun a b => decide (a < b)
     ofNat := fun n => Float.ofNat n }⟩

variable {α : Type}

def decList (sc : SC α) : Json → R (List α) := asList sc.dec
def decMat (sc : SC α) : Json → R (Mat α) := asList (asList sc.dec)
def encList (sc : SC α) (l : List α) : Json := listJ sc.enc l
def encMat (sc : SC α) (A : Mat α) : Json := listJ (listJ sc.enc) A

def decDense (sc : SC α) (j : Json) : R (Dense α) := do
  let s ← field j "shape" >>= asNats
  let d ← field j "data" >>= decList sc
  .ok ⟨s, d⟩

def encDense (sc : SC α) (T : Dense α) : Json :=
  Json.mkObj [("shape", natsJ T.shape), ("data", encList sc T.data)]

def optInts (j : Json) (k : String) : R (Option (List Int)) :=
  match fieldOpt j k with
  | none => .ok none
  | some v => do let l ← asInts v; .ok (some l)

def optNats (j : Json) (k : String) : R (Option (List Nat)) :=
  match fieldOpt j k with
  | none => .ok none
  | some v => do let l ← asNats v; .ok (some l)

/-- the `c`-th recorded output of a service (an empty answer when the model asks more
often than the implementation did) -/
def replay {β} (l : List β) (dflt : β) (c : Nat) : β := l.getD c dflt

section generic
variable [Add α] [Sub α] [Mul α] [Zero α] [One α]

def modeRecJ (sc : SC α) (r : ModeRec α) : Json :=
  Json.mkObj [("k", toJson r.k), ("gram", encMat sc r.gram), ("pi", natsJ r.pi), ("eig", encList sc r.eig),
    ("rank", toJson r.rank), ("factor", encMat sc r.factor)]

def iterRecJ (sc : SC α) (r : IterRec α) : Json :=
  Json.mkObj [("iteration", toJson r.iteration), ("factors", listJ (encMat sc) r.factors),
    ("core", encDense sc r.core), ("normresidual", sc.enc r.normresidual), ("fit", sc.enc r.fit),
    ("fitchange", sc.enc r.fitchange)]

def opGram (sc : SC α) (j : Json) : R Json := do
  let T ← field j "T" >>= decDense sc
  let k ← field j "k" >>= asNat
  .ok (encMat sc (gramMode T k))

def opNormSq (sc : SC α) (j : Json) : R Json := do
  let T ← field j "T" >>= decDense sc
  .ok (sc.enc (normSq T))

def opTtm (sc : SC α) (j : Json) : R Json := do
  let T ← field j "T" >>= decDense sc
  let U ← field j "U" >>= decMat sc
  let n ← field j "n" >>= asNat
  let tr ← field j "transpose" >>= asBool
  .ok (exceptJ (encDense sc) (ttm T U n tr))

/-- `T.ttm(Us, transpose)` / `T.ttm(Us, exclude_dims=n, transpose)` / `T.ttm(Us, n, transpose)` -/
def opTtmList (sc : SC α) (j : Json) : R Json := do
  let T ← field j "T" >>= decDense sc
  let Us ← field j "Us" >>= asList (decMat sc)
  let tr ← field j "transpose" >>= asBool
  let mode ← field j "mode" >>= asStr
  match mode with
  | "all" => .ok (exceptJ (encDense sc) (ttmAll T Us tr))
  | "excl" => do
    let n ← field j "n" >>= asNat
    .ok (exceptJ (encDense sc) (ttmExcl T Us n tr))
  | "one" => do
    let n ← field j "n" >>= asNat
    .ok (exceptJ (encDense sc) (ttmDims T Us [n] tr))
  | _ => .error s!"bad mode {mode}"

/-- core and reconstruction of a Tucker tensor from data and factors:
`G = X.ttm(Us, transpose=True)`, `full = G.ttm(Us)`, `‖X - full‖²`, `‖X‖²`, `‖G‖²` -/
def opCore (sc : SC α) (j : Json) : R Json := do
  let X ← field j "X" >>= decDense sc
  let Us ← field j "Us" >>= asList (decMat sc)
  let r : Except Reject Json := do
    let G ← ttmAll X Us true
    let F ← tfull ⟨G, Us⟩
    let D ← dsub X F
    pure (Json.mkObj [("core", encDense sc G), ("full", encDense sc F), ("errsq", sc.enc (normSq D)),
      ("normxsq", sc.enc (normSq X)), ("normgsq", sc.enc (normSq G))])
  .ok (exceptJ id r)

/-- rank selection of one mode given the eigenvalues as returned by `eigh` -/
def opRankSelect (sc : SC α) (j : Json) : R Json := do
  let D ← field j "D" >>= decList sc
  let thresh ← field j "thresh" >>= sc.dec
  let req ← field j "requested" >>= asNat
  let pi := argsortDesc sc.ops D
  let eig := pi.map fun i => D.getD i 0
  let es := Gen.eigsum eig
  match chooseRank sc.ops thresh eig req with
  | none => .ok (Json.mkObj [("reject", Json.bool true), ("pi", natsJ pi), ("eigsum", encList sc es)])
  | some r => .ok (Json.mkObj [("pi", natsJ pi), ("eig", encList sc eig), ("eigsum", encList sc es),
      ("rank", toJson r), ("kept", natsJ (pi.take (Gen.sliceBound r)))])

/-- the regenerated scalar formulas, evaluated (cross-check of the translator's reading) -/
def opFormulas (sc : SC α) (j : Json) : R Json := do
  let tol ← field j "tol" >>= sc.dec
  let nx2 ← field j "normxsqr" >>= sc.dec
  let d ← field j "d" >>= asNat
  let normX ← field j "normX" >>= sc.dec
  let normCore ← field j "normCore" >>= sc.dec
  let fitold ← field j "fitold" >>= sc.dec
  let stoptol ← field j "stoptol" >>= sc.dec
  let es ← field j "eigsum" >>= decList sc
  let thresh := Gen.eigsumthresh sc.ops tol nx2 (sc.ops.ofNat d)
  let nr := Gen.normresidual sc.ops normX normCore
  let fit := Gen.fit sc.ops nr normX
  let fc := Gen.fitchange sc.ops fitold fit
  .ok (Json.mkObj [("eigsumthresh", sc.enc thresh), ("normresidual", sc.enc nr), ("fit", sc.enc fit),
    ("fitchange", sc.enc fc), ("stop", Json.bool (Gen.stopTest sc.ops fc stoptol)),
    ("auto_marker", toJson Gen.autoMarker), ("cut_offset", toJson Gen.cutOffset),
    ("rank_cut", match Gen.rankCut sc.ops es thresh with | none => Json.null | some r => toJson r),
    ("slice_bound_5", toJson (Gen.sliceBound 5)), ("iters_7", toJson (Gen.itersReported 7))])

def decEighCalls (sc : SC α) (j : Json) : R (List (List α × Mat α)) :=
  asList (fun c => do
    let D ← field c "D" >>= decList sc
    let V ← field c "V" >>= decMat sc
    .ok (D, V)) j

def opHosvd (sc : SC α) (j : Json) : R Json := do
  let X ← field j "X" >>= decDense sc
  let tol ← field j "tol" >>= sc.dec
  let dimorder ← optNats j "dimorder"
  let ranks ← optInts j "ranks"
  let seq ← field j "sequential" >>= asBool
  let calls ← field j "eigh" >>= decEighCalls sc
  let eigh : Nat → Mat α → List α × Mat α := fun c _ => replay calls ([], []) c
  .ok (exceptJ (fun (r : Ttensor α × List (ModeRec α)) =>
      Json.mkObj [("core", encDense sc r.1.core), ("factors", listJ (encMat sc) r.1.factors),
        ("trace", listJ (modeRecJ sc) r.2)])
    (hosvdRunI sc.ops eigh X tol dimorder seq ranks))

/-- one pass of `for n in dimorder:` of tucker_als: the tensor handed to `nvecs` and the new
factor list, the recorded `nvecs` output being used for the replaced factor -/
def opHooiMode (sc : SC α) (j : Json) : R Json := do
  let X ← field j "X" >>= decDense sc
  let Us ← field j "Us" >>= asList (decMat sc)
  let n ← field j "n" >>= asNat
  let rank ← field j "rank" >>= asNats
  let out ← field j "nvecs_out" >>= decMat sc
  .ok (exceptJ (fun (st : SweepSt α) =>
      Json.mkObj [("Us", listJ (encMat sc) st.U),
        ("Utilde", match st.Utilde with | some (W, _) => encDense sc W | none => Json.null)])
    (sweepStep (fun _ _ _ _ => out) X rank ⟨Us, none, 0⟩ n))

def decInit (sc : SC α) (j : Json) : R (Init α) :=
  match j with
  | .str s => .ok (.str s)
  | _ => do let l ← asList (decMat sc) j; .ok (.list l)

def opTuckerAls (sc : SC α) (j : Json) : R Json := do
  let X ← field j "X" >>= decDense sc
  let rank ← field j "rank" >>= asInts
  let stoptol ← field j "stoptol" >>= sc.dec
  let maxiters ← field j "maxiters" >>= asInt
  let dimorder ← optNats j "dimorder"
  let init ← field j "init" >>= decInit sc
  let nv ← field j "nvecs" >>= asList (decMat sc)
  let un ← field j "uniform" >>= asList (decMat sc)
  let nvecs : Nat → Dense α → Nat → Nat → Mat α := fun c _ _ _ => replay nv [] c
  let uniform : Nat → Nat → Nat → Mat α := fun c _ _ => replay un [] c
  .ok (exceptJ (fun (r : TaOut α × List (IterRec α)) =>
      Json.mkObj [("core", encDense sc r.1.solution.core), ("factors", listJ (encMat sc) r.1.solution.factors),
        ("uinit", listJ (encMat sc) r.1.uinit), ("iters", toJson r.1.iters),
        ("normresidual", sc.enc r.1.normresidual), ("fit", sc.enc r.1.fit),
        ("trace", listJ (iterRecJ sc) r.2)])
    (tuckerAlsRunI sc.ops nvecs uniform X rank stoptol maxiters dimorder init))

end generic

/-- dispatch on `"scalar"` -/
def both (fr : Json → R Json) (ff : Json → R Json) : Op := fun j =>
  match fieldOpt j "scalar" with
  | some (.str "float") => ff j
  | _ => fr j

end Pyttb.Driver.C10

namespace Pyttb.Driver
open Pyttb.Driver.C10

def ops10 : List (String × Op) := [
  ("c10_gram", both (opGram scRat) (opGram scFloat)),
  ("c10_normsq", both (opNormSq scRat) (opNormSq scFloat)),
  ("c10_ttm", both (opTtm scRat) (opTtm scFloat)),
  ("c10_ttm_list", both (opTtmList scRat) (opTtmList scFloat)),
  ("c10_core", both (opCore scRat) (opCore scFloat)),
  ("c10_rank_select", both (opRankSelect scRat) (opRankSelect scFloat)),
  ("c10_formulas", both (opFormulas scRat) (opFormulas scFloat)),
  ("c10_hosvd", both (opHosvd scRat) (opHosvd scFloat)),
  ("c10_hooi_mode", both (opHooiMode scRat) (opHooiMode scFloat)),
  ("c10_tucker_als", both (opTuckerAls scRat) (opTuckerAls scFloat))
]

end Pyttb.Driver
