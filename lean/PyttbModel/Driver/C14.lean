import PyttbModel.Driver.C07
import PyttbModel.Alg.Nvecs
import PyttbModel.Spec.Nvecs
open Lean Pyttb Pyttb.Codec
namespace Pyttb.Driver

/-- Gram matrix of the model and of the specification for one representation. -/
def gramBoth (rep : String) (x : Json) (n : Nat) : R (Except Reject (Mat Rat) × Mat Rat) :=
  match rep with
  | "dense" => do
    let T ← asDense x
    .ok (T.nvecsGram n, gramSpecMat T.get T.shape n)
  | "sparse" => do
    let S ← asSparse x
    .ok (S.nvecsGram n, gramSpecMat S.get S.shape n)
  | "ktensor" => do
    let K ← asKtensor x
    .ok (K.nvecsGram n, gramSpecMat K.get K.shape n)
  | "ttensor" => do
    let T ← asTtensor x
    .ok (T.nvecsGram n, gramSpecMat T.get T.shape n)
  | _ => .error s!"bad rep {rep}"

def ops14 : List (String × Op) := [
  ("nvecs_gram", fun j => do
    let rep ← field j "rep" >>= asStr
    let x ← field j "X"
    let n ← field j "n" >>= asNat
    let (m, s) ← gramBoth rep x n
    .ok (Json.mkObj [("model", exceptJ ratMatJ m), ("spec", ratMatJ s)])),
  ("nvecs_path", fun j => do
    let m ← field j "m" >>= asNat
    let r ← field j "r" >>= asNat
    .ok (Json.str (match nvecsPath m r with | .iter => "iter" | .dense => "dense"))),
  ("nvecs_post", fun j => do
    let w ← field j "w" >>= asRats
    let V ← field j "V" >>= asRatMat
    let r ← field j "r" >>= asNat
    let fs ← field j "flipsign" >>= asBool
    let rowperm ← field j "rowperm" >>= asBool
    let res := if rowperm then nvecsPostSparseDense w V r fs else nvecsPost w V r fs
    .ok (Json.mkObj [("V", ratMatJ res), ("perm", natsJ (argsortDescAbs w))])),
  -- exact check of the service contract / of the property on exact data:
  -- columns 0..K-1 of the m-row matrix V orthonormal, column k an eigenvector of G for lam[k]
  ("nvecs_contract", fun j => do
    let G ← field j "G" >>= asRatMat
    let V ← field j "V" >>= asRatMat
    let lam ← field j "lam" >>= asRats
    let m ← field j "m" >>= asNat
    let K ← field j "K" >>= asNat
    let eig := (List.range K).map fun k => isEigColB G V m k (lam.getD k 0)
    .ok (Json.mkObj [("ortho", Json.bool (orthonormalColsB V m K)),
                     ("eig", Json.arr (eig.map Json.bool).toArray)]))
]

end Pyttb.Driver
