import PyttbModel.Core.Codec
import PyttbModel.Alg.Presentation
import PyttbModel.Alg.PresentationRelabel
open Lean Pyttb Pyttb.Codec Pyttb.Pres
namespace Pyttb.Driver

/-- 1-norms of the columns of a matrix (the `np.linalg.norm(col, ord=1)` service at `Rat`). -/
def colNorms1 (A : Mat Rat) : List Rat :=
  (List.range A.ncols).map fun j => ((List.range A.nrows).map fun i =>
    let x := A.get i j; if x < 0 then -x else x).sum

def asPair (j : Json) : R (Nat × Nat) := do
  let l ← asNats j
  match l with
  | [a, b] => .ok (a, b)
  | _ => .error "pair expected"

/-! ### relabelling / scaling of the concrete CP-ALS and Tucker-ALS models (exact, at `Rat`) -/

/-- `sqrt` of a rational that is a square of a rational (what the generators feed); otherwise the floor of
the roots of numerator and denominator (the reply carries the flag `exact`). -/
def ratSqrt18 (q : Rat) : Rat := if q < 0 then 0 else mkRat (Nat.sqrt q.num.toNat) (Nat.sqrt q.den)

def isRatSquare18 (q : Rat) : Bool :=
  decide (0 ≤ q) && Nat.sqrt q.num.toNat * Nat.sqrt q.num.toNat == q.num.toNat && Nat.sqrt q.den * Nat.sqrt q.den == q.den

def ratOps18 : CpAls.NumOps Rat :=
  { sqrt := ratSqrt18, abs := fun a => if a < 0 then -a else a, lt := fun a b => decide (a < b),
    isZero := fun a => decide (a = 0), ofNat := fun n => (n : Rat) }

/-- `arrange()` then, when requested, `fixsigns()` (the clean-up of `cp_als`). -/
def cleanup18 (fix : Bool) (K : Ktensor Rat) : Ktensor Rat :=
  let M1 := CpAls.arrange ratOps18 K
  if fix then CpAls.fixsigns ratOps18 M1 else M1

/-- every column of every factor has a rational 2-norm -/
def colsExact18 (K : Ktensor Rat) : Bool :=
  K.factors.all fun A => (List.range K.weights.length).all fun r =>
    isRatSquare18 (CpAls.sumL ((CpAls.col A A.length r).map fun x => x * x))

/-- a data object of which only the shape is used (option validation) -/
def shapeOnly18 (shape : List Nat) : CpAls.Data Rat :=
  { shape := shape, norm := 0, mttkrp := fun _ _ => [], innerprod := fun _ => 0, nvecs := none }

def optNats18 (j : Json) (k : String) : R (Option (List Nat)) :=
  match fieldOpt j k with
  | none => .ok none
  | some v => if v.isNull then .ok none else do let l ← asNats v; .ok (some l)

def setupJ18 : Except Reject (List Nat × List Nat × List Nat × Ktensor Rat) → Json
  | .error _ => rejectJ
  | .ok (di, od, dims, _) => Json.mkObj [("dimorder", natsJ di), ("optdims", natsJ od), ("dims", natsJ dims)]

def optNatsJ18 : Option (List Nat) → Json
  | none => Json.null
  | some l => natsJ l

def ops18 : List (String × Op) := [
  -- the clean-up of cp_als on a model and on its relabelling; what the property expects; the parity condition
  ("c18_relabel_cleanup", fun j => do
    let K ← field j "K" >>= asKtensor
    let p ← field j "p" >>= asNats
    let fix ← field j "fixsigns" >>= asBool
    let M1 := CpAls.arrange ratOps18 K
    .ok (Json.mkObj [("base", ktensorJ (cleanup18 fix K)),
                     ("relabelled", ktensorJ (cleanup18 fix (CpAls.relabelK p K))),
                     ("expected", ktensorJ (CpAls.relabelK p (cleanup18 fix K))),
                     ("parity", Json.bool (CpAls.parityOK ratOps18 M1)),
                     ("neg_counts", natsJ ((List.range K.weights.length).map fun r => (CpAls.negModes ratOps18 M1 r).length)),
                     ("exact", Json.bool (colsExact18 K))])),
  -- the option validation of cp_als for a problem and for its relabelling
  ("c18_relabel_setup", fun j => do
    let shape ← field j "shape" >>= asNats
    let rank ← field j "rank" >>= asNat
    let p ← field j "p" >>= asNats
    let dimorder ← optNats18 j "dimorder"
    let optdims ← optNats18 j "optdims"
    let P : CpAls.Params Rat :=
      { rank := rank, stoptol := 0, maxiters := 1, dimorder := dimorder, optdims := optdims, printing := false, fixsigns := false }
    let K : Ktensor Rat := ⟨List.replicate rank 1, shape.map fun s => CpAls.tab s rank fun _ _ => (0 : Rat)⟩
    let P' := CpAls.relabelParams p shape.length P
    let base := CpAls.setup (shapeOnly18 shape) P (.given K)
    let second := CpAls.setup (shapeOnly18 (gather shape p)) P' (CpAls.relabelInit p (.given K))
    let expected : Json := match base with
      | .error _ => rejectJ
      | .ok (di, od, dims, _) => Json.mkObj [("dimorder", natsJ (CpAls.qmap p di)),
          ("optdims", natsJ (CpAls.relabelOd p optdims od)), ("dims", natsJ (CpAls.qmap p dims))]
    .ok (Json.mkObj [("base", setupJ18 base), ("second", setupJ18 second), ("expected", expected),
                     ("second_dimorder", optNatsJ18 P'.dimorder), ("second_optdims", optNatsJ18 P'.optdims),
                     ("second_shape", natsJ (gather shape p))])),
  -- the arguments of the second run of tucker_als / hosvd: rank vector gathered by p, dimorder mapped through invPerm p
  ("c18_relabel_args", fun j => do
    let n ← field j "ndims" >>= asNat
    let p ← field j "p" >>= asNats
    let ranks ← optNats18 j "ranks"
    let dimorder ← optNats18 j "dimorder"
    .ok (Json.mkObj [("ranks", optNatsJ18 (ranks.map fun r => gather (Tk.parseRank r n) p)),
                     ("dimorder", natsJ (CpAls.qmap p (Tk.modeOrder dimorder n))),
                     ("shape_of", natsJ (gather (List.range n) p))])),
  -- HOSVD / Tucker-ALS under relabelling: the permuted array, one mode product and the Gram matrix of an unfolding
  ("c18_relabel_ttm", fun j => do
    let X ← field j "X" >>= asDense
    let p ← field j "p" >>= asNats
    let U ← field j "U" >>= asRatMat
    let k ← field j "k" >>= asNat
    let tr ← field j "transpose" >>= asBool
    let dJ : Except Reject (Dense Rat) → Json := exceptJ denseJ
    let Xp := Tk.permuteD p X
    let pk := p.getD k 0
    .ok (Json.mkObj [("permuted", denseJ Xp),
                     ("ttm_perm", dJ (Tk.ttm Xp U k tr)),
                     ("ttm_expected", dJ ((Tk.ttm X U pk tr).map (Tk.permuteD p))),
                     ("gram_perm", ratMatJ (Tk.gramMode Xp k)),
                     ("gram", ratMatJ (Tk.gramMode X pk))])),
  -- Tucker-ALS: the projection on all factors but one and the Gram matrix of its unfolding, for X and c X
  ("c18_scale_ttm", fun j => do
    let X ← field j "X" >>= asDense
    let U ← field j "U" >>= asList asRatMat
    let n ← field j "n" >>= asNat
    let c ← field j "c" >>= asRat
    let dJ : Except Reject (Dense Rat) → Json := exceptJ denseJ
    let base := Tk.ttmExcl X U n true
    let scaled := Tk.ttmExcl (Tk.dscale c X) U n true
    let grams : Json := match base with
      | .error _ => rejectJ
      | .ok Ut => Json.mkObj [("gram", ratMatJ (Tk.gramMode Ut n)),
          ("gram_scaled", ratMatJ (Tk.gramMode (Tk.dscale c Ut) n)),
          ("gram_expected", ratMatJ (Tk.mscale (c * c) (Tk.gramMode Ut n)))]
    .ok (Json.mkObj [("ttm", dJ base), ("ttm_scaled", dJ scaled), ("ttm_expected", dJ (base.map (Tk.dscale c))),
                     ("grams", grams)])),
  -- np.random.uniform(0,1,(r,c)) calls in order, fed with the flat draw sequence
  ("c18_draw_mats", fun j => do
    let dims ← field j "dims" >>= asList asPair
    let draws ← field j "draws" >>= asRats
    let (ms, rest) := drawMats dims draws
    .ok (Json.mkObj [("mats", listJ ratMatJ ms), ("rest", toJson rest.length),
                     ("needed", toJson (drawsNeeded dims))])),
  -- hosvd's rank choice from the descending eigenvalues and the threshold
  ("c18_hosvd_rank", fun j => do
    let eigs ← field j "eigs" >>= asRats
    let t ← field j "thresh" >>= asRat
    .ok (Json.mkObj [("rank", match hosvdRank eigs t with | some k => toJson k | none => Json.null)])),
  -- the printing branch of PDNR/PQNR followed by the redistribute(0) of the next iteration
  ("c18_apr_observe", fun j => do
    let K ← field j "K" >>= asKtensor
    .ok (Json.mkObj [("observed", ktensorJ (aprObserve colNorms1 K)),
                     ("then_redistributed", ktensorJ (redistribute0 (aprObserve colNorms1 K))),
                     ("redistributed", ktensorJ (redistribute0 K))])),
  -- CP-APR MU: the kappa fix-up of one mode at outer iteration `it`
  ("c18_mu_fixup", fun j => do
    let it ← field j "it" >>= asNat
    let kappa ← field j "kappa" >>= asRat
    let kappatol ← field j "kappatol" >>= asRat
    let phi ← field j "Phi" >>= asRatMat
    let a ← field j "A" >>= asRatMat
    .ok (Json.mkObj [("A", ratMatJ (muFixupIf it kappa kappatol phi a)),
                     ("violates", Json.bool (decide (it > 0) && muViolates kappatol phi a))])),
  -- the loop model on a toy counter state: state, iteration count, number of printed lines
  ("c18_loop", fun j => do
    let p ← field j "printitn" >>= asNat
    let mx ← field j "maxiters" >>= asNat
    let stopAt ← field j "stop_at" >>= asNat
    let als ← field j "als_rule" >>= asBool
    let L : Loop Nat := ⟨(· + 1), fun it _ => it == stopAt, id, fun it s => s!"{it}:{s}"⟩
    let r := L.run (if als then prAls p else prMod p) mx 0 0 []
    .ok (Json.mkObj [("state", toJson r.state), ("iters", toJson r.iters), ("printed", toJson r.printed.length)]))
]

end Pyttb.Driver
