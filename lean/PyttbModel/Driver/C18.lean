import PyttbModel.Core.Codec
import PyttbModel.Alg.Presentation
open Lean Pyttb Pyttb.Codec Pyttb.Pres
namespace Pyttb.Driver

/-- 1-norms of the columns of a matrix (the `np.linalg.norm(col, ord=1)` service at `Rat`). -/
def colNorms1 (A : Mat Rat) : List Rat :=
  (List.range A.ncols).map fun j => ((List.range A.nrows).map fun i =>
    let x := A.get i j; if x < 0 then -x else x).sum

def asPair (j : Json) : R (Nat × Nat) := do
  let l ← asNats j
  match l with
  | [a, b] => .ok (a, b)
  | _ => .error "pair expected"

def ops18 : List (String × Op) := [
  -- np.random.uniform(0,1,(r,c)) calls in order, fed with the flat draw sequence
  ("c18_draw_mats", fun j => do
    let dims ← field j "dims" >>= asList asPair
    let draws ← field j "draws" >>= asRats
    let (ms, rest) := drawMats dims draws
    .ok (Json.mkObj [("mats", listJ ratMatJ ms), ("rest", toJson rest.length),
                     ("needed", toJson (drawsNeeded dims))])),
  -- hosvd's rank choice from the descending eigenvalues and the threshold
  ("c18_hosvd_rank", fun j => do
    let eigs ← field j "eigs" >>= asRats
    let t ← field j "thresh" >>= asRat
    .ok (Json.mkObj [("rank", match hosvdRank eigs t with | some k => toJson k | none => Json.null)])),
  -- the printing branch of PDNR/PQNR followed by the redistribute(0) of the next iteration
  ("c18_apr_observe", fun j => do
    let K ← field j "K" >>= asKtensor
    .ok (Json.mkObj [("observed", ktensorJ (aprObserve colNorms1 K)),
                     ("then_redistributed", ktensorJ (redistribute0 (aprObserve colNorms1 K))),
                     ("redistributed", ktensorJ (redistribute0 K))])),
  -- CP-APR MU: the kappa fix-up of one mode at outer iteration `it`
  ("c18_mu_fixup", fun j => do
    let it ← field j "it" >>= asNat
    let kappa ← field j "kappa" >>= asRat
    let kappatol ← field j "kappatol" >>= asRat
    let phi ← field j "Phi" >>= asRatMat
    let a ← field j "A" >>= asRatMat
    .ok (Json.mkObj [("A", ratMatJ (muFixupIf it kappa kappatol phi a)),
                     ("violates", Json.bool (decide (it > 0) && muViolates kappatol phi a))])),
  -- the loop model on a toy counter state: state, iteration count, number of printed lines
  ("c18_loop", fun j => do
    let p ← field j "printitn" >>= asNat
    let mx ← field j "maxiters" >>= asNat
    let stopAt ← field j "stop_at" >>= asNat
    let als ← field j "als_rule" >>= asBool
    let L : Loop Nat := ⟨(· + 1), fun it _ => it == stopAt, id, fun it s => s!"{it}:{s}"⟩
    let r := L.run (if als then prAls p else prMod p) mx 0 0 []
    .ok (Json.mkObj [("state", toJson r.state), ("iters", toJson r.iters), ("printed", toJson r.printed.length)]))
]

end Pyttb.Driver
