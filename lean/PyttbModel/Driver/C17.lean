import PyttbModel.Core.Codec
import PyttbModel.Core.Rows
import PyttbModel.Core.Dims
open Lean Pyttb Pyttb.Codec
namespace Pyttb.Driver

def optInts (j : Json) (k : String) : R (Option (List Int)) :=
  match fieldOpt j k with
  | none => .ok none
  | some v => do let l ← asInts v; .ok (some l)

def ops17 : List (String × Op) := [
  ("sub2ind", fun j => do
    let s ← field j "shape" >>= asNats
    let subs ← field j "subs" >>= asNatMat
    .ok (exceptJ natsJ (ttSub2ind s subs))),
  ("ind2sub", fun j => do
    let s ← field j "shape" >>= asNats
    let idx ← field j "idx" >>= asInts
    .ok (exceptJ natMatJ (ttInd2sub s idx))),
  ("allsubs", fun j => do
    let s ← field j "shape" >>= asNats
    .ok (natMatJ (allSubs s))),
  ("dimscheck", fun j => do
    let n ← field j "N" >>= asNat
    let m ← match fieldOpt j "M" with
      | none => pure none
      | some v => do let k ← asNat v; pure (some k)
    let dims ← optInts j "dims"
    let excl ← optInts j "exclude"
    .ok (exceptJ (fun (r : DimsCheck) => Json.mkObj [("sdims", natsJ r.sdims),
      ("vidx", match r.vidx with | none => Json.null | some v => natsJ v)])
      (dimscheck n m dims excl))),
  ("ismember", fun j => do
    let a ← field j "search" >>= asIntMat
    let b ← field j "source" >>= asIntMat
    let r := ismemberRows a b
    .ok (Json.mkObj [("matched", listJ (fun (p : Bool × Int) => Json.bool p.1) r),
                     ("loc", intsJ (r.map (·.2)))])),
  ("intersect", fun j => do
    let a ← field j "A" >>= asIntMat
    let b ← field j "B" >>= asIntMat
    .ok (natsJ (intersectRows a b))),
  ("intersect_pinned", fun j => do
    let a ← field j "A" >>= asIntMat
    let b ← field j "B" >>= asIntMat
    .ok (natsJ (intersectRowsPinned a b))),
  ("setdiff", fun j => do
    let a ← field j "A" >>= asIntMat
    let b ← field j "B" >>= asIntMat
    .ok (natsJ (setdiffRows a b))),
  ("setdiff_pinned", fun j => do
    let a ← field j "A" >>= asIntMat
    let b ← field j "B" >>= asIntMat
    .ok (natsJ (setdiffRowsPinned a b))),
  ("union", fun j => do
    let a ← field j "A" >>= asIntMat
    let b ← field j "B" >>= asIntMat
    .ok (intMatJ (unionRows a b))),
  ("khatrirao", fun j => do
    let ms ← field j "Ms" >>= asList asRatMat
    let rev ← field j "reverse" >>= asBool
    .ok (exceptJ ratMatJ (khatrirao ms rev)))
]

end Pyttb.Driver
