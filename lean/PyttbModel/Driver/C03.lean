import PyttbModel.Core.Codec
import PyttbModel.Driver.C01
import PyttbModel.Core.XRat
import PyttbModel.Ops.SparseElem
import PyttbModel.Ops.SparseElemKruskal
import PyttbModel.Ops.SparseSquash
import PyttbModel.Ops.Kruskal
open Lean Pyttb Pyttb.Codec Pyttb.SpElem
namespace Pyttb.Driver

/-- extended rationals cross the pipe like the implementation's doubles: `nan`, `inf`, `-inf`
or an exact rational. -/
def xratJ : XRat → Json
  | .fin q => ratJ q
  | .nan => Json.str "nan"
  | .pinf => Json.str "inf"
  | .ninf => Json.str "-inf"

def sparseXJ (S : Sparse XRat) : Json :=
  Json.mkObj [("shape", natsJ S.shape), ("subs", natMatJ S.subs), ("vals", listJ xratJ S.vals)]

def denseXJ (T : Dense XRat) : Json :=
  Json.mkObj [("shape", natsJ T.shape), ("data", listJ xratJ T.data)]

def toX (S : Sparse Rat) : Sparse XRat := ⟨S.shape, S.subs, S.vals.map .fin⟩
def toXD (T : Dense Rat) : Dense XRat := ⟨T.shape, T.data.map .fin⟩

def asRhs (j : Json) : R (ERhs Rat) := do
  let k ← field j "kind" >>= asStr
  let v ← field j "v"
  match k with
  | "scalar" => do let c ← asRat v; .ok (.scalar c)
  | "sparse" => do let B ← asSparse v; .ok (.sparse B)
  | "dense" => do let D ← asDense v; .ok (.dense D)
  | _ => .error s!"bad rhs kind {k}"

def rhsX : ERhs Rat → ERhs XRat
  | .scalar c => .scalar (.fin c)
  | .sparse B => .sparse (toX B)
  | .dense D => .dense (toXD D)

def asTtensorC03 (j : Json) : R (Ttensor Rat) := do
  let c ← field j "core" >>= asDense
  let f ← field j "factors" >>= asList asRatMat
  .ok ⟨c, f⟩

def spOrDenseJ : SpOrDense Rat → Json
  | .sp S => Json.mkObj [("sp", sparseJ S)]
  | .dn T => Json.mkObj [("dn", denseJ T)]

def spJ (S : Sparse Rat) : Json := Json.mkObj [("sp", sparseJ S)]

/-- the scalar functions `elemfun` is exercised with. -/
def elemfunMenu (name : String) : R (Rat → Rat) :=
  match name with
  | "neg" => .ok (fun v => -v)
  | "id" => .ok (fun v => v)
  | "sqm1" => .ok (fun v => v * v - 1)
  | "plus1" => .ok (fun v => v + 1)
  | "zero" => .ok (fun _ => 0)
  | "half" => .ok (fun v => v / 2)
  | _ => .error s!"unknown elemfun {name}"

def binop (name : String) (A : Sparse Rat) (r : ERhs Rat) : R Json :=
  match name with
  | "add" => .ok (exceptJ spOrDenseJ (SpElem.add A r))
  | "sub" => .ok (exceptJ spOrDenseJ (SpElem.sub A r))
  | "mul" => .ok (exceptJ spJ (SpElem.mul A r))
  | "div" => .ok (exceptJ (fun S => Json.mkObj [("sp", sparseXJ S)]) (SpElem.div .nan (toX A) (rhsX r)))
  | "eq" => .ok (exceptJ spJ (SpElem.eq A r))
  | "ne" => .ok (exceptJ spJ (SpElem.ne A r))
  | "lt" => .ok (exceptJ spJ (SpElem.lt A r))
  | "le" => .ok (exceptJ spJ (SpElem.le A r))
  | "gt" => .ok (exceptJ spJ (SpElem.gt A r))
  | "ge" => .ok (exceptJ spJ (SpElem.ge A r))
  | "and" => .ok (exceptJ spJ (SpElem.logicalAnd A r))
  | "or" => .ok (exceptJ spOrDenseJ (SpElem.logicalOr A r))
  | "xor" => .ok (exceptJ spOrDenseJ (SpElem.logicalXor A r))
  | _ => .error s!"unknown binop {name}"

def ops03 : List (String × Op) := [
  ("sp_binop", fun j => do
    let name ← field j "name" >>= asStr
    let A ← field j "A" >>= asSparse
    let r ← field j "rhs" >>= asRhs
    binop name A r),
  ("sp_unop", fun j => do
    let name ← field j "name" >>= asStr
    let A ← field j "A" >>= asSparse
    match name with
    | "neg" => .ok (Json.mkObj [("ok", spJ (SpElem.neg A))])
    | "pos" => .ok (Json.mkObj [("ok", spJ (SpElem.pos A))])
    | "not" => .ok (Json.mkObj [("ok", spJ (SpElem.logicalNot A))])
    | "ones" => .ok (Json.mkObj [("ok", spJ (SpElem.ones A))])
    | _ => .error s!"unknown unop {name}"),
  ("sp_elemfun", fun j => do
    let A ← field j "A" >>= asSparse
    let f ← field j "f" >>= asStr >>= elemfunMenu
    .ok (Json.mkObj [("ok", spJ (SpElem.elemfun f A))])),
  ("sp_rdiv", fun j => do
    let A ← field j "A" >>= asSparse
    let c ← field j "c" >>= asRat
    .ok (Json.mkObj [("ok", Json.mkObj [("dn", denseXJ (SpElem.rdiv (.fin c) (toX A)))])])),
  ("sp_mulk", fun j => do
    let A ← field j "A" >>= asSparse
    let K ← field j "K" >>= asKtensor
    .ok (exceptJ spJ (SpElem.mulK A K))),
  ("sp_divk", fun j => do
    let A ← field j "A" >>= asSparse
    let K ← field j "K" >>= asKtensor
    .ok (exceptJ (fun S => Json.mkObj [("sp", sparseXJ S)]) (SpElem.divK (.fin floatEps) (toX A) K.toX))),
  ("sp_krefl", fun j => do
    let name ← field j "name" >>= asStr
    let A ← field j "A" >>= asSparse
    let K ← field j "K" >>= asKtensor
    match name with
    | "kmul" => .ok (exceptJ spJ (SpElem.kmul K A))
    | "rdivk" => .ok (exceptJ spJ (SpElem.rdivK K A))
    | _ => .error s!"unknown reflected Kruskal operation {name}"),
  ("sp_tucker", fun j => do
    let name ← field j "name" >>= asStr
    let A ← field j "A" >>= asSparse
    let T ← field j "T" >>= asTtensorC03
    match name with
    | "mult" => .ok (exceptJ spJ (SpElem.mulT A T))
    | "divt" => .ok (exceptJ spJ (SpElem.divT A T))
    | "tmul" => .ok (exceptJ spJ (SpElem.tmul T A))
    | "rdivt" => .ok (exceptJ spJ (SpElem.rdivT T A))
    | _ => .error s!"unknown Tucker operation {name}"),
  ("sp_extract", fun j => do
    let A ← field j "A" >>= asSparse
    let q ← field j "q" >>= asNatMat
    .ok (exceptJ ratsJ (SpElem.extract A q))),
  ("sp_mask", fun j => do
    let A ← field j "A" >>= asSparse
    let W ← field j "W" >>= asSparse
    .ok (exceptJ ratsJ (SpElem.mask A W))),
  ("sp_from_aggregator", fun j => do
    let subs ← field j "subs" >>= asNatMat
    let vals ← field j "vals" >>= asRats
    let shape ← field j "shape" >>= asNats
    let f ← field j "f" >>= asStr
    match f with
    | "sum" => .ok (exceptJ sparseJ (SpElem.fromAgg List.sum subs vals shape))
    | "max" => .ok (exceptJ sparseJ (SpElem.fromAgg
        (fun x => x.foldl (fun a b => if a < b then b else a) (x.headD 0)) subs vals shape))
    | "min" => .ok (exceptJ sparseJ (SpElem.fromAgg
        (fun x => x.foldl (fun a b => if b < a then b else a) (x.headD 0)) subs vals shape))
    | "len" => .ok (exceptJ sparseJ (SpElem.fromAgg (fun x => (x.length : Rat)) subs vals shape))
    | _ => .error s!"unknown reducer {f}"),
  ("sp_ctor", fun j => do
    let subs ← field j "subs" >>= asNatMat
    let vals ← field j "vals" >>= asRats
    let shape ← field j "shape" >>= asNats
    .ok (exceptJ sparseJ (SpElem.mk? subs vals shape))),
  ("sp_squash", fun j => do
    let A ← field j "A" >>= asSparse
    .ok (exceptJ (fun (p : Sparse Rat × List (List Nat)) =>
      Json.mkObj [("sp", sparseJ p.1), ("maps", natMatJ p.2)]) (SpElem.squash A))),
  ("spm_ctor", fun j => do
    let subs ← field j "subs" >>= asNatMat
    let vals ← field j "vals" >>= asRats
    let r ← field j "rdims" >>= asNats
    let c ← field j "cdims" >>= asNats
    let ts ← field j "tshape" >>= asNats
    .ok (exceptJ sptenmatJ (Sptenmat.mkCopy subs vals r c ts))),
  ("sp_wf", fun j => do
    let A ← field j "A" >>= asSparse
    .ok (Json.mkObj [("wf", Json.bool A.wfb), ("nnz", toJson A.nnz)]))
]

end Pyttb.Driver
