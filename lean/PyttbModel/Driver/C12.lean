import PyttbModel.Core.Codec
import PyttbModel.Alg.GcpFg
import PyttbModel.Generated.Handles
import PyttbModel.Spec.GcpSampled
open Lean Pyttb Pyttb.Codec
namespace Pyttb.Driver
namespace C12

/-- doubles cross the pipe as the decimal string of their 64-bit pattern -/
def asFloatBits (j : Json) : R Float := do
  let s ← asStr j
  match s.toNat? with
  | some n => .ok (Float.ofBits n.toUInt64)
  | none => .error s!"bad float bits {s}"

def floatBitsJ (v : Float) : Json := Json.str (toString v.toBits.toNat)

/-- magnitude of the terms that are added / subtracted while evaluating the expression
(an upper bound for the size of intermediate values): the tolerance of the double
comparison with the Python handle is taken relative to it, so that cancellation does
not produce false alarms -/
def magF (x p m : Float) : Expr → Float
  | .add a b | .sub a b => magF x p m a + magF x p m b
  | .mul a b => magF x p m a * magF x p m b
  | .div a b => magF x p m a / Float.abs (b.evalF x p m)
  | .neg a | .abs a => magF x p m a
  | .powNat a n => Float.pow (magF x p m a) (Float.ofNat n)
  -- a rounding error of the argument is amplified by 1 / argument (`log(1 + m)` vs `log1p(m)`)
  | .log a => Float.abs (Float.log (a.evalF x p m)) + magF x p m a / Float.abs (a.evalF x p m)
  | .sqrt a => Float.sqrt (magF x p m a)
  | .ite c a b => if c.evalF x p m == 0 then magF x p m b else magF x p m a
  | e => Float.abs (e.evalF x p m)

/-- polynomial stand-in (loss, gradient) pairs, exact over the rationals; the harness
passes the same functions to the real `evaluate` / `estimate` as Python callables -/
def standIn : String → Option (Handle Rat × Handle Rat)
  | "sq" => some (fun x m => (m - x) * (m - x), fun x m => 2 * (m - x))
  | "cubic" => some (fun x m => m * m * m - 2 * x * m + x, fun x m => 3 * m * m - 2 * x)
  | "mix" => some (fun x m => x * m * m + m + 3, fun x m => 2 * x * m + 1)
  | _ => none

def fgJ (r : FG Rat) : Json :=
  Json.mkObj [("F", match r.F with | none => Json.null | some v => ratJ v),
              ("G", match r.G with | none => Json.null | some g => listJ ratMatJ g)]

def optDense (j : Json) (k : String) : R (Option (Dense Rat)) :=
  match fieldOpt j k with
  | none => .ok none
  | some v => do let d ← asDense v; .ok (some d)

def optNats (j : Json) (k : String) : R (Option (List Nat)) :=
  match fieldOpt j k with
  | none => .ok none
  | some v => do let l ← asNats v; .ok (some l)

def pickHandles (j : Json) : R (Option (Handle Rat) × Option (Handle Rat)) := do
  let name ← field j "handle" >>= asStr
  let wf ← field j "wantF" >>= asBool
  let wg ← field j "wantG" >>= asBool
  match standIn name with
  | none => .error s!"unknown stand-in handle {name}"
  | some (f, g) => .ok (if wf then some f else none, if wg then some g else none)

def boundJ : Bound → Json
  | .negInf => Json.str "-inf"
  | .fin q => ratJ q

def nameOf (e : Expr) : Json :=
  match Handles.byName.find? (fun p => p.2 == e) with
  | some p => Json.str p.1
  | none => Json.null

end C12
open C12

def ops12 : List (String × Op) := [
  -- generated handle expression (or its symbolic derivative) evaluated in doubles
  -- the expression is named either by its Python name (`name`) or as a cell of the selection table
  -- (`obj` + `which` = "fn" | "grad": what `fg_setup.setup` returns for that objective, however it is
  -- wrapped in the source)
  ("gcp_expr", fun j => do
    let deriv ← field j "deriv" >>= asBool
    let pts ← field j "pts" >>= asList (asList asFloatBits)
    let e? : Option Expr ← (match fieldOpt j "obj" with
      | some oj => do
        let on ← asStr oj
        let which ← field j "which" >>= asStr
        match Objective.all.find? (fun o => o.name == on) with
        | none => pure none
        | some o =>
          let row := Handles.setupTable o
          pure (some (if which == "grad" then row.grad else row.fn))
      | none => do
        let name ← field j "name" >>= asStr
        pure (Handles.byName.lookup name))
    match e? with
    | none => .ok Json.null   -- no such handle in the current source
    | some e =>
      let e' := if deriv then e.D else e
      .ok (listJ (fun (pt : List Float) =>
        Json.arr #[floatBitsJ (e'.evalF (pt.getD 0 0) (pt.getD 1 0) (pt.getD 2 0)),
                   floatBitsJ (magF (pt.getD 0 0) (pt.getD 1 0) (pt.getD 2 0) e'),
                   -- is the point a switching point of the expression itself (not of its derivative)?
                   Json.bool (e.onKink (pt.getD 0 0) (pt.getD 1 0) (pt.getD 2 0))]) pts)),
  ("gcp_table", fun _ =>
    .ok (listJ (fun (o : Objective) =>
      let row := Handles.setupTable o
      Json.mkObj [("objective", Json.str o.name), ("fn", nameOf row.fn), ("grad", nameOf row.grad),
                  ("lower", boundJ row.lower), ("hasParam", Json.bool row.hasParam)]) Objective.all)),
  ("gcp_evaluate", fun j => do
    let K ← field j "K" >>= asKtensor
    let X ← field j "X" >>= asDense
    let W ← optDense j "W"
    let (f, g) ← pickHandles j
    .ok (exceptJ fgJ (evaluate K X W f g))),
  ("gcp_mttkrp", fun j => do
    let T ← field j "T" >>= asDense
    let U ← field j "U" >>= asList asRatMat
    let Rk ← field j "R" >>= asNat
    let k ← field j "k" >>= asNat
    let V := mttkrpDef T U Rk k
    -- a Kruskal operand: its weights scale the columns
    match fieldOpt j "weights" with
    | none => .ok (ratMatJ V)
    | some wj => do
      let w ← asRats wj
      .ok (ratMatJ (scaleCols V w))),
  ("gcp_helper", fun j => do
    let U ← field j "factors" >>= asList asRatMat
    let subs ← field j "subs" >>= asNatMat
    .ok (exceptJ (fun (r : List Rat × List (Mat Rat)) =>
      Json.mkObj [("mvals", ratsJ r.1), ("Zexp", listJ ratMatJ r.2)]) (estimateHelper U subs))),
  ("gcp_estimate", fun j => do
    let K ← field j "K" >>= asKtensor
    let subs ← field j "subs" >>= asNatMat
    let xv ← field j "xvals" >>= asRats
    let w ← field j "w" >>= asRats
    let crng ← optNats j "crng"
    let (f, g) ← pickHandles j
    .ok (exceptJ fgJ (estimate K subs xv w f g crng))),
  -- the specification of the sampled estimator (Spec/GcpSampled.lean), executed: the weighted sample sum with
  -- the correction range and its partial derivatives entry by entry (no rejection logic: a total function)
  ("gcp_sampled_spec", fun j => do
    let K ← field j "K" >>= asKtensor
    let subs ← field j "subs" >>= asNatMat
    let xv ← field j "xvals" >>= asRats
    let w ← field j "w" >>= asRats
    let crng ← optNats j "crng"
    let (f, g) ← pickHandles j
    .ok (fgJ ⟨f.map (sampledObjective K subs xv w crng), g.map (sampledGrad K subs xv w crng)⟩)),
  -- the specification of a masked evaluation: which entries the mask keeps, whether it is a 0/1 array, and the
  -- loss summed over the kept entries only
  ("gcp_masked_spec", fun j => do
    let K ← field j "K" >>= asKtensor
    let X ← field j "X" >>= asDense
    let W ← field j "W" >>= asDense
    let name ← field j "handle" >>= asStr
    match standIn name with
    | none => .error s!"unknown stand-in handle {name}"
    | some (f, _) =>
      .ok (Json.mkObj [("F", ratJ (maskedObjective K X W f)), ("unmasked", natMatJ (unmasked W)),
        ("isMask", Json.bool ((allSubs W.shape).all fun i => W.get i == 0 || W.get i == 1))]))
]

end Pyttb.Driver
