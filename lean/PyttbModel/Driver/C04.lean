import PyttbModel.Core.Codec
import PyttbModel.Ops.IndexRun
import PyttbModel.Ops.IndexForms
import PyttbModel.Spec.MutArray
open Lean Pyttb Pyttb.Codec
namespace Pyttb.Driver.C04

def optInt (j : Json) : R (Option Int) :=
  match j with
  | .null => .ok none
  | v => do let k ← asInt v; .ok (some k)

def asSlice3 (j : Json) : R (Option Int × Option Int × Option Int) := do
  let l ← asList optInt j
  match l with
  | [a, b, c] => .ok (a, b, c)
  | _ => .error "slice needs three entries"

def asRPart (j : Json) : R RPart :=
  match fieldOpt j "int", fieldOpt j "slice", fieldOpt j "list" with
  | some v, _, _ => do let i ← asInt v; .ok (.int i)
  | _, some v, _ => do let (a, b, c) ← asSlice3 v; .ok (.slice a b c)
  | _, _, some v => do let l ← asNats v; .ok (.list l)
  | _, _, _ => .error "bad region part"

def asKey (j : Json) : R Key := do
  let k ← field j "k" >>= asStr
  match k with
  | "lin" => do let i ← field j "i" >>= asInt; .ok (.lin i)
  | "linslice" => do let (a, b, c) ← field j "s" >>= asSlice3; .ok (.linSlice a b c)
  | "linlist" => do let l ← field j "is" >>= asInts; .ok (.linList l)
  | "subs" => do let r ← field j "rows" >>= asNatMat; .ok (.subs r)
  | "region" => do let p ← field j "parts" >>= asList asRPart; .ok (.region p)
  | _ => .error s!"bad key kind {k}"

def asRhs (j : Json) : R (Rhs Rat) := do
  let r ← field j "r" >>= asStr
  match r with
  | "scalar" => do let v ← field j "v" >>= asRat; .ok (.scalar v)
  | "col" => do let v ← field j "v" >>= asRats; .ok (.col v)
  | "arr" => do let T ← asDense j; .ok (.arr T)
  | "tensor" => do let T ← asDense j; .ok (.tensor T)
  | _ => .error s!"bad rhs kind {r}"

def asIdxOp (j : Json) : R (IdxOp Rat) := do
  let o ← field j "op" >>= asStr
  let key ← field j "key" >>= asKey
  match o with
  | "write" => do let rhs ← field j "rhs" >>= asRhs; .ok (.write key rhs)
  | "read" => .ok (.read key)
  | _ => .error s!"bad op {o}"

def readOutJ : ReadOut Rat → Json
  | .scalar v => Json.mkObj [("scalar", ratJ v)]
  | .vec vs => Json.mkObj [("vec", ratsJ vs)]
  | .tensor T => Json.mkObj [("tensor", denseJ T)]

def spReadOutJ : SpReadOut Rat → Json
  | .scalar v => Json.mkObj [("scalar", ratJ v)]
  | .vec vs => Json.mkObj [("vec", ratsJ vs)]
  | .tensor S => Json.mkObj [("sptensor", sparseJ S)]

/-- Run a history step by step; `stepJ` performs one step on the state and renders
(output, state). -/
def runHistory {σ} (s0 : σ) (ops : List (IdxOp Rat)) (stepJ : σ → IdxOp Rat → σ × Json) (stateJ : σ → Json) : Json :=
  let rec go (s : σ) : List (IdxOp Rat) → List Json
    | [] => []
    | op :: rest =>
      let (s', o) := stepJ s op
      Json.mkObj [("out", o), ("state", stateJ s')] :: go s' rest
  Json.mkObj [("steps", Json.arr (go s0 ops).toArray)]

def asKElem (j : Json) : R KElem := do
  let e ← asStr j
  match e with
  | "int" => .ok .pyInt
  | "npint" => .ok .npInt
  | "float" => .ok .pyFloat
  | "seq" => .ok .seq
  | "other" => .ok .other
  | _ => .error s!"bad element type {e}"

/-- The Python type of a key object, as the harness classifies it. -/
def asKeyObj (j : Json) : R KeyObj := do
  let t ← field j "t" >>= asStr
  match t with
  | "int" => .ok .pyInt
  | "npint" => .ok .npInt
  | "slice" => .ok .slice
  | "ndarray" => do let d ← field j "ndim" >>= asNat; .ok (.ndarray d)
  | "tuple" => .ok .tuple
  | "seq" => do let es ← field j "elems" >>= asList asKElem; .ok (.seq es)
  | "other" => .ok .other
  | _ => .error s!"bad key object type {t}"

def variantJ : Variant → Json
  | .unknown => Json.str "UNKNOWN"
  | .linear => Json.str "LINEAR"
  | .subtensor => Json.str "SUBTENSOR"
  | .subscripts => Json.str "SUBSCRIPTS"

def writtenJ : Json := Json.mkObj [("written", Json.bool true)]

def ops04 : List (String × Op) := [
  ("c04_dense", fun j => do
    let T ← field j "start" >>= asDense
    let ops ← field j "ops" >>= asList asIdxOp
    .ok (runHistory T ops (fun T op =>
      match op with
      | .write k r => match T.setItem k r with
        | .ok T' => (T', writtenJ)
        | .error _ => (T, rejectJ)
      | .read k => match T.getItem k with
        | .ok v => (T, readOutJ v)
        | .error _ => (T, rejectJ)) denseJ)),
  ("c04_sparse", fun j => do
    let S ← field j "start" >>= asSparse
    let ops ← field j "ops" >>= asList asIdxOp
    .ok (runHistory S ops (fun S op =>
      match op with
      | .write k r => match S.setItem k r with
        | .ok S' => (S', writtenJ)
        | .error _ => (S, rejectJ)
      | .read k => match S.getItem k with
        | .ok v => (S, spReadOutJ v)
        | .error _ => (S, rejectJ)) sparseJ)),
  ("c04_spec", fun j => do
    let T ← field j "start" >>= asDense
    let ops ← field j "ops" >>= asList asIdxOp
    .ok (runHistory (MArr.ofDense T) ops (fun m op =>
      match op with
      | .write k r => match m.write k r with
        | .ok m' => (m', writtenJ)
        | .error _ => (m, rejectJ)
      | .read k => match m.read k with
        | .ok v => (m, readOutJ v)
        | .error _ => (m, rejectJ)) (fun m => denseJ m.toDense))),
  -- `get_index_variant` on the Python type of a key object
  ("c04_variant", fun j => do
    let o ← field j "obj" >>= asKeyObj
    match getIndexVariant o with
    | .ok v => .ok (Json.mkObj [("variant", variantJ v)])
    | .error _ => .ok rejectJ),
  -- `sptensor.extract` called directly: "rows" (p × n array) or "vec" (one subscript, 1-d); replies like a
  -- one-step history
  ("c04_extract", fun j => do
    let S ← field j "start" >>= asSparse
    let a : SubsArg ← match fieldOpt j "vec" with
      | some v => do let r ← asNats v; .ok (SubsArg.vec r)
      | none => do let r ← field j "rows" >>= asNatMat; .ok (SubsArg.mat r)
    let out := match S.extractArg a with
      | .ok vs => Json.mkObj [("vec", ratsJ vs)]
      | .error _ => rejectJ
    .ok (Json.mkObj [("steps", Json.arr #[Json.mkObj [("out", out), ("state", sparseJ S)]])]))
]

end Pyttb.Driver.C04
