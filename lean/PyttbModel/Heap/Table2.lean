/-
C05 heap model, part 4: step-level entries for the matricized tensors (`tenmat`, `sptenmat`),
the Tucker tensor, the sum tensor and the remaining Kruskal operations, read from the source
(line references are to /repo/pyttb at the time of writing).  Operand registers as in part 3
(`Heap/Table.lean`): the receiver's arrays first
  tenmat: data rindices cindices | sptenmat: subs vals rdims cdims |
  ttensor: core arrays (1 dense / 2 sparse) f0 … | sumtensor: the arrays of part 0, part 1, … |
  ktensor: weights f0 …
then the arrays of the arguments.  Import-free.
-/
import PyttbModel.Heap.Compose
namespace Pyttb.Heap

/-! ### NumPy idioms -/

/-- `a.copy()` with NumPy's default order "C": a new C-ordered array with the same elements –
the F-ordered copy of the transposed array, transposed back (same shape, strides, elements and
freshness).  Source `r`, first free register `f`; the copy is register `f + 2`. -/
def copyC (r f : Nat) : Prog := [.tr r, .copy f, .tr (f + 1)]

/-- `to_memory_order(a, "F", copy=True)` (pyttb_utils.py:1060-1067): `a.copy()` (C-ordered), then
`np.asfortranarray` – which copies once more unless the C-ordered copy is F-contiguous as well
(at most one extent above one: 1-row / 1-column matrices).  Result: register `f + 3`. -/
def tmoCopy (r f : Nat) : Prog := copyC r f ++ [.asF (f + 2)]

/-- scalar-valued methods and printers (`norm`, `isequal`, `innerprod`, `__repr__`, …): the
operands are read, nothing is written, no array is returned -/
def reads_only (_ : Params) (_ : List View) : Built := { prog := [], res := [] }

/-! ### tenmat -/

/-- `tenmat(data, rdims, cdims, tshape, copy)` (tenmat.py:97-178) called with the data in register
`rd`; `rrs` / `rcs` = registers `gather_wrap_dims` reads to produce `rdims` / `cdims`
(`astype(int)` of the argument, or `np.setdiff1d` of the other one: new arrays either way),
`f` = first free register.
* 1-d data: `np.reshape(data.copy(), (1, n), order="F")` first (new, F-contiguous);
* `rindices = rdims.copy()`, `cindices = cdims.copy()`;
* `copy` is forced when the data is not F-contiguous (`dataF` = `_matches_order(data)`), then
  `to_memory_order(data, "F", copy)`: `data.copy()` + `asfortranarray`, or `asfortranarray` alone
  – the array itself. -/
def tenmatCtor (rd : Nat) (rrs rcs : List Nat) (f : Nat) (oneD dataF copy : Bool) (s2 : List Nat) : Built :=
  let pre : Prog := if oneD then [.copy rd, .reshapeF f s2] else []
  let f1 := if oneD then f + 2 else f
  let d := if oneD then f + 1 else rd
  let dimsP : Prog := [.fresh [] rrs, .fresh [] rcs, .copy f1, .copy (f1 + 1)]
  let f2 := f1 + 4
  let copy' := copy || !(oneD || dataF)
  { prog := pre ++ dimsP ++ (if copy' then tmoCopy d f2 else [.asF d]),
    res := [("data", if copy' then f2 + 3 else f2), ("rindices", f1 + 2), ("cindices", f1 + 3)] }

/-- the constructor as a public operation; operands: data (, rdims, cdims).  `p.shape` = (1, n)
for 1-d data.  flag "empty": no data – four new empty arrays. -/
def tenmat_init2 (p : Params) (ops : List View) : Built :=
  let b := ops.length
  let d := ops.getD 0 default
  if p.flag == "empty" then
    { prog := [.fresh [] [], .fresh [] [], .fresh [] []], res := [("rindices", b), ("cindices", b + 1), ("data", b + 2)] }
  else tenmatCtor 0 (List.range b) (List.range b) b (d.shape.length == 1) d.isF p.copy p.shape

/-- `copy()`, `__deepcopy__`, `__pos__` (tenmat.py:216, 222, 724):
`tenmat(self.data, self.rindices, self.cindices, self.tshape, copy=True)`. -/
def tenmat_copy (_ : Params) (ops : List View) : Built :=
  tenmatCtor 0 [1] [2] ops.length false (ops.getD 0 default).isF true []

/-- `ctranspose()` (tenmat.py:313-319): `tenmat(self.data.conj().T, cindices, rindices, tshape,
copy=True)`.  `ndarray.conj()` of real, integer or boolean data is the array itself, of complex
data (flag "complex") a new array; `.T` is a view; the constructor copies explicitly
(`copy=True`), so that even a 1-row / 1-column matrix – whose transpose is F-contiguous and
would pass `asfortranarray` unchanged – does not share its data. -/
def tenmat_ctranspose (p : Params) (ops : List View) : Built :=
  let b := ops.length
  let conj : Step := if p.flag == "complex" then .fresh p.shape [0] else .alias 0
  let C := tenmatCtor (b + 1) [2] [1] (b + 2) false false true []
  { prog := [conj, .tr b] ++ C.prog, res := C.res }

/-- `double()` (tenmat.py:344): `to_memory_order(self.data, "F", copy=True).astype(np.float64)`;
`astype` copies (once more). -/
def tenmat_double (_ : Params) (ops : List View) : Built :=
  let b := ops.length
  { prog := tmoCopy 0 b ++ [.copy (b + 3)], res := [("arr", b + 4)] }

/-- `__add__`, `__radd__`, `__sub__`, `__rsub__` (scalar or tenmat), `__mul__` / `__rmul__` with
a scalar, `__neg__` (tenmat.py:493-496, 582-593, 652-663, 690-701, 748-749): `Z = self.copy()`,
then `Z.data` is rebound to the new array `Z.data ∘ other` (reads the other operand's data,
register 3, when there is one). -/
def tenmat_arith (p : Params) (ops : List View) : Built :=
  let b := ops.length
  let C := tenmat_copy p ops
  { prog := C.prog ++ [.fresh p.shape ((b + 7) :: (List.range b).drop 3)],
    res := [("data", b + 8), ("rindices", b + 2), ("cindices", b + 3)] }

/-- `__mul__` with a tenmat (tenmat.py:497-523); operands: self (0 1 2), other (3 4 5).
`np.matmul(self.data, other.data, order="F")` is a new F-ordered array; row / column modes are
`np.arange` arrays; the constructor is called with `copy=False` and keeps the product.
flag "scalar": no mode left, `(self.data @ other.data)[0, 0]`. -/
def tenmat_matmul (p : Params) (ops : List View) : Built :=
  let b := ops.length
  if p.flag == "scalar" then { prog := [.fresh [] [0, 3]], res := [] }
  else
    let C := tenmatCtor b [] [] (b + 1) false true false []
    { prog := .fresh p.shape [0, 3] :: C.prog, res := C.res }

/-! ### sptenmat -/

/-- `sptenmat(subs, vals, rdims, cdims, tshape, copy)` (sptenmat.py:104-173) with subs / vals in
registers `rs` / `rv`.  `gather_wrap_dims` gives new `rdims` / `cdims` arrays (`f`, `f + 1`).
`empty` = `vals.size == 0`.
* copy, values: `np.unique(subs, axis=0)`, `accumarray`, then `newsubs[nzidx]`, `newvals[nzidx]`
  (new arrays), `newvals[:, None]` (a view of the new array); `rdims.copy().astype(int)`;
* copy, no values: `np.array([])` twice, fancy-indexed;
* no copy: subs and vals kept as they are (or two new empty arrays), rdims / cdims the new
  arrays of `gather_wrap_dims`. -/
def sptenmatCtor (rs rv : Nat) (rrs rcs : List Nat) (f : Nat) (copy empty : Bool) : Built :=
  let dims : Prog := [.fresh [] rrs, .fresh [] rcs]
  if copy then
    if empty then
      { prog := dims ++ [.fresh [] [], .fresh [] [], .fresh [] [f + 2], .fresh [] [f + 3],
                         .copy f, .fresh [] [f + 6], .copy (f + 1), .fresh [] [f + 8]],
        res := [("subs", f + 4), ("vals", f + 5), ("rdims", f + 7), ("cdims", f + 9)] }
    else
      { prog := dims ++ [.fresh [] [rs], .fresh [] [rv, f + 2], .fresh [] [f + 2, f + 3], .fresh [] [f + 3],
                         .newaxis (f + 5) 1, .copy f, .fresh [] [f + 7], .copy (f + 1), .fresh [] [f + 9]],
        res := [("subs", f + 4), ("vals", f + 6), ("rdims", f + 8), ("cdims", f + 10)] }
  else if empty then
    { prog := dims ++ [.fresh [] [], .fresh [] []],
      res := [("subs", f + 2), ("vals", f + 3), ("rdims", f), ("cdims", f + 1)] }
  else
    { prog := dims ++ [.alias rs, .alias rv],
      res := [("subs", f + 2), ("vals", f + 3), ("rdims", f), ("cdims", f + 1)] }

/-- the constructor as a public operation; operands: subs, vals (, rdims, cdims).  flag "none":
neither rdims nor cdims – four new empty arrays (sptenmat.py:93-102). -/
def sptenmat_init2 (p : Params) (ops : List View) : Built :=
  let b := ops.length
  if p.flag == "none" then
    { prog := [.fresh [] [], .fresh [] [], .fresh [] [], .fresh [] []],
      res := [("subs", b), ("vals", b + 1), ("rdims", b + 2), ("cdims", b + 3)] }
  else if p.flag == "nosubs" then
    -- subs / vals not given: `np.array([], ndmin=2)` stand in for them
    let C := sptenmatCtor b (b + 1) (List.range b) (List.range b) (b + 2) p.copy true
    { prog := [.fresh [] [], .fresh [] []] ++ C.prog, res := C.res }
  else sptenmatCtor 0 1 ((List.range b).drop 2) ((List.range b).drop 2) b p.copy ((ops.getD 1 default).size == 0)

/-- `copy()`, `__deepcopy__`, `__pos__` (sptenmat.py:268-275, 279, 474). -/
def sptenmat_copy (_ : Params) (ops : List View) : Built :=
  sptenmatCtor 0 1 [2] [3] ops.length true ((ops.getD 1 default).size == 0)

/-- `__neg__` (sptenmat.py:492-494): `result = self.copy(); result.vals *= -1` – an in-place
product on the copy's values. -/
def sptenmat_neg (p : Params) (ops : List View) : Built :=
  let C := sptenmat_copy p ops
  let v := (C.res.getD 1 ("", 0)).2
  { prog := C.prog ++ [.write v [v]], res := C.res }

/-- `from_array(array, rdims, cdims, tshape)` (sptenmat.py:223-233).  ndarray (operands: array,
rdims, cdims): `array[array.nonzero()]` (new), `np.expand_dims` (view of it),
`np.vstack(array.nonzero()).transpose()`; flag "coo" (operands: data row col, rdims, cdims):
`array.tocoo(False).data` is the matrix's own data array, `np.expand_dims` a view of it – the
copying constructor (accumulation into new arrays) follows in both cases. -/
def sptenmat_from_array (p : Params) (ops : List View) : Built :=
  let b := ops.length
  let empty := p.k == 0   -- number of non-zeros
  if p.flag == "coo" then
    let C := sptenmatCtor (b + 4) (b + 1) ((List.range b).drop 3) ((List.range b).drop 3) (b + 5) true empty
    { prog := [.alias 0, .newaxis b 1, .fresh [] [0, 1, 2], .fresh [] [b + 2], .tr (b + 3)] ++ C.prog, res := C.res }
  else
    let C := sptenmatCtor (b + 5) (b + 2) ((List.range b).drop 1) ((List.range b).drop 1) (b + 6) true empty
    { prog := [.fresh [] [0], .fresh [] [0, b], .newaxis (b + 1) 1, .fresh [] [0], .fresh [] [b + 3], .tr (b + 4)] ++ C.prog,
      res := C.res }

/-- `to_sptensor()` (sptenmat.py:302-324).  No entries: `sptensor(None, None, tshape)` – new empty
arrays.  Otherwise per side with modes (`p.dims` = [#row modes, #column modes]) a column view
`self.subs[:, j]` and `tt_ind2sub` of it (new), else `np.empty`; a new zero array receives the
columns; `vals = self.vals` goes through the copying sptensor constructor. -/
def sptenmat_to_sptensor (p : Params) (ops : List View) : Built :=
  let b := ops.length
  if p.flag == "empty" then { prog := [.fresh [] [], .fresh [] []], res := [("subs", b), ("vals", b + 1)] }
  else
    let side (j : Nat) (n f : Nat) : Prog :=
      if n == 0 then [.fresh [] []] else [.select 0 1 j, .fresh [] [f], .fresh [] [f + 1]]
    let nr := p.dims.getD 0 0
    let nc := p.dims.getD 1 0
    let f1 := if nr == 0 then b + 1 else b + 3
    let f2 := if nc == 0 then f1 + 1 else f1 + 3
    { prog := side 0 nr b ++ side 1 nc f1 ++
              [.fresh [] [], .write f2 [f1 - 1, 2], .write f2 [f2 - 1, 3], .alias 1, .copy f2, .copy (f2 + 1)],
      res := [("subs", f2 + 2), ("vals", f2 + 3)] }

/-- `full()` (sptenmat.py:390-396): `tenmat(np.zeros(shape, order="F"), rdims, cdims, tshape)`
(copying constructor), then `result[tuple(self.subs.transpose())] = np.squeeze(self.vals)` –
a write into the new matrix through views of the receiver's arrays. -/
def sptenmat_full (p : Params) (ops : List View) : Built :=
  let b := ops.length
  let C := tenmatCtor b [2] [3] (b + 1) false true true []
  let d := (C.res.getD 0 ("", 0)).2
  { prog := .fresh p.shape [] :: C.prog ++
            (if p.flag == "empty" then [] else [.tr 0, .squeeze 1, .write d [b + 9, b + 10]]),
    res := C.res }

/-! ### idioms used as callees -/

/-- `k` placeholder operands (for callees whose program does not depend on operand layouts) -/
def dflt (k : Nat) : List View := List.replicate k default

/-- `to_memory_order(a, "F", copy=True)` of one operand -/
def tmoCopyB : Built := { prog := tmoCopy 0 1, res := [("", 4)] }
/-- `a.copy("F")`, `a.astype(..)` of one operand -/
def copyB : Built := { prog := [.copy 0], res := [("", 1)] }
/-- one new array computed from `k` operands -/
def freshB (k : Nat) : Built := { prog := [.fresh [] (List.range k)], res := [("", k)] }
/-- two new arrays computed from `k` operands (a sparse result of a method without a step-level
entry: `sptensor.ttm`, `sptensor.ttv`, …) -/
def fresh2B (k : Nat) (n1 n2 : String) : Built :=
  { prog := [.fresh [] (List.range k), .fresh [] (List.range k)], res := [(n1, k), (n2, k + 1)] }
/-- a product followed by `to_memory_order(.., "F")`: `to_memory_order(A @ W, "F")` -/
def freshAsFB (k : Nat) : Built := { prog := [.fresh [] (List.range k), .asF k], res := [("", k + 1)] }

/-- the same callee with its results unnamed (the caller names them by prefix) -/
def Built.unnamed (B : Built) : Built := { prog := B.prog, res := B.res.map (fun q => ("", q.2)) }

/-- caller register of the callee's first result -/
def Built.res0At (B : Built) (k : Nat) (args : List Nat) (free : Nat) : Nat :=
  relocReg k args free (B.res.headD ("", 0)).2

/-! ### dense tensor: two more entries used by the composite classes -/

/-- `__neg__` (tensor.py:2854): `ttb.tensor(-1 * self.data)` – a new array through the copying
constructor (no shape argument, hence no reshape). -/
def tensor_neg (p : Params) (ops : List View) : Built :=
  let b := ops.length
  { prog := [.fresh p.shape [0], .copy b], res := [("data", b + 1)] }

/-! ### Kruskal tensor (operands: weights f0 … f(n-1), then the arguments) -/

/-- `ktensor(factor_matrices, weights)` with copying (ktensor.py:186-201) on registers:
`weights.copy("F")`, `fm.copy("F")` for every matrix. -/
def Acc.ktCtor (A : Acc) (w : Nat) (fs : List Nat) (pre : String := "") : Acc :=
  A.call (ktensor_copy { n := fs.length } (dflt (fs.length + 1))) (w :: fs) pre

/-- `extract(idx)` (ktensor.py:722-752). flag "none": `copy()`.  Otherwise `self.weights[components]`
and `fm[:, components]` (fancy indexing: new arrays), then the copying constructor. -/
def ktensor_extract (p : Params) (ops : List View) : Built :=
  let b := ops.length
  let n := p.n
  if p.flag == "none" then ktensor_copy p ops
  else
    (((Acc.init b).raw (fun _ => .fresh [] [0] :: (regs 1 n).map (fun r => .fresh [] [r]))).ktCtor b (regs (b + 1) n)).built

/-- `__neg__`, `__mul__` / `__rmul__` with a scalar (ktensor.py:2528, 2583):
`ktensor(self.factor_matrices, -self.weights)` – new weights, the copying constructor. -/
def ktensor_scale (p : Params) (ops : List View) : Built :=
  let b := ops.length
  (((Acc.init b).raw (fun _ => [.fresh [] [0]])).ktCtor b (regs 1 p.n)).built

/-- `__add__`, `__sub__` with a ktensor (ktensor.py:2510-2518, 2558-2566); operands: self
(0 … n), other (n+1 … 2n+1): `np.concatenate` of the weights and of every pair of factor
matrices (new arrays), then the copying constructor. -/
def ktensor_addsub (p : Params) (ops : List View) : Built :=
  let b := ops.length
  let n := p.n
  (((Acc.init b).raw (fun _ => .fresh [] [0, n + 1] :: (List.range n).map (fun i => .fresh [] [i + 1, n + 2 + i]))).ktCtor
    b (regs (b + 1) n)).built

/-- `double()` (ktensor.py:672): `self.full().double()` – the dense tensor's data copied once more
(`astype`). -/
def ktensor_double (p : Params) (ops : List View) : Built :=
  let b := ops.length
  let A := (Acc.init b).call (ktensor_full p (dflt (p.n + 1))) (List.range (p.n + 1)) "" false
  (A.call copyB [b + 2] "arr").built

/-- `to_tenmat(rdims, cdims, cdims_cyclic, copy)` (ktensor.py:1040): `self.full().to_tenmat(…)`;
parameters as for `tensor.to_tenmat`. -/
def ktensor_to_tenmat (p : Params) (ops : List View) : Built :=
  let b := ops.length
  let A := (Acc.init b).call (ktensor_full { p with shape := [] } (dflt (p.n + 1))) (List.range (p.n + 1)) "" false
  (A.call (tensor_to_tenmat p (dflt 1)) [b + 2]).built

/-- `tovec(include_weights)` (ktensor.py:2010-2023): a new zero vector, then slice assignments
from the weights (unless flag "now") and from every column of every factor matrix. -/
def ktensor_tovec (p : Params) (ops : List View) : Built :=
  let b := ops.length
  { prog := .fresh [] [] :: ((if p.flag == "now" then [] else [Step.write b [0]]) ++
              (regs 1 p.n).map (fun r => Step.write b [r])),
    res := [("arr", b)] }

/-- `mask(W)` (ktensor.py:1228-1243): `W.find()` – new arrays for a dense `W` (flag "tensor", one
operand after the receiver's), the mask's own `subs` for a sparse one (two operands) – then
fancy reads and products into a new value column. -/
def ktensor_mask (p : Params) (ops : List View) : Built :=
  let b := ops.length
  let n := p.n
  if p.flag == "tensor" then
    let A := (Acc.init b).call (tensor_find {} (dflt 1)) [n + 1] "" false
    (A.call (freshB (n + 2)) (List.range (n + 1) ++ [b + 2]) "arr").built
  else
    let A := (Acc.init b).raw (fun _ => [.alias (n + 1)])
    (A.call (freshB (n + 2)) (List.range (n + 1) ++ [b]) "arr").built

/-- `tolist(mode)` (ktensor.py:1930): `self.copy().normalize(mode).factor_matrices` – every array
copied, the copy of factor `p.k` and the copied weights written in place, the copied factor
matrices handed out. -/
def ktensor_tolist_mode (p : Params) (ops : List View) : Built :=
  let b := ops.length
  let n := p.n
  { prog := (regs 0 (n + 1)).map .copy ++ [.write (b + 1 + p.k) [b + 1 + p.k], .write b [b, b + 1 + p.k]],
    res := ((List.range n).map (fun i => s!"{i}")).zip (regs (b + 1) n) }

/-- `mttkrp(U, n)` (ktensor.py:1276-1294): products of small matrices, then
`to_memory_order(self.factor_matrices[n] @ W, "F")`. -/
def ktensor_mttkrp (_ : Params) (ops : List View) : Built :=
  let b := ops.length
  { prog := [.fresh [] (List.range b), .asF b], res := [("arr", b + 1)] }

/-! ### Tucker tensor (operands: `c = p.k` core arrays – 1 dense, 2 sparse –, then `N = p.n`
factor matrices, then the arguments) -/

/-- `ttensor(core, factors)` with copying (ttensor.py:91-96) on registers: `core.copy()`
(`tensor.copy` / `sptensor.copy`), `to_memory_order(fm, "F", copy=True)` for every matrix. -/
def Acc.ttCtor (A : Acc) (c : Nat) (core facs : List Nat) (pre : String := "") (keep : Bool := true) : Acc :=
  let A1 := if c == 1 then A.call (tensor_copy {} (dflt 1)) core (pre ++ "core.") keep
            else A.call (sptensor_copy {} (dflt 2)) core (pre ++ "core.") keep
  if keep then A1.calls ((List.range facs.length).map (fun i => (tmoCopyB, [facs.getD i 0], pre ++ s!"f{i}")))
  else A1.calls ((List.range facs.length).map (fun i => (⟨tmoCopyB.prog, []⟩, [facs.getD i 0], "")))

/-- `copy()`, `__deepcopy__`, `__pos__` (ttensor.py:160). -/
def ttensor_copy (p : Params) (ops : List View) : Built :=
  ((Acc.init ops.length).ttCtor p.k (List.range p.k) (regs p.k p.n)).built

/-- parameters of `tensor.ttm` in mode `k` of an order-`N` tensor: `order = [k, 0 … k-1, k+1 …]`
and its inverse -/
def ttmP (N k : Nat) : Params :=
  { perm := k :: (List.range N).filter (· != k),
    dims := (List.range N).map (fun j => if j == k then 0 else if j < k then j + 1 else j) }

/-- `tensor.ttm(list of matrices)` (tensor.py:1643-1651) with a dense tensor in register `cur`:
one single-matrix `ttm` per mode (`fs` = (mode, matrix register) pairs), each on the result of
the previous one. -/
def Acc.ttmChain (N : Nat) (A : Acc) (cur : Nat) : List (Nat × Nat) → Acc × Nat
  | [] => (A, cur)
  | km :: rest => Acc.ttmChain N (A.call (tensor_ttm (ttmP N km.1) (dflt 2)) [cur, km.2] "" false) (A.free + 8) rest

/-- the same for a sparse tensor (`sptensor.ttm`, no step-level entry: new arrays per mode),
finally `to_tensor()` when the result is still sparse: one new array. -/
def Acc.spTtmChain (A : Acc) (s v : Nat) : List Nat → Acc × Nat
  | [] => ((A.call (freshB 2) [s, v] "" false), A.free)
  | m :: rest => Acc.spTtmChain (A.call (fresh2B 3 "subs" "vals") [s, v, m] "" false) A.free (A.free + 1) rest

/-- `self.core.ttm(self._real_factors())` then `to_tensor()` of a sparse result
(ttensor.py:237-242) with the core in `core`, the factor matrices in `facs`. -/
def Acc.ttFull (A : Acc) (c N : Nat) (core facs : List Nat) : Acc × Nat :=
  if c == 1 then Acc.ttmChain N A (core.getD 0 0) ((List.range N).zip facs)
  else Acc.spTtmChain A (core.getD 0 0) (core.getD 1 0) facs

/-- `full()`, `to_tensor()`, `reconstruct()` without arguments (ttensor.py:237-242, 591). -/
def ttensor_full (p : Params) (ops : List View) : Built :=
  let R := (Acc.init ops.length).ttFull p.k p.n (List.range p.k) (regs p.k p.n)
  (R.1.out "data" R.2).built

/-- `double()` (ttensor.py:251): `self.full().double()`. -/
def ttensor_double (p : Params) (ops : List View) : Built :=
  let R := (Acc.init ops.length).ttFull p.k p.n (List.range p.k) (regs p.k p.n)
  (R.1.call copyB [R.2] "arr").built

/-- position of `d` in `l` -/
def posOf (d : Nat) : List Nat → Option Nat
  | [] => none
  | x :: xs => if x == d then some 0 else (posOf d xs).map (· + 1)

/-- `ttm(matrices, dims, …)` (ttensor.py:562-569): `new_u = self._real_factors()` (the matrices
themselves), the multiplied modes `p.dims` get the new products `matrix @ new_u[dim]` (matrix
registers: `p.perm`, aligned with `p.dims`), then `ttensor(self.core, new_u)` with copying. -/
def ttensor_ttm (p : Params) (ops : List View) : Built :=
  let b := ops.length
  let c := p.k
  let A := (Acc.init b).raw (fun _ => (List.range p.dims.length).map
    (fun i => .fresh [] [p.perm.getD i 0, c + p.dims.getD i 0]))
  let facs := (List.range p.n).map (fun d => match posOf d p.dims with | some i => b + i | none => c + d)
  (A.ttCtor c (List.range c) facs).built

/-- the modes that remain after multiplying the modes `dims` of an order-`N` tensor -/
def remOf (N : Nat) (dims : List Nat) : List Nat := (List.range N).filter (fun d => !dims.contains d)

/-- parameters of `tensor.ttv` over the modes `dims` (`sc`: every mode, a scalar results) -/
def ttvP (N : Nat) (dims : List Nat) (sc : Bool) : Params :=
  { perm := remOf N dims ++ dims, flag := if sc then "scalar" else if dims.isEmpty then "none" else "" }

/-- `ttv(vectors, dims)` (ttensor.py:427-441): per multiplied mode (`p.dims`, vectors in registers
`p.perm`) `factors[dim].transpose().dot(vector)` (a view, then a new array); `self.core.ttv(W,
dims)` (dense core: `tensor.ttv`; sparse core: new arrays, flag "sp" when the new core is
sparse); flag "scalar": every mode multiplied; otherwise `ttensor(newcore, remaining factors)`
with copying. -/
def ttensor_ttv (p : Params) (ops : List View) : Built :=
  let b := ops.length
  let c := p.k
  let nd := p.dims.length
  let rem := remOf p.n p.dims
  let A := (Acc.init b).raw (fun f => (List.range nd).flatMap
    (fun i => [.tr (c + p.dims.getD i 0), .fresh [] [f + 2 * i, p.perm.getD i 0]]))
  let W := (List.range nd).map (fun i => b + 2 * i + 1)
  let f := b + 2 * nd
  if c == 1 then
    let A1 := A.call (tensor_ttv (ttvP p.n p.dims (p.flag == "scalar")) (dflt (1 + nd))) (0 :: W) "" false
    if p.flag == "scalar" then A1.built else (A1.ttCtor 1 [f + 5] (rem.map (c + ·))).built
  else if p.flag == "scalar" then (A.call (freshB (2 + nd)) (0 :: 1 :: W) "" false).built
  else if p.flag == "sp" then
    ((A.call (fresh2B (2 + nd) "subs" "vals") (0 :: 1 :: W) "" false).ttCtor 2 [f, f + 1] (rem.map (c + ·))).built
  else ((A.call (freshB (2 + nd)) (0 :: 1 :: W) "" false).ttCtor 1 [f] (rem.map (c + ·))).built

/-- `permute(order)` (ttensor.py:513-515): `self.core.permute(order)` (`tensor.permute` /
`sptensor.permute`), the factor matrices in the new order, then the copying constructor. -/
def ttensor_permute (p : Params) (ops : List View) : Built :=
  let b := ops.length
  let c := p.k
  if c == 1 then
    (((Acc.init b).call (tensor_permute { perm := p.perm, shape := [] } (dflt 1)) [0] "" false).ttCtor 1
      [if p.perm.isEmpty then b + 1 else b + 2] (p.perm.map (c + ·))).built
  else
    (((Acc.init b).call (sptensor_newsubs_copyvals {} (dflt 2)) [0, 1] "" false).ttCtor 2 [b + 1, b + 2]
      (p.perm.map (c + ·))).built

/-- `__neg__` (flag "neg": `ttensor(-self.core, factors)`), `__mul__` / `__rmul__` with a scalar
(`ttensor(self.core * other, factors)`) (ttensor.py:304, 368): the core operation – `tensor.__neg__`,
`tensor.__mul__` (element-wise), for a sparse core the receiver's subscripts with new values –
then the copying constructor. -/
def ttensor_scale (p : Params) (ops : List View) : Built :=
  let b := ops.length
  let c := p.k
  if c == 1 then
    if p.flag == "neg" then
      (((Acc.init b).call (tensor_neg {} (dflt 1)) [0] "" false).ttCtor 1 [b + 1] (regs c p.n)).built
    else
      (((Acc.init b).call (tensor_elementwise {} (dflt 1)) [0] "" false).ttCtor 1 [b + 2] (regs c p.n)).built
  else
    (((Acc.init b).call (sptensor_copysubs_newvals {} (dflt 2)) [0, 1] "" false).ttCtor 2 [b, b + 2] (regs c p.n)).built

/-- `reconstruct(samples, modes)` (ttensor.py:633-650): per mode (`p.dims[k]` = 0) the factor
matrix itself or (1) a new array computed from the sample (register `p.perm[k]`) and the matrix;
`ttensor(self.core, new_u)` copies everything, `.full()` multiplies the copies out. -/
def ttensor_reconstruct (p : Params) (ops : List View) : Built :=
  let b := ops.length
  let c := p.k
  let N := p.n
  let A := (Acc.init b).raw (fun _ => (List.range N).map (fun k =>
    if p.dims.getD k 0 == 0 then .alias (c + k) else .fresh [] [p.perm.getD k 0, c + k]))
  let A1 := A.ttCtor c (List.range c) (regs b N) "" false
  let f := b + N
  let coreC := if c == 1 then [f + 1] else [f, f + 1]
  let f1 := f + 2
  let R := A1.ttFull c N coreC ((List.range N).map (fun i => f1 + 4 * i + 3))
  (R.1.out "data" R.2).built

/-- `mttkrp(U, n)` (ttensor.py:462-473): `W[i] = factors[i].transpose().dot(U[i])` (new arrays),
`self.core.mttkrp(W, n)` (`tensor.mttkrp` for a dense core), `to_memory_order(factors[n].dot(Y),
"F")`. -/
def ttensor_mttkrp (p : Params) (ops : List View) : Built :=
  let b := ops.length
  let c := p.k
  let N := p.n
  let A := (Acc.init b).raw (fun _ => (List.range N).map (fun _ => .fresh [] (List.range b)))
  let A1 := if c == 1 then A.call (tensor_mttkrp {} (dflt (1 + N))) (0 :: regs b N) "" false
            else A.call (freshB (2 + N)) (0 :: 1 :: regs b N) "" false
  let Y := if c == 1 then b + N + 3 else b + N
  (A1.call (freshAsFB 2) [c + p.dims.getD 0 0, Y] "arr").built

/-! ### sum tensor (operands: the arrays of part 0, part 1, …; `p.kinds` = the kind of every
part – 0 dense, 1 sparse, 2 Kruskal, 3 Tucker with a dense core, 4 Tucker with a sparse core –,
`N = p.n` = the order) -/

def partSize (N : Nat) : Nat → Nat
  | 0 => 1
  | 1 => 2
  | 2 => N + 1
  | 3 => N + 1
  | _ => N + 2

def partTotal (N : Nat) : List Nat → Nat
  | [] => 0
  | k :: ks => partSize N k + partTotal N ks

/-- (callee, operand registers, name prefix) per part; `i` = index of the first part, `off` =
its first register -/
def sumCalls (N : Nat) (callee : Nat → Nat → Built) (extra : List Nat) (i off : Nat) :
    List Nat → List (Built × List Nat × String)
  | [] => []
  | k :: ks => (callee i k, regs off (partSize N k) ++ extra, s!"p{i}.") ::
      sumCalls N callee extra (i + 1) (off + partSize N k) ks

/-- `part.copy()` / `copy.deepcopy(part)` -/
def partCopy (N : Nat) : Nat → Built
  | 0 => tensor_copy {} (dflt 1)
  | 1 => sptensor_copy {} (dflt 2)
  | 2 => ktensor_copy { n := N } (dflt (N + 1))
  | 3 => ttensor_copy { k := 1, n := N } (dflt (N + 1))
  | _ => ttensor_copy { k := 2, n := N } (dflt (N + 2))

/-- `-part` -/
def partNeg (N : Nat) : Nat → Built
  | 0 => tensor_neg {} (dflt 1)
  | 1 => sptensor_copysubs_newvals {} (dflt 2)
  | 2 => ktensor_scale { n := N } (dflt (N + 1))
  | 3 => ttensor_scale { k := 1, n := N, flag := "neg" } (dflt (N + 1))
  | _ => ttensor_scale { k := 2, n := N, flag := "neg" } (dflt (N + 2))

/-- `part.full()` -/
def partFull (N : Nat) : Nat → Built
  | 0 => tensor_copy {} (dflt 1)
  | 1 => sptensor_full {} (dflt 2)
  | 2 => ktensor_full { n := N } (dflt (N + 1))
  | 3 => ttensor_full { k := 1, n := N } (dflt (N + 1))
  | _ => ttensor_full { k := 2, n := N } (dflt (N + 2))

/-- `sumtensor(parts, copy=True)` (sumtensor.py:59-61: `deepcopy(tensors)`, i.e. `copy()` of every
part), `copy()`, `__deepcopy__`, `__pos__`, `__add__` / `__radd__` (sumtensor.py:217-230: the
parts and the added tensors, all copied). -/
def sumtensor_copy (p : Params) (ops : List View) : Built :=
  ((Acc.init ops.length).calls (sumCalls p.n (fun _ => partCopy p.n) [] 0 0 p.kinds)).built

/-- `__neg__` (sumtensor.py:188): `sumtensor([-part for part in self.parts], copy=False)`. -/
def sumtensor_neg (p : Params) (ops : List View) : Built :=
  ((Acc.init ops.length).calls (sumCalls p.n (fun _ => partNeg p.n) [] 0 0 p.kinds)).built

/-- `result += part` in `full()` (sumtensor.py:288-289; a dense tensor has no in-place add):
`result = result + part` = `tenfun(add, part)`: a dense part is used as it is, any other is
converted with `to_tensor()` first; the sum is a new tensor. -/
def Acc.sumAdd (N : Nat) (A : Acc) (cur off : Nat) : List Nat → Acc × Nat
  | [] => (A, cur)
  | k :: ks =>
    if k == 0 then
      Acc.sumAdd N (A.call (tensor_elementwise {} (dflt 2)) [cur, off] "" false) (A.free + 2) (off + 1) ks
    else
      let B := partFull N k
      let A1 := A.call B (regs off (partSize N k)) "" false
      let Y := B.res0At (partSize N k) (regs off (partSize N k)) A.free
      Acc.sumAdd N (A1.call (tensor_elementwise {} (dflt 2)) [cur, Y] "" false) (A1.free + 2) (off + partSize N k) ks

/-- `full()` / `to_tensor()` (sumtensor.py:287-290). -/
def Acc.sumFull (N : Nat) (A : Acc) : List Nat → Acc × Nat
  | [] => (A, 0)
  | k :: ks =>
    let B := partFull N k
    let A1 := A.call B (regs 0 (partSize N k)) "" false
    Acc.sumAdd N A1 (B.res0At (partSize N k) (regs 0 (partSize N k)) A.free) (partSize N k) ks

def sumtensor_full (p : Params) (ops : List View) : Built :=
  let R := (Acc.init ops.length).sumFull p.n p.kinds
  (R.1.out "data" R.2).built

/-- `double()` (sumtensor.py:308): `self.full().double()`. -/
def sumtensor_double (p : Params) (ops : List View) : Built :=
  let R := (Acc.init ops.length).sumFull p.n p.kinds
  (R.1.call copyB [R.2] "arr").built

/-- `innerprod(other)` (sumtensor.py:332-335): one scalar per part, computed from the part and
`other` (the operands after the parts); nothing is returned but a float. -/
def sumtensor_innerprod (p : Params) (ops : List View) : Built :=
  let b := ops.length
  let t := partTotal p.n p.kinds
  ((Acc.init b).calls (sumCalls p.n (fun _ k => ⟨(freshB (partSize p.n k + (b - t))).prog, []⟩) (regs t (b - t)) 0 0 p.kinds)).built

/-- `part.mttkrp(U, n)`: `U` = the `m` operands after the parts -/
def partMttkrp (N m : Nat) : Nat → Built
  | 0 => tensor_mttkrp {} (dflt (1 + m))
  | 1 => freshB (2 + m)
  | 2 => freshAsFB (N + 1 + m)
  | 3 => freshAsFB (N + 1 + m)
  | _ => freshAsFB (N + 2 + m)

/-- `mttkrp(U, n)` (sumtensor.py:370-373): `result = parts[0].mttkrp(U, n)`, then
`result += part.mttkrp(U, n)` – an in-place add into the first (new) result. -/
def sumtensor_mttkrp (p : Params) (ops : List View) : Built :=
  let b := ops.length
  let t := partTotal p.n p.kinds
  let m := b - t
  let calls := sumCalls p.n (fun _ k => ⟨(partMttkrp p.n m k).prog, []⟩) (regs t m) 0 0 p.kinds
  match p.kinds with
  | [] => { prog := [], res := [] }
  | k0 :: ks =>
    let B0 := (partMttkrp p.n m k0).unnamed
    let A0 := (Acc.init b).call B0 (regs 0 (partSize p.n k0) ++ regs t m) "arr"
    let r0 := B0.res0At (partSize p.n k0 + m) (regs 0 (partSize p.n k0) ++ regs t m) b
    let A1 := A0.calls (calls.drop 1)
    (A1.raw (fun f => (List.range ks.length).map (fun _ => .write r0 (List.range f)))).built

/-- parameters of `ttensor.ttv` when the Tucker tensor (`c` core arrays, order `N`) and the vectors
are the operands of a callee -/
def ttvTP (c N : Nat) (dims : List Nat) (flag : String) : Params :=
  { k := c, n := N, dims := dims, perm := regs (N + c) dims.length, flag := flag }

/-- `part.ttv(vectors, dims)`; `dims` = the multiplied modes (sorted; the `nd` vectors are the
operands after the parts, aligned with `dims`), `sc` = every mode multiplied (a scalar), `sp` =
the result of a sparse part / the new core of a Tucker part with a sparse core is sparse -/
def partTtv (N : Nat) (dims : List Nat) (sc sp : Bool) : Nat → Built
  | 0 => tensor_ttv (ttvP N dims sc) (dflt (1 + dims.length))
  | 1 => if sc then ⟨(freshB (2 + dims.length)).prog, []⟩
         else if sp then fresh2B (2 + dims.length) "subs" "vals"
         else ⟨(freshB (2 + dims.length)).prog, [("data", 2 + dims.length)]⟩
  | 2 => ktensor_ttv { n := N, dims := remOf N dims, flag := if sc then "scalar" else "" } (dflt (N + 1 + dims.length))
  | 3 => ttensor_ttv (ttvTP 1 N dims (if sc then "scalar" else "")) (dflt (N + 1 + dims.length))
  | _ => ttensor_ttv (ttvTP 2 N dims (if sc then "scalar" else if sp then "sp" else "")) (dflt (N + 2 + dims.length))

/-- `ttv(vector, dims)` (sumtensor.py:436-447): `part.ttv(…)` of every part; the new parts are kept
without copying (`copy=False`); flag "scalar": every mode multiplied, the results are summed.
`p.dims` = multiplied modes, `p.perm[i]` = 1 when the result of part `i` is sparse. -/
def sumtensor_ttv (p : Params) (ops : List View) : Built :=
  let b := ops.length
  let t := partTotal p.n p.kinds
  ((Acc.init b).calls (sumCalls p.n (fun i => partTtv p.n p.dims (p.flag == "scalar") (p.perm.getD i 0 == 1))
    (regs t p.dims.length) 0 0 p.kinds)).built

/-! ### parameter corner cases: operations whose general case computes new arrays but which have a
branch that only hands on a copy of an operand -/

/-- `symmetrize(grps, version)` (tensor.py:1465-1580); operands: data (, grps).
Default version: `data = self.data.copy()` (NumPy's default C order); per group either `continue`
(every entry already equals its class exemplar) or `data = np.reshape(avg[linclassidx], shape,
order="F")` (fancy indexing: a new array); finally `tensor(to_memory_order(data, "F"), copy=False)`.
* flag "same": every group is already symmetric – that first copy is all that separates the result
  from the receiver;
* flag "": at least one group is averaged (the last averaging is what is wrapped);
* flag "v1": `Y = tensor(np.zeros(shape), copy=False)`, then `Y = Y + self.permute(…)` per
  permutation and `Y / total` (new tensors), then `Y.data[:] = np.maximum(…)`: a write into the
  result's own new array. -/
def tensor_symmetrize (p : Params) (ops : List View) : Built :=
  let b := ops.length
  if p.flag == "same" then
    { prog := copyC 0 b ++ [.asF (b + 2)] ++ tensorCtor (b + 3) (b + 4) p.shape false, res := [("data", b + 5)] }
  else if p.flag == "v1" then
    { prog := [.fresh p.shape (List.range b)] ++ tensorCtor b (b + 1) p.shape false ++ [.write (b + 2) [b + 2, 0]],
      res := [("data", b + 2)] }
  else
    { prog := copyC 0 b ++ [.fresh p.shape ((b + 2) :: List.range b), .reshapeF (b + 3) p.shape, .asF (b + 4)] ++
              tensorCtor (b + 5) (b + 6) p.shape false,
      res := [("data", b + 7)] }

/-- `ttsv(vector, skip_dim)` with the default version (tensor.py:1917-1950); operands: data, vector.
`y = self.data.copy()` (C order), one `reshape(…, "F")` + `dot` per multiplied mode (new arrays);
flag "none": `skip_dim` is the last mode, NOTHING is multiplied and `y` is still that copy.
`p.k` = number of modes of the result: 0 a Python float, 1 the vector `y`, 2
`np.reshape(y, [sz, sz], "F")` (a bare matrix), more `tensor(np.reshape(y, …, "F"), copy=False)`
(`p.shape`). -/
def tensor_ttsv (p : Params) (ops : List View) : Built :=
  let b := ops.length
  let y : Step := if p.flag == "none" then .alias (b + 2) else .fresh [] ((b + 2) :: List.range b)
  let pre : Prog := copyC 0 b ++ [y]
  if p.k == 0 then { prog := pre, res := [] }
  else if p.k == 1 then { prog := pre, res := [("arr", b + 3)] }
  else if p.k == 2 then { prog := pre ++ [.reshapeF (b + 3) p.shape], res := [("arr", b + 4)] }
  else { prog := pre ++ [.reshapeF (b + 3) p.shape] ++ tensorCtor (b + 4) (b + 5) p.shape false, res := [("data", b + 6)] }

/-- `khatrirao(*matrices, reverse)` (khatrirao.py:59-67); operands: the matrices.  `P = matrices[0]`;
a single matrix (`p.n == 1`): `P = P.copy()` (C order) – there is nothing to multiply; otherwise
per further matrix a broadcast product of two reshaped views (a new array); at the end
`np.reshape(P, (-1, ncol), order="F")` (`p.shape`). -/
def func_khatrirao (p : Params) (ops : List View) : Built :=
  let b := ops.length
  if p.n == 1 then { prog := copyC 0 b ++ [.reshapeF (b + 2) p.shape], res := [("arr", b + 3)] }
  else { prog := [.fresh [] (List.range b), .reshapeF b p.shape], res := [("arr", b + 1)] }

/-- enough operands for the case: the flagged cases of the constructors need none -/
def flagOr (flags : List String) (k : Nat) : Params → Nat → Bool :=
  fun p b => flags.contains p.flag || decide (k ≤ b)

/-! ### part 4 of the table (completed below) -/

/-- at least `k` operands plus the receiver's `p.n` factor matrices -/
def atLeastN (k : Nat) : Params → Nat → Bool := fun p b => decide (p.n + k ≤ b)

/-- the receiver of a Tucker operation: `p.k` core arrays (1 or 2) and `p.n` factor matrices;
`extra`: further conditions on the case -/
def ttPre (extra : Params → Nat → Bool := fun _ _ => true) : Params → Nat → Bool :=
  fun p b => (p.k == 1 || p.k == 2) && decide (p.k + p.n ≤ b) && extra p b

/-- all listed registers are operands -/
def regsBelow (l : Params → List Nat) : Params → Nat → Bool := fun p b => (l p).all (fun r => decide (r < b))

/-- the parts of a sum tensor (and `m` more operands) are there -/
def sumPre (m : Params → Nat := fun _ => 0) : Params → Nat → Bool :=
  fun p b => decide (partTotal p.n p.kinds + m p ≤ b)

def table2 : List Entry := [
  ⟨"any", "reads_only", pf, reads_only, noPre⟩,
  ⟨"tenmat", "__init__", noCopyIf [0], tenmat_init2, flagOr ["empty"] 1⟩,
  ⟨"tenmat", "copy", pf, tenmat_copy, noPre⟩,
  ⟨"tenmat", "ctranspose", pf, tenmat_ctranspose, noPre⟩,
  ⟨"tenmat", "double", pf, tenmat_double, noPre⟩,
  ⟨"tenmat", "arith", pf, tenmat_arith, noPre⟩,
  ⟨"tenmat", "matmul", pf, tenmat_matmul, noPre⟩,
  ⟨"sptenmat", "__init__", noCopyIf [0, 1], sptenmat_init2, flagOr ["none", "nosubs"] 2⟩,
  ⟨"sptenmat", "copy", pf, sptenmat_copy, noPre⟩,
  ⟨"sptenmat", "__neg__", pf, sptenmat_neg, noPre⟩,
  ⟨"sptenmat", "from_array", pf, sptenmat_from_array, noPre⟩,
  ⟨"sptenmat", "to_sptensor", pf, sptenmat_to_sptensor, noPre⟩,
  ⟨"sptenmat", "full", pf, sptenmat_full, noPre⟩,
  ⟨"tensor", "__neg__", pf, tensor_neg, noPre⟩,
  ⟨"ktensor", "extract", pf, ktensor_extract, atLeastN 1⟩,
  ⟨"ktensor", "scale", pf, ktensor_scale, atLeastN 1⟩,
  ⟨"ktensor", "addsub", pf, ktensor_addsub, atLeastN 1⟩,
  ⟨"ktensor", "double", pf, ktensor_double, atLeastN 1⟩,
  ⟨"ktensor", "to_tenmat", pf, ktensor_to_tenmat, atLeastN 1⟩,
  ⟨"ktensor", "tovec", pf, ktensor_tovec, noPre⟩,
  ⟨"ktensor", "mask", pf, ktensor_mask, atLeastN 2⟩,
  ⟨"ktensor", "tolist_mode", pf, ktensor_tolist_mode, fun p _ => decide (p.k < p.n)⟩,
  ⟨"ktensor", "mttkrp", pf, ktensor_mttkrp, noPre⟩,
  ⟨"ttensor", "copy", pf, ttensor_copy, ttPre⟩,
  ⟨"ttensor", "full", pf, ttensor_full, ttPre (fun p _ => decide (0 < p.n))⟩,
  ⟨"ttensor", "double", pf, ttensor_double, ttPre (fun p _ => decide (0 < p.n))⟩,
  ⟨"ttensor", "ttm", pf, ttensor_ttm, ttPre (regsBelow (·.perm))⟩,
  ⟨"ttensor", "ttv", pf, ttensor_ttv, ttPre (regsBelow (·.perm))⟩,
  ⟨"ttensor", "permute", pf, ttensor_permute, ttPre (regsBelow (fun p => p.perm.map (p.k + ·)))⟩,
  ⟨"ttensor", "scale", pf, ttensor_scale, ttPre⟩,
  ⟨"ttensor", "reconstruct", pf, ttensor_reconstruct, ttPre (fun p b => regsBelow (·.perm) p b && decide (0 < p.n))⟩,
  ⟨"ttensor", "mttkrp", pf, ttensor_mttkrp, ttPre (fun p _ => decide (p.dims.getD 0 0 < p.n))⟩,
  ⟨"sumtensor", "copy", pf, sumtensor_copy, sumPre⟩,
  ⟨"sumtensor", "__neg__", pf, sumtensor_neg, sumPre⟩,
  ⟨"sumtensor", "full", pf, sumtensor_full, fun p b => sumPre (fun _ => 0) p b && !p.kinds.isEmpty && decide (0 < p.n)⟩,
  ⟨"sumtensor", "double", pf, sumtensor_double, fun p b => sumPre (fun _ => 0) p b && !p.kinds.isEmpty && decide (0 < p.n)⟩,
  ⟨"sumtensor", "innerprod", pf, sumtensor_innerprod, sumPre⟩,
  ⟨"sumtensor", "mttkrp", pf, sumtensor_mttkrp, sumPre⟩,
  ⟨"sumtensor", "ttv", pf, sumtensor_ttv, sumPre (·.dims.length)⟩,
  ⟨"tensor", "symmetrize", pf, tensor_symmetrize, noPre⟩,
  ⟨"tensor", "ttsv", pf, tensor_ttsv, noPre⟩,
  ⟨"func", "khatrirao", pf, func_khatrirao, noPre⟩
]

/-- the whole table: part 3 and part 4 -/
def table : List Entry := table1 ++ table2

end Pyttb.Heap
