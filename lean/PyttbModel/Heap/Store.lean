/-
C05 heap model, part 1: buffers, views and the NumPy calls that matter for aliasing.

A store is a list of buffers (buffer id = position).  An ndarray is a *view*: buffer id,
offset, shape and strides (in elements).  NumPy calls are classified as
  * view   – `transpose`, `.T`, basic slicing, integer selection of one axis, `squeeze`,
             `[:, None]`, F-order `reshape` of F-contiguous data, `asfortranarray` /
             `to_memory_order(.., "F")` of F-contiguous data;
  * fresh  – `copy`, arithmetic, fancy indexing, `astype(copy=True)`, `np.zeros`, …;
  * write  – `a[...] = values`.
F-contiguity is *computed* from shape and strides with NumPy's own rule (extents of one are
skipped, an array without cells is contiguous), so "the identity permutation returns a view,
any order that moves a non-singleton mode copies" is a consequence (Lemmas/Heap.lean).
Import-free.
-/
import PyttbModel.Core.Perm
namespace Pyttb.Heap

/-- An ndarray: a window into buffer `buf`. Strides are in elements (non-negative: pyttb
never hands a negatively strided array to its callers). -/
structure View where
  buf : Nat
  off : Nat
  shape : List Nat
  strides : List Nat
  deriving Repr, BEq, DecidableEq, Inhabited

/-- Buffers by id. -/
abbrev Store (α : Type) := List (List α)

/-- Strides of a freshly allocated F-ordered array of shape `s`: `1, s₀, s₀s₁, …`. -/
def fStridesFrom (acc : Nat) : List Nat → List Nat
  | [] => []
  | d :: ds => acc :: fStridesFrom (acc * d) ds

def fStrides (s : List Nat) : List Nat := fStridesFrom 1 s

/-- Strides of a C-ordered array. -/
def cStrides (s : List Nat) : List Nat := (fStrides s.reverse).reverse

def dot : List Nat → List Nat → Nat
  | a :: as, b :: bs => a * b + dot as bs
  | _, _ => 0

namespace View

/-- Address (inside the buffer) of the element with subscript `i`. -/
def addr (v : View) (i : List Nat) : Nat := v.off + dot i v.strides

/-- Addresses of all elements, enumerated first subscript fastest. -/
def cells (v : View) : List Nat := (allSubs v.shape).map v.addr

def size (v : View) : Nat := numel v.shape

/-- NumPy's F-contiguity test: walk the axes from the first, skip extents of one, every
other axis must have the running stride. -/
def isFgo (sd : Nat) : List Nat → List Nat → Bool
  | d :: ds, t :: ts => if d == 1 then isFgo sd ds ts else (t == sd && isFgo (sd * d) ds ts)
  | _, _ => true

/-- `a.flags["F_CONTIGUOUS"]`. -/
def isF (v : View) : Bool := v.shape.contains 0 || isFgo 1 v.shape v.strides

/-- `a.flags["C_CONTIGUOUS"]`. -/
def isC (v : View) : Bool := v.shape.contains 0 || isFgo 1 v.shape.reverse v.strides.reverse

/-- Two arrays have an element in common (`np.shares_memory`). -/
def overlaps (v w : View) : Bool := v.buf == w.buf && v.cells.any (fun a => w.cells.contains a)

/-! ### view-producing calls -/

/-- `np.transpose(a, p)`, `.T`: a view with permuted shape and strides. -/
def transpose (v : View) (p : List Nat) : View :=
  { v with shape := gather v.shape p, strides := gather v.strides p }

/-- `a.T` (reverse the axes). -/
def T (v : View) : View := { v with shape := v.shape.reverse, strides := v.strides.reverse }

/-- `np.squeeze(a)`: drop the axes of extent one. -/
def squeeze (v : View) : View :=
  let keep := (v.shape.zip v.strides).filter (fun p => p.1 != 1)
  { v with shape := keep.map (·.1), strides := keep.map (·.2) }

/-- `a[..., lo:hi, ...]` on axis `ax` (step one, `hi` clipped to the extent). -/
def slice (v : View) (ax lo hi : Nat) : View :=
  let d := v.shape.getD ax 0
  let hi := min hi d
  let lo := min lo hi
  { v with off := v.off + lo * v.strides.getD ax 0, shape := v.shape.set ax (hi - lo) }

/-- `a[..., i, ...]`: integer on axis `ax`, the axis disappears. -/
def select (v : View) (ax i : Nat) : View :=
  { v with off := v.off + i * v.strides.getD ax 0,
           shape := v.shape.eraseIdx ax, strides := v.strides.eraseIdx ax }

/-- `a[..., None, ...]`: a new axis of extent one at position `ax`. -/
def newaxis (v : View) (ax : Nat) : View :=
  { v with shape := (v.shape.take ax) ++ 1 :: v.shape.drop ax,
           strides := (v.strides.take ax) ++ 0 :: v.strides.drop ax }

/-- The F-contiguous array of shape `s` that starts where `v` starts (what an F-order
reshape of F-contiguous data returns). -/
def reF (v : View) (s : List Nat) : View := { v with shape := s, strides := fStrides s }

end View

/-! ### the store -/

variable {α : Type}

def cell (st : Store α) (b a : Nat) : Option α := (st[b]?).bind (·[a]?)

/-- The elements of an array, first subscript fastest (`a.flatten("F")`); `none` marks an
address outside the buffer (never for a view built by the calls below). -/
def read (st : Store α) (v : View) : List (Option α) := v.cells.map (cell st v.buf)

/-- A new buffer with contents `c`; its id is the old number of buffers. -/
def alloc (st : Store α) (c : List α) : Store α × Nat := (st ++ [c], st.length)

/-- Overwrite one cell. -/
def writeCell (st : Store α) (b a : Nat) (x : α) : Store α :=
  match st[b]? with
  | some buf => st.set b (buf.set a x)
  | none => st

/-- `a[...] = x` for every element of the view. -/
def writeAll (st : Store α) (v : View) (x : α) : Store α :=
  v.cells.foldl (fun s a => writeCell s v.buf a x) st

/-- `a.copy(order="F")`, `np.array(a)`, `a.astype(.., copy=True)`: a fresh F-ordered array
with the same elements. -/
def copyF (d : α) (st : Store α) (v : View) : Store α × View :=
  let (st', b) := alloc st ((read st v).map (·.getD d))
  (st', ⟨b, 0, v.shape, fStrides v.shape⟩)

/-- Result of arithmetic, fancy indexing, `np.zeros`, `np.vstack`, … : a fresh F-ordered
array (its contents do not matter for aliasing; `d` everywhere). -/
def freshF (d : α) (st : Store α) (s : List Nat) : Store α × View :=
  let (st', b) := alloc st (List.replicate (numel s) d)
  (st', ⟨b, 0, s, fStrides s⟩)

/-- `np.asfortranarray(a)` / `to_memory_order(a, "F")`: the array itself when it is
F-contiguous, a copy otherwise. -/
def asF (d : α) (st : Store α) (v : View) : Store α × View :=
  if v.isF then (st, v) else copyF d st v

/-- `np.reshape(a, s, order="F")`.  Same shape: the array itself.  F-contiguous data: a
view.  Otherwise modelled as a copy: NumPy may still return a (non-contiguous) view for
some splittings of non-contiguous data, but such a view is never F-contiguous, and every
use in pyttb is followed by `asfortranarray` or `copy`, which copies it (lemma
`asF_reshapeF_fresh`). -/
def reshapeF (d : α) (st : Store α) (v : View) (s : List Nat) : Store α × View :=
  if s == v.shape then (st, v)
  else if v.isF then (st, v.reF s)
  else
    let (st', w) := copyF d st v
    (st', w.reF s)

end Pyttb.Heap
