/-
C05 heap model, part 2: operations as short programs over the NumPy calls of Store.lean,
executed in store-passing style.

The operand arrays of an operation are the initial registers; every step appends one
register (except `write`, which changes a buffer).  Executing a program on a store gives the
new store, the registers and the list of views that were written through – from which the
mutation flags of the operands and the sharing matrix result × operand are computed exactly
(`Outcome`).  Independently of any store, `roots` classifies every register as *fresh* or
*possibly inside operand k*; the checks `pure`, `freshResults`, `writesWithin` are decided on
the program text alone, and Lemmas/Heap.lean proves that they imply the semantic statements
for every store, every shape and every stride pattern.  Import-free.
-/
import PyttbModel.Heap.Store
namespace Pyttb.Heap

/-- One NumPy-level step.  `r` = register holding the source array. -/
inductive Step where
  | transpose (r : Nat) (p : List Nat)     -- np.transpose / .T with explicit order (view)
  | tr (r : Nat)                           -- `.T`, `.transpose()` (view)
  | reshapeF (r : Nat) (s : List Nat)      -- F-order reshape (view iff same shape or F-contiguous)
  | asF (r : Nat)                          -- asfortranarray / to_memory_order(.., "F")
  | copy (r : Nat)                         -- .copy(), np.array(x), astype(copy=True)
  | squeeze (r : Nat)                      -- np.squeeze (view)
  | slice (r ax lo hi : Nat)               -- basic slice of one axis (view)
  | select (r ax i : Nat)                  -- integer index on one axis (view)
  | newaxis (r ax : Nat)                   -- x[:, None] (view)
  | alias (r : Nat)                        -- the same array object again (plain rebinding / return)
  | fresh (s : List Nat) (reads : List Nat) -- arithmetic, fancy indexing, zeros, vstack, matmul … of `reads`
  | write (r : Nat) (reads : List Nat)     -- in-place write through register r with values from `reads`
  deriving Repr, DecidableEq, Inhabited

abbrev Prog := List Step

def Step.isWrite : Step → Bool
  | .write _ _ => true
  | _ => false

/-- number of registers a program defines (every step but `write` defines one) -/
def ndefs (p : Prog) : Nat := p.countP (fun s => !s.isWrite)

/-- Where a register's storage can be: a buffer allocated by the program, the buffer of
operand `k` (or a fresh one: `asF`/`reshapeF` decide at run time), or unknown. -/
inductive Root where
  | fresh
  | op (k : Nat)
  | any
  deriving Repr, DecidableEq, Inhabited

variable {α : Type}

structure State (α : Type) where
  st : Store α
  regs : List View
  wlog : List View        -- views written through, most recent first
  deriving Inhabited

def State.reg (S : State α) (r : Nat) : View := S.regs.getD r default

def State.push (S : State α) (st : Store α) (v : View) : State α :=
  { S with st := st, regs := S.regs ++ [v] }

/-- Execute one step.  `d` is the value put into computed / written cells (values are
irrelevant to aliasing). -/
def step (d : α) (S : State α) : Step → State α
  | .transpose r p => S.push S.st ((S.reg r).transpose p)
  | .tr r => S.push S.st (S.reg r).T
  | .reshapeF r s => let (st, v) := reshapeF d S.st (S.reg r) s; S.push st v
  | .asF r => let (st, v) := asF d S.st (S.reg r); S.push st v
  | .copy r => let (st, v) := copyF d S.st (S.reg r); S.push st v
  | .squeeze r => S.push S.st (S.reg r).squeeze
  | .slice r ax lo hi => S.push S.st ((S.reg r).slice ax lo hi)
  | .select r ax i => S.push S.st ((S.reg r).select ax i)
  | .newaxis r ax => S.push S.st ((S.reg r).newaxis ax)
  | .alias r => S.push S.st (S.reg r)
  | .fresh s _ => let (st, v) := freshF d S.st s; S.push st v
  | .write r _ => { S with st := writeAll S.st (S.reg r) d, wlog := S.reg r :: S.wlog }

def exec (d : α) (st : Store α) (operands : List View) (p : Prog) : State α :=
  p.foldl (step d) ⟨st, operands, []⟩

/-! ### the static classification -/

def rootStep (roots : List Root) : Step → List Root
  | .transpose r _ | .tr r | .reshapeF r _ | .asF r | .squeeze r | .slice r _ _ _
  | .select r _ _ | .newaxis r _ | .alias r => roots ++ [roots.getD r .any]
  | .copy _ | .fresh _ _ => roots ++ [.fresh]
  | .write _ _ => roots

def initRoots (n : Nat) : List Root := (List.range n).map .op

/-- One step of the static analysis: the roots of the registers and, separately, the roots
of the registers written through so far. -/
def staticStep (acc : List Root × List Root) (s : Step) : List Root × List Root :=
  (rootStep acc.1 s,
   match s with
   | .write r _ => acc.2 ++ [acc.1.getD r .any]
   | _ => acc.2)

def static (nOps : Nat) (p : Prog) : List Root × List Root :=
  p.foldl staticStep (initRoots nOps, [])

/-- Roots of all registers after the program (operands first). -/
def roots (nOps : Nat) (p : Prog) : List Root := (static nOps p).1

/-- Roots of the registers written through. -/
def writeRoots (nOps : Nat) (p : Prog) : List Root := (static nOps p).2

/-- No operand can be written: every write goes to an array the program allocated itself. -/
def pureProg (nOps : Nat) (p : Prog) : Bool := (writeRoots nOps p).all (· == .fresh)

/-- Writes go only to fresh arrays or into the operands listed in `recv`. -/
def writesWithin (nOps : Nat) (recv : List Nat) (p : Prog) : Bool :=
  (writeRoots nOps p).all fun
    | .fresh => true
    | .op k => recv.contains k
    | .any => false

/-- The listed result registers are all arrays the program allocated itself. -/
def freshResults (nOps : Nat) (p : Prog) (res : List Nat) : Bool :=
  res.all (fun r => (roots nOps p).getD r .any == .fresh)

/-- The listed result registers are fresh or inside one of the operands in `allowed`. -/
def resultsWithin (nOps : Nat) (allowed : List Nat) (p : Prog) (res : List Nat) : Bool :=
  res.all fun r =>
    match (roots nOps p).getD r .any with
    | .fresh => true
    | .op k => allowed.contains k
    | .any => false

/-- Every register a step mentions exists when the step runs (table sanity; checked by the
driver, not needed by the theorems: an unknown register is classified `any`). -/
def wfProg (nOps : Nat) (p : Prog) : Bool :=
  (p.foldl (fun (acc : Nat × Bool) s =>
      let ok (r : Nat) := decide (r < acc.1)
      match s with
      | .transpose r _ | .tr r | .reshapeF r _ | .asF r | .squeeze r | .slice r _ _ _
      | .select r _ _ | .newaxis r _ | .alias r | .copy r => (acc.1 + 1, acc.2 && ok r)
      | .fresh _ rs => (acc.1 + 1, acc.2 && rs.all ok)
      | .write r rs => (acc.1, acc.2 && ok r && rs.all ok)) (nOps, true)).2

/-! ### the observable outcome -/

structure Outcome where
  /-- operand positions with at least one cell written -/
  mutated : List Nat
  /-- (position in the result list, operand position) pairs that have a cell in common -/
  share : List (Nat × Nat)
  deriving Repr, DecidableEq

def outcome (d : α) (st : Store α) (operands : List View) (p : Prog) (res : List Nat) : Outcome :=
  let S := exec d st operands p
  let nOps := operands.length
  let ops := (List.range nOps).map fun k => (k, operands.getD k default)
  { mutated := (ops.filter fun o => S.wlog.any (·.overlaps o.2)).map (·.1),
    share := ((List.range res.length).flatMap fun j =>
      ops.filterMap fun o =>
        if (S.reg (res.getD j 0)).overlaps o.2 then some (j, o.1) else none) }

/-- One buffer per operand, just large enough for its cells (the harness describes every
operand array by shape and strides; distinct operand arrays live in distinct buffers). -/
def bufferFor (d : α) (v : View) : List α := List.replicate (v.cells.foldl max 0 + 1) d

end Pyttb.Heap
