/-
C05 heap model, part 3: the table of operations.

For every (class, method, parameter case) that the harness sweeps, the sequence of NumPy-level
steps the pyttb code performs on the arrays that matter for aliasing, written down from the
source (line references are to /repo/pyttb at the time of writing).  Operand registers:
first the receiver's arrays in the order
  tensor: data | sptensor: subs vals | ktensor: weights f0 … | ttensor: core.* f0 … |
  sumtensor: the arrays of part 0, part 1, … | tenmat: data rindices cindices |
  sptenmat: subs vals rdims cdims
then the arrays of the positional arguments in order, then those of keyword arguments.
`b` below is always the number of operands = first free register.

`Spec` says what the property allows for the entry; `Entry.check` decides it on the program
text; Lemmas/HeapTable.lean proves the checks for all parameters, Lemmas/Heap.lean turns a
passed check into the semantic statement.  Import-free.
-/
import PyttbModel.Heap.Prog
namespace Pyttb.Heap

/-- Parameters of a case (whatever the step sequence depends on). -/
structure Params where
  perm : List Nat := []        -- permutation / transposition order
  shape : List Nat := []       -- target shape
  copy : Bool := true          -- the `copy=` argument
  n : Nat := 0                 -- number of factor matrices / parts of the receiver
  m : Nat := 0                 -- number of arrays of the first argument (e.g. another ktensor: 1+n)
  k : Nat := 0                 -- a mode / position
  dims : List Nat := []        -- a list of modes (e.g. the modes that remain)
  flag : String := ""          -- sub-case selector (documented per entry)
  kinds : List Nat := []       -- kinds of the parts of a sum tensor, in order (`Heap/Table2.lean`)
  deriving Repr, Inhabited

/-- What the property permits. -/
inductive Spec where
  /-- operands untouched, result independent of every operand -/
  | pureFresh
  /-- documented no-copy: operands untouched, result may live in the listed operands -/
  | noCopy (allowed : List Nat)
  /-- documented in-place: only the listed (receiver) operands may be written; the receiver
  afterwards may keep its own arrays but must not reference any other operand -/
  | inPlace (recv : List Nat)
  /-- behaviour that violates the property and is recorded as a known finding:
  result aliases the listed operands (operands still untouched) -/
  | knownAlias (allowed : List Nat)
  deriving Repr, DecidableEq

structure Built where
  prog : Prog
  res : List (String × Nat)     -- result arrays: harness path name, register
  deriving Repr, Inhabited

def specCheck (spec : Spec) (nOps : Nat) (B : Built) : Bool :=
  let res := B.res.map (·.2)
  match spec with
  | .pureFresh => pureProg nOps B.prog && freshResults nOps B.prog res
  | .noCopy allowed => pureProg nOps B.prog && resultsWithin nOps allowed B.prog res
  | .inPlace recv => writesWithin nOps recv B.prog && resultsWithin nOps recv B.prog res
  | .knownAlias allowed => pureProg nOps B.prog && resultsWithin nOps allowed B.prog res

/-! ### building blocks -/

/-- `ttb.tensor(x, shape, copy)` (tensor.py:183-197): F-reshape to `s` when there is data and a
shape, then `data.copy("F")` or `to_memory_order(data, "F")`.  Source register `r`, first free
register `b`; the result is register `b+1`. -/
def tensorCtor (r b : Nat) (s : List Nat) (copy : Bool) : Prog :=
  [.reshapeF r s, if copy then .copy b else .asF b]

/-- `(List.range n).map (· + off)` -/
def regs (off n : Nat) : List Nat := (List.range n).map (· + off)

def names (pre : String) (n : Nat) : List String := (List.range n).map (fun i => s!"{pre}{i}")

/-- generic entry: the result is computed from the operands into new arrays -/
def computed (b : Nat) (resNames : List String) : Built :=
  let resNames := resNames.filter (· != "")
  { prog := resNames.map (fun _ => Step.fresh [] (List.range b)),
    res := resNames.zip (regs b resNames.length) }

/-! ### dense tensor -/

/-- `tensor(data, shape, copy)`; operands: data.  `p.shape` = the tensor's shape. -/
def tensor_init (p : Params) (ops : List View) : Built :=
  let b := ops.length
  if (ops.getD 0 default).size == 0 || p.shape.isEmpty then
    -- no reshape for empty data / empty shape
    { prog := [if p.copy then .copy 0 else .asF 0], res := [("data", b)] }
  else
    { prog := tensorCtor 0 b p.shape p.copy, res := [("data", b + 1)] }

/-- `copy()`, `__deepcopy__`, `__pos__`, `full()`: `tensor(self.data, self.shape, copy=True)`. -/
def tensor_copy (p : Params) (ops : List View) : Built :=
  let b := ops.length
  { prog := tensorCtor 0 b p.shape true, res := [("data", b + 1)] }

/-- `double()`: `astype(float64, order, copy=True)`; result is a bare ndarray. -/
def tensor_double (_ : Params) (ops : List View) : Built :=
  { prog := [.copy 0], res := [("arr", ops.length)] }

/-- `permute(order)` (tensor.py:1257-1269), repaired: `tensor(np.transpose(data, order),
copy=True)`.  operands: data (, order).  `p.perm` = order, `p.shape` = permuted shape. -/
def tensor_permute (p : Params) (ops : List View) : Built :=
  let b := ops.length
  if p.perm.isEmpty then { prog := tensorCtor 0 b p.shape true, res := [("data", b + 1)] }
  else { prog := .transpose 0 p.perm :: tensorCtor b (b + 1) p.shape true, res := [("data", b + 2)] }

/-- pinned `permute`: `tensor(to_memory_order(np.transpose(data, order), "F"), copy=False)`. -/
def tensor_permute_pinned (p : Params) (ops : List View) : Built :=
  let b := ops.length
  if p.perm.isEmpty then { prog := tensorCtor 0 b p.shape true, res := [("data", b + 1)] }
  else { prog := [.transpose 0 p.perm, .asF b] ++ tensorCtor (b + 1) (b + 2) p.shape false,
         res := [("data", b + 3)] }

/-- `reshape(shape)` (tensor.py:1289-1293), repaired: `tensor(data.reshape(s, "F"), s, copy=True)`. -/
def tensor_reshape (p : Params) (ops : List View) : Built :=
  let b := ops.length
  { prog := .reshapeF 0 p.shape :: tensorCtor b (b + 1) p.shape true, res := [("data", b + 2)] }

def tensor_reshape_pinned (p : Params) (ops : List View) : Built :=
  let b := ops.length
  { prog := .reshapeF 0 p.shape :: tensorCtor b (b + 1) p.shape false, res := [("data", b + 2)] }

/-- `squeeze()` (tensor.py:1373-1382).  flag "none": no singleton mode → `copy()`;
"scalar": all singleton → a Python float; otherwise `tensor(np.squeeze(data))`. -/
def tensor_squeeze (p : Params) (ops : List View) : Built :=
  let b := ops.length
  if p.flag == "scalar" then { prog := [], res := [] }
  else if p.flag == "none" then { prog := tensorCtor 0 b p.shape true, res := [("data", b + 1)] }
  else { prog := .squeeze 0 :: tensorCtor b (b + 1) p.shape true, res := [("data", b + 2)] }

/-- `find()`: nonzero of the ravel, `tt_ind2sub`, fancy read. -/
def tensor_find (_ : Params) (ops : List View) : Built :=
  let b := ops.length
  { prog := [.reshapeF 0 [], .fresh [] [b], .fresh [] [b + 1], .fresh [] [0, b + 2], .newaxis (b + 3) 1],
    res := [("0", b + 2), ("1", b + 4)] }

/-- `to_sptensor()`: `find()` then `sptensor(subs, vals, shape, copy=False)`. -/
def tensor_to_sptensor (_ : Params) (ops : List View) : Built :=
  let b := ops.length
  { prog := [.reshapeF 0 [], .fresh [] [b], .fresh [] [b + 1], .fresh [] [0, b + 2], .newaxis (b + 3) 1,
             .alias (b + 2), .alias (b + 4)],
    res := [("subs", b + 5), ("vals", b + 6)] }

/-- `to_tenmat(rdims, cdims, cdims_cyclic, copy)` (tensor.py:687-720), with the repaired
`permute`: transpose + copy, F-reshape to (rprod, cprod), then the tenmat constructor
(`to_memory_order(data, "F", copy=copy)`; `rdims.copy()`, `cdims.copy()` of the fresh
`astype(int)` arrays).  `p.perm` = hstack(rdims, cdims), `p.shape` = [rprod, cprod],
`p.dims` = permuted shape. -/
def tensor_to_tenmat (p : Params) (ops : List View) : Built :=
  let b := ops.length
  { prog := [.transpose 0 p.perm] ++ tensorCtor b (b + 1) p.dims true ++
            [.reshapeF (b + 2) p.shape, if p.copy then .copy (b + 3) else .asF (b + 3),
             .asF (b + 4), .fresh [] (List.range b), .fresh [] (List.range b)],
    res := [("data", b + 5), ("rindices", b + 6), ("cindices", b + 7)] }

/-- the same with the pinned `permute`. -/
def tensor_to_tenmat_pinned (p : Params) (ops : List View) : Built :=
  let b := ops.length
  { prog := [.transpose 0 p.perm, .asF b] ++ tensorCtor (b + 1) (b + 2) p.dims false ++
            [.reshapeF (b + 3) p.shape, if p.copy then .copy (b + 4) else .asF (b + 4),
             .asF (b + 5), .fresh [] (List.range b), .fresh [] (List.range b)],
    res := [("data", b + 6), ("rindices", b + 7), ("cindices", b + 8)] }

/-- `__setitem__` (tensor.py:2088-2196); operands: data, then the arrays of key and value.
flags: "linear" – `tt_ind2sub(key)` then fancy write into data (repaired `tt_ind2sub` does not
touch key); "subs" / "subtensor" – write into data;
"grow" – a larger zero array is allocated, the old data written into it, then the value;
the receiver's `data` is rebound to it. -/
def tensor_setitem (p : Params) (ops : List View) : Built :=
  let b := ops.length
  let others := (List.range b).drop 1
  if p.flag == "grow" then
    { prog := [.fresh [] [], .write b [0], .write b others], res := [("data", b)] }
  else if p.flag == "linear" then
    { prog := [.fresh [] [1], .fresh [] [b], .write 0 others, .alias 0], res := [("data", b + 2)] }
  else
    { prog := [.write 0 others, .alias 0], res := [("data", b)] }

/-- pinned linear assignment with a negative entry in the index array: the pinned `tt_ind2sub`
first rewrites the caller's key (operand 1) in place. -/
def tensor_setitem_pinned (_ : Params) (ops : List View) : Built :=
  let b := ops.length
  { prog := [.write 1 [1], .fresh [] [1], .write 0 ((List.range b).drop 1), .alias 0], res := [("data", b + 1)] }

/-- element-wise operators, comparisons and logical operations (`tenfun` / `tenfun_binary`,
tensor.py:1983-2001, 2344-2743): `f(self.data, other.data)` is a new array, wrapped by the
no-copy constructor (a copy only if the function returned a non-F-ordered array). -/
def tensor_elementwise (p : Params) (ops : List View) : Built :=
  let b := ops.length
  { prog := .fresh p.shape (List.range b) :: tensorCtor b (b + 1) p.shape false, res := [("data", b + 2)] }

/-- `ttv` (tensor.py:1784-1805): `c = self.data.copy()`, transposed so that the multiplied modes
come last (`p.perm`), then per mode an F-reshape to a matrix and a `dot` (new array); the
last product is wrapped without copying.  flag "scalar": every mode multiplied out.
flag "none": NO mode is multiplied (`dims=[]`, or `exclude_dims` = every mode): the loop body never
runs, so the only thing between the receiver's data and the no-copy constructor is that first
`self.data.copy()` (NumPy's default C order: the idiom `T ∘ copy("F") ∘ T`) and the transposition
by the identity (`p.perm`), a view.  Same number of registers as the general case (the composite
entries `ttensor.ttv` / `sumtensor.ttv` find the result in register `b + 5` either way). -/
def tensor_ttv (p : Params) (ops : List View) : Built :=
  let b := ops.length
  if p.flag == "scalar" then
    { prog := [.copy 0, .transpose b p.perm, .reshapeF (b + 1) p.dims, .fresh [] (List.range b)], res := [] }
  else if p.flag == "none" then
    { prog := [.tr 0, .copy b, .tr (b + 1), .transpose (b + 2) p.perm] ++ tensorCtor (b + 3) (b + 4) p.shape false,
      res := [("data", b + 5)] }
  else
    { prog := [.copy 0, .transpose b p.perm, .reshapeF (b + 1) p.dims, .fresh p.shape (List.range b)] ++
              tensorCtor (b + 3) (b + 4) p.shape false,
      res := [("data", b + 5)] }

/-- `ttm` with one matrix (tensor.py:1607-1628): `self.permute(order).data` (transpose + copying
constructor), F-reshape to a matrix, matrix product (new array), F-reshape, transpose back
(`p.dims` = argsort(order)), copying constructor. `p.perm` = order. -/
def tensor_ttm (p : Params) (ops : List View) : Built :=
  let b := ops.length
  { prog := [.transpose 0 p.perm] ++ tensorCtor b (b + 1) [] true ++
            [.reshapeF (b + 2) [], .fresh [] (List.range b), .reshapeF (b + 4) [], .transpose (b + 5) p.dims] ++
            tensorCtor (b + 6) (b + 7) p.shape true,
    res := [("data", b + 8)] }

/-- `mttkrp` (tensor.py:1040-1077): the data is viewed as a matrix (F-reshape of F-contiguous
data), multiplied with a Khatri-Rao product (new arrays), result passed through
`to_memory_order`. -/
def tensor_mttkrp (_ : Params) (ops : List View) : Built :=
  let b := ops.length
  { prog := [.fresh [] ((List.range b).drop 1), .reshapeF 0 [], .fresh [] [b, b + 1], .asF (b + 2)],
    res := [("arr", b + 3)] }

/-! ### sparse tensor -/

/-- `sptensor(subs, vals, shape, copy)` (sptensor.py:131-175).  operands: subs, vals.
Empty `subs` / `vals` are replaced by fresh empty arrays. -/
def sptensor_init (p : Params) (ops : List View) : Built :=
  let b := ops.length
  let s0 := (ops.getD 0 default).size == 0
  let v0 := (ops.getD 1 default).size == 0
  { prog := [if s0 then .fresh [] [] else if p.copy then .copy 0 else .alias 0,
             if v0 then .fresh [] [] else if p.copy then .copy 1 else .alias 1],
    res := [("subs", b), ("vals", b + 1)] }

/-- `copy()`, `__deepcopy__`, `__pos__`. -/
def sptensor_copy (_ : Params) (ops : List View) : Built :=
  let b := ops.length
  { prog := [.copy 0, .copy 1], res := [("subs", b), ("vals", b + 1)] }

/-- `find()` (sptensor.py:694): returns `self.subs, self.vals` themselves. -/
def sptensor_find (_ : Params) (ops : List View) : Built :=
  let b := ops.length
  { prog := [.alias 0, .alias 1], res := [("0", b), ("1", b + 1)] }

/-- new subscripts computed (fancy indexing / `tt_ind2sub`), values passed through the copying
constructor: `permute`, `reshape`, `squeeze` (with a singleton), `ones`, `scale`, `__neg__`,
scalar `__mul__`, … -/
def sptensor_newsubs_copyvals (_ : Params) (ops : List View) : Built :=
  let b := ops.length
  { prog := [.fresh [] [0], .copy b, .copy 1], res := [("subs", b + 1), ("vals", b + 2)] }

/-- the receiver's subscripts with newly computed values through the copying constructor:
`ones`, `__neg__`, scalar `__mul__` / `__truediv__`, `scale`, `__mul__` / `__truediv__` with a
dense or Kruskal operand: `sptensor(self.subs, newvals, self.shape)`. -/
def sptensor_copysubs_newvals (_ : Params) (ops : List View) : Built :=
  let b := ops.length
  { prog := [.copy 0, .fresh [] ((List.range b).drop 1), .copy (b + 1)], res := [("subs", b), ("vals", b + 2)] }

/-- `spmatrix()` (sptensor.py:1764), repaired with `copy=True`: the coo data is a copy of
`vals.transpose()[0]`; row/col are converted index arrays. -/
def sptensor_spmatrix (_ : Params) (ops : List View) : Built :=
  let b := ops.length
  { prog := [.tr 1, .select b 0 0, .copy (b + 1), .tr 0, .fresh [] [b + 3], .fresh [] [b + 3]],
    res := [("data", b + 2), ("row", b + 4), ("col", b + 5)] }

/-- pinned: `coo_matrix((vals.transpose()[0], subs.transpose()), shape)` keeps the view. -/
def sptensor_spmatrix_pinned (_ : Params) (ops : List View) : Built :=
  let b := ops.length
  { prog := [.tr 1, .select b 0 0, .tr 0, .fresh [] [b + 2], .fresh [] [b + 2]],
    res := [("data", b + 1), ("row", b + 3), ("col", b + 4)] }

/-- `full()` / `to_tensor()` (sptensor.py:720-735): zeros, linear indices, dense linear write
into the new array. -/
def sptensor_full (_ : Params) (ops : List View) : Built :=
  let b := ops.length
  { prog := [.fresh [] [], .fresh [] [0], .tr 1, .select (b + 2) 0 0, .write b [b + 1, b + 3]],
    res := [("data", b)] }

/-- `__setitem__` (sptensor.py:2278-2587); operands: subs, vals, then key / value arrays.
flags: "change" – existing entries overwritten in place (`self.vals[..] = ..`), nothing rebound;
"rebuild" – subs and vals rebound to newly stacked / filtered arrays (after a possible
in-place change); "sp_value_empty_recv" (repaired) – receiver keeps nothing, takes the
renumbered subscripts and a copy of `value.vals` (`p.k` = register of value.vals). -/
def sptensor_setitem (p : Params) (ops : List View) : Built :=
  let b := ops.length
  let others := (List.range b).drop 2
  if p.flag == "change" then
    { prog := [.write 1 others, .alias 0, .alias 1], res := [("subs", b), ("vals", b + 1)] }
  else if p.flag == "sp_value_empty_recv" then
    { prog := [.fresh [] others, .copy p.k], res := [("subs", b), ("vals", b + 1)] }
  else
    { prog := [.write 1 others, .fresh [] (List.range b), .fresh [] (List.range b)],
      res := [("subs", b), ("vals", b + 1)] }

/-- pinned: a receiver that keeps nothing takes `value.vals` itself (register `p.k`). -/
def sptensor_setitem_pinned (p : Params) (ops : List View) : Built :=
  let b := ops.length
  { prog := [.fresh [] ((List.range b).drop 2), .alias p.k], res := [("subs", b), ("vals", b + 1)] }

/-! ### Kruskal tensor -/

/-- `ktensor(factor_matrices, weights, copy)` (ktensor.py:145-214).  operands: the `p.n` factor
matrices, then (flag "w") the weights.  copy: `weights.copy("F")`, `fm.copy("F")`.  no copy:
`to_memory_order(weights)`; the factor list is kept when *all* matrices are F-contiguous,
otherwise *all* are copied. -/
def ktensor_init (p : Params) (ops : List View) : Built :=
  let b := ops.length
  let n := p.n
  let wstep : Step := if p.flag == "w" then (if p.copy then .copy n else .asF n) else .fresh [] []
  let allF := (List.range n).all fun i => (ops.getD i default).isF
  let fstep (i : Nat) : Step := if p.copy || !allF then .copy i else .alias i
  { prog := wstep :: (List.range n).map fstep,
    res := ("weights", b) :: (names "f" n).zip (regs (b + 1) n) }

/-- `copy()`: `ktensor(self.factor_matrices, self.weights, copy=True)`. operands: weights f0 …. -/
def ktensor_copy (p : Params) (ops : List View) : Built :=
  let b := ops.length
  { prog := (regs 0 (p.n + 1)).map .copy,
    res := ("weights", b) :: (names "f" p.n).zip (regs (b + 1) p.n) }

/-- `permute(order)`: `ktensor([f[i] for i in order], weights)` with copying constructor. -/
def ktensor_permute (p : Params) (ops : List View) : Built :=
  let b := ops.length
  { prog := .copy 0 :: p.perm.map (fun i => .copy (i + 1)),
    res := ("weights", b) :: (names "f" p.perm.length).zip (regs (b + 1) p.perm.length) }

/-- `ttv(vectors, dims)` (ktensor.py:2106-2123), repaired (`copy=True`): new weights, copies of
the remaining factors `p.dims`.  flag "scalar": all modes multiplied out. -/
def ktensor_ttv (p : Params) (ops : List View) : Built :=
  let b := ops.length
  if p.flag == "scalar" then { prog := [.fresh [] (List.range b)], res := [] }
  else
    { prog := [.copy 0, .fresh [] (List.range b), .copy (b + 1)] ++ p.dims.map (fun i => .copy (i + 1)),
      res := ("weights", b + 2) :: (names "f" p.dims.length).zip (regs (b + 3) p.dims.length) }

/-- pinned: `ktensor(remaining factors, new_weights, copy=False)` keeps the factor matrices. -/
def ktensor_ttv_pinned (p : Params) (ops : List View) : Built :=
  let b := ops.length
  if p.flag == "scalar" then { prog := [.fresh [] (List.range b)], res := [] }
  else
    { prog := [.copy 0, .fresh [] (List.range b), .asF (b + 1)] ++ p.dims.map (fun i => .alias (i + 1)),
      res := ("weights", b + 2) :: (names "f" p.dims.length).zip (regs (b + 3) p.dims.length) }

/-- `tolist()` (ktensor.py:1892-1908).  flag "unit" (all weights one), repaired: copies of the
factor matrices; otherwise every matrix is a product
with a diagonal matrix. `tolist(mode)` (repaired): works on a copy → all fresh. -/
def ktensor_tolist (p : Params) (ops : List View) : Built :=
  let b := ops.length
  let nm := (List.range p.n).map (fun i => s!"{i}")
  if p.flag == "unit" then { prog := (regs 1 p.n).map .copy, res := nm.zip (regs b p.n) }
  else { prog := (regs 1 p.n).map (fun r => .fresh [] [0, r]), res := nm.zip (regs b p.n) }

/-- pinned `tolist()` with unit weights: the receiver's matrices themselves. -/
def ktensor_tolist_pinned (p : Params) (ops : List View) : Built :=
  let b := ops.length
  { prog := (regs 1 p.n).map .alias, res := ((List.range p.n).map (fun i => s!"{i}")).zip (regs b p.n) }

/-- `full()` / `to_tensor()` / `double()` (ktensor.py:945-956): Khatri-Rao products and a matrix
product give a new array, wrapped by the copying constructor. -/
def ktensor_full (p : Params) (ops : List View) : Built :=
  let b := ops.length
  { prog := .fresh [] (List.range b) :: tensorCtor b (b + 1) p.shape true, res := [("data", b + 2)] }

/-- receiver afterwards = the receiver's own arrays (helper for in-place entries). -/
def keepAll (b n : Nat) : Prog × List (String × Nat) :=
  ((regs 0 (n + 1)).map .alias, ("weights", b) :: (names "f" n).zip (regs (b + 1) n))

/-- `normalize(weight_factor, sort, normtype, mode)` (ktensor.py:1362-1414), in place.
Column-wise writes into every factor (or only `mode`) and element writes into the weights.
flags: "" – nothing rebound; "mode" – only factor `p.k` and the weights are written;
"all" – every factor rebound to `f @ D`, weights written (`[:] = 1`);
"one" – factor `p.k` rebound, weights rebound to `np.ones`;
"sort" – after the in-place part `arrange(permutation)` rebinds weights and all factors. -/
def ktensor_normalize (p : Params) (ops : List View) : Built :=
  let b := ops.length
  let n := p.n
  let nm := ("weights", b) :: (names "f" n).zip (regs (b + 1) n)
  if p.flag == "mode" then
    { prog := [.write (p.k + 1) [p.k + 1], .write 0 [0, p.k + 1]] ++ (regs 0 (n + 1)).map .alias, res := nm }
  else
    let w : Prog := (regs 1 n).map (fun r => .write r [r]) ++ [.write 0 (regs 0 (n + 1))]
    if p.flag == "all" then
      { prog := w ++ [.write 0 [], .alias 0] ++ (regs 1 n).map (fun r => .fresh [] [r, 0]), res := nm }
    else if p.flag == "one" then
      { prog := w ++ [.fresh [] []] ++
          (List.range n).map (fun i => if i == p.k then .fresh [] [i + 1, 0] else .alias (i + 1)), res := nm }
    else if p.flag == "sort" then
      { prog := w ++ [.fresh [] [0]] ++ (regs 1 n).map (fun r => .fresh [] [r]), res := nm }
    else
      { prog := w ++ (regs 0 (n + 1)).map .alias, res := nm }

/-- `arrange(weight_factor, permutation)` (ktensor.py:531-566), in place.  flag "perm": only
rebinding (`weights[permutation]`, `f[:, permutation]`), the old arrays are not written.
Otherwise `normalize()` first (in-place writes), then everything is rebound; with a weight
factor that (already rebound) matrix is scaled in place. -/
def ktensor_arrange (p : Params) (ops : List View) : Built :=
  let b := ops.length
  let n := p.n
  let nm := ("weights", b) :: (names "f" n).zip (regs (b + 1) n)
  let rebind : Prog := .fresh [] [0] :: (regs 1 n).map (fun r => .fresh [] [r])
  if p.flag == "perm" then { prog := rebind, res := nm }
  else
    let w : Prog := (regs 1 n).map (fun r => .write r [r]) ++ [.write 0 (regs 0 (n + 1))]
    if p.flag == "wf" then
      { prog := w ++ rebind ++ [.write (b + 1 + p.k) [b], .fresh [] [b]],
        res := ("weights", b + n + 1) :: (names "f" n).zip (regs (b + 1) n) }
    else { prog := w ++ rebind, res := nm }

/-- `fixsigns()` writes columns of the factors in place; `fixsigns(other)` (repaired) first
normalizes the receiver in place and works on a *copy* of `other` (operands after the
receiver's: other.weights, other.f0 …). -/
def ktensor_fixsigns (p : Params) (ops : List View) : Built :=
  let b := ops.length
  let n := p.n
  let keep := keepAll b n
  if p.flag == "other" then
    { prog := (regs 1 n).map (fun r => .write r [r]) ++ [.write 0 (regs 0 (n + 1))] ++
              (regs (n + 1) (n + 1)).map .copy ++ (regs b (n + 1)).map (fun r => .write r [r]) ++
              (regs 1 n).map (fun r => .write r (r :: regs b (n + 1))) ++
              (regs 0 (n + 1)).map .alias,
      res := ("weights", b + n + 1) :: (names "f" n).zip (regs (b + n + 2) n) }
  else
    { prog := (regs 1 n).map (fun r => .write r [r]) ++ keep.1, res := keep.2 }

/-- pinned `fixsigns(other)`: `other.normalize()` writes the caller's reference tensor. -/
def ktensor_fixsigns_pinned (p : Params) (ops : List View) : Built :=
  let b := ops.length
  let n := p.n
  let keep := keepAll b n
  { prog := (regs 1 n).map (fun r => .write r [r]) ++ [.write 0 (regs 0 (n + 1))] ++
            (regs (n + 1) (n + 1)).map (fun r => .write r [r]) ++
            (regs 1 n).map (fun r => .write r (r :: regs (n + 1) (n + 1))) ++ keep.1,
    res := keep.2 }

/-- `redistribute(mode)`: column writes into factor `p.k`, element writes into the weights. -/
def ktensor_redistribute (p : Params) (ops : List View) : Built :=
  let b := ops.length
  let keep := keepAll b p.n
  { prog := [.write (p.k + 1) [p.k + 1, 0], .write 0 []] ++ keep.1, res := keep.2 }

/-- `update(modes, data)` (ktensor.py:2224-2256): weights and the listed factors are rebound to
copies of slices of `data` (operand `p.n + 1` or later); nothing is written.
`p.dims` = updated modes, flag "w" = weights updated too. -/
def ktensor_update (p : Params) (ops : List View) : Built :=
  let b := ops.length
  let n := p.n
  let src := b - 1
  { prog := (if p.flag == "w" then Step.fresh [] [src] else Step.alias 0) ::
            (List.range n).map (fun i => if p.dims.contains i then Step.fresh [] [src] else Step.alias (i + 1)),
    res := ("weights", b) :: (names "f" n).zip (regs (b + 1) n) }

/-- `viz(...)` (ktensor.py:2361-2441) restricted to its effect on the receiver:
`normalize(sort=True)` when `normalize=True` (the pinned code additionally divided the
receiver's rebound weights in place, which changed the tensor value: C08). Result arrays of
the figure are not walked. flag "plain": `normalize=False, rel_weights=False` – no effect. -/
def ktensor_viz (p : Params) (ops : List View) : Built :=
  let b := ops.length
  let n := p.n
  let nm := ("weights", b) :: (names "f" n).zip (regs (b + 1) n)
  if p.flag == "plain" then { prog := (regs 0 (n + 1)).map .alias, res := nm }
  else
    let w : Prog := (regs 1 n).map (fun r => .write r [r]) ++ [.write 0 (regs 0 (n + 1))]
    let rebind : Prog := .fresh [] [0] :: (regs 1 n).map (fun r => .fresh [] [r])
    { prog := w ++ rebind, res := nm }

/-! ### Tucker tensor, sum tensor -/

/-- `ttensor(core, factors, copy)` (ttensor.py:78-111).  operands: the `p.k` arrays of the core
(1 dense, 2 sparse), then `p.n` factor matrices.  copy: `core.copy()`, every factor copied.
no copy: the core object itself; the factor list itself when all are F-contiguous, else all
copied. -/
def ttensor_init (p : Params) (ops : List View) : Built :=
  let b := ops.length
  let c := p.k
  let cn := if c == 1 then ["core.data"] else ["core.subs", "core.vals"]
  let allF := (List.range p.n).all fun i => (ops.getD (c + i) default).isF
  let fstep (i : Nat) : Step := if p.copy || !allF then .copy (c + i) else .alias (c + i)
  { prog := (List.range c).map (fun i => if p.copy then Step.copy i else Step.alias i) ++
            (List.range p.n).map fstep,
    res := cn.zip (regs b c) ++ (names "f" p.n).zip (regs (b + c) p.n) }

/-- every array of the receiver copied (`copy()`, `__pos__`, `__deepcopy__` of ttensor, sumtensor,
tenmat, sptenmat; sumtensor constructor with copy): `p.m` arrays with the given names in
`p.flag` (comma separated). -/
def copy_all (p : Params) (ops : List View) : Built :=
  let b := ops.length
  let nm := (p.flag.splitOn ",").filter (· != "")
  { prog := (regs 0 p.m).map .copy, res := nm.zip (regs b p.m) }

/-- every listed operand array passed through unchanged (documented no-copy constructors of
sumtensor; pinned `sumtensor.__add__`): `p.m` arrays, names in `p.flag`. -/
def alias_all (p : Params) (ops : List View) : Built :=
  let b := ops.length
  let nm := p.flag.splitOn ","
  { prog := (regs 0 p.m).map .alias, res := nm.zip (regs b p.m) }

/-! ### matricized tensors -/

/- the constructors of `tenmat` and `sptenmat` are in part 4 (`Heap/Table2.lean`: `tenmat_init2`, `sptenmat_init2`) -/

/-- `tenmat.to_tensor(copy)` (tenmat.py:270-283).  operands: data rindices cindices.
`p.dims` = tshape[order], `p.perm` = argsort(order), `p.shape` = tshape.  More than one
mode: transpose + `to_memory_order`; then `tensor(data, shape, copy=False)`. -/
def tenmat_to_tensor (p : Params) (ops : List View) : Built :=
  let b := ops.length
  let first : Step := if p.copy then .copy 0 else .alias 0
  if p.perm.length > 1 then
    { prog := [first, .reshapeF b p.dims, .transpose (b + 1) p.perm, .asF (b + 2)] ++
              tensorCtor (b + 3) (b + 4) p.shape false,
      res := [("data", b + 5)] }
  else
    { prog := [first, .reshapeF b p.dims] ++ tensorCtor (b + 1) (b + 2) p.shape false,
      res := [("data", b + 3)] }

/-- `tenmat.__getitem__` (tenmat.py:465), repaired: a copy of `self.data[item]`.
flag "slice": basic slicing (`p.dims` = [axis, lo, hi]); otherwise fancy / scalar. -/
def tenmat_getitem (p : Params) (ops : List View) : Built :=
  let b := ops.length
  if p.flag == "slice" then
    { prog := [.slice 0 (p.dims.getD 0 0) (p.dims.getD 1 0) (p.dims.getD 2 0), .copy b], res := [("arr", b + 1)] }
  else { prog := [.fresh [] [0]], res := [("arr", b)] }

def tenmat_getitem_pinned (p : Params) (ops : List View) : Built :=
  let b := ops.length
  if p.flag == "slice" then
    { prog := [.slice 0 (p.dims.getD 0 0) (p.dims.getD 1 0) (p.dims.getD 2 0)], res := [("arr", b)] }
  else { prog := [.fresh [] [0]], res := [("arr", b)] }

/-- `tenmat.__setitem__`: `self.data[key] = value`. -/
def tenmat_setitem (_ : Params) (ops : List View) : Built :=
  let b := ops.length
  { prog := [.write 0 ((List.range b).drop 3), .alias 0, .alias 1, .alias 2],
    res := [("data", b), ("rindices", b + 1), ("cindices", b + 2)] }

/-- `sptenmat.double()` (sptenmat.py:361), repaired with `copy=True` (see `sptensor_spmatrix`). -/
def sptenmat_double (p : Params) (ops : List View) : Built := sptensor_spmatrix p ops
def sptenmat_double_pinned (p : Params) (ops : List View) : Built := sptensor_spmatrix_pinned p ops

/-- `sptenmat.__setitem__` (sptenmat.py:521-579): existing entries are overwritten in place,
new ones make subs / vals rebound to stacked and sorted arrays. flag "change" / "rebuild". -/
def sptenmat_setitem (p : Params) (ops : List View) : Built :=
  let b := ops.length
  let others := (List.range b).drop 4
  if p.flag == "change" then
    { prog := [.write 1 others, .alias 0, .alias 1, .alias 2, .alias 3],
      res := [("subs", b), ("vals", b + 1), ("rdims", b + 2), ("cdims", b + 3)] }
  else
    { prog := [.write 1 others, .fresh [] (List.range b), .fresh [] (List.range b), .alias 2, .alias 3],
      res := [("subs", b), ("vals", b + 1), ("rdims", b + 2), ("cdims", b + 3)] }

/-! ### helpers that receive caller arrays -/

/-- `tt_ind2sub(shape, idx)` (pyttb_utils.py:494-497), repaired: negative indices are wrapped in
a new array. -/
def tt_ind2sub_fixed (_ : Params) (ops : List View) : Built :=
  let b := ops.length
  { prog := [.fresh [] [0], .fresh [] [b]], res := [("arr", b + 1)] }

/-- pinned: `idx[idx < 0] += prod(shape)` writes the caller's array when it has a negative
entry (flag "neg"). -/
def tt_ind2sub_pinned (p : Params) (ops : List View) : Built :=
  let b := ops.length
  if p.flag == "neg" then { prog := [.write 0 [0], .fresh [] [0]], res := [("arr", b)] }
  else { prog := [.fresh [] [0]], res := [("arr", b)] }

/-- `parse_one_d(x)` (pyttb_utils.py:976-990): `x.squeeze()` – a view of the caller's array
(documented helper; callers must not hand it out). -/
def parse_one_d (_ : Params) (ops : List View) : Built :=
  let b := ops.length
  { prog := [.squeeze 0], res := [("arr", b)] }

/-- `to_memory_order(array, "F", copy)` (pyttb_utils.py:1026-1033): optional `array.copy()`,
then `np.asfortranarray`. -/
def to_memory_order (p : Params) (ops : List View) : Built :=
  let b := ops.length
  { prog := [if p.copy then .copy 0 else .alias 0, .asF b], res := [("arr", b + 1)] }

/-! ### algorithm entry points -/

/-- `cp_als`, `cp_apr`, `tucker_als`, `gcp_opt`, `hosvd` (repaired): data and initial guess are
only read; the model, the returned initial guess and every array of the output dictionary
are new.  `p.flag` = comma separated names of the result arrays. -/
def alg_fresh (p : Params) (ops : List View) : Built :=
  computed ops.length (p.flag.splitOn ",")

/-- pinned `cp_apr` (pdnr / pqnr) with an all-zero row in factor `p.k` of the initial guess:
`init.factor_matrices[n][row, 0] = 1e-8` writes the caller's guess (operands: data arrays
first – `p.m` of them – then init.weights, init.f0 …). -/
def cp_apr_zero_row_pinned (p : Params) (ops : List View) : Built :=
  let b := ops.length
  let nm := p.flag.splitOn ","
  { prog := .write (p.m + 1 + p.k) [] :: nm.map (fun _ => Step.fresh [] (List.range b)),
    res := nm.zip (regs b nm.length) }

/-- pinned `gcp_opt(init=ktensor)`: `init.normalize("all")` on the caller's object, which is
also returned as `M0` (operands: data arrays – `p.m` – then init.weights, init.f0 …;
`p.n` factors). The solution is new. -/
def gcp_opt_init_pinned (p : Params) (ops : List View) : Built :=
  let b := ops.length
  let n := p.n
  let w0 := p.m
  let nm := p.flag.splitOn ","
  { prog := (regs (w0 + 1) n).map (fun r => .write r [r]) ++ [.write w0 (regs w0 (n + 1)), .alias w0] ++
            (regs (w0 + 1) n).map (fun r => .fresh [] [r, w0]) ++
            nm.map (fun _ => Step.fresh [] (List.range b)),
    res := (("1.weights", b) :: ((names "1.f" n).zip (regs (b + 1) n))) ++ nm.zip (regs (b + n + 1) nm.length) }

/-- by-design behaviour recorded as a known finding: `cp_als`, `cp_apr`, `tucker_als` return the
caller's own initial guess as "the initial guess that was used" and their output dictionary
holds `parse_one_d` views of the caller's `dimorder` / `optdims` arrays.  The model, its
factor matrices and the other outputs are new.  `p.flag` = "fresh names;names of the returned
guess arrays;names of the returned views"; the guess arrays are the operands `p.m …`, the
viewed operands are `p.dims`. -/
def alg_returns_init (p : Params) (ops : List View) : Built :=
  let b := ops.length
  let part (i : Nat) : List String := ((p.flag.splitOn ";").getD i "").splitOn "," |>.filter (· != "")
  let fr := part 0
  let ini := part 1
  let vw := part 2
  { prog := fr.map (fun _ => Step.fresh [] (List.range b)) ++ (regs p.m ini.length).map .alias ++
            p.dims.map .squeeze,
    res := fr.zip (regs b fr.length) ++ ini.zip (regs (b + fr.length) ini.length) ++
           vw.zip (regs (b + fr.length + ini.length) p.dims.length) }

def alg_returns_init_pre (p : Params) (b : Nat) : Bool :=
  decide (p.m + ((((p.flag.splitOn ";").getD 1 "").splitOn ",").filter (· != "")).length ≤ b) &&
  p.dims.all (fun r => decide (r < b))

def alg_returns_init_spec (p : Params) : Spec :=
  .knownAlias (regs p.m ((((p.flag.splitOn ";").getD 1 "").splitOn ",").filter (· != "")).length ++ p.dims)

/-! ### the table -/

structure Entry where
  cls : String
  method : String
  /-- the specification the property gives for this entry as a function of the case (the
  documented no-copy parameter switches `pureFresh` to `noCopy`) -/
  spec : Params → Spec
  build : Params → List View → Built
  /-- well-formedness of a request: enough operand arrays for the receiver / arguments the
  program refers to, positions in range (second argument: number of operands) -/
  pre : Params → Nat → Bool

def atLeast (k : Nat) : Params → Nat → Bool := fun _ b => decide (k ≤ b)
def noPre : Params → Nat → Bool := fun _ _ => true

def Entry.check (e : Entry) (p : Params) (ops : List View) : Bool :=
  !e.pre p ops.length || specCheck (e.spec p) ops.length (e.build p ops)

def noCopyIf (allowed : List Nat) (p : Params) : Spec :=
  if p.copy then .pureFresh else .noCopy allowed

def pf (_ : Params) : Spec := .pureFresh

/-- receiver operands `0 .. n` of a Kruskal tensor -/
def krecv (p : Params) : Spec := .inPlace (List.range (p.n + 1))

/-- the entries of part 3 (part 4, `Heap/Table2.lean`, adds the matricized, Tucker, sum and remaining
Kruskal entries; `table` is the concatenation) -/
def table1 : List Entry := [
  ⟨"tensor", "__init__", noCopyIf [0], tensor_init, atLeast 1⟩,
  ⟨"tensor", "copy", pf, tensor_copy, noPre⟩,
  ⟨"tensor", "double", pf, tensor_double, noPre⟩,
  ⟨"tensor", "permute", pf, tensor_permute, noPre⟩,
  ⟨"tensor", "reshape", pf, tensor_reshape, noPre⟩,
  ⟨"tensor", "squeeze", pf, tensor_squeeze, noPre⟩,
  ⟨"tensor", "find", pf, tensor_find, noPre⟩,
  ⟨"tensor", "to_sptensor", pf, tensor_to_sptensor, noPre⟩,
  ⟨"tensor", "to_tenmat", pf, tensor_to_tenmat, noPre⟩,
  ⟨"tensor", "__setitem__", fun _ => .inPlace [0], tensor_setitem, atLeast 1⟩,
  ⟨"tensor", "elementwise", pf, tensor_elementwise, noPre⟩,
  ⟨"tensor", "ttv", pf, tensor_ttv, noPre⟩,
  ⟨"tensor", "ttm", pf, tensor_ttm, noPre⟩,
  ⟨"tensor", "mttkrp", pf, tensor_mttkrp, noPre⟩,
  ⟨"sptensor", "copysubs_newvals", pf, sptensor_copysubs_newvals, noPre⟩,
  ⟨"ktensor", "full", pf, ktensor_full, noPre⟩,
  ⟨"sptensor", "__init__", noCopyIf [0, 1], sptensor_init, atLeast 2⟩,
  ⟨"sptensor", "copy", pf, sptensor_copy, noPre⟩,
  ⟨"sptensor", "find", fun _ => .knownAlias [0, 1], sptensor_find, atLeast 2⟩,
  ⟨"sptensor", "newsubs_copyvals", pf, sptensor_newsubs_copyvals, noPre⟩,
  ⟨"sptensor", "spmatrix", pf, sptensor_spmatrix, noPre⟩,
  ⟨"sptensor", "full", pf, sptensor_full, noPre⟩,
  ⟨"sptensor", "__setitem__", fun _ => .inPlace [0, 1], sptensor_setitem, atLeast 2⟩,
  ⟨"ktensor", "__init__", fun p => noCopyIf (List.range (p.n + 1)) p, ktensor_init, (fun p b => decide (p.n + (if p.flag == "w" then 1 else 0) ≤ b))⟩,
  ⟨"ktensor", "copy", pf, ktensor_copy, noPre⟩,
  ⟨"ktensor", "permute", pf, ktensor_permute, noPre⟩,
  ⟨"ktensor", "ttv", pf, ktensor_ttv, noPre⟩,
  ⟨"ktensor", "tolist", pf, ktensor_tolist, noPre⟩,
  ⟨"ktensor", "normalize", krecv, ktensor_normalize, (fun p b => decide (p.n + 1 ≤ b) && (decide (p.k < p.n) || !(p.flag == "mode" || p.flag == "one")))⟩,
  ⟨"ktensor", "arrange", krecv, ktensor_arrange, (fun p b => decide (p.n + 1 ≤ b) && (decide (p.k < p.n) || !(p.flag == "wf")))⟩,
  ⟨"ktensor", "fixsigns", krecv, ktensor_fixsigns, (fun p b => decide (p.n + 1 ≤ b))⟩,
  ⟨"ktensor", "redistribute", krecv, ktensor_redistribute, (fun p b => decide (p.n + 1 ≤ b) && decide (p.k < p.n))⟩,
  ⟨"ktensor", "update", krecv, ktensor_update, (fun p b => decide (p.n + 1 ≤ b))⟩,
  ⟨"ktensor", "viz", krecv, ktensor_viz, (fun p b => decide (p.n + 1 ≤ b))⟩,
  ⟨"ttensor", "__init__", fun p => noCopyIf (List.range (p.k + p.n)) p, ttensor_init, (fun p b => decide (p.k + p.n ≤ b))⟩,
  ⟨"any", "copy_all", pf, copy_all, noPre⟩,
  ⟨"any", "alias_all", fun p => .noCopy (List.range p.m), alias_all, (fun p b => decide (p.m ≤ b))⟩,
  ⟨"tenmat", "to_tensor", noCopyIf [0], tenmat_to_tensor, atLeast 1⟩,
  ⟨"tenmat", "__getitem__", pf, tenmat_getitem, noPre⟩,
  ⟨"tenmat", "__setitem__", fun _ => .inPlace [0, 1, 2], tenmat_setitem, atLeast 3⟩,
  ⟨"sptenmat", "double", pf, sptenmat_double, noPre⟩,
  ⟨"sptenmat", "__setitem__", fun _ => .inPlace [0, 1, 2, 3], sptenmat_setitem, atLeast 4⟩,
  ⟨"utils", "tt_ind2sub", pf, tt_ind2sub_fixed, noPre⟩,
  ⟨"utils", "parse_one_d", fun _ => .noCopy [0], parse_one_d, atLeast 1⟩,
  ⟨"utils", "to_memory_order", noCopyIf [0], to_memory_order, atLeast 1⟩,
  ⟨"alg", "fresh", pf, alg_fresh, noPre⟩,
  ⟨"alg", "returns_init", alg_returns_init_spec, alg_returns_init, alg_returns_init_pre⟩,
  ⟨"any", "computed", pf, fun p ops => computed ops.length (p.flag.splitOn ","), noPre⟩
]

/-- explicit copies of the pinned (defective) behaviour, for the counterexample theorems and
for replaying the findings against an unrepaired tree -/
def pinnedTable : List Entry := [
  ⟨"tensor", "permute", pf, tensor_permute_pinned, noPre⟩,
  ⟨"tensor", "reshape", pf, tensor_reshape_pinned, noPre⟩,
  ⟨"tensor", "to_tenmat", pf, tensor_to_tenmat_pinned, noPre⟩,
  ⟨"sptensor", "spmatrix", pf, sptensor_spmatrix_pinned, noPre⟩,
  ⟨"ktensor", "ttv", pf, ktensor_ttv_pinned, noPre⟩,
  ⟨"tenmat", "__getitem__", pf, tenmat_getitem_pinned, noPre⟩,
  ⟨"sptenmat", "double", pf, sptenmat_double_pinned, noPre⟩,
  ⟨"utils", "tt_ind2sub", pf, tt_ind2sub_pinned, noPre⟩,
  ⟨"tensor", "__setitem__", fun _ => .inPlace [0], tensor_setitem_pinned, noPre⟩,
  ⟨"sptensor", "__setitem__", fun _ => .inPlace [0, 1], sptensor_setitem_pinned, noPre⟩,
  ⟨"ktensor", "tolist", pf, ktensor_tolist_pinned, noPre⟩,
  ⟨"ktensor", "fixsigns", krecv, ktensor_fixsigns_pinned, noPre⟩,
  ⟨"alg", "cp_apr_zero_row", pf, cp_apr_zero_row_pinned, noPre⟩,
  ⟨"alg", "gcp_opt_init", pf, gcp_opt_init_pinned, noPre⟩
]

def lookup (t : List Entry) (cls method : String) : Option Entry :=
  t.find? (fun e => e.cls == cls && e.method == method)

end Pyttb.Heap
