/-
C05 heap model, part 3a: calling one operation's program from another.

pyttb methods delegate: `sumtensor.full()` calls `full()` of every part and adds the results,
`ttensor.full()` is a chain of `tensor.ttm` calls, `ktensor.to_tenmat` is `full()` followed by
`tensor.to_tenmat`.  A callee's program is written for its own operand list (registers `0 … k-1`,
new registers from `k`); `Built.at` places it in a caller: callee operand `j` becomes the
caller register `args[j]` (an operand of the caller or a register it defined earlier), the
callee's new registers are numbered from the caller's first free register.  `Acc` threads the
first free register through a sequence of raw steps and calls.  Import-free.
-/
import PyttbModel.Heap.Table
namespace Pyttb.Heap

/-- register `r` of a callee with `k` operands, seen from the caller -/
def relocReg (k : Nat) (args : List Nat) (free r : Nat) : Nat :=
  if r < k then args.getD r 0 else free + (r - k)

def Step.reloc (k : Nat) (args : List Nat) (free : Nat) : Step → Step
  | .transpose r p => .transpose (relocReg k args free r) p
  | .tr r => .tr (relocReg k args free r)
  | .reshapeF r s => .reshapeF (relocReg k args free r) s
  | .asF r => .asF (relocReg k args free r)
  | .copy r => .copy (relocReg k args free r)
  | .squeeze r => .squeeze (relocReg k args free r)
  | .slice r ax lo hi => .slice (relocReg k args free r) ax lo hi
  | .select r ax i => .select (relocReg k args free r) ax i
  | .newaxis r ax => .newaxis (relocReg k args free r) ax
  | .alias r => .alias (relocReg k args free r)
  | .fresh s rs => .fresh s (rs.map (relocReg k args free))
  | .write r rs => .write (relocReg k args free r) (rs.map (relocReg k args free))

/-- the callee's program and results inside the caller; result names get the prefix `pre` -/
def Built.at (B : Built) (k : Nat) (args : List Nat) (free : Nat) (pre : String := "") : Built :=
  { prog := B.prog.map (Step.reloc k args free),
    res := B.res.map (fun q => (pre ++ q.1, relocReg k args free q.2)) }

/-- a program under construction: steps so far, first free register, results so far -/
structure Acc where
  prog : Prog := []
  free : Nat
  res : List (String × Nat) := []
  deriving Repr, Inhabited

def Acc.init (b : Nat) : Acc := { free := b }

/-- raw steps, written relative to the first free register -/
def Acc.raw (A : Acc) (f : Nat → Prog) : Acc :=
  { A with prog := A.prog ++ f A.free, free := A.free + ndefs (f A.free) }

/-- call a callee written for `args.length` operands; `keep`: its results are results of the
caller (with prefix `pre`) -/
def Acc.call (A : Acc) (B : Built) (args : List Nat) (pre : String := "") (keep : Bool := true) : Acc :=
  let C := B.at args.length args A.free pre
  { prog := A.prog ++ C.prog, free := A.free + ndefs B.prog, res := if keep then A.res ++ C.res else A.res }

/-- a sequence of calls: callee, the caller registers it is given, prefix of its result names -/
def Acc.calls (A : Acc) : List (Built × List Nat × String) → Acc
  | [] => A
  | t :: rest => (A.call t.1 t.2.1 t.2.2).calls rest

def Acc.out (A : Acc) (name : String) (r : Nat) : Acc := { A with res := A.res ++ [(name, r)] }

def Acc.built (A : Acc) : Built := { prog := A.prog, res := A.res }

/-- caller register of the callee's result named `name` when the callee is placed at `free` -/
def Built.resAt (B : Built) (k : Nat) (args : List Nat) (free : Nat) (name : String) : Nat :=
  match B.res.find? (fun q => q.1 == name) with
  | some q => relocReg k args free q.2
  | none => 0

/-- an F-contiguous array of shape `s` (stand-in for an intermediate result when a callee's
program depends on the layout of its operand) -/
def fView (s : List Nat) : View := ⟨0, 0, s, fStrides s⟩

end Pyttb.Heap
