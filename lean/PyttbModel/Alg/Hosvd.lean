/-
C10 — model of `pyttb/hosvd.py` (tree after 62e9ddd) and of the dense operations it calls.

What is modelled how:
* `tensor.ttm(matrix, n, transpose)` enters by its entry-wise meaning
  `Y[j] = Σ_a W[j_n, a] · T[j with a in mode n]` (`W = matrix`, or `matrixᵀ` when `transpose`),
  i.e. the logical content of "permute, F-reshape, matmul, F-reshape, permute back"; the
  shape test of the matrix product is kept (`ttm` rejects where NumPy raises).  The list
  forms (`ttm(list)`, `ttm(list, exclude_dims=n)`) are the folds over the modes that the
  code performs, in increasing mode order.
* `Y.to_tenmat([k]).double()` followed by `np.dot(Yk, Yk.T)` enters as the Gram matrix
  `Z[a][b] = Σ_rest Y[.., a, ..] · Y[.., b, ..]`, the sum running over all subscripts of the
  other modes (a sum over the columns of the unfolding, whatever their order).
* `scipy.linalg.eigh` is a SERVICE: the parameter `eigh` (call number, matrix) ↦ (D, V).
  Nothing is assumed about it here; the theorems assume its contract, the harness checks
  the contract on every recorded call.
* `np.argsort(-D)` is the stable descending sort of the positions (ties: NumPy's quicksort
  may order equal keys differently; theorems hold for the stable choice, generators avoid ties).
* the scalar formulas (`eigsumthresh`, `eigsum`, the rank cut-off, the slice bound) are the
  definitions regenerated from the Python source in `Generated/TuckerFormulas.lean`.
* printing (`verbosity > 0`) is not modelled.
Import-free.
-/
import PyttbModel.Core.Arr
import PyttbModel.Core.Perm
import PyttbModel.Generated.TuckerFormulas
namespace Pyttb
namespace Tk

variable {α : Type}

section arith
variable [Add α] [Sub α] [Mul α] [Zero α] [One α]

/-- `(T**2).collapse()`: the sum of the squared entries. -/
def normSq (T : Dense α) : α := (T.data.map fun x => x * x).sum

/-- `A - B` for dense tensors of equal shape. -/
def dsub (A B : Dense α) : Except Reject (Dense α) :=
  if A.shape == B.shape then .ok ⟨A.shape, List.zipWith (· - ·) A.data B.data⟩ else .error .reject

/-- Entry-wise content of `tensor.ttm(U, n, transpose=tr)` (no shape test). -/
def ttmT (T : Dense α) (U : Mat α) (n : Nat) (tr : Bool) : Dense α :=
  let sn := T.shape.getD n 0
  let p := if tr then U.ncols else U.nrows
  Dense.ofFn (T.shape.set n p) fun j =>
    let c := j.getD n 0
    ((List.range sn).map fun a => (if tr then U.get a c else U.get c a) * T.get (j.set n a)).sum

/-- `tensor.ttm(U, n, transpose=tr)` for one matrix: the mode must exist and the inner
extents of the matrix product must agree. -/
def ttm (T : Dense α) (U : Mat α) (n : Nat) (tr : Bool) : Except Reject (Dense α) :=
  if n < T.shape.length && (if tr then U.nrows else U.ncols) == T.shape.getD n 0 then
    .ok (ttmT T U n tr)
  else .error .reject

/-- Which matrix multiplies which mode in `tensor.ttm(list, dims)` (`tt_dimscheck`): when there are
as many matrices as listed modes they are taken by POSITION (`vidx = arange(P)`), otherwise (one
matrix per tensor mode) by MODE (`vidx = dims`). -/
def ttmPairs (Us : List (Mat α)) (dims : List Nat) : List (Nat × Mat α) :=
  if dims.length == Us.length then
    (dims.zip (List.range dims.length)).map fun p => (p.1, Us.getD p.2 [])
  else dims.map fun k => (k, Us.getD k [])

/-- `tensor.ttm(list, dims, transpose=tr)` with the modes `dims` produced by `tt_dimscheck`: more
matrices than modes, or a count that is neither the number of modes nor the number of listed
modes, is rejected; `matrix[vidx[0]]` multiplies mode `dims[0]` first (an empty `dims` is an
`IndexError`), then the others in turn. -/
def ttmDims (T : Dense α) (Us : List (Mat α)) (dims : List Nat) (tr : Bool) : Except Reject (Dense α) :=
  if Us.length > T.shape.length then .error .reject
  else if Us.length != T.shape.length && Us.length != dims.length then .error .reject
  else if dims.isEmpty then .error .reject
  else (ttmPairs Us dims).foldlM (fun Y p => ttm Y p.2 p.1 tr) T

/-- `tensor.ttm(list, transpose=tr)`: every mode, increasing. -/
def ttmAll (T : Dense α) (Us : List (Mat α)) (tr : Bool) : Except Reject (Dense α) :=
  ttmDims T Us (List.range T.shape.length) tr

/-- `tensor.ttm(list, exclude_dims=n, transpose=tr)`: every mode but `n`, increasing. -/
def ttmExcl (T : Dense α) (Us : List (Mat α)) (n : Nat) (tr : Bool) : Except Reject (Dense α) :=
  if n < T.shape.length then ttmDims T Us (complDims T.shape.length [n]) tr else .error .reject

/-- Gram matrix of the mode-`k` unfolding: `Yk @ Yk.T` with `Yk = Y.to_tenmat([k]).double()`. -/
def gramMode (Y : Dense α) (k : Nat) : Mat α :=
  let sk := Y.shape.getD k 0
  let rest := allSubs (Y.shape.set k 1)
  (List.range sk).map fun a => (List.range sk).map fun b =>
    (rest.map fun j0 => Y.get (j0.set k a) * Y.get (j0.set k b)).sum

/-- `V[:, idx]`. -/
def matCols (V : Mat α) (idx : List Nat) : Mat α := V.map fun row => idx.map fun c => row.getD c 0

/-- `ttensor(core, factors, copy=False)`: one factor per core mode, with as many columns as
the core has entries in that mode. -/
def mkTtensor (core : Dense α) (factors : List (Mat α)) : Except Reject (Ttensor α) :=
  if core.shape.length == factors.length &&
      (List.range factors.length).all (fun i => (factors.getD i []).ncols == core.shape.getD i 0) then
    .ok ⟨core, factors⟩
  else .error .reject

/-- `ttensor.full()`: `core.ttm(factor_matrices)`. -/
def tfull (T : Ttensor α) : Except Reject (Dense α) := ttmAll T.core T.factors false

end arith

/-- `np.argsort(-D)`: positions ordered by decreasing key (stable). -/
def argsortDesc (ops : NumOps α) [Zero α] (D : List α) : List Nat :=
  (List.range D.length).mergeSort fun i j => !(ops.lt (D.getD i 0) (D.getD j 0))

/-- What happened in one pass of the mode loop (for trace validation). -/
structure ModeRec (α : Type) where
  k : Nat
  gram : Mat α
  pi : List Nat
  eig : List α
  rank : Nat
  factor : Mat α
  deriving Repr

/-- Loop state of `hosvd`: the (shrinking) tensor, the factor list, the rank vector. -/
structure HState (α : Type) where
  Y : Dense α
  factors : List (Mat α)
  ranks : List Nat
  trace : List (ModeRec α)

section alg
variable [Add α] [Sub α] [Mul α] [Zero α] [One α]

/-- The rank kept in one mode: the requested one, or (request = `autoMarker`) the cut-off
rule applied to the reverse cumulative sum of the sorted eigenvalues. -/
def chooseRank (ops : NumOps α) (thresh : α) (eig : List α) (requested : Nat) : Option Nat :=
  if requested == Gen.autoMarker then Gen.rankCut ops (Gen.eigsum eig) thresh else some requested

/-- One pass of `for k in dimorder:`. -/
def hosvdStep (ops : NumOps α) (eigh : Nat → Mat α → List α × Mat α) (thresh : α) (sequential : Bool)
    (st : HState α) (k : Nat) : Except Reject (HState α) :=
  let Z := gramMode st.Y k
  let DV := eigh st.trace.length Z
  let pi := argsortDesc ops DV.1
  let eig := pi.map fun i => DV.1.getD i 0
  match chooseRank ops thresh eig (st.ranks.getD k 0) with
  | none => .error .reject
  | some r =>
    let U := matCols DV.2 (pi.take (Gen.sliceBound r))
    let rec' : ModeRec α := ⟨k, Z, pi, eig, r, U⟩
    if sequential then
      match ttm st.Y (Mat.transpose U) k false with
      | .error e => .error e
      | .ok Y' => .ok ⟨Y', st.factors.set k U, st.ranks.set k r, st.trace ++ [rec']⟩
    else .ok ⟨st.Y, st.factors.set k U, st.ranks.set k r, st.trace ++ [rec']⟩

/-- `ranks = np.zeros(d) if ranks is None else parse_one_d(ranks).copy()`. -/
def reqRanks (ranks : Option (List Nat)) (d : Nat) : List Nat :=
  match ranks with
  | none => List.replicate d 0
  | some r => r

/-- `dimorder = np.arange(d) if dimorder is None else parse_one_d(dimorder)`. -/
def modeOrder (dimorder : Option (List Nat)) (d : Nat) : List Nat :=
  match dimorder with
  | none => List.range d
  | some o => o

/-- `np.any(ranks > np.array(shape))` for a rank vector with one entry per mode. -/
def ranksExceed (ranks shape : List Nat) : Bool :=
  (List.range shape.length).any fun k => decide (shape.getD k 0 < ranks.getD k 0)

/-- `hosvd(input_tensor, tol, verbosity=0, dimorder, sequential, ranks)`, returning the Tucker
tensor and the per-mode record. -/
def hosvdRun (ops : NumOps α) (eigh : Nat → Mat α → List α × Mat α) (X : Dense α) (tol : α)
    (dimorder : Option (List Nat)) (sequential : Bool) (ranks : Option (List Nat)) :
    Except Reject (Ttensor α × List (ModeRec α)) :=
  let d := X.shape.length
  let ranks0 := reqRanks ranks d
  if ranks0.length != d then .error .reject
  -- `if np.any(ranks < 0) or np.any(ranks > shape): raise` (b0b6c00; negative entries: `hosvdRunI`)
  else if ranksExceed ranks0 X.shape then .error .reject
  else
    let order := modeOrder dimorder d
    if !isPermOf order d then .error .reject
    else
      let normxsqr := normSq X
      let thresh := Gen.eigsumthresh ops tol normxsqr (ops.ofNat d)
      match order.foldlM (hosvdStep ops eigh thresh sequential) ⟨X, List.replicate d [], ranks0, []⟩ with
      | .error e => .error e
      | .ok st =>
        match (if sequential then .ok st.Y else ttmAll st.Y st.factors true) with
        | .error e => .error e
        | .ok G =>
          match mkTtensor G st.factors with
          | .error e => .error e
          | .ok T => .ok (T, st.trace)

def hosvd (ops : NumOps α) (eigh : Nat → Mat α → List α × Mat α) (X : Dense α) (tol : α)
    (dimorder : Option (List Nat)) (sequential : Bool) (ranks : Option (List Nat)) :
    Except Reject (Ttensor α) :=
  (hosvdRun ops eigh X tol dimorder sequential ranks).map (·.1)

/-- The rank vector as Python integers: a negative entry is rejected by the range test
(`np.any(ranks < 0)`, b0b6c00), whose other half is in `hosvdRun`.  (Both the length test that
precedes it and the range test raise, so their relative order is not observable.) -/
def hosvdRunI (ops : NumOps α) (eigh : Nat → Mat α → List α × Mat α) (X : Dense α) (tol : α)
    (dimorder : Option (List Nat)) (sequential : Bool) (ranks : Option (List Int)) :
    Except Reject (Ttensor α × List (ModeRec α)) :=
  match ranks with
  | none => hosvdRun ops eigh X tol dimorder sequential none
  | some r =>
    if r.any (fun x => decide (x < 0)) then .error .reject
    else hosvdRun ops eigh X tol dimorder sequential (some (r.map Int.toNat))

end alg
end Tk
end Pyttb
