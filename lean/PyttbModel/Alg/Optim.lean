/-
C13 — model of `pyttb/gcp/optimizers.py` (tree after ee5fefa / e9e4a44).

`StochasticSolver.solve` is a state machine over the Python locals
(`model`, `best_model`, `f_est_prev`, the preallocated traces, `n_epoch`, `n_recorded`, `step`)
and the fields of the optimizer object (`_nfails`, Adam's `_total_iterations`, `_m`, `_m_prev`,
`_v`, `_v_prev`, Adagrad's `_gnormsum`).  The two calls of `estimate` are oracles:
`fEst k M` is what the `k`-th function estimate returned for model `M` (k = 0 is the start,
k = n+1 closes epoch n), `gEst k M` is the `k`-th gradient estimate.  `sqrt` is a service.
The scalar type has no infinities: the "infinite gradient" check of the code is not modelled
and `lower_bound = -inf` / `f_est_tol = -inf` are `none`.  Import-free.
-/
import PyttbModel.Core.Arr
namespace Pyttb
namespace Opt

variable {α : Type}

abbrev Factors (α : Type) := List (Mat α)

/-- `x ** n` for a natural exponent. -/
def npow [Mul α] [One α] (x : α) : Nat → α
  | 0 => 1
  | n + 1 => npow x n * x

/-- `np.maximum(lower_bound, x)`; `none` is `-inf`. -/
def projLB [LT α] [DecidableLT α] (lb : Option α) (x : α) : α :=
  match lb with
  | none => x
  | some l => if x < l then l else x

def sameShape (A B : Mat α) : Bool :=
  A.length == B.length && (A.zip B).all fun p => p.1.length == p.2.length

/-- Entry-wise combination of two arrays; NumPy raises when the shapes differ
(broadcasting of extent-1 axes is not modelled: the solver never relies on it). -/
def mat2 (f : α → α → α) (A B : Mat α) : Except Reject (Mat α) :=
  if sameShape A B then .ok (List.zipWith (List.zipWith f) A B) else .error .reject

def mat3 (f : α → α → α → α) (A B C : Mat α) : Except Reject (Mat α) :=
  if sameShape A B && sameShape A C then
    .ok (List.zipWith (fun a bc => List.zipWith (fun x yz => f x yz.1 yz.2) a (bc.1.zip bc.2)) A (B.zip C))
  else .error .reject

def matMap (f : α → α) (A : Mat α) : Mat α := A.map (·.map f)

inductive Kind where
  | sgd | adam | adagrad
  deriving Repr, DecidableEq, BEq

/-- Constructor arguments of the solver objects. -/
structure Hyper (α : Type) where
  rate : α
  decay : α
  maxFails : Nat
  epochIters : Nat
  maxIters : Nat
  fEstTol : Option α
  beta1 : α
  beta2 : α
  eps : α
  deriving Repr, DecidableEq

/-- Mutable fields of the solver object that survive between calls of its methods; which
fields exist depends on the class of the object. -/
inductive OptState (α : Type) where
  /-- `SGD`: `_nfails`. -/
  | sgd (nfails : Nat)
  /-- `Adam`: `_nfails`, `_total_iterations`, `_m`, `_m_prev`, `_v`, `_v_prev`. -/
  | adam (nfails : Nat) (totalIters : Nat) (m mPrev v vPrev : Factors α)
  /-- `Adagrad`: `_nfails`, `_gnormsum`. -/
  | adagrad (nfails : Nat) (gnormsum : α)
  deriving Repr, DecidableEq

def OptState.kind : OptState α → Kind
  | .sgd _ => .sgd
  | .adam .. => .adam
  | .adagrad .. => .adagrad

def OptState.nfails : OptState α → Nat
  | .sgd n => n
  | .adam n .. => n
  | .adagrad n _ => n

def OptState.setNfails (k : Nat) : OptState α → OptState α
  | .sgd _ => .sgd k
  | .adam _ t m mp v vp => .adam k t m mp v vp
  | .adagrad _ g => .adagrad k g

/-- State of a freshly constructed solver object of a class. -/
def OptState.fresh [Zero α] : Kind → OptState α
  | .sgd => .sgd 0
  | .adam => .adam 0 0 [] [] [] []
  | .adagrad => .adagrad 0 0

/-- `_reset_state()` (commit e9e4a44). -/
def resetState [Zero α] : OptState α → OptState α
  | .sgd n => .sgd n
  | .adam n _ _ _ _ _ => .adam n 0 [] [] [] []
  | .adagrad n _ => .adagrad n 0

/-- `set_failed_epoch()`. -/
def setFailedEpoch [Zero α] (h : Hyper α) : OptState α → OptState α
  | .sgd n => .sgd n
  | .adam n t _ mp _ vp => .adam n (t - h.epochIters) mp mp vp vp
  | .adagrad n _ => .adagrad n 0

section step
variable [Add α] [Sub α] [Mul α] [Div α] [Zero α] [One α] [LT α] [DecidableLT α]

/-- `SGD.update_step`. -/
def sgdStep (h : Hyper α) (nfails : Nat) (model : Ktensor α) (grad : Factors α)
    (lb : Option α) : Except Reject (Factors α × α × OptState α) := do
  let step := npow h.decay nfails * h.rate
  let fm ← (model.factors.zip grad).mapM fun p =>
    mat2 (fun f g => projLB lb (f - step * g)) p.1 p.2
  .ok (fm, step, .sgd nfails)

/-- `Adam.update_step`. -/
def adamStep (sqrt : α → α) (h : Hyper α) (nfails totalIters : Nat) (m₀ v₀ : Factors α)
    (model : Ktensor α) (grad : Factors α) (lb : Option α) :
    Except Reject (Factors α × α × OptState α) := do
  let zeros : Factors α :=
    model.factors.map fun A => List.replicate A.length (List.replicate model.weights.length 0)
  let m0 := if totalIters == 0 then m₀ ++ zeros else m₀
  let v0 := if totalIters == 0 then v₀ ++ zeros else v₀
  let total := totalIters + h.epochIters
  let step := npow h.decay nfails * h.rate
  let m ← (m0.zip grad).mapM fun p => mat2 (fun mk gk => h.beta1 * mk + (1 - h.beta1) * gk) p.1 p.2
  let v ← (v0.zip grad).mapM fun p =>
    mat2 (fun vk gk => h.beta2 * vk + (1 - h.beta2) * (gk * gk)) p.1 p.2
  let mhat := m.map (matMap (· / (1 - npow h.beta1 total)))
  let vhat := v.map (matMap (· / (1 - npow h.beta2 total)))
  let fm ← (model.factors.zip (mhat.zip vhat)).mapM fun p =>
    mat3 (fun f mh vh => projLB lb (f - step * mh / (sqrt vh + h.eps))) p.1 p.2.1 p.2.2
  .ok (fm, step, .adam nfails total m m0 v v0)

/-- `Adagrad.update_step`. -/
def adagradStep (sqrt : α → α) (nfails : Nat) (gnormsum : α) (model : Ktensor α) (grad : Factors α)
    (lb : Option α) : Except Reject (Factors α × α × OptState α) := do
  let gn := gnormsum + (grad.map fun G => (G.map fun row => (row.map fun g => g * g).sum).sum).sum
  let step := 1 / sqrt gn
  let fm ← (model.factors.zip grad).mapM fun p =>
    mat2 (fun f g => projLB lb (f - step * g)) p.1 p.2
  .ok (fm, step, .adagrad nfails gn)

/-- `update_step` of the three solver classes (dispatch on the class of the object):
new factor matrices, the step, new fields. -/
def updateStep (sqrt : α → α) (h : Hyper α) (st : OptState α) (model : Ktensor α)
    (grad : Factors α) (lb : Option α) : Except Reject (Factors α × α × OptState α) :=
  match st with
  | .sgd n => sgdStep h n model grad lb
  | .adam n t m _ v _ => adamStep sqrt h n t m v model grad lb
  | .adagrad n g => adagradStep sqrt n g model grad lb

/-- Locals of `solve` between epochs.  `seen` is a ghost record for the theorems: the model
at every epoch boundary (start included, before any reset) with the estimate the oracle
returned for it, oldest first. -/
structure Loop (α : Type) where
  model : Ktensor α
  best : Ktensor α
  fPrev : α
  opt : OptState α
  fest : List α
  steps : List α
  nEpoch : Nat
  nRecorded : Nat
  step : Option α
  stop : Bool
  seen : List (Ktensor α × α)
  deriving Repr, DecidableEq

/-- The inner `for iteration in range(epoch_iters)` loop; `idx` numbers the gradient estimates. -/
def innerIters (sqrt : α → α) (h : Hyper α) (lb : Option α)
    (gEst : Nat → Ktensor α → Factors α) :
    Nat → Nat → Ktensor α × OptState α × Option α → Except Reject (Ktensor α × OptState α × Option α)
  | 0, _, s => .ok s
  | k + 1, idx, (model, st, _) => do
    let (fm, step, st') ← updateStep sqrt h st model (gEst idx model) lb
    innerIters sqrt h lb gEst k (idx + 1) ({ model with factors := fm }, st', some step)

/-- One pass of the body of `for n_epoch in range(max_iters)`. -/
def epochBody (sqrt : α → α) (h : Hyper α) (lb : Option α)
    (fEst : Nat → Ktensor α → α) (gEst : Nat → Ktensor α → Factors α) (n : Nat) (L : Loop α) :
    Except Reject (Loop α) := do
  let (model, st, step) ← innerIters sqrt h lb gEst h.epochIters (n * h.epochIters)
    (L.model, L.opt, L.step)
  let f := fEst (n + 1) model
  let fest := L.fest.set (n + 1) f
  match step with
  | none => .error .reject            -- `step` is an unbound local when `epoch_iters == 0`
  | some stp =>
    let steps := L.steps.set (n + 1) stp
    let failed : Bool := decide (L.fPrev < f)
    let st := st.setNfails (st.nfails + (if failed then 1 else 0))
    let tolTest : Bool := match h.fEstTol with
      | none => false
      | some t => decide (f < t)
    let stop := decide (h.maxFails < st.nfails) || tolTest
    if failed then
      .ok { model := L.best, best := L.best, fPrev := L.fPrev, opt := setFailedEpoch h st,
            fest := fest, steps := steps, nEpoch := n, nRecorded := n + 1, step := some stp,
            stop := stop, seen := L.seen ++ [(model, f)] }
    else
      .ok { model := model, best := model, fPrev := f, opt := st,
            fest := fest, steps := steps, nEpoch := n, nRecorded := n + 1, step := some stp,
            stop := stop, seen := L.seen ++ [(model, f)] }

/-- `for n_epoch in range(max_iters)` with its `break`. -/
def epochs (sqrt : α → α) (h : Hyper α) (lb : Option α)
    (fEst : Nat → Ktensor α → α) (gEst : Nat → Ktensor α → Factors α) :
    Nat → Nat → Loop α → Except Reject (Loop α)
  | 0, _, L => .ok L
  | k + 1, n, L => do
    let L' ← epochBody sqrt h lb fEst gEst n L
    if L'.stop then .ok L' else epochs sqrt h lb fEst gEst k (n + 1) L'

/-- Locals right before the main loop, for an object whose fields are `st`. -/
def initLoop (h : Hyper α) (st : OptState α) (init : Ktensor α) (fEst : Nat → Ktensor α → α) :
    Loop α :=
  let f0 := fEst 0 init
  { model := init, best := init, fPrev := f0, opt := st,
    fest := (List.replicate (h.maxIters + 1) 0).set 0 f0,
    steps := List.replicate (h.maxIters + 1) 0,
    nEpoch := 0, nRecorded := 0, step := none, stop := false, seen := [(init, f0)] }

/-- `solve` up to (not including) the construction of `info`: the locals after the loop. -/
def solveLoop (sqrt : α → α) (h : Hyper α) (st : OptState α) (init : Ktensor α)
    (lb : Option α) (fEst : Nat → Ktensor α → α) (gEst : Nat → Ktensor α → Factors α) :
    Except Reject (Loop α) :=
  epochs sqrt h lb fEst gEst h.maxIters 0
    (initLoop h (resetState (st.setNfails 0)) init fEst)

/-- What `solve` returns: the model and `info` (time trace left out). -/
structure Result (α : Type) where
  model : Ktensor α
  fEstTrace : List α
  stepTrace : List α
  nEpoch : Nat
  deriving Repr, DecidableEq

def report (L : Loop α) : Result α :=
  ⟨L.model, L.fest.take (L.nRecorded + 1), L.steps.take (L.nRecorded + 1), L.nEpoch⟩

/-- `StochasticSolver.solve` on an object whose fields are `st`: the result and the fields
the object is left with. -/
def solve (sqrt : α → α) (h : Hyper α) (st : OptState α) (init : Ktensor α)
    (lb : Option α) (fEst : Nat → Ktensor α → α) (gEst : Nat → Ktensor α → Factors α) :
    Except Reject (Result α × OptState α) := do
  let L ← solveLoop sqrt h st init lb fEst gEst
  .ok (report L, L.opt)

/-- `solve(initial_model, data, …, sampler)` with the sampler argument made explicit:
`if sampler is None: sampler = GCPSampler(data)` — the default sampler is built from the data of
THIS call (nothing about samplers is kept in the solver object).  What the two estimate calls
return is determined by the sampler in use, the data and the random stream: `fOracle smp data`
and `gOracle smp data` are the oracles of `solve`. -/
def solveData {D S : Type} (sqrt : α → α) (h : Hyper α) (st : OptState α) (init : Ktensor α)
    (lb : Option α) (data : D) (sampler : Option S) (mkDefault : D → S)
    (fOracle : S → D → Nat → Ktensor α → α) (gOracle : S → D → Nat → Ktensor α → Factors α) :
    Except Reject (Result α × OptState α) :=
  let smp := match sampler with
    | none => mkDefault data
    | some s => s
  solve sqrt h st init lb (fOracle smp data) (gOracle smp data)

/-! #### the tree before ee5fefa / e9e4a44 (kept for the counterexamples) -/

/-- Traces sliced `[0 : n_epoch + 1]`. -/
def reportPinned (L : Loop α) : Result α :=
  ⟨L.model, L.fest.take (L.nEpoch + 1), L.steps.take (L.nEpoch + 1), L.nEpoch⟩

/-- No `_reset_state()`: only `_nfails` is cleared. -/
def solvePinned (sqrt : α → α) (h : Hyper α) (st : OptState α) (init : Ktensor α)
    (lb : Option α) (fEst : Nat → Ktensor α → α) (gEst : Nat → Ktensor α → Factors α) :
    Except Reject (Result α × OptState α) := do
  let L ← epochs sqrt h lb fEst gEst h.maxIters 0 (initLoop h (st.setNfails 0) init fEst)
  .ok (reportPinned L, L.opt)

end step

/-! ### L-BFGS-B wrapper -/

/-- `LBFGSB.solve` (tree after 6b9ef45): the start vector is `tovec` of a copy of the initial
model, the objective handed to the optimiser evaluates the model after `update`, the optimiser's
solution vector is written back with `update`, and the reported `final_f` is the objective
evaluated once more at that solution (`lbfgsb_func_grad(final_vector)[0]`) — the value the
optimiser itself hands back is dropped (after an abandoned line search it is the rejected
trial's).  `svc f x0 lb` is `fmin_l_bfgs_b` (returns the final point and a value);
`tovec` / `update` are `ktensor.tovec(False)` / `ktensor.update(all modes, ·)`. -/
def lbfgsbSolve (tovec : Ktensor α → List α) (update : Ktensor α → List α → Ktensor α)
    (svc : (List α → α) → List α → Option α → List α × α)
    (objective : Ktensor α → α) (init : Ktensor α) (lb : Option α) : Ktensor α × α :=
  let x0 := tovec init
  let f := fun v => objective (update init v)
  let r := svc f x0 lb
  (update init r.1, f r.1)

/-- The options an `LBFGSB` object stores (`_solver_kwargs`): every key is always present,
`None` is `none`.  `callback` is the identity of a user callback. -/
structure LbfgsbOpts (α : Type) where
  m : Option Nat
  factr : α
  pgtol : Option α
  epsilon : Option α
  iprint : Option Int
  disp : Option Int
  maxfun : Option Nat
  maxiter : Nat
  callback : Option Nat
  maxls : Option Nat
  deriving Repr, DecidableEq

/-- What the optimiser is called with: the stored options (the code prunes the `None`s) with
`callback` replaced by a `Monitor` that wraps the stored callback. -/
structure LbfgsbCall (α : Type) where
  opts : LbfgsbOpts α
  monitorInner : Option Nat

/-- `LBFGSB.solve` on an object whose stored options are `o`: the result and the options the
object is left with.  Mirrors the three places where the code touches `_solver_kwargs`:
* `if "pgtol" not in self._solver_kwargs` — the constructor stores every key, so the key is
  present and the size-dependent default `1e-4 * prod(data.shape)` is never written;
* `self._solver_kwargs["callback"] = monitor` before the call (the service sees the monitor);
* `self._solver_kwargs["callback"] = monitor.callback` after it (the stored callback is back). -/
def lbfgsbSolveObj (tovec : Ktensor α → List α) (update : Ktensor α → List α → Ktensor α)
    (svc : LbfgsbCall α → (List α → α) → List α → Option α → List α × α)
    (o : LbfgsbOpts α) (objective : Ktensor α → α) (init : Ktensor α) (lb : Option α) :
    (Ktensor α × α) × LbfgsbOpts α :=
  let pgtolKeyPresent := true
  let o1 : LbfgsbOpts α := if pgtolKeyPresent then o else { o with pgtol := none }
  let monitorInner := o1.callback
  let call : LbfgsbCall α := ⟨o1, monitorInner⟩
  let r := lbfgsbSolve tovec update (svc call) objective init lb
  (r, { o1 with callback := monitorInner })

/-- `tovec(include_weights=False)`: the factor matrices one after the other, each column by
column. -/
def tovecF [Zero α] (K : Ktensor α) : List α :=
  K.factors.flatMap fun A => (Mat.transpose A).flatten

/-- `update(arange(ndims), data)`: consecutive blocks of `rows × ncomponents` numbers reshaped
column-major. -/
def updateF [Zero α] (K : Ktensor α) (data : List α) : Ktensor α :=
  let R := K.weights.length
  let rec go : List (Mat α) → List α → List (Mat α)
    | [], _ => []
    | A :: rest, d =>
      let n := A.length
      let blk := d.take (n * R)
      ((List.range n).map fun i => (List.range R).map fun j => blk.getD (i + n * j) 0)
        :: go rest (d.drop (n * R))
  { K with factors := go K.factors data }

/-- `LBFGSB.solve` with the in-place evaluations made explicit.  `lbfgsb_func_grad` writes every
vector the optimiser evaluates into the ONE model object (`model.update(...)`), so when the
optimiser returns, the model holds the LAST EVALUATED point — which need not be the solution
(a rejected line-search trial, a cut-off in mid line search).  The code then writes the
optimiser's returned solution vector into it and evaluates the objective there once more.
`svc f x0 lb` returns the pair `(x, value)` it
reports and the list of points it evaluated, in order.  (The objective closure evaluates
`update currentModel v`; `update` overwrites every factor, so that is `update init v`.) -/
def lbfgsbSolveInPlace (tovec : Ktensor α → List α) (update : Ktensor α → List α → Ktensor α)
    (svc : (List α → α) → List α → Option α → (List α × α) × List (List α))
    (objective : Ktensor α → α) (init : Ktensor α) (lb : Option α) : Ktensor α × α :=
  let x0 := tovec init
  let r := svc (fun v => objective (update init v)) x0 lb
  let modelAfterEvals := r.2.foldl update init
  let written := update modelAfterEvals r.1.1       -- `model.update(..., final_vector)`
  let evaluated := update written r.1.1             -- `lbfgsb_func_grad(final_vector)` writes it again
  (evaluated, objective evaluated)

end Opt
end Pyttb
