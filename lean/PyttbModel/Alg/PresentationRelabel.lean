/-
C18 — what "the same problem with the modes relabelled / the data scaled" means, as executable
definitions on the concrete models of C09 (`Alg/CpAls.lean`) and C10 (`Alg/TuckerAls.lean`).  Import-free.

Relabelling by `p` (the `order` argument of `permute`): mode `k` of the second problem is mode `p[k]` of the
first.  Per-mode lists are gathered by `p` (`gatherD l p d`, entry `k` = `l[p[k]]`); lists OF modes
(`dimorder`, `optdims`) are mapped through `invPerm p` (`qmap`).
-/
import PyttbModel.Alg.CpAls
import PyttbModel.Alg.TuckerAls
namespace Pyttb.CpAls

variable {α : Type}

/-- the Kruskal tensor with the factor list relabelled and the same weights -/
def relabelK (p : List Nat) (K : Ktensor α) : Ktensor α := ⟨K.weights, gatherD K.factors p []⟩

/-- the loop variables with the per-mode lists (`U`, `UtU`) relabelled; everything else as it is -/
def relabelSt (p : List Nat) (st : State α) : State α :=
  { st with U := gatherD st.U p [], UtU := gatherD st.UtU p [] }

/-- a list of modes of the original problem, as modes of the relabelled problem -/
def qmap (p : List Nat) (l : List Nat) : List Nat := l.map fun n => (invPerm p).getD n 0

/-- the options of the second run: `dimorder` (the default made explicit) and `optdims` mapped through
`invPerm p`, everything else unchanged -/
def relabelParams (p : List Nat) (N : Nat) (P : Params α) : Params α :=
  { P with dimorder := some (qmap p (P.dimorder.getD (List.range N))), optdims := P.optdims.map (qmap p) }

/-- the start of the second run -/
def relabelInit (p : List Nat) : Init α → Init α
  | .given K => .given (relabelK p K)
  | .random draws => .random (gatherD draws p [])
  | .nvecs => .nvecs
  | .unsupported => .unsupported

/-- `optdims` as reported by the second run -/
def relabelOd (p : List Nat) (given : Option (List Nat)) (od : List Nat) : List Nat :=
  match given with
  | none => od
  | some _ => qmap p od

section signs
variable [Zero α]

/-- mode `n` has a negative entry of largest magnitude in column `r` -/
def isNegMode (o : NumOps α) (K : Ktensor α) (r n : Nat) : Bool :=
  o.lt ((col (K.factors.getD n []) (K.factors.getD n []).length r).getD
    (argmaxAbs o (col (K.factors.getD n []) (K.factors.getD n []).length r)) 0) 0

/-- the modes of component `r` with a negative entry of largest magnitude, increasing -/
def negModes (o : NumOps α) (K : Ktensor α) (r : Nat) : List Nat :=
  (List.range K.factors.length).filter (isNegMode o K r)

/-- The choice `fixsigns()` makes does not depend on the mode order: in every component the number of
modes with a negative dominant entry is even (all of them are flipped) or at most one (none is). -/
def parityOK (o : NumOps α) (K : Ktensor α) : Bool :=
  (List.range K.weights.length).all fun r =>
    (negModes o K r).length % 2 == 0 || decide ((negModes o K r).length ≤ 1)

end signs
end Pyttb.CpAls

namespace Pyttb.Tk
variable {α : Type} [Mul α]

/-- `c • T` -/
def dscale (c : α) (T : Dense α) : Dense α := ⟨T.shape, T.data.map (c * ·)⟩

/-- a matrix with every entry multiplied by `t` -/
def mscale (t : α) (Z : Mat α) : Mat α := Z.map fun row => row.map (t * ·)

/-- an executed pass with the core and the residual scaled -/
def scaleRec (c : α) (r : IterRec α) : IterRec α :=
  ⟨r.iteration, r.factors, dscale c r.core, c * r.normresidual, r.fit, r.fitchange⟩

/-- what `tucker_als` returns, with the core and the residual scaled -/
def scaleOut (c : α) (o : TaOut α) : TaOut α :=
  ⟨⟨dscale c o.solution.core, o.solution.factors⟩, o.uinit, o.iters, c * o.normresidual, o.fit⟩

/-- the array with the modes relabelled by `p` (`tensor.permute(p)` by its entry-wise meaning: mode `k` of the
result is mode `p[k]` of `T`, entry `j'` is entry `gather j' (invPerm p)` of `T`) -/
def permuteD {β : Type} [Zero β] (p : List Nat) (T : Dense β) : Dense β :=
  Dense.ofFn (gather T.shape p) fun j' => T.get (gather j' (invPerm p))

/-- a record of one pass of `hosvd`'s mode loop, with the mode expressed in the relabelled problem -/
def relabelRec {β : Type} (p : List Nat) (r : ModeRec β) : ModeRec β := { r with k := (invPerm p).getD r.k 0 }

/-- the loop state of `hosvd` of the relabelled problem -/
def relabelH {β : Type} [Zero β] (p : List Nat) (st : HState β) : HState β :=
  ⟨permuteD p st.Y, gatherD st.factors p [], gather st.ranks p, st.trace.map (relabelRec p)⟩

/-- the state of Tucker-ALS's mode loop of the relabelled problem -/
def relabelSw {β : Type} [Zero β] (p : List Nat) (st : SweepSt β) : SweepSt β :=
  ⟨gatherD st.U p [], st.Utilde.map fun z => (permuteD p z.1, (invPerm p).getD z.2 0), st.calls⟩

/-- an executed pass of Tucker-ALS of the relabelled problem -/
def relabelIter {β : Type} [Zero β] (p : List Nat) (r : IterRec β) : IterRec β :=
  ⟨r.iteration, gatherD r.factors p [], permuteD p r.core, r.normresidual, r.fit, r.fitchange⟩

/-- the start of Tucker-ALS of the relabelled problem -/
def relabelTInit {β : Type} (p : List Nat) : Init β → Init β
  | .list Us => .list (gatherD Us p [])
  | .str s => .str s

/-- the Tucker tensor with core and factor list relabelled -/
def relabelT {β : Type} [Zero β] (p : List Nat) (T : Ttensor β) : Ttensor β :=
  ⟨permuteD p T.core, gatherD T.factors p []⟩

/-- what `tucker_als` returns for the relabelled problem -/
def relabelOut {β : Type} [Zero β] (p : List Nat) (o : TaOut β) : TaOut β :=
  ⟨relabelT p o.solution, gatherD o.uinit p [], o.iters, o.normresidual, o.fit⟩

end Pyttb.Tk
