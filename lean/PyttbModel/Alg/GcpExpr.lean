/-
Deep-embedded scalar expressions for the GCP loss / gradient handles of
`pyttb/gcp/handles.py` and the selection table of `pyttb/gcp/fg_setup.py`.
The terms themselves are *generated* from the Python source on every run
(`harness/translate/gen_handles.py` → `PyttbModel/Generated/Handles.lean`); this file
only fixes the expression language, its executable evaluation over `Float` (used by the
driver to cross-check the translator against the real handles) and the symbolic
differentiator `D` (proved correct over ℝ in `Lemmas/GcpExpr.lean`).
Import-free (core Lean only).
-/
namespace Pyttb

/-- The ten built-in objectives (`class Objectives(Enum)` of handles.py; the translator
checks that the enum still has exactly these members). -/
inductive Objective where
  | GAUSSIAN | BERNOULLI_ODDS | BERNOULLI_LOGIT | POISSON | POISSON_LOG
  | RAYLEIGH | GAMMA | HUBER | NEGATIVE_BINOMIAL | BETA
  deriving Repr, DecidableEq, BEq

def Objective.all : List Objective :=
  [.GAUSSIAN, .BERNOULLI_ODDS, .BERNOULLI_LOGIT, .POISSON, .POISSON_LOG,
   .RAYLEIGH, .GAMMA, .HUBER, .NEGATIVE_BINOMIAL, .BETA]

def Objective.name : Objective → String
  | .GAUSSIAN => "GAUSSIAN" | .BERNOULLI_ODDS => "BERNOULLI_ODDS"
  | .BERNOULLI_LOGIT => "BERNOULLI_LOGIT" | .POISSON => "POISSON"
  | .POISSON_LOG => "POISSON_LOG" | .RAYLEIGH => "RAYLEIGH" | .GAMMA => "GAMMA"
  | .HUBER => "HUBER" | .NEGATIVE_BINOMIAL => "NEGATIVE_BINOMIAL" | .BETA => "BETA"

/-- Lower bound on the model values returned by `fg_setup.setup`. -/
inductive Bound where
  | negInf
  | fin (q : Rat)
  deriving Repr, DecidableEq, BEq

/-- Scalar expressions in the model value `var`, the data value `data` and the one
optional extra parameter `param` (threshold / num_trials / b).
Booleans are numbers (NumPy multiplies arrays by boolean arrays): `lt a b` is `1` where
`a < b` and `0` elsewhere, `lnot a` is `1` where `a = 0` and `0` elsewhere; `ite c a b`
(`np.where(c, a, b)`, a conditional expression, `np.maximum` / `np.minimum`) is `a` where
`c ≠ 0` and `b` elsewhere. -/
inductive Expr where
  | var
  | data
  | param
  | const (q : Rat)
  | pi
  | add (a b : Expr)
  | sub (a b : Expr)
  | mul (a b : Expr)
  | div (a b : Expr)
  | neg (a : Expr)
  | powNat (a : Expr) (n : Nat)
  | powReal (a p : Expr)
  | log (a : Expr)
  | exp (a : Expr)
  | abs (a : Expr)
  | sign (a : Expr)
  | lt (a b : Expr)
  | lnot (a : Expr)
  | sqrt (a : Expr)
  | ite (c a b : Expr)
  deriving Repr, BEq

namespace Expr

/-- The expression does not mention the model value. -/
def noVar : Expr → Bool
  | var => false
  | data | param | const _ | pi => true
  | add a b | sub a b | mul a b | div a b | powReal a b | lt a b => a.noVar && b.noVar
  | neg a | powNat a _ | log a | exp a | abs a | sign a | lnot a | sqrt a => a.noVar
  | ite c a b => c.noVar && a.noVar && b.noVar

/-- The expression does not mention the extra parameter. -/
def noParam : Expr → Bool
  | param => false
  | var | data | const _ | pi => true
  | add a b | sub a b | mul a b | div a b | powReal a b | lt a b => a.noParam && b.noParam
  | neg a | powNat a _ | log a | exp a | abs a | sign a | lnot a | sqrt a => a.noParam
  | ite c a b => c.noParam && a.noParam && b.noParam

/-- The expression is a truth value (only `0` or `1`), syntactically: a comparison, the
negation of a truth value, or the product (`&`, `np.logical_and`) of two truth values. -/
def isBool : Expr → Bool
  | lt _ _ => true
  | lnot a => a.isBool
  | mul a b => a.isBool && b.isBool
  | _ => false

/-- Symbolic derivative with respect to the model value. -/
def D : Expr → Expr
  | var => const 1
  | data | param | const _ | pi => const 0
  | add a b => add a.D b.D
  | sub a b => sub a.D b.D
  | mul a b => add (mul a.D b) (mul a b.D)
  | div a b => div (sub (mul a.D b) (mul a b.D)) (powNat b 2)
  | neg a => neg a.D
  | powNat a n => mul (mul (const (n : Rat)) (powNat a (n - 1))) a.D
  | powReal a p => mul (mul p (powReal a (sub p (const 1)))) a.D
  | log a => div a.D a
  | exp a => mul (exp a) a.D
  | abs a => mul (sign a) a.D
  | sign _ => const 0
  | lt _ _ => const 0
  | lnot a => neg a.D
  | sqrt a => div a.D (mul (const 2) (sqrt a))
  | ite c a b => ite c a.D b.D

def ratToFloat (q : Rat) : Float := Float.ofInt q.num / Float.ofNat q.den

/-- The double nearest to π (`np.pi`). -/
def piF : Float := Float.ofBits 0x400921FB54442D18

def signF (v : Float) : Float := if v > 0 then 1 else if v < 0 then -1 else v

/-- Evaluation in IEEE doubles with the C library's `log`, `exp`, `pow` — what NumPy
computes entry by entry (up to the last-bit freedom of the vectorised kernels). -/
def evalF (x p m : Float) : Expr → Float
  | var => m
  | data => x
  | param => p
  | const q => ratToFloat q
  | pi => piF
  | add a b => a.evalF x p m + b.evalF x p m
  | sub a b => a.evalF x p m - b.evalF x p m
  | mul a b => a.evalF x p m * b.evalF x p m
  | div a b => a.evalF x p m / b.evalF x p m
  | neg a => - a.evalF x p m
  | powNat a n => Float.pow (a.evalF x p m) (Float.ofNat n)
  | powReal a q => Float.pow (a.evalF x p m) (q.evalF x p m)
  | log a => Float.log (a.evalF x p m)
  | exp a => Float.exp (a.evalF x p m)
  | abs a => Float.abs (a.evalF x p m)
  | sign a => signF (a.evalF x p m)
  | lt a b => if a.evalF x p m < b.evalF x p m then 1 else 0
  | lnot a => if a.evalF x p m == 0 then 1 else 0
  | sqrt a => Float.sqrt (a.evalF x p m)
  | ite c a b => if c.evalF x p m == 0 then b.evalF x p m else a.evalF x p m

/-- The point lies on a switching point of the expression as it is evaluated in doubles: an `abs` / `sign`
at zero, a square root of zero or a comparison at equality on the evaluated path.  There the symbolic derivative `D` need not be
the derivative (the differentiator's precondition `Defined` fails); the harness then compares the gradient
handle with one-sided difference quotients instead. -/
def onKink (x p m : Float) : Expr → Bool
  | var | data | param | const _ | pi => false
  | add a b | sub a b | mul a b | div a b | powReal a b => a.onKink x p m || b.onKink x p m
  | neg a | powNat a _ | log a | exp a | lnot a => a.onKink x p m
  | abs a | sign a | sqrt a => a.evalF x p m == 0 || a.onKink x p m
  | lt a b => a.evalF x p m == b.evalF x p m || a.onKink x p m || b.onKink x p m
  | ite c a b => c.onKink x p m || (if c.evalF x p m == 0 then b.onKink x p m else a.onKink x p m)

end Expr

/-- One row of the selection table of `fg_setup.setup`: the function handle, the
gradient handle, the lower bound, and whether the two handles are `partial`
applications binding the extra parameter. -/
structure SetupRow where
  fn : Expr
  grad : Expr
  lower : Bound
  hasParam : Bool
  deriving Repr, BEq

end Pyttb
