/-
CP-ALS (`pyttb/cp_als.py`), modelled branch by branch.  Import-free.

* The data tensor enters through the interface `Data` (its shape, `norm()`, `mttkrp`,
  `innerprod`, `nvecs`): dense, sparse, Tucker and sum tensors are all instances.
* The linear solver `np.linalg.solve(Y.T, Unew.T).T` is the service `Services.solve`
  (contract, used by the theorems and checked on every recorded call by the harness:
  the returned `I × R` matrix `A` satisfies `A · Y = Unew`).
* `sqrt`, `abs`, `<`, `== 0` and the literals come from `NumOps`.
* The scalar formulas (`normresidual`, `fit`, `fitchange`, stop test, column scale) are
  the ones GENERATED from the Python source (`Generated/CpAlsFormulas.lean`).
* The random stream and the printing are not part of the value computed; the random
  start is an input (`Init.random draws`).
-/
import PyttbModel.Core.Perm
import PyttbModel.Core.Denote
import PyttbModel.Generated.CpAlsFormulas
namespace Pyttb.CpAls

variable {α : Type}

/-- The data tensor as `cp_als` uses it. -/
structure Data (α : Type) where
  /-- `input_tensor.shape` -/
  shape : List Nat
  /-- `input_tensor.norm()` (a sum tensor answers `0`) -/
  norm : α
  /-- `input_tensor.mttkrp(U, n)` -/
  mttkrp : List (Mat α) → Nat → Mat α
  /-- `input_tensor.innerprod(M)` (only used for the final report when printing) -/
  innerprod : Ktensor α → α
  /-- `input_tensor.nvecs(n, r)`; `none` for a sum tensor (the code asserts) -/
  nvecs : Option (Nat → Nat → Mat α)

/-- External numerical services. -/
structure Services (α : Type) where
  /-- `np.linalg.solve(Y.T, B.T).T` for the update of mode `n` (the mode is only a tag that
  lets a recorded run be replayed; the contract `A · Y = B` does not depend on it);
  rejection = `LinAlgError`. -/
  solve : Nat → Mat α → Mat α → Except Reject (Mat α)

/-- The `init` argument. -/
inductive Init (α : Type) where
  | given (K : Ktensor α)
  /-- `"random"` with the matrices drawn by `np.random.uniform` (mode by mode) -/
  | random (draws : List (Mat α))
  | nvecs
  /-- any other value -/
  | unsupported

/-- The options of `cp_als` that influence the result. -/
structure Params (α : Type) where
  rank : Nat
  stoptol : α
  maxiters : Nat
  dimorder : Option (List Nat)
  optdims : Option (List Nat)
  /-- only `printitn > 0` matters for the values returned -/
  printing : Bool
  fixsigns : Bool

/-- The loop variables of `cp_als`. -/
structure State (α : Type) where
  U : List (Mat α)
  UtU : List (Mat α)
  weights : List α
  Umttkrp : Mat α
  fit : α
  normresidual : α
  fitchange : α
  /-- value of the loop variable `iteration` in the last executed pass -/
  iteration : Nat
  /-- `flag == 0` -/
  stop : Bool

/-- What `cp_als` returns: `M`, `init`, and the entries of `output`. -/
structure Output (α : Type) where
  M : Ktensor α
  init : Ktensor α
  iters : Nat
  normresidual : α
  fit : α
  dimorder : List Nat
  optdims : List Nat

section ops
variable [Add α] [Sub α] [Mul α] [Div α] [Neg α] [Zero α] [One α]

/-- `U.T @ U` for a matrix with `R` columns. -/
def gram (U : Mat α) (R : Nat) : Mat α :=
  tab R R fun a b => sumRange U.length fun i => U.get i a * U.get i b

/-- `np.prod(UtU, axis=2, where=[i != n for i in range(N)])`. -/
def coef (UtU : List (Mat α)) (N R n : Nat) : Mat α :=
  tab R R fun a b => prodOver ((List.range N).filter (· != n)) fun m => (UtU.getD m []).get a b

/-- `(Y == 0).all()` -/
def allZero (o : NumOps α) (Y : Mat α) : Bool := Y.all fun row => row.all o.isZero

/-- The guarded solve: `Unew = zeros` when `Y` is entirely zero, else the linear solve. -/
def solveStep (S : Services α) (o : NumOps α) (I rank n : Nat) (Y B : Mat α) : Except Reject (Mat α) :=
  if allZero o Y then pure (tab I rank fun _ _ => (0 : α)) else S.solve n Y B

/-- Column scaling: the weights of the columns of `A` (an `I × rank` matrix). -/
def colWeights (o : NumOps α) (iteration I rank : Nat) (A : Mat α) : List α :=
  (List.range rank).map fun r => Gen.colWeight o iteration (col A I r)

/-- `Unew / weights` unless all weights are zero. -/
def scaleCols (o : NumOps α) (I rank : Nat) (A : Mat α) (w : List α) : Mat α :=
  if w.all o.isZero then tab I rank fun i r => A.get i r
  else tab I rank fun i r => A.get i r / w.getD r 0

/-- The rest of the body of `for n in dimorder` once the solve has answered `A0`
(`last = dimorder[-1]`, `B = input_tensor.mttkrp(U, n)`). -/
def applyUpdate (o : NumOps α) (I rank iteration last n : Nat) (B A0 : Mat α) (st : State α) : State α :=
  let w := colWeights o iteration I rank A0
  let A' := scaleCols o I rank A0 w
  { st with U := st.U.set n A', UtU := st.UtU.set n (gram A' rank), weights := w,
            Umttkrp := if n == last then B else st.Umttkrp }

/-- The body of `for n in dimorder` for one mode. -/
def modeUpdate (D : Data α) (S : Services α) (o : NumOps α) (rank iteration last n : Nat)
    (st : State α) : Except Reject (State α) := do
  let I := D.shape.getD n 0
  -- Unew = input_tensor.mttkrp(U, n)
  let B := D.mttkrp st.U n
  let Y := coef st.UtU D.shape.length rank n
  let A0 ← solveStep S o I rank n Y B
  pure (applyUpdate o I rank iteration last n B A0 st)

/-- `np.sum(np.sum(M.factor_matrices[dimorder[-1]] * U_mttkrp, 0) * weights, 0)` -/
def iprodOf (rank I : Nat) (Ulast saved : Mat α) (w : List α) : α :=
  sumRange rank fun r => (sumRange I fun i => Ulast.get i r * saved.get i r) * w.getD r 0

/-- `ktensor.norm()`: `sqrt(abs(sum(outer(w, w) * prod_n (U_n.T @ U_n))))`. -/
def knormSq (w : List α) (U : List (Mat α)) : α :=
  let R := w.length
  sumRange R fun a => sumRange R fun b =>
    (w.getD a 0 * w.getD b 0) * prodOver (List.range U.length) fun n => (gram (U.getD n []) R).get a b

def knorm (o : NumOps α) (w : List α) (U : List (Mat α)) : α := o.sqrt (o.abs (knormSq w U))

/-- `normresidual`, `fit` from `normX`, `M.norm()` and an inner product, as in both places
of the code where they are computed. -/
def report (o : NumOps α) (normX normM iprod : α) : α × α :=
  if Gen.branchZero o normX then
    let nr := Gen.normresidualZero o normM iprod
    (nr, Gen.fitZero nr)
  else
    let nr := Gen.normresidual o normX normM iprod
    (nr, Gen.fit o nr normX)

/-- End of a pass: `fitchange`, the stop test, and the loop variables kept for the report. -/
def closePass (o : NumOps α) (stoptol : α) (iteration : Nat) (fitold nr fit : α) (st1 : State α) :
    State α :=
  let fc := Gen.fitchange o fitold fit
  { st1 with fit := fit, normresidual := nr, fitchange := fc, iteration := iteration,
             stop := Gen.stopTest o iteration fc stoptol }

/-- One pass of the main loop (`dims` = the reduced `dimorder`). -/
def iterStep (D : Data α) (S : Services α) (o : NumOps α) (rank : Nat) (stoptol : α)
    (dims : List Nat) (iteration : Nat) (st : State α) : Except Reject (State α) := do
  let fitold := st.fit
  let last := dims.getLastD 0
  let st1 ← dims.foldlM (fun s n => modeUpdate D S o rank iteration last n s) st
  -- M = ttb.ktensor(U, weights)
  let iprod := iprodOf rank (D.shape.getD last 0) (st1.U.getD last []) st1.Umttkrp st1.weights
  let normM := knorm o st1.weights st1.U
  let rf := report o D.norm normM iprod
  pure (closePass o stoptol iteration fitold rf.1 rf.2 st1)

/-- `for iteration in range(maxiters): …; if flag == 0: break`, started at pass `k` with
`fuel` passes left. -/
def loopFrom (step : Nat → State α → Except Reject (State α)) :
    Nat → Nat → State α → Except Reject (State α)
  | 0, _, st => .ok st
  | fuel + 1, k, st => do
    let st' ← step k st
    if st'.stop then .ok st' else loopFrom step fuel (k + 1) st'

/-! ### the final clean-up: `M.arrange()`, `M.fixsigns()` -/

/-- 2-norm of column `r`. -/
def colNorm2 (o : NumOps α) (A : Mat α) (r : Nat) : α :=
  o.sqrt (sumL ((col A A.length r).map fun x => x * x))

/-- One mode of `ktensor.normalize()`: scale every column with positive norm to norm one
(`1.0 / tmp * column`) and move the norm into the weight. -/
def normalizeMode (o : NumOps α) (K : Ktensor α) (n : Nat) : Ktensor α :=
  let R := K.weights.length
  let A := K.factors.getD n []
  let t := (List.range R).map fun r => colNorm2 o A r
  let A' := tab A.length R fun i r =>
    if o.lt 0 (t.getD r 0) then (o.ofNat 1 / t.getD r 0) * A.get i r else A.get i r
  ⟨(List.range R).map fun r => K.weights.getD r 0 * t.getD r 0, K.factors.set n A'⟩

/-- `ktensor.normalize()` with default arguments. -/
def normalize (o : NumOps α) (K : Ktensor α) : Ktensor α :=
  let K1 := (List.range K.factors.length).foldl (normalizeMode o) K
  let R := K1.weights.length
  -- negative weights: flip the column of the first factor
  let A0 := K1.factors.getD 0 []
  let A0' := tab A0.length R fun i r => if o.lt (K1.weights.getD r 0) 0 then - A0.get i r else A0.get i r
  ⟨K1.weights.map fun w => if o.lt w 0 then - w else w, K1.factors.set 0 A0'⟩

/-- `np.argsort(w)[::-1]` (stable ascending sort, reversed). -/
def argsortDesc (o : NumOps α) (w : List α) : List Nat :=
  ((((List.range w.length).zip w).mergeSort fun a b => !o.lt b.2 a.2).reverse).map (·.1)

/-- Select the columns `p` of every factor and the weights `p`. -/
def permuteComponents (K : Ktensor α) (p : List Nat) : Ktensor α :=
  ⟨p.map fun r => K.weights.getD r 0,
   K.factors.map fun A => tab A.length p.length fun i r => A.get i (p.getD r 0)⟩

/-- `ktensor.arrange()` without arguments: normalise, then sort by decreasing weight. -/
def arrange (o : NumOps α) (K : Ktensor α) : Ktensor α :=
  let K1 := normalize o K
  permuteComponents K1 (argsortDesc o K1.weights)

/-- `np.argmax(abs(v))`: first position of the largest absolute value. -/
def argmaxAbs (o : NumOps α) (v : List α) : Nat :=
  let rec go (best : α) (bi k : Nat) : List α → Nat
    | [] => bi
    | y :: ys => if o.lt best (o.abs y) then go (o.abs y) k (k + 1) ys else go best bi (k + 1) ys
  match v with
  | [] => 0
  | x :: xs => go (o.abs x) 0 1 xs

/-- The modes whose column `r` is flipped by `fixsigns()`: of the modes whose entry of
largest magnitude is negative, the first `2 * floor(count / 2)`. -/
def flippedModes (o : NumOps α) (K : Ktensor α) (r : Nat) : List Nat :=
  let neg := (List.range K.factors.length).filter fun n =>
    let A := K.factors.getD n []
    let c := col A A.length r
    o.lt (c.getD (argmaxAbs o c) 0) 0
  neg.take (2 * (neg.length / 2))

/-- `ktensor.fixsigns()` without a reference tensor. -/
def fixsigns (o : NumOps α) (K : Ktensor α) : Ktensor α :=
  let R := K.weights.length
  ⟨K.weights, (List.range K.factors.length).map fun n =>
    let A := K.factors.getD n []
    tab A.length R fun i r => if (flippedModes o K r).contains n then - A.get i r else A.get i r⟩

/-! ### the whole function -/

/-- `optdims` given by the caller: distinct entries, every entry a mode of the tensor. -/
def optdimsOK (od : List Nat) (N : Nat) : Bool :=
  od.all (fun d => decide (d < N)) && (od.eraseDups.length == od.length)

/-- `optdims`: all modes by default; a given list must consist of distinct modes (4059b7d). -/
def resolveOptdims (N : Nat) : Option (List Nat) → Except Reject (List Nat)
  | none => pure (List.range N)
  | some od => if optdimsOK od N then pure od else .error .reject

/-- "Set up and error checking on initial guess". -/
def resolveInit (D : Data α) (rank : Nat) (dimorder : List Nat) : Init α → Except Reject (Ktensor α)
  | .given K =>
    if K.factors.length != D.shape.length then .error .reject
    else if K.weights.length != rank then .error .reject
    else if dimorder.all fun n =>
        let A := K.factors.getD n []
        A.length == D.shape.getD n 0 && A.all fun row => row.length == rank
      then pure K else .error .reject
  | .random draws =>
    pure ⟨List.replicate rank 1, (List.range D.shape.length).map fun n => draws.getD n []⟩
  | .nvecs =>
    match D.nvecs with
    | none => .error .reject
    | some f => pure ⟨List.replicate rank 1, (List.range D.shape.length).map fun n => f n rank⟩
  | .unsupported => .error .reject

/-- Validation of `dimorder`, `optdims`, `rank` and the start; returns
`(dimorder_in, optdims, reduced dimorder, init)`. -/
def setup (D : Data α) (P : Params α) (init : Init α) :
    Except Reject (List Nat × List Nat × List Nat × Ktensor α) :=
  let N := D.shape.length
  let dimorder := P.dimorder.getD (List.range N)
  if !isPermOf dimorder N then .error .reject else
  match resolveOptdims N P.optdims with
  | .error e => .error e
  | .ok optdims =>
    if P.rank == 0 then .error .reject else
    match resolveInit D P.rank dimorder init with
    | .error e => .error e
    | .ok K =>
      let dims := dimorder.filter fun d => optdims.contains d
      -- `dimorder[-1]` of an empty list raises
      if dims.isEmpty then .error .reject
      else .ok (dimorder, optdims, dims, K)

/-- The state before the first pass. -/
def initState (D : Data α) (rank : Nat) (dims : List Nat) (K : Ktensor α) : State α :=
  { U := K.factors,
    UtU := K.factors.map fun A => gram A rank,
    weights := [],
    Umttkrp := tab (D.shape.getD (dims.getLastD 0) 0) rank fun _ _ => 0,
    fit := 0, normresidual := 0, fitchange := 0, iteration := 0, stop := false }

/-- Everything after the loop: `arrange`, optional `fixsigns`, the printing-only
recomputation of the report, the output dictionary. -/
def finish (D : Data α) (o : NumOps α) (P : Params α) (dimorderIn optdims : List Nat)
    (K : Ktensor α) (st : State α) : Output α :=
  let M0 : Ktensor α := ⟨st.weights, st.U⟩
  let M1 := arrange o M0
  let M := if P.fixsigns then fixsigns o M1 else M1
  let rf :=
    if P.printing then report o D.norm (knorm o M.weights M.factors) (D.innerprod M)
    else (st.normresidual, st.fit)
  { M := M, init := K, iters := st.iteration, normresidual := rf.1, fit := rf.2,
    dimorder := dimorderIn, optdims := optdims }

/-- `cp_als(input_tensor, rank, …)`. -/
def run (D : Data α) (S : Services α) (o : NumOps α) (P : Params α) (init : Init α) :
    Except Reject (Output α) := do
  let (dimorderIn, optdims, dims, K) ← setup D P init
  -- `M` is unbound after an empty loop
  if P.maxiters == 0 then .error .reject
  let st ← loopFrom (iterStep D S o P.rank P.stoptol dims) P.maxiters 0 (initState D P.rank dims K)
  pure (finish D o P dimorderIn optdims K st)

end ops
end Pyttb.CpAls
