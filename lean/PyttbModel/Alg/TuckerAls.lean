/-
C10 — model of `pyttb/tucker_als.py`.

Services (parameters; nothing is assumed about them here):
* `nvecs c W n r`   — the `c`-th call of `tensor.nvecs`: `W.nvecs(n, r)`;
* `uniform c m p`   — the `c`-th call of `np.random.uniform(0, 1, (m, p))`.
`None` entries of the Python factor list (the first mode of `dimorder` is never initialised
by "random" / "nvecs") are the empty matrix `[]`; any use of it in a product is rejected the
way the Python code fails on `None`.  Printing is not modelled.  The scalar formulas
(`normresidual`, `fit`, `fitchange`, the stop test, the reported `iters`) are the definitions
regenerated from the Python source in `Generated/TuckerFormulas.lean`.  Import-free.
-/
import PyttbModel.Alg.Hosvd
namespace Pyttb
namespace Tk

variable {α : Type}

/-- The `init` argument: a string or a list of matrices. -/
inductive Init (α : Type) where
  | str (s : String)
  | list (Us : List (Mat α))
  deriving Repr

/-- One executed pass of `for iteration in range(maxiters):`. -/
structure IterRec (α : Type) where
  iteration : Nat
  factors : List (Mat α)
  core : Dense α
  normresidual : α
  fit : α
  fitchange : α
  deriving Repr

/-- What `tucker_als` returns: the solution, the initial guess, the output dictionary. -/
structure TaOut (α : Type) where
  solution : Ttensor α
  uinit : List (Mat α)
  iters : Nat
  normresidual : α
  fit : α

section alg
variable [Add α] [Sub α] [Mul α] [Zero α] [One α]

/-- `tensor.norm()`. -/
def tnorm (ops : NumOps α) (T : Dense α) : α := ops.sqrt (normSq T)

/-- `rank = parse_one_d(rank); if len(rank) == 1: rank = rank.repeat(N)` (the length test that
follows, commit 11afd42, is in `tuckerAlsRun`). -/
def parseRank (rank : List Nat) (N : Nat) : List Nat :=
  match rank with
  | [r] => List.replicate N r
  | _ => rank

/-- `rank[n]` (an `IndexError` when the vector is too short). -/
def rankAt (rank : List Nat) (n : Nat) : Except Reject Nat :=
  match rank[n]? with
  | some r => .ok r
  | none => .error .reject

/-- State of the mode loop inside one iteration: factors, the last `Utilde`, number of
`nvecs` calls made so far. -/
structure SweepSt (α : Type) where
  U : List (Mat α)
  Utilde : Option (Dense α × Nat)
  calls : Nat

/-- One pass of `for n in dimorder:` — project on all other factors, replace factor `n` by the
leading vectors of the result. -/
def sweepStep (nvecs : Nat → Dense α → Nat → Nat → Mat α) (X : Dense α) (rank : List Nat)
    (st : SweepSt α) (n : Nat) : Except Reject (SweepSt α) :=
  match ttmExcl X st.U n true with
  | .error e => .error e
  | .ok Ut =>
    match rankAt rank n with
    | .error e => .error e
    | .ok r => .ok ⟨st.U.set n (nvecs st.calls Ut n r), some (Ut, n), st.calls + 1⟩

/-- The body of one iteration up to the core: the sweep, then
`core = Utilde.ttm(U, n, transpose=True)` with `n` the last mode of `dimorder`. -/
def sweep (nvecs : Nat → Dense α → Nat → Nat → Mat α) (X : Dense α) (rank order : List Nat)
    (U : List (Mat α)) (calls : Nat) : Except Reject (List (Mat α) × Dense α × Nat) :=
  match order.foldlM (sweepStep nvecs X rank) ⟨U, none, calls⟩ with
  | .error e => .error e
  | .ok st =>
    match st.Utilde with
    | none => .error .reject
    | some (Ut, n) =>
      match ttmDims Ut st.U [n] true with
      | .error e => .error e
      | .ok core => .ok (st.U, core, st.calls)

/-- `for iteration in range(maxiters):` with `fuel` passes left; returns the executed passes in
order (the last one is the state the code leaves the loop with). -/
def iterate (ops : NumOps α) (nvecs : Nat → Dense α → Nat → Nat → Mat α) (X : Dense α) (normX stoptol : α)
    (rank order : List Nat) : (fuel : Nat) → (iteration : Nat) → (U : List (Mat α)) → (fit : α) →
    (calls : Nat) → Except Reject (List (IterRec α))
  | 0, _, _, _, _ => .ok []
  | fuel + 1, iteration, U, fitold, calls =>
    match sweep nvecs X rank order U calls with
    | .error e => .error e
    | .ok (U', core, calls') =>
      let normresidual := Gen.normresidual ops normX (tnorm ops core)
      let fit := Gen.fit ops normresidual normX
      let fitchange := Gen.fitchange ops fitold fit
      let r : IterRec α := ⟨iteration, U', core, normresidual, fit, fitchange⟩
      if Gen.stopTest ops fitchange stoptol then .ok [r]
      else
        match iterate ops nvecs X normX stoptol rank order fuel (iteration + 1) U' fit calls' with
        | .error e => .error e
        | .ok rest => .ok (r :: rest)

/-- `Uinit[n].shape != (input_tensor.shape[n], rank[n])` for one mode of a given list. -/
def checkInitShape (X : Dense α) (rank : List Nat) (Us : List (Mat α)) (n : Nat) : Except Reject Unit :=
  match rankAt rank n with
  | .error e => .error e
  | .ok r =>
    let A := Us.getD n []
    if A.nrows == X.shape.getD n 0 && A.ncols == r then .ok () else .error .reject

/-- `Uinit[n] = <service>(...)` for one mode; the state is the list and the number of calls. -/
def fillInit (svc : Nat → Nat → Nat → Mat α) (rank : List Nat)
    (st : List (Mat α) × Nat) (n : Nat) : Except Reject (List (Mat α) × Nat) :=
  match rankAt rank n with
  | .error e => .error e
  | .ok r => .ok (st.1.set n (svc st.2 n r), st.2 + 1)

/-- The initial guess `Uinit` and the number of `nvecs` calls it took. -/
def initGuess (nvecs : Nat → Dense α → Nat → Nat → Mat α) (uniform : Nat → Nat → Nat → Mat α)
    (X : Dense α) (rank order : List Nat) (init : Init α) : Except Reject (List (Mat α) × Nat) :=
  let N := X.shape.length
  match init with
  | .list Us =>
    if Us.length != N then .error .reject
    else
      match order.tail.mapM (checkInitShape X rank Us) with
      | .error e => .error e
      | .ok _ => .ok (Us, 0)
  | .str s =>
    if s.toLower == "random" then
      match order.tail.foldlM (fillInit (fun c n r => uniform c (X.shape.getD n 0) r) rank)
          (List.replicate N [], 0) with
      | .error e => .error e
      | .ok st => .ok (st.1, 0)
    else if s.toLower == "nvecs" || s.toLower == "eigs" then
      order.tail.foldlM (fillInit (fun c n r => nvecs c X n r) rank) (List.replicate N [], 0)
    else .error .reject

/-- `tucker_als(input_tensor, rank, stoptol, maxiters, dimorder, init, printitn=0)`; also returns
the executed iterations.  `maxiters = 0` passes the option check and then fails on the unbound
`core` (rejected); negative limits are rejected by the check. -/
def tuckerAlsRun (ops : NumOps α) (nvecs : Nat → Dense α → Nat → Nat → Mat α)
    (uniform : Nat → Nat → Nat → Mat α) (X : Dense α) (rank : List Nat) (stoptol : α) (maxiters : Int)
    (dimorder : Option (List Nat)) (init : Init α) : Except Reject (TaOut α × List (IterRec α)) :=
  let N := X.shape.length
  let normX := tnorm ops X
  if maxiters < 0 then .error .reject
  else
    let rank := parseRank rank N
    -- `if len(rank) != N: raise` (11afd42)
    if rank.length != N then .error .reject
    -- `if np.any(rank < 1) or np.any(rank > shape): raise` (35fe719; negative entries: `tuckerAlsRunI`)
    else if rank.any (fun r => decide (r < 1)) || ranksExceed rank X.shape then .error .reject
    else
    let order := modeOrder dimorder N
    if !isPermOf order N then .error .reject
    else
      match initGuess nvecs uniform X rank order init with
      | .error e => .error e
      | .ok (Uinit, calls) =>
        match iterate ops nvecs X normX stoptol rank order maxiters.toNat 0 Uinit (0 : α) calls with
        | .error e => .error e
        | .ok recs =>
          match recs.getLast? with
          | none => .error .reject
          | some r =>
            match mkTtensor r.core r.factors with
            | .error e => .error e
            | .ok T => .ok (⟨T, Uinit, Gen.itersReported r.iteration, r.normresidual, r.fit⟩, recs)

/-- The rank argument as Python integers: a negative entry fails the test `rank < 1` (35fe719). -/
def tuckerAlsRunI (ops : NumOps α) (nvecs : Nat → Dense α → Nat → Nat → Mat α)
    (uniform : Nat → Nat → Nat → Mat α) (X : Dense α) (rank : List Int) (stoptol : α) (maxiters : Int)
    (dimorder : Option (List Nat)) (init : Init α) : Except Reject (TaOut α × List (IterRec α)) :=
  if maxiters < 0 then .error .reject
  else if rank.any (fun x => decide (x < 0)) then
    -- after `repeat`, a too long / too short vector is rejected by the length test, any other by `rank < 1`
    .error .reject
  else tuckerAlsRun ops nvecs uniform X (rank.map Int.toNat) stoptol maxiters dimorder init

def tuckerAls (ops : NumOps α) (nvecs : Nat → Dense α → Nat → Nat → Mat α)
    (uniform : Nat → Nat → Nat → Mat α) (X : Dense α) (rank : List Nat) (stoptol : α) (maxiters : Int)
    (dimorder : Option (List Nat)) (init : Init α) : Except Reject (TaOut α) :=
  (tuckerAlsRun ops nvecs uniform X rank stoptol maxiters dimorder init).map (·.1)

end alg
end Tk
end Pyttb
