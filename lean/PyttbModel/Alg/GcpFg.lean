/-
Model of the tensor-level GCP evaluation: `pyttb/gcp/fg.py::evaluate` (exact objective
and gradients) and `pyttb/gcp/fg_est.py::estimate` / `estimate_helper` (sampled
estimator).  Follows the code step by step; polymorphic in the scalar (executed at `Rat`
by the driver, reasoned about over ℝ / commutative rings in `Lemmas/GcpFg.lean`).
Import-free.

`ktensor.full` enters as the array the Kruskal tensor denotes (its kernel belongs to
property C01) and `tensor.mttkrps` as the defining sum of the matricised-tensor-times-
Khatri-Rao product, one matrix per mode (its kernels belong to property C02), with the
weights of a Kruskal operand applied column-wise (`evaluate` hands the model itself to
`mttkrps`, /repo 05825c3, so the model weights enter the gradients).
-/
import PyttbModel.Core.Denote
namespace Pyttb

variable {α : Type}

/-- a scalar loss / gradient handle: `(data value, model value) ↦ value` -/
abbrev Handle (α : Type) := α → α → α

/-- what `evaluate` / `estimate` return: the objective value and / or one gradient
matrix per mode, depending on which handles were given -/
structure FG (α : Type) where
  F : Option α
  G : Option (List (Mat α))
  deriving Repr, BEq

/-- NumPy `*` of two equally shaped matrices. -/
def Mat.hadamard [Mul α] (A B : Mat α) : Mat α := List.zipWith (List.zipWith (· * ·)) A B

/-- `np.sum(A, axis=1)` -/
def Mat.rowSums [Add α] [Zero α] (A : Mat α) : List α := A.map List.sum

/-- `ktensor.full()`: the dense array the Kruskal tensor denotes. -/
def Ktensor.fullD [Add α] [Mul α] [One α] [Zero α] (K : Ktensor α) : Dense α :=
  Dense.ofFn K.shape K.get

/-- `∏_{n ≠ k} Uₙ[iₙ, r]` -/
def compExcept [Mul α] [One α] [Zero α] (U : List (Mat α)) (k r : Nat) (i : List Nat) : α :=
  (List.zipWith (fun A ik => Mat.get A ik r) (U.eraseIdx k) (i.eraseIdx k)).prod

/-- `T.mttkrp(U, k)` by its definition: entry `(a, r)` is
`Σ_{i : iₖ = a} T[i] ∏_{n ≠ k} Uₙ[iₙ, r]`. -/
def mttkrpDef [Add α] [Mul α] [One α] [Zero α] (T : Dense α) (U : List (Mat α)) (R k : Nat) : Mat α :=
  (List.range (T.shape.getD k 0)).map fun a => (List.range R).map fun r =>
    ((allSubs T.shape).map fun i =>
      if i.getD k 0 = a then T.get i * compExcept U k r i else 0).sum

/-- `T.mttkrps(U)`: all modes. -/
def mttkrpsDef [Add α] [Mul α] [One α] [Zero α] (T : Dense α) (U : List (Mat α)) (R : Nat) :
    List (Mat α) :=
  (List.range T.shape.length).map (mttkrpDef T U R)

/-- `v * weights` for a result matrix `v` (rows × components) and the weight vector: every
column is multiplied by the weight of its component. -/
def scaleCols [Mul α] (M : Mat α) (w : List α) : Mat α := M.map fun row => List.zipWith (· * ·) row w

/-- `T.mttkrps(K)` with a Kruskal operand: the factor matrices give the products, and every
column of every mode's result carries the weight of its component. -/
def mttkrpsK [Add α] [Mul α] [One α] [Zero α] (T : Dense α) (K : Ktensor α) : List (Mat α) :=
  (mttkrpsDef T K.factors K.ncomp).map fun V => scaleCols V K.weights

/-- `Y = handle(data.data, full_model.data)` entry by entry (F order). -/
def applyHandle (h : Handle α) (xs ms : List α) : List α := List.zipWith h xs ms

/-- `Y *= weights` when weights are given. -/
def applyWeights [Mul α] (Y : List α) : Option (Dense α) → List α
  | none => Y
  | some W => List.zipWith (· * ·) Y W.data

/-- `fg.evaluate(model, data, weights, function_handle, gradient_handle)`.
Rejected: no handle at all; fewer than two modes (`ktensor.full` / `mttkrps` need two);
data or weights whose shape is not the model's (NumPy cannot combine them entry by
entry). -/
def evaluate [Add α] [Mul α] [One α] [Zero α] (K : Ktensor α) (X : Dense α) (W : Option (Dense α))
    (f g : Option (Handle α)) : Except Reject (FG α) :=
  if f.isNone && g.isNone then .error .reject
  else if K.factors.length < 2 then .error .reject
  else if X.shape ≠ K.shape then .error .reject
  else if (match W with | none => false | some W => decide (W.shape ≠ K.shape)) then .error .reject
  else
    let M := K.fullD
    let F := f.map fun f => (applyWeights (applyHandle f X.data M.data) W).sum
    let G := g.map fun g =>
      mttkrpsK ⟨K.shape, applyWeights (applyHandle g X.data M.data) W⟩ K
    .ok ⟨F, G⟩

/-! ### the sampled estimator -/

/-- `A[idx, :]`; NumPy raises on an index past the last row. -/
def gatherRows (A : Mat α) (idx : List Nat) : Except Reject (Mat α) :=
  idx.mapM fun i => match A[i]? with
    | some row => .ok row
    | none => .error .reject

/-- first loop of `estimate_helper`: `Zexp[k] = Zexp[k-1] * Uexp[k-1]` for `k = 2 … ndim-1` -/
def zexpForward [Mul α] (Uexp : List (Mat α)) (ndim : Nat) (Z : List (Mat α)) : List (Mat α) :=
  (List.range' 2 (ndim - 2)).foldl
    (fun Z k => Z.set k (Mat.hadamard (Z.getD (k - 1) []) (Uexp.getD (k - 1) []))) Z

/-- one iteration of the second loop: `Zexp[k] *= Zexp[0]; Zexp[0] *= Uexp[k]` -/
def zexpBackStep [Mul α] (Uexp : List (Mat α)) (Z : List (Mat α)) (k : Nat) : List (Mat α) :=
  let Z' := Z.set k (Mat.hadamard (Z.getD k []) (Z.getD 0 []))
  Z'.set 0 (Mat.hadamard (Z'.getD 0 []) (Uexp.getD k []))

/-- second loop of `estimate_helper`: `k = ndim-2, …, 1` -/
def zexpBackward [Mul α] (Uexp : List (Mat α)) (ndim : Nat) (Z : List (Mat α)) : List (Mat α) :=
  (List.range' 1 (ndim - 2)).reverse.foldl (zexpBackStep Uexp) Z

/-- the exploded `Zexp` list from the exploded factor rows -/
def zexpOf [Mul α] (Uexp : List (Mat α)) (ndim : Nat) : List (Mat α) :=
  let Z0 : List (Mat α) := List.replicate ndim []
  let Z1 := Z0.set 1 (Uexp.getD 0 [])
  let Z2 := zexpForward Uexp ndim Z1
  let Z3 := Z2.set 0 (Uexp.getD (ndim - 1) [])
  zexpBackward Uexp ndim Z3

/-- `estimate_helper(factors, subs)`: model values at the sampled subscripts and the
exploded `Zexp[k]` (Hadamard product of all gathered factor rows except mode `k`).
No samples: `([], [])`.  Rejected: a subscript past a factor's last row, more subscript
columns than factors, fewer than two subscript columns (`Zexp[1] = …` fails). -/
def estimateHelper [Add α] [Mul α] [Zero α] (factors : List (Mat α)) (subs : List (List Nat)) :
    Except Reject (List α × List (Mat α)) :=
  match subs with
  | [] => .ok ([], [])
  | s0 :: _ =>
    let ndim := s0.length
    if ndim > factors.length then .error .reject
    else do
      let Uexp ← (List.range ndim).mapM fun k =>
        gatherRows (factors.getD k []) (subs.map fun s => s.getD k 0)
      if ndim < 2 then .error .reject
      else
        let Zexp := zexpOf Uexp ndim
        let mvals := Mat.rowSums (Mat.hadamard (Zexp.getD (ndim - 1) []) (Uexp.getD (ndim - 1) []))
        .ok (mvals, Zexp)

/-- `Y[crng] -= handle(0, model_vals[crng])` (scaled by the sample weight for the
gradient): every listed position is corrected once. -/
def crngCorrect [Sub α] [Mul α] [Zero α] (h : Handle α) (Y mvals : List α) (scale : Option (List α)) :
    Option (List Nat) → List α
  | none => Y
  | some crng =>
    (List.range Y.length).map fun s =>
      if crng.contains s then
        Y.getD s 0 - (match scale with
                      | none => h 0 (mvals.getD s 0)
                      | some w => w.getD s 0 * h 0 (mvals.getD s 0))
      else Y.getD s 0

/-- `S.dot(Zexp[k])` with `S` the `rows × nsamples` sparse matrix holding `Y[s]` at
`(subs[s, k], s)`: entry `(a, r)` is `Σ_{s : subs[s,k] = a} Y[s] · Zexp[k][s, r]`. -/
def accumulate [Add α] [Mul α] [Zero α] (rows R : Nat) (idx : List Nat) (Y : List α) (Z : Mat α) : Mat α :=
  (List.range rows).map fun a => (List.range R).map fun r =>
    ((List.range idx.length).map fun s =>
      if idx.getD s 0 = a then Y.getD s 0 * Z.get s r else 0).sum

/-- `fg_est.estimate(model, data_subs, data_vals, weights, function_handle,
gradient_handle, lambda_check, crng)` on the path without re-normalisation
(`lambda_check = False`, or all model weights equal to one).
Rejected: no handle; value / weight vectors whose length is not the number of samples;
whatever `estimate_helper` rejects; a correction index past the last sample; for the
gradient: no samples, or a number of subscript columns different from the model's
number of modes. -/
def estimate [Add α] [Sub α] [Mul α] [Zero α] (K : Ktensor α) (subs : List (List Nat))
    (xvals w : List α) (f g : Option (Handle α)) (crng : Option (List Nat)) :
    Except Reject (FG α) :=
  if f.isNone && g.isNone then .error .reject
  else if xvals.length ≠ subs.length || w.length ≠ subs.length then .error .reject
  else if (match crng with | none => false | some c => c.any fun s => decide (subs.length ≤ s)) then
    .error .reject
  else do
    let (mvals, Zexp) ← estimateHelper K.factors subs
    let F := f.map fun f =>
      let Y := crngCorrect f (applyHandle f xvals mvals) mvals none crng
      (List.zipWith (· * ·) w Y).sum
    match g with
    | none => .ok ⟨F, none⟩
    | some g =>
      let ndim := (subs.headD []).length
      if subs.isEmpty || ndim ≠ K.factors.length then .error .reject
      else
        let Y := crngCorrect g (List.zipWith (· * ·) w (applyHandle g xvals mvals)) mvals (some w) crng
        let G := (List.range K.factors.length).map fun k =>
          accumulate (K.factors.getD k []).length K.ncomp (subs.map fun s => s.getD k 0) Y (Zexp.getD k [])
        .ok ⟨F, some G⟩

end Pyttb
