/-
C18 — abstract models for "results do not depend on how the problem is presented".
Import-free (core Lean only).  Everything lives in `Pyttb.Pres` so that it cannot
clash with the algorithm models of C09–C13; it is deliberately small and stands on
its own: the decomposition drivers are seen

* as clients of a data ORACLE (the members of the data object they touch),
* as a LOOP `state ↦ step state` with a stop test and a printing branch,
* as functions of the DRAW SEQUENCE of the global NumPy stream,
* and, for the scale / relabel clauses, through the matrix-level mode updates
  (those live in `Lemmas/Presentation.lean` because they need Mathlib matrices).
-/
import PyttbModel.Core.Arr
namespace Pyttb.Pres

/-! ## 1. The data object as an oracle -/

/-- What a driver may ask its data object.  The constructors are the members that
`cp_als`, `tucker_als`, `hosvd`, `cp_apr`, `gcp_opt` touch (recorded on the real code by
the harness with a recording subclass of `tensor` / `sptensor`); `stored` stands for
everything that is specific to ONE representation (`subs`, `vals`, `nnz`, `order`,
`to_tenmat`, `data`, the class itself). -/
inductive Query (α : Type) where
  | shape                                        -- `shape`, `ndims`: metadata, read by every driver (cp_als, cp_apr, gcp_opt
                                                 -- for the guess; hosvd / tucker_als also to validate the requested ranks)
  | normSq                                       -- `norm()` (squared)
  | mttkrp (U : List (Mat α)) (n : Nat)          -- `mttkrp(U, n)`
  | innerK (w : List α) (U : List (Mat α))       -- `innerprod(ktensor)`
  | ttmT (U : List (Mat α)) (skip : Option Nat)  -- `ttm(U, exclude_dims=n, transpose=True)` / all modes
  | gram (n : Nat)                               -- Gram matrix of the mode-n unfolding (`nvecs`, `hosvd`)
  | entry (i : List Nat)                         -- one entry (element-wise objective of GCP, Poisson terms)
  | stored (what : Nat)                          -- representation specific, NOT part of the interface

/-- The representation-independent interface: every query except `stored`. -/
def Query.isIface {α : Type} : Query α → Bool
  | .stored _ => false
  | _ => true

/-- Answers. -/
inductive Answer (α : Type) where
  | nats (l : List Nat)
  | scalar (a : α)
  | mat (m : Mat α)
  | dense (T : Dense α)
  | none

/-- `f` looks at its oracle only through queries satisfying `P`. -/
def UsesOnly {Q A β : Type} (P : Q → Prop) (f : (Q → A) → β) : Prop :=
  ∀ d₁ d₂ : Q → A, (∀ q, P q → d₁ q = d₂ q) → f d₁ = f d₂

/-- `k` applications of `f`. -/
def iter {σ : Type} (f : σ → σ) : Nat → σ → σ
  | 0, s => s
  | k + 1, s => iter f k (f s)

/-- The sequence of the first `k+1` states. -/
def trace {σ : Type} (f : σ → σ) : Nat → σ → List σ
  | 0, s => [s]
  | k + 1, s => s :: trace f k (f s)

/-! ### a concrete client: one CP-ALS mode update / sweep written against the oracle -/

/-- State of the ALS iteration: the factor matrices and the last reported number. -/
structure AlsState (α : Type) where
  U : List (Mat α)
  fit : α

def asMat {α : Type} : Answer α → Mat α
  | .mat m => m
  | _ => []

def asScalar {α : Type} [Zero α] : Answer α → α
  | .scalar a => a
  | _ => 0

/-- One mode update of `cp_als`: `Unew = data.mttkrp(U, n)`, then the solve against the
Hadamard product of the other Gram matrices and the column normalisation; these two are
parameters (`solveNorm`) because they never look at the data. -/
def alsUpdate {α : Type} (solveNorm : List (Mat α) → Nat → Mat α → Mat α)
    (d : Query α → Answer α) (U : List (Mat α)) (n : Nat) : List (Mat α) :=
  U.set n (solveNorm U n (asMat (d (.mttkrp U n))))

/-- One outer iteration: the mode updates in `dimorder`, then the fit from `norm()` and the
last MTTKRP (`fitOf` is the anchored scalar formula; it sees the data only through `normSq`). -/
def alsSweep {α : Type} [Zero α] (solveNorm : List (Mat α) → Nat → Mat α → Mat α)
    (fitOf : α → List (Mat α) → Mat α → α) (dimorder : List Nat)
    (d : Query α → Answer α) (s : AlsState α) : AlsState α :=
  let U := dimorder.foldl (alsUpdate solveNorm d) s.U
  let last := dimorder.getLast?.getD 0
  -- the code reuses the MTTKRP of the last mode, computed BEFORE that mode was updated
  let Ubefore := dimorder.dropLast.foldl (alsUpdate solveNorm d) s.U
  ⟨U, fitOf (asScalar (d .normSq)) U (asMat (d (.mttkrp Ubefore last)))⟩

/-! ### the oracle that a DENOTATION induces (specification-level sums) -/

/-- product over the modes `m ≠ n` of `U_m[i_m, r]`. -/
def krEntry {α : Type} [Mul α] [One α] [Zero α] (U : List (Mat α)) (n : Nat) (i : List Nat) (r : Nat) : α :=
  ((List.range i.length).filter (· != n)).foldr (fun m acc => (U.getD m []).get (i.getD m 0) r * acc) 1

/-- `mttkrp` as the property states it: row `j`, column `r` is the sum over the subscripts
with `i_n = j` of `X[i] · ∏_{m≠n} U_m[i_m, r]`. -/
def mttkrpSpec {α : Type} [Add α] [Mul α] [One α] [Zero α] (shape : List Nat) (get : List Nat → α)
    (U : List (Mat α)) (n : Nat) : Mat α :=
  let R := ((U.getD 0 []).getD 0 []).length
  (List.range (shape.getD n 0)).map fun j => (List.range R).map fun r =>
    (((allSubs shape).filter (fun i => i.getD n 0 == j)).map (fun i => get i * krEntry U n i r)).sum

/-- entry of a Kruskal tensor `(w, U)` at `i`. -/
def kEntry {α : Type} [Add α] [Mul α] [One α] [Zero α] (w : List α) (U : List (Mat α)) (i : List Nat) : α :=
  ((List.range w.length).map fun r => w.getD r 0 *
    (List.range i.length).foldr (fun m acc => (U.getD m []).get (i.getD m 0) r * acc) 1).sum

/-- The interface answers computed from a shape and an entry function by the defining sums
(only the kinds the CP drivers use are spelled out; the others are `none`). -/
def denoteOracle {α : Type} [Add α] [Mul α] [One α] [Zero α] (shape : List Nat) (get : List Nat → α) :
    Query α → Answer α
  | .shape => .nats shape
  | .normSq => .scalar (((allSubs shape).map fun i => get i * get i).sum)
  | .mttkrp U n => .mat (mttkrpSpec shape get U n)
  | .innerK w U => .scalar (((allSubs shape).map fun i => get i * kEntry w U i).sum)
  | .entry i => if inBounds shape i then .scalar (get i) else .none
  | _ => .none

/-! ## 2. The drivers' loop with a printing branch -/

/-- A driver loop.  `step` = one outer iteration including the reported numbers;
`converged it s` = the stop test evaluated after iteration `it`;
`observe` = what the printing branch does TO THE STATE (the identity for a pure print;
for CP-APR's PDNR/PQNR the in-place re-normalisation done by `tt_loglikelihood`);
`message` = what is printed. -/
structure Loop (σ : Type) where
  step : σ → σ
  converged : Nat → σ → Bool
  observe : σ → σ
  message : Nat → σ → String

/-- Result of a run: final state, index of the last iteration executed (the drivers' `iteration`
after the loop), printed lines. -/
structure RunOut (σ : Type) where
  state : σ
  iters : Nat
  printed : List String

/-- `for it in range(maxiters): step; flag := converged; if pr it flag: print (observe);
if flag: break`.  `pr` is the printing decision — for `cp_als` it is
`printitn > 0 ∧ (it % printitn = 0 ∨ flag)`, for the others `printitn > 0 ∧ it % printitn = 0`. -/
def Loop.run {σ : Type} (L : Loop σ) (pr : Nat → Bool → Bool) : (fuel it : Nat) → σ → List String → RunOut σ
  | 0, it, s, out => ⟨s, it - 1, out⟩  -- `iteration` after the loop ran out: the last index
  | fuel + 1, it, s, out =>
    let s1 := L.step s
    let flag := L.converged it s1
    let s2 := if pr it flag then L.observe s1 else s1
    let out2 := if pr it flag then out ++ [L.message it s1] else out
    if flag then ⟨s2, it, out2⟩ else L.run pr fuel (it + 1) s2 out2

/-- the printing decision of `cp_als` -/
def prAls (printitn : Nat) (it : Nat) (flag : Bool) : Bool :=
  decide (printitn > 0) && (it % printitn == 0 || flag)

/-- the printing decision of `tucker_als`, `cp_apr` -/
def prMod (printitn : Nat) (it : Nat) (_flag : Bool) : Bool :=
  decide (printitn > 0) && it % printitn == 0

/-! ### the Kruskal re-normalisation that CP-APR's printing branch performs -/

/-- multiply column `r` of every row by `w[r]` -/
def scaleCols {α : Type} [Mul α] (A : Mat α) (w : List α) : Mat α :=
  A.map fun row => List.zipWith (· * ·) row w

/-- `ktensor.redistribute(mode=0)`: the weights go into factor 0, the weights become 1. -/
def redistribute0 {α : Type} [Mul α] [One α] (K : Ktensor α) : Ktensor α :=
  match K.factors with
  | [] => ⟨K.weights.map (fun _ => 1), []⟩
  | A :: rest => ⟨K.weights.map (fun _ => 1), scaleCols A K.weights :: rest⟩

/-- `1.0 / tmp * x if tmp > 0 else x` — the column normalisation of `ktensor.normalize`. -/
def normCol {α : Type} [Mul α] [Div α] [One α] [Zero α] [LT α] [DecidableLT α] (tmp x : α) : α :=
  if 0 < tmp then 1 / tmp * x else x

/-- normalise the columns of one factor by the given column norms and push them into the weights -/
def normalizeFactor {α : Type} [Mul α] [Div α] [One α] [Zero α] [LT α] [DecidableLT α]
    (norms : List α) (A : Mat α) : Mat α :=
  A.map fun row => List.zipWith normCol norms row

/-- `Model.normalize(weight_factor=0, normtype=1)` as `tt_loglikelihood` calls it, with the
column-norm service `colNorms` as a parameter: normalise every factor, multiply the weights
by the norms, (weights are non-negative here, no sign flip), absorb the weights into factor 0. -/
def aprObserve {α : Type} [Mul α] [Div α] [One α] [Zero α] [LT α] [DecidableLT α]
    (colNorms : Mat α → List α) (K : Ktensor α) : Ktensor α :=
  let w := K.factors.foldl (fun w A => List.zipWith (· * ·) w (colNorms A)) K.weights
  let F := K.factors.map fun A => normalizeFactor (colNorms A) A
  redistribute0 ⟨w, F⟩

/-! ### CP-APR MU: the outer loop with the kappa fix-up on the LIVE model -/

/-- `V = (Phi[n] > 0) & (M[n] < kappatol); M[n][V] += kappa`: entries of the live factor that are
(numerically) zero although the multiplier says they want to grow are lifted by `kappa`. -/
def muFixup {α : Type} [Add α] [Zero α] [LT α] [DecidableLT α] (kappa kappatol : α) (Phi A : Mat α) : Mat α :=
  List.zipWith (fun prow arow =>
    List.zipWith (fun p a => if 0 < p ∧ a < kappatol then a + kappa else a) prow arow) Phi A

/-- `np.any(V)` — feeds the reported `nViolations` counter. -/
def muViolates {α : Type} [Zero α] [LT α] [DecidableLT α] (kappatol : α) (Phi A : Mat α) : Bool :=
  (List.zipWith (fun prow arow =>
    (List.zipWith (fun p a => decide (0 < p ∧ a < kappatol)) prow arow).any id) Phi A).any id

/-- the fix-up is skipped in the first outer iteration (`if iteration > 0`) -/
def muFixupIf {α : Type} [Add α] [Zero α] [LT α] [DecidableLT α] (it : Nat) (kappa kappatol : α)
    (Phi A : Mat α) : Mat α :=
  if it > 0 then muFixup kappa kappatol Phi A else A

/-- State of `tt_cp_apr_mu`'s outer loop: the live model, the multiplier matrices `Phi` of the last
inner iteration of every mode (they survive into the next outer iteration: the fix-up reads them),
the number of completed outer iterations, the per-mode KKT violations, and the two reported flags. -/
structure MuState (α : Type) where
  M : Ktensor α
  Phi : List (Mat α)
  it : Nat
  kktModes : List α
  nViol : Nat
  conv : Bool

/-- One mode of one outer iteration: the fix-up on the live model, then `inner` — everything that
consults the data: `redistribute(n)`, Π, the multiplicative updates, `normalize(mode=n)` — which returns
the new model, the last `Phi[n]`, the mode's KKT violation and whether an update was made. -/
def muMode {α : Type} [Add α] [Zero α] [LT α] [DecidableLT α] (kappa kappatol : α)
    (inner : Ktensor α → Nat → Ktensor α × Mat α × α × Bool) (s : MuState α) (n : Nat) : MuState α :=
  let A := s.M.factors.getD n []
  let P := s.Phi.getD n []
  let M1 : Ktensor α := ⟨s.M.weights, s.M.factors.set n (muFixupIf s.it kappa kappatol P A)⟩
  let viol := decide (s.it > 0) && muViolates kappatol P A
  let r := inner M1 n
  ⟨r.1, s.Phi.set n r.2.1, s.it, s.kktModes.set n r.2.2.1,
   if viol then s.nViol + 1 else s.nViol, s.conv && !r.2.2.2⟩

/-- one outer iteration: `isConverged = True`, the modes in order, the counter -/
def muStep {α : Type} [Add α] [Zero α] [LT α] [DecidableLT α] (kappa kappatol : α)
    (inner : Ktensor α → Nat → Ktensor α × Mat α × α × Bool) (s : MuState α) : MuState α :=
  let s1 := (List.range s.M.factors.length).foldl (muMode kappa kappatol inner)
    { s with nViol := 0, conv := true }
  { s1 with it := s1.it + 1 }

/-- `tt_cp_apr_mu` as a driver loop: the per-iteration status line only READS the state
(`observe = id`); the stop test is the `isConverged` flag. -/
def muLoop {α : Type} [Add α] [Zero α] [LT α] [DecidableLT α] (kappa kappatol : α)
    (inner : Ktensor α → Nat → Ktensor α × Mat α × α × Bool) : Loop (MuState α) :=
  ⟨muStep kappa kappatol inner, fun _ s => s.conv, id,
   fun it s => s!"\tIter {it}: nViolations = {s.nViol}"⟩

/-! ## 3. Random starts as functions of the draw sequence -/

/-- split off `n` draws (padding never happens on a long enough stream) -/
def takeRow {α : Type} (n : Nat) (d : List α) : List α × List α := (d.take n, d.drop n)

/-- `np.random.uniform(0, 1, (rows, cols))`: the stream fills the matrix row by row. -/
def drawMat {α : Type} : (rows cols : Nat) → List α → Mat α × List α
  | 0, _, d => ([], d)
  | r + 1, c, d =>
    let (row, d1) := takeRow c d
    let (rest, d2) := drawMat r c d1
    (row :: rest, d2)

/-- the matrices a driver draws, in the order it draws them: `dims` = the `(rows, cols)` of the
successive `np.random.uniform` calls (`cp_als`, `cp_apr`, `gcp_opt`: `(shape[n], rank)` for
`n = 0..N-1`; `tucker_als`: `(shape[n], rank[n])` for `n` in `dimorder[1:]`). -/
def drawMats {α : Type} : List (Nat × Nat) → List α → List (Mat α) × List α
  | [], d => ([], d)
  | (r, c) :: rest, d =>
    let (m, d1) := drawMat r c d
    let (ms, d2) := drawMats rest d1
    (m :: ms, d2)

/-- number of draws consumed -/
def drawsNeeded (dims : List (Nat × Nat)) : Nat := (dims.map fun p => p.1 * p.2).sum

/-- A driver with a random start: the result is `run` applied to the drawn guess. -/
def withRandomStart {α β : Type} (dims : List (Nat × Nat)) (run : List (Mat α) → β) (draws : List α) : β :=
  run (drawMats dims draws).1

/-! ## 4. HOSVD's data-dependent decision (rank choice) -/

/-- `np.cumsum(eigvec[::-1])[::-1]`: entry `i` is the sum of the entries from `i` on. -/
def revCumsum {α : Type} [Add α] [Zero α] : List α → List α
  | [] => []
  | x :: xs => (x + (revCumsum xs).headD 0) :: revCumsum xs

/-- `np.where(l > t)[0][-1]` (`none` where the code raises an IndexError). -/
def lastIdxGt {α : Type} [LT α] [DecidableLT α] (l : List α) (t : α) : Option Nat :=
  (List.range l.length).foldl (fun acc i => if t < l.getD i t then some i else acc) none

/-- the rank `hosvd` chooses for a mode from the eigenvalues in descending order -/
def hosvdRank {α : Type} [Add α] [Zero α] [LT α] [DecidableLT α] (eigsDesc : List α) (thresh : α) : Option Nat :=
  (lastIdxGt (revCumsum eigsDesc) thresh).map (· + 1)

/-- `eigsumthresh = tol**2 * normxsqr / d` -/
def eigThresh {α : Type} [Mul α] [Div α] (tol normSq d : α) : α := tol * tol * normSq / d

end Pyttb.Pres
