/-
Scalar services and small matrix helpers shared by the CP-ALS model
(`Alg/CpAls.lean`) and the formulas generated from `pyttb/cp_als.py`
(`Generated/CpAlsFormulas.lean`).  Import-free apart from the core array types.

The scalar type is a parameter.  `+ - * /` and negation come from the core classes;
everything else the algorithm needs from the number system is the record `NumOps`:
it is instantiated with `Float.sqrt`, `Float.abs`, … by the driver (one-step trace
validation) and with lawful operations on a linear ordered field / ℝ in the theorems.
-/
import PyttbModel.Core.Arr
namespace Pyttb.CpAls

/-- The number-system services used by `cp_als` besides `+ - * /`. -/
structure NumOps (α : Type) where
  /-- `np.sqrt` -/
  sqrt : α → α
  /-- `np.abs` -/
  abs : α → α
  /-- `a < b` -/
  lt : α → α → Bool
  /-- `a == 0` -/
  isZero : α → Bool
  /-- integer literals of the source -/
  ofNat : Nat → α

variable {α : Type}

/-- `np.maximum(a, b)`. -/
def NumOps.max (o : NumOps α) (a b : α) : α := if o.lt a b then b else a

/-- `sum(v)` -/
def sumL [Add α] [Zero α] (l : List α) : α := l.sum

/-- `np.max(v)` of a non-empty vector (first maximum; `0` for the empty vector, which
the model never forms). -/
def maxL [Zero α] (o : NumOps α) : List α → α
  | [] => 0
  | x :: xs => xs.foldl o.max x

/-- Tabulate an `I × R` matrix (list of rows). -/
def tab (I R : Nat) (f : Nat → Nat → α) : Mat α :=
  (List.range I).map fun i => (List.range R).map fun r => f i r

/-- Column `r` of a matrix with `I` rows. -/
def col [Zero α] (A : Mat α) (I r : Nat) : List α := (List.range I).map fun i => A.get i r

/-- `Σ_{k<n} f k`. -/
def sumRange [Add α] [Zero α] (n : Nat) (f : Nat → α) : α := ((List.range n).map f).sum

/-- `∏_{k ∈ l} f k`, starting from `1` (what `np.prod` does). -/
def prodOver [Mul α] [One α] (l : List Nat) (f : Nat → α) : α := (l.map f).foldr (· * ·) 1

end Pyttb.CpAls
