/-
C11 — model of `pyttb/cp_apr.py` (tree after c1d7590 / 8415017 / 81cee29).

`cp_apr` validates its arguments and runs one of three solvers.  Each solver is a state
machine over the Python locals of its outer loop (`M`, `Phi`, `kktModeViolations`, the
preallocated output arrays, `iteration`, the break flag); one transition = one outer
iteration; the inner loops are functions with fuel = the iteration limit of the loop.

* MU (`tt_cp_apr_mu`): inadmissible-zero bump, `redistribute`, `Pi`, then up to
  `maxinneriters` times `Phi`, KKT value, multiplicative update; L1 `normalize(mode)`.
* PDNR / PQNR (`tt_cp_apr_pdnr`, `tt_cp_apr_pqnr`): zero-row patch on the copy of the
  guess, then per mode `redistribute`, per row: empty-row shortcut, else the row
  sub-problem loop (gradient, KKT value, SEARCH DIRECTION, projected line search with its
  multiplicative fall-back); L1 `normalize(mode)`.
  The search direction is a SERVICE `dir iteration n jj i m_row grad : Option (List α)`:
  `get_search_dir_pdnr` with its damping parameter `mu` and predicted reduction, and the
  whole L-BFGS bookkeeping of pqnr (`delm`, `delg`, `rho`, `lbfgsPos`,
  `get_search_dir_pqnr`) live behind it; `none` is pqnr's fatal
  `assert False, "ERROR: L-BFGS first iterate is bad"`.  Nothing is assumed about the vector.
* common tail: `normalize(sort=True, normtype=1)`, `tt_loglikelihood` (which normalises
  its argument IN PLACE with the weights absorbed into mode 0 — the returned model is that
  one), the output dictionary.

Not modelled: wall-clock `stoptime`, `fnEvals` / `fnVals` / `nZeros` / `times`,
`init="random"`.  There is NO printing branch: the progress lines (`printitn > 0`) evaluate
`tt_loglikelihood` on a COPY of `M` (b3be554) and only fill `fnVals`; nothing that is returned
depends on them — the harness checks that on the implementation (every run repeated with
`printitn` 1, 2, 3: identical decision fields, numbers equal to 1e-12, objective recomputed).  `precompinds` selects between two ways of computing the same index sets
and has no counterpart.  Zero extents are rejected up front (the code fails on them in
`np.max` of an empty array).  `np.argsort` of the final weights is the service `sortPerm`.
The scalar type is a parameter: `+ - * /` and negation come from core classes, the rest
from `NumOps`.  Import-free.
-/
import PyttbModel.Core.Arr
import PyttbModel.Core.Denote
import PyttbModel.Ops.Dense
import PyttbModel.Generated.CpAprFormulas
namespace Pyttb.CpApr
open Pyttb.CpApr.Gen

variable {α : Type}

/-- Number-system services besides `+ - * /`. -/
structure NumOps (α : Type) where
  /-- `np.log` -/
  log : α → α
  /-- `a < b` -/
  lt : α → α → Bool
  /-- `a <= b` -/
  le : α → α → Bool
  /-- `np.abs` -/
  abs : α → α
  /-- `a == 0` -/
  isZero : α → Bool
  /-- `a < np.inf` (always true where the scalars have no infinity) -/
  ltInf : α → Bool

/-- `np.maximum(a, b)` -/
def NumOps.maximum (o : NumOps α) (a b : α) : α := if o.lt a b then b else a
/-- `np.minimum(a, b)` -/
def NumOps.minimum (o : NumOps α) (a b : α) : α := if o.lt b a then b else a
/-- `a > 0` -/
def NumOps.gt0 [Zero α] (o : NumOps α) (a : α) : Bool := o.lt 0 a

/-- Numeric literals of the source (values in `Generated/CpAprFormulas.lean`). -/
structure Consts (α : Type) where
  minDescentTol : α
  smallStepTol : α
  stepLen : α
  stepRed : α
  suffDecr : α
  zeroRowFill : α
  inexactDiv : α
  maxSteps : Nat
  inexactInner : Nat
  inexactIteration : Nat

/-- The literals as read by the translator, converted into the scalar type. -/
def Consts.ofGen (ofRat : Rat → α) : Consts α :=
  ⟨ofRat Gen.minDescentTol, ofRat Gen.smallStepTol, ofRat Gen.lsStepLen, ofRat Gen.lsStepRed,
   ofRat Gen.lsSuffDecr, ofRat Gen.zeroRowFill, ofRat Gen.inexactDiv, Gen.lsMaxSteps,
   Gen.inexactInner, Gen.inexactIteration⟩

inductive Alg where
  | mu | pdnr | pqnr
  deriving Repr, DecidableEq, BEq

/-- Keyword arguments of `cp_apr` that reach the modelled part. -/
structure Cfg (α : Type) where
  rank : Nat
  stoptol : α
  maxiters : Nat
  maxinner : Nat
  eps : α
  kappa : α
  kappatol : α
  inexact : Bool

/-- The data tensor: `ttb.tensor` or `ttb.sptensor`. -/
inductive Data (α : Type) where
  | dense (T : Dense α)
  | sparse (S : Sparse α)

def Data.shape : Data α → List Nat
  | .dense T => T.shape
  | .sparse S => S.shape

def Data.isSparse : Data α → Bool
  | .dense _ => false
  | .sparse _ => true

/-- Search-direction service: outer iteration, mode, row, inner iteration, current row,
gradient ↦ direction (`none`: pqnr's fatal assertion). -/
abbrev Dir (α : Type) := Nat → Nat → Nat → Nat → List α → List α → Option (List α)

/-! ### small array helpers -/

/-- Tabulate an `I × R` matrix. -/
def tab (I R : Nat) (f : Nat → Nat → α) : Mat α :=
  (List.range I).map fun i => (List.range R).map fun r => f i r

/-- `Σ_{k<n} f k` -/
def sumOver [Add α] [Zero α] (n : Nat) (f : Nat → α) : α := ((List.range n).map f).sum

/-- Entry of a vector, zero outside. -/
def vget [Zero α] (l : List α) (k : Nat) : α := l.getD k 0

/-- `np.max` of a vector (the empty case is unreachable: extents and rank are validated ≥ 1). -/
def maxD [Zero α] (o : NumOps α) : List α → α
  | [] => 0
  | x :: xs => xs.foldl o.maximum x

/-- Factor matrix of mode `n`. -/
def factor (K : Ktensor α) (n : Nat) : Mat α := K.factors.getD n []

/-- `K.factor_matrices[n] = A` -/
def setFactor (K : Ktensor α) (n : Nat) (A : Mat α) : Ktensor α := ⟨K.weights, K.factors.set n A⟩

/-- `np.sum(A)` -/
def matSum [Add α] [Zero α] (A : Mat α) : α := (A.map List.sum).sum

section ktensor
variable [Add α] [Sub α] [Mul α] [Div α] [Neg α] [Zero α] [One α]

/-- `ktensor.redistribute(mode)`: scale column `r` of factor `n` by `weights[r]`, set the
weight to one. -/
def redistribute (K : Ktensor α) (n : Nat) : Ktensor α :=
  let A := factor K n
  ⟨K.weights.map fun _ => 1,
   K.factors.set n (tab A.length K.weights.length fun i r => A.get i r * vget K.weights r)⟩

/-- `np.linalg.norm(A[:, r], ord=1)` -/
def colNorm1 (o : NumOps α) (A : Mat α) (r : Nat) : α := sumOver A.length fun i => o.abs (A.get i r)

/-- The per-mode body of `ktensor.normalize(normtype=1)`:
`tmp = ‖A[:, r]‖₁; if tmp > 0: A[:, r] = 1.0 / tmp * A[:, r]; weights[r] *= tmp`. -/
def normalizeMode (o : NumOps α) (K : Ktensor α) (n : Nat) : Ktensor α :=
  let A := factor K n
  let R := K.weights.length
  let nrm := (List.range R).map (colNorm1 o A)
  ⟨(List.range R).map fun r => vget K.weights r * vget nrm r,
   K.factors.set n (tab A.length R fun i r =>
     if o.lt 0 (vget nrm r) then (1 / vget nrm r) * A.get i r else A.get i r)⟩

/-- "ensure that all factor_matrices are normalized": modes in order. -/
def normalizeAll (o : NumOps α) (K : Ktensor α) : Ktensor α :=
  (List.range K.factors.length).foldl (normalizeMode o) K

/-- "flip sign of columns in first factor matrix if negative weight found". -/
def flipNeg (o : NumOps α) (K : Ktensor α) : Ktensor α :=
  let A := factor K 0
  ⟨K.weights.map fun w => if o.lt w 0 then -w else w,
   K.factors.set 0 (tab A.length K.weights.length fun i r =>
     if o.lt (vget K.weights r) 0 then -(A.get i r) else A.get i r)⟩

/-- `ktensor.normalize(normtype=1)` (no weight factor, no sorting). -/
def normalize1 (o : NumOps α) (K : Ktensor α) : Ktensor α := flipNeg o (normalizeAll o K)

/-- "absorb weight into factors", single factor 0: `A₀ @ diag(weights)`, weights := 1. -/
def absorb0 (K : Ktensor α) : Ktensor α :=
  let A := factor K 0
  ⟨K.weights.map fun _ => 1,
   K.factors.set 0 (tab A.length K.weights.length fun i r => A.get i r * vget K.weights r)⟩

/-- `ktensor.arrange(permutation=p)`. -/
def arrange (K : Ktensor α) (p : List Nat) : Ktensor α :=
  ⟨p.map (vget K.weights), K.factors.map fun A => A.map fun row => p.map (vget row)⟩

/-- `ktensor.normalize(sort=True, normtype=1)`; `sortPerm w` stands for
`np.argsort(w)[::-1]`. -/
def normalizeSort (o : NumOps α) (sortPerm : List α → List Nat) (K : Ktensor α) : Ktensor α :=
  let K1 := normalize1 o K
  if K1.weights.length > 1 then arrange K1 (sortPerm K1.weights) else K1

/-- `ktensor.normalize(weight_factor=0, normtype=1)` as called by `tt_loglikelihood`. -/
def normalizeAbsorb0 (o : NumOps α) (K : Ktensor α) : Ktensor α := absorb0 (normalize1 o K)

end ktensor

/-! ### Pi, Phi -/

section pi
variable [Add α] [Sub α] [Mul α] [Div α] [Neg α] [Zero α] [One α]

/-- Rows of Pi for the given subscripts (sparse paths of `calculate_pi` /
`tt_calcpi_prowsubprob`): `Pi = ones; for m ≠ n ascending: Pi *= A_m[subs[:, m], :]`. -/
def piRows (K : Ktensor α) (n : Nat) (subs : List (List Nat)) : Mat α :=
  subs.map fun sub => (List.range K.weights.length).map fun r =>
    ((List.range K.factors.length).filter (fun m => m != n)).foldl
      (fun acc m => acc * (factor K m).get (sub.getD m 0) r) 1

/-- What one mode needs from the data. -/
inductive ModeData (α : Type) where
  /-- mode-`n` unfolding `to_tenmat([n]).data` and `khatrirao(all but n, reverse=True)` -/
  | dense (Xn : Dense α) (Pi : Mat α)
  | sparse (S : Sparse α)

/-- Data-side preparation of mode `n` (dense: `calculate_pi` / `tt_calcpi_prowsubprob` and the
unfolding; the Khatri-Rao product of an empty list — a 1-way tensor — is an error). -/
def modeData (X : Data α) (K : Ktensor α) (n : Nat) : Except Reject (ModeData α) :=
  match X with
  | .sparse S => .ok (.sparse S)
  | .dense T =>
    match khatrirao (K.factors.eraseIdx n) true, T.toTenmat (some [n]) none none with
    | .ok Pi, .ok Xn => .ok (.dense Xn.data Pi)
    | _, _ => .error .reject

/-- `calculate_phi`, dense: `V = A Piᵀ; W = Xn / maximum(V, eps); Phi = W Pi`. -/
def phiDense (o : NumOps α) (eps : α) (Xn : Dense α) (Pi A : Mat α) (I R : Nat) : Mat α :=
  let J := Pi.length
  let W := tab I J fun i j =>
    Xn.get [i, j] / o.maximum (sumOver R fun r => A.get i r * Pi.get j r) eps
  tab I R fun i r => sumOver J fun j => W.get i j * Pi.get j r

/-- `calculate_phi`, sparse: `v = Σ_r A[xsubs, r] Pi[:, r]; w = vals / maximum(v, eps);
Phi[:, r] = accumarray(xsubs, w * Pi[:, r])`. -/
def phiSparse (o : NumOps α) (eps : α) (S : Sparse α) (n : Nat) (Pi A : Mat α) (I R : Nat) : Mat α :=
  let xs := S.subs.map fun sub => sub.getD n 0
  let ks := List.range S.subs.length
  let w := ks.map fun k =>
    vget S.vals k / o.maximum (sumOver R fun r => A.get (xs.getD k 0) r * Pi.get k r) eps
  tab I R fun i r => ((ks.filter fun k => xs.getD k 0 == i).map fun k => vget w k * Pi.get k r).sum

/-- `calculate_phi` for the current factor `A` of mode `n` (`K` supplies the other modes). -/
def phiOf (o : NumOps α) (eps : α) (md : ModeData α) (K : Ktensor α) (n : Nat) (A : Mat α) (I R : Nat) :
    Mat α :=
  match md with
  | .dense Xn Pi => phiDense o eps Xn Pi A I R
  | .sparse S => phiSparse o eps S n (piRows K n S.subs) A I R

/-- `np.max(np.abs(vectorize_for_mu(np.minimum(A, 1 - Phi))))`. -/
def kktMat (o : NumOps α) (A Phi : Mat α) (I R : Nat) : α :=
  maxD o (tab I R fun i r => kktEntry o.abs o.minimum (A.get i r) (Phi.get i r)).flatten

end pi

/-! ### MU -/

section mu
variable [Add α] [Sub α] [Mul α] [Div α] [Neg α] [Zero α] [One α]

/-- Locals of the inner loop of MU for one mode. -/
structure MuInner (α : Type) where
  A : Mat α
  Phi : Mat α
  kkt : α
  conv : Bool
  cnt : Nat

/-- `for i in range(maxinneriters)` of `tt_cp_apr_mu` (fuel = iterations left). -/
def muInnerLoop (o : NumOps α) (stoptol : α) (phi : Mat α → Mat α) (I R : Nat) :
    Nat → MuInner α → MuInner α
  | 0, s => s
  | fuel + 1, s =>
    let Phi := phi s.A
    let k := kktMat o s.A Phi I R
    if o.lt k stoptol then { s with Phi := Phi, kkt := k, cnt := s.cnt + 1 }
    else muInnerLoop o stoptol phi I R fuel
      { A := tab I R fun i r => muUpdate (s.A.get i r) (Phi.get i r),
        Phi := Phi, kkt := k, conv := false, cnt := s.cnt + 1 }

/-- Locals threaded through the modes of one outer iteration of MU. -/
structure MuIt (α : Type) where
  M : Ktensor α
  Phi : List (Mat α)
  kktMode : List α
  conv : Bool
  nInner : Nat
  nViol : Nat

/-- The inadmissible-zero adjustment: `V = (Phi[n] > 0) & (A < kappatol)`,
`A[V] += kappa` (only when `iteration > 0`). -/
def bump (o : NumOps α) (cfg : Cfg α) (iterPos : Bool) (M : Ktensor α) (Phin : Mat α) (n : Nat) :
    Ktensor α × Bool :=
  let A := factor M n
  let I := A.length
  let R := M.weights.length
  let V := fun i r => iterPos && o.lt 0 (Phin.get i r) && o.lt (A.get i r) cfg.kappatol
  let anyV := (List.range I).any fun i => (List.range R).any fun r => V i r
  (if anyV then setFactor M n (tab I R fun i r => if V i r then A.get i r + cfg.kappa else A.get i r)
   else M, anyV)

/-- Body of `for n in range(N)` of `tt_cp_apr_mu`. -/
def muMode (o : NumOps α) (cfg : Cfg α) (X : Data α) (iterPos : Bool) (s : MuIt α) (n : Nat) :
    Except Reject (MuIt α) :=
  let Phin := s.Phi.getD n []
  let b := bump o cfg iterPos s.M Phin n
  let M2 := redistribute b.1 n
  let A := factor M2 n
  let I := A.length
  let R := M2.weights.length
  match modeData X M2 n with
  | .error e => .error e
  | .ok md =>
    let r := muInnerLoop o cfg.stoptol (fun A => phiOf o cfg.eps md M2 n A I R) I R cfg.maxinner
      ⟨A, Phin, vget s.kktMode n, s.conv, 0⟩
    .ok ⟨normalizeMode o (setFactor M2 n r.A) n, s.Phi.set n r.Phi, s.kktMode.set n r.kkt, r.conv,
         s.nInner + r.cnt, s.nViol + (if b.2 then 1 else 0)⟩

/-- Fold a fallible step over a list (`for x in l`). -/
def foldE {σ β : Type} (f : σ → β → Except Reject σ) : List β → σ → Except Reject σ
  | [], s => .ok s
  | x :: xs, s =>
    match f s x with
    | .ok s' => foldE f xs s'
    | .error e => .error e

/-- State of the outer loop of MU. -/
structure MuSt (α : Type) where
  M : Ktensor α
  Phi : List (Mat α)
  kktMode : List α
  kkt : List α
  nInner : List Nat
  nViol : List Nat
  iter : Nat
  done : Bool

/-- One outer iteration of `tt_cp_apr_mu` (identity once the loop has exited). -/
def muOuter (o : NumOps α) (cfg : Cfg α) (X : Data α) (s : MuSt α) : Except Reject (MuSt α) :=
  if s.done || decide (cfg.maxiters ≤ s.iter) then .ok s
  else
    match foldE (muMode o cfg X (decide (0 < s.iter))) (List.range s.M.factors.length)
        ⟨s.M, s.Phi, s.kktMode, true, 0, 0⟩ with
    | .error e => .error e
    | .ok it =>
      .ok ⟨it.M, it.Phi, it.kktMode, s.kkt ++ [maxD o it.kktMode], s.nInner ++ [it.nInner],
           s.nViol ++ [it.nViol], s.iter + 1, it.conv⟩

/-- Set-up of `tt_cp_apr_mu`: `M = init.copy(); M.normalize(normtype=1)`, `Phi` zeros. -/
def muInit (o : NumOps α) (init : Ktensor α) : MuSt α :=
  let M := normalize1 o init
  ⟨M, M.factors.map fun A => tab A.length M.weights.length fun _ _ => 0,
   M.factors.map fun _ => 0, [], [], [], 0, false⟩

end mu

/-- `k` transitions of a fallible state machine. -/
def iterE {σ : Type} (f : σ → Except Reject σ) : Nat → σ → Except Reject σ
  | 0, s => .ok s
  | k + 1, s =>
    match f s with
    | .ok s' => iterE f k s'
    | .error e => .error e

/-! ### row sub-problem (PDNR, PQNR) -/

section row
variable [Add α] [Sub α] [Mul α] [Div α] [Neg α] [Zero α] [One α]

/-- `v = model_row.dot(Pi.transpose())`, entry `j`. -/
def rowV (Pi : Mat α) (m : List α) (R j : Nat) : α := sumOver R fun r => vget m r * Pi.get j r

/-- `phi_row` of `calc_partials` / `calc_grad`: `w = x / maximum(v, eps); phi = w.dot(Pi)`. -/
def rowPhi (o : NumOps α) (eps : α) (x : List α) (Pi : Mat α) (m : List α) (R : Nat) : List α :=
  (List.range R).map fun r => sumOver Pi.length fun j =>
    (vget x j / o.maximum (rowV Pi m R j) eps) * Pi.get j r

/-- `kkt_violation = np.max(np.abs(np.minimum(m_row, grad)))` -/
def rowKkt (o : NumOps α) (m g : List α) (R : Nat) : α :=
  maxD o ((List.range R).map fun r => rowKktEntry o.abs o.minimum (vget m r) (vget g r))

/-- `-tt_loglikelihood_row(isSparse, data_row, model_row, Pi)`; the dense branch skips the
zero data entries, the sparse one has none. -/
def rowNegLL (o : NumOps α) (sparse : Bool) (x : List α) (Pi : Mat α) (m : List α) (R : Nat) : α :=
  let term1 := -(sumOver R fun r => vget m r)
  let term2 := sumOver Pi.length fun j =>
    if sparse then llTermSparse o.log (vget x j) (rowV Pi m R j)
    else llTermDense o.log o.isZero (vget x j) (rowV Pi m R j)
  let ll := term1 + term2
  Neg.neg ll

/-- Locals of the `while count <= max_steps` loop of `tt_linesearch_prowsubprob`;
`fNew = none` is `np.inf`. -/
structure LS (α : Type) where
  mNew : List α
  fNew : Option α
  count : Nat

/-- The `while` loop (fuel = `max_steps`). -/
def lsLoop (o : NumOps α) (c : Consts α) (sparse : Bool) (dir grad mOld x : List α) (Pi : Mat α)
    (R : Nat) (fOld : α) : Nat → Nat → α → LS α → LS α
  | 0, _, _, acc => acc
  | fuel + 1, count, step, _ =>
    let mNew := (List.range R).map fun r =>
      project o.gt0 (lsTrial (vget mOld r) step (vget dir r))
    let gDotd := sumOver R fun r => vget grad r * (vget mNew r - vget mOld r)
    if o.lt 0 gDotd || o.lt (sumOver R fun r => vget mNew r) c.minDescentTol then
      lsLoop o c sparse dir grad mOld x Pi R fOld fuel (count + 1) (step * c.stepRed)
        ⟨mNew, none, count + 1⟩
    else
      let fNew := rowNegLL o sparse x Pi mNew R
      if o.le fNew (armijoBound fOld c.suffDecr gDotd) then ⟨mNew, some fNew, count⟩
      else lsLoop o c sparse dir grad mOld x Pi R fOld fuel (count + 1) (step * c.stepRed)
        ⟨mNew, some fNew, count + 1⟩

/-- `f_new > f_old`, where `none` is `np.inf`. -/
def lsWorse (o : NumOps α) (fOld : α) : Option α → Bool
  | none => o.ltInf fOld
  | some f => o.lt fOld f

/-- `tt_linesearch_prowsubprob(direction, grad, model_old, 1, 1/2, 10, 1e-4, …)`: the new
row.  (`f_1`, `num_evals` feed only the direction service / `fnEvals`.)
The start value of the accumulator is never returned when `max_steps ≥ 1` (validated). -/
def lineSearch (o : NumOps α) (c : Consts α) (sparse : Bool) (dir grad mOld x : List α) (Pi : Mat α)
    (phi : List α) (R : Nat) : List α :=
  let fOld := rowNegLL o sparse x Pi mOld R
  let r := lsLoop o c sparse dir grad mOld x Pi R fOld c.maxSteps 1 c.stepLen
    ⟨(List.range R).map fun r => project o.gt0 (vget mOld r), none, 1⟩
  if (decide (c.maxSteps ≤ r.count) && lsWorse o fOld r.fNew) ||
      o.lt (sumOver R fun k => vget r.mNew k) c.smallStepTol then
    (List.range R).map fun k => project o.gt0 (lsFallback (vget mOld k) (vget phi k))
  else r.mNew

/-- Locals of the row sub-problem loop. -/
structure RowSt (α : Type) where
  m : List α
  kktMode : α
  notConv : Bool
  lastI : Nat

/-- `for i in range(innerIterMaximum)` of `tt_cp_apr_pdnr` for one row; `dir i m grad` is the
direction service for this row. -/
def pdnrRow (o : NumOps α) (c : Consts α) (cfg : Cfg α) (dir : Nat → List α → List α → Option (List α))
    (sparse : Bool) (x : List α) (Pi : Mat α) (R : Nat) : Nat → Nat → RowSt α → Option (RowSt α)
  | 0, _, s => some s
  | fuel + 1, i, s =>
    let phi := rowPhi o cfg.eps x Pi s.m R
    let g := phi.map rowGrad
    let k := rowKkt o s.m g R
    let km := if i == 0 && o.lt s.kktMode k then k else s.kktMode
    if o.lt k cfg.stoptol then some { s with kktMode := km, lastI := i }
    else
      match dir i s.m g with
      | none => none
      | some d =>
        pdnrRow o c cfg dir sparse x Pi R fuel (i + 1)
          ⟨lineSearch o c sparse d g s.m x Pi phi R, km, true, i⟩

/-- The gradient step that primes L-BFGS at `i == 0` (`m_row` after it and the recomputed
`phi_row`); at `i > 0` the row and its `phi_row` as they are. -/
def pqnrPrime (o : NumOps α) (c : Consts α) (cfg : Cfg α) (sparse : Bool) (x : List α) (Pi : Mat α)
    (R i : Nat) (m : List α) : List α × List α :=
  let phi0 := rowPhi o cfg.eps x Pi m R
  if i == 0 then
    let g0 := phi0.map rowGrad
    let m1 := lineSearch o c sparse (g0.map fun v => -v) g0 m x Pi phi0 R
    (m1, rowPhi o cfg.eps x Pi m1 R)
  else (m, phi0)

/-- `for i in range(maxinneriters)` of `tt_cp_apr_pqnr` for one row. -/
def pqnrRow (o : NumOps α) (c : Consts α) (cfg : Cfg α) (dir : Nat → List α → List α → Option (List α))
    (sparse : Bool) (x : List α) (Pi : Mat α) (R : Nat) : Nat → Nat → RowSt α → Option (RowSt α)
  | 0, _, s => some s
  | fuel + 1, i, s =>
    let p := pqnrPrime o c cfg sparse x Pi R i s.m
    let g1 := p.2.map rowGrad
    let k := rowKkt o p.1 g1 R
    let km := if i == 0 && o.lt s.kktMode k then k else s.kktMode
    if o.lt k cfg.stoptol then some { m := p.1, kktMode := km, notConv := s.notConv, lastI := i }
    else
      match dir i p.1 g1 with
      | none => none
      | some d =>
        pqnrRow o c cfg dir sparse x Pi R fuel (i + 1)
          ⟨lineSearch o c sparse d g1 p.1 x Pi p.2 R, km, true, i⟩

end row

/-! ### PDNR / PQNR outer structure -/

section newton
variable [Add α] [Sub α] [Mul α] [Div α] [Neg α] [Zero α] [One α]

/-- Accumulator of the loop over the rows of one mode. -/
structure RowsAcc (α : Type) where
  A : Mat α
  kktMode : α
  anyNotConv : Bool
  cnt : Nat

/-- Data row `jj` and the matching rows of Pi: dense `X_mat[jj, :]` with the full Pi, sparse
the stored values whose mode-`n` subscript is `jj` with the gathered rows. -/
def rowData (md : ModeData α) (K : Ktensor α) (n jj : Nat) : List α × Mat α :=
  match md with
  | .dense Xn Pi => ((List.range Pi.length).map fun j => Xn.get [jj, j], Pi)
  | .sparse S =>
    let idx := (List.range S.subs.length).filter fun k => (S.subs.getD k []).getD n 0 == jj
    (idx.map (vget S.vals), piRows K n (idx.map fun k => S.subs.getD k []))

/-- `isSparse` as handed to the row sub-problem helpers. -/
def mdSparse : ModeData α → Bool
  | .sparse _ => true
  | .dense _ _ => false

/-- "The row jj of matricized tensor X in mode n is empty": no stored entry (sparse),
`not np.any(x_row)` (dense). -/
def rowEmpty (o : NumOps α) (md : ModeData α) (x : List α) : Bool :=
  match md with
  | .dense _ _ => x.all o.isZero
  | .sparse _ => x.isEmpty

/-- Body of `for jj in range(num_rows)`. -/
def nwRow (o : NumOps α) (c : Consts α) (cfg : Cfg α) (alg : Alg) (dir : Dir α) (md : ModeData α)
    (K : Ktensor α) (iteration n : Nat) (acc : RowsAcc α) (jj : Nat) : Except Reject (RowsAcc α) :=
  let R := K.weights.length
  let xp := rowData md K n jj
  if rowEmpty o md xp.1 then .ok { acc with A := acc.A.set jj (List.replicate R 0) }
  else
    let sparse := mdSparse md
    let s0 : RowSt α := ⟨acc.A.getD jj [], acc.kktMode, false, 0⟩
    let res := match alg with
      | .pqnr => pqnrRow o c cfg (dir iteration n jj) sparse xp.1 xp.2 R cfg.maxinner 0 s0
      | _ =>
        let innerMax := if cfg.inexact && iteration == c.inexactIteration then c.inexactInner
          else cfg.maxinner
        pdnrRow o c cfg (dir iteration n jj) sparse xp.1 xp.2 R innerMax 0 s0
    match res with
    | none => .error .reject
    | some r => .ok ⟨acc.A.set jj r.m, r.kktMode, acc.anyNotConv || r.notConv, acc.cnt + r.lastI⟩

/-- Locals threaded through the modes of one outer iteration of PDNR / PQNR. -/
structure NwIt (α : Type) where
  M : Ktensor α
  kktMode : List α
  conv : Bool
  nInner : Nat

/-- Body of `for n in range(N)` of `tt_cp_apr_pdnr` / `tt_cp_apr_pqnr`. -/
def nwMode (o : NumOps α) (c : Consts α) (cfg : Cfg α) (alg : Alg) (dir : Dir α) (X : Data α)
    (iteration : Nat) (s : NwIt α) (n : Nat) : Except Reject (NwIt α) :=
  let M1 := redistribute s.M n
  let A := factor M1 n
  match modeData X M1 n with
  | .error e => .error e
  | .ok md =>
    match foldE (nwRow o c cfg alg dir md M1 iteration n) (List.range A.length)
        ⟨A, vget s.kktMode n, false, 0⟩ with
    | .error e => .error e
    | .ok r =>
      .ok ⟨normalizeMode o (setFactor M1 n r.A) n, s.kktMode.set n r.kktMode,
           s.conv && !r.anyNotConv, s.nInner + r.cnt⟩

/-- State of the outer loop of PDNR / PQNR. -/
structure NwSt (α : Type) where
  M : Ktensor α
  kkt : List α
  nInner : List Nat
  iter : Nat
  done : Bool

/-- One outer iteration (identity once the loop has exited). -/
def nwOuter (o : NumOps α) (c : Consts α) (cfg : Cfg α) (alg : Alg) (dir : Dir α) (X : Data α)
    (s : NwSt α) : Except Reject (NwSt α) :=
  if s.done || decide (cfg.maxiters ≤ s.iter) then .ok s
  else
    match foldE (nwMode o c cfg alg dir X s.iter) (List.range s.M.factors.length)
        ⟨s.M, s.M.factors.map fun _ => 0, true, 0⟩ with
    | .error e => .error e
    | .ok it =>
      let k := maxD o it.kktMode
      let stop := match alg with
        | .pqnr => it.conv
        | _ => (it.conv && !cfg.inexact) ||
               (it.conv && cfg.inexact && o.le (o.maximum cfg.stoptol k / c.inexactDiv) cfg.stoptol)
      .ok ⟨it.M, s.kkt ++ [k], s.nInner ++ [it.nInner], s.iter + 1, stop⟩

/-- The zero-row patch on the copy of the guess: rows whose sum is zero get `1e-8` in
column 0. -/
def zeroRowPatch (o : NumOps α) (c : Consts α) (K : Ktensor α) : Ktensor α :=
  ⟨K.weights, K.factors.map fun A => A.map fun row =>
    if o.isZero row.sum then row.set 0 c.zeroRowFill else row⟩

/-- Set-up of `tt_cp_apr_pdnr` / `tt_cp_apr_pqnr`. -/
def nwInit (o : NumOps α) (c : Consts α) (init : Ktensor α) : NwSt α :=
  ⟨normalize1 o (zeroRowPatch o c init), [], [], 0, false⟩

end newton

/-! ### common tail and entry point -/

section tail
variable [Add α] [Sub α] [Mul α] [Div α] [Neg α] [Zero α] [One α]

/-- `A = F₀[xsubs[:, 0], :]; for n in 1..N-1: A *= Fₙ[xsubs[:, n], :]`, entry `r` of the row
for subscript `sub`. -/
def compL (K : Ktensor α) (r : Nat) (sub : List Nat) : α :=
  match List.zipWith (fun (A : Mat α) ik => A.get ik r) K.factors sub with
  | [] => 1
  | a :: rest => rest.foldl (· * ·) a

/-- `tt_loglikelihood(Data, Model)`: the model normalised in place and the value.
Dense: `Model.to_tenmat(..)` is `Model.full()` re-laid out — the entry at a subscript is
`Ktensor.get` (C01 is about `full`). -/
def logLik (o : NumOps α) (X : Data α) (K : Ktensor α) : Ktensor α × α :=
  let K1 := normalizeAbsorb0 o K
  let f0 := matSum (factor K1 0)
  match X with
  | .sparse S =>
    let terms := (List.range S.subs.length).map fun k =>
      llTermSparse o.log (vget S.vals k) (sumOver K1.weights.length fun r => compL K1 r (S.subs.getD k []))
    (K1, llCombine terms.sum f0)
  | .dense T =>
    let terms := (List.range (numel T.shape)).map fun k =>
      llTermDense o.log o.isZero (vget T.data k) (K1.get (ind2sub T.shape k))
    (K1, llCombine terms.sum f0)

/-- What `cp_apr` hands back (`M` and the modelled entries of `output`). -/
structure Out (α : Type) where
  M : Ktensor α
  obj : α
  kkt : List α
  nInner : List Nat
  nViol : List Nat
  iters : Nat

/-- "Clean up final result" + objective + output dictionary. -/
def finish (o : NumOps α) (sortPerm : List α → List Nat) (X : Data α) (M : Ktensor α)
    (kkt : List α) (nInner nViol : List Nat) (iters : Nat) : Out α :=
  let r := logLik o X (normalizeSort o sortPerm M)
  ⟨r.1, r.2, kkt, nInner, nViol, iters⟩

/-- Argument checks of `cp_apr` (the asserts) together with the inputs on which the solvers
themselves fail: a 1-way dense tensor (Khatri-Rao of nothing), a sparse tensor without
stored entry (`subs[:, n]` of an empty array), zero extents or no mode at all (`np.max` of an
empty array), `maxiters = 0` (`iteration` unbound), `maxinneriters = 0` for pdnr / pqnr (`i` unbound), `max_steps = 0`. -/
def validate (o : NumOps α) (c : Consts α) (cfg : Cfg α) (alg : Alg) (X : Data α) (init : Ktensor α) : Bool :=
  let shape := X.shape
  decide (0 < cfg.rank)
  && (match X with
      | .dense T => T.data.length == numel T.shape && T.data.all (fun v => !o.lt v 0)
          && decide (2 ≤ T.shape.length)
      | .sparse S => S.subs.length == S.vals.length && S.subs.all (inBounds S.shape)
          && S.vals.all (fun v => !o.lt v 0) && decide (0 < S.subs.length))
  && shape.all (fun s => decide (0 < s))
  && init.factors.length == shape.length
  && init.weights.length == cfg.rank
  && init.factors.map List.length == shape
  && init.factors.all (fun A => A.all fun row => row.length == cfg.rank && row.all fun v => !o.lt v 0)
  && init.weights.all (fun v => !o.lt v 0)
  && decide (0 < cfg.maxiters)
  && (alg == .mu || decide (0 < cfg.maxinner))
  && decide (0 < c.maxSteps)
  && decide (0 < shape.length)

/-- State after `k` outer iterations of MU. -/
def muStates (o : NumOps α) (cfg : Cfg α) (X : Data α) (init : Ktensor α) (k : Nat) :
    Except Reject (MuSt α) :=
  iterE (muOuter o cfg X) k (muInit o init)

/-- State after `k` outer iterations of PDNR / PQNR. -/
def nwStates (o : NumOps α) (c : Consts α) (cfg : Cfg α) (alg : Alg) (dir : Dir α) (X : Data α)
    (init : Ktensor α) (k : Nat) : Except Reject (NwSt α) :=
  iterE (nwOuter o c cfg alg dir X) k (nwInit o c init)

/-- `cp_apr(X, rank, algorithm, init=<ktensor>, …)`. -/
def cpApr (o : NumOps α) (c : Consts α) (cfg : Cfg α) (alg : Alg) (dir : Dir α)
    (sortPerm : List α → List Nat) (X : Data α) (init : Ktensor α) : Except Reject (Out α) :=
  if !validate o c cfg alg X init then .error .reject
  else
    match alg with
    | .mu =>
      match muStates o cfg X init cfg.maxiters with
      | .error e => .error e
      | .ok s => .ok (finish o sortPerm X s.M s.kkt s.nInner s.nViol s.iter)
    | _ =>
      match nwStates o c cfg alg dir X init cfg.maxiters with
      | .error e => .error e
      | .ok s => .ok (finish o sortPerm X s.M s.kkt s.nInner [] s.iter)

end tail

end Pyttb.CpApr
