/-
C13 — model of `pyttb/gcp/samplers.py : zeros(..., with_replacement=False)`.

`GCPSampler` / `stratified` always call `zeros` with replacement; the branch without
replacement is reachable only by calling `pyttb.gcp.samplers.zeros` directly.  It differs from
the branch with replacement in three places: two more refusals (`samples > num_zeros`,
`ceil(samples * size / num_zeros) >= size`), a different number of rows asked from the
generator (a coupon-collector estimate with a logarithm: not modelled, the matrix `draws` the
generator returned is an input, its row count is checked by the harness), and
`np.unique(tmpsubs, axis=0)`: duplicate ROWS are removed and the rows are sorted
lexicographically before the nonzeros are filtered out.  Import-free.
-/
import PyttbModel.Alg.Samplers
namespace Pyttb
namespace Samp

variable {α : Type}

/-- Lexicographic `≤` on rows of integers: the order of `np.unique(·, axis=0)`. -/
def rowLe : List Int → List Int → Bool
  | [], _ => true
  | _ :: _, [] => false
  | a :: as, b :: bs => decide (a < b) || (a == b && rowLe as bs)

/-- Remove rows that occur again later (one copy of every row is kept). -/
def dedupRows : List (List Int) → List (List Int)
  | [] => []
  | r :: rs => if rs.contains r then dedupRows rs else r :: dedupRows rs

/-- Insert a row into a lexicographically sorted list of rows. -/
def insertRow (r : List Int) : List (List Int) → List (List Int)
  | [] => [r]
  | x :: xs => if rowLe r x then r :: x :: xs else x :: insertRow r xs

/-- Sort rows lexicographically (insertion sort: structural recursion, so that concrete
instances reduce in the kernel). -/
def sortRows (l : List (List Int)) : List (List Int) := l.foldr insertRow []

/-- `np.unique(tmpsubs, axis=0)`: the distinct rows, sorted lexicographically. -/
def uniqueRows (l : List (List Int)) : List (List Int) := sortRows (dedupRows l)

/-- `zeros(data, nz_idx, samples, over_sample_rate, with_replacement=False)`.  Refused: a rate
below 1.1, more samples than zeros, a tensor without zeros (`0/0`, `int(nan)` raises) and
`ceil(samples * size / num_zeros) >= size`.  Otherwise the drawn rows are made distinct and
sorted, sent through `tt_sub2ind` (raises outside the shape), the stored nonzeros are dropped
and at most `samples` rows are kept. -/
def zerosNoReplS [Mul α] [Div α] [NatCast α] [IntCast α] [LT α] [DecidableLT α]
    (floor ceil : α → Int) (shape nzIdx : List Nat) (samples : Nat) (rate : α)
    (draws : List (List α)) : Except Reject (List (List Int)) :=
  let size := numel shape
  let numZeros := size - nzIdx.length
  if rate < ((11 : Nat) : α) / ((10 : Nat) : α) then .error .reject
  else if numZeros < samples then .error .reject
  else if numZeros == 0 then .error .reject
  else if (size : Int) ≤ ceil (((samples * size : Nat) : α) / (numZeros : α)) then .error .reject
  else do
    let tmpsubs := uniqueRows (draws.map (drawRow (drawSub floor) shape))
    let tmpidx ← ttSub2indI shape tmpsubs
    let kept := ((tmpsubs.zip tmpidx).filter fun p => !nzIdx.contains p.2).map (·.1)
    .ok (kept.take samples)

end Samp
end Pyttb
