/-
C13 — model of `pyttb/gcp/samplers.py` (tree after 8b499c4 / 1b8148d).

The random draws are explicit inputs: `idx` is what `np.random.choice(nnz, size=samples)`
returned, `draws` is the matrix `np.random.uniform(0, 1, (rows, ndims))` returned.  The
rounding functions `np.floor` / `np.ceil` are parameters (services with the usual contract);
the driver instantiates them with `Rat.floor` / `Rat.ceil`.  Subscripts of a sample are
integers (the pinned code could produce `-1`).  Import-free.
-/
import PyttbModel.Core.Arr
namespace Pyttb
namespace Samp

variable {α : Type}

/-- Subscripts, values and weights of one sample (three separate arrays, as in the code). -/
structure Sample (α : Type) where
  subs : List (List Int)
  vals : List α
  wgts : List α
  deriving Repr, BEq, DecidableEq

/-- `np.floor(u * s).astype(int)`: the subscript drawn in a mode of extent `s`
(`uniform` and `zeros`, after commit 1b8148d). -/
def drawSub [Mul α] [NatCast α] (floor : α → Int) (u : α) (s : Nat) : Int := floor (u * (s : α))

/-- The code before 1b8148d: `np.ceil(u * s).astype(int) - 1`. -/
def drawSubPinned [Mul α] [NatCast α] (ceil : α → Int) (u : α) (s : Nat) : Int :=
  ceil (u * (s : α)) - 1

/-- `semistrat`: `np.ceil(u * (s - 1)).astype(int)`. -/
def drawSubSemi [Mul α] [IntCast α] (ceil : α → Int) (u : α) (s : Nat) : Int :=
  ceil (u * (((s : Int) - 1 : Int) : α))

/-- One row of subscripts from one row of draws. -/
def drawRow (f : α → Nat → Int) (shape : List Nat) (row : List α) : List Int :=
  List.zipWith f row shape

/-- Integer subscript inside a shape. -/
def inBoundsI : List Nat → List Int → Bool
  | [], [] => true
  | s :: ss, i :: is => decide (0 ≤ i) && decide (i < (s : Int)) && inBoundsI ss is
  | _, _ => false

/-- `tt_sub2ind` on integer subscripts: `np.ravel_multi_index` raises on anything outside
the shape (negative entries included). -/
def ttSub2indI (shape : List Nat) (subs : List (List Int)) : Except Reject (List Nat) :=
  if subs.all (inBoundsI shape) then .ok (subs.map fun r => sub2ind shape (r.map Int.toNat))
  else .error .reject

/-- `np.random.choice(nnz, size=samples, replace=withRepl)` returned `idx`: the contract of
that service (right count, all below `nnz`, distinct when drawn without replacement). -/
def choiceOk (nnz samples : Nat) (withRepl : Bool) (idx : List Nat) : Bool :=
  idx.length == samples && idx.all (· < nnz) && (withRepl || idx.eraseDups.length == idx.length)

/-- `nonzeros(data, samples, with_replacement)`: subscripts and values of stored entries.
An all-zero tensor is refused on every path (`np.random.choice(0, …)` raises; with
`samples == 0` the `squeeze(1)` of an empty value array raises). -/
def nonzerosS (S : Sparse α) (samples : Nat) (withRepl : Bool) (idx : List Nat) :
    Except Reject (List (List Nat) × List α) :=
  let nnz := S.subs.length
  if nnz == 0 then .error .reject
  else if S.vals.length != nnz then .error .reject
  else
    let pick (nidx : List Nat) : List (List Nat) × List α :=
      (nidx.filterMap (S.subs[·]?), nidx.filterMap (S.vals[·]?))
    if samples == nnz then .ok (pick (List.range nnz))
    else if withRepl || samples < nnz then
      if choiceOk nnz samples withRepl idx then .ok (pick idx) else .error .reject
    else .error .reject

/-- Number of rows `zeros` asks the generator for:
`int(ceil(over_sample_rate * ceil(samples * data_size / num_zeros)))`.  Refused: a rate below
1.1 and a tensor without zeros (the quotient is `inf`/`nan`, which `int()` refuses). -/
def zerosNeed [Mul α] [Div α] [NatCast α] [IntCast α] [LT α] [DecidableLT α]
    (ceil : α → Int) (rate : α) (samples dataSize numZeros : Nat) : Except Reject Nat :=
  if rate < ((11 : Nat) : α) / ((10 : Nat) : α) then .error .reject
  else if numZeros == 0 then .error .reject
  else
    let ntmp : Int := ceil (((samples * dataSize : Nat) : α) / (numZeros : α))
    .ok (ceil (rate * (ntmp : α))).toNat

/-- `zeros(data, nz_idx, samples, over_sample_rate, with_replacement=True)`: the rejection
sampler.  `draws` is the matrix the generator returned (the code asks for `zerosNeed` rows).
Every drawn subscript goes through `tt_sub2ind` (which raises outside the shape); those whose
linear index is in `nz_idx` are dropped; at most `samples` are kept. -/
def zerosS [Mul α] [Div α] [NatCast α] [IntCast α] [LT α] [DecidableLT α]
    (floor ceil : α → Int) (shape nzIdx : List Nat) (samples : Nat) (rate : α)
    (draws : List (List α)) : Except Reject (List (List Int)) := do
  let _ ← zerosNeed ceil rate samples (numel shape) (numel shape - nzIdx.length)
  let tmpsubs := draws.map (drawRow (drawSub floor) shape)
  let tmpidx ← ttSub2indI shape tmpsubs
  let kept := ((tmpsubs.zip tmpidx).filter fun p => !nzIdx.contains p.2).map (·.1)
  .ok (kept.take samples)

/-- `tensor[subs]` for one integer subscript: NumPy wraps a negative entry once and raises
outside `-s .. s-1`. -/
def denseGetI [Zero α] (T : Dense α) (i : List Int) : Except Reject α :=
  let w := List.zipWith (fun (k : Int) (s : Nat) => if k < 0 then k + (s : Int) else k) i T.shape
  if i.length == T.shape.length && inBoundsI T.shape w then .ok (T.get (w.map Int.toNat))
  else .error .reject

/-- `uniform(data, samples)`: `T` is the array the data tensor denotes (for sparse data, which
`GCPSampler` also binds `uniform` to, the array written out; after 3523a7b the values are a 1-d
array for both representations). -/
def uniformS [Zero α] [Mul α] [Div α] [NatCast α] (floor : α → Int) (T : Dense α) (samples : Nat)
    (draws : List (List α)) : Except Reject (Sample α) := do
  let subs := draws.map (drawRow (drawSub floor) T.shape)
  let vals ← subs.mapM (denseGetI T)
  .ok ⟨subs, vals, List.replicate samples ((numel T.shape : α) / (samples : α))⟩

/-- `uniform` before 1b8148d (ceil − 1). -/
def uniformSPinned [Zero α] [Mul α] [Div α] [NatCast α] (ceil : α → Int) (T : Dense α)
    (samples : Nat) (draws : List (List α)) : Except Reject (Sample α) := do
  let subs := draws.map (drawRow (drawSubPinned ceil) T.shape)
  let vals ← subs.mapM (denseGetI T)
  .ok ⟨subs, vals, List.replicate samples ((numel T.shape : α) / (samples : α))⟩

/-- `semistrat(data, num_nonzeros, num_zeros)`: stored entries, then uniformly drawn
subscripts that are *called* zeros without being looked up (by design; `crng` corrects for
it in the gradient).  `data.nnz / num_nonzeros` is Python integer division by zero when no
nonzero sample is requested. -/
def semistratS [Zero α] [Mul α] [Div α] [NatCast α] [IntCast α] (ceil : α → Int) (S : Sparse α)
    (numNonzeros numZeros : Nat) (idx : List Nat) (draws : List (List α)) :
    Except Reject (Sample α) := do
  let (nsubs, nvals) ← nonzerosS S numNonzeros true idx
  if numNonzeros == 0 then .error .reject
  else
    let nw := List.replicate numNonzeros ((S.subs.length : α) / (numNonzeros : α))
    let zsubs := draws.map (drawRow (drawSubSemi ceil) S.shape)
    let zvals := List.replicate numZeros (0 : α)
    let zw := List.replicate numZeros ((numel S.shape : α) / (numZeros : α))
    .ok ⟨nsubs.map (·.map Int.ofNat) ++ zsubs, nvals ++ zvals, nw ++ zw⟩

/-- `stratified(data, nz_idx, num_nonzeros, num_zeros, over_sample_rate)` after 8b499c4:
values and weights of the zero part are sized by the zeros actually found. -/
def stratifiedS [Zero α] [Mul α] [Div α] [NatCast α] [IntCast α] [LT α] [DecidableLT α]
    (floor ceil : α → Int) (S : Sparse α) (nzIdx : List Nat) (numNonzeros numZeros : Nat)
    (rate : α) (idx : List Nat) (draws : List (List α)) : Except Reject (Sample α) := do
  let (nsubs, nvals) ← nonzerosS S numNonzeros true idx
  let nw := List.replicate numNonzeros ((S.subs.length : α) / (numNonzeros : α))
  let zsubs ← zerosS floor ceil S.shape nzIdx numZeros rate draws
  let found := zsubs.length
  let zvals := List.replicate found (0 : α)
  let zw := List.replicate found (((numel S.shape - S.subs.length : Nat) : α) / (found : α))
  .ok ⟨nsubs.map (·.map Int.ofNat) ++ zsubs, nvals ++ zvals, nw ++ zw⟩

/-- `stratified` before 8b499c4: values and weights of the zero part keep the *requested*
length whatever `zeros` returned. -/
def stratifiedSPinned [Zero α] [Mul α] [Div α] [NatCast α] [IntCast α] [LT α] [DecidableLT α]
    (floor ceil : α → Int) (S : Sparse α) (nzIdx : List Nat) (numNonzeros numZeros : Nat)
    (rate : α) (idx : List Nat) (draws : List (List α)) : Except Reject (Sample α) := do
  let (nsubs, nvals) ← nonzerosS S numNonzeros true idx
  let nw := List.replicate numNonzeros ((S.subs.length : α) / (numNonzeros : α))
  let zsubs ← zerosS floor ceil S.shape nzIdx numZeros rate draws
  let zvals := List.replicate numZeros (0 : α)
  let zw := List.replicate numZeros (((numel S.shape - S.subs.length : Nat) : α) / (numZeros : α))
  .ok ⟨nsubs.map (·.map Int.ofNat) ++ zsubs, nvals ++ zvals, nw ++ zw⟩

/-! ### `GCPSampler.__init__`: which sampler with which counts -/

inductive Kind where
  | uniform | semistrat | stratified
  deriving Repr, DecidableEq, BEq

/-- What `_prepare_function_sampler` / `_prepare_gradient_sampler` bind:
the sampler, its counts (`num_nonzeros`, `num_zeros`; for `uniform` both hold `samples`),
the length of the correction range `crng`, and whether the counts are redrawn from a Poisson
law at every call (uniform gradient sampling of sparse data). -/
structure Plan where
  kind : Kind
  numNonzeros : Nat
  numZeros : Nat
  crng : Nat
  poisson : Bool
  deriving Repr, DecidableEq, BEq

/-- A user-supplied count: nothing, an `int`, or a `StratifiedCount`. -/
inductive Count where
  | none | int (n : Nat) | strat (numNonzeros numZeros : Nat)
  deriving Repr, DecidableEq, BEq

def ceilDiv (a b : Nat) : Nat := (a + b - 1) / b

/-- `_prepare_function_sampler`.  `sparse`: the data is an `sptensor`; `kind = none`: default
(stratified for sparse, uniform for dense data). -/
def functionPlan (sparse : Bool) (size nnz : Nat) (kind : Option Kind) (c : Count) :
    Except Reject Plan :=
  let numZeros := size - nnz
  let kind := kind.getD (if sparse then .stratified else .uniform)
  match kind with
  | .stratified =>
    if !sparse then .error .reject else
    match c with
    | .none =>
      let ftmp := max (ceilDiv nnz 100) (10 ^ 5)
      .ok ⟨.stratified, min ftmp nnz, min (min ftmp nnz) numZeros, 0, false⟩
    | .int n => .ok ⟨.stratified, n, n, 0, false⟩
    | .strat a b => .ok ⟨.stratified, a, b, 0, false⟩
  | .uniform =>
    match c with
    | .none => let n := min (max (ceilDiv size 10) (10 ^ 6)) size; .ok ⟨.uniform, n, n, 0, false⟩
    | .int n => .ok ⟨.uniform, n, n, 0, false⟩
    | .strat _ _ => .error .reject
  | .semistrat => .error .reject

/-- `_prepare_gradient_sampler`. -/
def gradientPlan (sparse : Bool) (size nnz : Nat) (kind : Option Kind) (c : Count)
    (maxIters : Nat) : Except Reject Plan :=
  let numZeros := size - nnz
  let kind := kind.getD (if sparse then .stratified else .uniform)
  match kind with
  | .uniform =>
    match c with
    | .none =>
      if maxIters == 0 then .error .reject else
      let n := min (max 1000 (ceilDiv (10 * size) maxIters)) size
      .ok ⟨.uniform, n, n, 0, sparse⟩
    | .int n => .ok ⟨.uniform, n, n, 0, sparse⟩
    | .strat _ _ => .error .reject
  | k =>
    let counts : Except Reject (Nat × Nat) :=
      match c with
      | .none =>
        if maxIters == 0 then .error .reject else
        let gtmp := max 1000 (ceilDiv (3 * nnz) maxIters)
        .ok (min gtmp nnz, min (min gtmp nnz) numZeros)
      | .int n => .ok (n, n)
      | .strat a b => .ok (a, b)
    match counts with
    | .error e => .error e
    | .ok (a, b) =>
      if k == .semistrat then .ok ⟨.semistrat, a, b, a, false⟩
      else if !sparse then .error .reject
      else .ok ⟨.stratified, a, b, 0, false⟩

end Samp
end Pyttb
