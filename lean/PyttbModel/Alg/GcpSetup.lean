/-
C13 — model of `pyttb/gcp/fg_setup.py` (tree after 083ca8e / 18649ab): which data a loss accepts (`valid_nonneg`,
`valid_binary`, `valid_natural`), which losses need the additional parameter, and the lower
bound `setup` returns (`none` = `-inf`).  The loss / derivative pair itself is the subject of
C12.  `setup` looks at the data only through its representation (`isinstance(data, sptensor)`)
and its array of values (`data.vals` for a sparse tensor: the STORED values; `data.data` for a
dense one: every entry).  `np.floor` is a parameter (`v % 1 == 0` ⇔ `floor v = v`).
Import-free.
-/
import PyttbModel.Core.Arr
namespace Pyttb
namespace GcpSetup

variable {α : Type}

/-- `pyttb.gcp.handles.Objectives`. -/
inductive Objective where
  | gaussian | bernoulliOdds | bernoulliLogit | poisson | poissonLog | rayleigh | gamma | huber
  | negativeBinomial | beta
  deriving Repr, BEq, DecidableEq

/-- What `setup` reads of its `data` argument. -/
structure DataView (α : Type) where
  sparse : Bool
  vals : List α
  deriving Repr

/-- `valid_nonneg` (after 083ca8e): sparse `np.all(data.vals > 0)` (the STORED values are
positive), dense `np.all(data.data >= 0)` (every entry is non-negative). -/
def validNonneg [Zero α] [LT α] [DecidableLT α] [LE α] [DecidableLE α] (d : DataView α) : Bool :=
  if d.sparse then d.vals.all fun v => decide (0 < v) else d.vals.all fun v => decide (0 ≤ v)

/-- The test before 083ca8e, an explicit copy: `> 0` for both representations. -/
def validNonnegPinned [Zero α] [LT α] [DecidableLT α] (d : DataView α) : Bool :=
  d.vals.all fun v => decide (0 < v)

/-- `valid_binary`: sparse `np.all(data.vals == 1)`; dense
`np.all(np.isin(np.unique(data.data), [0, 1]))`. -/
def validBinary [Zero α] [One α] [DecidableEq α] (d : DataView α) : Bool :=
  if d.sparse then d.vals.all fun v => decide (v = 1)
  else d.vals.all fun v => decide (v = 0) || decide (v = 1)

/-- `valid_natural` (after 18649ab): `np.all(vals % 1 == 0) and np.all(vals >= 0)` for both
representations. -/
def validNatural [Zero α] [IntCast α] [DecidableEq α] [LE α] [DecidableLE α] (floor : α → Int)
    (d : DataView α) : Bool :=
  (d.vals.all fun v => decide (((floor v : Int) : α) = v)) && d.vals.all fun v => decide (0 ≤ v)

/-- The test before 18649ab, an explicit copy: `np.all(vals % 1 == 0)` (no sign test). -/
def validNaturalPinned [IntCast α] [DecidableEq α] (floor : α → Int) (d : DataView α) : Bool :=
  d.vals.all fun v => decide (((floor v : Int) : α) = v)

/-- `data is not None and not valid(data)`. -/
def refused (valid : DataView α → Bool) : Option (DataView α) → Bool
  | none => false
  | some d => !valid d

/-- `setup(objective, data, additional_parameter)`: the lower bound of an accepted request
(`none` = `-inf`), branch by branch. -/
def setupS [Zero α] [One α] [IntCast α] [LT α] [DecidableLT α] [LE α] [DecidableLE α] [DecidableEq α]
    (floor : α → Int)
    (obj : Objective) (data : Option (DataView α)) (param : Option α) : Except Reject (Option α) :=
  match obj with
  | .gaussian => .ok none
  | .bernoulliOdds => if refused validBinary data then .error .reject else .ok (some 0)
  | .bernoulliLogit => if refused validBinary data then .error .reject else .ok none
  | .poisson => if refused (validNatural floor) data then .error .reject else .ok (some 0)
  | .poissonLog => if refused (validNatural floor) data then .error .reject else .ok none
  | .rayleigh => if refused validNonneg data then .error .reject else .ok (some 0)
  | .gamma => if refused validNonneg data then .error .reject else .ok (some 0)
  | .huber => if param.isNone then .error .reject else .ok none
  | .negativeBinomial =>
    if refused validNonneg data then .error .reject
    else if param.isNone then .error .reject else .ok (some 0)
  | .beta =>
    if refused validNonneg data then .error .reject
    else if param.isNone then .error .reject else .ok (some 0)

/-- What `setup` sees of a dense / sparse tensor. -/
def ofDense (T : Dense α) : DataView α := ⟨false, T.data⟩
def ofSparse (S : Sparse α) : DataView α := ⟨true, S.vals⟩

end GcpSetup
end Pyttb
