/-
`nvecs` (leading mode-n vectors) of `tensor`, `sptensor`, `ktensor`, `ttensor`.

Per representation the model forms the matrix that the code hands to the eigen-solver
(the Gram matrix of the mode-n unfolding), chooses the solver the way the code does
(`r < size - 1`: ARPACK `eigsh`; otherwise LAPACK `eigh`, for `sptensor` LAPACK `eig`),
takes the solver's answer as a SERVICE result (eigenvalues `w`, eigenvector matrix `V`, in
whatever order the solver returns them) and performs the code's post-processing: order by
`-|w|`, keep the first `r`, optionally flip signs.  Import-free.

Matrices are lists of rows.
-/
import PyttbModel.Ops.Dense
import PyttbModel.Ops.Sparse
import PyttbModel.Ops.Kruskal
namespace Pyttb

variable {α : Type}

/-! ### matrix primitives (`@`, `.T`, `*`) -/

-- `dot` (`u @ v`) is defined in Core/Arr.lean

/-- `A @ B.T`. -/
def matMulT [Add α] [Mul α] [Zero α] (A B : Mat α) : Mat α :=
  A.map fun ra => B.map fun rb => dot ra rb

/-- `A.T` for a matrix with `c` columns (the column count is carried by the array, so it is
known even when there is no row). -/
def transposeN [Zero α] (A : Mat α) (c : Nat) : Mat α :=
  (List.range c).map fun j => A.map fun row => row.getD j 0

/-- `A @ B` for `B` with `c` columns. -/
def matMulN [Add α] [Mul α] [Zero α] (A B : Mat α) (c : Nat) : Mat α := matMulT A (transposeN B c)

/-- element-wise product `A * B` of equally shaped matrices. -/
def hadamard [Mul α] (A B : Mat α) : Mat α :=
  List.zipWith (fun ra rb => List.zipWith (· * ·) ra rb) A B

/-- a 2-way dense array (`tenmat.double()`) as a list of rows. -/
def Dense.toMat [Zero α] (D : Dense α) : Mat α :=
  (List.range (D.shape.getD 0 0)).map fun a => (List.range (D.shape.getD 1 0)).map fun c => D.get [a, c]

/-! ### the matrix handed to the solver, per representation -/

/-- `tensor.nvecs`: `Xn = self.to_tenmat(rdims=[n]).double(); y = Xn @ Xn.T`. -/
def Dense.nvecsGram [Add α] [Mul α] [Zero α] (T : Dense α) (n : Nat) : Except Reject (Mat α) :=
  match T.toTenmat (some [n]) none none with
  | .error e => .error e
  | .ok M => let Xn := M.data.toMat; .ok (matMulT Xn Xn)

/-- `sptenmat.double()` (a `coo_matrix`, which sums repeated coordinates) as rows. -/
def Sptenmat.toMat [Add α] [Zero α] (M : Sptenmat α) : Mat α :=
  let I := numel (gather M.tshape M.rdims)
  let P := numel (gather M.tshape M.cdims)
  (List.range I).map fun a => (List.range P).map fun c =>
    Sparse.get ⟨[I, P], M.subs, M.vals⟩ [a, c]

/-- `sptensor.nvecs` (repaired code): all-singleton shapes are refused, then
`Xn = self.to_sptenmat(rdims=[n]).double(); y = Xn.dot(Xn.transpose())`. -/
def Sparse.nvecsGram [Add α] [Mul α] [Zero α] [BEq α] (S : Sparse α) (n : Nat) : Except Reject (Mat α) :=
  if S.shape.all (· == 1) then .error .reject
  else if n ≥ S.shape.length then .error .reject
  else
    match S.toSptenmat (some [n]) none none with
    | .error e => .error e
    | .ok M => let Xn := M.toMat; .ok (matMulT Xn Xn)

/-- `A.T @ A` for a factor matrix with `R` columns. -/
def gramCols [Add α] [Mul α] [Zero α] (A : Mat α) (R : Nat) : Mat α :=
  let At := transposeN A R
  matMulT At At

/-- `ktensor.nvecs`:
`M = λ λᵀ; for i ≠ n: M = M * (A_i.T @ A_i); y = A_n @ M @ A_n.T`. -/
def Ktensor.nvecsGram [Add α] [Mul α] [Zero α] (K : Ktensor α) (n : Nat) : Except Reject (Mat α) :=
  if n ≥ K.factors.length then .error .reject
  else
    let R := K.ncomp
    let M0 : Mat α := K.weights.map fun a => K.weights.map fun b => a * b
    let M := (List.range K.factors.length).foldl
      (fun M i => if i != n then hadamard M (gramCols (K.factors.getD i []) R) else M) M0
    let An := K.factors.getD n []
    .ok (matMulT (matMulN An M R) An)

/-- `tensor.ttm([V_0, …, V_{N-1}])` by its entry-wise meaning
`Y[i] = Σ_l (∏_k V_k[i_k, l_k]) · T[l]` — the logical content of the loop "for every mode: permute,
F-reshape, `matrix @ ·`, F-reshape, permute back" (that `tensor.ttm` computes this is property C02;
here it is a primitive, like `@`).  The shape tests of the matrix products are kept. -/
def Dense.ttmListNv [Add α] [Mul α] [Zero α] [One α] (T : Dense α) (Vs : List (Mat α)) : Except Reject (Dense α) :=
  if Vs.length != T.shape.length then .error .reject
  else if (List.range Vs.length).any
      (fun k => (Vs.getD k []).any fun row => row.length != T.shape.getD k 0) then .error .reject
  else
    .ok (Dense.ofFn (Vs.map List.length) fun i =>
      ((allSubs T.shape).map fun l =>
        (List.zipWith (fun (V : Mat α) (p : Nat × Nat) => V.get p.1 p.2) Vs (i.zip l)).prod * T.get l).sum)

/-- the list `V` of `ttensor.nvecs`: `V_i = U_iᵀU_i` for `i ≠ n`, `V_n = U_n`. -/
def Ttensor.nvecsVs [Add α] [Mul α] [Zero α] (T : Ttensor α) (n : Nat) : List (Mat α) :=
  (List.range T.factors.length).map fun i =>
    let U := T.factors.getD i []
    if i == n then U else gramCols U (T.core.shape.getD i 0)

/-- `ttensor.nvecs` (dense core):
`H = G.ttm(V); HnT = H.to_tenmat(cdims=[n]); GnT = G.to_tenmat(cdims=[n]);`
`XnT = GnT @ U_n.T; Y = HnT.T @ XnT`. -/
def Ttensor.nvecsGram [Add α] [Mul α] [Zero α] [One α] (T : Ttensor α) (n : Nat) : Except Reject (Mat α) :=
  let N := T.factors.length
  if n ≥ N then .error .reject
  else
    match T.core.ttmListNv (T.nvecsVs n) with
    | .error e => .error e
    | .ok H =>
      match H.toTenmat none (some [n]) none, T.core.toTenmat none (some [n]) none with
      | .ok HM, .ok GM =>
        let HnT := HM.data.toMat
        let GnT := GM.data.toMat
        let Un := T.factors.getD n []
        let XnT := matMulT GnT Un                        -- GnT @ U_n.T
        let I := Un.length
        -- Y = HnT.T @ XnT
        .ok (matMulN (transposeN HnT I) XnT I)
      | _, _ => .error .reject

/-! ### solver choice and post-processing -/

/-- which solver the code calls. -/
inductive NvecsPath where
  | iter   -- scipy.sparse.linalg.eigsh(y, r)
  | dense  -- scipy.linalg.eigh(y)  (sptensor: scipy.linalg.eig(y.toarray()))
  deriving Repr, DecidableEq, BEq

/-- `if r < y.shape[0] - 1` (Python integers: the right-hand side may be `-1`). -/
def nvecsPath (m r : Nat) : NvecsPath := if (r : Int) < (m : Int) - 1 then .iter else .dense

/-- magnitude `np.abs` on an ordered type. -/
def absM [LT α] [DecidableLT α] [Neg α] [Zero α] (x : α) : α := if x < 0 then -x else x

/-- `(-np.abs(w)).argsort()`: positions ordered by decreasing magnitude (ties keep their
order, as NumPy's sort does on the short arrays occurring here). -/
def argsortDescAbs [LT α] [DecidableLT α] [Neg α] [Zero α] (w : List α) : List Nat :=
  (List.range w.length).mergeSort fun i j => !(decide (absM (w.getD i 0) < absM (w.getD j 0)))

/-- `v[:, p]` -/
def permCols [Zero α] (V : Mat α) (p : List Nat) : Mat α := V.map fun row => gatherD row p 0

/-- `v[p]` (rows) -/
def permRows (V : Mat α) (p : List Nat) : Mat α := gatherD V p []

/-- `v[:, :r]` -/
def takeCols (V : Mat α) (r : Nat) : Mat α := V.map fun row => row.take r

/-- position of the first maximum of the magnitudes (`np.argmax(np.abs(col))`). -/
def argmaxAbs [LT α] [DecidableLT α] [Neg α] [Zero α] (col : List α) : Nat :=
  let rec go (best : α) (bi k : Nat) : List α → Nat
    | [] => bi
    | y :: ys => if best < absM y then go (absM y) k (k + 1) ys else go best bi (k + 1) ys
  match col with
  | [] => 0
  | x :: xs => go (absM x) 0 1 xs

/-- the `flipsign` block: a column whose first entry of largest magnitude is negative is
negated. -/
def flipSigns [LT α] [DecidableLT α] [Neg α] [Zero α] (V : Mat α) : Mat α :=
  let c := (V.getD 0 []).length
  let flips : List Bool := (List.range c).map fun i =>
    let col := V.map fun row => row.getD i 0
    decide (col.getD (argmaxAbs col) 0 < 0)
  V.map fun row => List.zipWith (fun x (f : Bool) => if f then -x else x) row flips

/-- post-processing of `tensor/ktensor/ttensor.nvecs` and of the iterative path of
`sptensor.nvecs`: `v = v[:, (-np.abs(w)).argsort()]; v = v[:, :r]`, then the sign rule. -/
def nvecsPost [LT α] [DecidableLT α] [Neg α] [Zero α] (w : List α) (V : Mat α) (r : Nat) (flipsign : Bool) :
    Mat α :=
  let v := takeCols (permCols V (argsortDescAbs w)) r
  if flipsign then flipSigns v else v

/-- post-processing of the dense-solver path of `sptensor.nvecs` as the code stands:
`v = v[(-np.abs(w)).argsort()]` permutes the ROWS of the eigenvector matrix. -/
def nvecsPostSparseDense [LT α] [DecidableLT α] [Neg α] [Zero α] (w : List α) (V : Mat α) (r : Nat)
    (flipsign : Bool) : Mat α :=
  let v := takeCols (permRows V (argsortDescAbs w)) r
  if flipsign then flipSigns v else v

/-- The eigen-solvers as a service: given the matrix (and the count for the iterative one)
they return eigenvalues and a matrix whose columns are eigenvectors, in any order. -/
structure EigService (α : Type) where
  eigsh : Mat α → Nat → List α × Mat α
  eigh : Mat α → List α × Mat α
  eig : Mat α → List α × Mat α

/-- the part of `nvecs` after the Gram matrix `y` is formed; `sparseRep` selects the
`sptensor` variant of the dense-solver path. -/
def nvecsFromGram [LT α] [DecidableLT α] [Neg α] [Zero α] (svc : EigService α) (sparseRep : Bool)
    (y : Mat α) (r : Nat) (flipsign : Bool) : Mat α :=
  match nvecsPath y.length r with
  | .iter => let (w, V) := svc.eigsh y r; nvecsPost w V r flipsign
  | .dense =>
    if sparseRep then let (w, V) := svc.eig y; nvecsPostSparseDense w V r flipsign
    else let (w, V) := svc.eigh y; nvecsPost w V r flipsign

def Dense.nvecs [Add α] [Mul α] [LT α] [DecidableLT α] [Neg α] [Zero α] (svc : EigService α)
    (T : Dense α) (n r : Nat) (flipsign : Bool) : Except Reject (Mat α) :=
  (T.nvecsGram n).map fun y => nvecsFromGram svc false y r flipsign

def Sparse.nvecs [Add α] [Mul α] [LT α] [DecidableLT α] [Neg α] [Zero α] [BEq α] (svc : EigService α)
    (S : Sparse α) (n r : Nat) (flipsign : Bool) : Except Reject (Mat α) :=
  (S.nvecsGram n).map fun y => nvecsFromGram svc true y r flipsign

def Ktensor.nvecs [Add α] [Mul α] [LT α] [DecidableLT α] [Neg α] [Zero α] (svc : EigService α)
    (K : Ktensor α) (n r : Nat) (flipsign : Bool) : Except Reject (Mat α) :=
  (K.nvecsGram n).map fun y => nvecsFromGram svc false y r flipsign

def Ttensor.nvecs [Add α] [Mul α] [LT α] [DecidableLT α] [Neg α] [Zero α] [One α] (svc : EigService α)
    (T : Ttensor α) (n r : Nat) (flipsign : Bool) : Except Reject (Mat α) :=
  (T.nvecsGram n).map fun y => nvecsFromGram svc false y r flipsign

end Pyttb
