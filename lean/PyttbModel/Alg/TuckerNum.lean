/-
C10 — numeric services and small list primitives shared by the HOSVD / Tucker-ALS models
and by the formulas that `harness/translate/gen_tucker.py` regenerates from the Python
source (`Generated/TuckerFormulas.lean` imports this file).  Import-free.
-/
namespace Pyttb
namespace Tk

/-- The operations an algorithm needs beyond `+ - *`: supplied by the scalar type the model
is executed at (`Rat`, `Float`) or reasoned about (`ℝ`). -/
structure NumOps (α : Type) where
  div : α → α → α
  sqrt : α → α
  abs : α → α
  /-- strict comparison `a < b` -/
  lt : α → α → Bool
  /-- an integer used as a number (`/ d` with `d = ndims`) -/
  ofNat : Nat → α

variable {α : Type}

/-- `x ** n` for a literal natural exponent. -/
def npow [Mul α] [One α] (x : α) : Nat → α
  | 0 => 1
  | n + 1 => npow x n * x

/-- `np.cumsum(e[::-1])[::-1]`: entry `i` is the sum of `e[i:]`, accumulated from the end. -/
def revCumsum [Add α] : List α → List α
  | [] => []
  | x :: rest =>
    match revCumsum rest with
    | [] => [x]
    | t :: ts => (t + x) :: t :: ts

/-- `np.where(cond)[0][-1]`: the last position whose entry satisfies `p`; `none` where NumPy
raises `IndexError` (no position qualifies). -/
def lastIdxWhere (p : α → Bool) (l : List α) : Option Nat :=
  ((List.range l.length).filter fun i => match l[i]? with | some x => p x | none => false).getLast?

end Tk
end Pyttb
