/-
Logical arrays.  A dense tensor is a shape and its values in F order (first
subscript fastest) – NumPy's logical indexing semantics, independent of memory
layout.  A matrix is a list of rows.  Import-free.
-/
import PyttbModel.Core.Idx
namespace Pyttb

abbrev Mat (α : Type) := List (List α)

structure Dense (α : Type) where
  shape : List Nat
  data : List α
  deriving Repr, BEq, DecidableEq

namespace Dense
variable {α : Type}

def WF (T : Dense α) : Prop := T.data.length = numel T.shape

/-- Entry at a full subscript (zero outside the stored data). -/
def get [Zero α] (T : Dense α) (i : List Nat) : α := T.data.getD (sub2ind T.shape i) 0

/-- Tabulate a function over a shape in F order. -/
def ofFn (s : List Nat) (f : List Nat → α) : Dense α := ⟨s, (allSubs s).map f⟩

def ndims (T : Dense α) : Nat := T.shape.length

end Dense

/-- Coordinate-format sparse tensor exactly as `sptensor` stores it: a subscript row
and a value per stored entry (the two lists are separate, as in the code). -/
structure Sparse (α : Type) where
  shape : List Nat
  subs : List (List Nat)
  vals : List α
  deriving Repr, BEq, DecidableEq

namespace Sparse
variable {α : Type}

def entries (S : Sparse α) : List (List Nat × α) := S.subs.zip S.vals

/-- Denotation at a subscript: the sum of the values stored under it
(exactly one or none for a well-formed tensor). -/
def get [Add α] [Zero α] (S : Sparse α) (i : List Nat) : α :=
  ((S.entries.filter (fun e => e.1 == i)).map (·.2)).sum

def nnz (S : Sparse α) : Nat := S.subs.length

/-- Well-formedness of a stored sparse tensor. -/
structure WF [Zero α] [BEq α] (S : Sparse α) : Prop where
  len : S.subs.length = S.vals.length
  inb : ∀ i ∈ S.subs, InBounds S.shape i
  nodup : S.subs.Nodup
  nz : ∀ v ∈ S.vals, (v == 0) = false

def wfb [Zero α] [BEq α] (S : Sparse α) : Bool :=
  S.subs.length == S.vals.length && S.subs.all (inBounds S.shape) &&
  (S.subs.eraseDups.length == S.subs.length) && S.vals.all (fun v => !(v == 0))

end Sparse

/-- Kruskal tensor: weights and one factor matrix per mode. -/
structure Ktensor (α : Type) where
  weights : List α
  factors : List (Mat α)
  deriving Repr, BEq, DecidableEq

/-- Tucker tensor with dense core. -/
structure Ttensor (α : Type) where
  core : Dense α
  factors : List (Mat α)
  deriving Repr, BEq, DecidableEq

/-- Matrix entry with zero default. -/
def Mat.get {α} [Zero α] (A : Mat α) (i j : Nat) : α := (A.getD i []).getD j 0

def Mat.nrows {α} (A : Mat α) : Nat := A.length
def Mat.ncols {α} (A : Mat α) : Nat := (A.getD 0 []).length

def Mat.transpose {α} [Zero α] (A : Mat α) : Mat α :=
  (List.range A.ncols).map fun j => (List.range A.nrows).map fun i => A.get i j

/-- `np.dot` / `u @ v` of two 1-d arrays. -/
def dot {α} [Add α] [Mul α] [Zero α] (u v : List α) : α := (List.zipWith (· * ·) u v).sum

/-- Two-matrix step of `khatrirao`: rows of `P` slow, rows of `M` fast,
entry `M[b,r] * P[a,r]` (the code multiplies the new matrix on the left). -/
def kr2 {α} [Mul α] (P M : Mat α) : Mat α :=
  P.flatMap fun prow => M.map fun mrow => List.zipWith (· * ·) mrow prow

/-- `khatrirao(*Ms, reverse=rev)`; rejects an empty argument list and differing
column counts (the code asserts). -/
def khatrirao {α} [Mul α] (Ms : List (Mat α)) (rev : Bool) : Except Reject (Mat α) :=
  let Ms := if rev then Ms.reverse else Ms
  match Ms with
  | [] => .error .reject
  | M0 :: rest =>
    if rest.all (fun M => M.ncols == M0.ncols) then .ok (rest.foldl kr2 M0)
    else .error .reject

end Pyttb
