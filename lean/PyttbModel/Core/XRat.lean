/-
Extended rationals: ℚ ∪ {nan, +inf, −inf} with the IEEE-754 rules for `+ - * /` (no signed
zero, exact finite arithmetic).  The sparse division models are executed at this type, so
that `0/0 = nan` and `x/0 = ±inf` are computed, not assumed.  Import-free.
-/
namespace Pyttb

inductive XRat where
  | fin (q : Rat)
  | nan
  | pinf
  | ninf
  deriving DecidableEq, Repr

namespace XRat

instance : Zero XRat := ⟨.fin 0⟩
instance : One XRat := ⟨.fin 1⟩
instance : Inhabited XRat := ⟨.fin 0⟩
instance : Coe Rat XRat := ⟨.fin⟩

/-- sign of a rational as an infinity (`0` has no sign here: signed zeros are not modelled). -/
def infOfSign (q : Rat) : XRat := if q < 0 then .ninf else .pinf

def neg : XRat → XRat
  | .fin q => .fin (-q)
  | .nan => .nan
  | .pinf => .ninf
  | .ninf => .pinf

def add : XRat → XRat → XRat
  | .nan, _ => .nan
  | _, .nan => .nan
  | .fin a, .fin b => .fin (a + b)
  | .pinf, .ninf => .nan
  | .ninf, .pinf => .nan
  | .pinf, _ => .pinf
  | _, .pinf => .pinf
  | .ninf, _ => .ninf
  | _, .ninf => .ninf

def mul : XRat → XRat → XRat
  | .nan, _ => .nan
  | _, .nan => .nan
  | .fin a, .fin b => .fin (a * b)
  | .fin a, .pinf => if a == 0 then .nan else infOfSign a
  | .fin a, .ninf => if a == 0 then .nan else infOfSign (-a)
  | .pinf, .fin b => if b == 0 then .nan else infOfSign b
  | .ninf, .fin b => if b == 0 then .nan else infOfSign (-b)
  | .pinf, .pinf => .pinf
  | .ninf, .ninf => .pinf
  | .pinf, .ninf => .ninf
  | .ninf, .pinf => .ninf

/-- IEEE division: `0/0 = nan`, `x/0 = ±inf` by the sign of `x`, `x/±inf = 0`, `inf/inf = nan`. -/
def div : XRat → XRat → XRat
  | .nan, _ => .nan
  | _, .nan => .nan
  | .fin a, .fin b => if b == 0 then (if a == 0 then .nan else infOfSign a) else .fin (a / b)
  | .fin _, .pinf => .fin 0
  | .fin _, .ninf => .fin 0
  | .pinf, .fin b => infOfSign b
  | .ninf, .fin b => infOfSign (-b)
  | .pinf, .pinf => .nan
  | .pinf, .ninf => .nan
  | .ninf, .pinf => .nan
  | .ninf, .ninf => .nan

instance : Neg XRat := ⟨neg⟩
instance : Add XRat := ⟨add⟩
instance : Mul XRat := ⟨mul⟩
instance : Div XRat := ⟨div⟩
instance : Sub XRat := ⟨fun a b => add a (neg b)⟩

def isFinite : XRat → Bool
  | .fin _ => true
  | _ => false

end XRat
end Pyttb
