/- JSON codec for the line protocol between the Python harness and the model driver. -/
import Lean.Data.Json
import PyttbModel.Core.Arr
open Lean
namespace Pyttb.Codec

abbrev R := Except String

def field (j : Json) (k : String) : R Json := j.getObjVal? k
def fieldOpt (j : Json) (k : String) : Option Json :=
  match j.getObjVal? k with
  | .ok Json.null => none
  | .ok v => some v
  | .error _ => none

def asNat (j : Json) : R Nat := j.getNat?
def asInt (j : Json) : R Int := j.getInt?
def asBool (j : Json) : R Bool := j.getBool?
def asStr (j : Json) : R String := j.getStr?

def asList {β} (f : Json → R β) (j : Json) : R (List β) := do
  let a ← j.getArr?
  a.toList.mapM f

def parseIntStr (s : String) : R Int :=
  match s.toInt? with
  | some k => .ok k
  | none => .error s!"bad int {s}"

/-- Rationals cross the pipe as JSON integers or as strings `"n/d"`. -/
def asRat (j : Json) : R Rat :=
  match j with
  | .str s =>
    match s.splitOn "/" with
    | [n, d] => do
      let n ← parseIntStr n
      let d ← parseIntStr d
      if d == 0 then .error "zero denominator" else .ok ((n : Rat) / (d : Rat))
    | [n] => do let n ← parseIntStr n; .ok (n : Rat)
    | _ => .error s!"bad rat {s}"
  | _ => do let k ← j.getInt?; .ok (k : Rat)

def ratJ (q : Rat) : Json :=
  if q.den == 1 then toJson q.num else Json.str s!"{q.num}/{q.den}"

def natsJ (l : List Nat) : Json := Json.arr (l.map (fun (n : Nat) => toJson n)).toArray
def intsJ (l : List Int) : Json := Json.arr (l.map (fun (n : Int) => toJson n)).toArray
def ratsJ (l : List Rat) : Json := Json.arr (l.map ratJ).toArray
def listJ {β} (f : β → Json) (l : List β) : Json := Json.arr (l.map f).toArray
def natMatJ (l : List (List Nat)) : Json := listJ natsJ l
def intMatJ (l : List (List Int)) : Json := listJ intsJ l
def ratMatJ (l : List (List Rat)) : Json := listJ ratsJ l

def asNats := asList asNat
def asInts := asList asInt
def asRats := asList asRat
def asNatMat := asList asNats
def asIntMat := asList asInts
def asRatMat := asList asRats

def asDense (j : Json) : R (Dense Rat) := do
  let s ← field j "shape" >>= asNats
  let d ← field j "data" >>= asRats
  .ok ⟨s, d⟩

def denseJ (T : Dense Rat) : Json :=
  Json.mkObj [("shape", natsJ T.shape), ("data", ratsJ T.data)]

def asSparse (j : Json) : R (Sparse Rat) := do
  let s ← field j "shape" >>= asNats
  let subs ← field j "subs" >>= asNatMat
  let vals ← field j "vals" >>= asRats
  .ok ⟨s, subs, vals⟩

def sparseJ (S : Sparse Rat) : Json :=
  Json.mkObj [("shape", natsJ S.shape), ("subs", natMatJ S.subs), ("vals", ratsJ S.vals)]

def asKtensor (j : Json) : R (Ktensor Rat) := do
  let w ← field j "weights" >>= asRats
  let f ← field j "factors" >>= asList asRatMat
  .ok ⟨w, f⟩

def ktensorJ (K : Ktensor Rat) : Json :=
  Json.mkObj [("weights", ratsJ K.weights), ("factors", listJ ratMatJ K.factors)]

def rejectJ : Json := Json.mkObj [("reject", Json.bool true)]

def exceptJ {β} (f : β → Json) : Except Reject β → Json
  | .ok v => Json.mkObj [("ok", f v)]
  | .error _ => rejectJ

abbrev Op := Json → R Json

end Pyttb.Codec
