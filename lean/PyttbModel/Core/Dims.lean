/-
`tt_dimscheck` (mode-selection preprocessing) and `gather_wrap_dims`.  Import-free.
-/
import PyttbModel.Core.Idx
namespace Pyttb

/-- Stable sorting permutation (`np.argsort`; ties do not occur for valid `dims`,
for repeated dims the stable order is used, which is what NumPy's default quicksort
returns on the short vectors involved – this is exercised by the correspondence). -/
def argsortInt (xs : List Int) : List Nat :=
  ((List.range xs.length).zip xs).mergeSort (fun a b => a.2 ≤ b.2) |>.map (·.1)

/-- Result of `tt_dimscheck`: sorted dims and, when a multiplicand count was given,
the index of the multiplicand belonging to each. -/
structure DimsCheck where
  sdims : List Nat
  vidx : Option (List Nat)
  deriving Repr, DecidableEq, BEq

/-- `tt_dimscheck(N, M, dims, exclude_dims)` branch by branch (with the repaired code's
rejection of modes `≥ N` and of repeated modes). -/
def dimscheck (N : Nat) (M : Option Nat) (dims excl : Option (List Int)) :
    Except Reject DimsCheck :=
  match dims, excl with
  | some _, some _ => .error .reject
  | _, _ =>
    -- exclude branch: range check then complement
    let dimArr? : Except Reject (List Int) :=
      match excl with
      | some e =>
        if e.all (fun x => decide (0 ≤ x) && decide (x < (N : Int))) then
          .ok (((List.range N).filter (fun (k : Nat) => !e.contains (Int.ofNat k))).map (fun (k : Nat) => Int.ofNat k))
        else .error .reject
      | none =>
        match dims with
        | none => .ok ((List.range N).map (fun (k : Nat) => Int.ofNat k))
        | some d => .ok d
    match dimArr? with
    | .error e => .error e
    | .ok dimArr =>
      if dimArr.any (· < 0) then .error .reject else
      -- repaired code: modes must be below N and must not repeat
      if dimArr.any (fun x => decide ((N : Int) ≤ x)) then .error .reject else
      if dimArr.eraseDups.length != dimArr.length then .error .reject else
      if (match excl with | some e => e.eraseDups.length != e.length | none => false) then .error .reject else
      let P := dimArr.length
      let sidx := argsortInt dimArr
      let sdims := sidx.map (fun k => (dimArr.getD k 0).toNat)
      match M with
      | none => .ok ⟨sdims, none⟩
      | some m =>
        if m > N then .error .reject
        else if m ≠ N ∧ m ≠ P then .error .reject
        else if P = m then .ok ⟨sdims, some sidx⟩
        else .ok ⟨sdims, some sdims⟩

end Pyttb
