/-
Denotations shared by all properties: what array a Kruskal / Tucker object stands for.
(Dense.get and Sparse.get are in Core/Arr.)  Import-free.
-/
import PyttbModel.Core.Arr
namespace Pyttb

variable {α : Type}

/-- Number of components of a Kruskal tensor. -/
def Ktensor.ncomp (K : Ktensor α) : Nat := K.weights.length

/-- Shape of a Kruskal tensor: the row counts of its factor matrices. -/
def Ktensor.shape (K : Ktensor α) : List Nat := K.factors.map List.length

/-- Well-formed Kruskal tensor: every factor row has one entry per component. -/
def Ktensor.WF (K : Ktensor α) : Prop :=
  ∀ A ∈ K.factors, ∀ row ∈ A, row.length = K.weights.length

/-- Component `r` at subscript `i`: `∏ₙ Aₙ[iₙ, r]`. -/
def Ktensor.comp [Mul α] [One α] [Zero α] (K : Ktensor α) (r : Nat) (i : List Nat) : α :=
  (List.zipWith (fun A ik => Mat.get A ik r) K.factors i).prod

/-- The array a Kruskal tensor denotes: `Σ_r λ_r ∏ₙ Aₙ[iₙ, r]`. -/
def Ktensor.get [Add α] [Mul α] [One α] [Zero α] (K : Ktensor α) (i : List Nat) : α :=
  ((List.range K.ncomp).map fun r => K.weights.getD r 0 * K.comp r i).sum

/-- Shape of a Tucker tensor. -/
def Ttensor.shape (T : Ttensor α) : List Nat := T.factors.map List.length

/-- The array a Tucker tensor denotes: `Σ_j G[j] ∏ₙ Uₙ[iₙ, jₙ]`. -/
def Ttensor.get [Add α] [Mul α] [One α] [Zero α] (T : Ttensor α) (i : List Nat) : α :=
  ((allSubs T.core.shape).map fun j =>
    T.core.get j * (List.zipWith (fun (U : Mat α) (p : Nat × Nat) => Mat.get U p.1 p.2) T.factors (i.zip j)).prod).sum

end Pyttb
