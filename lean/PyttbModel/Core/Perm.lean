/-
Gathering by an index list (`a[order]`), permutations of `0..n-1`, inverse permutation
(`np.argsort(order)` for a permutation).  Import-free.
-/
import PyttbModel.Core.Idx
namespace Pyttb

/-- `l[idx]` for natural-number lists (NumPy fancy indexing of a 1-d integer array). -/
def gather (l : List Nat) (idx : List Nat) : List Nat := idx.map (fun k => l.getD k 0)

/-- `order` is a permutation of `0 .. n-1` (what `np.transpose` / the sparse check accept). -/
def isPermOf (order : List Nat) (n : Nat) : Bool :=
  order.length == n && (List.range n).all (fun m => order.contains m)

/-- Inverse permutation: `np.argsort(order)` when `order` is a permutation. -/
def invPerm (order : List Nat) : List Nat := (List.range order.length).map (fun m => order.idxOf m)

/-- Generic gather for any element type with a default. -/
def gatherD {β} (l : List β) (idx : List Nat) (d : β) : List β := idx.map (fun k => l.getD k d)

/-- `np.setdiff1d(arange(n), dims)`: the modes not listed, increasing. -/
def complDims (n : Nat) (dims : List Nat) : List Nat := (List.range n).filter (fun k => !dims.contains k)

/-- Subscript left after dropping the coordinates of the singleton modes of shape `s`. -/
def dropSingletons (s i : List Nat) : List Nat := ((s.zip i).filter (fun p => p.1 > 1)).map (·.2)

end Pyttb
