/-
Row-set helpers of `pyttb_utils.py`: `tt_ismember_rows`, `tt_intersect_rows`,
`tt_setdiff_rows`, `tt_union_rows`, built like the code from
`np.unique(axis=0, return_index=True)`, `np.argsort`, `np.setdiff1d`.
Rows are integer lists.  Import-free.
-/
import PyttbModel.Core.Idx
namespace Pyttb

abbrev Row := List Int

/-- Index of the last position `k` with `src[k] = r` (the code's
`results[row_idx] = col_idx` lets the last match win). -/
def lastIdxOf (src : List Row) (r : Row) : Option Nat :=
  let n := src.length
  match (src.reverse).findIdx? (· == r) with
  | some k => some (n - 1 - k)
  | none => none

/-- `tt_ismember_rows(search, source)`: per search row, matched flag and location
(`-1` when absent). -/
def ismemberRows (search source : List Row) : List (Bool × Int) :=
  search.map fun r =>
    match lastIdxOf source r with
    | some k => (true, (k : Int))
    | none => (false, -1)

/-- First-occurrence indices of the distinct rows, increasing: `np.sort(idx)` where
`_, idx = np.unique(A, axis=0, return_index=True)`. -/
def firstOccIdx (A : List Row) : List Nat :=
  (List.range A.length).filter fun k => !((A.take k).contains (A.getD k []))

/-- Distinct rows in order of first occurrence: `AUnique[np.argsort(idxA)]`, which is
`A[np.sort(idxA)]`. -/
def dedupRows (A : List Row) : List Row := (firstOccIdx A).map fun k => A.getD k []

/-- The `location[valid]` vector the three helpers share: for each distinct row of `B`
(first-occurrence order) that occurs in `A`, its position in `dedupRows A`. -/
def locValid (A B : List Row) : List Nat :=
  (dedupRows B).filterMap fun r => lastIdxOf (dedupRows A) r

/-- `tt_intersect_rows(A, B)` **as coded at the pinned commit**: positions are in the
de-duplicated copy of `A`, not in `A`. -/
def intersectRowsPinned (A B : List Row) : List Nat := locValid A B

/-- `tt_intersect_rows(A, B)` after the `fix:` commit: positions are mapped back to
first-occurrence indices of `A`. -/
def intersectRows (A B : List Row) : List Nat :=
  (locValid A B).map fun k => (firstOccIdx A).getD k 0

/-- Sorted set difference of naturals (`np.setdiff1d` on index vectors). -/
def setdiff1d (xs ys : List Nat) : List Nat :=
  (xs.filter (fun x => !ys.contains x)).eraseDups.mergeSort (· ≤ ·)

def setdiffRowsPinned (A B : List Row) : List Nat :=
  setdiff1d (firstOccIdx A) (locValid A B)

/-- `tt_setdiff_rows(A, B)`: first-occurrence indices of rows of `A` not in `B`, increasing. -/
def setdiffRows (A B : List Row) : List Nat :=
  setdiff1d (firstOccIdx A) (intersectRows A B)

/-- `tt_union_rows(A, B)`: rows of `B` (distinct, first-occurrence order) that are not
in `A`, followed by the distinct rows of `A` in first-occurrence order. -/
def unionRows (A B : List Row) : List Row :=
  ((dedupRows B).filter fun r => !(dedupRows A).contains r) ++ dedupRows A

end Pyttb
