/-
Index keys and right-hand sides of `__getitem__` / `__setitem__` (C04), the Python
slice primitive `range(n)[a:b:c]` and the F-order outer product of index lists.
Shared by the mutable-array specification and by the dense / sparse models.  Import-free.
-/
import PyttbModel.Core.Arr
namespace Pyttb

/-- One element of a rectangular-region key. -/
inductive RPart where
  | int (i : Int)
  | slice (a b c : Option Int)
  | list (is : List Nat)
  deriving Repr, DecidableEq, BEq

/-- The key forms of `X[key]`. -/
inductive Key where
  /-- a Python integer: linear index -/
  | lin (i : Int)
  /-- a slice: linear slice -/
  | linSlice (a b c : Option Int)
  /-- a 1-d integer array: linear indices -/
  | linList (is : List Int)
  /-- a 2-d integer array: one full subscript per row -/
  | subs (rows : List (List Nat))
  /-- a tuple: rectangular region -/
  | region (parts : List RPart)
  deriving Repr, DecidableEq, BEq

/-- Right-hand side of an assignment.  `col` is "one value per addressed position"
(a 1-d array for the dense class, a p×1 column for the sparse class); `arr` is a NumPy
array, `tensor` a tensor object of the receiver's class holding these values. -/
inductive Rhs (α : Type) where
  | scalar (v : α)
  | col (vs : List α)
  | arr (T : Dense α)
  | tensor (T : Dense α)
  deriving Repr, BEq

/-- An empty array given as right-hand side. -/
def Rhs.isEmptyValue {α : Type} : Rhs α → Bool
  | .col vs => vs.isEmpty
  | .arr T => T.data.isEmpty
  | _ => false

/-- What a read returns: a Python scalar, a vector of values, or a tensor object. -/
inductive ReadOut (α : Type) where
  | scalar (v : α)
  | vec (vs : List α)
  | tensor (T : Dense α)
  deriving Repr, BEq, DecidableEq

/-- One operation of a history. -/
inductive IdxOp (α : Type) where
  | write (key : Key) (rhs : Rhs α)
  | read (key : Key)

/-- Result of one step: rejected (state unchanged), written, or read. -/
inductive StepOut (α : Type) where
  | rejected
  | written
  | value (r : ReadOut α)
  deriving BEq, Repr, DecidableEq

/-- `range(len)[a:b:c]` as a list (Python slice semantics: negative bounds count from
the end, bounds are clipped, a zero step is an error). -/
def pySlice (len : Nat) (a b c : Option Int) : Except Reject (List Nat) :=
  let step : Int := c.getD 1
  let n : Int := len
  if step = 0 then .error .reject
  else if step > 0 then
    let clamp (x : Int) : Int := if x < 0 then (if x + n < 0 then 0 else x + n) else (if x > n then n else x)
    let start : Int := match a with | none => 0 | some x => clamp x
    let stop : Int := match b with | none => n | some x => clamp x
    .ok ((List.range len).filter fun (i : Nat) =>
      decide (start ≤ (i : Int)) && decide ((i : Int) < stop) && (((i : Int) - start) % step == 0))
  else
    let clamp (x : Int) : Int := if x < 0 then (if x + n < 0 then -1 else x + n) else (if x ≥ n then n - 1 else x)
    let start : Int := match a with | none => n - 1 | some x => clamp x
    let stop : Int := match b with | none => -1 | some x => clamp x
    .ok ((List.range len).filter fun (i : Nat) =>
      decide ((i : Int) ≤ start) && decide (stop < (i : Int)) && ((start - (i : Int)) % (-step) == 0)).reverse

/-- Outer product of per-mode index lists, first mode fastest (F order). -/
def outerF : List (List Nat) → List (List Nat)
  | [] => [[]]
  | l :: ls => (outerF ls).flatMap fun t => l.map fun i => i :: t

/-- Outer product of per-mode index lists, last mode fastest (C order). -/
def outerC : List (List Nat) → List (List Nat)
  | [] => [[]]
  | l :: ls => l.flatMap fun i => (outerC ls).map fun t => i :: t

/-- Largest entry of a list of naturals (0 for the empty list). -/
def maxNat (l : List Nat) : Nat := l.foldl max 0

end Pyttb
