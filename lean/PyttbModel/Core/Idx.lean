/-
Core index arithmetic: the model of `tt_sub2ind` / `tt_ind2sub`
(`np.ravel_multi_index(order="F")`, `np.unravel_index(order="F")`).
Import-free (core Lean only) so that the driver links as an executable.
-/
namespace Pyttb

/-- Why the model refuses a request (any Python exception maps to `reject`). -/
inductive Reject where
  | reject
  deriving Repr, DecidableEq, BEq

/-- F-order linear index of subscript `i` in shape `s` (first subscript fastest). -/
def sub2ind : List Nat → List Nat → Nat
  | [], _ => 0
  | _ :: _, [] => 0
  | s :: ss, i :: is => i + s * sub2ind ss is

/-- F-order subscript of linear index `n` in shape `s`. -/
def ind2sub : List Nat → Nat → List Nat
  | [], _ => []
  | s :: ss, n => (n % s) :: ind2sub ss (n / s)

/-- `i` is a full subscript inside shape `s`. -/
def InBounds : List Nat → List Nat → Prop
  | [], [] => True
  | s :: ss, i :: is => i < s ∧ InBounds ss is
  | _, _ => False

def inBounds : List Nat → List Nat → Bool
  | [], [] => true
  | s :: ss, i :: is => decide (i < s) && inBounds ss is
  | _, _ => false

/-- Number of cells. -/
def numel (s : List Nat) : Nat := s.foldr (· * ·) 1

/-- All subscripts of a shape in F order (first subscript fastest):
`tt_ind2sub(shape, arange(numel))`. -/
def allSubs (s : List Nat) : List (List Nat) := (List.range (numel s)).map (ind2sub s)

/-- `tt_sub2ind(shape, subs)`: numpy rejects a row that is out of bounds or of the
wrong length. -/
def ttSub2ind (shape : List Nat) (subs : List (List Nat)) : Except Reject (List Nat) :=
  if subs.all (inBounds shape) then .ok (subs.map (sub2ind shape)) else .error .reject

/-- `tt_ind2sub(shape, idx)`: negative indices wrap once by the number of cells,
anything still outside `0..numel-1` is rejected by `np.unravel_index`. -/
def ttInd2sub (shape : List Nat) (idx : List Int) : Except Reject (List (List Nat)) :=
  let n : Int := numel shape
  let wrapped := idx.map (fun k => if k < 0 then k + n else k)
  if wrapped.all (fun k => decide (0 ≤ k) && decide (k < n)) then
    .ok (wrapped.map (fun k => ind2sub shape k.toNat))
  else .error .reject

/-- Stride of mode `k`: product of the extents before it. -/
def stride (s : List Nat) (k : Nat) : Nat := numel (s.take k)

end Pyttb
