/-
C07 — permuting and reshaping as the property states them: index maps on the array an object
denotes.  Nothing here mentions a representation.  Core Lean only.
-/
import PyttbModel.Spec.Multilinear
namespace Pyttb

variable {α : Type}

/-- Two denotations are the same array: same shape, same entry at every subscript of the shape. -/
structure Den.Same (X Y : Den α) : Prop where
  shape : X.shape = Y.shape
  get : ∀ i, InBounds X.shape i → X.get i = Y.get i

namespace Spec

/-- Permuting the modes: mode `k` of the result is mode `p[k]` of the operand, and the entry at `j`
is the operand's entry at the subscript `i` with `i[p[k]] = j[k]` (`i = gather j (invPerm p)`). -/
def permute (X : Den α) (p : List Nat) : Den α :=
  ⟨gather X.shape p, fun j => X.get (gather j (invPerm p))⟩

/-- Reshaping, first index fastest: the entry at `j` is the operand's entry with the same
first-index-fastest linear index. -/
def reshape (X : Den α) (s' : List Nat) : Den α :=
  ⟨s', fun j => X.get (ind2sub X.shape (sub2ind s' j))⟩

end Spec
end Pyttb
