/-
C15 — specification of symmetrisation and of the symmetry test.  Import-free (executable, so the
driver can evaluate the specification next to the model).

A mode order `p` (a permutation of `0..n-1`) *permutes the modes inside the groups* when every
mode is sent to itself or to a mode of a group that contains it too.  `symSpec T grps` is the
average of the permuted tensors over all such orders; `IsSym T grps` says that every such order
leaves the tensor unchanged.
-/
import PyttbModel.Ops.Symmetrize
namespace Pyttb
namespace Sym

variable {α : Type}

/-- `p` moves every position only inside a group: `p[k] = k`, or `k` and `p[k]` lie in a common group. -/
def Within (grps : List (List Nat)) (p : List Nat) : Prop :=
  ∀ k, k < p.length → p.getD k 0 = k ∨ ∃ g ∈ grps, k ∈ g ∧ p.getD k 0 ∈ g

def within (grps : List (List Nat)) (p : List Nat) : Bool :=
  (List.range p.length).all fun k =>
    p.getD k 0 == k || grps.any fun g => g.contains k && g.contains (p.getD k 0)

/-- the mode orders over which symmetrisation averages. -/
def GroupPerm (grps : List (List Nat)) (n : Nat) (p : List Nat) : Prop :=
  isPermOf p n = true ∧ Within grps p

/-- all of them: every permutation of `0..n-1`, filtered. -/
def groupPerms (n : Nat) (grps : List (List Nat)) : List (List Nat) :=
  (permsLex (List.range n)).filter (within grps)

/-- entry `j` of `T.permute(p)` (C07): the entry of `T` at the subscript `i` with `i[p[k]] = j[k]`. -/
def permutedAt [Zero α] (T : Dense α) (p j : List Nat) : α := T.get (gather j (invPerm p))

/-- the average of the permuted tensors over all mode orders that permute inside the groups. -/
def symSpec [Add α] [Zero α] [Div α] [NatCast α] (T : Dense α) (grps : List (List Nat)) : Dense α :=
  let P := groupPerms T.shape.length grps
  Dense.ofFn T.shape fun j => (P.map fun p => permutedAt T p j).sum / (P.length : α)

/-- the modes of every group have one common extent. -/
def SizesOK (s : List Nat) (grps : List (List Nat)) : Prop :=
  ∀ g ∈ grps, ∀ a ∈ g, ∀ b ∈ g, s.getD a 0 = s.getD b 0

/-- groups are duplicate-free lists of modes `< n`, pairwise disjoint. -/
def ValidGroups (n : Nat) (grps : List (List Nat)) : Prop :=
  (∀ g ∈ grps, g.Nodup ∧ ∀ m ∈ g, m < n) ∧ grps.Pairwise (fun g h => ∀ m, m ∈ g → ¬ m ∈ h)

/-- `T` is invariant under every permutation of the modes inside the groups: the permuted
tensor has the same shape and the same entries. -/
def IsSym [Zero α] (T : Dense α) (grps : List (List Nat)) : Prop :=
  ∀ p, GroupPerm grps T.shape.length p →
    gather T.shape p = T.shape ∧ ∀ j, InBounds T.shape j → permutedAt T p j = T.get j

/-- executable form of `IsSym` (used on the specification side of the driver). -/
def isSymB [Zero α] [BEq α] (T : Dense α) (grps : List (List Nat)) : Bool :=
  (groupPerms T.shape.length grps).all fun p =>
    gather T.shape p == T.shape && (allSubs T.shape).all fun j => permutedAt T p j == T.get j

/-- a Kruskal tensor (or any array given by `at`) is symmetric in all `n` modes. -/
def SymAllModes (n : Nat) (f : List Nat → α) : Prop :=
  ∀ p, isPermOf p n = true → ∀ j : List Nat, j.length = n → f (gather j p) = f j

end Sym
end Pyttb
