/-
C04 specification: an F-ordered mutable array.  The state is a shape and a cell function
(read as zero outside the shape).  `write key rhs` first grows the shape so that it covers
the key (larger extents, new modes; new cells are zero), then assigns the addressed cells
one after the other (the last assignment to a cell wins).  `read key` returns the addressed
cells.  Nothing here looks at how pyttb stores or updates a tensor.  Import-free.
-/
import PyttbModel.Core.Key
namespace Pyttb

/-- The abstract array: shape and cell function. -/
structure MArr (α : Type) where
  shape : List Nat
  cell : List Nat → α

namespace MArr
variable {α : Type}

/-- Value of a cell; zero outside the shape. -/
def get [Zero α] (m : MArr α) (i : List Nat) : α := if inBounds m.shape i then m.cell i else 0

/-- Number of cells (the empty tensor of order 0 has none). -/
def cells (s : List Nat) : Nat := if s.isEmpty then 0 else numel s

/-- Assign one cell. -/
def assign (m : MArr α) (sub : List Nat) (v : α) : MArr α :=
  ⟨m.shape, fun i => if i = sub then v else m.cell i⟩

/-- Assign cells one after the other. -/
def assignAll (m : MArr α) (l : List (List Nat × α)) : MArr α :=
  l.foldl (fun m p => m.assign p.1 p.2) m

/-- Grow to shape `s'` (extents at least the old ones, possibly more modes): an old cell
`i` becomes the cell `i ++ [0, …, 0]`, every other cell is zero. -/
def grow [Zero α] (m : MArr α) (s' : List Nat) : MArr α :=
  let n := m.shape.length
  ⟨s', fun j => if (j.drop n).all (· == 0) then m.get (j.take n) else 0⟩

/-- Tabulation in F order (what the driver prints). -/
def toDense [Zero α] (m : MArr α) : Dense α :=
  if m.shape.isEmpty then ⟨[], []⟩ else Dense.ofFn m.shape m.get

def ofDense [Zero α] (T : Dense α) : MArr α := ⟨T.shape, T.get⟩

/-! ### which cells a key addresses -/

/-- Linear positions (first index fastest) addressed by a linear key; a linear key never
resizes: every index must lie in `-cells .. cells-1`. -/
def linTarget (s : List Nat) (i : Int) : Except Reject (List Nat) :=
  let n : Int := cells s
  let j := if i < 0 then i + n else i
  if 0 ≤ j ∧ j < n then .ok (ind2sub s j.toNat) else .error .reject

def linTargets (s : List Nat) (idx : List Int) : Except Reject (List (List Nat)) :=
  idx.mapM (linTarget s)

def linIdx (s : List Nat) : Key → Except Reject (List Int)
  | .lin i => .ok [i]
  | .linSlice a b c => do
    let l ← pySlice (cells s) a b c
    .ok (l.map Int.ofNat)
  | .linList is => .ok is
  | _ => .error .reject

/-- Extent of a mode addressed by a slice with stop `b`: a write with an explicit
non-negative stop needs that extent; an open slice covers what is there (a new mode starts
with extent 1); a negative stop cannot define a new mode. -/
def sliceExtent (ext : Nat) (isNew grow : Bool) (b : Option Int) : Except Reject Nat :=
  if grow then
    match b with
    | none => .ok (if isNew then 1 else ext)
    | some b => if 0 ≤ b then .ok (max ext b.toNat) else if isNew then .error .reject else .ok ext
  else .ok ext

/-- One mode of a region.  `ext` is the current extent (0 for a new mode), `grow` says
whether the access may enlarge the array (writes) or not (reads).
Result: extent afterwards, addressed indices, and whether the mode is kept in the result
(slices and lists) or dropped (integers). -/
def regionPart (ext : Nat) (isNew grow : Bool) : RPart → Except Reject (Nat × List Nat × Bool)
  | .int i =>
    if 0 ≤ i then
      if i.toNat < ext ∨ grow then .ok (max ext (i.toNat + 1), [i.toNat], false) else .error .reject
    else if 0 ≤ i + ext then .ok (ext, [(i + ext).toNat], false)
    else .error .reject
  | .list is =>
    if is.isEmpty then .error .reject
    else if maxNat is < ext ∨ grow then .ok (max ext (maxNat is + 1), is, true)
    else .error .reject
  | .slice a b c => do
    let e ← sliceExtent ext isNew grow b
    let idx ← pySlice e a b c
    .ok (e, idx, true)

/-- All modes of a region key against shape `s` (modes beyond the order are new). -/
def regionParts (grow : Bool) : List Nat → List RPart → Except Reject (List (Nat × List Nat × Bool))
  | [], [] => .ok []
  | _ :: _, [] => .error .reject
  | [], p :: ps => do
    if !grow then .error .reject
    let r ← regionPart 0 true grow p
    let rs ← regionParts grow [] ps
    .ok (r :: rs)
  | e :: es, p :: ps => do
    let r ← regionPart e false grow p
    let rs ← regionParts grow es ps
    .ok (r :: rs)

/-- Shape of a region result: the lengths of the kept modes. -/
def keptShape (rs : List (Nat × List Nat × Bool)) : List Nat :=
  (rs.filter (·.2.2)).map (·.2.1.length)

/-! ### write -/

/-- One value per addressed position (position-list keys). -/
def listValues (rhs : Rhs α) (p : Nat) : Except Reject (List α) :=
  match rhs with
  | .scalar v => .ok (List.replicate p v)
  | .col [v] => .ok (List.replicate p v)
  | .col vs => if vs.length = p then .ok vs else .error .reject
  | _ => .error .reject

/-- One value per cell of a region, in F order of the region. -/
def regionValues (rhs : Rhs α) (kshape : List Nat) (ncell : Nat) : Except Reject (List α) :=
  match rhs with
  | .scalar v => .ok (List.replicate ncell v)
  | .arr T | .tensor T =>
    if T.shape = kshape ∧ T.data.length = ncell then .ok T.data else .error .reject
  | .col _ => .error .reject

/-- New shape and the assignments (cell, value) of a write, in order. -/
def resolveWrite (s : List Nat) (key : Key) (rhs : Rhs α) :
    Except Reject (List Nat × List (List Nat × α)) :=
  match key with
  | .subs rows =>
    match rows with
    | [] => .error .reject
    | r0 :: _ =>
      let w := r0.length
      if w = 0 ∨ w < s.length ∨ rows.any (fun r => r.length != w) then .error .reject
      else do
        let vals ← listValues rhs rows.length
        let s' := (List.range w).map fun m => max (s.getD m 0) (maxNat (rows.map fun r => r.getD m 0) + 1)
        .ok (s', rows.zip vals)
  | .region parts =>
    if parts.isEmpty then .error .reject
    else do
      let rs ← regionParts true s parts
      let targets := outerF (rs.map (·.2.1))
      let vals ← regionValues rhs (keptShape rs) targets.length
      .ok (rs.map (·.1), targets.zip vals)
  | k => do
    let idx ← linIdx s k
    let targets ← linTargets s idx
    let vals ← listValues rhs targets.length
    .ok (s, targets.zip vals)

/-- `X[key] = rhs`. -/
def write [Zero α] (m : MArr α) (key : Key) (rhs : Rhs α) : Except Reject (MArr α) := do
  let (s', asg) ← resolveWrite m.shape key rhs
  .ok ((m.grow s').assignAll asg)

/-! ### read -/

def vecOut (vals : List α) : ReadOut α :=
  match vals with
  | [v] => .scalar v
  | vs => .vec vs

/-- `X[key]`. -/
def read [Zero α] (m : MArr α) (key : Key) : Except Reject (ReadOut α) :=
  match key with
  | .subs rows =>
    if rows.isEmpty ∨ rows.any (fun r => !inBounds m.shape r) then .error .reject
    else .ok (vecOut (rows.map m.get))
  | .region parts =>
    if parts.isEmpty then .error .reject
    else do
      let rs ← regionParts false m.shape parts
      let vals := (outerF (rs.map (·.2.1))).map m.get
      match keptShape rs with
      | [] => .ok (.scalar (vals.headD 0))
      | ks => .ok (.tensor ⟨ks, vals⟩)
  | k => do
    let idx ← linIdx m.shape k
    let targets ← linTargets m.shape idx
    .ok (vecOut (targets.map m.get))

end MArr

namespace MArr
variable {α : Type}

/-- One step of a history: a rejected operation leaves the state as it was. -/
def step [Zero α] (m : MArr α) : IdxOp α → MArr α × StepOut α
  | .write k r => match m.write k r with
    | .ok m' => (m', .written)
    | .error _ => (m, .rejected)
  | .read k => match m.read k with
    | .ok v => (m, .value v)
    | .error _ => (m, .rejected)

/-- Run a history; returns the final state and the outputs of every step. -/
def run [Zero α] (m : MArr α) : List (IdxOp α) → MArr α × List (StepOut α)
  | [] => (m, [])
  | op :: ops =>
    let r := m.step op
    let rs := r.1.run ops
    (rs.1, r.2 :: rs.2)

end MArr
end Pyttb
