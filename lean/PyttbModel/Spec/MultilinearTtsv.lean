/-
C02 — `ttsv` as the property states it: the tensor times the SAME vector in every mode after the
first `dnew` ones, `Y[i] = Σ_j X[i ++ j] · ∏_l x[j_l]` (`i` the `dnew` leading coordinates, `j` running
over the multiplied ones).  Nothing here mentions a representation or an algorithm.  Core Lean only.
-/
import PyttbModel.Spec.Multilinear
namespace Pyttb
namespace Spec

variable {α : Type}

/-- `ttsv` with the first `dnew` modes kept: at the kept coordinates `i`,
`Σ_{j over the other extents} X[i ++ j] · ∏_l x[j_l]`.  `dnew = 0` gives the scalar at `i = []`. -/
def ttsv [Add α] [Mul α] [One α] [Zero α] (X : Den α) (x : List α) (dnew : Nat) (i : List Nat) : α :=
  sumOver (allSubs (X.shape.drop dnew)) fun j => X.get (i ++ j) * (j.map fun c => x.getD c 0).prod

/-- Shape of `ttsv`: the extents of the kept modes. -/
def ttsvShape (s : List Nat) (dnew : Nat) : List Nat := s.take dnew

end Spec
end Pyttb
