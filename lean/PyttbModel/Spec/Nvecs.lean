/-
Specification side of C14 in the property's own words: the Gram matrix of the mode-n
unfolding as a sum over the other modes, and what "orthonormal eigenvectors" means for
matrices stored as lists of rows.  Import-free (the driver evaluates these at `Rat`).
-/
import PyttbModel.Core.Arr
import PyttbModel.Core.Denote
import PyttbModel.Alg.Nvecs
namespace Pyttb

variable {α : Type}

/-- subscript `j` of the other modes with `a` inserted as the coordinate of mode `n`. -/
def insAt (j : List Nat) (n a : Nat) : List Nat := j.take n ++ a :: j.drop n

/-- `(X₍ₙ₎ X₍ₙ₎ᵀ)[a, b] = Σ_{j over the other modes} X[j with a at n] · X[j with b at n]`
for any array given by its entry function. -/
def gramSpec [Add α] [Mul α] [Zero α] (get : List Nat → α) (shape : List Nat) (n a b : Nat) : α :=
  ((allSubs (shape.eraseIdx n)).map fun j => get (insAt j n a) * get (insAt j n b)).sum

/-- the whole matrix, for execution. -/
def gramSpecMat [Add α] [Mul α] [Zero α] (get : List Nat → α) (shape : List Nat) (n : Nat) : Mat α :=
  let I := shape.getD n 0
  (List.range I).map fun a => (List.range I).map fun b => gramSpec get shape n a b

/-- inner product of columns `j` and `k` of a matrix with `m` rows. -/
def colDot [Add α] [Mul α] [Zero α] (V : Mat α) (m j k : Nat) : α :=
  ((List.range m).map fun i => V.get i j * V.get i k).sum

/-- the first `K` columns of the `m`-row matrix `V` are orthonormal. -/
def OrthonormalCols [Add α] [Mul α] [Zero α] [One α] (V : Mat α) (m K : Nat) : Prop :=
  ∀ j k, j < K → k < K → colDot V m j k = if j = k then 1 else 0

/-- `(G v)[i]` for `v` = column `k` of `V`. -/
def mulCol [Add α] [Mul α] [Zero α] (G V : Mat α) (m k i : Nat) : α :=
  ((List.range m).map fun l => G.get i l * V.get l k).sum

/-- column `k` of `V` is an eigenvector of the `m × m` matrix `G` for the eigenvalue `lam`
(entry-wise `G v = lam v`). -/
def IsEigCol [Add α] [Mul α] [Zero α] (G V : Mat α) (m k : Nat) (lam : α) : Prop :=
  ∀ i, i < m → mulCol G V m k i = lam * V.get i k

/-- The contract of the eigen-solver service: it hands back `K` eigenvalues `w` and an
`m × K` matrix `V` whose columns are orthonormal eigenvectors of `G`, column `k` belonging
to `w[k]` — in ANY order. -/
structure EigContract [Add α] [Mul α] [Zero α] [One α] (G : Mat α) (m K : Nat) (w : List α) (V : Mat α) :
    Prop where
  wlen : w.length = K
  rows : V.length = m
  cols : ∀ row ∈ V, row.length = K
  eig : ∀ k, k < K → IsEigCol G V m k (w.getD k 0)
  ortho : OrthonormalCols V m K

/-- What is assumed of the eigen-solver service for the matrix `y` (`m × m`) and the count `r`: on the
path the code takes it returns orthonormal eigenpairs of `y` — `r` of them from the iterative solver,
all `m` from the dense one — in any order.  (`sparseRep`: the dense path of `sptensor` calls `eig`.) -/
def ServiceOK [Add α] [Mul α] [Zero α] [One α] (svc : EigService α) (sparseRep : Bool) (y : Mat α) (m r : Nat) :
    Prop :=
  match nvecsPath m r with
  | .iter => EigContract y m r (svc.eigsh y r).1 (svc.eigsh y r).2
  | .dense =>
    if sparseRep then EigContract y m m (svc.eig y).1 (svc.eig y).2
    else EigContract y m m (svc.eigh y).1 (svc.eigh y).2

/-- A Tucker tensor as `ttensor` validates it: one factor per core mode, with as many columns as
the core has entries in that mode. -/
structure Ttensor.WFn (T : Ttensor α) : Prop where
  len : T.factors.length = T.core.shape.length
  rows : ∀ k, k < T.factors.length → ∀ row ∈ T.factors.getD k [], row.length = T.core.shape.getD k 0

/-! Boolean versions for exact evaluation by the driver. -/

def orthonormalColsB [Add α] [Mul α] [Zero α] [One α] [BEq α] (V : Mat α) (m K : Nat) : Bool :=
  (List.range K).all fun j => (List.range K).all fun k =>
    colDot V m j k == (if j = k then 1 else 0)

def isEigColB [Add α] [Mul α] [Zero α] [BEq α] (G V : Mat α) (m k : Nat) (lam : α) : Bool :=
  (List.range m).all fun i => mulCol G V m k i == lam * V.get i k

end Pyttb
