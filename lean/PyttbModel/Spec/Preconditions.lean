/-
C19 — what makes a request well formed.

For every public operation a DECIDABLE precondition `Pre_<op>` over the dimensional
description of its arguments (shapes, vector lengths, matrix sizes, modes, counts), written
from the property's list: equal shapes; vector length / matrix size / factor-list length /
column count match; modes in range, non-negative, not repeated; the argument is a
permutation; the element count is preserved; constructor components are consistent;
algorithm options are admissible.  Nothing here looks at the code; the code's validation
prefix is modelled in `Ops/Validate.lean` and `Props/C19.lean` proves that the two coincide.
Import-free (core Lean only).
-/
import PyttbModel.Core.Idx
import PyttbModel.Core.Perm
import PyttbModel.Core.Dims
import PyttbModel.Ops.Dense
namespace Pyttb

/-! ### vocabulary -/

/-- shape of a 2-d array: (rows, columns) -/
abbrev MatS := Nat × Nat

/-- the five tensor holders -/
inductive Rep where
  | dense | sparse | ktensor | ttensor | sumtensor
  deriving DecidableEq, Repr

/-- `p` holds of the value if there is one -/
def optAll {β : Type} (o : Option β) (p : β → Prop) : Prop :=
  match o with
  | none => True
  | some b => p b

instance {β : Type} (o : Option β) (p : β → Prop) [DecidablePred p] : Decidable (optAll o p) := by
  unfold optAll; cases o <;> infer_instance

/-- `m` is a mode of an order-`N` tensor -/
def IsMode (N : Nat) (m : Int) : Prop := 0 ≤ m ∧ m < (N : Int)

instance (N : Nat) (m : Int) : Decidable (IsMode N m) := by unfold IsMode; infer_instance

/-- a list of modes: every entry in range (hence non-negative), none repeated -/
def ModesOK (N : Nat) (ms : List Int) : Prop := (∀ m ∈ ms, IsMode N m) ∧ ms.Nodup

instance (N : Nat) (ms : List Int) : Decidable (ModesOK N ms) := by unfold ModesOK; infer_instance

/-- `p` lists every mode `0 .. N-1` exactly once -/
def IsPermI (p : List Int) (N : Nat) : Prop := p.length = N ∧ ∀ m, m < N → (m : Int) ∈ p

instance (p : List Int) (N : Nat) : Decidable (IsPermI p N) := by
  unfold IsPermI; exact inferInstanceAs (Decidable (_ ∧ ∀ m, m < N → _))

/-- the modes a `dims` / `exclude_dims` pair selects, in the order the caller listed them
(`exclude_dims`: the remaining modes, increasing; neither: all modes) -/
def selModes (N : Nat) (dims excl : Option (List Int)) : List Int :=
  match dims, excl with
  | some d, _ => d
  | none, some e => ((List.range N).filter (fun k => !e.contains (Int.ofNat k))).map Int.ofNat
  | none, none => (List.range N).map Int.ofNat

/-- which multiplicand goes with which mode: with one multiplicand per selected mode the
`j`-th multiplicand belongs to the `j`-th listed mode; with one multiplicand per mode of the
tensor the multiplicand for mode `d` is the `d`-th -/
def pairing (M : Nat) (sel : List Int) : List (Nat × Nat) :=
  if M = sel.length then (List.range M).map (fun j => (j, (sel.getD j 0).toNat))
  else sel.map (fun d => (d.toNat, d.toNat))

/-- the listed modes in increasing order (C17: `sdimsOf` is the sorted rearrangement) -/
def sortedModes (ms : List Int) : List Nat := (argsortInt ms).map (fun k => (ms.getD k 0).toNat)

/-- Python indexing of a tuple: negative positions count from the end -/
def pyGet (l : List Nat) (k : Int) : Option Nat :=
  if 0 ≤ k then l[k.toNat]? else if -(l.length : Int) ≤ k then l[(k + l.length).toNat]? else none

/-- NumPy `range(a, b)` -/
def rangeI (a b : Int) : List Int := (List.range (b - a).toNat).map (fun (k : Nat) => a + Int.ofNat k)

/-- NumPy `range(a, b, -1)` -/
def rangeDownI (a b : Int) : List Int := (List.range (a - b).toNat).map (fun (k : Nat) => a - Int.ofNat k)

/-- `np.setdiff1d(arange(n), d)` -/
def complI (n : Nat) (d : List Int) : List Int :=
  ((List.range n).map Int.ofNat).filter (fun k => !d.contains k)

/-- row and column modes of a matricization request after the stated conventions
(`gather_wrap_dims`) -/
def wrapDimsI (n : Nat) (rdims cdims : Option (List Int)) (cyc : Option Cyclic) :
    Option (List Int × List Int) :=
  match rdims, cdims with
  | some r, none =>
    match r, cyc with
    | [r0], some .t => some (complI n [r0], [r0])
    | [r0], some .fc => some ([r0], rangeI (r0 + 1) n ++ rangeI 0 r0)
    | [r0], some .bc => some ([r0], rangeDownI (r0 - 1) (-1) ++ rangeDownI ((n : Int) - 1) r0)
    | _, _ => some (r, complI n r)
  | none, some c => some (complI n c, c)
  | some r, some c => some (r, c)
  | none, none => none

/-! ### `tt_dimscheck` -/

/-- `dims` and `exclude_dims` are not both given; whichever is given lists modes of the
tensor without repetition; a multiplicand count is the order of the tensor or the number
of selected modes -/
def Pre_dimscheck (N : Nat) (M : Option Nat) (dims excl : Option (List Int)) : Prop :=
  ¬ (dims.isSome = true ∧ excl.isSome = true) ∧
  optAll dims (ModesOK N) ∧ optAll excl (ModesOK N) ∧
  optAll M (fun m => m = N ∨ m = (selModes N dims excl).length)

instance (N : Nat) (M : Option Nat) (dims excl : Option (List Int)) : Decidable (Pre_dimscheck N M dims excl) := by
  unfold Pre_dimscheck; infer_instance

/-! ### multilinear products -/

structure TtvArgs where
  shape : List Nat
  /-- lengths of the vectors -/
  vecs : List Nat
  dims : Option (List Int)
  excl : Option (List Int)

/-- the mode selection is well formed for that many vectors and every vector has the length
of the mode it multiplies -/
def Pre_ttv (a : TtvArgs) : Prop :=
  Pre_dimscheck a.shape.length (some a.vecs.length) a.dims a.excl ∧
  ∀ p ∈ pairing a.vecs.length (selModes a.shape.length a.dims a.excl),
    a.vecs.getD p.1 0 = a.shape.getD p.2 0

instance (a : TtvArgs) : Decidable (Pre_ttv a) := by unfold Pre_ttv; infer_instance

structure TtmArgs where
  rep : Rep
  shape : List Nat
  mats : List MatS
  dims : Option (List Int)
  excl : Option (List Int)
  tr : Bool
  /-- the matrix was passed bare, not in a list -/
  single : Bool

/-- the side of the matrix that meets the tensor mode -/
def MatS.inner (m : MatS) (tr : Bool) : Nat := if tr then m.1 else m.2
/-- the side that becomes the new extent -/
def MatS.outer (m : MatS) (tr : Bool) : Nat := if tr then m.2 else m.1

/-- every matrix has the size of the mode it multiplies.  A bare matrix of a dense or sparse
tensor needs exactly one selected mode; for a Tucker tensor a bare matrix is by definition a
list of one. -/
def Pre_ttm (a : TtmArgs) : Prop :=
  let N := a.shape.length
  let sel := selModes N a.dims a.excl
  if a.single = true ∧ a.rep ≠ Rep.ttensor then
    Pre_dimscheck N none a.dims a.excl ∧ sel.length = 1 ∧ a.mats.length = 1 ∧
      (a.mats.getD 0 (0, 0)).inner a.tr = a.shape.getD (sel.getD 0 0).toNat 0
  else
    Pre_dimscheck N (some a.mats.length) a.dims a.excl ∧
      ∀ p ∈ pairing a.mats.length sel, (a.mats.getD p.1 (0, 0)).inner a.tr = a.shape.getD p.2 0

instance (a : TtmArgs) : Decidable (Pre_ttm a) := by unfold Pre_ttm; infer_instance

structure MttkrpArgs where
  rep : Rep
  shape : List Nat
  U : List MatS
  n : Int

/-- the column count every used factor must have: that of the first factor that is used -/
def usedR (U : List MatS) (n : Int) : Nat := if n = 0 then (U.getD 1 (0, 0)).2 else (U.getD 0 (0, 0)).2

/-- at least two modes; one factor per mode; `n` is a mode; every factor but the `n`-th has
one row per index of its mode and the common number of columns -/
def Pre_mttkrp (a : MttkrpArgs) : Prop :=
  let N := a.shape.length
  2 ≤ N ∧ a.U.length = N ∧ IsMode N a.n ∧
  ∀ i, i < N → (i : Int) ≠ a.n → a.U.getD i (0, 0) = (a.shape.getD i 0, usedR a.U a.n)

instance (a : MttkrpArgs) : Decidable (Pre_mttkrp a) := by
  unfold Pre_mttkrp
  exact inferInstanceAs (Decidable (_ ∧ _ ∧ _ ∧ ∀ i, i < a.shape.length → _))

/-- two operands of an inner product or of an element-wise operation have the same shape -/
def Pre_sameShape (sa sb : List Nat) : Prop := sa = sb

instance (sa sb : List Nat) : Decidable (Pre_sameShape sa sb) := by unfold Pre_sameShape; infer_instance

/-- shape of the mode-0 unfolding -/
def unfold0 (s : List Nat) : List Nat := [s.getD 0 1, numel (s.drop 1)]

/-- matricized operands of `+`/`-` have the same matrix shape -/
def Pre_tenmatAdd (sa sb : List Nat) : Prop := unfold0 sa = unfold0 sb

instance (sa sb : List Nat) : Decidable (Pre_tenmatAdd sa sb) := by unfold Pre_tenmatAdd; infer_instance

/-- matricized product: columns of the left operand = rows of the right one -/
def Pre_tenmatMul (a b : MatS) : Prop := a.2 = b.1

instance (a b : MatS) : Decidable (Pre_tenmatMul a b) := by unfold Pre_tenmatMul; infer_instance

structure TttArgs where
  sa : List Nat
  sb : List Nat
  xd : List Int
  yd : List Int

/-- the contracted modes are modes of their tensors, not repeated, equally many, and pair up
with equal extents -/
def Pre_ttt (a : TttArgs) : Prop :=
  ModesOK a.sa.length a.xd ∧ ModesOK a.sb.length a.yd ∧ a.xd.length = a.yd.length ∧
  ∀ k, k < a.xd.length → a.sa.getD (a.xd.getD k 0).toNat 0 = a.sb.getD (a.yd.getD k 0).toNat 0

instance (a : TttArgs) : Decidable (Pre_ttt a) := by
  unfold Pre_ttt
  exact inferInstanceAs (Decidable (_ ∧ _ ∧ _ ∧ ∀ k, k < a.xd.length → _))

/-- two different modes of equal extent -/
def Pre_contract (shape : List Nat) (i j : Int) : Prop :=
  IsMode shape.length i ∧ IsMode shape.length j ∧ i ≠ j ∧
  shape.getD i.toNat 0 = shape.getD j.toNat 0

instance (shape : List Nat) (i j : Int) : Decidable (Pre_contract shape i j) := by
  unfold Pre_contract; infer_instance

/-- the modes to sum over (all when absent) -/
def Pre_collapse (shape : List Nat) (dims : Option (List Int)) : Prop := optAll dims (ModesOK shape.length)

instance (shape : List Nat) (dims : Option (List Int)) : Decidable (Pre_collapse shape dims) := by
  unfold Pre_collapse; infer_instance

inductive FactorKind where
  | array | tensor | sptensor
  deriving DecidableEq, Repr

structure ScaleArgs where
  rep : Rep
  shape : List Nat
  dims : List Int
  fshape : List Nat
  fkind : FactorKind

/-- the scaled modes are modes of the tensor and the factor has exactly their extents (in
increasing mode order); a plain array scales a sparse tensor along one mode only -/
def Pre_scale (a : ScaleArgs) : Prop :=
  ModesOK a.shape.length a.dims ∧
  a.fshape = (sortedModes a.dims).map (fun d => a.shape.getD d 0) ∧
  (a.rep = Rep.sparse ∧ a.fkind = FactorKind.array → a.dims.length = 1)

instance (a : ScaleArgs) : Decidable (Pre_scale a) := by unfold Pre_scale; infer_instance

/-! ### index maps and matricization -/

/-- the order is a permutation of the modes -/
def Pre_permute (shape : List Nat) (order : List Int) : Prop := IsPermI order shape.length

instance (shape : List Nat) (order : List Int) : Decidable (Pre_permute shape order) := by
  unfold Pre_permute; infer_instance

/-- the modes being reshaped are modes of the tensor (all when absent) and the target has
as many cells as they have -/
def Pre_reshape (shape target : List Nat) (old : Option (List Int)) : Prop :=
  optAll old (ModesOK shape.length) ∧
  numel target = numel ((old.getD ((List.range shape.length).map Int.ofNat)).map (fun d => shape.getD d.toNat 0))

instance (shape target : List Nat) (old : Option (List Int)) : Decidable (Pre_reshape shape target old) := by
  unfold Pre_reshape; infer_instance

/-- row or column modes are given and, after the stated convention, row and column modes
together list every mode exactly once -/
def Pre_toMat (N : Nat) (rdims cdims : Option (List Int)) (cyc : Option Cyclic) : Prop :=
  match wrapDimsI N rdims cdims cyc with
  | none => False
  | some (r, c) => IsPermI (r ++ c) N

instance (N : Nat) (rdims cdims : Option (List Int)) (cyc : Option Cyclic) : Decidable (Pre_toMat N rdims cdims cyc) := by
  unfold Pre_toMat; split <;> infer_instance

/-! ### constructors -/

/-- `tensor(data, shape)`: as many values as cells -/
def Pre_tensor (dshape shape : List Nat) : Prop := numel dshape = numel shape

instance (dshape shape : List Nat) : Decidable (Pre_tensor dshape shape) := by unfold Pre_tensor; infer_instance

/-- a subscript row lies inside the shape -/
def RowInShape (shape : List Nat) (row : List Int) : Prop :=
  ∀ k, k < shape.length → 0 ≤ row.getD k 0 ∧ row.getD k 0 < (shape.getD k 0 : Int)

instance (shape : List Nat) (row : List Int) : Decidable (RowInShape shape row) := by
  unfold RowInShape; exact inferInstanceAs (Decidable (∀ k, k < shape.length → _))

structure SubsArgs where
  shape : List Nat
  /-- number of columns of the subscript array -/
  width : Nat
  subs : List (List Int)
  nvals : Nat

/-- `sptensor(subs, vals, shape)` / `from_aggregator` / `extract`: one column per mode, every
row inside the shape, one value per row -/
def Pre_subs (a : SubsArgs) : Prop :=
  (a.subs ≠ [] → a.width = a.shape.length) ∧ (∀ row ∈ a.subs, RowInShape a.shape row) ∧ a.nvals = a.subs.length

instance (a : SubsArgs) : Decidable (Pre_subs a) := by unfold Pre_subs; infer_instance

/-- `sptensor.extract(subs)`: one column per mode, every row inside the shape -/
def Pre_extract (a : SubsArgs) : Prop :=
  a.width = a.shape.length ∧ ∀ row ∈ a.subs, RowInShape a.shape row

instance (a : SubsArgs) : Decidable (Pre_extract a) := by unfold Pre_extract; infer_instance

/-- `ktensor(factors, weights)`: at least one factor, equal column counts, one weight per column -/
def Pre_ktensor (fs : List MatS) (nw : Option Nat) : Prop :=
  fs ≠ [] ∧ (∀ f ∈ fs, f.2 = (fs.getD 0 (0, 0)).2) ∧ optAll nw (fun w => w = (fs.getD 0 (0, 0)).2)

instance (fs : List MatS) (nw : Option Nat) : Decidable (Pre_ktensor fs nw) := by unfold Pre_ktensor; infer_instance

/-- `ttensor(core, factors)`: one factor per core mode with as many columns as that mode -/
def Pre_ttensor (core : List Nat) (fs : List MatS) : Prop :=
  fs.length = core.length ∧ ∀ k, k < core.length → (fs.getD k (0, 0)).2 = core.getD k 0

instance (core : List Nat) (fs : List MatS) : Decidable (Pre_ttensor core fs) := by
  unfold Pre_ttensor; exact inferInstanceAs (Decidable (_ ∧ ∀ k, k < core.length → _))

/-- `sumtensor(parts)`: all parts have the shape of the first -/
def Pre_sumtensor (shapes : List (List Nat)) : Prop := ∀ s ∈ shapes, s = shapes.getD 0 []

instance (shapes : List (List Nat)) : Decidable (Pre_sumtensor shapes) := by unfold Pre_sumtensor; infer_instance

structure TenmatArgs where
  dshape : MatS
  rdims : Option (List Int)
  cdims : Option (List Int)
  tshape : List Nat
  /-- the data is a 1-d array (of `dshape.2` values, `dshape.1 = 1`): the constructor shapes it itself -/
  vec : Bool := false

/-- number of cells of the modes `ms` of a tensor of shape `tshape` -/
def sideSize (tshape : List Nat) (ms : List Int) : Nat := numel (ms.map (fun d => tshape.getD d.toNat 0))

/-- `tenmat(data, rdims, cdims, tshape)`: as many values as cells of the tensor; row and
column modes together list every mode once; a matrix has exactly the shape
(cells of the row modes, cells of the column modes) — a 1-d array is shaped accordingly by the
constructor, so only its size has to fit -/
def Pre_tenmat (a : TenmatArgs) : Prop :=
  a.dshape.1 * a.dshape.2 = numel a.tshape ∧
  match wrapDimsI a.tshape.length a.rdims a.cdims none with
  | none => False
  | some (r, c) =>
    IsPermI (r ++ c) a.tshape.length ∧
      (a.vec = false → a.dshape = (sideSize a.tshape r, sideSize a.tshape c))

instance (a : TenmatArgs) : Decidable (Pre_tenmat a) := by
  unfold Pre_tenmat; split <;> infer_instance

structure SptenmatArgs where
  width : Nat
  subs : List (List Int)
  nvals : Nat
  rdims : Option (List Int)
  cdims : Option (List Int)
  tshape : List Nat


/-- `sptenmat(subs, vals, rdims, cdims, tshape)`: the mode split is a permutation; every stored
(row, column) pair lies inside the matrix; one value per pair -/
def Pre_sptenmat (a : SptenmatArgs) : Prop :=
  match wrapDimsI a.tshape.length a.rdims a.cdims none with
  | none => False
  | some (r, c) =>
    IsPermI (r ++ c) a.tshape.length ∧ (a.subs ≠ [] → a.width = 2) ∧
    (∀ row ∈ a.subs, 0 ≤ row.getD 0 0 ∧ row.getD 0 0 < (sideSize a.tshape r : Int) ∧
                      0 ≤ row.getD 1 0 ∧ row.getD 1 0 < (sideSize a.tshape c : Int)) ∧
    a.nvals = a.subs.length

instance (a : SptenmatArgs) : Decidable (Pre_sptenmat a) := by unfold Pre_sptenmat; split <;> infer_instance

/-- `ktensor.from_vector(data, shape, contains_weights)`: the data splits into whole components -/
def Pre_fromVector (shape : List Nat) (n : Nat) (cw : Bool) : Prop :=
  n % (shape.sum + (if cw then 1 else 0)) = 0 ∧ 0 < shape.sum + (if cw then 1 else 0)

instance (shape : List Nat) (n : Nat) (cw : Bool) : Decidable (Pre_fromVector shape n cw) := by
  unfold Pre_fromVector; infer_instance

/-! ### Kruskal operations that take a mode or a component list -/

/-- a mode argument of a Kruskal tensor with `N` factors -/
def Pre_kmode (N : Nat) (m : Int) : Prop := IsMode N m

instance (N : Nat) (m : Int) : Decidable (Pre_kmode N m) := by unfold Pre_kmode; infer_instance

/-- `arrange(permutation=p)`: a permutation of the `R` components -/
def Pre_karrange (R : Nat) (p : List Int) : Prop := IsPermI p R

instance (R : Nat) (p : List Int) : Decidable (Pre_karrange R p) := by unfold Pre_karrange; infer_instance

/-- `extract(idx)`: between one and `R` component indices, each a component -/
def Pre_kextract (R : Nat) (idx : List Int) : Prop :=
  1 ≤ idx.length ∧ idx.length ≤ R ∧ ∀ c ∈ idx, IsMode R c

instance (R : Nat) (idx : List Int) : Decidable (Pre_kextract R idx) := by unfold Pre_kextract; infer_instance

/-! ### masks, Khatri-Rao -/

/-- a mask has the order of the data and is nowhere larger -/
def Pre_mask (shape wshape : List Nat) : Prop :=
  wshape.length = shape.length ∧ ∀ k, k < shape.length → wshape.getD k 0 ≤ shape.getD k 0

instance (shape wshape : List Nat) : Decidable (Pre_mask shape wshape) := by
  unfold Pre_mask; exact inferInstanceAs (Decidable (_ ∧ ∀ k, k < shape.length → _))

/-- at least one matrix, all with the same number of columns -/
def Pre_khatrirao (ms : List MatS) : Prop := ms ≠ [] ∧ ∀ m ∈ ms, ∀ m' ∈ ms, m.2 = m'.2

instance (ms : List MatS) : Decidable (Pre_khatrirao ms) := by unfold Pre_khatrirao; infer_instance

/-! ### algorithm options -/

/-- ranks of `hosvd` (0: to be chosen) and `tucker_als` lie within the extents -/
def RanksWithin (shape : List Nat) (ranks : List Int) (lo : Int) : Prop :=
  ranks.length = shape.length ∧ ∀ k, k < shape.length → lo ≤ ranks.getD k 0 ∧ ranks.getD k 0 ≤ (shape.getD k 0 : Int)

instance (shape : List Nat) (ranks : List Int) (lo : Int) : Decidable (RanksWithin shape ranks lo) := by
  unfold RanksWithin; exact inferInstanceAs (Decidable (_ ∧ ∀ k, k < shape.length → _))



/-- an initial guess: a Kruskal tensor (shape, number of components, flags for negative
factor entries / weights), a list of matrices, or a name -/
inductive InitSpec where
  | ktensor (shape : List Nat) (R : Nat) (negFactor negWeight : Bool)
  | mats (ms : List MatS)
  | random
  | nvecs
  | other
  deriving Repr

structure CpAlsArgs where
  shape : List Nat
  rank : Int
  dimorder : Option (List Int)
  optdims : Option (List Int)
  init : InitSpec

/-- a Kruskal guess with the tensor's shape and the requested number of components -/
def InitSpec.fitsCp (i : InitSpec) (shape : List Nat) (rank : Int) (allowNvecs : Bool) : Prop :=
  match i with
  | .ktensor s R _ _ => s = shape ∧ (R : Int) = rank
  | .random => True
  | .nvecs => allowNvecs = true
  | _ => False

instance (i : InitSpec) (shape : List Nat) (rank : Int) (b : Bool) : Decidable (i.fitsCp shape rank b) := by
  unfold InitSpec.fitsCp; split <;> infer_instance

/-- positive rank; `dimorder` a permutation of the modes; `optdims` distinct modes, at least
one; the initial guess fits -/
def Pre_cpAls (a : CpAlsArgs) : Prop :=
  0 < a.rank ∧ optAll a.dimorder (fun p => IsPermI p a.shape.length) ∧
  optAll a.optdims (fun d => ModesOK a.shape.length d ∧ d ≠ []) ∧ 0 < a.shape.length ∧
  a.init.fitsCp a.shape a.rank true

instance (a : CpAlsArgs) : Decidable (Pre_cpAls a) := by unfold Pre_cpAls; infer_instance

structure CpAprArgs where
  shape : List Nat
  rank : Int
  dataNonneg : Bool
  algorithm : Option Nat   -- some k: one of the three known names; none: unknown
  init : InitSpec

/-- a Kruskal guess with the tensor's shape, the requested number of components and no
negative entry; or the name `random` -/
def InitSpec.fitsApr (i : InitSpec) (shape : List Nat) (rank : Int) : Prop :=
  match i with
  | .ktensor s R nf nw => s = shape ∧ (R : Int) = rank ∧ nf = false ∧ nw = false
  | .random => True
  | _ => False

instance (i : InitSpec) (shape : List Nat) (rank : Int) : Decidable (i.fitsApr shape rank) := by
  unfold InitSpec.fitsApr; split <;> infer_instance

/-- positive rank, non-negative data, a known algorithm, a fitting non-negative guess -/
def Pre_cpApr (a : CpAprArgs) : Prop :=
  0 < a.rank ∧ a.dataNonneg = true ∧ a.algorithm.isSome = true ∧ a.init.fitsApr a.shape a.rank

instance (a : CpAprArgs) : Decidable (Pre_cpApr a) := by unfold Pre_cpApr; infer_instance

structure TuckerArgs where
  shape : List Nat
  rank : List Int
  maxitersNonneg : Bool
  dimorder : Option (List Int)
  init : InitSpec

/-- rank of mode `n` when a single rank stands for all modes -/
def rankAt (rank : List Int) (n : Nat) : Int := if rank.length = 1 then rank.getD 0 0 else rank.getD n 0

/-- a list guess has one matrix per mode, each (beyond the first mode visited, whose matrix is
recomputed before it is used) of size extent × rank; or one of the names -/
def InitSpec.fitsTucker (i : InitSpec) (shape : List Nat) (rank order : List Int) : Prop :=
  match i with
  | .mats ms => ms.length = shape.length ∧ ∀ d ∈ order.drop 1,
      ((ms.getD d.toNat (0, 0)).1 : Int) = shape.getD d.toNat 0 ∧ ((ms.getD d.toNat (0, 0)).2 : Int) = rankAt rank d.toNat
  | .random => True
  | .nvecs => True
  | _ => False

instance (i : InitSpec) (shape : List Nat) (rank order : List Int) : Decidable (i.fitsTucker shape rank order) := by
  unfold InitSpec.fitsTucker; split <;> infer_instance

/-- the rank vector of `tucker_als` after a single rank has been repeated for every mode -/
def expandRank (N : Nat) (rank : List Int) : List Int :=
  if rank.length = 1 then List.replicate N (rank.getD 0 0) else rank

/-- one rank or one per mode, each between 1 and the extent; `dimorder` a permutation; a fitting guess -/
def Pre_tucker (a : TuckerArgs) : Prop :=
  a.maxitersNonneg = true ∧ RanksWithin a.shape (expandRank a.shape.length a.rank) 1 ∧ 0 < a.shape.length ∧
  optAll a.dimorder (fun p => IsPermI p a.shape.length) ∧
  a.init.fitsTucker a.shape a.rank (a.dimorder.getD ((List.range a.shape.length).map Int.ofNat))

instance (a : TuckerArgs) : Decidable (Pre_tucker a) := by unfold Pre_tucker; infer_instance

/-- `hosvd`: when ranks are given, one per mode, each between 0 (to be chosen) and the extent;
`dimorder` a permutation -/
def Pre_hosvd (shape : List Nat) (ranks : Option (List Int)) (dimorder : Option (List Int)) : Prop :=
  optAll ranks (fun r => RanksWithin shape r 0) ∧ optAll dimorder (fun p => IsPermI p shape.length)

instance (shape : List Nat) (ranks : Option (List Int)) (dimorder : Option (List Int)) :
    Decidable (Pre_hosvd shape ranks dimorder) := by unfold Pre_hosvd; infer_instance

structure GcpArgs where
  shape : List Nat
  rank : Int
  sparse : Bool
  /-- the objective is a known name or a (function, gradient, bound) triple -/
  objectiveOk : Bool
  /-- 0 = L-BFGS-B, 1 = a stochastic solver, anything else: not a solver -/
  solver : Nat
  mask : Option (List Nat)
  init : InitSpec

/-- a Kruskal guess, or one matrix per mode, with the data's shape and the requested number
of components; or the name `random` -/
def InitSpec.fitsGcp (i : InitSpec) (shape : List Nat) (rank : Int) : Prop :=
  match i with
  | .ktensor s R _ _ => s = shape ∧ (R : Int) = rank
  | .mats ms => ms ≠ [] ∧ (∀ m ∈ ms, (m.2 : Int) = rank) ∧ ms.map (·.1) = shape
  | .random => True
  | _ => False

instance (i : InitSpec) (shape : List Nat) (rank : Int) : Decidable (i.fitsGcp shape rank) := by
  unfold InitSpec.fitsGcp; split <;> infer_instance

/-- admissible combinations: sparse data needs a stochastic solver and no mask; a mask needs
L-BFGS-B and the data's shape; the guess fits -/
def Pre_gcp (a : GcpArgs) : Prop :=
  a.objectiveOk = true ∧ (a.solver = 0 ∨ a.solver = 1) ∧
  (a.sparse = true → a.solver = 1 ∧ a.mask = none) ∧
  optAll a.mask (fun m => a.solver = 0 ∧ m = a.shape) ∧
  a.init.fitsGcp a.shape a.rank

instance (a : GcpArgs) : Decidable (Pre_gcp a) := by unfold Pre_gcp; infer_instance

/-! ### importer -/

inductive ImportArgs where
  /-- `tensor`: order in the header, shape line, number of values present -/
  | tensor (hdrN : Nat) (shape : List Nat) (nvals : Nat)
  /-- `sptensor`: header, declared number of entries, the entry lines (1-based subscripts) -/
  | sptensor (hdrN : Nat) (shape : List Nat) (nnz : Nat) (lines : List (List Int))
  /-- `ktensor`: header, rank, weights present, the factor blocks' shapes -/
  | ktensor (hdrN : Nat) (shape : List Nat) (R nw : Nat) (fshapes : List MatS)
  | unknown
  | missing

/-- the header agrees with the shape line and every block has the announced size -/
def Pre_import : ImportArgs → Prop
  | .tensor h s n => h = s.length ∧ numel s ≤ n
  | .sptensor h s nnz lines => h = s.length ∧ nnz ≤ lines.length ∧
      ∀ ln ∈ lines.take nnz, ln.length = s.length ∧ RowInShape s (ln.map (· - 1))
  | .ktensor h s R nw fs => h = s.length ∧ R ≤ nw ∧ fs = s.map (fun e => (e, R)) ∧ s ≠ []
  | .unknown => False
  | .missing => False

instance (a : ImportArgs) : Decidable (Pre_import a) := by
  cases a <;> unfold Pre_import <;> infer_instance

/-! ### the remaining public operations -/

/-- `tensor.mttkrps(U)`: at least two modes, one factor per mode, each of size extent × R -/
def Pre_mttkrps (shape : List Nat) (U : List MatS) : Prop :=
  2 ≤ shape.length ∧ U.length = shape.length ∧
  ∀ i, i < shape.length → U.getD i (0, 0) = (shape.getD i 0, (U.getD 0 (0, 0)).2)

instance (shape : List Nat) (U : List MatS) : Decidable (Pre_mttkrps shape U) := by
  unfold Pre_mttkrps; exact inferInstanceAs (Decidable (_ ∧ _ ∧ ∀ i, i < shape.length → _))

/-- the `version` argument of `ttsv`: absent, 1 (through `ttv`), 2, or anything else -/
inductive TtsvVersion where
  | default | v1 | v2 | other
  deriving DecidableEq, Repr

structure TtsvArgs where
  shape : List Nat
  veclen : Nat
  skip : Option Int
  version : TtsvVersion

/-- the `ttv` request `ttsv` stands for: the same vector for every mode, the first
`skip_dim + 1` modes excluded -/
def TtsvArgs.asTtv (a : TtsvArgs) : TtvArgs :=
  { shape := a.shape, vecs := List.replicate a.shape.length a.veclen, dims := none,
    excl := a.skip.map (fun s => (List.range (s + 1).toNat).map Int.ofNat) }

/-- the direct computation needs all modes of one size and, when a mode is multiplied, a
vector of that size -/
def TtsvArgs.directOK (a : TtsvArgs) : Prop :=
  a.shape ≠ [] ∧ (∀ e ∈ a.shape, e = a.shape.getD 0 0) ∧
  (((a.skip.getD (-1)) + 1 < (a.shape.length : Int)) → a.veclen = a.shape.getD 0 0)

instance (a : TtsvArgs) : Decidable a.directOK := by unfold TtsvArgs.directOK; infer_instance

/-- `skip_dim` is a mode; version 1 is the `ttv` request; otherwise the direct computation -/
def Pre_ttsv (a : TtsvArgs) : Prop :=
  optAll a.skip (IsMode a.shape.length) ∧
  (match a.version with
   | .v1 => Pre_ttv a.asTtv
   | .v2 => a.directOK
   | .default => a.directOK
   | .other => False)

instance (a : TtsvArgs) : Decidable (Pre_ttsv a) := by
  unfold Pre_ttsv
  refine @instDecidableAnd _ _ _ ?_
  split <;> infer_instance

/-- all modes of a group have the extent of its first mode -/
def SameExtents (shape : List Nat) (g : List Int) : Prop :=
  ∀ m ∈ g, shape.getD m.toNat 0 = shape.getD (g.getD 0 0).toNat 0

instance (shape : List Nat) (g : List Int) : Decidable (SameExtents shape g) := by
  unfold SameExtents; infer_instance

/-- two groups share no mode -/
def GroupsDisjoint (g h : List Int) : Prop := ∀ x ∈ g, x ∉ h

instance (g h : List Int) : Decidable (GroupsDisjoint g h) := by unfold GroupsDisjoint; infer_instance

/-- the groups of a symmetry request (all modes in one group when absent) -/
def symGroups (N : Nat) (grps : Option (List (List Int))) : List (List Int) :=
  grps.getD [(List.range N).map Int.ofNat]

/-- `tensor.symmetrize(grps)`: every group lists distinct modes of the tensor, of one extent,
and no mode is in two groups -/
def Pre_symmetrize (shape : List Nat) (grps : Option (List (List Int))) : Prop :=
  (∀ g ∈ symGroups shape.length grps, ModesOK shape.length g) ∧
  (∀ g ∈ symGroups shape.length grps, SameExtents shape g) ∧
  (symGroups shape.length grps).Pairwise GroupsDisjoint

instance (shape : List Nat) (grps : Option (List (List Int))) : Decidable (Pre_symmetrize shape grps) := by
  unfold Pre_symmetrize; infer_instance

/-- `tensor.issymmetric(grps)`: every group lists distinct modes of the tensor (different
extents or overlapping groups are answered, with `False` / a test of both) -/
def Pre_issymmetric (shape : List Nat) (grps : Option (List (List Int))) : Prop :=
  ∀ g ∈ symGroups shape.length grps, ModesOK shape.length g

instance (shape : List Nat) (grps : Option (List (List Int))) : Decidable (Pre_issymmetric shape grps) := by
  unfold Pre_issymmetric; infer_instance

/-- `ktensor.symmetrize()`: all modes of one size -/
def Pre_ksymmetrize (shape : List Nat) : Prop := shape ≠ [] ∧ ∀ e ∈ shape, e = shape.getD 0 0

instance (shape : List Nat) : Decidable (Pre_ksymmetrize shape) := by unfold Pre_ksymmetrize; infer_instance

/-- `ktensor.fixsigns(other)` / `score(other)`: the same shape, and `other` has no more components -/
def Pre_kmatch (sa sb : List Nat) (ra rb : Nat) : Prop := sa = sb ∧ rb ≤ ra

instance (sa sb : List Nat) (ra rb : Nat) : Decidable (Pre_kmatch sa sb ra rb) := by unfold Pre_kmatch; infer_instance

structure UpdateArgs where
  shape : List Nat
  R : Nat
  modes : List Int
  datalen : Nat

/-- entries a mode (or `-1`, the weights) takes from the data vector -/
def UpdateArgs.needed (a : UpdateArgs) : Nat :=
  (a.modes.map fun k => if k = -1 then a.R else a.shape.getD k.toNat 0 * a.R).sum

/-- `ktensor.update(modes, data)`: modes strictly ascending, each `-1` or a mode, enough data -/
def Pre_update (a : UpdateArgs) : Prop :=
  (∀ i, i < a.modes.length - 1 → a.modes.getD i 0 < a.modes.getD (i + 1) 0) ∧
  (∀ k ∈ a.modes, -1 ≤ k ∧ k < (a.shape.length : Int)) ∧ a.needed ≤ a.datalen

instance (a : UpdateArgs) : Decidable (Pre_update a) := by
  unfold Pre_update
  exact inferInstanceAs (Decidable ((∀ i, i < a.modes.length - 1 → _) ∧ _))

/-- a sample of one mode for `ttensor.reconstruct`: row indices (the largest is kept) or a
matrix applied to the factor -/
inductive SampleS where
  | idx (maxIdx : Nat)
  | mat (rows cols : Nat)
  deriving Repr

def SampleS.fits (s : SampleS) (extent : Nat) : Prop :=
  match s with
  | .idx m => m < extent
  | .mat _ c => c = extent

instance (s : SampleS) (e : Nat) : Decidable (s.fits e) := by unfold SampleS.fits; split <;> infer_instance

/-- `ttensor.reconstruct(samples, modes)`: modes only with samples; the modes are distinct
modes of the tensor, one sample each, every sample inside its mode -/
def Pre_reconstruct (shape : List Nat) (samples : Option (List SampleS)) (modes : Option (List Int)) : Prop :=
  match samples with
  | none => modes = none
  | some ss =>
    let ms := modes.getD ((List.range shape.length).map Int.ofNat)
    ModesOK shape.length ms ∧ (ss ≠ [] → ss.length = ms.length) ∧
    ∀ p ∈ ss.zip ms, p.1.fits (shape.getD p.2.toNat 0)

instance (shape : List Nat) (samples : Option (List SampleS)) (modes : Option (List Int)) :
    Decidable (Pre_reconstruct shape samples modes) := by
  unfold Pre_reconstruct
  split <;> infer_instance

/-- `ktensor.from_function(f, shape, R)`: `f` returns an extent × R array for every mode -/
def Pre_kfromFunction (shape : List Nat) (R : Nat) (returned : List MatS) : Prop :=
  returned = shape.map (fun e => (e, R))

instance (shape : List Nat) (R : Nat) (returned : List MatS) : Decidable (Pre_kfromFunction shape R returned) := by
  unfold Pre_kfromFunction; infer_instance

structure SpSetArgs where
  mshape : MatS
  rsubs : List Int
  csubs : List Int
  /-- number of values (none: a scalar for all cells) -/
  nvals : Option Nat

/-- `sptenmat[rows, cols] = values`: indices inside the matrix, one value per cell -/
def Pre_sptenmatSet (a : SpSetArgs) : Prop :=
  (∀ r ∈ a.rsubs, 0 ≤ r ∧ r < (a.mshape.1 : Int)) ∧ (∀ c ∈ a.csubs, 0 ≤ c ∧ c < (a.mshape.2 : Int)) ∧
  optAll a.nvals (fun n => n = a.rsubs.length * a.csubs.length)

instance (a : SpSetArgs) : Decidable (Pre_sptenmatSet a) := by unfold Pre_sptenmatSet; infer_instance

/-- `tenmat[i, j]` (read or write of one cell): NumPy positions, counted from the end when negative -/
def Pre_tenmatIndex (mshape : MatS) (i j : Int) : Prop :=
  -(mshape.1 : Int) ≤ i ∧ i < mshape.1 ∧ -(mshape.2 : Int) ≤ j ∧ j < mshape.2

instance (mshape : MatS) (i j : Int) : Decidable (Pre_tenmatIndex mshape i j) := by unfold Pre_tenmatIndex; infer_instance

/-- `nvecs(n, r)`: `n` a mode, between one and extent-many vectors -/
def Pre_nvecs (shape : List Nat) (n r : Int) : Prop :=
  IsMode shape.length n ∧ 0 < r ∧ r ≤ (shape.getD n.toNat 0 : Int)

instance (shape : List Nat) (n r : Int) : Decidable (Pre_nvecs shape n r) := by unfold Pre_nvecs; infer_instance

/-- `tenfun` with a function of one (stacked) argument: every further tensor has the shape of the first -/
def Pre_tenfunUnary (shape : List Nat) (others : List (List Nat)) : Prop := ∀ s ∈ others, s = shape

instance (shape : List Nat) (others : List (List Nat)) : Decidable (Pre_tenfunUnary shape others) := by
  unfold Pre_tenfunUnary; infer_instance

/-- `ktensor.viz`: option lists have one entry per mode -/
def Pre_viz (N : Nat) (lens : List Nat) : Prop := ∀ l ∈ lens, l = N

instance (N : Nat) (lens : List Nat) : Decidable (Pre_viz N lens) := by unfold Pre_viz; infer_instance

/-- `sptensor.spmatrix()`: two modes -/
def Pre_spmatrix (shape : List Nat) : Prop := shape.length = 2

instance (shape : List Nat) : Decidable (Pre_spmatrix shape) := by unfold Pre_spmatrix; infer_instance

/-- `sptensor.from_function(f, shape, nonzeros)`: a count between 0 and the number of cells
(or a density), and `f` returns one value per requested entry -/
def Pre_spFromFunction (shape : List Nat) (nonzeros : Int) (returnsRequested : Bool) : Prop :=
  0 ≤ nonzeros ∧ nonzeros ≤ (numel shape : Int) ∧ returnsRequested = true

instance (shape : List Nat) (nonzeros : Int) (b : Bool) : Decidable (Pre_spFromFunction shape nonzeros b) := by
  unfold Pre_spFromFunction; infer_instance

/-- `sptenmat.from_array(array, rdims, cdims, tshape)`: a 2-d array no larger than the
matricization, whose mode split is a permutation -/
def Pre_fromArray (ashape : MatS) (rdims cdims : Option (List Int)) (tshape : List Nat) : Prop :=
  match wrapDimsI tshape.length rdims cdims none with
  | none => False
  | some (r, c) => IsPermI (r ++ c) tshape.length ∧ (0 < ashape.1 ∧ 0 < ashape.2 →
      ashape.1 ≤ sideSize tshape r ∧ ashape.2 ≤ sideSize tshape c)

instance (ashape : MatS) (rdims cdims : Option (List Int)) (tshape : List Nat) :
    Decidable (Pre_fromArray ashape rdims cdims tshape) := by unfold Pre_fromArray; split <;> infer_instance

/-! ### input classes added after the mutation study: extents given as integers, multiplicands that
are not plain vectors, components that are missing or of another element type, region keys -/

/-- `sptensor(subs, vals, shape)` / `from_aggregator` with the extents as the caller wrote them
(integers: a shape like `(2, -3)` or `(2, 0)` can be written down) -/
structure SubsArgsI where
  shape : List Int
  width : Nat
  subs : List (List Int)
  nvals : Nat

/-- the same request with the extents read as natural numbers (a non-positive extent becomes 0,
which no subscript fits) -/
def SubsArgsI.toNat (a : SubsArgsI) : SubsArgs :=
  { shape := a.shape.map Int.toNat, width := a.width, subs := a.subs, nvals := a.nvals }

/-- every extent is positive, and the request is well formed in the sense of `Pre_subs` -/
def Pre_subsI (a : SubsArgsI) : Prop := (∀ e ∈ a.shape, 0 < e) ∧ Pre_subs a.toNat

instance (a : SubsArgsI) : Decidable (Pre_subsI a) := by unfold Pre_subsI; infer_instance

/-- the shape a multiplicand of `ttsv` has once the stated conventions have been applied: an
array is squeezed (`none`: more than one non-trivial dimension is left, it is not a vector), a
(nested) list is taken as it is written -/
def vectorShape (vshape : List Nat) (isList : Bool) : Option (List Nat) :=
  if isList then some vshape
  else if (vshape.filter (fun e => e != 1)).length ≤ 1 then some [numel vshape] else none

/-- the length the multiplicand counts as: its size when it is a vector, and otherwise a length
that no mode of the tensor has (`1 +` the sum of the extents), so that it fits no mode -/
def TtsvArgs.withMultiplicand (a : TtsvArgs) (vshape : List Nat) (isList : Bool) : TtsvArgs :=
  { a with veclen := match vectorShape vshape isList with
      | some [n] => n
      | _ => a.shape.sum + 1 }

/-- `ttsv(vector, skip_dim, version)` with the multiplicand described by its shape and kind
(array / nested list): the `ttsv` precondition for the length it counts as -/
def Pre_ttsvM (a : TtsvArgs) (vshape : List Nat) (isList : Bool) : Prop :=
  Pre_ttsv (a.withMultiplicand vshape isList)

instance (a : TtsvArgs) (vshape : List Nat) (isList : Bool) : Decidable (Pre_ttsvM a vshape isList) := by
  unfold Pre_ttsvM; infer_instance

/-- `ttensor(core, factors)`: both components are given, or neither (the empty Tucker tensor) -/
def Pre_ttensorGiven (core factors : Bool) : Prop := core = factors

instance (core factors : Bool) : Decidable (Pre_ttensorGiven core factors) := by unfold Pre_ttensorGiven; infer_instance

/-- `ktensor(factors, weights)`: the factor matrices (and the weights, when given) are arrays of
floating-point numbers, and the sizes fit (`Pre_ktensor`) -/
def Pre_ktensorTyped (fs : List MatS) (nw : Option Nat) (factorsFloat weightsFloat : Bool) : Prop :=
  factorsFloat = true ∧ (nw.isSome = true → weightsFloat = true) ∧ Pre_ktensor fs nw

instance (fs : List MatS) (nw : Option Nat) (ff wf : Bool) : Decidable (Pre_ktensorTyped fs nw ff wf) := by
  unfold Pre_ktensorTyped; infer_instance

/-- `sptensor.subdims(region)`: one region entry per mode -/
def Pre_subdims (N len : Nat) : Prop := len = N

instance (N len : Nat) : Decidable (Pre_subdims N len) := by unfold Pre_subdims; infer_instance

/-- one entry of a region key: an integer position, a slice (with or without an explicit stop),
or a list of that many indices -/
inductive KeyEntry where
  | int
  | slice (stopGiven : Bool)
  | list (len : Nat)
  deriving DecidableEq, Repr

/-- the entries that span a mode of the right-hand side (integers select one position) -/
def keyModes (key : List KeyEntry) : List KeyEntry := key.filter (fun e => e != KeyEntry.int)

/-- what the `m`-th spanning entry asks of a right-hand side of shape `rhs`: an index list has as
many entries as the right-hand side has indices in its `m`-th mode; an open slice takes its
extent from that mode, which therefore has to exist -/
def KeyEntry.fits (rhs : List Nat) (e : KeyEntry) (m : Nat) : Prop :=
  match e with
  | .list len => m < rhs.length ∧ len = rhs.getD m 0
  | .slice false => m < rhs.length
  | _ => True

instance (rhs : List Nat) (e : KeyEntry) (m : Nat) : Decidable (e.fits rhs m) := by
  unfold KeyEntry.fits; split <;> infer_instance

/-- `S[region] = sptensor`: every spanning entry of the region fits the mode of the right-hand
side it is paired with -/
def Pre_spAssign (key : List KeyEntry) (rhs : List Nat) : Prop :=
  ∀ m, m < (keyModes key).length → ((keyModes key).getD m KeyEntry.int).fits rhs m

instance (key : List KeyEntry) (rhs : List Nat) : Decidable (Pre_spAssign key rhs) := by
  unfold Pre_spAssign; exact inferInstanceAs (Decidable (∀ m, m < (keyModes key).length → _))

/-! ### argument forms (second mutation study) -/

/-- the shape NumPy gives `np.atleast_1d(v.squeeze())`: the extents other than 1, `(1,)` when none is left -/
def squeezed1 (v : List Nat) : List Nat :=
  match v.filter (fun e => e != 1) with
  | [] => [1]
  | l => l

/-- `ktensor.ttv` with the multiplicands given by SHAPE (arrays of any order) -/
structure TtvMArgs where
  shape : List Nat
  vshapes : List (List Nat)
  dims : Option (List Int)
  excl : Option (List Int)

/-- the mode selection is well formed for that many multiplicands and every multiplicand that is used is,
after dropping singleton axes, a vector with the extent of its mode (a matrix, also one with the right
number of rows, is not) -/
def Pre_ttvM (a : TtvMArgs) : Prop :=
  Pre_dimscheck a.shape.length (some a.vshapes.length) a.dims a.excl ∧
  ∀ p ∈ pairing a.vshapes.length (selModes a.shape.length a.dims a.excl),
    squeezed1 (a.vshapes.getD p.1 []) = [a.shape.getD p.2 0]

instance (a : TtvMArgs) : Decidable (Pre_ttvM a) := by unfold Pre_ttvM; infer_instance

/-- the arguments of `khatrirao` given by shape (arrays of any order) read as matrices -/
def shapesAsMats (shapes : List (List Nat)) : List MatS := shapes.map fun s => (s.getD 0 0, s.getD 1 0)

/-- `khatrirao` of arrays of any order: every argument is 2-dimensional, and as matrices they satisfy `Pre_khatrirao` -/
def Pre_khatriraoND (shapes : List (List Nat)) : Prop :=
  (∀ s ∈ shapes, s.length = 2) ∧ Pre_khatrirao (shapesAsMats shapes)

instance (shapes : List (List Nat)) : Decidable (Pre_khatriraoND shapes) := by unfold Pre_khatriraoND; infer_instance

/-- `sptensor(subs, vals, …)`: subscripts and values come together (both or neither) -/
def Pre_sptensorGiven (subs vals : Bool) : Prop := subs = vals

instance (s v : Bool) : Decidable (Pre_sptensorGiven s v) := by unfold Pre_sptensorGiven; infer_instance

/-- `sptenmat(subs, vals, rdims, cdims, …)` with non-empty arrays: subscripts and values come together, and only
with a mode split (`dims`: at least one of `rdims`, `cdims` is given) -/
def Pre_sptenmatGiven (subs vals dims : Bool) : Prop := subs = vals ∧ (subs = true → dims = true)

instance (s v d : Bool) : Decidable (Pre_sptenmatGiven s v d) := by unfold Pre_sptenmatGiven; infer_instance

/-- an array (given by its shape) that is handed over as a vector - the data of `ktensor.from_vector` - is
1-dimensional, or 2-dimensional with a single row or column -/
def Pre_isVector (s : List Nat) : Prop := s.length = 1 ∨ (s.length = 2 ∧ (s.getD 0 0 = 1 ∨ s.getD 1 0 = 1))

instance (s : List Nat) : Decidable (Pre_isVector s) := by unfold Pre_isVector; infer_instance

/-- an integer array (given by its shape) that is handed over as a SHAPE has at most one axis longer than 1 -/
def Pre_shapeArray (s : List Nat) : Prop := (s.filter fun e => e != 1).length ≤ 1

instance (s : List Nat) : Decidable (Pre_shapeArray s) := by unfold Pre_shapeArray; infer_instance


/-- `tensor.tenfun(f, *others)`: a function of one argument (the stacked operands) takes any number of operands, a
function of two arguments exactly one; nothing else is a request -/
def Pre_tenfunArity (nargs others : Nat) : Prop := nargs = 1 ∨ (nargs = 2 ∧ others = 1)

instance (a o : Nat) : Decidable (Pre_tenfunArity a o) := by unfold Pre_tenfunArity; infer_instance

/-- `S[subs] = value` with an array of subscripts: a row names every mode (more columns than modes is growth on
assignment, property C04; fewer is not a request) -/
def Pre_setSubsWidth (N width : Nat) : Prop := N ≤ width

instance (n w : Nat) : Decidable (Pre_setSubsWidth n w) := by unfold Pre_setSubsWidth; infer_instance

end Pyttb
