/-
C02 — the multilinear products, as the property states them: sums over the subscripts of
the array the operand denotes.  Nothing here mentions a representation or an algorithm.
An operand is a `Den`: a shape and a function from full subscripts to values.
Executable (the driver tabulates these), core Lean only.
-/
import PyttbModel.Core.Arr
import PyttbModel.Core.Perm
import PyttbModel.Core.Denote
namespace Pyttb

/-- What any tensor object denotes: a shape and an entry for every subscript. -/
structure Den (α : Type) where
  shape : List Nat
  get : List Nat → α

variable {α : Type}

def Dense.den [Zero α] (T : Dense α) : Den α := ⟨T.shape, T.get⟩
def Sparse.den [Add α] [Zero α] (S : Sparse α) : Den α := ⟨S.shape, S.get⟩
def Ktensor.den [Add α] [Mul α] [One α] [Zero α] (K : Ktensor α) : Den α := ⟨K.shape, K.get⟩
def Ttensor.den [Add α] [Mul α] [One α] [Zero α] (T : Ttensor α) : Den α := ⟨T.shape, T.get⟩

/-- Tabulate a denotation (F order). -/
def Den.tab (X : Den α) : Dense α := Dense.ofFn X.shape X.get

namespace Spec

/-- The cells `k` of shape `s` that agree with `i` on the modes `rem`
(`i` lists only those coordinates). -/
def fiber (s : List Nat) (rem : List Nat) (i : List Nat) : List (List Nat) :=
  (allSubs s).filter fun k => gather k rem == i

/-- `Σ_{k ∈ l} f k`. -/
def sumOver {β : Type} [Add α] [Zero α] (l : List β) (f : β → α) : α := (l.map f).sum

/-- `∏_{d ∈ sel} w d k_d` : the product of one weight per selected mode. -/
def selProd [Mul α] [One α] (sel : List Nat) (w : Nat → Nat → α) (k : List Nat) : α :=
  (sel.map fun d => w d (k.getD d 0)).prod

/-- Tensor times vectors in the modes `sel` (`w d` is the vector for mode `d`): the entry at
the remaining coordinates `i` is `Σ_{k, k[rem] = i} X[k] · ∏_{d ∈ sel} w_d[k_d]`.
With every mode selected `i = []` and this is the scalar result. -/
def ttv [Add α] [Mul α] [One α] [Zero α] (X : Den α) (sel : List Nat) (w : Nat → Nat → α)
    (i : List Nat) : α :=
  sumOver (fiber X.shape (complDims X.shape.length sel) i) fun k => X.get k * selProd sel w k

/-- Shape of `ttv`: the extents of the modes not selected. -/
def ttvShape (s : List Nat) (sel : List Nat) : List Nat := gather s (complDims s.length sel)

/-- Tensor times matrices in the modes `sel`; `M d a b` is entry `[a, b]` of the matrix that
acts on mode `d` (already transposed when the flag is set):
`Y[i] = Σ_{k, k = i off sel} X[k] · ∏_{d ∈ sel} M_d[i_d, k_d]`. -/
def ttm [Add α] [Mul α] [One α] [Zero α] (X : Den α) (sel : List Nat) (M : Nat → Nat → Nat → α)
    (i : List Nat) : α :=
  let rem := complDims X.shape.length sel
  sumOver (fiber X.shape rem (gather i rem)) fun k =>
    X.get k * (sel.map fun d => M d (i.getD d 0) (k.getD d 0)).prod

/-- Matricized tensor times Khatri-Rao product, entry `[i, r]`:
`λ_r · Σ_{k, k_n = i} X[k] · ∏_{m ≠ n} U_m[k_m, r]`
(`λ` are the weights of a Kruskal operand, all ones for a plain factor list). -/
def mttkrp [Add α] [Mul α] [One α] [Zero α] (X : Den α) (U : Nat → Nat → Nat → α) (lam : Nat → α)
    (n i r : Nat) : α :=
  lam r * sumOver ((allSubs X.shape).filter fun k => k.getD n 0 == i) fun k =>
    X.get k * (((List.range X.shape.length).filter (· != n)).map fun m => U m (k.getD m 0) r).prod

/-- Inner product `Σ_k X[k] · Y[k]`. -/
def inner [Add α] [Mul α] [Zero α] (X Y : Den α) : α :=
  sumOver (allSubs X.shape) fun k => X.get k * Y.get k

/-- Squared Frobenius norm `Σ_k X[k]²`. -/
def normSq [Add α] [Mul α] [Zero α] (X : Den α) : α :=
  sumOver (allSubs X.shape) fun k => X.get k * X.get k

/-- Contraction (trace) of modes `a` and `b`: at the remaining coordinates `i`,
`Σ_{k, k[rem] = i, k_a = k_b} X[k]`. -/
def contract [Add α] [Zero α] (X : Den α) (a b : Nat) (i : List Nat) : α :=
  sumOver ((fiber X.shape (complDims X.shape.length [a, b]) i).filter
    fun k => k.getD a 0 == k.getD b 0) X.get

/-- Collapse of the modes `sel` with a reducer: the reducer applied to the entries of the
fiber at the remaining coordinates `i` (listed first index fastest). -/
def collapse {β : Type} (X : Den α) (sel : List Nat) (f : List α → β) (i : List Nat) : β :=
  f ((fiber X.shape (complDims X.shape.length sel) i).map X.get)

/-- Scaling along the modes `sel` by the array `F` (whose modes are `sel`, in that order):
`Y[i] = X[i] · F[i[sel]]`. -/
def scale [Mul α] (X F : Den α) (sel : List Nat) (i : List Nat) : α :=
  X.get i * F.get (gather i sel)

/-- Tensor times tensor, contracting modes `xd` of `X` with modes `yd` of `Y` (pairwise):
the entry at `a ++ b` (`a` the free coordinates of `X`, `b` those of `Y`) is
`Σ_{kx[remX] = a} Σ_{ky[remY] = b, ky[yd] = kx[xd]} X[kx] · Y[ky]`. -/
def ttt [Add α] [Mul α] [Zero α] (X Y : Den α) (xd yd : List Nat) (a b : List Nat) : α :=
  sumOver (fiber X.shape (complDims X.shape.length xd) a) fun kx =>
    sumOver ((fiber Y.shape (complDims Y.shape.length yd) b).filter
      fun ky => gather ky yd == gather kx xd) fun ky => X.get kx * Y.get ky

/-- Result shape of `ttt`. -/
def tttShape (sx sy xd yd : List Nat) : List Nat :=
  gather sx (complDims sx.length xd) ++ gather sy (complDims sy.length yd)

/-- Sum of the parts of a sum tensor, cell by cell. -/
def sumDen [Add α] [Zero α] (shape : List Nat) (parts : List (Den α)) : Den α :=
  ⟨shape, fun i => sumOver parts fun p => p.get i⟩

end Spec
end Pyttb
