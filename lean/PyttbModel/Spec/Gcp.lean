/-
Specification side of C12, part B: the GCP objective as the property words it — the
(optionally weighted) sum of the loss over all entries of the Kruskal model — and the
perturbation of one factor-matrix entry with respect to which the gradients are partial
derivatives.  Import-free.
-/
import PyttbModel.Core.Denote
namespace Pyttb
variable {α : Type}

/-- contribution of entry `i`: the loss value, times the entry's weight when weights are given -/
def wterm [Mul α] [Zero α] (W : Option (Dense α)) (i : List Nat) (y : α) : α :=
  match W with
  | none => y
  | some W => y * W.get i

/-- the GCP objective: `Σ_i w_i · f(x_i, m_i)` over all subscripts `i` of the model's shape,
`m_i` the value the Kruskal tensor denotes at `i` -/
def gcpObjective [Add α] [Mul α] [One α] [Zero α] (K : Ktensor α) (X : Dense α) (W : Option (Dense α))
    (f : α → α → α) : α :=
  ((allSubs K.shape).map fun i => wterm W i (f (X.get i) (K.get i))).sum

/-- the (weighted) entry-wise values of a handle in F order: for the gradient handle this is
the weighted derivative tensor `Y` whose MTTKRPs are the gradients -/
def wY [Add α] [Mul α] [One α] [Zero α] (K : Ktensor α) (X : Dense α) (W : Option (Dense α))
    (h : α → α → α) : List α :=
  (allSubs K.shape).map (fun i => wterm W i (h (X.get i) (K.get i)))

/-- matrix with entry `(a, r)` replaced by `t` -/
def Mat.setEntry (A : Mat α) (a r : Nat) (t : α) : Mat α := A.set a ((A.getD a []).set r t)

/-- Kruskal tensor with entry `(a, r)` of factor matrix `k` replaced by `t` -/
def Ktensor.setEntry (K : Ktensor α) (k a r : Nat) (t : α) : Ktensor α :=
  ⟨K.weights, K.factors.set k ((K.factors.getD k []).setEntry a r t)⟩

end Pyttb
