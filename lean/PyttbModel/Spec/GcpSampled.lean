/-
Specification side of C12, part B, for the sampled estimator and for masks: the weighted
sample sum with the semi-stratified correction, its partial derivatives entry by entry, and
the objective restricted to the unmasked entries.  Import-free (core Lean only).
-/
import PyttbModel.Alg.GcpFg
import PyttbModel.Spec.Gcp
namespace Pyttb
variable {α : Type}

/-- What sample number `s` contributes for a handle `h` (the loss or its derivative) at data
value `x` and model value `m`: `h(x, m)`, and for the samples listed in the correction range
`crng` of the semi-stratified sampler `h(x, m) − h(0, m)` (a "non-zero" sample stands for the
difference to the zero-data term that the uniformly drawn samples already account for). -/
def sampleTerm [Sub α] [Zero α] (h : Handle α) (crng : Option (List Nat)) (s : Nat) (x m : α) : α :=
  match crng with
  | none => h x m
  | some c => if c.contains s then h x m - h 0 m else h x m

/-- the sampled objective `Σ_s w_s · term_s` over the sample list (repeats are separate terms) -/
def sampledObjective [Add α] [Sub α] [Mul α] [One α] [Zero α] (K : Ktensor α) (subs : List (List Nat))
    (xvals w : List α) (crng : Option (List Nat)) (f : Handle α) : α :=
  ((List.range subs.length).map fun s =>
    w.getD s 0 * sampleTerm f crng s (xvals.getD s 0) (K.get (subs.getD s []))).sum

/-- entry `(a, r)` of the sampled gradient for mode `k`:
`Σ_s w_s · term'_s · ∂m_{i_s}/∂A_k[a, r]` with `∂m_i/∂A_k[a, r] = [i_k = a] ∏_{n ≠ k} A_n[i_n, r]` -/
def sampledGradEntry [Add α] [Sub α] [Mul α] [One α] [Zero α] (K : Ktensor α) (subs : List (List Nat))
    (xvals w : List α) (crng : Option (List Nat)) (g : Handle α) (k a r : Nat) : α :=
  ((List.range subs.length).map fun s =>
    if (subs.getD s []).getD k 0 = a then
      w.getD s 0 * sampleTerm g crng s (xvals.getD s 0) (K.get (subs.getD s []))
        * compExcept K.factors k r (subs.getD s [])
    else 0).sum

/-- all sampled gradient matrices, one per mode (rows × components) -/
def sampledGrad [Add α] [Sub α] [Mul α] [One α] [Zero α] (K : Ktensor α) (subs : List (List Nat))
    (xvals w : List α) (crng : Option (List Nat)) (g : Handle α) : List (Mat α) :=
  (List.range K.factors.length).map fun k =>
    (List.range (K.factors.getD k []).length).map fun a =>
      (List.range K.ncomp).map fun r => sampledGradEntry K subs xvals w crng g k a r

/-- the model with the same factor matrices and all weights one -/
def Ktensor.unitWeights [One α] (K : Ktensor α) : Ktensor α := ⟨List.replicate K.ncomp 1, K.factors⟩

/-! ### masks -/

/-- every entry of the array is `0` or `1` -/
def IsMask [Zero α] [One α] (W : Dense α) : Prop := ∀ i ∈ allSubs W.shape, W.get i = 0 ∨ W.get i = 1

/-- the subscripts the mask keeps (entry not zero), in F order -/
def unmasked [Zero α] [DecidableEq α] (W : Dense α) : List (List Nat) :=
  (allSubs W.shape).filter fun i => decide (W.get i ≠ 0)

/-- the loss summed over the unmasked entries only -/
def maskedObjective [Add α] [Mul α] [One α] [Zero α] [DecidableEq α] (K : Ktensor α) (X W : Dense α)
    (f : Handle α) : α :=
  ((unmasked W).map fun i => f (X.get i) (K.get i)).sum

end Pyttb
