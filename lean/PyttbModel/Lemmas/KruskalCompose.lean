/-
C08 lemmas: arranging the components by `p` and then by `q` is arranging them once by the
composition `p[q]`.
-/
import PyttbModel.Lemmas.KruskalNormalize
set_option linter.unusedSectionVars false
set_option linter.unusedSimpArgs false
namespace Pyttb
namespace Ktensor

variable {α : Type}

theorem gatherD_gatherD {β : Type} (l : List β) (p q : List Nat) (d : β) (hq : ∀ x ∈ q, x < p.length) :
    gatherD (gatherD l p d) q d = gatherD l (gatherD p q 0) d := by
  unfold gatherD
  rw [List.map_map]
  apply List.map_congr_left
  intro x hx
  simp only [Function.comp]
  rw [getD_map_of_lt _ _ _ 0 _ (hq x hx)]

theorem gatherD_nat_eq_gather (p q : List Nat) : gatherD p q 0 = gather p q := rfl

theorem permuteComps_permuteComps [Zero α] (K : Ktensor α) (p q : List Nat) (hq : ∀ x ∈ q, x < p.length) :
    (K.permuteComps p).permuteComps q = K.permuteComps (gatherD p q 0) := by
  unfold permuteComps
  simp only [List.map_map]
  congr 1
  · exact gatherD_gatherD _ _ _ _ hq
  · apply List.map_congr_left
    intro A _
    simp only [Function.comp, Mat.gatherCols, List.map_map]
    apply List.map_congr_left
    intro row _
    exact gatherD_gatherD _ _ _ _ hq

theorem isPermOf_gatherD {p q : List Nat} {n : Nat} (hp : isPermOf p n = true) (hq : isPermOf q n = true) :
    isPermOf (gatherD p q 0) n = true := by
  rw [gatherD_nat_eq_gather, isPermOf_iff_perm]
  have h1 : (gather p q).Perm p := gather_perm_self (by rw [isPermOf_length_eq hp]; exact hq)
  exact ((isPermOf_iff_perm p n).1 hp).trans h1.symm

section field
variable [Field α] [LinearOrder α] [IsStrictOrderedRing α]

/-- `arrange(permutation=p)` followed by `arrange(permutation=q)` is `arrange(permutation=p[q])`. -/
theorem arrange_perm_compose (S : Services α) (K : Ktensor α) (p q : List Nat)
    (hp : isPermOf p K.ncomp = true) (hq : isPermOf q K.ncomp = true) :
    isPermOf (gatherD p q 0) K.ncomp = true ∧
    arrange S K none (some (p.map Int.ofNat)) = .ok (K.permuteComps p) ∧
    arrange S (K.permuteComps p) none (some (q.map Int.ofNat)) = .ok (K.permuteComps (gatherD p q 0)) ∧
    arrange S K none (some ((gatherD p q 0).map Int.ofNat)) = .ok (K.permuteComps (gatherD p q 0)) := by
  have hpq := isPermOf_gatherD hp hq
  have hlen : (K.permuteComps p).ncomp = K.ncomp := by
    rw [permuteComps_ncomp]; exact isPermOf_length_eq hp
  refine ⟨hpq, arrange_perm_eq S K p hp, ?_, arrange_perm_eq S K _ hpq⟩
  rw [arrange_perm_eq S (K.permuteComps p) q (by rw [hlen]; exact hq)]
  congr 1
  apply permuteComps_permuteComps
  intro x hx
  rw [isPermOf_length_eq hp]
  exact isPermOf_lt_of_mem hq hx

end field
end Ktensor
end Pyttb
