/-
C02 — dense `contract` (trace over two modes).
-/
import PyttbModel.Lemmas.MLDenseOps
namespace Pyttb
namespace ML

variable {α : Type}

/-- Sum over the diagonal of an `n × n` index block. -/
theorem sum_diag [AddCommMonoid α] (n n' : Nat) (hnn : n = n') (g : List Nat → α) :
    ((allSubs [n, n']).map fun j => if j.getD 0 0 = j.getD 1 0 then g j else 0).sum =
      ((List.range n).map fun k => g [k, k]).sum := by
  subst hnn
  rw [sum_allSubs_cons, allSubs_singleton, List.map_map]
  apply sum_congr
  intro y hy
  have := sum_single' (List.range n) List.nodup_range y (fun x => g [x, y]) hy
  simp only [Function.comp_apply]
  rw [← this]
  apply sum_congr
  intro x _
  simp

/-- **Dense `contract`** of two distinct modes of equal extent: a scalar for a matrix, otherwise a
tensor over the remaining modes, `Σ_{k ∈ fiber, k_a = k_b} X[k]`. -/
theorem dense_contract_spec [AddCommMonoid α] (T : Dense α) (hT : T.WF) (a b : Nat)
    (ha : a < T.shape.length) (hb : b < T.shape.length) (hab : a ≠ b)
    (hsz : T.shape.getD a 0 = T.shape.getD b 0) :
    ∃ r, T.contract a b = .ok r ∧ r.toRes.shape = gather T.shape (complDims T.shape.length [a, b]) ∧
      ∀ i, InBounds r.toRes.shape i → r.toRes.get i = Spec.contract T.den a b i := by
  set N := T.shape.length with hN
  set rem := complDims N [a, b] with hrem
  set n := T.shape.getD a 0 with hn
  have hnd : ([a, b] : List Nat).Nodup := by simp [hab]
  have hlt : ∀ d ∈ ([a, b] : List Nat), d < N := by
    intro d hd; simp at hd; rcases hd with rfl | rfl <;> assumption
  have hp : isPermOf (rem ++ [a, b]) N = true := isPermOf_compl_append N [a, b] hnd hlt
  have hsel : gather T.shape [a, b] = [n, T.shape.getD b 0] := rfl
  -- the specification over the diagonal of the two contracted coordinates
  have hspec : ∀ i, InBounds (gather T.shape rem) i → Spec.contract T.den a b i =
      ((List.range n).map fun k => T.get (gather (i ++ [k, k]) (invPerm (rem ++ [a, b])))).sum := by
    intro i hi
    unfold Spec.contract Spec.sumOver
    show (((Spec.fiber T.shape rem i).filter fun k => k.getD a 0 == k.getD b 0).map T.get).sum = _
    rw [sum_filter, fiber_sum T.shape rem [a, b] i hp hi, hsel]
    have hil : i.length = rem.length := by rw [hi.length_eq, length_gather]
    rw [← sum_diag n (T.shape.getD b 0) hsz fun j => T.get (gather (i ++ j) (invPerm (rem ++ [a, b])))]
    apply sum_congr
    intro j hj
    have hjl : j.length = ([a, b] : List Nat).length := by
      rw [(mem_allSubs.1 hj).length_eq]; rfl
    have hg := (gather_unperm_left hp hil hjl).2
    have h0 : (gather (i ++ j) (invPerm (rem ++ [a, b]))).getD a 0 = j.getD 0 0 := by
      have := congrArg (fun l => l.getD 0 0) hg
      simpa [gather] using this
    have h1 : (gather (i ++ j) (invPerm (rem ++ [a, b]))).getD b 0 = j.getD 1 0 := by
      have := congrArg (fun l => l.getD 1 0) hg
      simpa [gather] using this
    rw [h0, h1]
    by_cases h : j.getD 0 0 = j.getD 1 0 <;> simp [h]
  unfold Dense.contract
  have g1 : (decide (a ≥ N) || decide (b ≥ N)) = false := by simp; omega
  have g2 : (n != T.shape.getD b 0) = false := by rw [hsz]; exact bne_self_eq_false _
  have g3 : (a == b) = false := by simpa using hab
  simp only [← hN, g1, g2, g3, Bool.false_eq_true, if_false, ← hrem, ← hn]
  by_cases h2 : (N == 2) = true
  · rw [if_pos h2]
    have hN2 : N = 2 := by simpa using h2
    have hcase : (a = 0 ∧ b = 1) ∨ (a = 1 ∧ b = 0) := by omega
    have hr : rem = [] := by
      rw [hrem, hN2]
      rcases hcase with ⟨rfl, rfl⟩ | ⟨rfl, rfl⟩ <;> decide
    refine ⟨_, rfl, by simp [ScalarOr.toRes, ML.Res.shape, hr], ?_⟩
    intro i hi
    have hi0 : i = [] := by
      simp only [ScalarOr.toRes, ML.Res.shape] at hi
      cases i <;> simp_all [InBounds]
    subst hi0
    simp only [ScalarOr.toRes, ML.Res.get]
    rw [hspec [] (by rw [hr]; trivial)]
    unfold sumRange
    apply sum_congr
    intro k hk
    -- un-permuting `[k, k]` gives `[k, k]` for either order of the two modes
    obtain ⟨s0, s1, hs⟩ : ∃ s0 s1, T.shape = [s0, s1] := by
      match hsh : T.shape, hN2 ▸ hN with
      | [x, y], _ => exact ⟨x, y, rfl⟩
    have hun : gather ([] ++ [k, k]) (invPerm (rem ++ [a, b])) = [k, k] := by
      rw [hr]
      rcases hcase with ⟨rfl, rfl⟩ | ⟨rfl, rfl⟩ <;> rfl
    rw [hun]
    show T.data.getD (k + T.shape.getD 0 0 * k) 0 = T.data.getD (sub2ind T.shape [k, k]) 0
    rw [hs]
    simp [sub2ind]
  · rw [if_neg h2, Dense.permute_ok T hT _ hp]
    simp only
    refine ⟨_, rfl, rfl, ?_⟩
    intro i hi
    simp only [ScalarOr.toRes, ML.Res.shape] at hi
    simp only [ScalarOr.toRes, ML.Res.get, Dense.get]
    set m := numel (gather T.shape rem) with hm
    have hlt' : sub2ind (gather T.shape rem) i < m := sub2ind_lt hi
    rw [getD_map_range _ _ _ _ hlt', hspec i hi]
    unfold sumRange
    apply sum_congr
    intro k hk
    have hk' := List.mem_range.1 hk
    have hkk : InBounds (gather T.shape [a, b]) [k, k] := by
      rw [hsel]; exact ⟨hk', by rw [← hsz]; exact hk', trivial⟩
    have hij : InBounds (gather T.shape (rem ++ [a, b])) (i ++ [k, k]) := by
      rw [gather_append]; exact InBounds_append hi hkk
    rw [← Dense.transpose_get_c01 T (rem ++ [a, b]) (i ++ [k, k]) hij]
    show _ = (T.transpose (rem ++ [a, b])).data.getD (sub2ind (gather T.shape (rem ++ [a, b])) (i ++ [k, k])) 0
    rw [gather_append, sub2ind_append _ _ _ _ hi.length_eq, hsel]
    congr 1
    simp only [sub2ind, Nat.mul_zero, Nat.add_zero]
    rw [Nat.mul_add, ← Nat.mul_assoc, Nat.add_assoc]

end ML
end Pyttb
