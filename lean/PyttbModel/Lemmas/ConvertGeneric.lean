/-
C01, second batch: matricized objects in general (not only those produced by `to_tenmat` /
`to_sptenmat`): what they denote, `tenmat.to_tensor`, `sptenmat.to_sptensor`, `sptenmat.full`,
`to_tenmat` / `to_sptenmat` with every argument convention, and what the objects report.
-/
import PyttbModel.Lemmas.ConvertSptenmat
import PyttbModel.Ops.ConvertChain
namespace Pyttb
variable {α : Type}

/-! ### well-formed matricized objects and what they denote -/

/-- A well-formed `tenmat`: the split lists every mode once, the matrix has the two side sizes
as its extents and one value per cell. -/
structure Tenmat.WF (M : Tenmat α) : Prop where
  perm : isPermOf (M.rdims ++ M.cdims) M.tshape.length = true
  mshape : M.data.shape = [numel (gather M.tshape M.rdims), numel (gather M.tshape M.cdims)]
  data : M.data.WF

/-- The tensor entry a `tenmat` holds for subscript `i`: the matrix entry in row
`sub2ind tshape[rdims] i[rdims]`, column `sub2ind tshape[cdims] i[cdims]`. -/
def Tenmat.get [Zero α] (M : Tenmat α) (i : List Nat) : α :=
  M.data.get (matSub M.tshape M.rdims M.cdims i)

/-- A well-formed `sptenmat`: the split lists every mode once and the stored triples are a
well-formed sparse matrix of the two side sizes. -/
structure Sptenmat.WF [Zero α] [BEq α] (M : Sptenmat α) : Prop where
  perm : isPermOf (M.rdims ++ M.cdims) M.tshape.length = true
  mat : Sparse.WF (⟨M.mshape, M.subs, M.vals⟩ : Sparse α)

/-- The tensor entry a `sptenmat` denotes for subscript `i`. -/
def Sptenmat.den [Add α] [Zero α] (M : Sptenmat α) (i : List Nat) : α :=
  Sparse.get ⟨M.mshape, M.subs, M.vals⟩ (matSub M.tshape M.rdims M.cdims i)

theorem Sptenmat.den_eq_get [Add α] [Zero α] (M : Sptenmat α) (i : List Nat) :
    M.den i = M.get (sub2ind (gather M.tshape M.rdims) (gather i M.rdims))
      (sub2ind (gather M.tshape M.cdims) (gather i M.cdims)) := rfl

/-! ### `tenmat.to_tensor()` of any well-formed `tenmat` -/

theorem numel_pair_c01 (a b : Nat) : numel [a, b] = a * b := by simp [numel]

theorem sub2ind_pair_c01 (R C a b : Nat) : sub2ind [R, C] [a, b] = a + R * b := by
  simp [sub2ind]

theorem Tenmat.toTensor_eq [Zero α] (M : Tenmat α) (hM : M.WF) :
    M.toTensor =
      (⟨gather M.tshape (M.rdims ++ M.cdims), M.data.data⟩ : Dense α).transpose (invPerm (M.rdims ++ M.cdims)) := by
  have hp := hM.perm
  have hl := isPermOf_length_eq hp
  have hDW : (⟨gather M.tshape (M.rdims ++ M.cdims), M.data.data⟩ : Dense α).WF := by
    have := hM.data
    unfold Dense.WF at *
    rw [this, hM.mshape, gather_append, numel_append, numel_pair_c01]
  unfold Tenmat.toTensor
  simp only
  split
  · -- more than one mode: un-permute
    have hs : ((⟨gather M.tshape (M.rdims ++ M.cdims), M.data.data⟩ : Dense α).transpose
        (invPerm (M.rdims ++ M.cdims))).shape = M.tshape := by
      rw [Dense.transpose_shape_c01]
      exact gather_gather_invPerm hp rfl
    generalize hX : (⟨gather M.tshape (M.rdims ++ M.cdims), M.data.data⟩ : Dense α).transpose
        (invPerm (M.rdims ++ M.cdims)) = X at hs
    cases X with
    | mk s d => simp only at hs; subst hs; rfl
  · next h =>
    have hr := isPermOf_le_one hp (by omega)
    rw [hr, invPerm_range]
    have hg : gather M.tshape (List.range M.tshape.length) = M.tshape := gather_range _
    have hDW' : (⟨gather M.tshape (List.range M.tshape.length), M.data.data⟩ : Dense α).WF := by
      rw [← hr]; exact hDW
    have := Dense.transpose_range_c01 (⟨gather M.tshape (List.range M.tshape.length), M.data.data⟩ : Dense α) hDW'
    simp only [length_gather, List.length_range] at this
    rw [this, hg]

/-- **`tenmat.to_tensor()`** of any well-formed `tenmat`: a well-formed dense tensor of shape
`tshape` whose entry `i` is the matrix entry at `(sub2ind rows, sub2ind columns)`. -/
theorem tenmat_toTensor_spec [Zero α] (M : Tenmat α) (hM : M.WF) :
    M.toTensor.shape = M.tshape ∧ M.toTensor.WF ∧
      ∀ i, InBounds M.tshape i → M.toTensor.get i = M.get i := by
  have hp := hM.perm
  have hl := isPermOf_length_eq hp
  rw [Tenmat.toTensor_eq M hM]
  have hs : ((⟨gather M.tshape (M.rdims ++ M.cdims), M.data.data⟩ : Dense α).transpose
      (invPerm (M.rdims ++ M.cdims))).shape = M.tshape := by
    rw [Dense.transpose_shape_c01]
    exact gather_gather_invPerm hp rfl
  refine ⟨hs, Dense.transpose_WF_c01 _ _, ?_⟩
  intro i hi
  rw [Dense.transpose_get_c01 _ _ _ (by rw [← Dense.transpose_shape_c01, hs]; exact hi), invPerm_invPerm hp]
  simp only [Dense.get, Tenmat.get, matSub, hM.mshape, sub2ind_pair_c01, gather_append]
  rw [sub2ind_append _ _ _ _ (by simp)]

/-- what `to_tenmat` builds is well-formed. -/
theorem tenmatOf_wf [Zero α] (T : Dense α) (r c : List Nat)
    (hp : isPermOf (r ++ c) T.shape.length = true) :
    Tenmat.WF (⟨T.shape, r, c, ⟨[numel (gather T.shape r), numel (gather T.shape c)],
      (T.transpose (r ++ c)).data⟩⟩ : Tenmat α) :=
  ⟨hp, rfl, tenmat_data_WF T r c⟩

/-! ### `to_tenmat` with every argument convention -/

theorem reject_eq_c01 (e : Reject) : e = .reject := by cases e; rfl

/-- the range test of `to_tenmat` on one argument. -/
def inRangeOpt (n : Nat) (l : Option (List Nat)) : Bool :=
  match l with | none => true | some l => l.all (· < n)

theorem toTenmat_unfold [Zero α] (T : Dense α) (rd cd : Option (List Nat)) (cyc : Option Cyclic) :
    T.toTenmat rd cd cyc =
      if rd.isNone && cd.isNone then .error .reject
      else if !inRangeOpt T.shape.length rd || !inRangeOpt T.shape.length cd then .error .reject
      else
        match gatherWrapDims T.shape.length rd cd cyc with
        | .error e => .error e
        | .ok (r, c) =>
          if !isPermOf (r ++ c) T.shape.length then .error .reject
          else
            match T.permute (r ++ c) with
            | .error e => .error e
            | .ok P =>
              .ok ⟨T.shape, r, c, ⟨[numel (gather T.shape r), numel (gather T.shape c)], P.data⟩⟩ := rfl

theorem splitValid_iff (n : Nat) (rd cd : Option (List Nat)) (cyc : Option Cyclic) :
    splitValid n rd cd cyc = true ↔
      inRangeOpt n rd = true ∧ inRangeOpt n cd = true ∧
        ∃ r c, gatherWrapDims n rd cd cyc = .ok (r, c) ∧ isPermOf (r ++ c) n = true := by
  unfold splitValid
  simp only [Bool.and_eq_true]
  constructor
  · rintro ⟨⟨h1, h2⟩, h3⟩
    refine ⟨h1, h2, ?_⟩
    cases hg : gatherWrapDims n rd cd cyc with
    | error e => rw [hg] at h3; cases h3
    | ok rc => obtain ⟨r, c⟩ := rc; rw [hg] at h3; exact ⟨r, c, rfl, h3⟩
  · rintro ⟨h1, h2, r, c, hg, hp⟩
    refine ⟨⟨h1, h2⟩, ?_⟩
    rw [hg]; exact hp

/-- `to_tenmat(rdims, cdims, cdims_cyclic)` in general: either refused, or `gather_wrap_dims`
yields a pair `(r, c)` whose concatenation is a permutation of the modes and the result is the
matricization for that pair. -/
theorem toTenmat_general [Zero α] (T : Dense α) (hT : T.WF) (rd cd : Option (List Nat))
    (cyc : Option Cyclic) :
    T.toTenmat rd cd cyc = .error .reject ∨
    ∃ r c, gatherWrapDims T.shape.length rd cd cyc = .ok (r, c) ∧
      isPermOf (r ++ c) T.shape.length = true ∧
      T.toTenmat rd cd cyc = .ok ⟨T.shape, r, c, ⟨[numel (gather T.shape r), numel (gather T.shape c)],
        (T.transpose (r ++ c)).data⟩⟩ := by
  rw [toTenmat_unfold]
  cases hA : (rd.isNone && cd.isNone)
  · cases hB : (!inRangeOpt T.shape.length rd || !inRangeOpt T.shape.length cd)
    · cases hg : gatherWrapDims T.shape.length rd cd cyc with
      | error e => left; simp only [Bool.false_eq_true, if_false]
      | ok rc =>
        obtain ⟨r, c⟩ := rc
        by_cases hp : isPermOf (r ++ c) T.shape.length = true
        · right
          refine ⟨r, c, rfl, hp, ?_⟩
          simp only [hp, Bool.not_true, Bool.false_eq_true, if_false, Dense.permute_ok T hT _ hp]
        · left
          simp only [hp, Bool.not_false, Bool.false_eq_true, if_false, if_true]
    · left; simp
  · left; simp

/-- an acceptable split is accepted. -/
theorem toTenmat_valid [Zero α] (T : Dense α) (hT : T.WF) (rd cd : Option (List Nat))
    (cyc : Option Cyclic) (hv : splitValid T.shape.length rd cd cyc = true) :
    ∃ r c, gatherWrapDims T.shape.length rd cd cyc = .ok (r, c) ∧
      isPermOf (r ++ c) T.shape.length = true ∧
      T.toTenmat rd cd cyc = .ok ⟨T.shape, r, c, ⟨[numel (gather T.shape r), numel (gather T.shape c)],
        (T.transpose (r ++ c)).data⟩⟩ := by
  obtain ⟨h1, h2, r, c, hg, hp⟩ := (splitValid_iff _ _ _ _).1 hv
  refine ⟨r, c, hg, hp, ?_⟩
  have hnn : (rd.isNone && cd.isNone) = false := by
    cases rd <;> cases cd <;> simp_all [gatherWrapDims]
  rw [toTenmat_unfold]
  simp only [hnn, Bool.false_eq_true, if_false, h1, h2, Bool.not_true, Bool.or_self, hg, hp,
    Dense.permute_ok T hT _ hp]

/-! ### `sptenmat.to_sptensor()` / `sptenmat.full()` of any well-formed `sptenmat` -/

section sptenmat
variable [AddCommMonoid α] [DecidableEq α]

omit [AddCommMonoid α] [DecidableEq α] in
theorem Sptenmat.toSparse_eq (M : Sptenmat α) :
    M.toSparse = ⟨M.tshape, M.subs.map (unmatSub M.tshape M.rdims M.cdims), M.vals⟩ := rfl

/-- a cell inside the matrix is the cell of the in-bounds tensor subscript `unmatSub` names. -/
theorem unmatSub_spec {s r c u : List Nat} (hp : isPermOf (r ++ c) s.length = true)
    (hu : InBounds [numel (gather s r), numel (gather s c)] u) :
    InBounds s (unmatSub s r c u) ∧ matSub s r c (unmatSub s r c u) = u := by
  match u, hu with
  | [a, b], hu =>
    simp only [InBounds, and_true] at hu
    obtain ⟨j, hj, hjab⟩ := matSub_surj hp a b hu.1 hu.2
    rw [← hjab, unmatSub_matSub hp hj]
    exact ⟨hj, rfl⟩

/-- **`sptenmat.to_sptensor()`** of any well-formed `sptenmat`: a well-formed sparse tensor of
shape `tshape` with as many stored entries, denoting at `i` the matrix entry at
`(sub2ind rows, sub2ind columns)`. -/
theorem sptenmat_toSparse_spec (M : Sptenmat α) (hM : M.WF) :
    M.toSparse.shape = M.tshape ∧ M.toSparse.WF ∧ M.toSparse.nnz = M.subs.length ∧
      ∀ i, InBounds M.tshape i → M.toSparse.get i = M.den i := by
  have hp := hM.perm
  have hW := hM.mat
  have hinb : ∀ u ∈ M.subs, InBounds [numel (gather M.tshape M.rdims), numel (gather M.tshape M.cdims)] u :=
    fun u hu => hW.inb u hu
  refine ⟨rfl, ⟨?_, ?_, ?_, ?_⟩, ?_, ?_⟩
  · rw [Sptenmat.toSparse_eq]; simp only [List.length_map]; exact hW.len
  · intro j hj
    rw [Sptenmat.toSparse_eq] at hj
    obtain ⟨u, hu, rfl⟩ := List.mem_map.1 hj
    exact (unmatSub_spec hp (hinb u hu)).1
  · rw [Sptenmat.toSparse_eq]
    simp only
    have hn := hW.nodup
    unfold List.Nodup at *
    rw [List.pairwise_map]
    apply List.Pairwise.imp_of_mem _ hn
    intro a b ha hb hab he
    apply hab
    rw [← (unmatSub_spec hp (hinb a ha)).2, ← (unmatSub_spec hp (hinb b hb)).2, he]
  · exact hW.nz
  · rw [Sptenmat.toSparse_eq]; simp [Sparse.nnz]
  · intro i hi
    have hent : M.toSparse.entries =
        (Sparse.entries ⟨M.mshape, M.subs, M.vals⟩).map fun e => (unmatSub M.tshape M.rdims M.cdims e.1, e.2) := by
      rw [Sptenmat.toSparse_eq]
      unfold Sparse.entries
      simp only
      rw [List.zip_map_left]
      apply List.map_congr_left
      intro e _
      rfl
    rw [Sparse.get_eq_kvSum, hent]
    have hi' : unmatSub M.tshape M.rdims M.cdims (matSub M.tshape M.rdims M.cdims i) = i :=
      unmatSub_matSub hp hi
    conv => lhs; rw [← hi']
    rw [kvSum_map_key]
    · rfl
    · intro e he h
      have heu : e.1 ∈ M.subs := (List.of_mem_zip (a := e.1) (b := e.2) he).1
      rw [← (unmatSub_spec hp (hinb e.1 heu)).2, h, hi']

/-- **`sptenmat.full()`** of any well-formed `sptenmat`: a well-formed `tenmat` with the same
shape and split that holds the same entries. -/
theorem sptenmat_full_spec (M : Sptenmat α) (hM : M.WF) :
    M.full.tshape = M.tshape ∧ M.full.rdims = M.rdims ∧ M.full.cdims = M.cdims ∧ M.full.WF ∧
      ∀ i, InBounds M.tshape i → M.full.get i = M.den i := by
  refine ⟨rfl, rfl, rfl, ⟨hM.perm, rfl, Dense.ofFn_WF _ _⟩, ?_⟩
  intro i hi
  have hb := matSub_inBounds hM.perm hi
  exact (sp_full_at _ hM.mat _ hb).1

/-- what `to_sptenmat` builds is well-formed. -/
theorem sptenmatOf_WF (S : Sparse α) (r c : List Nat) (hS : S.WF)
    (hp : isPermOf (r ++ c) S.shape.length = true) : (sptenmatOf S r c).WF :=
  ⟨hp, sptenmatOf_wf S r c hS hp⟩

theorem toSptenmat_of_wrap (S : Sparse α) (hS : S.WF) (rd cd : Option (List Nat)) (cyc : Option Cyclic)
    (r c : List Nat) (hg : gatherWrapDims S.shape.length rd cd cyc = .ok (r, c))
    (hp : isPermOf (r ++ c) S.shape.length = true) :
    S.toSptenmat rd cd cyc = .ok (sptenmatOf S r c) := by
  rw [← toSptenmat_ok S r c hS hp]
  have h2 : gatherWrapDims S.shape.length (some r) (some c) none = .ok (r, c) := rfl
  unfold Sparse.toSptenmat
  simp only [hg, h2]

/-- `to_sptenmat(rdims, cdims, cdims_cyclic)` in general: either refused, or
`gather_wrap_dims` yields a pair `(r, c)` whose concatenation is a permutation of the modes and
the result is the matricization for that pair. -/
theorem toSptenmat_general (S : Sparse α) (hS : S.WF) (rd cd : Option (List Nat)) (cyc : Option Cyclic) :
    S.toSptenmat rd cd cyc = .error .reject ∨
    ∃ r c, gatherWrapDims S.shape.length rd cd cyc = .ok (r, c) ∧
      isPermOf (r ++ c) S.shape.length = true ∧
      S.toSptenmat rd cd cyc = .ok (sptenmatOf S r c) := by
  cases hg : gatherWrapDims S.shape.length rd cd cyc with
  | error e =>
    left
    unfold Sparse.toSptenmat
    simp only [hg]
  | ok rc =>
    obtain ⟨r, c⟩ := rc
    by_cases hp : isPermOf (r ++ c) S.shape.length = true
    · right
      exact ⟨r, c, rfl, hp, toSptenmat_of_wrap S hS rd cd cyc r c hg hp⟩
    · left
      unfold Sparse.toSptenmat
      simp only [hg, hp, Bool.not_false, if_true]

theorem toSptenmat_valid (S : Sparse α) (hS : S.WF) (rd cd : Option (List Nat)) (cyc : Option Cyclic)
    (hv : splitValid S.shape.length rd cd cyc = true) :
    ∃ r c, gatherWrapDims S.shape.length rd cd cyc = .ok (r, c) ∧
      isPermOf (r ++ c) S.shape.length = true ∧
      S.toSptenmat rd cd cyc = .ok (sptenmatOf S r c) := by
  unfold splitValid at hv
  simp only [Bool.and_eq_true] at hv
  obtain ⟨_, h3⟩ := hv
  rcases toSptenmat_general S hS rd cd cyc with h | h
  · exfalso
    cases hg : gatherWrapDims S.shape.length rd cd cyc with
    | error e => rw [hg] at h3; cases h3
    | ok rc =>
      obtain ⟨r, c⟩ := rc
      rw [hg] at h3
      simp only at h3
      have : S.toSptenmat rd cd cyc = .ok (sptenmatOf S r c) :=
        toSptenmat_of_wrap S hS rd cd cyc r c hg h3
      rw [this] at h
      cases h
  · exact h

end sptenmat

end Pyttb
