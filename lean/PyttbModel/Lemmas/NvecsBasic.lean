/-
Basic facts for C14: entries of the list-matrix primitives of Alg/Nvecs.lean, list sums over
`List.range` as `Finset` sums, and the index bookkeeping of "mode n first, the other modes in
increasing order" (`insAt`, `complDims N [n]`).
-/
import PyttbModel.Alg.Nvecs
import PyttbModel.Spec.Nvecs
import PyttbModel.Lemmas.Perm
import PyttbModel.Lemmas.Arr
import Mathlib.Algebra.BigOperators.Ring.Finset
import Mathlib.Algebra.BigOperators.Group.Finset.Sigma
import Mathlib.Algebra.BigOperators.Ring.List
import Mathlib.Tactic.Ring
namespace Pyttb

open Finset

variable {α : Type}

/-! ### list sums as Finset sums -/

theorem sum_map_range [AddCommMonoid α] (f : Nat → α) (n : Nat) :
    ((List.range n).map f).sum = ∑ i ∈ range n, f i := by
  induction n with
  | zero => simp
  | succ n ih => rw [List.sum_range_succ, Finset.sum_range_succ, ih]

theorem prod_map_range [CommMonoid α] (f : Nat → α) (n : Nat) :
    ((List.range n).map f).prod = ∏ i ∈ range n, f i := by
  induction n with
  | zero => simp
  | succ n ih => rw [List.range_succ, List.map_append, List.prod_append, Finset.prod_range_succ, ih]; simp

theorem sum_map_allSubs [AddCommMonoid α] (s : List Nat) (f : List Nat → α) :
    ((allSubs s).map f).sum = ∑ c ∈ range (numel s), f (ind2sub s c) := by
  unfold allSubs
  rw [List.map_map, sum_map_range]
  rfl

/-! ### `getD` of mapped ranges -/

theorem getD_map_range {β : Type} (f : Nat → β) (n k : Nat) (d : β) (hk : k < n) :
    ((List.range n).map f).getD k d = f k := by
  simp [List.getD_eq_getElem?_getD, hk]

theorem getD_map {β γ : Type} (f : β → γ) (l : List β) (k : Nat) (d : β) (e : γ) (hk : k < l.length) :
    (l.map f).getD k e = f (l.getD k d) := by
  simp [List.getD_eq_getElem?_getD, hk]

/-! ### `dot`, `matMulT`, `transposeN`, `hadamard` entry-wise -/

theorem dot_eq_sum [Semiring α] (u v : List α) (n : Nat) (hu : u.length = n) (hv : v.length = n) :
    dot u v = ∑ c ∈ range n, u.getD c 0 * v.getD c 0 := by
  rw [← sum_map_range]
  unfold dot
  congr 1
  apply List.ext_getElem
  · simp [hu, hv]
  · intro k h1 h2
    simp only [List.length_zipWith, hu, hv, Nat.min_self] at h1
    simp [List.getD_eq_getElem?_getD, hu, hv, h1]

theorem Mat.get_eq_getD [Zero α] (A : Mat α) (i j : Nat) : A.get i j = (A.getD i []).getD j 0 := rfl

theorem getD_row_length {A : Mat α} {c : Nat} (h : ∀ row ∈ A, row.length = c) (i : Nat) (hi : i < A.length) :
    (A.getD i []).length = c := by
  rw [List.getD_eq_getElem?_getD, List.getElem?_eq_getElem hi]
  exact h _ (List.getElem_mem hi)

theorem length_matMulT [Add α] [Mul α] [Zero α] (A B : Mat α) : (matMulT A B).length = A.length := by
  simp [matMulT]

theorem rows_matMulT [Add α] [Mul α] [Zero α] (A B : Mat α) :
    ∀ row ∈ matMulT A B, row.length = B.length := by
  intro row h
  simp only [matMulT, List.mem_map] at h
  obtain ⟨ra, _, rfl⟩ := h
  simp

theorem get_matMulT [Add α] [Mul α] [Zero α] (A B : Mat α) (i j : Nat) (hi : i < A.length) (hj : j < B.length) :
    (matMulT A B).get i j = dot (A.getD i []) (B.getD j []) := by
  unfold matMulT Mat.get
  rw [getD_map (d := []) _ _ _ _ hi, getD_map (d := []) _ _ _ _ hj]

theorem length_transposeN [Zero α] (A : Mat α) (c : Nat) : (transposeN A c).length = c := by
  simp [transposeN]

theorem rows_transposeN [Zero α] (A : Mat α) (c : Nat) : ∀ row ∈ transposeN A c, row.length = A.length := by
  intro row h
  simp only [transposeN, List.mem_map] at h
  obtain ⟨j, _, rfl⟩ := h
  simp

theorem getD_transposeN [Zero α] (A : Mat α) (c j : Nat) (hj : j < c) :
    (transposeN A c).getD j [] = A.map fun row => row.getD j 0 := by
  unfold transposeN
  rw [getD_map_range _ _ _ _ hj]

theorem get_transposeN [Zero α] (A : Mat α) (c j i : Nat) (hj : j < c) (hi : i < A.length) :
    (transposeN A c).get j i = A.get i j := by
  unfold Mat.get
  rw [getD_transposeN A c j hj, getD_map (d := []) _ _ _ _ hi]

/-- `(A @ B.T)[i, j] = Σ_c A[i, c] B[j, c]` for matrices with `n` columns. -/
theorem get_matMulT_sum [Semiring α] (A B : Mat α) (n i j : Nat) (hA : ∀ row ∈ A, row.length = n)
    (hB : ∀ row ∈ B, row.length = n) (hi : i < A.length) (hj : j < B.length) :
    (matMulT A B).get i j = ∑ c ∈ range n, A.get i c * B.get j c := by
  rw [get_matMulT A B i j hi hj, dot_eq_sum _ _ n (getD_row_length hA i hi) (getD_row_length hB j hj)]
  rfl

/-- `(A @ B)[i, j] = Σ_c A[i, c] B[c, j]` for `A` with `B.length` columns and `B` with `c` columns. -/
theorem get_matMulN_sum [Semiring α] (A B : Mat α) (cB i j : Nat) (hA : ∀ row ∈ A, row.length = B.length)
    (hi : i < A.length) (hj : j < cB) :
    (matMulN A B cB).get i j = ∑ c ∈ range B.length, A.get i c * B.get c j := by
  unfold matMulN
  rw [get_matMulT_sum A (transposeN B cB) B.length i j hA (rows_transposeN B cB) hi
    (by rw [length_transposeN]; exact hj)]
  apply Finset.sum_congr rfl
  intro c hc
  rw [get_transposeN B cB j c hj (Finset.mem_range.1 hc)]

theorem length_matMulN [Add α] [Mul α] [Zero α] (A B : Mat α) (c : Nat) : (matMulN A B c).length = A.length := by
  simp [matMulN, length_matMulT]

theorem rows_matMulN [Add α] [Mul α] [Zero α] (A B : Mat α) (c : Nat) :
    ∀ row ∈ matMulN A B c, row.length = c := by
  intro row h
  have := rows_matMulT A (transposeN B c) row h
  rwa [length_transposeN] at this

theorem length_hadamard [Mul α] (A B : Mat α) (h : A.length = B.length) : (hadamard A B).length = A.length := by
  simp [hadamard, h]

theorem rows_hadamard [Mul α] (A B : Mat α) (c : Nat) (hA : ∀ row ∈ A, row.length = c)
    (hB : ∀ row ∈ B, row.length = c) : ∀ row ∈ hadamard A B, row.length = c := by
  intro row h
  unfold hadamard at h
  rw [List.mem_iff_getElem] at h
  obtain ⟨k, hk, rfl⟩ := h
  simp only [List.length_zipWith] at hk
  simp only [List.getElem_zipWith, List.length_zipWith]
  rw [hA _ (List.getElem_mem _), hB _ (List.getElem_mem _)]
  simp

theorem get_hadamard [MulZeroClass α] (A B : Mat α) (i j : Nat) (hiA : i < A.length) (hiB : i < B.length)
    (hjA : j < (A.getD i []).length) (hjB : j < (B.getD i []).length) :
    (hadamard A B).get i j = A.get i j * B.get i j := by
  unfold hadamard Mat.get
  simp only [List.getD_eq_getElem?_getD] at *
  simp only [List.getElem?_eq_getElem hiA, List.getElem?_eq_getElem hiB, Option.getD_some] at hjA hjB ⊢
  have hi : i < (List.zipWith (fun ra rb => List.zipWith (· * ·) ra rb) A B).length := by
    simp [hiA, hiB]
  rw [List.getElem?_eq_getElem hi]
  simp only [List.getElem_zipWith, Option.getD_some]
  have hj : j < (List.zipWith (· * ·) A[i] B[i]).length := by simp [hjA, hjB]
  rw [List.getElem?_eq_getElem hj, List.getElem?_eq_getElem hjA, List.getElem?_eq_getElem hjB]
  simp

/-! ### a 2-way dense array as rows -/

theorem length_toMat [Zero α] (D : Dense α) : D.toMat.length = D.shape.getD 0 0 := by simp [Dense.toMat]

theorem rows_toMat [Zero α] (D : Dense α) : ∀ row ∈ D.toMat, row.length = D.shape.getD 1 0 := by
  intro row h
  simp only [Dense.toMat, List.mem_map] at h
  obtain ⟨a, _, rfl⟩ := h
  simp

theorem get_toMat [Zero α] (D : Dense α) (a c : Nat) (ha : a < D.shape.getD 0 0) (hc : c < D.shape.getD 1 0) :
    D.toMat.get a c = D.get [a, c] := by
  unfold Dense.toMat Mat.get
  rw [getD_map_range _ _ _ _ ha, getD_map_range _ _ _ _ hc]

/-! ### mode `n` first, the other modes in increasing order -/

theorem complDims_single (N n : Nat) (hn : n < N) :
    complDims N [n] = List.range n ++ List.range' (n + 1) (N - n - 1) := by
  unfold complDims
  have hsplit : List.range N = List.range' 0 n ++ (List.range' n 1 ++ List.range' (n + 1) (N - n - 1)) := by
    rw [List.range_eq_range']
    have h1 : List.range' n 1 ++ List.range' (n + 1) (N - n - 1) = List.range' n (1 + (N - n - 1)) := by
      have := @List.range'_append n 1 (N - n - 1) 1
      simpa using this
    rw [h1]
    have h2 := @List.range'_append 0 n (1 + (N - n - 1)) 1
    simp only [Nat.zero_add, Nat.one_mul] at h2
    rw [h2]
    congr 1
    omega
  rw [hsplit, List.filter_append, List.filter_append, ← List.range_eq_range']
  have e1 : (List.range n).filter (fun k => !([n].contains k)) = List.range n := by
    rw [List.filter_eq_self]
    intro k hk
    have : k ≠ n := by have := List.mem_range.1 hk; omega
    simp [this]
  have e2 : (List.range' n 1).filter (fun k => !([n].contains k)) = [] := by simp
  have e3 : (List.range' (n + 1) (N - n - 1)).filter (fun k => !([n].contains k)) =
      List.range' (n + 1) (N - n - 1) := by
    rw [List.filter_eq_self]
    intro k hk
    have : k ≠ n := by have := (List.mem_range'_1.1 hk).1; omega
    simp [this]
  rw [e1, e2, e3]
  simp

theorem gather_range_take (l : List Nat) (n : Nat) (hn : n ≤ l.length) : gather l (List.range n) = l.take n := by
  apply List.ext_getElem
  · simp [hn]
  · intro k h1 h2
    simp only [length_gather, List.length_range] at h1
    simp [gather, List.getD_eq_getElem?_getD, Nat.lt_of_lt_of_le h1 hn]

theorem gather_range'_drop (l : List Nat) (n : Nat) (hn : n ≤ l.length) :
    gather l (List.range' n (l.length - n)) = l.drop n := by
  apply List.ext_getElem
  · simp
  · intro k h1 h2
    simp only [length_gather, List.length_range'] at h1
    have : n + k < l.length := by omega
    simp [gather, List.getD_eq_getElem?_getD, this]

/-- gathering the modes other than `n` drops position `n`. -/
theorem gather_complDims (l : List Nat) (n : Nat) (hn : n < l.length) :
    gather l (complDims l.length [n]) = l.eraseIdx n := by
  rw [complDims_single _ _ hn, gather_append, gather_range_take l n (Nat.le_of_lt hn),
    List.eraseIdx_eq_take_drop_succ]
  congr 1
  have := gather_range'_drop l (n + 1) hn
  rwa [show l.length - (n + 1) = l.length - n - 1 by omega] at this

theorem length_insAt (j : List Nat) (n a : Nat) (hn : n ≤ j.length) : (insAt j n a).length = j.length + 1 := by
  simp [insAt]; omega

theorem getD_insAt_self (j : List Nat) (n a : Nat) (hn : n ≤ j.length) : (insAt j n a).getD n 0 = a := by
  unfold insAt
  rw [List.getD_eq_getElem?_getD, List.getElem?_append_right (by simp [hn])]
  simp [hn]

theorem eraseIdx_insAt (j : List Nat) (n a : Nat) (hn : n ≤ j.length) : (insAt j n a).eraseIdx n = j := by
  unfold insAt
  have h1 : (j.take n).length = n := by simp [hn]
  rw [List.eraseIdx_append_of_length_le (by omega), h1, Nat.sub_self]
  simp

end Pyttb
