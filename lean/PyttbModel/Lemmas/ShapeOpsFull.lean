/-
Proofs for property C07, third part: expanding a sparse / Kruskal / Tucker holder to a dense tensor
commutes with `permute` (and, for sparse, with `reshape`).  Uses the expansion theorems of C01
(`sp_full_at`, `kruskal_full`) and of C02 (`ML.tucker_full_spec`).
-/
import PyttbModel.Lemmas.ShapeOpsAgree
import PyttbModel.Lemmas.ConvertSparse
import PyttbModel.Lemmas.ConvertKruskal
import PyttbModel.Lemmas.MLTucker
namespace Pyttb

variable {α : Type}

/-- a well-formed dense tensor that denotes the permuted array of `D` is `D.permute p`. -/
theorem Dense.permute_of_same [Zero α] (D D' : Dense α) (p : List Nat) (hD : D.WF) (hD' : D'.WF)
    (hp : isPermOf p D.shape.length = true) (h : D'.den.Same (Spec.permute D.den p)) :
    D.permute p = .ok D' := by
  rw [Dense.permute_eq_transpose D p hD hp]
  congr 1
  have hs : D'.shape = gather D.shape p := h.shape
  apply Dense.ext_get (Dense.transpose_WF _ _) hD' hs.symm
  intro i hi
  rw [Dense.transpose_get _ _ hi]
  exact (h.get i (by show InBounds D'.shape i; rw [hs]; exact hi)).symm

/-- a well-formed dense tensor that denotes the reshaped array of `D` is `D.reshape s'`. -/
theorem Dense.reshape_of_same [Zero α] (D D' : Dense α) (s' : List Nat) (hD : D.WF) (hD' : D'.WF)
    (hn : numel s' = numel D.shape) (h : D'.den.Same (Spec.reshape D.den s')) :
    D.reshape s' = .ok D' := by
  obtain ⟨P, e, hP, hs⟩ := reshape_den_dense D s' hD hn
  rw [e]
  congr 1
  apply Dense.ext_get hP hD' (hs.shape.trans h.shape.symm)
  intro i hi
  have h1 := hs.get i hi
  have h2 := h.get i (by
    show InBounds D'.shape i
    have : D'.shape = P.shape := h.shape.trans hs.shape.symm
    rw [this]; exact hi)
  exact h1.trans h2.symm

/-! ### sparse -/

theorem permute_full_sparse [AddMonoid α] [DecidableEq α] (S : Sparse α) (p : List Nat) (hS : S.WF)
    (hp : isPermOf p S.shape.length = true) :
    ∃ P, S.permute p = .ok P ∧ P.WF ∧ S.full.permute p = .ok P.full := by
  have hl := isPermOf_length_eq hp
  have hlen : ∀ r ∈ S.subs, r.length = S.shape.length := fun r hr => (hS.inb r hr).length_eq
  obtain ⟨P, e, hP⟩ := permute_wf_sparse S p hS hp
  obtain ⟨P', e', hs⟩ := permute_den_sparse S p hp hlen
  rw [e] at e'
  injection e' with e'
  subst e'
  refine ⟨P, e, hP, ?_⟩
  have hPs : P.shape = gather S.shape p := hs.shape
  apply Dense.permute_of_same S.full P.full p (Dense.ofFn_WF _ _) (Dense.ofFn_WF _ _) hp
  refine ⟨hPs, ?_⟩
  intro j hj
  have hj' : InBounds P.shape j := hj
  show P.full.get j = S.full.get (gather j (invPerm p))
  rw [(sp_full_at P hP j hj').1, (sp_full_at S hS _ (inBounds_unperm hp (by rw [← hPs]; exact hj'))).1]
  exact hs.get j hj'

theorem reshape_full_sparse [AddMonoid α] [DecidableEq α] (S : Sparse α) (s' : List Nat) (hS : S.WF)
    (hn : numel s' = numel S.shape) :
    ∃ P, S.reshape s' none = .ok P ∧ P.WF ∧ S.full.reshape s' = .ok P.full := by
  obtain ⟨P, e, hP⟩ := reshape_all_wf_sparse S s' hS hn
  obtain ⟨P', e', hs⟩ := reshape_den_sparse S s' hS hn
  rw [e] at e'
  injection e' with e'
  subst e'
  refine ⟨P, e, hP, ?_⟩
  have hPs : P.shape = s' := hs.shape
  apply Dense.reshape_of_same S.full P.full s' (Dense.ofFn_WF _ _) (Dense.ofFn_WF _ _) hn
  refine ⟨hPs, ?_⟩
  intro j hj
  have hj' : InBounds P.shape j := hj
  show P.full.get j = S.full.get (ind2sub S.shape (sub2ind s' j))
  have hlt : sub2ind s' j < numel S.shape := by rw [← hn]; exact sub2ind_lt (by rw [← hPs]; exact hj')
  rw [(sp_full_at P hP j hj').1, (sp_full_at S hS _ (ind2sub_inBounds hlt)).1]
  exact hs.get j hj'

/-! ### Kruskal -/

/-- `ktensor.full()` with the entries stated for all subscripts at once (positive extents: the
model's list-of-rows matrices do not carry a column count when there is no row). -/
theorem kruskal_full_all [CommSemiring α] (K : Ktensor α) (hK : K.WF) (hN : 1 ≤ K.factors.length)
    (hpos : ∀ e ∈ K.shape, 1 ≤ e) :
    ∃ D, K.full = .ok D ∧ D.shape = K.shape ∧ D.WF ∧ ∀ i, InBounds K.shape i → D.get i = K.get i := by
  obtain ⟨D, e, hs, hw, _⟩ := kruskal_full K hK hN _ (inBounds_zeros_of_pos hpos)
  refine ⟨D, e, hs, hw, ?_⟩
  intro i hi
  obtain ⟨D', e', _, _, h⟩ := kruskal_full K hK hN i hi
  rw [e] at e'
  injection e' with e'
  subst e'
  exact h

theorem permute_wf_ktensor (K : Ktensor α) (p : List Nat) (hK : K.WF) :
    (⟨K.weights, gatherD K.factors p []⟩ : Ktensor α).WF := by
  intro A hA row hrow
  simp only [gatherD, List.mem_map] at hA
  obtain ⟨k, _, rfl⟩ := hA
  by_cases hk : k < K.factors.length
  · apply hK (K.factors.getD k []) _ row hrow
    rw [List.getD_eq_getElem?_getD, List.getElem?_eq_getElem hk]
    exact List.getElem_mem hk
  · have : K.factors.getD k [] = [] := by
      simp [List.getD_eq_getElem?_getD, List.getElem?_eq_none (by omega : K.factors.length ≤ k)]
    rw [this] at hrow
    simp at hrow

theorem permute_full_ktensor [CommSemiring α] (K : Ktensor α) (p : List Nat) (hK : K.WF)
    (hN : 1 ≤ K.factors.length) (hpos : ∀ e ∈ K.shape, 1 ≤ e)
    (hp : isPermOf p K.factors.length = true) :
    ∃ P D D', K.permute p = .ok P ∧ K.full = .ok D ∧ P.full = .ok D' ∧ D.permute p = .ok D' := by
  have hl := isPermOf_length_eq hp
  obtain ⟨P, e, hs⟩ := permute_den_ktensor K p hp
  have hPeq : P = ⟨K.weights, gatherD K.factors p []⟩ := by
    have : K.permute p = .ok ⟨K.weights, gatherD K.factors p []⟩ := by simp [Ktensor.permute, hp]
    rw [e] at this
    injection this
  have hPwf : P.WF := by rw [hPeq]; exact permute_wf_ktensor K p hK
  have hPlen : P.factors.length = K.factors.length := by rw [hPeq]; simp [length_gatherD, hl]
  have hPs : P.shape = gather K.shape p := hs.shape
  have hpK : isPermOf p K.shape.length = true := by simpa [Ktensor.shape] using hp
  have hPpos : ∀ e ∈ P.shape, 1 ≤ e := by
    intro x hx
    rw [hPs] at hx
    obtain ⟨k, hk, rfl⟩ := mem_gather.1 hx
    exact hpos _ (getD0_mem _ _ (isPermOf_lt_of_mem hpK hk))
  obtain ⟨D, eD, hDs, hDw, hDg⟩ := kruskal_full_all K hK hN hpos
  obtain ⟨D', eD', hDs', hDw', hDg'⟩ := kruskal_full_all P hPwf (by omega) hPpos
  refine ⟨P, D, D', e, eD, eD', ?_⟩
  apply Dense.permute_of_same D D' p hDw hDw' (by rw [hDs]; exact hpK)
  refine ⟨by show D'.shape = gather D.shape p; rw [hDs', hPs, hDs], ?_⟩
  intro j hj
  have hj' : InBounds P.shape j := by rw [← hDs']; exact hj
  show D'.get j = D.get (gather j (invPerm p))
  rw [hDg' j hj', hDg _ (inBounds_unperm hpK (by rw [← hPs]; exact hj'))]
  exact hs.get j hj'

/-! ### Tucker -/

/-- permuting a well-formed Tucker tensor gives a well-formed Tucker tensor. -/
theorem permute_wf_ttensor [Zero α] (T : Ttensor α) (p : List Nat) (hT : ML.TuckerWF T)
    (hp : isPermOf p T.factors.length = true) :
    ∃ P, T.permute p = .ok P ∧ ML.TuckerWF P := by
  have hl := isPermOf_length_eq hp
  refine ⟨_, Ttensor.permute_eq T p hT.core hT.len hp, Dense.transpose_WF _ _, ?_, ?_⟩
  · simp [length_gatherD, Dense.transpose_shape]
  · intro d hd
    have hd' : d < p.length := by simpa [length_gatherD] using hd
    show ((gatherD T.factors p []).getD d []).ncols = (gather T.core.shape p).getD d 0
    rw [getD_gatherD _ _ _ _ hd', getD_gather _ _ _ hd']
    exact hT.cols _ (isPermOf_getD_lt hp (by omega))

theorem permute_full_ttensor [CommSemiring α] (T : Ttensor α) (p : List Nat) (hT : ML.TuckerWF T)
    (hN : 1 ≤ T.factors.length) (hp : isPermOf p T.factors.length = true) :
    ∃ P D D', T.permute p = .ok P ∧ T.full = .ok D ∧ P.full = .ok D' ∧ D.permute p = .ok D' := by
  have hl := isPermOf_length_eq hp
  obtain ⟨P, e, hPwf⟩ := permute_wf_ttensor T p hT hp
  obtain ⟨P', e', hs⟩ := permute_den_ttensor T p hT.core hT.len hp
  rw [e] at e'
  injection e' with e'
  subst e'
  have hPlen : P.factors.length = T.factors.length := by
    have := Ttensor.permute_eq T p hT.core hT.len hp
    rw [e] at this
    injection this with this
    rw [this]; simp [length_gatherD, hl]
  have hPs : P.shape = gather T.shape p := hs.shape
  have hpT : isPermOf p T.shape.length = true := by simpa [Ttensor.shape] using hp
  obtain ⟨D, eD, hDs, hDw, hDg⟩ := ML.tucker_full_spec T hT hN
  obtain ⟨D', eD', hDs', hDw', hDg'⟩ := ML.tucker_full_spec P hPwf (by omega)
  refine ⟨P, D, D', e, eD, eD', ?_⟩
  apply Dense.permute_of_same D D' p hDw hDw' (by rw [hDs]; exact hpT)
  refine ⟨by show D'.shape = gather D.shape p; rw [hDs', hPs, hDs], ?_⟩
  intro j hj
  have hj' : InBounds D'.shape j := hj
  show D'.get j = D.get (gather j (invPerm p))
  rw [hDg' j hj', hDg _ (by rw [hDs]; exact inBounds_unperm hpT (by rw [← hPs, ← hDs']; exact hj'))]
  exact hs.get j (by show InBounds P.shape j; rw [← hDs']; exact hj')

end Pyttb
