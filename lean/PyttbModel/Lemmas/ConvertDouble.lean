/-
C01, second batch: `double()` / `to_tensor()` of every class give the array of `full()`.
The separate implementations are `sptensor.double` (direct scatter by subscript) and
`sptenmat.double` (SciPy COO matrix: values stored under one pair add up); the others go
through `full()`.
-/
import PyttbModel.Lemmas.ConvertGeneric
import PyttbModel.Lemmas.MLSumFull
namespace Pyttb
variable {α : Type}

/-! ### sequential scatter = last write wins -/

theorem length_scatterLin (d : List α) (es : List (Nat × α)) : (scatterLin d es).length = d.length := by
  unfold scatterLin
  induction es generalizing d with
  | nil => rfl
  | cons e es ih => rw [List.foldl_cons, ih, List.length_set]

theorem getD_set_c01 (d : List α) (j k : Nat) (v z : α) (hj : j < d.length) :
    (d.set j v).getD k z = if j = k then v else d.getD k z := by
  simp only [List.getD_eq_getElem?_getD, List.getElem?_set]
  split
  · simp [hj]
  · rfl

/-- after the writes, cell `k` holds the value of the last write to `k`, or what it held. -/
theorem getD_scatterLin (d : List α) (es : List (Nat × α)) (k : Nat) (z : α)
    (hes : ∀ e ∈ es, e.1 < d.length) :
    (scatterLin d es).getD k z =
      match es.reverse.find? (fun e => e.1 == k) with
      | some e => e.2
      | none => d.getD k z := by
  induction es generalizing d with
  | nil => rfl
  | cons e es ih =>
    have he : e.1 < d.length := hes e List.mem_cons_self
    have hes' : ∀ e' ∈ es, e'.1 < (d.set e.1 e.2).length := by
      intro e' h'; rw [List.length_set]; exact hes e' (List.mem_cons_of_mem _ h')
    have h1 : scatterLin d (e :: es) = scatterLin (d.set e.1 e.2) es := rfl
    rw [h1, ih _ hes', List.reverse_cons, List.find?_append]
    cases es.reverse.find? (fun e => e.1 == k) with
    | some e' => rfl
    | none =>
      simp only [Option.none_or, List.find?_cons, List.find?_nil]
      rw [getD_set_c01 d e.1 k e.2 z he]
      by_cases hk : e.1 = k
      · simp [hk]
      · have : (e.1 == k) = false := by simpa using hk
        simp [hk, this]

/-! ### `sptensor.double()` -/

theorem find?_rekey [Zero α] (es : List (List Nat × α)) (s : List Nat) (k : Nat) (hk : k < numel s)
    (hes : ∀ e ∈ es, InBounds s e.1) :
    ((es.map fun e => (sub2ind s e.1, e.2)).find? (fun e => e.1 == k)).map (·.2) =
      (es.find? (fun e => e.1 == ind2sub s k)).map (·.2) := by
  induction es with
  | nil => rfl
  | cons e es ih =>
    have hb := hes e List.mem_cons_self
    have ih' := ih (fun e' h' => hes e' (List.mem_cons_of_mem _ h'))
    simp only [List.map_cons, List.find?_cons]
    by_cases h : sub2ind s e.1 = k
    · have h2 : e.1 = ind2sub s k := by rw [← h, ind2sub_sub2ind hb]
      have b1 : (sub2ind s e.1 == k) = true := by simpa using h
      have b2 : (e.1 == ind2sub s k) = true := by simpa using h2
      simp only [b1, b2, Option.map_some]
    · have h2 : e.1 ≠ ind2sub s k := by
        intro h'; apply h; rw [h', sub2ind_ind2sub hk]
      have b1 : (sub2ind s e.1 == k) = false := by simpa using h
      have b2 : (e.1 == ind2sub s k) = false := by simpa using h2
      simp only [b1, b2]
      exact ih'

/-- the scatter of `sptensor.double()` leaves the array `sptensor.full()` builds. -/
theorem sp_scatter_eq_full [Zero α] (S : Sparse α) (hin : ∀ i ∈ S.subs, InBounds S.shape i) :
    (⟨S.shape, scatterLin (List.replicate (numel S.shape) (0 : α))
        (S.entries.map fun e => (sub2ind S.shape e.1, e.2))⟩ : Dense α) = S.full := by
  have hes : ∀ e ∈ S.entries, InBounds S.shape e.1 := fun e he =>
    hin e.1 (List.of_mem_zip (a := e.1) (b := e.2) he).1
  rw [Sparse.full_eq]
  unfold Dense.ofFn
  congr 1
  apply List.ext_getElem
  · rw [length_scatterLin, List.length_replicate, List.length_map, length_allSubs]
  · intro k h1 h2
    rw [length_scatterLin, List.length_replicate] at h1
    have hL : ∀ e ∈ S.entries.map (fun e => (sub2ind S.shape e.1, e.2)),
        e.1 < (List.replicate (numel S.shape) (0 : α)).length := by
      intro e he
      obtain ⟨e', he', rfl⟩ := List.mem_map.1 he
      rw [List.length_replicate]
      exact sub2ind_lt (hes e' he')
    have hg := getD_scatterLin (List.replicate (numel S.shape) (0 : α))
      (S.entries.map fun e => (sub2ind S.shape e.1, e.2)) k 0 hL
    have hlhs : (scatterLin (List.replicate (numel S.shape) (0 : α))
        (S.entries.map fun e => (sub2ind S.shape e.1, e.2)))[k] =
        (scatterLin (List.replicate (numel S.shape) (0 : α))
          (S.entries.map fun e => (sub2ind S.shape e.1, e.2))).getD k 0 := by
      simp [List.getD_eq_getElem?_getD, List.getElem?_eq_getElem, length_scatterLin, h1]
    rw [hlhs, hg, List.getElem_map]
    have hsub : (allSubs S.shape)[k]'(by rw [length_allSubs]; exact h1) = ind2sub S.shape k := by
      simp [allSubs]
    rw [hsub]
    unfold kvLast
    have hrk := find?_rekey S.entries.reverse S.shape k h1
      (fun e he => hes e (List.mem_reverse.1 he))
    rw [← List.map_reverse]
    have hz : (List.replicate (numel S.shape) (0 : α)).getD k 0 = 0 := by
      simp [List.getD_eq_getElem?_getD, List.getElem?_replicate, h1]
    cases h3 : (S.entries.reverse.map fun e => (sub2ind S.shape e.1, e.2)).find? (fun e => e.1 == k) with
    | none =>
      rw [h3] at hrk
      cases h4 : S.entries.reverse.find? (fun e => e.1 == ind2sub S.shape k) with
      | none => simp only [hz]
      | some e' => rw [h4] at hrk; cases hrk
    | some e =>
      rw [h3] at hrk
      cases h4 : S.entries.reverse.find? (fun e => e.1 == ind2sub S.shape k) with
      | none => rw [h4] at hrk; cases hrk
      | some e' =>
        rw [h4] at hrk
        simp only [Option.map_some, Option.some.injEq] at hrk
        simp only [hrk]

/-- **`sptensor.double()`** of a sparse tensor whose stored subscripts lie inside the shape (one
value per subscript; repeated subscripts allowed): exactly the array of `full()`. -/
theorem sp_double_eq_full [Zero α] (S : Sparse α) (hin : ∀ i ∈ S.subs, InBounds S.shape i)
    (hlen : S.subs.length = S.vals.length) : S.double = .ok S.full := by
  unfold Sparse.double
  simp only
  by_cases he : S.subs.isEmpty = true
  · rw [if_pos he]
    have hnil : S.subs = [] := by simpa using he
    have := sp_scatter_eq_full S hin
    have hent : S.entries = [] := by simp [Sparse.entries, hnil]
    rw [hent] at this
    exact congrArg Except.ok this
  · rw [if_neg he]
    have h1 : (S.subs.length != S.vals.length) = false := by simp [hlen]
    have h2 : (!(S.subs.all (inBounds S.shape))) = false := by
      simp only [Bool.not_eq_false', List.all_eq_true]
      intro i hi
      exact (inBounds_iff _ _).2 (hin i hi)
    simp only [h1, h2, Bool.false_eq_true, if_false]
    exact congrArg Except.ok (sp_scatter_eq_full S hin)

/-- a subscript outside the shape is refused (NumPy's `IndexError`). -/
theorem sp_double_rejects [Zero α] (S : Sparse α) (i : List Nat) (hi : i ∈ S.subs)
    (hout : ¬ InBounds S.shape i) : S.double = .error .reject := by
  unfold Sparse.double
  simp only
  have he : S.subs.isEmpty = false := by
    cases h : S.subs with
    | nil => rw [h] at hi; cases hi
    | cons _ _ => rfl
  rw [he]
  simp only [Bool.false_eq_true, if_false]
  split
  · rfl
  · have : (!(S.subs.all (inBounds S.shape))) = true := by
      simp only [Bool.not_eq_true', List.all_eq_false]
      exact ⟨i, hi, by rw [inBounds_iff]; exact hout⟩
    simp [this]

/-! ### `sptenmat.double()` -/

/-- **`sptenmat.double()`** (the COO matrix seen as a dense matrix) of a well-formed `sptenmat` of
a tensor with at least one mode: exactly the matrix of `full()`. -/
theorem sptenmat_double_eq_full [AddCommMonoid α] [DecidableEq α] (M : Sptenmat α) (hM : M.WF)
    (hN : 1 ≤ M.tshape.length) : M.double = .ok M.full.data := by
  unfold Sptenmat.double
  have : M.tshape.isEmpty = false := by
    cases h : M.tshape with
    | nil => rw [h] at hN; simp at hN
    | cons _ _ => rfl
  simp only [this, Bool.false_eq_true, if_false]
  congr 1
  unfold Sptenmat.full
  simp only
  rw [Sparse.full_eq]
  unfold Dense.ofFn
  congr 1
  apply List.map_congr_left
  intro i _
  have hk := Sparse.entries_keys (⟨M.mshape, M.subs, M.vals⟩ : Sparse α) hM.mat.len
  have hn : ((Sparse.entries (⟨M.mshape, M.subs, M.vals⟩ : Sparse α)).map (·.1)).Nodup := by
    rw [hk]; exact hM.mat.nodup
  exact (kvLast_eq_kvSum _ i hn).symm

/-! ### the synonyms that go through `full()` -/

theorem Dense.double_eq (T : Dense α) : T.double = T := rfl
theorem Dense.fullCopy_eq (T : Dense α) : T.fullCopy = T := rfl
theorem Tenmat.double_eq (M : Tenmat α) : M.double = M.data := rfl

theorem Ktensor.double_eq_full [Add α] [Mul α] [Zero α] (K : Ktensor α) : K.double = K.full := by
  unfold Ktensor.double
  cases K.full with
  | error e => rfl
  | ok D => rfl

theorem Ttensor.double_eq_full [Add α] [Mul α] [Zero α] (T : Ttensor α) : T.double = T.full := by
  unfold Ttensor.double
  cases T.full with
  | error e => rfl
  | ok D => rfl

theorem Sumtensor.double_eq_full [Add α] [Mul α] [Zero α] (S : ML.Sumtensor α) :
    ML.Sumtensor.double S = ML.Sumtensor.full S := by
  unfold ML.Sumtensor.double
  cases ML.Sumtensor.full S with
  | error e => rfl
  | ok D => rfl

end Pyttb
