import PyttbModel.Core.Arr
import PyttbModel.Lemmas.Idx
namespace Pyttb
namespace Dense
variable {α : Type}

@[simp] theorem ofFn_shape (s : List Nat) (f : List Nat → α) : (ofFn s f).shape = s := rfl

theorem ofFn_WF (s : List Nat) (f : List Nat → α) : (ofFn s f).WF := by
  simp [WF, ofFn, length_allSubs]

/-- Tabulation and lookup: inside the shape, `ofFn s f` returns `f`. -/
theorem ofFn_get [Zero α] (s : List Nat) (f : List Nat → α) {i : List Nat} (h : InBounds s i) :
    (ofFn s f).get i = f i := by
  have hl : sub2ind s i < (allSubs s).length := by rw [length_allSubs]; exact sub2ind_lt h
  simp only [get, ofFn, List.getD_eq_getElem?_getD, List.getElem?_map]
  rw [List.getElem?_eq_getElem hl, getElem_allSubs h]
  rfl

/-- The data list of a well-formed tensor is the tabulation of its entries. -/
theorem data_eq_map_get [Zero α] (T : Dense α) (h : T.WF) :
    T.data = (allSubs T.shape).map T.get := by
  apply List.ext_getElem
  · simp only [List.length_map, length_allSubs]
    exact h
  · intro n h1 h2
    simp only [List.length_map, length_allSubs] at h2
    simp only [List.getElem_map, get, allSubs, List.getElem_range, sub2ind_ind2sub h2]
    rw [List.getD_eq_getElem?_getD, List.getElem?_eq_getElem h1]
    rfl

theorem ofFn_get_self [Zero α] (T : Dense α) (h : T.WF) : ofFn T.shape T.get = T := by
  cases T with
  | mk s d =>
    have := data_eq_map_get ⟨s, d⟩ h
    simp only [ofFn] at *
    rw [← this]

/-- Extensionality: well-formed tensors of the same shape that agree on every in-bounds
subscript are equal. -/
theorem ext_get [Zero α] {A B : Dense α} (hA : A.WF) (hB : B.WF) (hs : A.shape = B.shape)
    (h : ∀ i, InBounds A.shape i → A.get i = B.get i) : A = B := by
  rw [← ofFn_get_self A hA, ← ofFn_get_self B hB, ← hs]
  simp only [ofFn]
  congr 1
  apply List.map_congr_left
  intro i hi
  exact h i (mem_allSubs.1 hi)

end Dense
end Pyttb
