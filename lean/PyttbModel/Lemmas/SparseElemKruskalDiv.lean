/-
C03: `sptensor / ktensor` as coded (Ops/SparseElemKruskal.lean): stored pattern of the sparse
operand, each stored value divided by `max eps K[j]`; the conditions under which that is the
dense quotient; rejects.
-/
import PyttbModel.Ops.SparseElemKruskal
import PyttbModel.Lemmas.SparseElemKruskal
import PyttbModel.Lemmas.SparseElemDiv
namespace Pyttb
open SpElem
variable {α : Type}

section raw
variable [AddMonoid α] [Mul α] [One α] [Div α] [Max α] [DecidableEq α]

/-- `S / K` as coded, in terms of the divisor the component loop accumulates. -/
theorem divK_raw_spec (eps : α) (A : Sparse α) (hA : A.WF) (K : Ktensor α) (hs : A.shape = K.shape)
    (hne : A.subs ≠ []) (hnz : ∀ j ∈ A.subs, A.get j / max eps (kentry K j) ≠ 0) :
    ∃ R, divK eps A K = .ok R ∧ R.WF ∧ R.shape = A.shape ∧ R.subs = A.subs ∧
      ∀ i, R.get i = if i ∈ A.subs then A.get i / max eps (kentry K i) else 0 := by
  unfold divK
  have h0 : (A.nnz == 0) = false := by
    simp only [Sparse.nnz, beq_eq_false_iff_ne, ne_eq, List.length_eq_zero_iff]; exact hne
  have hb : (A.shape != K.shape) = false := by simp [hs]
  simp only [hb, Bool.false_eq_true, ↓reduceIte, h0]
  have hv : List.zipWith (fun x d => x / max eps d) A.vals (A.subs.map (kentry K))
      = A.subs.map (fun j => A.get j / max eps (kentry K j)) := by
    rw [Sparse.vals_eq_map_get A hA, zipWith_map_map]
  rw [hv]
  refine ⟨_, rfl, ?_, rfl, rfl, fun i => get_tab _ _ _ hA.nodup i⟩
  exact wf_tab _ _ _ hA.nodup hA.inb hnz

omit [DecidableEq α] in
theorem divK_rejects_shape (eps : α) (A : Sparse α) (K : Ktensor α) (hs : A.shape ≠ K.shape) :
    divK eps A K = .error .reject := by
  unfold divK
  have : (A.shape != K.shape) = true := by simpa using hs
  simp [this]

omit [DecidableEq α] in
theorem divK_rejects_empty (eps : α) (A : Sparse α) (K : Ktensor α) (he : A.subs = []) :
    divK eps A K = .error .reject := by
  unfold divK
  split
  · rfl
  · simp [Sparse.nnz, he]

end raw

section semiring
variable [CommSemiring α] [Div α] [Max α] [DecidableEq α]

omit [Div α] [Max α] in
/-- the divisor accumulated by the component loop is the entry of the Kruskal tensor. -/
theorem kentry_eq_get (K : Ktensor α) (j : List Nat) : kentry K j = K.get j := by
  unfold kentry
  rw [foldl_add_eq, zero_add]
  unfold Ktensor.get Ktensor.comp
  congr 1
  apply List.map_congr_left
  intro r _
  rw [foldl_mul_eq, one_mul]

theorem divK_spec (eps : α) (A : Sparse α) (hA : A.WF) (K : Ktensor α) (hs : A.shape = K.shape)
    (hne : A.subs ≠ []) (hnz : ∀ j ∈ A.subs, A.get j / max eps (K.get j) ≠ 0) :
    ∃ R, divK eps A K = .ok R ∧ R.WF ∧ R.shape = A.shape ∧ R.subs = A.subs ∧
      ∀ i, R.get i = if i ∈ A.subs then A.get i / max eps (K.get i) else 0 := by
  have := divK_raw_spec eps A hA K hs hne (by simpa only [kentry_eq_get] using hnz)
  simpa only [kentry_eq_get] using this

/-- where the floor is inactive on the stored subscripts and `0 / K[i] = 0` on the others,
the coded quotient is the dense one. -/
theorem divK_dense (eps : α) (A : Sparse α) (hA : A.WF) (K : Ktensor α) (hs : A.shape = K.shape)
    (hne : A.subs ≠ [])
    (hfloor : ∀ j ∈ A.subs, max eps (K.get j) = K.get j)
    (h0y : ∀ i, InBounds A.shape i → i ∉ A.subs → (0 : α) / K.get i = 0)
    (hnz : ∀ j ∈ A.subs, A.get j / K.get j ≠ 0) :
    ∃ R, divK eps A K = .ok R ∧ R.WF ∧ R.shape = A.shape ∧
      ∀ i, InBounds A.shape i → R.get i = A.get i / K.get i := by
  obtain ⟨R, e, w, sh, _, g⟩ := divK_spec eps A hA K hs hne
    (fun j hj => by rw [hfloor j hj]; exact hnz j hj)
  refine ⟨R, e, w, sh, fun i hi => ?_⟩
  rw [g i]
  split
  · next h => rw [hfloor i h]
  · next h => rw [A.get_of_not_mem i h, h0y i hi h]

end semiring

end Pyttb
