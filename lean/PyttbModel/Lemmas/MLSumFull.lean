/-
C02 — `sumtensor.full()`: the expanded parts added cell by cell.
-/
import PyttbModel.Lemmas.MLTucker
import PyttbModel.Lemmas.MLMttkrp
import PyttbModel.Lemmas.ConvertSparse
import PyttbModel.Lemmas.ConvertKruskal
namespace Pyttb
namespace ML

variable {α : Type}

/-- Well-formedness of one part of a sum tensor. -/
def PartWF [CommSemiring α] [DecidableEq α] : ML.Part α → Prop
  | .dense t => t.WF
  | .sparse s => s.WF
  | .kruskal k => k.WF ∧ 1 ≤ k.factors.length
  | .tucker t => TuckerWF t ∧ 1 ≤ t.factors.length

/-- Every part expands to a dense tensor of its shape with the entries it denotes. -/
theorem part_full_spec [CommSemiring α] [DecidableEq α] (p : ML.Part α) (hp : PartWF p)
    (hpos : ∀ e ∈ p.shape, 0 < e) :
    ∃ D, p.full = .ok D ∧ D.shape = p.shape ∧ D.WF ∧ ∀ i, InBounds p.shape i → D.get i = p.get i := by
  cases p with
  | dense t => exact ⟨t, rfl, rfl, hp, fun _ _ => rfl⟩
  | sparse s =>
    refine ⟨s.full, rfl, rfl, Dense.ofFn_WF _ _, ?_⟩
    intro i hi
    exact (sp_full_at s hp i hi).1
  | kruskal k =>
    obtain ⟨hk, hN⟩ := hp
    have h0 := zeros_inBounds k.shape hpos
    obtain ⟨D, hD, hs, hw, _⟩ := kruskal_full k hk hN _ h0
    refine ⟨D, hD, hs, hw, ?_⟩
    intro i hi
    obtain ⟨D', hD', _, _, hg⟩ := kruskal_full k hk hN i hi
    have : D' = D := by
      have : (Except.ok D' : Except Reject (Dense α)) = .ok D := by rw [← hD', ← hD]
      exact Except.ok.inj this
    rw [← this]; exact hg
  | tucker t =>
    obtain ⟨ht, hN⟩ := hp
    obtain ⟨D, hD, hs, hw, hg⟩ := tucker_full_spec t ht hN
    exact ⟨D, hD, hs, hw, fun i hi => hg i (hs ▸ hi)⟩

theorem getD_zipWith_add [AddMonoid α] (a b : List α) (k : Nat) (ha : k < a.length) (hb : k < b.length) :
    (List.zipWith (· + ·) a b).getD k 0 = a.getD k 0 + b.getD k 0 := by
  simp [List.getD_eq_getElem?_getD, List.getElem?_zipWith, List.getElem?_eq_getElem ha, List.getElem?_eq_getElem hb]

theorem addDense_spec [AddMonoid α] (A B : Dense α) (hA : A.WF) (hB : B.WF) (hs : A.shape = B.shape) :
    ∃ C, ML.Sumtensor.addDense A B = .ok C ∧ C.shape = A.shape ∧ C.WF ∧
      ∀ i, InBounds A.shape i → C.get i = A.get i + B.get i := by
  unfold ML.Sumtensor.addDense
  have : (A.shape != B.shape) = false := by simp [hs]
  rw [this]
  refine ⟨_, rfl, rfl, ?_, ?_⟩
  · show (List.zipWith _ A.data B.data).length = numel A.shape
    rw [List.length_zipWith, hA, hB, hs, Nat.min_self]
  · intro i hi
    have h1 : sub2ind A.shape i < A.data.length := by rw [hA]; exact sub2ind_lt hi
    have h2 : sub2ind A.shape i < B.data.length := by rw [hB, ← hs]; exact sub2ind_lt hi
    show (List.zipWith _ A.data B.data).getD (sub2ind A.shape i) 0 = _
    rw [getD_zipWith_add _ _ _ h1 h2]
    show _ = A.data.getD _ 0 + B.data.getD (sub2ind B.shape i) 0
    rw [hs]

/-- **`sumtensor.full()`**: the result has the common shape and entries `Σ_p ⟦p⟧[i]`. -/
theorem sum_full_spec [CommSemiring α] [DecidableEq α] (p0 : ML.Part α) (ps : List (ML.Part α))
    (hwf : ∀ p ∈ p0 :: ps, PartWF p) (hsh : ∀ p ∈ ps, p.shape = p0.shape) (hpos : ∀ e ∈ p0.shape, 0 < e) :
    ∃ D, ML.Sumtensor.full (p0 :: ps) = .ok D ∧ D.shape = p0.shape ∧ D.WF ∧
      ∀ i, InBounds p0.shape i → D.get i = p0.get i + (ps.map fun p => p.get i).sum := by
  obtain ⟨D0, e0, s0, w0, g0⟩ := part_full_spec p0 (hwf p0 (List.mem_cons_self ..)) hpos
  unfold ML.Sumtensor.full
  simp only [e0]
  -- fold over the remaining parts
  have key : ∀ (qs : List (ML.Part α)) (acc : Dense α), acc.WF → acc.shape = p0.shape →
      (∀ q ∈ qs, PartWF q) → (∀ q ∈ qs, q.shape = p0.shape) →
      ∃ D, qs.foldlM ML.Sumtensor.addPart acc = .ok D ∧ D.shape = p0.shape ∧ D.WF ∧
        ∀ i, InBounds p0.shape i → D.get i = acc.get i + (qs.map fun p => p.get i).sum := by
    intro qs
    induction qs with
    | nil =>
      intro acc hw hs _ _
      exact ⟨acc, rfl, hs, hw, fun i _ => by simp⟩
    | cons q qs ih =>
      intro acc hw hs hq hqs
      have hqshape := hqs q (List.mem_cons_self ..)
      obtain ⟨Dq, eq, sq, wq, gq⟩ := part_full_spec q (hq q (List.mem_cons_self ..)) (hqshape ▸ hpos)
      obtain ⟨C, eC, sC, wC, gC⟩ := addDense_spec acc Dq hw wq (by rw [hs, sq, hqshape])
      obtain ⟨D, eD, sD, wD, gD⟩ := ih C wC (by rw [sC, hs])
        (fun x hx => hq x (List.mem_cons_of_mem _ hx)) (fun x hx => hqs x (List.mem_cons_of_mem _ hx))
      refine ⟨D, ?_, sD, wD, ?_⟩
      · rw [List.foldlM_cons]
        have : ML.Sumtensor.addPart acc q = .ok C := by unfold ML.Sumtensor.addPart; rw [eq]; exact eC
        rw [this]
        exact eD
      · intro i hi
        rw [gD i hi, gC i (hs ▸ hi), gq i (hqshape ▸ hi), List.map_cons, List.sum_cons, add_assoc]
  obtain ⟨D, eD, sD, wD, gD⟩ := key ps D0 w0 s0 (fun q hq => hwf q (List.mem_cons_of_mem _ hq)) hsh
  exact ⟨D, eD, sD, wD, fun i hi => by rw [gD i hi, g0 i hi]⟩

end ML
end Pyttb
