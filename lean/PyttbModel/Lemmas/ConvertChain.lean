/-
C01, second batch: chains of conversions between the seven holder classes, and
`ktensor.to_tenmat`.  Every step theorem is the per-conversion theorem of C01; the chain
theorems are inductions over the list of steps.
-/
import PyttbModel.Lemmas.ConvertDouble
namespace Pyttb
variable {α : Type}

/-! ### what a holder denotes -/

/-- The array a holder denotes. -/
def Holder.get [Add α] [Mul α] [One α] [Zero α] : Holder α → List Nat → α
  | .dense T, i => T.get i
  | .sparse S, i => S.get i
  | .kruskal K, i => K.get i
  | .tucker T, i => T.get i
  | .sum P, i => (P.map fun p => p.get i).sum
  | .tenmat M, i => M.get i
  | .sptenmat M, i => M.den i

/-- Class-specific well-formedness. -/
def Holder.WFk [CommSemiring α] [DecidableEq α] : Holder α → Prop
  | .dense T => T.WF
  | .sparse S => S.WF
  | .kruskal K => K.WF
  | .tucker T => ML.TuckerWF T
  | .sum P => P ≠ [] ∧ (∀ p ∈ P, ML.PartWF p) ∧ ∀ p ∈ P, p.shape = (P.headD (.dense ⟨[], []⟩)).shape
  | .tenmat M => M.WF
  | .sptenmat M => M.WF

/-- A well-formed holder of a tensor with at least one mode and positive extents. -/
def Holder.WF [CommSemiring α] [DecidableEq α] (h : Holder α) : Prop :=
  h.WFk ∧ 1 ≤ h.shape.length ∧ ∀ e ∈ h.shape, 0 < e

/-- `D` is a well-formed dense tensor denoting the same array as `h`. -/
def Holder.DenotedBy [Add α] [Mul α] [One α] [Zero α] (h : Holder α) (D : Dense α) : Prop :=
  D.shape = h.shape ∧ D.WF ∧ ∀ i, InBounds h.shape i → D.get i = h.get i

section chain
variable [CommSemiring α] [DecidableEq α]

theorem Ktensor.shape_length (K : Ktensor α) : K.shape.length = K.factors.length := by
  simp [Ktensor.shape]

theorem Ttensor.shape_length (T : Ttensor α) : T.shape.length = T.factors.length := by
  simp [Ttensor.shape]

/-! ### expanding the four tensor classes and the sum -/

theorem kruskal_full_denoted (K : Ktensor α) (hw : (Holder.kruskal K).WF) :
    ∃ D, K.full = .ok D ∧ (Holder.kruskal K).DenotedBy D := by
  obtain ⟨hk, hN, hpos⟩ := hw
  have hN' : 1 ≤ K.factors.length := by rw [← Ktensor.shape_length]; exact hN
  obtain ⟨D, hD, hs, hW, hg⟩ := ML.part_full_spec (.kruskal K) ⟨hk, hN'⟩ hpos
  exact ⟨D, hD, hs, hW, hg⟩

theorem tucker_full_denoted (T : Ttensor α) (hw : (Holder.tucker T).WF) :
    ∃ D, T.full = .ok D ∧ (Holder.tucker T).DenotedBy D := by
  obtain ⟨hk, hN, hpos⟩ := hw
  have hN' : 1 ≤ T.factors.length := by rw [← Ttensor.shape_length]; exact hN
  obtain ⟨D, hD, hs, hW, hg⟩ := ML.part_full_spec (.tucker T) ⟨hk, hN'⟩ hpos
  exact ⟨D, hD, hs, hW, hg⟩

theorem sum_full_denoted (P : ML.Sumtensor α) (hw : (Holder.sum P).WF) :
    ∃ D, ML.Sumtensor.full P = .ok D ∧ (Holder.sum P).DenotedBy D := by
  obtain ⟨⟨hne, hwf, hsh⟩, _, hpos⟩ := hw
  cases P with
  | nil => exact absurd rfl hne
  | cons p0 ps =>
    have hpos' : ∀ e ∈ p0.shape, 0 < e := hpos
    obtain ⟨D, hD, hs, hW, hg⟩ := ML.sum_full_spec p0 ps hwf
      (fun p hp => hsh p (List.mem_cons_of_mem _ hp)) hpos'
    refine ⟨D, hD, hs, hW, ?_⟩
    intro i hi
    rw [hg i hi]
    simp [Holder.get]

theorem sparse_full_denoted (S : Sparse α) (hS : S.WF) : (Holder.sparse S).DenotedBy S.full :=
  ⟨rfl, Dense.ofFn_WF _ _, fun i hi => (sp_full_at S hS i hi).1⟩

/-! ### one step -/

theorem liftDense_ok {r : Except Reject (Dense α)} {h' : Holder α} (h : liftDense r = .ok h') :
    ∃ D, r = .ok D ∧ h' = .dense D := by
  cases r with
  | error e => cases h
  | ok D => exact ⟨D, rfl, (Except.ok.inj h).symm⟩

theorem liftTenmat_ok {r : Except Reject (Tenmat α)} {h' : Holder α} (h : liftTenmat r = .ok h') :
    ∃ M, r = .ok M ∧ h' = .tenmat M := by
  cases r with
  | error e => cases h
  | ok M => exact ⟨M, rfl, (Except.ok.inj h).symm⟩

theorem liftSptenmat_ok {r : Except Reject (Sptenmat α)} {h' : Holder α} (h : liftSptenmat r = .ok h') :
    ∃ M, r = .ok M ∧ h' = .sptenmat M := by
  cases r with
  | error e => cases h
  | ok M => exact ⟨M, rfl, (Except.ok.inj h).symm⟩

theorem liftTenmat_of_ok {r : Except Reject (Tenmat α)} {M : Tenmat α} (h : r = .ok M) :
    liftTenmat r = .ok (Holder.tenmat M) := by rw [h]; rfl

theorem liftSptenmat_of_ok {r : Except Reject (Sptenmat α)} {M : Sptenmat α} (h : r = .ok M) :
    liftSptenmat r = .ok (Holder.sptenmat M) := by rw [h]; rfl

/-- the statement of one step: same shape, well-formed, same array. -/
def StepGood (h h' : Holder α) : Prop :=
  h'.shape = h.shape ∧ h'.WF ∧ ∀ i, InBounds h.shape i → h'.get i = h.get i

theorem stepGood_of_dense {h : Holder α} (hw : h.WF) {D : Dense α} (hD : h.DenotedBy D) :
    StepGood h (.dense D) := by
  obtain ⟨hs, hW, hg⟩ := hD
  refine ⟨hs, ⟨hW, ?_, ?_⟩, hg⟩
  · show 1 ≤ D.shape.length; rw [hs]; exact hw.2.1
  · show ∀ e ∈ D.shape, 0 < e; rw [hs]; exact hw.2.2

/-- matricizing a dense tensor that denotes `h` gives a `tenmat` that denotes `h`. -/
theorem stepGood_toTenmat {h : Holder α} (hw : h.WF) {D : Dense α} (hD : h.DenotedBy D)
    (rd cd : Option (List Nat)) (cyc : Option Cyclic) (M : Tenmat α)
    (hM : D.toTenmat rd cd cyc = .ok M) : StepGood h (.tenmat M) := by
  obtain ⟨hs, hW, hg⟩ := hD
  rcases toTenmat_general D hW rd cd cyc with he | ⟨r, c, _, hp, hok⟩
  · rw [he] at hM; cases hM
  · rw [hok] at hM
    have hM' := (Except.ok.inj hM).symm
    subst hM'
    refine ⟨hs, ⟨tenmatOf_wf D r c hp, ?_, ?_⟩, ?_⟩
    · show 1 ≤ D.shape.length; rw [hs]; exact hw.2.1
    · show ∀ e ∈ D.shape, 0 < e; rw [hs]; exact hw.2.2
    · intro i hi
      rw [← hg i hi]
      exact tenmat_data_get D r c hp i (hs ▸ hi)

/-- **One conversion step is sound**: whenever a conversion of a well-formed holder is accepted,
the result is a well-formed holder of the same shape denoting the same array. -/
theorem step_sound (c : Conv) (h h' : Holder α) (hw : h.WF) (he : c.apply h = .ok h') :
    StepGood h h' := by
  cases c with
  | full =>
    cases h with
    | dense T =>
      have : h' = .dense T := (Except.ok.inj he).symm
      subst this
      exact ⟨rfl, hw, fun _ _ => rfl⟩
    | sparse S =>
      have : h' = .dense S.full := (Except.ok.inj he).symm
      subst this
      exact stepGood_of_dense hw (sparse_full_denoted S hw.1)
    | kruskal K =>
      obtain ⟨D, hD, rfl⟩ := liftDense_ok he
      obtain ⟨D', hD', hden⟩ := kruskal_full_denoted K hw
      rw [hD'] at hD
      rw [← Except.ok.inj hD]
      exact stepGood_of_dense hw hden
    | tucker T =>
      obtain ⟨D, hD, rfl⟩ := liftDense_ok he
      obtain ⟨D', hD', hden⟩ := tucker_full_denoted T hw
      rw [hD'] at hD
      rw [← Except.ok.inj hD]
      exact stepGood_of_dense hw hden
    | sum P =>
      obtain ⟨D, hD, rfl⟩ := liftDense_ok he
      obtain ⟨D', hD', hden⟩ := sum_full_denoted P hw
      rw [hD'] at hD
      rw [← Except.ok.inj hD]
      exact stepGood_of_dense hw hden
    | tenmat M => cases he
    | sptenmat M =>
      have : h' = .tenmat M.full := (Except.ok.inj he).symm
      subst this
      obtain ⟨_, _, _, hW, hg⟩ := sptenmat_full_spec M hw.1
      exact ⟨rfl, ⟨hW, hw.2.1, hw.2.2⟩, hg⟩
  | toTensor =>
    cases h with
    | dense T => cases he
    | sparse S =>
      have : h' = .dense S.full := (Except.ok.inj he).symm
      subst this
      exact stepGood_of_dense hw (sparse_full_denoted S hw.1)
    | kruskal K =>
      obtain ⟨D, hD, rfl⟩ := liftDense_ok he
      obtain ⟨D', hD', hden⟩ := kruskal_full_denoted K hw
      have hD2 : K.full = .ok D := hD
      rw [hD'] at hD2
      rw [← Except.ok.inj hD2]
      exact stepGood_of_dense hw hden
    | tucker T =>
      obtain ⟨D, hD, rfl⟩ := liftDense_ok he
      obtain ⟨D', hD', hden⟩ := tucker_full_denoted T hw
      have hD2 : T.full = .ok D := hD
      rw [hD'] at hD2
      rw [← Except.ok.inj hD2]
      exact stepGood_of_dense hw hden
    | sum P =>
      obtain ⟨D, hD, rfl⟩ := liftDense_ok he
      obtain ⟨D', hD', hden⟩ := sum_full_denoted P hw
      have hD2 : ML.Sumtensor.full P = .ok D := hD
      rw [hD'] at hD2
      rw [← Except.ok.inj hD2]
      exact stepGood_of_dense hw hden
    | tenmat M =>
      have : h' = .dense M.toTensor := (Except.ok.inj he).symm
      subst this
      obtain ⟨hs, hW, hg⟩ := tenmat_toTensor_spec M hw.1
      exact stepGood_of_dense hw ⟨hs, hW, hg⟩
    | sptenmat M => cases he
  | toSptensor =>
    cases h with
    | dense T =>
      have : h' = .sparse T.toSparse := (Except.ok.inj he).symm
      subst this
      obtain ⟨hW, hs⟩ := toSparse_wf T hw.1
      refine ⟨hs, ⟨hW, ?_, ?_⟩, fun i hi => toSparse_get T hw.1 i hi⟩
      · show 1 ≤ T.toSparse.shape.length; rw [hs]; exact hw.2.1
      · show ∀ e ∈ T.toSparse.shape, 0 < e; rw [hs]; exact hw.2.2
    | sptenmat M =>
      have : h' = .sparse M.toSparse := (Except.ok.inj he).symm
      subst this
      obtain ⟨hs, hW, _, hg⟩ := sptenmat_toSparse_spec M hw.1
      exact ⟨hs, ⟨hW, hw.2.1, hw.2.2⟩, hg⟩
    | sparse S => cases he
    | kruskal K => cases he
    | tucker T => cases he
    | sum P => cases he
    | tenmat M => cases he
  | toTenmat rd cd cyc =>
    cases h with
    | dense T =>
      obtain ⟨M, hM, rfl⟩ := liftTenmat_ok he
      exact stepGood_toTenmat hw ⟨rfl, hw.1, fun _ _ => rfl⟩ rd cd cyc M hM
    | kruskal K =>
      obtain ⟨M, hM, rfl⟩ := liftTenmat_ok he
      obtain ⟨D, hD, hden⟩ := kruskal_full_denoted K hw
      unfold Ktensor.toTenmat at hM
      rw [hD] at hM
      exact stepGood_toTenmat hw hden rd cd cyc M hM
    | sparse S => cases he
    | tucker T => cases he
    | sum P => cases he
    | tenmat M => cases he
    | sptenmat M => cases he
  | toSptenmat rd cd cyc =>
    cases h with
    | sparse S =>
      obtain ⟨M, hM, rfl⟩ := liftSptenmat_ok he
      rcases toSptenmat_general S hw.1 rd cd cyc with he' | ⟨r, c, _, hp, hok⟩
      · rw [he'] at hM; cases hM
      · rw [hok] at hM
        have hM' := (Except.ok.inj hM).symm
        subst hM'
        refine ⟨rfl, ⟨sptenmatOf_WF S r c hw.1 hp, hw.2.1, hw.2.2⟩, ?_⟩
        intro i hi
        show (sptenmatOf S r c).den i = S.get i
        rw [Sptenmat.den_eq_get]
        show (sptenmatOf S r c).get _ _ = S.get i
        rw [sptenmatOf_get S r c hw.1 hp]
        exact mval_matSub S r c hw.1 hp i hi
    | dense T => cases he
    | kruskal K => cases he
    | tucker T => cases he
    | sum P => cases he
    | tenmat M => cases he
    | sptenmat M => cases he

/-- **One well-typed step is accepted** and produces the class `Conv.target` names. -/
theorem step_ok (c : Conv) (h : Holder α) (hw : h.WF) (k' : HKind) (ht : c.target h.kind = some k')
    (hv : c.argsValid h.shape.length = true) : ∃ h', c.apply h = .ok h' ∧ h'.kind = k' := by
  cases c with
  | full =>
    cases h with
    | dense T => exact ⟨_, rfl, (Option.some.inj ht)⟩
    | sparse S => exact ⟨_, rfl, (Option.some.inj ht)⟩
    | kruskal K =>
      obtain ⟨D, hD, _⟩ := kruskal_full_denoted K hw
      exact ⟨.dense D, by simp [Conv.apply, hD, liftDense], Option.some.inj ht⟩
    | tucker T =>
      obtain ⟨D, hD, _⟩ := tucker_full_denoted T hw
      exact ⟨.dense D, by simp [Conv.apply, hD, liftDense], Option.some.inj ht⟩
    | sum P =>
      obtain ⟨D, hD, _⟩ := sum_full_denoted P hw
      exact ⟨.dense D, by simp [Conv.apply, hD, liftDense], Option.some.inj ht⟩
    | tenmat M => cases ht
    | sptenmat M => exact ⟨_, rfl, (Option.some.inj ht)⟩
  | toTensor =>
    cases h with
    | dense T => cases ht
    | sparse S => exact ⟨_, rfl, (Option.some.inj ht)⟩
    | kruskal K =>
      obtain ⟨D, hD, _⟩ := kruskal_full_denoted K hw
      exact ⟨.dense D, by simp [Conv.apply, Ktensor.toTensor, hD, liftDense], Option.some.inj ht⟩
    | tucker T =>
      obtain ⟨D, hD, _⟩ := tucker_full_denoted T hw
      exact ⟨.dense D, by simp [Conv.apply, Ttensor.toTensor, hD, liftDense], Option.some.inj ht⟩
    | sum P =>
      obtain ⟨D, hD, _⟩ := sum_full_denoted P hw
      exact ⟨.dense D, by simp [Conv.apply, ML.Sumtensor.toTensor, hD, liftDense], Option.some.inj ht⟩
    | tenmat M => exact ⟨_, rfl, (Option.some.inj ht)⟩
    | sptenmat M => cases ht
  | toSptensor =>
    cases h with
    | dense T => exact ⟨_, rfl, (Option.some.inj ht)⟩
    | sptenmat M => exact ⟨_, rfl, (Option.some.inj ht)⟩
    | sparse S => cases ht
    | kruskal K => cases ht
    | tucker T => cases ht
    | sum P => cases ht
    | tenmat M => cases ht
  | toTenmat rd cd cyc =>
    cases h with
    | dense T =>
      obtain ⟨r, c, _, _, hok⟩ := toTenmat_valid T hw.1 rd cd cyc hv
      exact ⟨.tenmat _, liftTenmat_of_ok hok, Option.some.inj ht⟩
    | kruskal K =>
      obtain ⟨D, hD, hs, hW, _⟩ := kruskal_full_denoted K hw
      have hv' : splitValid D.shape.length rd cd cyc = true := by rw [hs]; exact hv
      obtain ⟨r, c, _, _, hok⟩ := toTenmat_valid D hW rd cd cyc hv'
      have hK : K.toTenmat rd cd cyc = D.toTenmat rd cd cyc := by unfold Ktensor.toTenmat; rw [hD]
      exact ⟨.tenmat _, liftTenmat_of_ok (hK.trans hok), Option.some.inj ht⟩
    | sparse S => cases ht
    | tucker T => cases ht
    | sum P => cases ht
    | tenmat M => cases ht
    | sptenmat M => cases ht
  | toSptenmat rd cd cyc =>
    cases h with
    | sparse S =>
      obtain ⟨r, c, _, _, hok⟩ := toSptenmat_valid S hw.1 rd cd cyc hv
      exact ⟨.sptenmat _, liftSptenmat_of_ok hok, Option.some.inj ht⟩
    | dense T => cases ht
    | kruskal K => cases ht
    | tucker T => cases ht
    | sum P => cases ht
    | tenmat M => cases ht
    | sptenmat M => cases ht

/-! ### chains -/

/-- **Every accepted chain of conversions preserves the tensor**: the final object is
well-formed, has the same shape and denotes the same array, element for element. -/
theorem chain_sound (cs : List Conv) (h h' : Holder α) (hw : h.WF) (he : runChain cs h = .ok h') :
    StepGood h h' := by
  induction cs generalizing h with
  | nil =>
    have : h' = h := (Except.ok.inj he).symm
    subst this
    exact ⟨rfl, hw, fun _ _ => rfl⟩
  | cons c cs ih =>
    unfold runChain at he
    cases hc : c.apply h with
    | error e => rw [hc] at he; cases he
    | ok h1 =>
      rw [hc] at he
      obtain ⟨hs1, hw1, hg1⟩ := step_sound c h h1 hw hc
      obtain ⟨hs2, hw2, hg2⟩ := ih h1 hw1 he
      refine ⟨hs2.trans hs1, hw2, ?_⟩
      intro i hi
      rw [hg2 i (hs1 ▸ hi), hg1 i hi]

/-- **Every well-typed chain is accepted** (and then `chain_sound` applies). -/
theorem chain_ok (cs : List Conv) (h : Holder α) (hw : h.WF)
    (hv : chainValid h.shape.length cs h.kind = true) : ∃ h', runChain cs h = .ok h' := by
  induction cs generalizing h with
  | nil => exact ⟨h, rfl⟩
  | cons c cs ih =>
    unfold chainValid at hv
    cases ht : c.target h.kind with
    | none => rw [ht] at hv; cases hv
    | some k' =>
      rw [ht] at hv
      simp only [Bool.and_eq_true] at hv
      obtain ⟨h1, hc, hk⟩ := step_ok c h hw k' ht hv.1
      obtain ⟨hs1, hw1, _⟩ := step_sound c h h1 hw hc
      have hv2 : chainValid h1.shape.length cs h1.kind = true := by rw [hs1, hk]; exact hv.2
      obtain ⟨h2, h2e⟩ := ih h1 hw1 hv2
      exact ⟨h2, by unfold runChain; rw [hc]; exact h2e⟩

end chain

end Pyttb
