/-
C04, sparse class: a region read that returns a tensor (`subdims` + `tt_renumber`).
-/
import PyttbModel.Lemmas.MutArraySparseRegion
import PyttbModel.Lemmas.EraseDups
set_option linter.unusedSimpArgs false
set_option linter.unusedVariables false
set_option linter.unusedSectionVars false

namespace Pyttb

variable {α : Type}

/-! ### position of a coordinate in an index list -/

theorem renumberCoord_getElem (l : List Nat) (hn : l.Nodup) (k : Nat) (hk : k < l.length) :
    Sparse.renumberCoord l false l[k] = k := by
  unfold Sparse.renumberCoord
  simp only [Bool.false_eq_true, if_false]
  cases hf : (l.reverse).findIdx? (· == l[k]) with
  | none =>
    rw [List.findIdx?_eq_none_iff] at hf
    have := hf l[k] (by simp)
    simp at this
  | some j =>
    rw [List.findIdx?_eq_some_iff_getElem] at hf
    obtain ⟨hlt, hp, _⟩ := hf
    simp only [List.length_reverse] at hlt
    rw [List.getElem_reverse] at hp
    have he := eq_of_beq hp
    have := (List.getElem_inj hn).1 he
    simp only
    omega

theorem pySlice_full (e : Nat) : pySlice e none none none = .ok (List.range e) := by
  unfold pySlice
  simp only [Option.getD_none]
  have h0 : ¬ ((1 : Int) = 0) := by decide
  have h1 : (1 : Int) > 0 := by decide
  rw [if_neg h0, if_pos h1]
  congr 1
  rw [List.filter_eq_self]
  intro i hi
  have := List.mem_range.1 hi
  simp
  omega

theorem map_eq_range_map_getD (l : List Nat) {β : Type} (f : Nat → β) :
    l.map f = (List.range l.length).map fun x => f (l.getD x 0) := by
  apply List.ext_getElem
  · simp
  · intro k h1 h2
    simp [List.getD_eq_getElem?_getD, List.getElem?_eq_getElem (by simpa using h1 : k < l.length)]

theorem flatMap_congr' {β γ : Type} (l : List β) (f g : β → List γ) (h : ∀ x ∈ l, f x = g x) :
    l.flatMap f = l.flatMap g := by
  induction l with
  | nil => rfl
  | cons a l ih =>
    simp only [List.flatMap_cons]
    rw [h a (by simp), ih (fun x hx => h x (by simp [hx]))]

/-! ### decoding a result subscript -/

/-- full subscript addressed by a result subscript `j`: an integer mode contributes its
index, a kept mode the `j`-th entry of its index list -/
def decodeRow : List RPart → List (List Nat) → List Nat → List Nat
  | p :: ps, l :: ls, j =>
    if p.isInt then l.headD 0 :: decodeRow ps ls j
    else match j with
      | x :: j' => l.getD x 0 :: decodeRow ps ls j'
      | [] => []
  | _, _, _ => []

/-- extents of the kept (non-integer) modes: the lengths of their index lists -/
def keptLens : List RPart → List (List Nat) → List Nat
  | p :: ps, l :: ls => if p.isInt then keptLens ps ls else l.length :: keptLens ps ls
  | _, _ => []

/-- integer modes select exactly one index; parts and index lists have equal length -/
def modesOk : List RPart → List (List Nat) → Prop
  | [], [] => True
  | p :: ps, l :: ls => (p.isInt = true → ∃ x, l = [x]) ∧ modesOk ps ls
  | _, _ => False

/-- The region, enumerated first-mode-fastest, is the result's F-order enumeration decoded. -/
theorem outerF_eq_decode (ps : List RPart) (ls : List (List Nat)) (h : modesOk ps ls) :
    outerF ls = (allSubs (keptLens ps ls)).map (decodeRow ps ls) := by
  induction ps generalizing ls with
  | nil =>
    cases ls with
    | nil => simp [outerF, keptLens, allSubs, numel, decodeRow, ind2sub]
    | cons l ls => exact absurd h (by simp [modesOk])
  | cons p ps ih =>
    cases ls with
    | nil => exact absurd h (by simp [modesOk])
    | cons l ls =>
      obtain ⟨h1, h2⟩ := h
      have ih' := ih ls h2
      by_cases hp : p.isInt = true
      · obtain ⟨x, rfl⟩ := h1 hp
        simp only [outerF, keptLens, hp, if_true, List.map_cons, List.map_nil, ih', List.flatMap_map]
        rw [List.map_eq_flatMap]
        apply flatMap_congr'
        intro j _
        simp [decodeRow, hp]
      · have hp' : p.isInt = false := by simpa using hp
        simp only [outerF, keptLens, hp', Bool.false_eq_true, if_false, allSubs_cons, ih', List.flatMap_map,
          List.map_flatMap]
        apply flatMap_congr'
        intro j _
        rw [map_eq_range_map_getD l, List.map_map]
        apply List.map_congr_left
        intro x _
        simp [decodeRow, hp']

/-! ### renumbering and decoding are inverse on the region -/

/-- per mode: an integer selects one index; a kept mode has a duplicate-free index list;
the index list of a full slice is `0 .. extent-1` -/
def modesOk2 : List RPart → List (List Nat) → Prop
  | [], [] => True
  | p :: ps, l :: ls =>
    (p.isInt = true → ∃ x, l = [x]) ∧ (p.isInt = false → l.Nodup) ∧
    (p.isFullSlice = true → l = List.range l.length) ∧ modesOk2 ps ls
  | _, _ => False

theorem modesOk_of_modesOk2 {ps : List RPart} {ls : List (List Nat)} (h : modesOk2 ps ls) : modesOk ps ls := by
  induction ps generalizing ls with
  | nil => cases ls with
    | nil => trivial
    | cons l ls => exact absurd h (by simp [modesOk2])
  | cons p ps ih => cases ls with
    | nil => exact absurd h (by simp [modesOk2])
    | cons l ls => exact ⟨h.1, ih h.2.2.2⟩

theorem fullSlice_not_int {p : RPart} (h : p.isFullSlice = true) : p.isInt = false := by
  cases p with
  | int i => simp [RPart.isFullSlice] at h
  | list l => rfl
  | slice a b c => rfl

theorem decode_props (ps : List RPart) (ls : List (List Nat)) (h : modesOk2 ps ls) (j : List Nat)
    (hj : InBounds (keptLens ps ls) j) :
    Sparse.inRegionB ls (decodeRow ps ls j) = true ∧ Sparse.renumberRow ps ls (decodeRow ps ls j) = j := by
  induction ps generalizing ls j with
  | nil =>
    cases ls with
    | nil =>
      cases j with
      | nil => exact ⟨rfl, rfl⟩
      | cons x j => simp [keptLens, InBounds] at hj
    | cons l ls => exact absurd h (by simp [modesOk2])
  | cons p ps ih =>
    cases ls with
    | nil => exact absurd h (by simp [modesOk2])
    | cons l ls =>
      obtain ⟨h1, h2, h3, h4⟩ := h
      by_cases hp : p.isInt = true
      · obtain ⟨x, rfl⟩ := h1 hp
        simp only [keptLens, hp, if_true] at hj
        obtain ⟨i1, i2⟩ := ih ls h4 j hj
        simp [decodeRow, hp, Sparse.inRegionB, Sparse.renumberRow, i1, i2]
      · have hp' : p.isInt = false := by simpa using hp
        simp only [keptLens, hp', Bool.false_eq_true, if_false] at hj
        cases j with
        | nil => simp [InBounds] at hj
        | cons x j' =>
          simp only [InBounds] at hj
          obtain ⟨i1, i2⟩ := ih ls h4 j' hj.2
          have hx : x < l.length := hj.1
          have hget : l[x]?.getD 0 = l[x] := by simp [List.getElem?_eq_getElem hx]
          have hmem : l[x] ∈ l := List.getElem_mem hx
          refine ⟨?_, ?_⟩
          · simp [decodeRow, hp', Sparse.inRegionB, hget, hmem, i1]
          · simp only [decodeRow, hp', Bool.false_eq_true, if_false, Sparse.renumberRow, i2, List.getD_eq_getElem?_getD, hget]
            by_cases hf : p.isFullSlice = true
            · have hr := h3 hf
              have : l[x] = x := by
                have : l[x] = (List.range l.length)[x]'(by simpa using hx) := by congr 1
                rw [this]; simp
              simp [hf, this]
            · have hf' : p.isFullSlice = false := by simpa using hf
              simp [hf', renumberCoord_getElem l (h2 hp') x hx]

theorem encode_props (ps : List RPart) (ls : List (List Nat)) (h : modesOk2 ps ls) (r : List Nat)
    (hr : Sparse.inRegionB ls r = true) :
    decodeRow ps ls (Sparse.renumberRow ps ls r) = r := by
  induction ps generalizing ls r with
  | nil =>
    cases ls with
    | nil => cases r with
      | nil => rfl
      | cons y r => simp [Sparse.inRegionB] at hr
    | cons l ls => exact absurd h (by simp [modesOk2])
  | cons p ps ih =>
    cases ls with
    | nil => exact absurd h (by simp [modesOk2])
    | cons l ls =>
      obtain ⟨h1, h2, h3, h4⟩ := h
      cases r with
      | nil => simp [Sparse.inRegionB] at hr
      | cons y r' =>
        simp only [Sparse.inRegionB, Bool.and_eq_true, List.contains_eq_mem, decide_eq_true_eq] at hr
        have ih' := ih ls h4 r' hr.2
        by_cases hp : p.isInt = true
        · obtain ⟨x, rfl⟩ := h1 hp
          have : y = x := by simpa using hr.1
          simp [Sparse.renumberRow, decodeRow, hp, ih', this]
        · have hp' : p.isInt = false := by simpa using hp
          obtain ⟨k, hk, hky⟩ := List.mem_iff_getElem.1 hr.1
          by_cases hf : p.isFullSlice = true
          · have hrange := h3 hf
            have hyl : y < l.length := by
              have : y ∈ List.range l.length := hrange ▸ hr.1
              simpa using this
            have hgy : l[y]?.getD 0 = y := by
              rw [List.getElem?_eq_getElem hyl]
              have : l[y] = (List.range l.length)[y]'(by simpa using hyl) := by congr 1
              simp [this]
            simp [Sparse.renumberRow, decodeRow, hp', hf, ih', hgy]
          · have hf' : p.isFullSlice = false := by simpa using hf
            have hrc : Sparse.renumberCoord l false y = k := by rw [← hky]; exact renumberCoord_getElem l (h2 hp') k hk
            have hgk : l[k]?.getD 0 = y := by
              rw [List.getElem?_eq_getElem hk]; simpa using hky
            simp [Sparse.renumberRow, decodeRow, hp', hf', ih', hrc, hgk]

/-! ### values under renumbered keys -/

theorem kvLast_map_key [Zero α] (es : List (List Nat × α)) (f g : List Nat → List Nat)
    (hn : (es.map (·.1)).Nodup) (hgf : ∀ r ∈ es.map (·.1), g (f r) = r) (j : List Nat) (hfg : f (g j) = j) :
    kvLast (es.map fun e => (f e.1, e.2)) j = kvLast es (g j) := by
  have hkeys : (es.map fun e => (f e.1, e.2)).map (·.1) = (es.map (·.1)).map f := by
    rw [List.map_map, List.map_map]; rfl
  have hn' : ((es.map fun e => (f e.1, e.2)).map (·.1)).Nodup := by
    rw [hkeys]
    apply nodup_map_on _ hn
    intro x hx y hy hxy
    rw [← hgf x hx, ← hgf y hy, hxy]
  by_cases hm : g j ∈ es.map (·.1)
  · obtain ⟨e, he, hge⟩ := List.mem_map.1 hm
    have h1 : (g j, e.2) ∈ es := by rw [← hge]; exact he
    have h2 : (j, e.2) ∈ es.map fun e => (f e.1, e.2) := by
      refine List.mem_map.2 ⟨e, he, ?_⟩
      rw [hge, hfg]
    rw [kvLast_of_mem _ j e.2 hn' h2, kvLast_of_mem es (g j) e.2 hn h1]
  · rw [kvLast_of_not_mem es (g j) hm]
    apply kvLast_of_not_mem
    rw [hkeys]
    intro hc
    obtain ⟨r, hr, hfr⟩ := List.mem_map.1 hc
    apply hm
    rw [← hfr, hgf r hr]
    exact hr

/-! ### resolving a read key -/

theorem pySlice_nodup {len : Nat} {a b c : Option Int} {l : List Nat} (h : pySlice len a b c = .ok l) : l.Nodup := by
  unfold pySlice at h
  simp only at h
  split at h
  · cases h
  · split at h
    · cases h
      exact List.Nodup.sublist List.filter_sublist List.nodup_range
    · cases h
      exact ((List.reverse_perm _).nodup_iff).2 (List.Nodup.sublist List.filter_sublist List.nodup_range)

/-- A read key of the proved fragment: as many elements as modes; integers inside
`-extent .. extent-1`; slices that select at least one index; index lists that are
non-empty, inside the extent and duplicate-free. -/
def readKeyOk : List Nat → List RPart → Bool
  | [], [] => true
  | e :: es, .int i :: ps => decide (-(e : Int) ≤ i) && decide (i < (e : Int)) && readKeyOk es ps
  | e :: es, .slice a b c :: ps =>
    (match pySlice e a b c with
      | .ok (_ :: _) => true
      | _ => false) && readKeyOk es ps
  | e :: es, .list is :: ps =>
    !is.isEmpty && is.all (· < e) && (is.eraseDups.length == is.length) && readKeyOk es ps
  | _, _ => false

theorem read_resolve (s : List Nat) (parts : List RPart) (h : readKeyOk s parts = true) :
    ∃ ps idx rs, Sparse.rewriteNeg s parts = .ok ps ∧ Sparse.regionIdx s ps = .ok idx ∧
      MArr.regionParts false s parts = .ok rs ∧ rs.map (·.2.1) = idx ∧
      MArr.keptShape rs = keptLens ps idx ∧ modesOk2 ps idx ∧ Sparse.keptShapeOf s ps idx = keptLens ps idx ∧
      (ps.zip s).any (fun pe => pe.1.listBeyond pe.2) = false ∧
      (keptLens ps idx).any (· == 0) = false ∧ ps.all RPart.isInt = parts.all RPart.isInt := by
  induction parts generalizing s with
  | nil =>
    cases s with
    | nil => exact ⟨[], [], [], rfl, rfl, rfl, rfl, rfl, trivial, rfl, rfl, rfl, rfl⟩
    | cons e es => simp [readKeyOk] at h
  | cons p parts ih =>
    cases s with
    | nil => simp [readKeyOk] at h
    | cons e es =>
      cases p with
      | int i =>
        simp only [readKeyOk, Bool.and_eq_true, decide_eq_true_eq] at h
        obtain ⟨⟨h1, h2⟩, h3⟩ := h
        obtain ⟨ps, idx, rs, i1, i2, i3, i4, i5, i6, i7, i8, i9, i10⟩ := ih es h3
        by_cases hneg : i < 0
        · have hx' : ¬ (0 : Int) ≤ i := by omega
          have hnn : 0 ≤ i + (e : Int) := by omega
          have hq : (0 : Int) ≤ (e : Int) + i := by omega
          refine ⟨.int ((e : Int) + i) :: ps, [((e : Int) + i).toNat] :: idx, (e, [(i + (e : Int)).toNat], false) :: rs,
            ?_, ?_, ?_, ?_, ?_, ?_, ?_, ?_, ?_, ?_⟩
          · simp only [Sparse.rewriteNeg, Sparse.rewriteNegPart, hneg, if_true, i1, bind, Except.bind]
          · simp only [Sparse.regionIdx, Sparse.partIdx, hq, if_true, i2, bind, Except.bind]
          · simp only [MArr.regionParts, MArr.regionPart, hx', if_false, hnn, if_true, i3, bind, Except.bind, pure,
              Except.pure]
          · simp only [List.map_cons, i4]
            congr 3; omega
          · simp [MArr.keptShape, keptLens, RPart.isInt] at i5 ⊢; exact i5
          · exact ⟨fun _ => ⟨_, rfl⟩, fun hc => by simp [RPart.isInt] at hc, fun hc => by simp [RPart.isFullSlice] at hc, i6⟩
          · simp [Sparse.keptShapeOf, keptLens, RPart.isInt, i7]
          · simp only [List.zip_cons_cons, List.any_cons, RPart.listBeyond, Bool.false_or]; exact i8
          · simp [keptLens, RPart.isInt, i9]
          · simp [RPart.isInt, i10]
        · have hx : (0 : Int) ≤ i := by omega
          have hlt : i.toNat < e := by omega
          have hmax : max e (i.toNat + 1) = e := by omega
          refine ⟨.int i :: ps, [i.toNat] :: idx, (e, [i.toNat], false) :: rs, ?_, ?_, ?_, ?_, ?_, ?_, ?_, ?_, ?_, ?_⟩
          · simp only [Sparse.rewriteNeg, Sparse.rewriteNegPart, hneg, if_false, i1, bind, Except.bind]
          · simp only [Sparse.regionIdx, Sparse.partIdx, hx, if_true, i2, bind, Except.bind]
          · simp only [MArr.regionParts, MArr.regionPart, hx, if_true, hlt, true_or, i3, bind, Except.bind, pure,
              Except.pure, hmax]
          · simp only [List.map_cons, i4]
          · simp [MArr.keptShape, keptLens, RPart.isInt] at i5 ⊢; exact i5
          · exact ⟨fun _ => ⟨_, rfl⟩, fun hc => by simp [RPart.isInt] at hc, fun hc => by simp [RPart.isFullSlice] at hc, i6⟩
          · simp [Sparse.keptShapeOf, keptLens, RPart.isInt, i7]
          · simp only [List.zip_cons_cons, List.any_cons, RPart.listBeyond, Bool.false_or]; exact i8
          · simp [keptLens, RPart.isInt, i9]
          · simp [RPart.isInt, i10]
      | slice a b c =>
        simp only [readKeyOk, Bool.and_eq_true] at h
        obtain ⟨h1, h3⟩ := h
        obtain ⟨ps, idx, rs, i1, i2, i3, i4, i5, i6, i7, i8, i9, i10⟩ := ih es h3
        match hl : pySlice e a b c, h1 with
        | .ok (x :: xs), _ =>
          refine ⟨.slice a b c :: ps, (x :: xs) :: idx, (e, x :: xs, true) :: rs, ?_, ?_, ?_, ?_, ?_, ?_, ?_, ?_, ?_, ?_⟩
          · simp only [Sparse.rewriteNeg, Sparse.rewriteNegPart, i1, bind, Except.bind]
          · simp only [Sparse.regionIdx, Sparse.partIdx, hl, i2, bind, Except.bind]
          · simp only [MArr.regionParts, MArr.regionPart, MArr.sliceExtent, Bool.false_eq_true, if_false, hl, i3, bind,
              Except.bind, pure, Except.pure]
          · simp only [List.map_cons, i4]
          · simp [MArr.keptShape, keptLens, RPart.isInt] at i5 ⊢; exact i5
          · refine ⟨fun hc => by simp [RPart.isInt] at hc, fun _ => pySlice_nodup hl, ?_, i6⟩
            intro hf
            cases a <;> cases b <;> cases c <;> simp [RPart.isFullSlice] at hf
            rw [pySlice_full] at hl
            have := Except.ok.inj hl
            rw [← this]; simp
          · simp only [Sparse.keptShapeOf, keptLens, RPart.isInt, Bool.false_eq_true, if_false, i7]
            congr 1
            split
            · next hf =>
              cases a <;> cases b <;> cases c <;> simp [RPart.isFullSlice] at hf
              rw [pySlice_full] at hl
              have := Except.ok.inj hl
              rw [← this]; simp
            · rfl
          · simp only [List.zip_cons_cons, List.any_cons, RPart.listBeyond, Bool.false_or]; exact i8
          · simp [keptLens, RPart.isInt, i9]
          · simp [RPart.isInt, i10]
        | .ok [], h1' => simp only [hl] at h1'; cases h1'
        | .error _, h1' => simp only [hl] at h1'; cases h1'
      | list is =>
        simp only [readKeyOk, Bool.and_eq_true, Bool.not_eq_true', beq_iff_eq] at h
        obtain ⟨⟨⟨h1, h2⟩, h4⟩, h3⟩ := h
        obtain ⟨ps, idx, rs, i1, i2, i3, i4, i5, i6, i7, i8, i9, i10⟩ := ih es h3
        have hnod : is.Nodup := (eraseDups_length_eq_iff is).1 h4
        have hlt : ∀ x ∈ is, x < e := by
          intro x hx; have := List.all_eq_true.1 h2 x hx; simpa using this
        have hne : is ≠ [] := by intro hc; rw [hc] at h1; simp at h1
        have hmaxlt : maxNat is < e := by
          obtain ⟨x, hx⟩ := List.exists_mem_of_ne_nil is hne
          have h0 := hlt x hx
          have : maxNat is ≤ e - 1 := by
            rw [maxNat_le_iff]; intro y hy; have := hlt y hy; omega
          omega
        have hmax : max e (maxNat is + 1) = e := by omega
        refine ⟨.list is :: ps, is :: idx, (e, is, true) :: rs, ?_, ?_, ?_, ?_, ?_, ?_, ?_, ?_, ?_, ?_⟩
        · simp only [Sparse.rewriteNeg, Sparse.rewriteNegPart, i1, bind, Except.bind]
        · simp only [Sparse.regionIdx, Sparse.partIdx, i2, bind, Except.bind]
        · simp only [MArr.regionParts, MArr.regionPart, h1, Bool.false_eq_true, if_false, hmaxlt, true_or, if_true, i3,
            bind, Except.bind, pure, Except.pure, hmax]
        · simp only [List.map_cons, i4]
        · simp [MArr.keptShape, keptLens, RPart.isInt] at i5 ⊢; exact i5
        · exact ⟨fun hc => by simp [RPart.isInt] at hc, fun _ => hnod, fun hc => by simp [RPart.isFullSlice] at hc, i6⟩
        · simp [Sparse.keptShapeOf, keptLens, RPart.isInt, RPart.isFullSlice, i7]
        · have hb : (is.any fun x => decide (x ≥ e)) = false := by
            rw [List.any_eq_false]
            intro x hx
            have := hlt x hx
            simp; omega
          rw [List.zip_cons_cons, List.any_cons, i8]
          simp only [RPart.listBeyond, hb, Bool.or_false]
        · have : is.length ≠ 0 := by intro hc; exact hne (List.eq_nil_of_length_eq_zero hc)
          simp [keptLens, RPart.isInt, i9, this]
        · simp [RPart.isInt, i10]

/-! ### the read -/

theorem keptLens_nil_iff (ps : List RPart) (ls : List (List Nat)) (h : modesOk2 ps ls) :
    keptLens ps ls = [] ↔ ps.all RPart.isInt = true := by
  induction ps generalizing ls with
  | nil => cases ls <;> simp [keptLens]
  | cons p ps ih =>
    cases ls with
    | nil => exact absurd h (by simp [modesOk2])
    | cons l ls =>
      have ih' := ih ls h.2.2.2
      by_cases hp : p.isInt = true
      · simp [keptLens, hp, ih']
      · have hp' : p.isInt = false := by simpa using hp
        simp [keptLens, hp']

theorem zip_map_left' {β γ δ : Type} (l : List β) (l' : List γ) (f : β → δ) :
    (l.map f).zip l' = (l.zip l').map fun e => (f e.1, e.2) := by
  induction l generalizing l' with
  | nil => rfl
  | cons a l ih => cases l' with
    | nil => rfl
    | cons b l' => simp [ih]

section rt
variable [AddMonoid α] [DecidableEq α]

/-- the stored entries of the region: duplicate-free, all in the region, and under a
subscript of the region they hold the cell -/
theorem sel_props {S : Sparse α} (hS : S.WF) (idx : List (List Nat)) :
    let sel := S.takeAt (if S.subs.isEmpty then [] else S.subdims idx)
    sel.subs.length = sel.vals.length ∧ sel.subs.Nodup ∧ (∀ r ∈ sel.subs, Sparse.inRegionB idx r = true) ∧
    ∀ i, Sparse.inRegionB idx i = true → kvSum (sel.subs.zip sel.vals) i = S.get i := by
  have hloc : (if S.subs.isEmpty then [] else S.subdims idx) =
      (List.range S.subs.length).filter fun k => Sparse.inRegionB idx (S.subs.getD k []) := by
    split
    · next he =>
      have : S.subs = [] := by simpa using he
      rw [this]; rfl
    · rfl
  simp only [hloc, Sparse.takeAt]
  have hnod : ((List.range S.subs.length).filter fun k => Sparse.inRegionB idx (S.subs.getD k [])).Nodup :=
    List.Nodup.sublist List.filter_sublist List.nodup_range
  have hlt : ∀ k ∈ (List.range S.subs.length).filter fun k => Sparse.inRegionB idx (S.subs.getD k []),
      k < S.subs.length := fun k hk => List.mem_range.1 (List.mem_filter.1 hk).1
  refine ⟨by simp, ?_, ?_, ?_⟩
  · apply nodup_map_on _ hnod
    intro x hx y hy hxy
    rw [getD_eq_getElem_nil _ _ (hlt x hx), getD_eq_getElem_nil _ _ (hlt y hy)] at hxy
    exact (List.getElem_inj hS.nodup).1 hxy
  · intro r hr
    obtain ⟨k, hk, rfl⟩ := List.mem_map.1 hr
    exact (List.mem_filter.1 hk).2
  · intro i hi
    rw [zip_map_map, kvSum_positions S.subs hS.nodup (fun k => S.vals.getD k 0) _ hnod hlt i]
    show _ = kvSum (S.subs.zip S.vals) i
    rw [kvSum_zip_eq S.subs S.vals hS.nodup hS.len i]
    by_cases hs : i ∈ S.subs
    · have hk0 : S.subs.idxOf i < S.subs.length := List.idxOf_lt_length_iff.2 hs
      have hgetD : S.subs.getD (S.subs.idxOf i) [] = i := by
        rw [getD_eq_getElem_nil _ _ hk0]; exact List.getElem_idxOf hk0
      have : S.subs.idxOf i ∈ (List.range S.subs.length).filter fun k => Sparse.inRegionB idx (S.subs.getD k []) := by
        rw [List.mem_filter, hgetD]; exact ⟨List.mem_range.2 hk0, hi⟩
      rw [if_pos ⟨hs, this⟩, if_pos hs]
    · have : ¬ (i ∈ S.subs ∧ S.subs.idxOf i ∈
          (List.range S.subs.length).filter fun k => Sparse.inRegionB idx (S.subs.getD k [])) := fun hc => hs hc.1
      rw [if_neg this, if_neg hs]

/-- A region read that keeps at least one mode (a slice or an index list in the key)
returns the tensor of the addressed cells, in the order of the kept modes. -/
theorem Sparse.getItem_tensor {S : Sparse α} {m : MArr α} (h : SRel S m) (parts : List RPart)
    (hne : parts ≠ []) (hk : readKeyOk S.shape parts = true) (hnot : parts.all RPart.isInt = false) :
    (S.getItem (.region parts)).map SpReadOut.toReadOut = m.read (.region parts) := by
  obtain ⟨ps, idx, rs, i1, i2, i3, i4, i5, i6, i7, i8, i9, i10⟩ := read_resolve S.shape parts hk
  have hpl : parts.length = S.shape.length := by
    have := regionParts_length i3
    have h2 := congrArg List.length (regionParts_read_shape i3)
    simp only [List.length_map] at h2
    omega
  have hemp : parts.isEmpty = false := by cases parts <;> simp_all
  have hall : ps.all RPart.isInt = false := by rw [i10]; exact hnot
  have hks : keptLens ps idx ≠ [] := by
    intro hc
    have := (keptLens_nil_iff ps idx i6).1 hc
    rw [hall] at this; cases this
  -- specification side
  have hspec : m.read (.region parts) =
      .ok (.tensor ⟨keptLens ps idx, (outerF idx).map m.get⟩) := by
    simp only [MArr.read, hemp, Bool.false_eq_true, ↓reduceIte, ← h.shape, i3, bind, Except.bind, i4, i5]
  rw [hspec]
  -- model side
  simp only [Sparse.getItem, hpl, ne_eq, not_true_eq_false, ↓reduceIte, i1, i2, bind, Except.bind]
  unfold Sparse.regionRead
  simp only [i8, Bool.false_eq_true, and_false, ↓reduceIte, hall, i7, i9]
  obtain ⟨s1, s2, s3, s4⟩ := sel_props h.wf idx
  generalize hsel : S.takeAt (if S.subs.isEmpty then [] else S.subdims idx) = sel at s1 s2 s3 s4 ⊢
  -- both branches give the same tensor
  have hboth : (if sel.subs.isEmpty then (Except.ok (SpReadOut.tensor ⟨keptLens ps idx, [], []⟩) : Except Reject (SpReadOut α))
      else .ok (.tensor ⟨keptLens ps idx, sel.subs.map (Sparse.renumberRow ps idx), sel.vals⟩)) =
      .ok (.tensor ⟨keptLens ps idx, sel.subs.map (Sparse.renumberRow ps idx), sel.vals⟩) := by
    split
    · next he =>
      have h1 : sel.subs = [] := by simpa using he
      have h2 : sel.vals = [] := by
        have := s1; rw [h1] at this
        exact List.eq_nil_of_length_eq_zero this.symm
      rw [h1, h2]; rfl
    · rfl
  rw [hboth]
  simp only [Except.map, SpReadOut.toReadOut]
  congr 2
  -- the dense form of the result
  rw [Sparse.full_eq]
  simp only [Dense.ofFn]
  congr 1
  rw [outerF_eq_decode ps idx (modesOk_of_modesOk2 i6), List.map_map]
  apply List.map_congr_left
  intro j hj
  have hjb : InBounds (keptLens ps idx) j := mem_allSubs.1 hj
  obtain ⟨d1, d2⟩ := decode_props ps idx i6 j hjb
  simp only [Function.comp]
  show kvLast ((sel.subs.map (Sparse.renumberRow ps idx)).zip sel.vals) j = _
  rw [zip_map_left']
  have hkeys : (sel.subs.zip sel.vals).map (·.1) = sel.subs := List.map_fst_zip (Nat.le_of_eq s1)
  rw [kvLast_map_key (sel.subs.zip sel.vals) (Sparse.renumberRow ps idx) (decodeRow ps idx)
    (by rw [hkeys]; exact s2)
    (by rw [hkeys]; intro r hr; exact encode_props ps idx i6 r (s3 r hr)) j d2]
  rw [kvLast_eq_kvSum _ _ (by rw [hkeys]; exact s2), s4 _ d1, h.cell]

end rt

end Pyttb
