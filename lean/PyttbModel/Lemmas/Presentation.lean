/-
Proofs for C18 (results do not depend on how the problem is presented).
Part A: list-level facts about the import-free models of `Alg/Presentation.lean`.
Part B: matrix-level scale / relabel facts (Mathlib matrices, finite products).
-/
import PyttbModel.Alg.Presentation
import PyttbModel.Lemmas.Idx
import Mathlib.Algebra.Order.Field.Basic
import Mathlib.Algebra.BigOperators.Group.Finset.Basic
import Mathlib.Algebra.BigOperators.Fin
import Mathlib.LinearAlgebra.Matrix.Trace
import Mathlib.Analysis.Real.Sqrt
import Mathlib.Tactic.Ring
import Mathlib.Tactic.Linarith
import Mathlib.Tactic.FieldSimp
set_option linter.unusedSectionVars false
namespace Pyttb.Pres

/-! # Part A -/

/-! ## representation independence -/

theorem iter_congr {σ : Type} {f g : σ → σ} (h : f = g) (k : Nat) (s : σ) : iter f k s = iter g k s := by
  rw [h]

theorem repr_independent {Q A σ : Type} (P : Q → Prop) (step : (Q → A) → σ → σ)
    (huses : UsesOnly P step) (d₁ d₂ : Q → A) (hag : ∀ q, P q → d₁ q = d₂ q) (k : Nat) (s : σ) :
    iter (step d₁) k s = iter (step d₂) k s ∧ trace (step d₁) k s = trace (step d₂) k s := by
  have h : step d₁ = step d₂ := huses d₁ d₂ hag
  rw [h]; exact ⟨rfl, rfl⟩

theorem repr_independent_out {Q A σ β : Type} (P : Q → Prop) (step : (Q → A) → σ → σ)
    (finish : (Q → A) → σ → β) (huses : UsesOnly P step) (hfin : UsesOnly P finish)
    (d₁ d₂ : Q → A) (hag : ∀ q, P q → d₁ q = d₂ q) (k : Nat) (s : σ) :
    finish d₁ (iter (step d₁) k s) = finish d₂ (iter (step d₂) k s) := by
  rw [huses d₁ d₂ hag, hfin d₁ d₂ hag]

theorem alsUpdate_congr {α : Type} (solveNorm : List (Mat α) → Nat → Mat α → Mat α)
    (d₁ d₂ : Query α → Answer α) (hag : ∀ q, q.isIface = true → d₁ q = d₂ q) :
    alsUpdate solveNorm d₁ = alsUpdate solveNorm d₂ := by
  funext U n
  simp [alsUpdate, hag (.mttkrp U n) rfl]

theorem alsSweep_usesOnly {α : Type} [Zero α] (solveNorm : List (Mat α) → Nat → Mat α → Mat α)
    (fitOf : α → List (Mat α) → Mat α → α) (dimorder : List Nat) :
    UsesOnly (fun q : Query α => q.isIface = true) (alsSweep solveNorm fitOf dimorder) := by
  intro d₁ d₂ hag
  funext s
  have hu := alsUpdate_congr solveNorm d₁ d₂ hag
  have hm : ∀ U n, d₁ (.mttkrp U n) = d₂ (.mttkrp U n) := fun U n => hag (.mttkrp U n) rfl
  simp only [alsSweep, hu, hag .normSq rfl, hm]

theorem denoteOracle_congr {α : Type} [Add α] [Mul α] [One α] [Zero α] (shape : List Nat)
    (g₁ g₂ : List Nat → α) (h : ∀ i, InBounds shape i → g₁ i = g₂ i) (q : Query α) :
    denoteOracle shape g₁ q = denoteOracle shape g₂ q := by
  have hm : ∀ i ∈ allSubs shape, g₁ i = g₂ i := fun i hi => h i (mem_allSubs.mp hi)
  cases q with
  | shape => rfl
  | normSq =>
    simp only [denoteOracle]
    congr 2
    exact List.map_congr_left (fun i hi => by rw [hm i hi])
  | mttkrp U n =>
    simp only [denoteOracle, mttkrpSpec]
    congr 1
    apply List.map_congr_left; intro j _
    apply List.map_congr_left; intro r _
    congr 1
    apply List.map_congr_left; intro i hi
    rw [hm i (List.mem_filter.mp hi).1]
  | innerK w U =>
    simp only [denoteOracle]
    congr 2
    exact List.map_congr_left (fun i hi => by rw [hm i hi])
  | entry i =>
    simp only [denoteOracle]
    by_cases hb : inBounds shape i = true
    · simp [hb, h i ((inBounds_iff shape i).mp hb)]
    · simp [hb]
  | ttmT U s => rfl
  | gram n => rfl
  | stored w => rfl

/-! ## the printing branch -/

theorem run_print_independent {σ : Type} (L : Loop σ) (R : σ → σ → Prop) (hR : Equivalence R)
    (hobs : ∀ s, R (L.observe s) s) (hstep : ∀ s t, R s t → R (L.step s) (L.step t))
    (hconv : ∀ it s t, R s t → L.converged it s = L.converged it t)
    (pr₁ pr₂ : Nat → Bool → Bool) :
    ∀ (fuel it : Nat) (s t : σ) (o₁ o₂ : List String), R s t →
      R (L.run pr₁ fuel it s o₁).state (L.run pr₂ fuel it t o₂).state ∧
      (L.run pr₁ fuel it s o₁).iters = (L.run pr₂ fuel it t o₂).iters := by
  intro fuel
  induction fuel with
  | zero => intro it s t o₁ o₂ h; exact ⟨h, rfl⟩
  | succ n ih =>
    intro it s t o₁ o₂ h
    have h1 : R (L.step s) (L.step t) := hstep s t h
    have hc : L.converged it (L.step s) = L.converged it (L.step t) := hconv it _ _ h1
    have h2 : R (if pr₁ it (L.converged it (L.step s)) then L.observe (L.step s) else L.step s)
        (if pr₂ it (L.converged it (L.step t)) then L.observe (L.step t) else L.step t) := by
      have ha : R (if pr₁ it (L.converged it (L.step s)) then L.observe (L.step s) else L.step s) (L.step s) := by
        split
        · exact hobs _
        · exact hR.refl _
      have hb : R (L.step t) (if pr₂ it (L.converged it (L.step t)) then L.observe (L.step t) else L.step t) := by
        split
        · exact hR.symm (hobs _)
        · exact hR.refl _
      exact hR.trans ha (hR.trans h1 hb)
    simp only [Loop.run]
    rw [← hc] at h2 ⊢
    cases hf : L.converged it (L.step s) with
    | true => simp only [if_true]; rw [hf] at h2; exact ⟨h2, trivial⟩
    | false =>
      simp only [Bool.false_eq_true, if_false]
      rw [hf] at h2
      exact ih (it + 1) _ _ _ _ h2

theorem run_print_independent_pure {σ : Type} (L : Loop σ) (hobs : ∀ s, L.observe s = s)
    (pr₁ pr₂ : Nat → Bool → Bool) (fuel it : Nat) (s : σ) (o₁ o₂ : List String) :
    (L.run pr₁ fuel it s o₁).state = (L.run pr₂ fuel it s o₂).state ∧
    (L.run pr₁ fuel it s o₁).iters = (L.run pr₂ fuel it s o₂).iters :=
  run_print_independent L Eq ⟨fun _ => rfl, fun h => h.symm, fun h g => h.trans g⟩
    hobs (fun _ _ h => by rw [h]) (fun _ _ _ h => by rw [h]) pr₁ pr₂ fuel it s s o₁ o₂ rfl

/-- silent run: nothing is printed and the state is never touched by `observe`. -/
theorem run_silent_printed {σ : Type} (L : Loop σ) :
    ∀ (fuel it : Nat) (s : σ) (o : List String), (L.run (fun _ _ => false) fuel it s o).printed = o := by
  intro fuel
  induction fuel with
  | zero => intro it s o; rfl
  | succ n ih =>
    intro it s o
    simp only [Loop.run, Bool.false_eq_true, if_false]
    split
    · rfl
    · exact ih _ _ _

/-! ### CP-APR MU: the status line only reads; the fix-up sees exact entries -/

theorem mu_print_independent {α : Type} [Add α] [Zero α] [LT α] [DecidableLT α] (kappa kappatol : α)
    (inner : Ktensor α → Nat → Ktensor α × Mat α × α × Bool) (pr₁ pr₂ : Nat → Bool → Bool)
    (fuel it : Nat) (s : MuState α) (o₁ o₂ : List String) :
    ((muLoop kappa kappatol inner).run pr₁ fuel it s o₁).state =
      ((muLoop kappa kappatol inner).run pr₂ fuel it s o₂).state ∧
    ((muLoop kappa kappatol inner).run pr₁ fuel it s o₁).iters =
      ((muLoop kappa kappatol inner).run pr₂ fuel it s o₂).iters :=
  run_print_independent_pure (muLoop kappa kappatol inner) (fun _ => rfl) pr₁ pr₂ fuel it s o₁ o₂

theorem zipWith_right_id {β γ : Type} (f : β → γ → γ) :
    ∀ (l₁ : List β) (l₂ : List γ), l₂.length ≤ l₁.length → (∀ p, ∀ a ∈ l₂, f p a = a) →
      List.zipWith f l₁ l₂ = l₂ := by
  intro l₁ l₂
  induction l₂ generalizing l₁ with
  | nil => intro _ _; simp
  | cons a as ih =>
    intro hlen h
    cases l₁ with
    | nil => simp at hlen
    | cons p ps =>
      simp only [List.zipWith_cons_cons]
      rw [h p a (by simp), ih ps (by simpa using hlen) (fun q b hb => h q b (by simp [hb]))]

/-- the fix-up leaves a factor alone when none of its entries is below `kappatol` -/
theorem muFixup_id {α : Type} [Add α] [Zero α] [LT α] [DecidableLT α] (kappa kappatol : α) :
    ∀ (Phi A : Mat α), List.Forall₂ (fun prow arow => arow.length ≤ prow.length) Phi A →
      (∀ arow ∈ A, ∀ a ∈ arow, ¬ a < kappatol) → muFixup kappa kappatol Phi A = A := by
  intro Phi A hsh
  induction hsh with
  | nil => intro _; rfl
  | cons hrow _ ih =>
    intro hpos
    simp only [muFixup, List.zipWith_cons_cons]
    congr 1
    · apply zipWith_right_id _ _ _ hrow
      intro p a ha
      have : ¬ a < kappatol := hpos _ (by simp) a ha
      simp [this]
    · exact ih (fun arow har a ha => hpos arow (by simp [har]) a ha)

/-! ### CP-APR: the re-normalisation of the likelihood evaluation -/

section apr
variable {α : Type} [Field α] [LinearOrder α] [IsStrictOrderedRing α]

theorem zipWith_mul_ones (w : List α) (n : Nat) (h : w.length ≤ n) :
    List.zipWith (· * ·) w (List.replicate n (1 : α)) = w := by
  induction w generalizing n with
  | nil => simp
  | cons a w ih =>
    cases n with
    | zero => simp at h
    | succ n =>
      simp only [List.replicate_succ, List.zipWith_cons_cons, mul_one]
      rw [ih n (by simpa using h)]

theorem zipWith_normCol_ones (row : List α) (n : Nat) (h : row.length ≤ n) :
    List.zipWith normCol (List.replicate n (1 : α)) row = row := by
  induction row generalizing n with
  | nil => simp
  | cons a w ih =>
    cases n with
    | zero => simp at h
    | succ n =>
      simp only [List.replicate_succ, List.zipWith_cons_cons]
      rw [ih n (by simpa using h)]
      simp [normCol]

theorem normalizeFactor_ones (A : Mat α) (n : Nat) (h : ∀ row ∈ A, row.length ≤ n) :
    normalizeFactor (List.replicate n (1 : α)) A = A := by
  unfold normalizeFactor
  conv_rhs => rw [← List.map_id A]
  exact List.map_congr_left (fun row hr => zipWith_normCol_ones row n (h row hr))

theorem scaleCols_ones (A : Mat α) (n : Nat) (h : ∀ row ∈ A, row.length ≤ n) :
    scaleCols A (List.replicate n (1 : α)) = A := by
  unfold scaleCols
  conv_rhs => rw [← List.map_id A]
  exact List.map_congr_left (fun row hr => zipWith_mul_ones row n (h row hr))

theorem map_const_one (w : List α) : w.map (fun _ => (1 : α)) = List.replicate w.length 1 := by
  induction w with
  | nil => rfl
  | cons a w ih => simp [List.replicate_succ, ih]

theorem redistribute0_idem (K : Ktensor α) : redistribute0 (redistribute0 K) = redistribute0 K := by
  cases K with
  | mk w F =>
    cases F with
    | nil => simp [redistribute0]
    | cons A rest =>
      simp only [redistribute0, List.map_map]
      congr 1
      congr 1
      rw [map_const_one]
      apply scaleCols_ones
      intro row hr
      simp only [scaleCols, List.mem_map] at hr
      obtain ⟨r0, _, rfl⟩ := hr
      simp only [List.length_zipWith]
      exact Nat.min_le_right _ _

theorem foldl_weights_ones (F : List (Mat α)) (colNorms : Mat α → List α) (w : List α)
    (h : ∀ A ∈ F, colNorms A = List.replicate w.length 1) :
    F.foldl (fun w A => List.zipWith (· * ·) w (colNorms A)) w = w := by
  induction F with
  | nil => rfl
  | cons A rest ih =>
    simp only [List.foldl_cons]
    rw [h A (by simp), zipWith_mul_ones w w.length (le_refl _)]
    exact ih (fun B hB => h B (by simp [hB]))

/-- On a model whose columns already have norm one (which is what the end of an outer
iteration leaves), the printing branch's re-normalisation followed by the `redistribute(0)`
with which the next outer iteration starts is the same as that `redistribute(0)` alone. -/
theorem apr_observe_then_redistribute (colNorms : Mat α → List α) (K : Ktensor α)
    (hnorm : ∀ A ∈ K.factors, colNorms A = List.replicate K.weights.length 1)
    (hrows : ∀ A ∈ K.factors, ∀ row ∈ A, row.length ≤ K.weights.length) :
    redistribute0 (aprObserve colNorms K) = redistribute0 K := by
  unfold aprObserve
  simp only
  rw [redistribute0_idem, foldl_weights_ones K.factors colNorms K.weights hnorm]
  have hF : K.factors.map (fun A => normalizeFactor (colNorms A) A) = K.factors := by
    conv_rhs => rw [← List.map_id K.factors]
    apply List.map_congr_left
    intro A hA
    rw [hnorm A hA]
    exact normalizeFactor_ones A _ (hrows A hA)
  rw [hF]

end apr

/-! ## random starts -/

theorem drawMat_take {α : Type} (r c : Nat) : ∀ (d : List α) (m : Nat), r * c ≤ m →
    (drawMat r c (d.take m)).1 = (drawMat r c d).1 ∧
    (drawMat r c (d.take m)).2 = (drawMat r c d).2.take (m - r * c) := by
  induction r with
  | zero => intro d m _; simp [drawMat]
  | succ r ih =>
    intro d m hm
    have hc : c ≤ m := by
      have : (r + 1) * c = r * c + c := by ring
      omega
    have hrc : r * c ≤ m - c := by
      have : (r + 1) * c = r * c + c := by ring
      omega
    simp only [drawMat, takeRow]
    have h1 : (d.take m).take c = d.take c := by rw [List.take_take, Nat.min_eq_left hc]
    have h2 : (d.take m).drop c = (d.drop c).take (m - c) := by rw [List.drop_take]
    rw [h1, h2]
    obtain ⟨ha, hb⟩ := ih (d.drop c) (m - c) hrc
    rw [ha, hb]
    refine ⟨rfl, ?_⟩
    have : m - c - r * c = m - (r + 1) * c := by
      have : (r + 1) * c = r * c + c := by ring
      omega
    rw [this]

theorem drawMats_take {α : Type} (dims : List (Nat × Nat)) : ∀ (d : List α) (m : Nat),
    drawsNeeded dims ≤ m → (drawMats dims (d.take m)).1 = (drawMats dims d).1 := by
  induction dims with
  | nil => intro d m _; rfl
  | cons p rest ih =>
    intro d m hm
    obtain ⟨r, c⟩ := p
    have hsum : drawsNeeded ((r, c) :: rest) = r * c + drawsNeeded rest := by
      simp [drawsNeeded]
    rw [hsum] at hm
    obtain ⟨ha, hb⟩ := drawMat_take r c d m (by omega)
    simp only [drawMats]
    rw [ha, hb, ih (drawMat r c d).2 (m - r * c) (by omega)]

theorem seed_deterministic {α β : Type} (dims : List (Nat × Nat)) (run : List (Mat α) → β)
    (d₁ d₂ : List α) (h : d₁.take (drawsNeeded dims) = d₂.take (drawsNeeded dims)) :
    withRandomStart dims run d₁ = withRandomStart dims run d₂ := by
  unfold withRandomStart
  rw [← drawMats_take dims d₁ _ (le_refl _), ← drawMats_take dims d₂ _ (le_refl _), h]

/-! ## HOSVD's rank choice under scaling -/

section rank
variable {α : Type} [Field α] [LinearOrder α] [IsStrictOrderedRing α]

theorem revCumsum_map_mul (k : α) (l : List α) :
    revCumsum (l.map (k * ·)) = (revCumsum l).map (k * ·) := by
  induction l with
  | nil => rfl
  | cons x xs ih =>
    simp only [List.map_cons, revCumsum, ih]
    congr 1
    cases revCumsum xs with
    | nil => simp
    | cons y ys => simp [mul_add]

theorem lastIdxGt_scale (k : α) (hk : 0 < k) (l : List α) (t : α) :
    lastIdxGt (l.map (k * ·)) (k * t) = lastIdxGt l t := by
  unfold lastIdxGt
  rw [List.length_map]
  apply List.foldl_ext
  intro acc i _
  have : (l.map (k * ·)).getD i (k * t) = k * l.getD i t := by
    simp only [List.getD_eq_getElem?_getD, List.getElem?_map]
    cases l[i]? <;> rfl
  rw [this]
  have hiff : k * t < k * l.getD i t ↔ t < l.getD i t := mul_lt_mul_iff_right₀ hk
  by_cases h : t < l.getD i t
  · rw [if_pos h, if_pos (hiff.mpr h)]
  · rw [if_neg h, if_neg (fun h' => h (hiff.mp h'))]

theorem hosvdRank_scale (c : α) (hc : 0 < c) (eigs : List α) (t : α) :
    hosvdRank (eigs.map (c * c * ·)) (c * c * t) = hosvdRank eigs t := by
  unfold hosvdRank
  rw [revCumsum_map_mul, lastIdxGt_scale (c * c) (mul_pos hc hc)]

theorem eigThresh_scale (c tol n d : α) : eigThresh tol (c * c * n) d = c * c * eigThresh tol n d := by
  unfold eigThresh
  ring

end rank

/-! # Part B — matrix level: scale and relabel -/

section matrix
open Matrix
variable {m n r : Type} [Fintype m] [Fintype n] [Fintype r] [DecidableEq r] {𝕜 : Type} [Field 𝕜]

/-- ALS mode update `A⋆ (ZᵀZ) = X₍ₙ₎ Z`: the scaled solution solves the scaled system and the
mode-n unfolding `A⋆ Zᵀ` of the model scales with it. -/
theorem als_step_scale (X : Matrix m n 𝕜) (Z : Matrix n r 𝕜) (A : Matrix m r 𝕜) (c : 𝕜)
    (h : A * (Zᵀ * Z) = X * Z) :
    (c • A) * (Zᵀ * Z) = (c • X) * Z ∧ (c • A) * Zᵀ = c • (A * Zᵀ) := by
  refine ⟨?_, ?_⟩
  · rw [Matrix.smul_mul, Matrix.smul_mul, h]
  · rw [Matrix.smul_mul]

/-- when the coefficient matrix is invertible the scaled solution is the only one -/
theorem als_step_scale_unique (X : Matrix m n 𝕜) (Z : Matrix n r 𝕜) (A A' : Matrix m r 𝕜)
    (Gi : Matrix r r 𝕜) (c : 𝕜) (hG : (Zᵀ * Z) * Gi = 1)
    (h : A * (Zᵀ * Z) = X * Z) (h' : A' * (Zᵀ * Z) = (c • X) * Z) : A' = c • A := by
  calc A' = A' * ((Zᵀ * Z) * Gi) := by rw [hG, Matrix.mul_one]
    _ = (A' * (Zᵀ * Z)) * Gi := (Matrix.mul_assoc A' (Zᵀ * Z) Gi).symm
    _ = ((c • A) * (Zᵀ * Z)) * Gi := by rw [h', (als_step_scale X Z A c h).1]
    _ = (c • A) * ((Zᵀ * Z) * Gi) := Matrix.mul_assoc _ _ _
    _ = c • A := by rw [hG, Matrix.mul_one]

/-- The same with the other factors known only up to an invertible column scaling `D`
(`Z' = Z D`, which is what CP-ALS's `max(·,1)` normalisation produces when the data are
scaled): the solution is `c • A E ᵀ` with `E = D⁻¹` and the model unfolding still scales by `c`. -/
theorem als_step_scale_colscaled (X : Matrix m n 𝕜) (Z : Matrix n r 𝕜) (A : Matrix m r 𝕜)
    (D E : Matrix r r 𝕜) (c : 𝕜) (hDE : D * E = 1) (h : A * (Zᵀ * Z) = X * Z) :
    (c • (A * Eᵀ)) * ((Z * D)ᵀ * (Z * D)) = (c • X) * (Z * D) ∧
    (c • (A * Eᵀ)) * (Z * D)ᵀ = c • (A * Zᵀ) := by
  have hED : Eᵀ * Dᵀ = 1 := by rw [← Matrix.transpose_mul, hDE, Matrix.transpose_one]
  have key : A * Eᵀ * (Z * D)ᵀ = A * Zᵀ := by
    rw [Matrix.transpose_mul, Matrix.mul_assoc, ← Matrix.mul_assoc Eᵀ, hED, Matrix.one_mul]
  refine ⟨?_, ?_⟩
  · rw [Matrix.smul_mul, Matrix.smul_mul, ← Matrix.mul_assoc (A * Eᵀ), key,
      ← Matrix.mul_assoc, ← Matrix.mul_assoc, Matrix.mul_assoc A, h]
  · rw [Matrix.smul_mul, key]

/-- squared Frobenius norm -/
noncomputable def fro2 {m n : Type} [Fintype m] [Fintype n] (A : Matrix m n ℝ) : ℝ := (A * Aᵀ).trace

/-- `‖X − M‖ / ‖X‖` -/
noncomputable def relErr {m n : Type} [Fintype m] [Fintype n] (X M : Matrix m n ℝ) : ℝ :=
  Real.sqrt (fro2 (X - M)) / Real.sqrt (fro2 X)

theorem fro2_smul {m n : Type} [Fintype m] [Fintype n] (c : ℝ) (A : Matrix m n ℝ) :
    fro2 (c • A) = c * c * fro2 A := by
  unfold fro2
  rw [Matrix.transpose_smul, Matrix.smul_mul, Matrix.mul_smul, smul_smul, Matrix.trace_smul, smul_eq_mul]

theorem sqrt_scale (c t : ℝ) (hc : 0 < c) : Real.sqrt (c * c * t) = c * Real.sqrt t := by
  rw [Real.sqrt_mul (mul_self_nonneg c), Real.sqrt_mul_self hc.le]

theorem relErr_scale {m n : Type} [Fintype m] [Fintype n] (c : ℝ) (hc : 0 < c) (X M : Matrix m n ℝ) :
    relErr (c • X) (c • M) = relErr X M := by
  unfold relErr
  rw [← smul_sub, fro2_smul, fro2_smul, sqrt_scale _ _ hc, sqrt_scale _ _ hc,
    mul_div_mul_left _ _ hc.ne']

/-- `cp_als`'s reported fit `1 − sqrt|‖X‖² + ‖M‖² − 2⟨X,M⟩| / ‖X‖` -/
noncomputable def alsFit (normX normM2 iprod : ℝ) : ℝ :=
  1 - Real.sqrt |normX * normX + normM2 - 2 * iprod| / normX

theorem alsFit_scale (c : ℝ) (hc : 0 < c) (normX normM2 iprod : ℝ) :
    alsFit (c * normX) (c * c * normM2) (c * c * iprod) = alsFit normX normM2 iprod := by
  unfold alsFit
  have : c * normX * (c * normX) + c * c * normM2 - 2 * (c * c * iprod)
      = c * c * (normX * normX + normM2 - 2 * iprod) := by ring
  rw [this, abs_mul, abs_mul_self, sqrt_scale _ _ hc, mul_div_mul_left _ _ hc.ne']

/-- `tucker_als`'s reported fit `1 − sqrt|‖X‖² − ‖core‖²| / ‖X‖` -/
noncomputable def tuckerFit (normX core2 : ℝ) : ℝ :=
  1 - Real.sqrt |normX * normX - core2| / normX

theorem tuckerFit_scale (c : ℝ) (hc : 0 < c) (normX core2 : ℝ) :
    tuckerFit (c * normX) (c * c * core2) = tuckerFit normX core2 := by
  unfold tuckerFit
  have : c * normX * (c * normX) - c * c * core2 = c * c * (normX * normX - core2) := by ring
  rw [this, abs_mul, abs_mul_self, sqrt_scale _ _ hc, mul_div_mul_left _ _ hc.ne']

/-- Gram matrix of a scaled unfolding, its eigenpairs, and the projected core. -/
theorem gram_scale (Y : Matrix m n 𝕜) (c : 𝕜) : (c • Y) * (c • Y)ᵀ = (c * c) • (Y * Yᵀ) := by
  rw [Matrix.transpose_smul, Matrix.smul_mul, Matrix.mul_smul, smul_smul]

theorem eig_scale {m : Type} [Fintype m] (Z : Matrix m m 𝕜) (v : m → 𝕜) (μ k : 𝕜) (h : Z *ᵥ v = μ • v) :
    (k • Z) *ᵥ v = (k * μ) • v := by
  rw [Matrix.smul_mulVec, h, smul_smul]

theorem core_scale (U : Matrix m r 𝕜) (Y : Matrix m n 𝕜) (c : 𝕜) : Uᵀ * (c • Y) = c • (Uᵀ * Y) := by
  rw [Matrix.mul_smul]

/-- `cp_als` skips the solve when the coefficient matrix is entirely zero (`(Y == 0).all()`); for the
scaled data that matrix is `c²` times the original one, so the guard takes the same branch. -/
theorem als_zero_guard_scale {r : Type} {𝕜 : Type} [Field 𝕜] (Y : Matrix r r 𝕜) (c : 𝕜) (hc : c ≠ 0) :
    (c * c) • Y = 0 ↔ Y = 0 := by
  constructor
  · intro h
    rcases smul_eq_zero.mp h with h0 | h0
    · exact absurd h0 (mul_ne_zero hc hc)
    · exact h0
  · intro h; rw [h, smul_zero]

end matrix

/-! ## relabelling the modes -/

section relabel
variable {ι F : Type} [DecidableEq ι]

/-- One mode update: the new factor of mode `n` is `q U n` (whatever the driver computes
from the data and the current factors). -/
def modeUpdate (q : (ι → F) → ι → F) (U : ι → F) (n : ι) : ι → F := Function.update U n (q U n)

/-- the mode updates in the given order -/
def sweep (q : (ι → F) → ι → F) (order : List ι) (U : ι → F) : ι → F := order.foldl (modeUpdate q) U

theorem modeUpdate_relabel (π : Equiv.Perm ι) (qX qY : (ι → F) → ι → F)
    (h : ∀ U k, qY (U ∘ π) k = qX U (π k)) (U : ι → F) (k : ι) :
    modeUpdate qY (U ∘ π) k = modeUpdate qX U (π k) ∘ π := by
  unfold modeUpdate
  rw [h]
  funext j
  by_cases hj : j = k
  · subst hj; simp
  · have : π j ≠ π k := fun e => hj (π.injective e)
    simp [Function.update_of_ne hj, Function.update_of_ne this]

theorem sweep_relabel (π : Equiv.Perm ι) (qX qY : (ι → F) → ι → F)
    (h : ∀ U k, qY (U ∘ π) k = qX U (π k)) (order : List ι) (U : ι → F) :
    sweep qY (order.map π.symm) (U ∘ π) = sweep qX order U ∘ π := by
  unfold sweep
  induction order generalizing U with
  | nil => rfl
  | cons a rest ih =>
    simp only [List.map_cons, List.foldl_cons]
    rw [modeUpdate_relabel π qX qY h U (π.symm a), Equiv.apply_symm_apply]
    exact ih _

variable [Fintype ι] {G B : Type} [CommMonoid G]

/-- the CP-ALS query: solve against the product of the other modes' Gram matrices -/
def alsQuery (gram : F → G) (solve : G → B → F) (mt : (ι → F) → ι → B) (U : ι → F) (n : ι) : F :=
  solve (∏ k ∈ Finset.univ.erase n, gram (U k)) (mt U n)

theorem alsQuery_relabel (gram : F → G) (solve : G → B → F) (π : Equiv.Perm ι)
    (mX mY : (ι → F) → ι → B) (h : ∀ U k, mY (U ∘ π) k = mX U (π k)) (U : ι → F) (k : ι) :
    alsQuery gram solve mY (U ∘ π) k = alsQuery gram solve mX U (π k) := by
  unfold alsQuery
  rw [h]
  congr 1
  apply Finset.prod_equiv π
  · intro i
    simp [Finset.mem_erase, π.injective.ne_iff]
  · intro i _; rfl

/-- `mttkrp` as a sum over all subscripts (all modes indexed by one finite type `κ`). -/
def mttkrpF {κ ρ α : Type} [Fintype κ] [DecidableEq κ] [CommSemiring α]
    (X : (ι → κ) → α) (U : ι → κ → ρ → α) (n : ι) (j : κ) (r : ρ) : α :=
  ∑ i : ι → κ, if i n = j then X i * ∏ m ∈ Finset.univ.erase n, U m (i m) r else 0

/-- permuting the modes of the data and of the factors consistently permutes the mode
argument of `mttkrp`: `mttkrp (permute X π) (permute U π) k = mttkrp X U (π k)`. -/
theorem mttkrpF_relabel {κ ρ α : Type} [Fintype κ] [DecidableEq κ] [CommSemiring α]
    (X : (ι → κ) → α) (U : ι → κ → ρ → α) (π : Equiv.Perm ι) (k : ι) (j : κ) (r : ρ) :
    mttkrpF (fun i' => X (i' ∘ π.symm)) (fun m => U (π m)) k j r = mttkrpF X U (π k) j r := by
  unfold mttkrpF
  apply Fintype.sum_equiv (Equiv.arrowCongr π (Equiv.refl κ))
  intro i'
  have h1 : (Equiv.arrowCongr π (Equiv.refl κ)) i' = i' ∘ π.symm := by
    funext x; simp [Equiv.arrowCongr]
  rw [h1]
  simp only [Function.comp_apply, Equiv.symm_apply_apply]
  congr 2
  apply Finset.prod_equiv π
  · intro i
    simp [Finset.mem_erase, π.injective.ne_iff]
  · intro i _; simp

end relabel

/-! ## CP-APR: the dense and the sparse formulas are the same sums -/

section apr_sums
variable {α : Type} [Field α] [LinearOrder α] {J : Type} [DecidableEq J]

/-- `Φ[·, r]` restricted to one row: the sparse branch sums `x_j / max(v_j, ε) · π_j` over the
stored entries only, the dense branch over the whole unfolded row; they agree as soon as every
entry outside the stored set is zero. -/
theorem apr_phi_dense_eq_sparse (all supp : Finset J) (hsub : supp ⊆ all) (x v p : J → α) (eps : α)
    (hz : ∀ j ∈ all, j ∉ supp → x j = 0) :
    ∑ j ∈ supp, x j / max (v j) eps * p j = ∑ j ∈ all, x j / max (v j) eps * p j := by
  apply Finset.sum_subset hsub
  intro j hj hn
  rw [hz j hj hn, zero_div, zero_mul]

/-- the data term of the log-likelihood: `Σ x_j · g_j` over the stored entries equals the dense
loop that skips the zero entries (`g` stands for `log(model)`). -/
theorem apr_loglik_dense_eq_sparse (all supp : Finset J) (hsub : supp ⊆ all) (x g : J → α)
    (hz : ∀ j ∈ all, j ∉ supp → x j = 0) :
    ∑ j ∈ supp, x j * g j = ∑ j ∈ all.filter (fun j => x j ≠ 0), x j * g j := by
  rw [Finset.sum_filter]
  rw [Finset.sum_subset hsub (f := fun j => x j * g j) (by intro j hj hn; rw [hz j hj hn, zero_mul])]
  apply Finset.sum_congr rfl
  intro j _
  by_cases h : x j = 0
  · simp [h]
  · simp [h]

end apr_sums

end Pyttb.Pres
