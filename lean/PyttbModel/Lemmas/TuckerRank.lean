/-
C10 — the real-number instance of the numeric services, the descending sort, the reverse
cumulative sum and the rank cut-off rule of `hosvd` (the regenerated definitions of
`Generated/TuckerFormulas.lean` are unfolded here: a change of the Python rule that breaks
the property breaks these proofs).
-/
import PyttbModel.Lemmas.TuckerSpectral
import Mathlib.Analysis.Real.Sqrt
namespace Pyttb
namespace Tk
open Finset

/-- The numeric services over ℝ. -/
noncomputable def realOps : NumOps ℝ where
  div a b := a / b
  sqrt := Real.sqrt
  abs a := |a|
  lt a b := decide (a < b)
  ofNat n := (n : ℝ)

/-! ### descending sort -/

theorem argsortDesc_perm (D : List ℝ) : (argsortDesc realOps D).Perm (List.range D.length) :=
  List.mergeSort_perm _ _

theorem argsortDesc_nodup (D : List ℝ) : (argsortDesc realOps D).Nodup :=
  (argsortDesc_perm D).nodup_iff.2 List.nodup_range

theorem argsortDesc_lt (D : List ℝ) : ∀ i ∈ argsortDesc realOps D, i < D.length := by
  intro i hi
  simpa using (argsortDesc_perm D).mem_iff.1 hi

theorem argsortDesc_length (D : List ℝ) : (argsortDesc realOps D).length = D.length := by
  simpa using (argsortDesc_perm D).length_eq

theorem argsortDesc_sorted (D : List ℝ) :
    (argsortDesc realOps D).Pairwise (fun i j => D.getD j 0 ≤ D.getD i 0) := by
  have := List.pairwise_mergeSort (le := fun i j => !(realOps.lt (D.getD i 0) (D.getD j 0)))
    (by
      intro a b c h1 h2
      simp only [realOps, Bool.not_eq_true', decide_eq_false_iff_not, not_lt] at h1 h2 ⊢
      exact le_trans h2 h1)
    (by
      intro a b
      simp only [realOps, Bool.or_eq_true, Bool.not_eq_true', decide_eq_false_iff_not, not_lt]
      exact le_total _ _)
    (List.range D.length)
  refine List.Pairwise.imp ?_ this
  intro a b h
  simpa [realOps] using h

theorem sum_argsortDesc (D : List ℝ) (f : Nat → ℝ) :
    ((argsortDesc realOps D).map f).sum = ∑ c ∈ range D.length, f c := by
  rw [((argsortDesc_perm D).map f).sum_eq, list_sum_range]

/-! ### reverse cumulative sum -/

theorem revCumsum_cons (x : ℝ) (l : List ℝ) : revCumsum (x :: l) = (l.sum + x) :: revCumsum l := by
  induction l generalizing x with
  | nil => simp [revCumsum]
  | cons y r ih =>
    have h := ih y
    simp only [revCumsum] at h ⊢
    rw [h]
    simp only [List.sum_cons, List.cons.injEq, and_true]
    ring

theorem revCumsum_length (l : List ℝ) : (revCumsum l).length = l.length := by
  induction l with
  | nil => rfl
  | cons x l ih => rw [revCumsum_cons]; simp [ih]

theorem revCumsum_getD (l : List ℝ) (i : Nat) (hi : i < l.length) : (revCumsum l).getD i 0 = (l.drop i).sum := by
  induction l generalizing i with
  | nil => simp at hi
  | cons x l ih =>
    rw [revCumsum_cons]
    cases i with
    | zero => simp; ring
    | succ i =>
      simp only [List.length_cons, Nat.add_lt_add_iff_right] at hi
      simpa using ih i hi

theorem sum_drop_anti (l : List ℝ) (h : ∀ x ∈ l, 0 ≤ x) {i j : Nat} (hij : i ≤ j) :
    (l.drop j).sum ≤ (l.drop i).sum := by
  induction l generalizing i j with
  | nil => simp
  | cons x l ih =>
    have hx : 0 ≤ x := h x (by simp)
    have hl : ∀ y ∈ l, 0 ≤ y := fun y hy => h y (by simp [hy])
    cases i with
    | zero =>
      cases j with
      | zero => exact le_refl _
      | succ j =>
        have := ih hl (Nat.zero_le j)
        simp only [List.drop_succ_cons, List.drop_zero, List.sum_cons] at this ⊢
        linarith
    | succ i =>
      cases j with
      | zero => omega
      | succ j => simpa using ih hl (Nat.le_of_succ_le_succ hij)

/-! ### last qualifying position -/

theorem getLast_filter_range {q : Nat → Bool} {n i : Nat}
    (h : ((List.range n).filter q).getLast? = some i) :
    i < n ∧ q i = true ∧ ∀ j, i < j → j < n → q j = false := by
  obtain ⟨ys, hys⟩ := List.getLast?_eq_some_iff.1 h
  have hmem : i ∈ (List.range n).filter q := by rw [hys]; simp
  have hi : i < n := by simpa using (List.mem_filter.1 hmem).1
  have hqi : q i = true := (List.mem_filter.1 hmem).2
  refine ⟨hi, hqi, ?_⟩
  intro j hij hj
  by_contra hc
  have hqj : q j = true := by simpa using hc
  have hjm : j ∈ ys ++ [i] := by
    rw [← hys]; exact List.mem_filter.2 ⟨by simpa using hj, hqj⟩
  have hpw : (ys ++ [i]).Pairwise (· < ·) := by
    rw [← hys]; exact List.Pairwise.filter _ List.pairwise_lt_range
  rcases List.mem_append.1 hjm with hj1 | hj1
  · have := (List.pairwise_append.1 hpw).2.2 j hj1 i (by simp)
    omega
  · have : j = i := by simpa using hj1
    omega

theorem lastIdxWhere_some {p : ℝ → Bool} {l : List ℝ} {i : Nat} (h : lastIdxWhere p l = some i) :
    i < l.length ∧ p (l.getD i 0) = true ∧ ∀ j, i < j → j < l.length → p (l.getD j 0) = false := by
  obtain ⟨hi, hqi, hrest⟩ := getLast_filter_range h
  refine ⟨hi, ?_, ?_⟩
  · simpa [List.getD_eq_getElem?_getD, List.getElem?_eq_getElem hi] using hqi
  · intro j hij hj
    simpa [List.getD_eq_getElem?_getD, List.getElem?_eq_getElem hj] using hrest j hij hj

/-! ### the cut-off rule -/

/-- Discarded tail when `r` leading eigenvalues are kept. -/
def tail (eig : List ℝ) (r : Nat) : ℝ := (eig.drop r).sum

/-- What `np.where(eigsum > eigsumthresh)[0][-1] + 1` returns: at least one and at most all
eigenvalues are kept; the discarded tail is within the threshold; keeping one eigenvalue less
is not. -/
theorem rankCut_spec (eig : List ℝ) (thresh : ℝ) (h0 : 0 ≤ thresh) {r : Nat}
    (h : Gen.rankCut realOps (Gen.eigsum eig) thresh = some r) :
    1 ≤ r ∧ r ≤ eig.length ∧ tail eig r ≤ thresh ∧ thresh < tail eig (r - 1) := by
  simp only [Gen.rankCut, Gen.eigsum, Gen.cutOffset, Option.map_eq_some_iff] at h
  obtain ⟨i, hi, rfl⟩ := h
  obtain ⟨h1, h2, h3⟩ := lastIdxWhere_some hi
  rw [revCumsum_length] at h1 h3
  refine ⟨by omega, by omega, ?_, ?_⟩
  · by_cases hr : i + 1 < eig.length
    · have := h3 (i + 1) (by omega) hr
      rw [revCumsum_getD eig _ hr] at this
      simpa [Gen.cutCond, realOps, tail] using this
    · have : eig.drop (i + 1) = [] := List.drop_eq_nil_of_le (by omega)
      simp [tail, this, h0]
  · rw [revCumsum_getD eig _ h1] at h2
    simpa [Gen.cutCond, realOps, tail] using h2

/-- With non-negative eigenvalues the kept count is the LEAST one whose discarded tail is
within the threshold. -/
theorem rankCut_least (eig : List ℝ) (hnn : ∀ x ∈ eig, 0 ≤ x) (thresh : ℝ) (h0 : 0 ≤ thresh) {r : Nat}
    (h : Gen.rankCut realOps (Gen.eigsum eig) thresh = some r) :
    tail eig r ≤ thresh ∧ ∀ r' < r, thresh < tail eig r' := by
  obtain ⟨h1, _, h3, h4⟩ := rankCut_spec eig thresh h0 h
  refine ⟨h3, ?_⟩
  intro r' hr'
  exact lt_of_lt_of_le h4 (sum_drop_anti eig hnn (by omega))

theorem chooseRank_given (thresh : ℝ) (eig : List ℝ) {req r : Nat} (hreq : req ≠ 0)
    (h : chooseRank realOps thresh eig req = some r) : r = req := by
  unfold chooseRank at h
  have hne : (req == Gen.autoMarker) = false := by simpa [Gen.autoMarker] using hreq
  rw [hne] at h
  simpa using h.symm

theorem chooseRank_auto (thresh : ℝ) (eig : List ℝ) {r : Nat}
    (h : chooseRank realOps thresh eig 0 = some r) : Gen.rankCut realOps (Gen.eigsum eig) thresh = some r := by
  simpa [chooseRank, Gen.autoMarker] using h

@[simp] theorem sliceBound_eq (r : Nat) : Gen.sliceBound r = r := by simp [Gen.sliceBound]

end Tk
end Pyttb
