/-
Lemmas for the C13 additions: `zeros(..., with_replacement=False)` and the data checks of
`fg_setup.setup`.
-/
import PyttbModel.Alg.SamplersNoRepl
import PyttbModel.Alg.GcpSetup
import PyttbModel.Lemmas.Samplers

namespace Pyttb
namespace Samp

/-! ### `np.unique(axis=0)` -/

theorem mem_dedupRows {l : List (List Int)} {r : List Int} : r ∈ dedupRows l ↔ r ∈ l := by
  induction l with
  | nil => simp [dedupRows]
  | cons x xs ih =>
    unfold dedupRows
    split
    · rename_i hc
      have hx : x ∈ xs := by simpa using hc
      rw [ih]
      constructor
      · exact fun h => List.mem_cons_of_mem _ h
      · intro h
        rcases List.mem_cons.mp h with rfl | h
        · exact hx
        · exact h
    · simp [ih]

theorem dedupRows_nodup (l : List (List Int)) : (dedupRows l).Nodup := by
  induction l with
  | nil => simp [dedupRows]
  | cons x xs ih =>
    unfold dedupRows
    split
    · exact ih
    · rename_i hc
      have hx : x ∉ xs := by simpa using hc
      exact List.nodup_cons.mpr ⟨fun h => hx (mem_dedupRows.mp h), ih⟩

theorem insertRow_perm (r : List Int) (l : List (List Int)) : (insertRow r l).Perm (r :: l) := by
  induction l with
  | nil => simp [insertRow]
  | cons x xs ih =>
    unfold insertRow
    split
    · exact List.Perm.refl _
    · exact ((List.Perm.cons x ih).trans (List.Perm.swap r x xs))

theorem sortRows_perm (l : List (List Int)) : (sortRows l).Perm l := by
  induction l with
  | nil => simp [sortRows]
  | cons x xs ih =>
    show (insertRow x (sortRows xs)).Perm (x :: xs)
    exact (insertRow_perm x _).trans (List.Perm.cons x ih)

theorem mem_uniqueRows {l : List (List Int)} {r : List Int} : r ∈ uniqueRows l ↔ r ∈ l := by
  unfold uniqueRows
  rw [(sortRows_perm _).mem_iff, mem_dedupRows]

theorem uniqueRows_nodup (l : List (List Int)) : (uniqueRows l).Nodup := by
  unfold uniqueRows
  exact (sortRows_perm _).nodup_iff.mpr (dedupRows_nodup l)

/-! ### the rejection sampler without replacement -/

section norepl
variable {α : Type} [Field α] [LinearOrder α] [IsStrictOrderedRing α]

/-- Everything an accepted call of `zeros(..., with_replacement=False)` guarantees. -/
theorem zerosNoReplS_ok {floor ceil : α → Int} {shape nzIdx : List Nat} {samples : Nat} {rate : α}
    {draws : List (List α)} {z : List (List Int)}
    (h : zerosNoReplS floor ceil shape nzIdx samples rate draws = .ok z) :
    z.length ≤ samples ∧ samples ≤ numel shape - nzIdx.length ∧ z.Nodup ∧
    ∀ i ∈ z, InBoundsI shape i ∧ sub2ind shape (i.map Int.toNat) ∉ nzIdx ∧
      i ∈ draws.map (drawRow (drawSub floor) shape) := by
  unfold zerosNoReplS at h
  simp only at h
  split at h
  · cases h
  split at h
  · cases h
  rename_i hsz
  split at h
  · cases h
  split at h
  · cases h
  simp only [bind, Except.bind] at h
  split at h
  · cases h
  rename_i tmpidx hidx
  injection h with h
  subst h
  obtain ⟨hin, hmap⟩ := ttSub2indI_ok hidx
  have hlen : (uniqueRows (draws.map (drawRow (drawSub floor) shape))).length ≤ tmpidx.length := by
    subst hmap; simp
  refine ⟨by simp only [List.length_take]; omega, by omega, ?_, ?_⟩
  · refine List.Nodup.sublist (List.take_sublist _ _) ?_
    refine List.Nodup.sublist (List.Sublist.map _ (List.filter_sublist)) ?_
    rw [List.map_fst_zip hlen]
    exact uniqueRows_nodup _
  · intro i hi
    have hi := List.mem_of_mem_take hi
    simp only [List.mem_map, List.mem_filter] at hi
    obtain ⟨p, ⟨hp, hnot⟩, rfl⟩ := hi
    have h1 : p.1 ∈ uniqueRows (draws.map (drawRow (drawSub floor) shape)) := (List.of_mem_zip hp).1
    refine ⟨hin _ h1, ?_, mem_uniqueRows.mp h1⟩
    have h2 : p.2 = sub2ind shape (p.1.map Int.toNat) := by
      subst hmap
      exact mem_zip_map_self _ _ p hp
    rw [← h2]
    simpa using hnot

/-- The branch without replacement does not hide behind its error path: an admissible rate,
no more samples than zeros, `ceil(samples·size/zeros) < size`, no empty mode and draws in
`[0,1)` (one per mode) are answered. -/
theorem zerosNoReplS_accepts {floor ceil : α → Int} (hf : FloorOk floor) {shape nzIdx : List Nat}
    {samples : Nat} {rate : α} {draws : List (List α)}
    (hrate : ¬ rate < ((11 : Nat) : α) / ((10 : Nat) : α))
    (hs : samples ≤ numel shape - nzIdx.length) (hz : nzIdx.length < numel shape)
    (hnt : ceil (((samples * numel shape : Nat) : α) / ((numel shape - nzIdx.length : Nat) : α))
      < (numel shape : Int))
    (hpos : ∀ s ∈ shape, 0 < s) (hrows : ∀ row ∈ draws, RowOk shape row) :
    ∃ z, zerosNoReplS floor ceil shape nzIdx samples rate draws = .ok z := by
  unfold zerosNoReplS
  have hz' : ¬ (numel shape - nzIdx.length == 0) = true := by
    simp only [beq_iff_eq]; omega
  have hs' : ¬ numel shape - nzIdx.length < samples := by omega
  have hnt' : ¬ (numel shape : Int) ≤
      ceil (((samples * numel shape : Nat) : α) / ((numel shape - nzIdx.length : Nat) : α)) := by omega
  simp only [bind, Except.bind, if_neg hrate, if_neg hz', if_neg hs', if_neg hnt']
  rw [ttSub2indI_of_inBounds]
  · exact ⟨_, rfl⟩
  · intro i hi
    have hi := mem_uniqueRows.mp hi
    simp only [List.mem_map] at hi
    obtain ⟨row, hrow, rfl⟩ := hi
    exact drawRow_inBounds _ (fun u h0 h1 s hs => drawSub_range hf h0 h1 hs) hpos (hrows row hrow)

end norepl
end Samp

/-! ### data checks of `fg_setup.setup` -/

namespace GcpSetup

section sparse
variable {α : Type} [AddMonoid α]

/-- A statement about every entry of a sparse tensor with distinct stored subscripts is the
statement about `0` (the entries that are not stored) and about every stored value. -/
theorem sparse_forall_get_iff (S : Sparse α) (hn : S.subs.Nodup) (hlen : S.subs.length = S.vals.length)
    (P : α → Prop) (h0 : P 0) : (∀ i, P (S.get i)) ↔ ∀ v ∈ S.vals, P v := by
  constructor
  · intro h v hv
    obtain ⟨k, hk, rfl⟩ := List.mem_iff_getElem.mp hv
    have hk' : k < S.subs.length := by omega
    have hm : (S.subs[k], S.vals[k]) ∈ S.subs.zip S.vals := by
      rw [List.mem_iff_getElem]
      exact ⟨k, by simp [List.length_zip]; omega, by simp⟩
    rw [← Samp.Sparse.get_of_mem S hn hm]
    exact h _
  · intro h i
    by_cases hi : i ∈ S.subs
    · obtain ⟨k, hk, rfl⟩ := List.mem_iff_getElem.mp hi
      have hk' : k < S.vals.length := by omega
      have hm : (S.subs[k], S.vals[k]) ∈ S.subs.zip S.vals := by
        rw [List.mem_iff_getElem]
        exact ⟨k, by simp [List.length_zip]; omega, by simp⟩
      rw [Samp.Sparse.get_of_mem S hn hm]
      exact h _ (List.getElem_mem _)
    · rw [Samp.Sparse.get_of_not_mem S hi]
      exact h0

end sparse

end GcpSetup
end Pyttb
