/-
The Kruskal norm identity used by CP-ALS: the value `ktensor.norm()` computes from the Gram
matrices of the factors, `Σ_{a,b} w_a w_b ∏ₙ (UₙᵀUₙ)[a,b]`, is `Σ_i M[i]²` for the array `M` the
Kruskal tensor denotes.  By induction over the modes (sum over the grid of a product of
per-mode terms = product of per-mode sums).
-/
import PyttbModel.Lemmas.CpAlsRun
import PyttbModel.Lemmas.Idx
import Mathlib.Algebra.BigOperators.Ring.List

set_option linter.unusedSectionVars false
set_option linter.unusedSimpArgs false
namespace Pyttb.CpAls
open Pyttb

section knorm
variable {α : Type} [Field α]

theorem sum_map_flatMap {β γ : Type} (l : List β) (g : β → List γ) (f : γ → α) :
    ((l.flatMap g).map f).sum = (l.map fun x => ((g x).map f).sum).sum := by
  induction l with
  | nil => simp
  | cons x l ih => simp [List.flatMap_cons, ih]

/-- `∏ₙ Aₙ[iₙ, r]` over a list of factors and a subscript. -/
def compOf (fs : List (Mat α)) (r : Nat) (i : List Nat) : α :=
  (List.zipWith (fun A ik => Mat.get A ik r) fs i).prod

/-- Sum over the grid of a product of per-mode terms = product of per-mode sums. -/
theorem sum_comp_mul (s : List Nat) (fs : List (Mat α)) (hl : fs.length = s.length) (a b : Nat) :
    ((allSubs s).map fun i => compOf fs a i * compOf fs b i).sum =
      (List.zipWith (fun A sn => sumRange sn fun k => Mat.get A k a * Mat.get A k b) fs s).prod := by
  induction s generalizing fs with
  | nil =>
    cases fs with
    | nil => simp [allSubs, numel, ind2sub, compOf]
    | cons A fs => simp at hl
  | cons n s ih =>
    cases fs with
    | nil => simp at hl
    | cons A fs =>
      simp only [List.length_cons, Nat.add_right_cancel_iff] at hl
      rw [allSubs_cons, sum_map_flatMap]
      simp only [List.map_map, Function.comp_def, compOf, List.zipWith_cons_cons, List.prod_cons]
      have hterm : ∀ t : List Nat,
          ((List.range n).map fun k => Mat.get A k a * (List.zipWith (fun A ik => Mat.get A ik a) fs t).prod *
              (Mat.get A k b * (List.zipWith (fun A ik => Mat.get A ik b) fs t).prod)).sum =
            (sumRange n fun k => Mat.get A k a * Mat.get A k b) * (compOf fs a t * compOf fs b t) := by
        intro t
        unfold sumRange compOf
        rw [← List.sum_map_mul_right]
        congr 1
        refine List.map_congr_left fun k _ => ?_
        ring
      simp only [hterm]
      rw [List.sum_map_mul_left, ih fs hl]


theorem ktensor_get_eq (w : List α) (U : List (Mat α)) (i : List Nat) :
    Ktensor.get ⟨w, U⟩ i = ∑ r ∈ Finset.range w.length, w.getD r 0 * compOf U r i := by
  rw [← sumRange_eq]; rfl

theorem list_sum_finset_sum {β : Type} (l : List β) (t : Finset Nat) (f : Nat → β → α) :
    (l.map fun i => ∑ a ∈ t, f a i).sum = ∑ a ∈ t, (l.map fun i => f a i).sum := by
  induction l with
  | nil => simp
  | cons x l ih => simp [ih, Finset.sum_add_distrib]

theorem gram_prod_eq (s : List Nat) (R : Nat) (U : List (Mat α)) (hU : ShapeOK s R U) {a b : Nat}
    (ha : a < R) (hb : b < R) :
    prodOver (List.range U.length) (fun n => (gram (U.getD n []) R).get a b) =
      (List.zipWith (fun A sn => sumRange sn fun k => Mat.get A k a * Mat.get A k b) U s).prod := by
  unfold prodOver
  rw [← List.prod_eq_foldr]
  congr 1
  apply List.ext_getElem
  · simp [hU.1]
  · intro n h1 h2
    simp only [List.length_map, List.length_range] at h1
    have hn : n < s.length := by rw [← hU.1]; exact h1
    have hm := (hU.2 n hn).1
    simp only [List.getElem_map, List.getElem_range, List.getElem_zipWith]
    rw [gram, get_tab _ _ _ ha hb]
    have e1 : U.getD n [] = U[n] := by simp [List.getD_eq_getElem?_getD, h1]
    have e2 : s.getD n 0 = s[n] := by simp [List.getD_eq_getElem?_getD, hn]
    rw [e1] at hm ⊢
    rw [hm, e2]

/-- The Kruskal norm identity: `Σ_{a,b} w_a w_b ∏ₙ (UₙᵀUₙ)[a,b] = Σ_i M[i]²`. -/
theorem knormLaw (s : List Nat) : KnormLaw α s := by
  intro w U hU
  unfold ip knormSq
  simp only [ktensor_get_eq, sumRange_eq]
  have hsq : ∀ i : List Nat,
      (∑ r ∈ Finset.range w.length, w.getD r 0 * compOf U r i) *
        (∑ r ∈ Finset.range w.length, w.getD r 0 * compOf U r i) =
      ∑ a ∈ Finset.range w.length, ∑ b ∈ Finset.range w.length,
        (w.getD a 0 * w.getD b 0) * (compOf U a i * compOf U b i) := by
    intro i
    rw [Finset.sum_mul_sum]
    refine Finset.sum_congr rfl fun a _ => Finset.sum_congr rfl fun b _ => ?_
    ring
  simp only [hsq]
  rw [list_sum_finset_sum]
  refine Finset.sum_congr rfl fun a ha => ?_
  rw [list_sum_finset_sum]
  refine Finset.sum_congr rfl fun b hb => ?_
  rw [List.sum_map_mul_left, sum_comp_mul s U hU.1 a b,
    gram_prod_eq s w.length U hU (Finset.mem_range.1 ha) (Finset.mem_range.1 hb)]

end knorm
end Pyttb.CpAls
