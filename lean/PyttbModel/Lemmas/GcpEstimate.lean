/-
The sampled estimator (`fg_est.estimate`, model `Alg/GcpFg.lean`) with ARBITRARY sample weights,
repeated samples and the correction range of the semi-stratified sampler, against the
specification `Spec/GcpSampled.lean`: closed form of what `estimate` returns, and — over ℝ — the
returned gradient entries are the exact partial derivatives of the returned objective.
-/
import PyttbModel.Lemmas.GcpFg
import PyttbModel.Spec.GcpSampled
namespace Pyttb
variable {α : Type}

theorem zipWith_range_map {β γ δ : Type} (G : β → γ → δ) (l : List β) (n : Nat) (T : Nat → γ) (d : β)
    (h : l.length = n) :
    List.zipWith G l ((List.range n).map T) = (List.range n).map fun s => G (l.getD s d) (T s) := by
  apply List.ext_getElem
  · simp [h]
  · intro i h1 h2
    simp at h1 h2
    simp [List.getD_eq_getElem?_getD, List.getElem?_eq_getElem (show i < l.length by omega)]

theorem crng_guard_false (n : Nat) : ∀ crng : Option (List Nat),
    (∀ c, crng = some c → ∀ s ∈ c, s < n) →
    (match crng with | none => false | some c => c.any fun s => decide (n ≤ s)) = false
  | none, _ => rfl
  | some c, hc => by
    simp only [List.any_eq_false, decide_eq_true_eq, not_le]
    exact fun s hs => hc c rfl s hs

section samples
variable [CommRing α] (K : Ktensor α) (subs : List (List Nat)) (xvals w : List α)

/-- the handle applied to the sample values and the model values at the samples -/
theorem applyHandle_samples (h : Handle α) (hx : xvals.length = subs.length) :
    applyHandle h xvals (subs.map K.get)
      = (List.range subs.length).map fun s => h (xvals.getD s 0) (K.get (subs.getD s [])) := by
  unfold applyHandle
  rw [map_eq_map_range subs [] K.get, zipWith_range_map _ _ _ _ 0 hx]

/-- the corrected loss values `Y` of `estimate` are the sample terms of the specification -/
theorem fY_eq (f : Handle α) (crng : Option (List Nat)) (hx : xvals.length = subs.length) :
    crngCorrect f (applyHandle f xvals (subs.map K.get)) (subs.map K.get) none crng
      = (List.range subs.length).map fun s =>
          sampleTerm f crng s (xvals.getD s 0) (K.get (subs.getD s [])) := by
  rw [applyHandle_samples K subs xvals f hx]
  cases crng with
  | none => rfl
  | some c =>
    simp only [crngCorrect, List.length_map, List.length_range, sampleTerm]
    apply List.map_congr_left
    intro s hs
    have hs' := List.mem_range.1 hs
    rw [getD_map_range _ _ _ _ hs', getD_map _ _ s [] 0 hs']

/-- the weighted, corrected derivative values `Y` of `estimate` -/
theorem gY_eq (g : Handle α) (crng : Option (List Nat)) (hx : xvals.length = subs.length)
    (hw : w.length = subs.length) :
    crngCorrect g (List.zipWith (· * ·) w (applyHandle g xvals (subs.map K.get))) (subs.map K.get) (some w) crng
      = (List.range subs.length).map fun s =>
          w.getD s 0 * sampleTerm g crng s (xvals.getD s 0) (K.get (subs.getD s [])) := by
  rw [applyHandle_samples K subs xvals g hx, zipWith_range_map _ _ _ _ 0 hw]
  cases crng with
  | none => rfl
  | some c =>
    simp only [crngCorrect, List.length_map, List.length_range, sampleTerm]
    apply List.map_congr_left
    intro s hs
    have hs' := List.mem_range.1 hs
    rw [getD_map_range _ _ _ _ hs', getD_map _ _ s [] 0 hs']
    split
    · rw [mul_sub]
    · rfl

/-- `accumulate` (the sparse `rows × samples` matrix times `Zexp[k]`) entry by entry -/
theorem accumulate_samples (hN : 2 ≤ K.factors.length) (hin : ∀ i ∈ subs, InBounds K.shape i)
    (Y : Nat → α) (k : Nat) (hk : k < K.factors.length) :
    accumulate (K.factors.getD k []).length K.ncomp (subs.map fun s => s.getD k 0)
        ((List.range subs.length).map Y)
        ((zexpOf (uexpOf K.factors subs K.factors.length) K.factors.length).getD k [])
      = (List.range (K.factors.getD k []).length).map fun a => (List.range K.ncomp).map fun r =>
          ((List.range subs.length).map fun s =>
            if (subs.getD s []).getD k 0 = a then Y s * compExcept K.factors k r (subs.getD s []) else 0).sum := by
  unfold accumulate
  apply List.map_congr_left
  intro a _
  apply List.map_congr_left
  intro r _
  apply congrArg
  rw [List.length_map]
  apply List.map_congr_left
  intro s hs
  have hs' := List.mem_range.1 hs
  rw [getD_map _ _ s [] 0 hs', getD_map_range _ _ _ _ hs', zexp_get K subs hN hin k s r hk hs']

/-- **what `estimate` returns** for a model with unit weights, in-range samples (repeats allowed),
arbitrary sample weights and an optional correction range inside the sample list -/
theorem estimate_ok (f g : Option (Handle α)) (crng : Option (List Nat))
    (hfg : f.isSome ∨ g.isSome) (hne : subs ≠ []) (hN : 2 ≤ K.factors.length) (hWF : K.WF)
    (hunit : ∀ r < K.ncomp, K.weights.getD r 0 = 1) (hin : ∀ i ∈ subs, InBounds K.shape i)
    (hx : xvals.length = subs.length) (hw : w.length = subs.length)
    (hc : ∀ c, crng = some c → ∀ s ∈ c, s < subs.length) :
    estimate K subs xvals w f g crng
      = .ok ⟨f.map (sampledObjective K subs xvals w crng), g.map (sampledGrad K subs xvals w crng)⟩ := by
  have hH := estimateHelper_ok K subs hne hN hin
  rw [mvals_eq K subs hN hWF hunit hin] at hH
  have h1 : (f.isNone && g.isNone) = false := by
    cases f <;> cases g <;> simp at hfg ⊢
  have h2 : (xvals.length ≠ subs.length || w.length ≠ subs.length) = false := by simp [hx, hw]
  have hhead : (subs.headD []).length = K.factors.length := by
    cases subs with
    | nil => exact absurd rfl hne
    | cons s0 rest =>
      have : InBounds K.shape s0 := hin s0 (by simp)
      simp [this.length_eq, length_shape]
  have hemp : subs.isEmpty = false := by
    cases subs with
    | nil => exact absurd rfl hne
    | cons s0 rest => rfl
  have hF : (f.map fun f => (List.zipWith (· * ·) w
        (crngCorrect f (applyHandle f xvals (subs.map K.get)) (subs.map K.get) none crng)).sum)
      = f.map (sampledObjective K subs xvals w crng) := by
    cases f with
    | none => rfl
    | some f =>
      simp only [Option.map_some, fY_eq K subs xvals f crng hx, zipWith_range_map _ _ _ _ (0 : α) hw]
      rfl
  have hG : ∀ g : Handle α,
      (List.range K.factors.length).map (fun k =>
        accumulate (K.factors.getD k []).length K.ncomp (subs.map fun s => s.getD k 0)
          (crngCorrect g (List.zipWith (· * ·) w (applyHandle g xvals (subs.map K.get))) (subs.map K.get) (some w) crng)
          ((zexpOf (uexpOf K.factors subs K.factors.length) K.factors.length).getD k []))
      = sampledGrad K subs xvals w crng g := by
    intro g
    rw [gY_eq K subs xvals w g crng hx hw]
    unfold sampledGrad sampledGradEntry
    apply List.map_congr_left
    intro k hk
    exact accumulate_samples K subs hN hin _ k (List.mem_range.1 hk)
  unfold estimate
  simp only [h1, h2, Bool.false_eq_true, if_false]
  cases crng with
  | none =>
    simp only [hH, bind, Except.bind, hF]
    cases g with
    | none => rfl
    | some g =>
      simp only [hhead, hemp, ne_eq, not_true_eq_false, decide_false, Bool.or_false, Bool.false_eq_true, if_false,
        Option.map_some, hG g]
  | some c =>
    have h3' : (c.any fun s => decide (subs.length ≤ s)) = false := by
      simp only [List.any_eq_false, decide_eq_true_eq, not_le]
      exact fun s hs => hc c rfl s hs
    simp only [h3', Bool.false_eq_true, if_false]
    simp only [hH, bind, Except.bind, hF]
    cases g with
    | none => rfl
    | some g =>
      simp only [hhead, hemp, ne_eq, not_true_eq_false, decide_false, Bool.or_false, Bool.false_eq_true, if_false,
        Option.map_some, hG g]

end samples

/-- **the sampled gradient is the partial derivative of the sampled objective**: for every mode `k`, row `a`,
component `r`, the sampled objective as a function of the factor entry `A_k[a, r]` has the derivative
`Σ_s w_s · term'_s · [i_s[k] = a] ∏_{n≠k} A_n[i_s[n], r]` (unit model weights; the handles need to be a
(loss, derivative) pair only at the model values of the samples — and at data value `0` for the samples in the
correction range) -/
theorem sampled_gradient_is_partial (K : Ktensor ℝ) (subs : List (List Nat)) (xvals w : List ℝ)
    (crng : Option (List Nat)) (f g : Handle ℝ) (k a r : Nat) (hWF : K.WF)
    (hunit : ∀ r < K.ncomp, K.weights.getD r 0 = 1) (hin : ∀ i ∈ subs, InBounds K.shape i)
    (hk : k < K.factors.length) (ha : a < (K.factors.getD k []).length) (hr : r < K.ncomp)
    (hfg : ∀ s < subs.length, HasDerivAt (f (xvals.getD s 0))
      (g (xvals.getD s 0) (K.get (subs.getD s []))) (K.get (subs.getD s [])))
    (hfg0 : ∀ c, crng = some c → ∀ s ∈ c, s < subs.length →
      HasDerivAt (f 0) (g 0 (K.get (subs.getD s []))) (K.get (subs.getD s []))) :
    HasDerivAt (fun t => sampledObjective (K.setEntry k a r t) subs xvals w crng f)
      (sampledGradEntry K subs xvals w crng g k a r) ((K.factors.getD k []).get a r) := by
  have hrow := row_length_of_WF K hWF k a hk ha
  have hr' : r < ((K.factors.getD k []).getD a []).length := by rw [hrow]; exact hr
  set t0 := (K.factors.getD k []).get a r with ht0
  unfold sampledObjective sampledGradEntry
  apply hasDerivAt_list_sum
  intro s hs
  have hs' : s < subs.length := List.mem_range.1 hs
  have hmem : subs.getD s [] ∈ subs := by
    rw [← getElem_eq_getD' subs s [] hs']
    exact List.getElem_mem hs'
  have hib : InBounds K.shape (subs.getD s []) := hin _ hmem
  have hil : (subs.getD s []).length = K.factors.length := by rw [hib.length_eq, length_shape]
  have hm := hasDerivAt_get_setEntry K k a r (subs.getD s []) hk hil ha hr' hr t0
  rw [hunit r hr, one_mul] at hm
  have hval : (K.setEntry k a r t0).get (subs.getD s []) = K.get (subs.getD s []) := by
    rw [ht0, Ktensor.setEntry_self K k a r hk ha hr']
  have hf := hfg s hs'
  rw [← hval] at hf
  have hc := HasDerivAt.comp t0 hf hm
  -- the sample term as a function of t
  have hterm : HasDerivAt (fun t => sampleTerm f crng s (xvals.getD s 0) ((K.setEntry k a r t).get (subs.getD s [])))
      (sampleTerm g crng s (xvals.getD s 0) (K.get (subs.getD s [])) *
        (if (subs.getD s []).getD k 0 = a then compExcept K.factors k r (subs.getD s []) else 0)) t0 := by
    cases crng with
    | none =>
      simp only [sampleTerm]
      refine hc.congr_deriv ?_
      rw [hval]
    | some c =>
      simp only [sampleTerm]
      by_cases hcs : c.contains s = true
      · have hf0 := hfg0 c rfl s (by simpa using hcs) hs'
        rw [← hval] at hf0
        have hc0 := HasDerivAt.comp t0 hf0 hm
        simp only [hcs, if_true]
        refine (hc.sub hc0).congr_deriv ?_
        rw [hval]
        ring
      · simp only [hcs, Bool.false_eq_true, if_false]
        refine hc.congr_deriv ?_
        rw [hval]
  refine (hterm.const_mul (w.getD s 0)).congr_deriv ?_
  by_cases h : (subs.getD s []).getD k 0 = a
  · rw [if_pos h, if_pos h]; ring
  · rw [if_neg h, if_neg h]; ring

end Pyttb
