/-
C05: every entry of the operation table passes the static check of its specification, for
all parameters and all operand lists that satisfy the entry's precondition.  Core Lean only.
-/
import PyttbModel.Lemmas.HeapStatic
import PyttbModel.Heap.Table
namespace Pyttb.Heap
set_option linter.unusedSimpArgs false
set_option linter.unusedVariables false

theorem initRoots_length (b : Nat) : (initRoots b).length = b := by simp [initRoots]

theorem getElem?_initRoots (b r : Nat) :
    (initRoots b)[r]? = if r < b then some (Root.op r) else none := by
  simp only [initRoots]
  split
  · rename_i h; simp [h]
  · rename_i h; simp; omega

theorem getElem?_init_lt {b r : Nat} (l : List Root) (h : r < b) :
    (initRoots b ++ l)[r]? = some (.op r) := by
  rw [List.getElem?_append_left (by simp [initRoots]; exact h), getElem?_initRoots]; simp [h]

theorem getElem?_init_add (b j : Nat) (l : List Root) :
    (initRoots b ++ l)[b + j]? = l[j]? := by
  rw [List.getElem?_append_right (by simp [initRoots])]
  simp [initRoots]

theorem getElem?_init_self (b : Nat) (l : List Root) :
    (initRoots b ++ l)[b]? = l[0]? := by
  have := getElem?_init_add b 0 l; simpa using this

theorem getElem_init_lt {b r : Nat} (l : List Root) (h : r < b)
    (h' : r < (initRoots b ++ l).length) : (initRoots b ++ l)[r] = .op r := by
  have := getElem?_init_lt l h
  rw [List.getElem?_eq_getElem h'] at this
  exact Option.some.inj this

/-- evaluate the static checks of a program of fixed length with symbolic operand count -/
macro "chk_simp" : tactic => `(tactic|
  simp [specCheck, pureProg, freshResults, resultsWithin, writesWithin, writeRoots, roots, static,
      staticStep, rootStep, tensorCtor, getElem?_init_lt, getElem?_init_add, getElem?_init_self,
      getElem?_initRoots, getElem_init_lt, *])

macro "ifs" : tactic => `(tactic| simp only [Bool.false_eq_true, if_false, if_true])

theorem chk_tensor_init (p : Params) (ops : List View) (h : atLeast 1 p ops.length = true) :
    specCheck (noCopyIf [0] p) ops.length (tensor_init p ops) = true := by
  have h0 : 0 < ops.length := by simp [atLeast] at h; omega
  unfold tensor_init noCopyIf
  cases hc : p.copy <;> ifs <;> split <;> chk_simp

theorem chk_tensor_copy (p : Params) (ops : List View) :
    specCheck .pureFresh ops.length (tensor_copy p ops) = true := by
  unfold tensor_copy; chk_simp

theorem chk_tensor_double (p : Params) (ops : List View) :
    specCheck .pureFresh ops.length (tensor_double p ops) = true := by
  unfold tensor_double; chk_simp

theorem chk_tensor_permute (p : Params) (ops : List View) :
    specCheck .pureFresh ops.length (tensor_permute p ops) = true := by
  unfold tensor_permute; split <;> chk_simp

theorem chk_tensor_reshape (p : Params) (ops : List View) :
    specCheck .pureFresh ops.length (tensor_reshape p ops) = true := by
  unfold tensor_reshape; chk_simp

theorem chk_tensor_squeeze (p : Params) (ops : List View) :
    specCheck .pureFresh ops.length (tensor_squeeze p ops) = true := by
  unfold tensor_squeeze; (repeat' split) <;> chk_simp

theorem chk_tensor_find (p : Params) (ops : List View) :
    specCheck .pureFresh ops.length (tensor_find p ops) = true := by
  unfold tensor_find; chk_simp

theorem chk_tensor_to_sptensor (p : Params) (ops : List View) :
    specCheck .pureFresh ops.length (tensor_to_sptensor p ops) = true := by
  unfold tensor_to_sptensor; chk_simp

theorem chk_tensor_to_tenmat (p : Params) (ops : List View) :
    specCheck .pureFresh ops.length (tensor_to_tenmat p ops) = true := by
  unfold tensor_to_tenmat; cases hc : p.copy <;> ifs <;> chk_simp

theorem chk_tensor_setitem (p : Params) (ops : List View) (h : atLeast 1 p ops.length = true) :
    specCheck (.inPlace [0]) ops.length (tensor_setitem p ops) = true := by
  have h0 : 0 < ops.length := by simp [atLeast] at h; omega
  unfold tensor_setitem; (repeat' split) <;> chk_simp

theorem chk_tensor_elementwise (p : Params) (ops : List View) :
    specCheck .pureFresh ops.length (tensor_elementwise p ops) = true := by
  unfold tensor_elementwise; chk_simp

theorem chk_tensor_ttv (p : Params) (ops : List View) :
    specCheck .pureFresh ops.length (tensor_ttv p ops) = true := by
  unfold tensor_ttv; (repeat' split) <;> chk_simp

theorem chk_tensor_ttm (p : Params) (ops : List View) :
    specCheck .pureFresh ops.length (tensor_ttm p ops) = true := by
  unfold tensor_ttm; chk_simp

theorem chk_tensor_mttkrp (p : Params) (ops : List View) :
    specCheck .pureFresh ops.length (tensor_mttkrp p ops) = true := by
  unfold tensor_mttkrp; chk_simp

theorem chk_sptensor_copysubs (p : Params) (ops : List View) :
    specCheck .pureFresh ops.length (sptensor_copysubs_newvals p ops) = true := by
  unfold sptensor_copysubs_newvals; chk_simp

theorem chk_ktensor_full (p : Params) (ops : List View) :
    specCheck .pureFresh ops.length (ktensor_full p ops) = true := by
  unfold ktensor_full; chk_simp

/-! ### sparse -/

theorem chk_sptensor_init (p : Params) (ops : List View) (h : atLeast 2 p ops.length = true) :
    specCheck (noCopyIf [0, 1] p) ops.length (sptensor_init p ops) = true := by
  have h0 : 0 < ops.length := by simp [atLeast] at h; omega
  have h1 : 1 < ops.length := by simp [atLeast] at h; omega
  unfold sptensor_init noCopyIf
  cases hc : p.copy <;> ifs <;> (repeat' split) <;> chk_simp

theorem chk_sptensor_copy (p : Params) (ops : List View) :
    specCheck .pureFresh ops.length (sptensor_copy p ops) = true := by
  unfold sptensor_copy; chk_simp

theorem chk_sptensor_find (p : Params) (ops : List View) (h : atLeast 2 p ops.length = true) :
    specCheck (.knownAlias [0, 1]) ops.length (sptensor_find p ops) = true := by
  have h0 : 0 < ops.length := by simp [atLeast] at h; omega
  have h1 : 1 < ops.length := by simp [atLeast] at h; omega
  unfold sptensor_find; chk_simp

theorem chk_sptensor_newsubs (p : Params) (ops : List View) :
    specCheck .pureFresh ops.length (sptensor_newsubs_copyvals p ops) = true := by
  unfold sptensor_newsubs_copyvals; chk_simp

theorem chk_sptensor_spmatrix (p : Params) (ops : List View) :
    specCheck .pureFresh ops.length (sptensor_spmatrix p ops) = true := by
  unfold sptensor_spmatrix; chk_simp

theorem chk_sptensor_full (p : Params) (ops : List View) :
    specCheck .pureFresh ops.length (sptensor_full p ops) = true := by
  unfold sptensor_full; chk_simp

theorem chk_sptensor_setitem (p : Params) (ops : List View) (h : atLeast 2 p ops.length = true) :
    specCheck (.inPlace [0, 1]) ops.length (sptensor_setitem p ops) = true := by
  have h0 : 0 < ops.length := by simp [atLeast] at h; omega
  have h1 : 1 < ops.length := by simp [atLeast] at h; omega
  unfold sptensor_setitem; (repeat' split) <;> chk_simp

/-! ### matricized -/

theorem chk_tenmat_to_tensor (p : Params) (ops : List View) (h : atLeast 1 p ops.length = true) :
    specCheck (noCopyIf [0] p) ops.length (tenmat_to_tensor p ops) = true := by
  have h0 : 0 < ops.length := by simp [atLeast] at h; omega
  unfold tenmat_to_tensor noCopyIf
  cases hc : p.copy <;> ifs <;> (repeat' split) <;> chk_simp

theorem chk_tenmat_getitem (p : Params) (ops : List View) :
    specCheck .pureFresh ops.length (tenmat_getitem p ops) = true := by
  unfold tenmat_getitem; (repeat' split) <;> chk_simp

theorem chk_tenmat_setitem (p : Params) (ops : List View) (h : atLeast 3 p ops.length = true) :
    specCheck (.inPlace [0, 1, 2]) ops.length (tenmat_setitem p ops) = true := by
  have h0 : 0 < ops.length := by simp [atLeast] at h; omega
  have h1 : 1 < ops.length := by simp [atLeast] at h; omega
  have h2 : 2 < ops.length := by simp [atLeast] at h; omega
  unfold tenmat_setitem; chk_simp

theorem chk_sptenmat_double (p : Params) (ops : List View) :
    specCheck .pureFresh ops.length (sptenmat_double p ops) = true := by
  unfold sptenmat_double; exact chk_sptensor_spmatrix p ops

theorem chk_sptenmat_setitem (p : Params) (ops : List View) (h : atLeast 4 p ops.length = true) :
    specCheck (.inPlace [0, 1, 2, 3]) ops.length (sptenmat_setitem p ops) = true := by
  have h0 : 0 < ops.length := by simp [atLeast] at h; omega
  have h1 : 1 < ops.length := by simp [atLeast] at h; omega
  have h2 : 2 < ops.length := by simp [atLeast] at h; omega
  have h3 : 3 < ops.length := by simp [atLeast] at h; omega
  unfold sptenmat_setitem; (repeat' split) <;> chk_simp

/-! ### helpers -/

theorem chk_tt_ind2sub (p : Params) (ops : List View) :
    specCheck .pureFresh ops.length (tt_ind2sub_fixed p ops) = true := by
  unfold tt_ind2sub_fixed; chk_simp

theorem chk_parse_one_d (p : Params) (ops : List View) (h : atLeast 1 p ops.length = true) :
    specCheck (.noCopy [0]) ops.length (parse_one_d p ops) = true := by
  have h0 : 0 < ops.length := by simp [atLeast] at h; omega
  unfold parse_one_d; chk_simp

theorem chk_to_memory_order (p : Params) (ops : List View) (h : atLeast 1 p ops.length = true) :
    specCheck (noCopyIf [0] p) ops.length (to_memory_order p ops) = true := by
  have h0 : 0 < ops.length := by simp [atLeast] at h; omega
  unfold to_memory_order noCopyIf
  cases hc : p.copy <;> ifs <;> chk_simp

/-! ### entries whose programs have one segment per factor matrix / part -/

theorem spec_pureFresh_simple (b : Nat) (B : Built) (h : simpleOK b [] [] 0 B.prog = true)
    (hres : ∀ r ∈ B.res.map (·.2), b ≤ r ∧ r < b + ndefs B.prog) :
    specCheck .pureFresh b B = true := by
  obtain ⟨h1, h2⟩ := simpleOK_pureFresh b B.prog (B.res.map (·.2)) h hres
  simp [specCheck, h1, h2]

theorem spec_noCopy_simple (b : Nat) (allowed : List Nat) (B : Built)
    (hw : B.prog.all (fun s => !s.isWrite) = true) (h : simpleOK b [] allowed 0 B.prog = true)
    (hres : ∀ r ∈ B.res.map (·.2), b ≤ r ∧ r < b + ndefs B.prog) :
    specCheck (.noCopy allowed) b B = true := by
  obtain ⟨_, h2⟩ := simpleOK_sound b [] allowed B.prog (B.res.map (·.2)) h hres
  simp [specCheck, pure_of_no_write b B.prog hw, h2]

theorem spec_knownAlias_simple (b : Nat) (allowed : List Nat) (B : Built)
    (hw : B.prog.all (fun s => !s.isWrite) = true) (h : simpleOK b [] allowed 0 B.prog = true)
    (hres : ∀ r ∈ B.res.map (·.2), b ≤ r ∧ r < b + ndefs B.prog) :
    specCheck (.knownAlias allowed) b B = true := by
  obtain ⟨_, h2⟩ := simpleOK_sound b [] allowed B.prog (B.res.map (·.2)) h hres
  simp [specCheck, pure_of_no_write b B.prog hw, h2]

theorem spec_inPlace_simple (b : Nat) (recv : List Nat) (B : Built)
    (h : simpleOK b recv recv 0 B.prog = true)
    (hres : ∀ r ∈ B.res.map (·.2), b ≤ r ∧ r < b + ndefs B.prog) :
    specCheck (.inPlace recv) b B = true := by
  obtain ⟨h1, h2⟩ := simpleOK_sound b recv recv B.prog (B.res.map (·.2)) h hres
  simp [specCheck, writesWithin_dup b recv B.prog h1, h2]

/-- segments -/
theorem simpleOK_map_nonwrite {β : Type} (b : Nat) (recv allowed : List Nat) (d : Nat) (l : List β)
    (f : β → Step) (hf : ∀ x, (f x).isWrite = false) :
    simpleOK b recv allowed d (l.map f) = l.all (fun x => stepOK b recv allowed 0 (f x)) := by
  induction l generalizing d with
  | nil => rfl
  | cons x xs ih =>
    have hstep : stepOK b recv allowed d (f x) = stepOK b recv allowed 0 (f x) := by
      have := hf x
      cases hfx : f x <;> simp_all [stepOK, Step.isWrite]
    simp only [List.map_cons, simpleOK, List.all_cons, hstep, hf x, Bool.false_eq_true, if_false, ih]

theorem ndefs_map_nonwrite {β : Type} (l : List β) (f : β → Step) (hf : ∀ x, (f x).isWrite = false) :
    ndefs (l.map f) = l.length := by
  induction l with
  | nil => rfl
  | cons x xs ih =>
    simp only [ndefs, List.map_cons, List.countP_cons, hf x] at *
    simp [ih]

theorem simpleOK_map_write {β : Type} (b : Nat) (recv allowed : List Nat) (d : Nat) (l : List β)
    (t : β → Nat) (g : β → List Nat) :
    simpleOK b recv allowed d (l.map (fun x => Step.write (t x) (g x))) =
      l.all (fun x => (decide (t x < b) && recv.contains (t x)) || (decide (b ≤ t x) && decide (t x < b + d))) := by
  induction l with
  | nil => rfl
  | cons x xs ih =>
    simp only [List.map_cons, simpleOK, stepOK, Step.isWrite, if_true, List.all_cons, ih]

theorem ndefs_map_write {β : Type} (l : List β) (t : β → Nat) (g : β → List Nat) :
    ndefs (l.map (fun x => Step.write (t x) (g x))) = 0 := by
  induction l with
  | nil => rfl
  | cons x xs ih =>
    simp only [ndefs, List.map_cons, List.countP_cons, Step.isWrite] at *
    simp [ih]

theorem ndefs_cons (s : Step) (p : Prog) : ndefs (s :: p) = ndefs p + (if s.isWrite then 0 else 1) := by
  simp only [ndefs, List.countP_cons]
  cases s.isWrite <;> simp

theorem ndefs_nil : ndefs [] = 0 := rfl

theorem mem_regs {off n r : Nat} : r ∈ regs off n ↔ ∃ i, i < n ∧ r = i + off := by
  simp only [regs, List.mem_map, List.mem_range]
  constructor
  · rintro ⟨i, hi, rfl⟩; exact ⟨i, hi, rfl⟩
  · rintro ⟨i, hi, rfl⟩; exact ⟨i, hi, rfl⟩

theorem snd_zip_regs {β : Type} (l : List β) (off n r : Nat) (h : r ∈ (l.zip (regs off n)).map (·.2)) :
    off ≤ r ∧ r < off + n := by
  obtain ⟨q, hq, rfl⟩ := List.mem_map.mp h
  have := (List.of_mem_zip (a := q.1) (b := q.2) hq).2
  obtain ⟨i, hi, hr⟩ := mem_regs.mp this
  omega

theorem length_names (pre : String) (n : Nat) : (names pre n).length = n := by simp [names]
theorem length_regs (off n : Nat) : (regs off n).length = n := by simp [regs]

section segs
variable {β : Type} (b : Nat) (recv allowed : List Nat) (d : Nat) (l : List β)

theorem sOK_copy (h : β → Nat) :
    simpleOK b recv allowed d (l.map (fun x => Step.copy (h x))) = true := by
  rw [simpleOK_map_nonwrite _ _ _ _ _ _ (fun _ => rfl)]; simp [stepOK]

theorem nd_copy (h : β → Nat) : ndefs (l.map (fun x => Step.copy (h x))) = l.length :=
  ndefs_map_nonwrite _ _ (fun _ => rfl)

theorem sOK_copy' (l : List Nat) : simpleOK b recv allowed d (l.map Step.copy) = true :=
  sOK_copy b recv allowed d l id

theorem nd_copy' (l : List Nat) : ndefs (l.map Step.copy) = l.length := nd_copy l id

theorem sOK_fresh (s g : β → List Nat) :
    simpleOK b recv allowed d (l.map (fun x => Step.fresh (s x) (g x))) = true := by
  rw [simpleOK_map_nonwrite _ _ _ _ _ _ (fun _ => rfl)]; simp [stepOK]

theorem nd_fresh (s g : β → List Nat) : ndefs (l.map (fun x => Step.fresh (s x) (g x))) = l.length :=
  ndefs_map_nonwrite _ _ (fun _ => rfl)

theorem sOK_alias (h : β → Nat) :
    simpleOK b recv allowed d (l.map (fun x => Step.alias (h x))) =
      l.all (fun x => decide (h x < b) && allowed.contains (h x)) := by
  rw [simpleOK_map_nonwrite _ _ _ _ _ _ (fun _ => rfl)]; simp [stepOK, Step.viewSrc]

theorem nd_alias (h : β → Nat) : ndefs (l.map (fun x => Step.alias (h x))) = l.length :=
  ndefs_map_nonwrite _ _ (fun _ => rfl)

theorem sOK_alias' (l : List Nat) :
    simpleOK b recv allowed d (l.map Step.alias) = l.all (fun x => decide (x < b) && allowed.contains x) :=
  sOK_alias b recv allowed d l id

theorem nd_alias' (l : List Nat) : ndefs (l.map Step.alias) = l.length := nd_alias l id

theorem sOK_squeeze' (l : List Nat) :
    simpleOK b recv allowed d (l.map Step.squeeze) = l.all (fun x => decide (x < b) && allowed.contains x) := by
  rw [simpleOK_map_nonwrite _ _ _ _ _ _ (fun _ => rfl)]; simp [stepOK, Step.viewSrc]

theorem nd_squeeze' (l : List Nat) : ndefs (l.map Step.squeeze) = l.length :=
  ndefs_map_nonwrite _ _ (fun _ => rfl)

theorem sOK_ite (c : β → Prop) [DecidablePred c] (s g : β → List Nat) (h : β → Nat) :
    simpleOK b recv allowed d (l.map (fun x => if c x then Step.fresh (s x) (g x) else Step.alias (h x))) =
      l.all (fun x => decide (c x) || (decide (h x < b) && allowed.contains (h x))) := by
  rw [simpleOK_map_nonwrite _ _ _ _ _ _ (fun x => by by_cases hc : c x <;> simp [hc, Step.isWrite])]
  congr 1; funext x; by_cases hc : c x <;> simp [hc, stepOK, Step.viewSrc]

theorem nd_ite (c : β → Prop) [DecidablePred c] (s g : β → List Nat) (h : β → Nat) :
    ndefs (l.map (fun x => if c x then Step.fresh (s x) (g x) else Step.alias (h x))) = l.length :=
  ndefs_map_nonwrite _ _ (fun x => by by_cases hc : c x <;> simp [hc, Step.isWrite])

end segs

/-- decide the simple criterion on programs made of mapped segments -/
macro "seg_simp" : tactic => `(tactic|
  simp (config := { decide := true }) [simpleOK_append, simpleOK, stepOK, Step.viewSrc, Step.isWrite, ndefs_append, ndefs_cons, ndefs_nil,
    sOK_copy, nd_copy, sOK_copy', nd_copy', sOK_fresh, nd_fresh, sOK_alias, nd_alias, sOK_alias', nd_alias',
    sOK_squeeze', nd_squeeze', sOK_ite, nd_ite, simpleOK_map_write, ndefs_map_write, length_regs, length_names,
    List.all_eq_true, mem_regs, *])

theorem chk_computed (b : Nat) (nm : List String) :
    specCheck .pureFresh b (computed b nm) = true := by
  apply spec_pureFresh_simple
  · unfold computed; seg_simp
  · intro r hr
    unfold computed at hr ⊢
    have := snd_zip_regs _ _ _ _ hr
    simp only [nd_fresh]
    exact this

theorem chk_ktensor_copy (p : Params) (ops : List View) :
    specCheck .pureFresh ops.length (ktensor_copy p ops) = true := by
  apply spec_pureFresh_simple
  · unfold ktensor_copy; seg_simp
  · intro r hr
    unfold ktensor_copy at hr ⊢
    simp only [nd_copy', length_regs]
    simp only [List.map_cons, List.mem_cons] at hr
    rcases hr with rfl | hr
    · omega
    · have := snd_zip_regs _ _ _ _ hr; omega

/-- the usual result list of a Kruskal-shaped result: weights at `w`, factors from `off` -/
theorem kres_range {w off n lo hi r : Nat}
    (hr : r ∈ ((("weights", w) :: (names "f" n).zip (regs off n)) : List (String × Nat)).map (·.2))
    (hw : lo ≤ w ∧ w < hi) (ho : lo ≤ off ∧ off + n ≤ hi) : lo ≤ r ∧ r < hi := by
  simp only [List.map_cons, List.mem_cons] at hr
  rcases hr with rfl | hr
  · exact hw
  · have := snd_zip_regs _ _ _ _ hr; omega

theorem chk_ktensor_permute (p : Params) (ops : List View) :
    specCheck .pureFresh ops.length (ktensor_permute p ops) = true := by
  apply spec_pureFresh_simple
  · unfold ktensor_permute; seg_simp
  · intro r hr
    unfold ktensor_permute at hr ⊢
    simp only [ndefs_cons, nd_copy, Step.isWrite, Bool.false_eq_true, if_false]
    exact kres_range hr (by omega) (by simp; omega)

theorem chk_ktensor_ttv (p : Params) (ops : List View) :
    specCheck .pureFresh ops.length (ktensor_ttv p ops) = true := by
  unfold ktensor_ttv
  split
  · chk_simp
  · apply spec_pureFresh_simple
    · seg_simp
    · intro r hr
      simp only [ndefs_append, ndefs_cons, ndefs_nil, nd_copy, Step.isWrite, Bool.false_eq_true, if_false]
      exact kres_range hr (by simp; omega) (by simp; omega)

theorem chk_ktensor_tolist (p : Params) (ops : List View) :
    specCheck .pureFresh ops.length (ktensor_tolist p ops) = true := by
  unfold ktensor_tolist
  split <;> apply spec_pureFresh_simple
  · seg_simp
  · intro r hr
    have := snd_zip_regs _ _ _ _ hr
    simp only [nd_copy', length_regs]; exact this
  · seg_simp
  · intro r hr
    have := snd_zip_regs _ _ _ _ hr
    simp only [nd_fresh, length_regs]; exact this

theorem chk_copy_all (p : Params) (ops : List View) :
    specCheck .pureFresh ops.length (copy_all p ops) = true := by
  apply spec_pureFresh_simple
  · unfold copy_all; seg_simp
  · intro r hr
    unfold copy_all at hr ⊢
    have := snd_zip_regs _ _ _ _ hr
    simp only [nd_copy', length_regs]; exact this

theorem chk_alias_all (p : Params) (ops : List View) (h : p.m ≤ ops.length) :
    specCheck (.noCopy (List.range p.m)) ops.length (alias_all p ops) = true := by
  apply spec_noCopy_simple
  · unfold alias_all; simp [regs, Step.isWrite]
  · unfold alias_all; seg_simp; intro x i; omega
  · intro r hr
    unfold alias_all at hr ⊢
    have := snd_zip_regs _ _ _ _ hr
    simp only [nd_alias', length_regs]; exact this

theorem chk_alg_fresh (p : Params) (ops : List View) :
    specCheck .pureFresh ops.length (alg_fresh p ops) = true := chk_computed _ _

/-- split conjunctions, introduce binders, finish with linear arithmetic -/
macro "arith" : tactic => `(tactic| ((repeat' (first | (intro _) | (apply And.intro))) <;> (try omega)))

theorem contains_range {n k : Nat} (h : k < n) : (List.range n).contains k = true :=
  List.contains_iff_mem.mpr (List.mem_range.mpr h)

theorem chk_ktensor_init (p : Params) (ops : List View)
    (h : p.n + (if p.flag == "w" then 1 else 0) ≤ ops.length) :
    specCheck (noCopyIf (List.range (p.n + 1)) p) ops.length (ktensor_init p ops) = true := by
  unfold ktensor_init noCopyIf
  have hres : ∀ (pr : Prog), ndefs pr = p.n + 1 → ∀ r ∈ List.map (fun x => x.2)
      ((("weights", ops.length) :: (names "f" p.n).zip (regs (ops.length + 1) p.n)) : List (String × Nat)),
      ops.length ≤ r ∧ r < ops.length + ndefs pr := by
    intro pr hpr r hr
    rw [hpr]; exact kres_range hr (by omega) (by omega)
  cases hc : p.copy <;> ifs
  · -- no copy
    simp only [Bool.false_or]
    apply spec_noCopy_simple
    · cases hF : (List.range p.n).all (fun i => (ops.getD i default).isF) <;>
        cases hw : (p.flag == "w") <;> simp [Step.isWrite, hF, hw]
    · cases hF : (List.range p.n).all (fun i => (ops.getD i default).isF) <;>
        cases hw : (p.flag == "w") <;> simp only [hw, Bool.false_eq_true, if_false, if_true] at h <;>
        seg_simp <;> arith
    · apply hres
      cases hF : (List.range p.n).all (fun i => (ops.getD i default).isF) <;>
        cases hw : (p.flag == "w") <;> simp [ndefs_cons, nd_copy', nd_alias', Step.isWrite, hF, hw] <;> omega
  · -- copy
    simp only [Bool.true_or, if_true]
    apply spec_pureFresh_simple
    · cases hw : (p.flag == "w") <;> seg_simp
    · apply hres
      cases hw : (p.flag == "w") <;> simp [ndefs_cons, nd_copy', Step.isWrite, hw] <;> omega

theorem chk_ttensor_init (p : Params) (ops : List View) (h : p.k + p.n ≤ ops.length) :
    specCheck (noCopyIf (List.range (p.k + p.n)) p) ops.length (ttensor_init p ops) = true := by
  unfold ttensor_init noCopyIf
  have hres : ∀ (pr : Prog) (cn : List String), ndefs pr = p.k + p.n → ∀ r ∈ List.map (fun x => x.2)
      (cn.zip (regs ops.length p.k) ++ (names "f" p.n).zip (regs (ops.length + p.k) p.n)),
      ops.length ≤ r ∧ r < ops.length + ndefs pr := by
    intro pr cn hpr r hr
    rw [hpr]
    simp only [List.map_append, List.mem_append] at hr
    rcases hr with hr | hr
    · have := snd_zip_regs _ _ _ _ hr; omega
    · have := snd_zip_regs _ _ _ _ hr; omega
  cases hc : p.copy <;> ifs
  · simp only [Bool.false_or]
    apply spec_noCopy_simple
    · cases hF : (List.range p.n).all (fun i => (ops.getD (p.k + i) default).isF) <;>
        simp [Step.isWrite, hF]
    · cases hF : (List.range p.n).all (fun i => (ops.getD (p.k + i) default).isF) <;>
        seg_simp <;> arith
    · apply hres
      cases hF : (List.range p.n).all (fun i => (ops.getD (p.k + i) default).isF) <;>
        simp [ndefs_append, nd_copy, nd_alias, nd_copy', nd_alias', hF]
  · simp only [Bool.true_or, if_true]
    apply spec_pureFresh_simple
    · seg_simp
    · apply hres; simp [ndefs_append, nd_copy, nd_copy']

/-- receiver arrays `0 .. n` kept (`keepAll`) or listed by name -/
theorem kres_all {b n r : Nat} {pr : Prog} (hnd : b + n + 1 ≤ b + ndefs pr)
    (hr : r ∈ ((("weights", b) :: (names "f" n).zip (regs (b + 1) n)) : List (String × Nat)).map (·.2)) :
    b ≤ r ∧ r < b + ndefs pr := by
  have := kres_range (lo := b) (hi := b + n + 1) hr (by omega) (by omega)
  omega

theorem chk_ktensor_normalize (p : Params) (ops : List View)
    (h : (decide (p.n + 1 ≤ ops.length) && (decide (p.k < p.n) || !(p.flag == "mode" || p.flag == "one"))) = true) :
    specCheck (.inPlace (List.range (p.n + 1))) ops.length (ktensor_normalize p ops) = true := by
  simp only [Bool.and_eq_true, decide_eq_true_eq, Bool.or_eq_true, Bool.not_eq_true'] at h
  obtain ⟨hb, hk⟩ := h
  unfold ktensor_normalize
  (repeat' split) <;> apply spec_inPlace_simple
  all_goals first
    | (intro r hr; refine kres_all ?_ hr
       simp [ndefs_append, ndefs_cons, ndefs_nil, nd_alias', nd_fresh, nd_ite, ndefs_map_write, Step.isWrite, length_regs]
       try omega)
    | (seg_simp <;> (try simp_all) <;> arith)

/-- common closing tactic for the in-place Kruskal entries -/
macro "kinplace" : tactic => `(tactic| (
  (repeat' split) <;> apply spec_inPlace_simple
  all_goals first
    | (intro r hr; refine kres_all ?_ hr
       simp [ndefs_append, ndefs_cons, ndefs_nil, nd_alias', nd_copy', nd_fresh, nd_ite, ndefs_map_write, Step.isWrite, length_regs, keepAll]
       try omega)
    | (seg_simp <;> (try simp_all [keepAll]) <;> arith)))

theorem chk_ktensor_arrange (p : Params) (ops : List View)
    (h : (decide (p.n + 1 ≤ ops.length) && (decide (p.k < p.n) || !(p.flag == "wf"))) = true) :
    specCheck (.inPlace (List.range (p.n + 1))) ops.length (ktensor_arrange p ops) = true := by
  simp only [Bool.and_eq_true, decide_eq_true_eq, Bool.or_eq_true, Bool.not_eq_true'] at h
  obtain ⟨hb, hk⟩ := h
  unfold ktensor_arrange
  (repeat' split) <;> apply spec_inPlace_simple
  all_goals first
    | (intro r hr
       simp only [List.map_cons, List.mem_cons] at hr
       simp [ndefs_append, ndefs_cons, ndefs_nil, nd_fresh, ndefs_map_write, Step.isWrite, length_regs]
       rcases hr with rfl | hr
       · omega
       · have := snd_zip_regs _ _ _ _ hr; omega)
    | (seg_simp <;> (try simp_all) <;> arith)

theorem chk_ktensor_fixsigns (p : Params) (ops : List View) (h : decide (p.n + 1 ≤ ops.length) = true) :
    specCheck (.inPlace (List.range (p.n + 1))) ops.length (ktensor_fixsigns p ops) = true := by
  have hb : p.n + 1 ≤ ops.length := by simpa using h
  unfold ktensor_fixsigns keepAll
  simp only []
  (repeat' split) <;> apply spec_inPlace_simple
  all_goals first
    | (intro r hr
       simp only [keepAll, List.map_cons, List.mem_cons] at hr
       simp [keepAll, ndefs_append, ndefs_cons, ndefs_nil, nd_alias', nd_copy', ndefs_map_write, Step.isWrite, length_regs]
       rcases hr with rfl | hr
       · omega
       · have := snd_zip_regs _ _ _ _ hr; omega)
    | (seg_simp <;> (try simp_all [keepAll]) <;> arith)

theorem chk_ktensor_redistribute (p : Params) (ops : List View)
    (h : (decide (p.n + 1 ≤ ops.length) && decide (p.k < p.n)) = true) :
    specCheck (.inPlace (List.range (p.n + 1))) ops.length (ktensor_redistribute p ops) = true := by
  simp only [Bool.and_eq_true, decide_eq_true_eq] at h
  obtain ⟨hb, hk⟩ := h
  unfold ktensor_redistribute keepAll
  simp only []
  kinplace

theorem chk_ktensor_viz (p : Params) (ops : List View) (h : decide (p.n + 1 ≤ ops.length) = true) :
    specCheck (.inPlace (List.range (p.n + 1))) ops.length (ktensor_viz p ops) = true := by
  have hb : p.n + 1 ≤ ops.length := by simpa using h
  unfold ktensor_viz
  kinplace

theorem chk_ktensor_update (p : Params) (ops : List View) (h : decide (p.n + 1 ≤ ops.length) = true) :
    specCheck (.inPlace (List.range (p.n + 1))) ops.length (ktensor_update p ops) = true := by
  have hb : p.n + 1 ≤ ops.length := by simpa using h
  unfold ktensor_update
  apply spec_inPlace_simple
  · cases hw : (p.flag == "w") <;> seg_simp <;> arith
  · intro r hr
    refine kres_all ?_ hr
    cases hw : (p.flag == "w") <;> simp [ndefs_cons, nd_ite, Step.isWrite] <;> omega

theorem chk_alg_returns_init (p : Params) (ops : List View)
    (h : alg_returns_init_pre p ops.length = true) :
    specCheck (alg_returns_init_spec p) ops.length (alg_returns_init p ops) = true := by
  unfold alg_returns_init_pre at h
  simp only [Bool.and_eq_true, decide_eq_true_eq, List.all_eq_true] at h
  obtain ⟨hm, hd⟩ := h
  unfold alg_returns_init alg_returns_init_spec
  simp only []
  generalize hini : (((p.flag.splitOn ";").getD 1 "").splitOn ",").filter (· != "") = ini at hm ⊢
  generalize (((p.flag.splitOn ";").getD 0 "").splitOn ",").filter (· != "") = fr
  generalize (((p.flag.splitOn ";").getD 2 "").splitOn ",").filter (· != "") = vw
  apply spec_knownAlias_simple
  · simp [regs, Step.isWrite]
  · seg_simp
    refine ⟨?_, ?_⟩
    · intro x i hi hx; subst hx
      refine ⟨by omega, Or.inl ⟨i, hi, rfl⟩⟩
    · intro x hx
      exact ⟨hd x hx, Or.inr hx⟩
  · intro r hr
    simp only [List.map_append, List.mem_append] at hr
    simp only [ndefs_append, nd_fresh, nd_alias', nd_squeeze', length_regs]
    rcases hr with (hr | hr) | hr
    · have := snd_zip_regs _ _ _ _ hr; omega
    · have := snd_zip_regs _ _ _ _ hr; omega
    · have := snd_zip_regs _ _ _ _ hr; omega

/-! ### the whole table -/

/-- Every entry of the operation table passes the static check of its specification, for all
parameters and every operand list that satisfies the entry's precondition. -/
theorem table1_sound : ∀ e ∈ table1, ∀ (p : Params) (ops : List View), e.check p ops = true := by
  intro e he p ops
  simp only [table1, List.mem_cons, List.mem_singleton, List.not_mem_nil, or_false] at he
  unfold Entry.check
  by_cases hpre : e.pre p ops.length = true
  · simp only [hpre, Bool.not_true, Bool.false_or]
    rcases he with rfl | rfl | rfl | rfl | rfl | rfl | rfl | rfl | rfl | rfl | rfl | rfl | rfl | rfl | rfl |
      rfl | rfl | rfl | rfl | rfl | rfl | rfl | rfl | rfl | rfl | rfl | rfl | rfl | rfl | rfl | rfl | rfl |
      rfl | rfl | rfl | rfl | rfl | rfl | rfl | rfl | rfl | rfl | rfl | rfl | rfl | rfl | rfl | rfl
    · exact chk_tensor_init p ops hpre
    · exact chk_tensor_copy p ops
    · exact chk_tensor_double p ops
    · exact chk_tensor_permute p ops
    · exact chk_tensor_reshape p ops
    · exact chk_tensor_squeeze p ops
    · exact chk_tensor_find p ops
    · exact chk_tensor_to_sptensor p ops
    · exact chk_tensor_to_tenmat p ops
    · exact chk_tensor_setitem p ops hpre
    · exact chk_tensor_elementwise p ops
    · exact chk_tensor_ttv p ops
    · exact chk_tensor_ttm p ops
    · exact chk_tensor_mttkrp p ops
    · exact chk_sptensor_copysubs p ops
    · exact chk_ktensor_full p ops
    · exact chk_sptensor_init p ops hpre
    · exact chk_sptensor_copy p ops
    · exact chk_sptensor_find p ops hpre
    · exact chk_sptensor_newsubs p ops
    · exact chk_sptensor_spmatrix p ops
    · exact chk_sptensor_full p ops
    · exact chk_sptensor_setitem p ops hpre
    · exact chk_ktensor_init p ops (by simpa using hpre)
    · exact chk_ktensor_copy p ops
    · exact chk_ktensor_permute p ops
    · exact chk_ktensor_ttv p ops
    · exact chk_ktensor_tolist p ops
    · exact chk_ktensor_normalize p ops hpre
    · exact chk_ktensor_arrange p ops hpre
    · exact chk_ktensor_fixsigns p ops hpre
    · exact chk_ktensor_redistribute p ops hpre
    · exact chk_ktensor_update p ops hpre
    · exact chk_ktensor_viz p ops hpre
    · exact chk_ttensor_init p ops (by simpa using hpre)
    · exact chk_copy_all p ops
    · exact chk_alias_all p ops (by simpa using hpre)
    · exact chk_tenmat_to_tensor p ops hpre
    · exact chk_tenmat_getitem p ops
    · exact chk_tenmat_setitem p ops hpre
    · exact chk_sptenmat_double p ops
    · exact chk_sptenmat_setitem p ops hpre
    · exact chk_tt_ind2sub p ops
    · exact chk_parse_one_d p ops hpre
    · exact chk_to_memory_order p ops hpre
    · exact chk_alg_fresh p ops
    · exact chk_alg_returns_init p ops hpre
    · exact chk_computed _ _
  · simp [hpre]

end Pyttb.Heap
