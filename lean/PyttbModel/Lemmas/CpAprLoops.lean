/-
Lemmas for C11 (CP-APR), part 2: Pi / Phi are non-negative, and the loops of the three
solvers keep the model non-negative whatever the direction service returns.
-/
import PyttbModel.Lemmas.CpApr
set_option linter.unusedSectionVars false
set_option linter.unusedVariables false
namespace Pyttb.CpApr
open Pyttb.CpApr.Gen

variable {α : Type} [Field α] [LinearOrder α] [IsStrictOrderedRing α]

/-- The data tensor has no negative entry (dense: data list, sparse: stored values). -/
def NonnegData : Data α → Prop
  | .dense T => NonnegL T.data
  | .sparse S => NonnegL S.vals

/-- The per-mode data (unfolding and Pi, or the sparse tensor) is non-negative. -/
def NonnegMD : ModeData α → Prop
  | .dense Xn Pi => NonnegL Xn.data ∧ NonnegM Pi
  | .sparse S => NonnegL S.vals

section data

theorem foldl_inv_mem {σ β : Type} (P : σ → Prop) (f : σ → β → σ) :
    ∀ (l : List β) (s : σ), (∀ s x, x ∈ l → P s → P (f s x)) → P s → P (l.foldl f s) := by
  intro l
  induction l with
  | nil => intro s _ hs; simpa
  | cons x xs ih =>
    intro s hf hs
    rw [List.foldl_cons]
    exact ih _ (fun s y hy => hf s y (by simp [hy])) (hf s x (by simp) hs)

theorem dense_get_nonneg {T : Dense α} (h : NonnegL T.data) (i : List Nat) : 0 ≤ T.get i :=
  vget_nonneg h _

theorem permute_nonneg {T P : Dense α} {order : List Nat} (hp : T.permute order = .ok P)
    (h : NonnegL T.data) : NonnegL P.data := by
  unfold Dense.permute Dense.permuteG at hp
  split at hp
  · cases hp
  · split at hp
    · cases hp; exact h
    · split at hp
      · simp at *
      · split at hp
        · cases hp
        · cases hp
          intro x hx
          unfold Dense.transpose Dense.ofFn at hx
          simp only [List.mem_map] at hx
          obtain ⟨j, _, rfl⟩ := hx
          exact dense_get_nonneg h _

theorem toTenmat_nonneg {T : Dense α} {r c : Option (List Nat)} {cyc : Option Cyclic} {M : Tenmat α}
    (hm : T.toTenmat r c cyc = .ok M) (h : NonnegL T.data) : NonnegL M.data.data := by
  unfold Dense.toTenmat at hm
  simp only at hm
  repeat' split at hm
  all_goals first
    | (cases hm; done)
    | (cases hm; rename_i hP; have hh := permute_nonneg hP h; exact hh)

theorem zipWith_mul_nonneg {a b : List α} (ha : NonnegL a) (hb : NonnegL b) :
    NonnegL (List.zipWith (· * ·) a b) := by
  intro x hx
  rw [List.mem_iff_getElem] at hx
  obtain ⟨k, hk, rfl⟩ := hx
  rw [List.getElem_zipWith]
  exact mul_nonneg (ha _ (List.getElem_mem _)) (hb _ (List.getElem_mem _))

theorem kr2_nonneg {P M : Mat α} (hP : NonnegM P) (hM : NonnegM M) : NonnegM (kr2 P M) := by
  intro row hrow
  unfold kr2 at hrow
  simp only [List.mem_flatMap, List.mem_map] at hrow
  obtain ⟨p, hp, m, hm, rfl⟩ := hrow
  exact zipWith_mul_nonneg (hM m hm) (hP p hp)

theorem khatrirao_nonneg {Ms : List (Mat α)} {rev : Bool} {P : Mat α}
    (hk : khatrirao Ms rev = .ok P) (h : ∀ M ∈ Ms, NonnegM M) : NonnegM P := by
  unfold khatrirao at hk
  simp only at hk
  have h' : ∀ M ∈ (if rev then Ms.reverse else Ms), NonnegM M := by
    intro M hM
    split at hM
    · exact h M (List.mem_reverse.mp hM)
    · exact h M hM
  revert hk h'
  generalize (if rev then Ms.reverse else Ms) = L
  intro hk h'
  cases L with
  | nil => cases hk
  | cons M0 rest =>
    simp only at hk
    split at hk
    · cases hk
      exact foldl_inv_mem NonnegM kr2 rest M0
        (fun s x hx hs => kr2_nonneg hs (h' x (by simp [hx]))) (h' M0 (by simp))
    · cases hk

theorem piRows_nonneg {K : Ktensor α} (h : NonnegK K) (n : Nat) (subs : List (List Nat)) :
    NonnegM (piRows K n subs) := by
  intro row hrow x hx
  unfold piRows at hrow
  simp only [List.mem_map] at hrow
  obtain ⟨sub, _, rfl⟩ := hrow
  simp only [List.mem_map] at hx
  obtain ⟨r, _, rfl⟩ := hx
  exact foldl_inv (fun v : α => 0 ≤ v) _
    (fun s m hs => mul_nonneg hs (get_nonneg (factor_nonneg h m) _ r)) _ _ zero_le_one

theorem modeData_nonneg {X : Data α} {K : Ktensor α} {n : Nat} {md : ModeData α}
    (hX : NonnegData X) (hK : NonnegK K) (hm : modeData X K n = .ok md) : NonnegMD md := by
  unfold modeData at hm
  cases X with
  | sparse S => cases hm; exact hX
  | dense T =>
    simp only at hm
    split at hm
    · next Pi Xn hPi hXn =>
      cases hm
      exact ⟨toTenmat_nonneg hXn hX,
        khatrirao_nonneg hPi fun M hM => hK.2 M (List.mem_of_mem_eraseIdx hM)⟩
    · cases hm

end data

section phi
variable (log : α → α)

theorem div_max_nonneg {x v eps : α} (hx : 0 ≤ x) (heps : 0 < eps) :
    0 ≤ x / (NumOps.ofField log).maximum v eps := by
  rw [maximum_eq_max]
  exact div_nonneg hx (le_max_of_le_right heps.le)

theorem phiDense_nonneg {eps : α} (heps : 0 < eps) {Xn : Dense α} {Pi A : Mat α} (hX : NonnegL Xn.data)
    (hPi : NonnegM Pi) (I R : Nat) : NonnegM (phiDense (NumOps.ofField log) eps Xn Pi A I R) := by
  unfold phiDense
  apply tab_nonneg
  intro i r
  apply sumOver_nonneg
  intro j
  refine mul_nonneg (get_nonneg (tab_nonneg ?_) i j) (get_nonneg hPi j r)
  intro i' j'
  exact div_max_nonneg log (dense_get_nonneg hX _) heps

theorem phiSparse_nonneg {eps : α} (heps : 0 < eps) {S : Sparse α} {Pi A : Mat α} (hS : NonnegL S.vals)
    (hPi : NonnegM Pi) (n I R : Nat) : NonnegM (phiSparse (NumOps.ofField log) eps S n Pi A I R) := by
  unfold phiSparse
  apply tab_nonneg
  intro i r
  apply List.sum_nonneg
  intro x hx
  simp only [List.mem_map] at hx
  obtain ⟨k, _, rfl⟩ := hx
  refine mul_nonneg (vget_nonneg ?_ k) (get_nonneg hPi k r)
  intro y hy
  simp only [List.mem_map] at hy
  obtain ⟨k', _, rfl⟩ := hy
  exact div_max_nonneg log (vget_nonneg hS k') heps

theorem phiOf_nonneg {eps : α} (heps : 0 < eps) {md : ModeData α} (hmd : NonnegMD md) {K : Ktensor α}
    (hK : NonnegK K) (n : Nat) (A : Mat α) (I R : Nat) :
    NonnegM (phiOf (NumOps.ofField log) eps md K n A I R) := by
  unfold phiOf
  cases md with
  | dense Xn Pi => exact phiDense_nonneg log heps hmd.1 hmd.2 I R
  | sparse S => exact phiSparse_nonneg log heps hmd (piRows_nonneg hK n _) n I R

theorem kktMat_nonneg (A Phi : Mat α) (I R : Nat) : 0 ≤ kktMat (NumOps.ofField log) A Phi I R := by
  unfold kktMat
  apply maxD_nonneg
  intro x hx
  simp only [List.mem_flatten] at hx
  obtain ⟨row, hrow, hx⟩ := hx
  have : NonnegM (tab I R fun i r => kktEntry (NumOps.ofField log).abs (NumOps.ofField log).minimum
      (A.get i r) (Phi.get i r)) := tab_nonneg fun i r => abs_nonneg _
  exact this row hrow x hx

end phi

/-! ### generic loop invariants -/

section generic

theorem foldE_inv {σ β : Type} (P : σ → Prop) (f : σ → β → Except Reject σ)
    (hf : ∀ s x s', P s → f s x = .ok s' → P s') :
    ∀ (l : List β) (s s' : σ), P s → foldE f l s = .ok s' → P s' := by
  intro l
  induction l with
  | nil => intro s s' hs h; simp only [foldE] at h; cases h; exact hs
  | cons x xs ih =>
    intro s s' hs h
    simp only [foldE] at h
    split at h
    · next s1 h1 => exact ih s1 s' (hf s x s1 hs h1) h
    · cases h

theorem iterE_inv {σ : Type} (P : σ → Prop) (f : σ → Except Reject σ)
    (hf : ∀ s s', P s → f s = .ok s' → P s') :
    ∀ (k : Nat) (s s' : σ), P s → iterE f k s = .ok s' → P s' := by
  intro k
  induction k with
  | zero => intro s s' hs h; simp only [iterE] at h; cases h; exact hs
  | succ k ih =>
    intro s s' hs h
    simp only [iterE] at h
    split at h
    · next s1 h1 => exact ih s1 s' (hf s s1 hs h1) h
    · cases h

end generic

/-! ### MU -/

section mu
variable (log : α → α)

theorem muInnerLoop_nonneg {stoptol : α} {phi : Mat α → Mat α} (I R : Nat) :
    ∀ (fuel : Nat) (s : MuInner α), NonnegM s.A → (∀ A, NonnegM A → NonnegM (phi A)) → 0 ≤ s.kkt →
      NonnegM (muInnerLoop (NumOps.ofField log) stoptol phi I R fuel s).A ∧
      0 ≤ (muInnerLoop (NumOps.ofField log) stoptol phi I R fuel s).kkt := by
  intro fuel
  induction fuel with
  | zero => intro s hA _ hk; exact ⟨hA, hk⟩
  | succ fuel ih =>
    intro s hA hphi hk
    simp only [muInnerLoop]
    split
    · exact ⟨hA, kktMat_nonneg log _ _ I R⟩
    · apply ih _ _ hphi (kktMat_nonneg log _ _ I R)
      exact tab_nonneg fun i r => mul_nonneg (get_nonneg hA i r) (get_nonneg (hphi _ hA) i r)

theorem bump_nonneg {cfg : Cfg α} (hk : 0 ≤ cfg.kappa) (iterPos : Bool) {M : Ktensor α} (hM : NonnegK M)
    (Phin : Mat α) (n : Nat) : NonnegK (bump (NumOps.ofField log) cfg iterPos M Phin n).1 := by
  unfold bump
  simp only
  split
  · unfold setFactor
    apply nonnegK_set hM.1 hM.2
    apply tab_nonneg
    intro i r
    have ha := get_nonneg (factor_nonneg hM n) i r
    split
    · exact add_nonneg ha hk
    · exact ha
  · exact hM

/-- What one mode step of MU preserves. -/
def MuItInv (s : MuIt α) : Prop := NonnegK s.M ∧ NonnegL s.kktMode

theorem muMode_inv {cfg : Cfg α} (hk : 0 ≤ cfg.kappa) (heps : 0 < cfg.eps) {X : Data α}
    (hX : NonnegData X) (iterPos : Bool) (s : MuIt α) (n : Nat) (s' : MuIt α)
    (hs : MuItInv s) (h : muMode (NumOps.ofField log) cfg X iterPos s n = .ok s') : MuItInv s' := by
  unfold muMode at h
  simp only at h
  split at h
  · cases h
  · next md hmd =>
    cases h
    have hb := bump_nonneg log hk iterPos hs.1 (s.Phi.getD n []) n
    have hM2 := redistribute_nonneg hb n
    have hmd' := modeData_nonneg hX hM2 hmd
    constructor
    · apply normalizeMode_nonneg
      unfold setFactor
      refine nonnegK_set hM2.1 hM2.2 ?_
      exact (muInnerLoop_nonneg log _ _ _ _ (factor_nonneg hM2 n)
        (fun A _ => phiOf_nonneg log heps hmd' hM2 n A _ _) (vget_nonneg hs.2 n)).1
    · refine nonnegL_set hs.2 ?_
      exact (muInnerLoop_nonneg log _ _ _ _ (factor_nonneg hM2 n)
        (fun A _ => phiOf_nonneg log heps hmd' hM2 n A _ _) (vget_nonneg hs.2 n)).2

/-- What one outer iteration of MU preserves. -/
def MuInv (cfg : Cfg α) (s : MuSt α) : Prop :=
  NonnegK s.M ∧ NonnegL s.kktMode ∧ NonnegL s.kkt ∧ s.kkt.length = s.iter ∧
    s.nInner.length = s.iter ∧ s.nViol.length = s.iter ∧ s.iter ≤ cfg.maxiters

theorem muOuter_inv {cfg : Cfg α} (hk : 0 ≤ cfg.kappa) (heps : 0 < cfg.eps) {X : Data α}
    (hX : NonnegData X) (s s' : MuSt α) (hs : MuInv cfg s)
    (h : muOuter (NumOps.ofField log) cfg X s = .ok s') : MuInv cfg s' := by
  unfold muOuter at h
  split at h
  · cases h; exact hs
  · next hc =>
    split at h
    · cases h
    · next it hit =>
      cases h
      have hlt : s.iter < cfg.maxiters := by
        simp only [Bool.or_eq_true, decide_eq_true_eq, not_or, not_le] at hc
        exact hc.2
      obtain ⟨h1, h2, h3, h4, h5, h6, h7⟩ := hs
      have hinv : MuItInv it :=
        foldE_inv MuItInv _ (fun a x a' ha hh => muMode_inv log hk heps hX _ a x a' ha hh) _ _ _
          ⟨h1, h2⟩ hit
      refine ⟨hinv.1, hinv.2, nonnegL_append h3 (maxD_nonneg log hinv.2), ?_, ?_, ?_, hlt⟩ <;>
        simp [h4, h5, h6]

theorem muInit_inv {cfg : Cfg α} {init : Ktensor α} (h : NonnegK init) :
    MuInv cfg (muInit (NumOps.ofField log) init) := by
  unfold muInit
  refine ⟨normalize1_nonneg log h, ?_, ?_, rfl, rfl, rfl, Nat.zero_le _⟩
  · intro x hx
    simp only [List.mem_map] at hx
    obtain ⟨_, _, rfl⟩ := hx
    exact le_rfl
  · intro x hx; simp at hx

end mu

/-! ### projected line search and row sub-problems: any direction is projected -/

section row
variable (log : α → α)

theorem ite_prop {c : Prop} [Decidable c] {β : Type} (P : β → Prop) {a b : β} (ha : P a) (hb : P b) :
    P (if c then a else b) := by
  split <;> assumption

theorem project_nonneg (m : α) : 0 ≤ project (NumOps.ofField log).gt0 m := by
  unfold project NumOps.gt0 NumOps.ofField
  simp only [decide_eq_true_eq]
  split
  · next h => rw [mul_one]; exact h.le
  · rw [mul_zero]

theorem projList_nonneg (R : Nat) (f : Nat → α) :
    NonnegL ((List.range R).map fun r => project (NumOps.ofField log).gt0 (f r)) := by
  intro x hx
  simp only [List.mem_map] at hx
  obtain ⟨r, _, rfl⟩ := hx
  exact project_nonneg log _

theorem lsLoop_inv (c : Consts α) (sparse : Bool) (dir grad mOld x : List α) (Pi : Mat α) (R : Nat)
    (fOld : α) : ∀ (fuel count : Nat) (step : α) (acc : LS α),
      NonnegL acc.mNew → acc.mNew.length = R →
      NonnegL (lsLoop (NumOps.ofField log) c sparse dir grad mOld x Pi R fOld fuel count step acc).mNew ∧
      (lsLoop (NumOps.ofField log) c sparse dir grad mOld x Pi R fOld fuel count step acc).mNew.length = R := by
  intro fuel
  induction fuel with
  | zero => intro count step acc h hl; exact ⟨h, hl⟩
  | succ fuel ih =>
    intro count step acc h hl
    simp only [lsLoop]
    split
    · exact ih _ _ _ (projList_nonneg log R _) (by simp)
    · split
      · exact ⟨projList_nonneg log R _, by simp⟩
      · exact ih _ _ _ (projList_nonneg log R _) (by simp)

/-- The new row of the line search is non-negative and has `R` entries — for ANY direction,
gradient, old row, data and Pi. -/
theorem lineSearch_inv (c : Consts α) (sparse : Bool) (dir grad mOld x : List α) (Pi : Mat α)
    (phi : List α) (R : Nat) :
    NonnegL (lineSearch (NumOps.ofField log) c sparse dir grad mOld x Pi phi R) ∧
    (lineSearch (NumOps.ofField log) c sparse dir grad mOld x Pi phi R).length = R := by
  unfold lineSearch
  simp only
  exact ite_prop (fun l => NonnegL l ∧ l.length = R) ⟨projList_nonneg log R _, by simp⟩
    (lsLoop_inv log c sparse dir grad mOld x Pi R _ _ _ _ _ (projList_nonneg log R _) (by simp))

theorem rowKkt_nonneg (m g : List α) (R : Nat) : 0 ≤ rowKkt (NumOps.ofField log) m g R := by
  unfold rowKkt
  apply maxD_nonneg
  intro x hx
  simp only [List.mem_map] at hx
  obtain ⟨r, _, rfl⟩ := hx
  exact abs_nonneg _

/-- What the row loops preserve (sign). -/
def RowInv (s : RowSt α) : Prop := NonnegL s.m ∧ 0 ≤ s.kktMode

theorem pdnrRow_inv (c : Consts α) (cfg : Cfg α) (dir : Nat → List α → List α → Option (List α))
    (sparse : Bool) (x : List α) (Pi : Mat α) (R : Nat) :
    ∀ (fuel i : Nat) (s r : RowSt α), RowInv s →
      pdnrRow (NumOps.ofField log) c cfg dir sparse x Pi R fuel i s = some r → RowInv r := by
  intro fuel
  induction fuel with
  | zero => intro i s r hs h; simp only [pdnrRow] at h; cases h; exact hs
  | succ fuel ih =>
    intro i s r hs h
    simp only [pdnrRow] at h
    have hkm : ∀ k : α, 0 ≤ k → 0 ≤ (if (i == 0 && (NumOps.ofField log).lt s.kktMode k) = true then k
        else s.kktMode) := by
      intro k hk
      split
      · exact hk
      · exact hs.2
    split at h
    · cases h; exact ⟨hs.1, hkm _ (rowKkt_nonneg log _ _ R)⟩
    · split at h
      · cases h
      · next d hd =>
        refine ih _ _ r ?_ h
        exact ⟨(lineSearch_inv log c sparse d _ s.m x Pi _ R).1, hkm _ (rowKkt_nonneg log _ _ R)⟩

theorem pdnrRow_length (c : Consts α) (cfg : Cfg α) (dir : Nat → List α → List α → Option (List α))
    (sparse : Bool) (x : List α) (Pi : Mat α) (R : Nat) :
    ∀ (fuel i : Nat) (s r : RowSt α), s.m.length = R →
      pdnrRow (NumOps.ofField log) c cfg dir sparse x Pi R fuel i s = some r → r.m.length = R := by
  intro fuel
  induction fuel with
  | zero => intro i s r hs h; simp only [pdnrRow] at h; cases h; exact hs
  | succ fuel ih =>
    intro i s r hs h
    simp only [pdnrRow] at h
    split at h
    · cases h; exact hs
    · split at h
      · cases h
      · next d hd =>
        exact ih _ _ r (lineSearch_inv log c sparse d _ s.m x Pi _ R).2 h

theorem pqnrPrime_inv (c : Consts α) (cfg : Cfg α) (sparse : Bool) (x : List α) (Pi : Mat α)
    (R i : Nat) (m : List α) (hm : NonnegL m) :
    NonnegL (pqnrPrime (NumOps.ofField log) c cfg sparse x Pi R i m).1 := by
  unfold pqnrPrime
  simp only
  split
  · exact (lineSearch_inv log c sparse _ _ m x Pi _ R).1
  · exact hm

theorem pqnrPrime_length (c : Consts α) (cfg : Cfg α) (sparse : Bool) (x : List α) (Pi : Mat α)
    (R i : Nat) (m : List α) (hl : m.length = R) :
    (pqnrPrime (NumOps.ofField log) c cfg sparse x Pi R i m).1.length = R := by
  unfold pqnrPrime
  simp only
  split
  · exact (lineSearch_inv log c sparse _ _ m x Pi _ R).2
  · exact hl

theorem pqnrRow_inv (c : Consts α) (cfg : Cfg α) (dir : Nat → List α → List α → Option (List α))
    (sparse : Bool) (x : List α) (Pi : Mat α) (R : Nat) :
    ∀ (fuel i : Nat) (s r : RowSt α), RowInv s →
      pqnrRow (NumOps.ofField log) c cfg dir sparse x Pi R fuel i s = some r → RowInv r := by
  intro fuel
  induction fuel with
  | zero => intro i s r hs h; simp only [pqnrRow] at h; cases h; exact hs
  | succ fuel ih =>
    intro i s r hs h
    simp only [pqnrRow] at h
    have hp := pqnrPrime_inv log c cfg sparse x Pi R i s.m hs.1
    have hkm : ∀ k : α, 0 ≤ k → 0 ≤ (if (i == 0 && (NumOps.ofField log).lt s.kktMode k) = true then k
        else s.kktMode) := by
      intro k hk
      split
      · exact hk
      · exact hs.2
    split at h
    · cases h
      exact ⟨hp, hkm _ (rowKkt_nonneg log _ _ R)⟩
    · split at h
      · cases h
      · next d hd =>
        refine ih _ _ r ?_ h
        exact ⟨(lineSearch_inv log c sparse d _ _ x Pi _ R).1, hkm _ (rowKkt_nonneg log _ _ R)⟩

theorem pqnrRow_length (c : Consts α) (cfg : Cfg α) (dir : Nat → List α → List α → Option (List α))
    (sparse : Bool) (x : List α) (Pi : Mat α) (R : Nat) :
    ∀ (fuel i : Nat) (s r : RowSt α), s.m.length = R →
      pqnrRow (NumOps.ofField log) c cfg dir sparse x Pi R fuel i s = some r → r.m.length = R := by
  intro fuel
  induction fuel with
  | zero => intro i s r hs h; simp only [pqnrRow] at h; cases h; exact hs
  | succ fuel ih =>
    intro i s r hs h
    simp only [pqnrRow] at h
    split at h
    · cases h; exact pqnrPrime_length log c cfg sparse x Pi R i s.m hs
    · split at h
      · cases h
      · next d hd =>
        exact ih _ _ r (lineSearch_inv log c sparse d _ _ x Pi _ R).2 h

end row

/-! ### PDNR / PQNR outer structure -/

section newton
variable (log : α → α)

/-- What the loop over the rows of a mode preserves. -/
def RowsInv (acc : RowsAcc α) : Prop := NonnegM acc.A ∧ 0 ≤ acc.kktMode

theorem nwRow_inv (c : Consts α) (cfg : Cfg α) (alg : Alg) (dir : Dir α) (md : ModeData α)
    (K : Ktensor α) (iteration n : Nat) (acc : RowsAcc α) (jj : Nat) (acc' : RowsAcc α)
    (hacc : RowsInv acc)
    (h : nwRow (NumOps.ofField log) c cfg alg dir md K iteration n acc jj = .ok acc') : RowsInv acc' := by
  unfold nwRow at h
  simp only at h
  split at h
  · cases h
    refine ⟨nonnegM_set hacc.1 ?_, hacc.2⟩
    intro x hx
    rw [List.mem_replicate] at hx
    exact hx.2 ▸ le_rfl
  · have hs0 : RowInv (⟨acc.A.getD jj [], acc.kktMode, false, 0⟩ : RowSt α) :=
      ⟨getD_row_nonneg hacc.1 jj, hacc.2⟩
    split at h
    · cases h
    · next r hr =>
      cases h
      have hr' : RowInv r := by
        cases alg with
        | pqnr => exact pqnrRow_inv log c cfg _ _ _ _ _ _ _ _ r hs0 hr
        | mu => exact pdnrRow_inv log c cfg _ _ _ _ _ _ _ _ r hs0 hr
        | pdnr => exact pdnrRow_inv log c cfg _ _ _ _ _ _ _ _ r hs0 hr
      exact ⟨nonnegM_set hacc.1 hr'.1, hr'.2⟩

/-- What one mode step of PDNR / PQNR preserves. -/
def NwItInv (s : NwIt α) : Prop := NonnegK s.M ∧ NonnegL s.kktMode

theorem nwMode_inv (c : Consts α) (cfg : Cfg α) (alg : Alg) (dir : Dir α) (X : Data α)
    (iteration : Nat) (s : NwIt α) (n : Nat) (s' : NwIt α) (hs : NwItInv s)
    (h : nwMode (NumOps.ofField log) c cfg alg dir X iteration s n = .ok s') : NwItInv s' := by
  unfold nwMode at h
  simp only at h
  split at h
  · cases h
  · next md hmd =>
    split at h
    · cases h
    · next r hr =>
      cases h
      have hM1 := redistribute_nonneg hs.1 n
      have hacc : RowsInv r :=
        foldE_inv RowsInv _ (fun a x a' ha hh => nwRow_inv log c cfg alg dir md _ iteration n a x a' ha hh)
          _ _ _ ⟨factor_nonneg hM1 n, vget_nonneg hs.2 n⟩ hr
      constructor
      · apply normalizeMode_nonneg
        unfold setFactor
        exact nonnegK_set hM1.1 hM1.2 hacc.1
      · exact nonnegL_set hs.2 hacc.2

/-- What one outer iteration of PDNR / PQNR preserves. -/
def NwInv (cfg : Cfg α) (s : NwSt α) : Prop :=
  NonnegK s.M ∧ NonnegL s.kkt ∧ s.kkt.length = s.iter ∧ s.nInner.length = s.iter ∧
    s.iter ≤ cfg.maxiters

theorem nwOuter_inv (c : Consts α) (cfg : Cfg α) (alg : Alg) (dir : Dir α) (X : Data α)
    (s s' : NwSt α) (hs : NwInv cfg s)
    (h : nwOuter (NumOps.ofField log) c cfg alg dir X s = .ok s') : NwInv cfg s' := by
  unfold nwOuter at h
  split at h
  · cases h; exact hs
  · next hc =>
    split at h
    · cases h
    · next it hit =>
      cases h
      have hlt : s.iter < cfg.maxiters := by
        simp only [Bool.or_eq_true, decide_eq_true_eq, not_or, not_le] at hc
        exact hc.2
      obtain ⟨h1, h2, h3, h4, h5⟩ := hs
      have hinv : NwItInv it :=
        foldE_inv NwItInv _ (fun a x a' ha hh => nwMode_inv log c cfg alg dir X _ a x a' ha hh) _ _ _
          ⟨h1, by
            intro x hx
            simp only [List.mem_map] at hx
            obtain ⟨_, _, rfl⟩ := hx
            exact le_rfl⟩ hit
      refine ⟨hinv.1, nonnegL_append h2 (maxD_nonneg log hinv.2), ?_, ?_, hlt⟩ <;> simp [h3, h4]

theorem zeroRowPatch_nonneg {c : Consts α} (hc : 0 ≤ c.zeroRowFill) {K : Ktensor α} (h : NonnegK K) :
    NonnegK (zeroRowPatch (NumOps.ofField log) c K) := by
  unfold zeroRowPatch
  refine ⟨h.1, ?_⟩
  intro A hA row hrow
  simp only [List.mem_map] at hA
  obtain ⟨B, hB, rfl⟩ := hA
  simp only [List.mem_map] at hrow
  obtain ⟨row0, hrow0, rfl⟩ := hrow
  split
  · exact nonnegL_set (h.2 B hB row0 hrow0) hc
  · exact h.2 B hB row0 hrow0

theorem nwInit_inv {c : Consts α} (hc : 0 ≤ c.zeroRowFill) {cfg : Cfg α} {init : Ktensor α}
    (h : NonnegK init) : NwInv cfg (nwInit (NumOps.ofField log) c init) := by
  unfold nwInit
  refine ⟨normalize1_nonneg log (zeroRowPatch_nonneg log hc h), ?_, rfl, rfl, Nat.zero_le _⟩
  intro x hx; simp at hx

end newton

end Pyttb.CpApr
