/-
C02 — sparse `collapse` with a reducer that only looks at the non-zero arguments.
-/
import PyttbModel.Lemmas.MLSparseOps
namespace Pyttb
namespace ML

variable {α : Type}

/-- A reducer that depends only on the multiset of its non-zero arguments (sum, sum of
squares, count of non-zeros, …): what `sptensor.collapse` needs, since it hands the reducer the
stored values only. -/
def ZeroInsensitive [Zero α] [DecidableEq α] {β : Type} (f : List α → β) : Prop :=
  ∀ l l' : List α, (l.filter fun v => !(v == 0)).Perm (l'.filter fun v => !(v == 0)) → f l = f l'

/-- The stored values filed under the remaining coordinates `i`. -/
def group (E : List (List Nat × α)) (rem i : List Nat) : List α :=
  ((E.filter fun e => gather e.1 rem == i).map (·.2))

/-- The non-zero entries of a fiber of a well-formed sparse tensor are the stored values of
that fiber. -/
theorem fiber_values [AddMonoid α] [DecidableEq α] (S : Sparse α) (hS : S.WF) (rem i : List Nat) :
    (((Spec.fiber S.shape rem i).map S.get).filter fun v => !(v == 0)).Perm (group S.entries rem i) := by
  set E := S.entries with hE
  have hkeys : (E.map (·.1)).Nodup := by rw [hE, S.entries_keys hS.len]; exact hS.nodup
  have hEnd : E.Nodup := List.Nodup.of_map _ hkeys
  have hnz : ∀ e ∈ E, e.2 ≠ 0 := by
    intro e he
    have := hS.nz e.2 (List.of_mem_zip (a := e.1) (b := e.2) he).2
    simpa using this
  set L := Spec.fiber S.shape rem i with hL
  have hget : ∀ e ∈ E, S.get e.1 = e.2 := fun e he => kvSum_of_mem E e.1 e.2 hkeys he
  -- cells with a non-zero entry are the stored cells of the fiber
  have hfilter : L.filter (fun k => !(S.get k == 0)) = L.filter (fun k => (E.map (·.1)).contains k) := by
    apply List.filter_congr
    intro k _
    by_cases hk : k ∈ E.map (·.1)
    · obtain ⟨e, he, rfl⟩ := List.mem_map.1 hk
      have h1 : (E.map (·.1)).contains e.1 = true := List.contains_iff_mem.2 hk
      rw [h1, hget e he]
      simpa using hnz e he
    · have h1 : (E.map (·.1)).contains k = false := by
        rw [Bool.eq_false_iff]; intro h; exact hk (List.contains_iff_mem.1 h)
      rw [h1, show S.get k = 0 from kvSum_of_not_mem E k hk]
      simp
  rw [List.filter_map]
  show ((L.filter ((fun v => !(v == 0)) ∘ S.get)).map S.get).Perm _
  rw [show ((fun v : α => !(v == 0)) ∘ S.get) = fun k => !(S.get k == 0) from rfl, hfilter]
  unfold group
  -- re-index the stored cells of the fiber by the stored entries
  have hp : ((E.filter fun e => gather e.1 rem == i).map (·.1)).Perm (L.filter fun k => (E.map (·.1)).contains k) := by
    apply perm_bij _ _ _ (hEnd.filter _) ((fiber_nodup _ _ _).filter _)
    · intro x hx y hy h
      have hx' := (List.mem_filter.1 hx).1
      have hy' := (List.mem_filter.1 hy).1
      obtain ⟨x1, x2⟩ := x
      obtain ⟨y1, y2⟩ := y
      simp only at h
      subst h
      rw [nodup_keys_unique hkeys hx' hy']
    · intro y
      simp only [List.mem_filter, List.contains_iff_mem, List.mem_map, hL, mem_fiber, beq_iff_eq]
      constructor
      · rintro ⟨⟨_, hg⟩, e, he, rfl⟩
        exact ⟨e, ⟨he, hg⟩, rfl⟩
      · rintro ⟨e, ⟨he, hg⟩, rfl⟩
        exact ⟨⟨entries_inb S hS e he, hg⟩, e, he, rfl⟩
  have := (hp.map S.get).symm
  refine this.trans ?_
  rw [List.map_map]
  apply List.Perm.of_eq
  apply List.map_congr_left
  intro e he
  exact hget e (List.mem_filter.1 he).1

/-- `from_aggregator(subs, vals, shape, f)` denotes `f` of each group (0 for an empty group). -/
theorem fromAggregator_get_gen [AddMonoid α] [DecidableEq α] (subs : List (List Nat)) (vals : List α)
    (shape : List Nat) (f : List α → α) (i : List Nat) :
    (ML.fromAggregator subs vals shape f).get i =
      if i ∈ subs then f (((subs.zip vals).filter fun e => e.1 == i).map (·.2)) else 0 := by
  unfold ML.fromAggregator
  simp only [Sparse.get, Sparse.entries, zip_fst_snd]
  show kvSum _ i = _
  have hdrop : ∀ (l : List (List Nat × α)), kvSum (l.filter fun e => !(e.2 == 0)) i = kvSum l i := by
    intro l
    induction l with
    | nil => rfl
    | cons e l ih =>
      by_cases hz : e.2 = 0
      · have : (!(e.2 == 0)) = false := by simp [hz]
        rw [List.filter_cons, this]
        simp only [Bool.false_eq_true, if_false]
        rw [ih, kvSum_cons]
        by_cases hk : e.1 = i
        · rw [if_pos hk, hz, zero_add]
        · rw [if_neg hk, zero_add]
      · have : (!(e.2 == 0)) = true := by simp [hz]
        rw [List.filter_cons, this]
        simp only [if_true]
        rw [kvSum_cons, kvSum_cons, ih]
  rw [hdrop, kvSum_map _ (fun r => f (((subs.zip vals).filter fun e => e.1 == r).map (·.2))) i
    (nodup_uniqueRowsSorted subs)]
  simp only [mem_uniqueRowsSorted]

/-- **Sparse `collapse`** on every branch (all modes → scalar, one mode left → plain vector,
otherwise sparse; nothing stored), for reducers that only look at non-zero arguments. -/
theorem sparse_collapse_spec [CommSemiring α] [DecidableEq α] (S : Sparse α) (hS : S.WF)
    (dims : Option (List Nat)) (sel : List Nat)
    (hdims : match dims with
      | none => sel = List.range S.shape.length
      | some d => d.Nodup ∧ (∀ x ∈ d, x < S.shape.length) ∧ sel = sdimsOf d)
    (f : List α → α) (hf : ZeroInsensitive f) (hf0 : f [] = 0) :
    ∃ r, S.collapse (dims.map fun d => d.map Int.ofNat) f = .ok r ∧
      r.shape = gather S.shape (complDims S.shape.length sel) ∧
      ∀ i, InBounds r.shape i → r.get i = Spec.collapse S.den sel f i := by
  set N := S.shape.length with hN
  set rem := complDims N sel with hrem
  have hres : resolveDims N (dims.map fun d => d.map Int.ofNat) = .ok sel := by
    cases dims with
    | none => simp only [Option.map_none]; rw [hdims]; exact resolveDims_none N
    | some d =>
      obtain ⟨h1, h2, h3⟩ := hdims
      simp only [Option.map_some]; rw [h3]; exact resolveDims_some N d h1 h2
  have hspec : ∀ i, Spec.collapse S.den sel f i = f (group S.entries rem i) := by
    intro i
    unfold Spec.collapse
    apply hf
    refine (fiber_values S hS rem i).trans ?_
    apply List.Perm.of_eq
    symm
    rw [List.filter_eq_self]
    intro v hv
    obtain ⟨e, he, rfl⟩ := List.mem_map.1 hv
    have := hS.nz e.2 (List.of_mem_zip (a := e.1) (b := e.2) (List.mem_filter.1 he).1).2
    simpa using this
  have hsubs : S.subs = S.entries.map (·.1) := (S.entries_keys hS.len).symm
  have hvals : S.vals = S.entries.map (·.2) := (List.map_snd_zip (Nat.le_of_eq hS.len.symm)).symm
  unfold Sparse.collapse
  simp only [← hN, hres, ← hrem]
  by_cases hr0 : rem.isEmpty = true
  · rw [if_pos hr0]
    have hrem0 : rem = [] := List.isEmpty_iff.1 hr0
    refine ⟨_, rfl, by simp [ML.Res.shape, hrem0], ?_⟩
    intro i hi
    have hi0 : i = [] := by
      simp only [ML.Res.shape] at hi
      cases i <;> simp_all [InBounds]
    subst hi0
    simp only [ML.Res.get]
    rw [hspec]
    unfold group
    have : S.entries.filter (fun e => gather e.1 rem == []) = S.entries := by
      rw [List.filter_eq_self]; intro e _; rw [hrem0]; rfl
    rw [this, ← hvals]
  · rw [if_neg hr0]
    by_cases hr1 : (rem.length == 1) = true
    · rw [if_pos hr1]
      have hrl : rem.length = 1 := by simpa using hr1
      obtain ⟨m0, hm0⟩ : ∃ m0, rem = [m0] := by
        match rem, hrl with
        | [m], _ => exact ⟨m, rfl⟩
      set n0 := (gather S.shape rem).getD 0 0 with hn0
      have hns : gather S.shape rem = [n0] := by rw [hn0, hm0]; rfl
      have hiform : ∀ i, InBounds [n0] i → ∃ k, i = [k] ∧ k < n0 := by
        intro i hi
        match i, hi with
        | [k], hi => exact ⟨k, rfl, hi.1⟩
      by_cases hse : S.subs.isEmpty = true
      · rw [if_pos hse]
        refine ⟨_, rfl, by simp [ML.Res.shape, hns], ?_⟩
        intro i hi
        simp only [ML.Res.shape, List.length_replicate] at hi
        obtain ⟨k, rfl, hk⟩ := hiform i hi
        have hE0 : S.entries = [] := by
          have : S.subs = [] := List.isEmpty_iff.1 hse
          simp [Sparse.entries, this]
        simp only [ML.Res.get, List.getD_cons_zero]
        rw [hspec, hE0]
        simp [group, hf0, List.getD_eq_getElem?_getD, List.getElem?_replicate, hk]
      · rw [if_neg hse]
        refine ⟨_, rfl, by simp [ML.Res.shape, ML.accumarray, hns], ?_⟩
        intro i hi
        simp only [ML.Res.shape, ML.accumarray, List.length_map, List.length_range] at hi
        obtain ⟨k, rfl, hk⟩ := hiform i hi
        simp only [ML.Res.get, List.getD_cons_zero]
        unfold ML.accumarray
        rw [getD_map_range _ _ _ _ hk, hspec]
        have hgrp : (((S.subs.map fun r => r.getD (rem.getD 0 0) 0).zip S.vals).filter fun e => e.1 == k).map (·.2)
            = group S.entries rem [k] := by
          unfold group
          rw [hsubs, hvals, List.map_map, zip_map_map, List.filter_map, List.map_map]
          congr 1
          apply List.filter_congr
          intro e _
          simp only [Function.comp_apply, hm0, gather_cons, gather_nil, List.getD_cons_zero]
          exact (length_one_beq _ _).symm
        show (if _ then _ else _) = _
        rw [hgrp]
        split
        · next h =>
          rw [List.isEmpty_iff.1 h, hf0]
        · rfl
    · rw [if_neg hr1]
      by_cases hse : S.subs.isEmpty = true
      · rw [if_pos hse]
        refine ⟨_, rfl, rfl, ?_⟩
        intro i _
        have hE0 : S.entries = [] := by
          have : S.subs = [] := List.isEmpty_iff.1 hse
          simp [Sparse.entries, this]
        rw [hspec, hE0]
        simp only [group, List.filter_nil, List.map_nil, hf0]
        rfl
      · rw [if_neg hse]
        refine ⟨_, rfl, rfl, ?_⟩
        intro i _
        simp only [ML.Res.get]
        rw [fromAggregator_get_gen, hspec]
        have hgrp : (((S.subs.map fun r => gather r rem).zip S.vals).filter fun e => e.1 == i).map (·.2)
            = group S.entries rem i := by
          unfold group
          rw [hsubs, hvals, List.map_map, zip_map_map, List.filter_map, List.map_map]
          rfl
        rw [hgrp]
        split
        · rfl
        · next h =>
          have : group S.entries rem i = [] := by
            unfold group
            rw [List.map_eq_nil_iff, List.filter_eq_nil_iff]
            intro e he hg
            apply h
            rw [hsubs, List.map_map]
            exact List.mem_map.2 ⟨e, he, by simpa using hg⟩
          rw [this, hf0]

/-- `sum` only looks at the non-zero arguments. -/
theorem zeroInsensitive_sum [AddCommMonoid α] [DecidableEq α] : ZeroInsensitive (List.sum : List α → α) := by
  intro l l' h
  have hs : ∀ m : List α, m.sum = (m.filter fun v => !(v == 0)).sum := by
    intro m
    induction m with
    | nil => rfl
    | cons a m ih =>
      by_cases ha : a = 0
      · subst ha; simp [ih]
      · have : (!(a == 0)) = true := by simp [ha]
        rw [List.filter_cons, this]; simp [ih]
  rw [hs l, hs l', h.sum_eq]

end ML
end Pyttb
