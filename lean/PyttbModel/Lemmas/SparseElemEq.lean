/-
C03: refinement lemmas for `==` and `!=` of Ops/SparseElem, and the list tools shared with the
order comparisons.
-/
import PyttbModel.Lemmas.SparseElemLogic
import Mathlib.Data.List.Perm.Subperm
namespace Pyttb
open SpElem
variable {α : Type}

/-! ### positions of a dense tensor -/

section find
variable [Zero α]

theorem mem_findWhere (p : α → Bool) (D : Dense α) (hD : D.WF) (i : List Nat) :
    i ∈ findWhere p D ↔ InBounds D.shape i ∧ p (D.get i) = true := by
  unfold findWhere
  simp only [List.mem_map, List.mem_filter, List.mem_range]
  constructor
  · rintro ⟨k, ⟨hk, hp⟩, rfl⟩
    rw [hD] at hk
    refine ⟨ind2sub_inBounds hk, ?_⟩
    simp only [Dense.get, sub2ind_ind2sub hk]
    exact hp
  · rintro ⟨hi, hp⟩
    refine ⟨sub2ind D.shape i, ⟨?_, hp⟩, ind2sub_sub2ind hi⟩
    rw [hD]; exact sub2ind_lt hi

theorem findWhere_nodup (p : α → Bool) (D : Dense α) (hD : D.WF) : (findWhere p D).Nodup := by
  unfold findWhere
  apply List.Nodup.map_on
  · intro x hx y hy h
    have hx' := (List.mem_filter.1 hx).1
    have hy' := (List.mem_filter.1 hy).1
    rw [List.mem_range, hD] at hx' hy'
    rw [← sub2ind_ind2sub hx', h, sub2ind_ind2sub hy']
  · exact List.Nodup.filter _ List.nodup_range

theorem mem_whereC (p : α → Bool) (D : Dense α) (i : List Nat) :
    i ∈ whereC p D ↔ InBounds D.shape i ∧ p (D.get i) = true := by
  unfold whereC
  rw [List.mem_filter, mem_allSubsC]

end find

/-! ### list tools -/

theorem map_range_getD {β γ : Type} (l : List β) (d : β) (f : β → γ) :
    (List.range l.length).map (fun k => f (l.getD k d)) = l.map f := by
  apply List.ext_getElem
  · simp
  · intro n h1 h2
    simp only [List.length_map] at h2
    simp [List.getElem?_eq_getElem h2]

theorem rowsAt_setdiff (A : List (List Nat)) (U : List Row) (hA : A.Nodup) :
    rowsAt A (setdiffRows (toRows A) U) = A.filter (fun r => !U.contains (toRow r)) := by
  unfold rowsAt
  rw [setdiff_spec, firstOccIdx_of_nodup_se _ (toRows_nodup hA)]
  have hl : (toRows A).length = A.length := by simp [toRows]
  rw [hl]
  have : (List.range A.length).filter (fun k => !U.contains ((toRows A).getD k []))
      = (List.range A.length).filter (fun k => (fun r => !U.contains (toRow r)) (A.getD k [])) := by
    apply List.filter_congr
    intro k _
    rw [toRows_getD]
  rw [this, map_filter_range_getD A [] (fun r => !U.contains (toRow r))]

theorem find?_beq_self (l : List Nat) (k : Nat) :
    l.find? (fun x => x == k) = if k ∈ l then some k else none := by
  induction l with
  | nil => simp
  | cons a l ih =>
    by_cases h : a = k
    · subst h; simp
    · have : (a == k) = false := by simpa using h
      rw [List.find?_cons, this, ih]
      simp [Ne.symm h]

theorem scatterMask_map (n : Nat) (idx : List Nat) (g : Nat → Bool) :
    scatterMask n idx (idx.map g) = (List.range n).map (fun k => idx.contains k && g k) := by
  unfold scatterMask
  apply List.map_congr_left
  intro k _
  rw [zip_self_map, ← List.map_reverse, List.find?_map]
  have : ((fun p : Nat × Bool => p.1 == k) ∘ fun k => (k, g k)) = (fun x => x == k) := rfl
  rw [this, find?_beq_self]
  by_cases h : k ∈ idx
  · simp [h]
  · simp [h]

/-- indices returned by `tt_intersect_rows(A, B)` for duplicate-free `A`. -/
theorem mem_intersect_nodup (A B : List (List Nat)) (hA : A.Nodup) (k : Nat) :
    k ∈ intersectRows (toRows A) (toRows B) ↔ k < A.length ∧ B.contains (A.getD k []) = true := by
  have hf : firstOccIdx (toRows A) = List.range A.length := by
    rw [firstOccIdx_of_nodup_se _ (toRows_nodup hA)]; simp [toRows]
  constructor
  · intro h
    have hk := intersect_mem _ _ k h
    have h2 := (mem_intersect_iff _ _ k hk).1 h
    rw [hf, List.mem_range] at hk
    refine ⟨hk, ?_⟩
    rw [toRows_getD, mem_toRows] at h2
    simpa using h2
  · rintro ⟨hk, hb⟩
    have hk' : k ∈ firstOccIdx (toRows A) := by rw [hf, List.mem_range]; exact hk
    rw [mem_intersect_iff _ _ k hk', toRows_getD, mem_toRows]
    simpa using hb

theorem notInter_mask (A B : List (List Nat)) (hA : A.Nodup) :
    (List.range A.length).map (fun k => !(intersectRows (toRows A) (toRows B)).contains k)
      = A.map (fun r => !B.contains r) := by
  rw [← map_range_getD A [] (fun r => !B.contains r)]
  apply List.map_congr_left
  intro k hk
  rw [List.mem_range] at hk
  congr 1
  rw [Bool.eq_iff_iff, List.contains_iff_mem, mem_intersect_nodup A B hA]
  simp [hk]

/-! ### `==` -/

section eq
variable [AddMonoid α] [One α] [DecidableEq α]

theorem eq_scalar_spec (A : Sparse α) (hA : A.WF) (c : α) (h1 : (1 : α) ≠ 0) :
    ∃ R, SpElem.eq A (.scalar c) = .ok R ∧ R.WF ∧ R.shape = A.shape ∧
      ∀ i, InBounds A.shape i → R.get i = if A.get i = c then 1 else 0 := by
  unfold SpElem.eq
  by_cases hc : c = 0
  · obtain ⟨w, sh, g⟩ := logicalNot_spec A hA h1
    refine ⟨_, by simp [hc], w, sh, fun i hi => ?_⟩
    rw [g i hi, hc]
  · have hcb : (c == 0) = false := by simpa using hc
    simp only [hcb, Bool.false_eq_true, ↓reduceIte]
    rw [Sparse.vals_eq_map_get A hA, List.map_map, maskSel_map]
    refine ⟨_, rfl, ofSubs_char _ _ (List.Nodup.filter _ hA.nodup) h1 (fun i => A.get i = c) (fun i => ?_)⟩
    simp only [List.mem_filter, Function.comp, beq_iff_eq]
    constructor
    · rintro ⟨h, e⟩; exact ⟨hA.inb i h, e⟩
    · rintro ⟨_, e⟩
      refine ⟨?_, e⟩
      by_contra hn
      exact hc (e ▸ A.get_of_not_mem i hn)

theorem eq_sparse_spec (A B : Sparse α) (hA : A.WF) (hB : B.WF) (hs : A.shape = B.shape) (h1 : (1 : α) ≠ 0) :
    ∃ R, SpElem.eq A (.sparse B) = .ok R ∧ R.WF ∧ R.shape = A.shape ∧
      ∀ i, InBounds A.shape i → R.get i = if A.get i = B.get i then 1 else 0 := by
  unfold SpElem.eq
  simp only [hs, bne_self_eq_false, Bool.false_eq_true, ↓reduceIte]
  -- the two groups of subscripts
  have hzz : interRows (zeroSubs A) (zeroSubs B) = (zeroSubs B).filter (fun r => (zeroSubs A).contains r) :=
    interRows_eq _ _ (zeroSubs_nodup B)
  have hnz : interRows A.subs B.subs = B.subs.filter (fun r => A.subs.contains r) :=
    interRows_eq _ _ hB.nodup
  have hznz : (if (A.nnz > 0 && B.nnz > 0) = true then
        maskSel (List.zipWith (fun a b => a == b) (extractD A (interRows A.subs B.subs))
          (extractD B (interRows A.subs B.subs))) (interRows A.subs B.subs) else [])
      = (B.subs.filter (fun r => A.subs.contains r)).filter (fun r => A.get r == B.get r) := by
    split
    · rw [extractD_eq A hA, extractD_eq B hB, zipWith_map_map, maskSel_map, hnz]
    · next h =>
      simp only [Sparse.nnz, gt_iff_lt, Bool.and_eq_true, decide_eq_true_eq, not_and_or, Nat.not_lt,
        Nat.le_zero, List.length_eq_zero_iff] at h
      rcases h with h | h
      · simp [h]
      · simp [h]
  rw [hznz, hzz]
  refine ⟨_, rfl, ?_⟩
  rw [← hs]
  apply ofSubs_char _ _ _ h1 (fun i => A.get i = B.get i)
  · intro i
    simp only [List.mem_append, List.mem_filter, List.contains_iff_mem, mem_zeroSubs A hA, mem_zeroSubs B hB,
      beq_iff_eq, ← hs]
    constructor
    · rintro (⟨⟨hi, hb⟩, ⟨_, ha⟩⟩ | ⟨⟨hb, ha⟩, e⟩)
      · exact ⟨hi, ha.trans hb.symm⟩
      · exact ⟨hA.inb i ha, e⟩
    · rintro ⟨hi, e⟩
      by_cases ha : A.get i = 0
      · left; exact ⟨⟨hi, e ▸ ha⟩, ⟨hi, ha⟩⟩
      · right
        refine ⟨⟨(B.get_ne_zero_iff hB i).1 (e ▸ ha), (A.get_ne_zero_iff hA i).1 ha⟩, e⟩
  · rw [List.nodup_append]
    refine ⟨List.Nodup.filter _ (zeroSubs_nodup B), List.Nodup.filter _ (List.Nodup.filter _ hB.nodup), ?_⟩
    intro a ha b hb hab
    subst hab
    simp only [List.mem_filter, List.contains_iff_mem, mem_zeroSubs A hA] at ha hb
    exact A.get_ne_zero_of_mem hA a hb.1.2 ha.2.2

theorem eq_dense_spec (A : Sparse α) (hA : A.WF) (D : Dense α) (hD : D.WF) (hs : A.shape = D.shape)
    (h1 : (1 : α) ≠ 0) :
    ∃ R, SpElem.eq A (.dense D) = .ok R ∧ R.WF ∧ R.shape = A.shape ∧
      ∀ i, InBounds A.shape i → R.get i = if A.get i = D.get i then 1 else 0 := by
  unfold SpElem.eq
  simp only [hs, bne_self_eq_false, Bool.false_eq_true, ↓reduceIte]
  have hznz : (if A.nnz > 0 then
        maskSel (List.zipWith (fun o v => o == v) (A.subs.map D.get) A.vals) A.subs else [])
      = A.subs.filter (fun r => D.get r == A.get r) := by
    split
    · rw [Sparse.vals_eq_map_get A hA, zipWith_map_map, maskSel_map]
    · next h =>
      simp only [Sparse.nnz, gt_iff_lt, Nat.not_lt, Nat.le_zero, List.length_eq_zero_iff] at h
      simp [h]
  rw [hznz, extractD_eq A hA, List.map_map, maskSel_map]
  refine ⟨_, rfl, ?_⟩
  rw [← hs]
  apply ofSubs_char _ _ _ h1 (fun i => A.get i = D.get i)
  · intro i
    simp only [List.mem_append, List.mem_filter, mem_findWhere _ D hD, Function.comp, beq_iff_eq, ← hs]
    constructor
    · rintro (⟨⟨hi, hd⟩, ha⟩ | ⟨ha, e⟩)
      · exact ⟨hi, ha.trans hd.symm⟩
      · exact ⟨hA.inb i ha, e.symm⟩
    · rintro ⟨hi, e⟩
      by_cases ha : A.get i = 0
      · left; exact ⟨⟨hi, e ▸ ha⟩, ha⟩
      · right; exact ⟨(A.get_ne_zero_iff hA i).1 ha, e.symm⟩
  · rw [List.nodup_append]
    refine ⟨List.Nodup.filter _ (findWhere_nodup _ D hD), List.Nodup.filter _ hA.nodup, ?_⟩
    intro a ha b hb hab
    subst hab
    simp only [List.mem_filter, Function.comp, beq_iff_eq] at ha hb
    exact A.get_ne_zero_of_mem hA a hb.1 ha.2

end eq

end Pyttb
