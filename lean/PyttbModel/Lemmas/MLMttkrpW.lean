/-
C02 — `mttkrp` with a Kruskal operand: `get_mttkrp_factors` absorbs the weights into mode 1
(if `n = 0`) or mode 0, which multiplies column `r` of the answer by `λ_r`.
-/
import PyttbModel.Lemmas.MLMttkrp
namespace Pyttb
namespace ML

variable {α : Type}

theorem getD_zipWith_mul' [MulZeroClass α] (a b : List α) (c : Nat) :
    (List.zipWith (· * ·) a b).getD c 0 = a.getD c 0 * b.getD c 0 := by
  induction a generalizing b c with
  | nil => simp
  | cons x a ih =>
    cases b with
    | nil => simp
    | cons y b =>
      cases c with
      | zero => simp
      | succ c => simpa using ih b c

theorem get_scaled_rows [MulZeroClass α] (A : Mat α) (w : List α) (x c : Nat) :
    Mat.get (A.map fun row => List.zipWith (· * ·) row w) x c = A.get x c * w.getD c 0 := by
  unfold Mat.get
  by_cases hx : x < A.length
  · have h1 : (A.map fun row => List.zipWith (· * ·) row w).getD x [] = List.zipWith (· * ·) (A.getD x []) w := by
      rw [List.getD_eq_getElem?_getD, List.getElem?_map, List.getElem?_eq_getElem hx,
        List.getD_eq_getElem?_getD, List.getElem?_eq_getElem hx]
      rfl
    rw [h1, getD_zipWith_mul']
  · have h1 : (A.map fun row => List.zipWith (· * ·) row w).getD x [] = [] := by
      rw [List.getD_eq_getElem?_getD, List.getElem?_eq_none (by simpa using Nat.le_of_not_lt hx)]; rfl
    have h2 : A.getD x [] = [] := by
      rw [List.getD_eq_getElem?_getD, List.getElem?_eq_none (Nat.le_of_not_lt hx)]; rfl
    rw [h1, h2]; simp

/-- Scaling one factor of a product over distinct indices scales the product once. -/
theorem prod_scale_one [CommMonoid α] (L : List Nat) (hL : L.Nodup) (mm : Nat) (hm : mm ∈ L) (f : Nat → α) (c : α) :
    (L.map fun m => if m = mm then f m * c else f m).prod = c * (L.map f).prod := by
  induction L with
  | nil => cases hm
  | cons a L ih =>
    have hnd := List.nodup_cons.1 hL
    rw [List.map_cons, List.prod_cons, List.map_cons, List.prod_cons]
    by_cases ha : a = mm
    · subst ha
      rw [if_pos rfl]
      have : (L.map fun m => if m = a then f m * c else f m) = L.map f := by
        apply List.map_congr_left
        intro m hm'
        rw [if_neg (fun (h : m = a) => hnd.1 (h ▸ hm'))]
      rw [this, mul_comm (f a) c, mul_assoc]
    · rw [if_neg ha]
      have hm' : mm ∈ L := by
        rcases List.mem_cons.1 hm with h | h
        · exact absurd h.symm ha
        · exact h
      rw [ih hnd.2 hm', ← mul_assoc, mul_comm (f a) c, mul_assoc]

/-- The specification with the weights absorbed into one factor other than `n` equals the
specification with the weights as the extra factor `λ_r`. -/
theorem spec_mttkrp_absorb [CommSemiring α] (X : Den α) (Uf : Nat → Nat → Nat → α) (w : Nat → α)
    (n mm i r : Nat) (hmm : mm < X.shape.length) (hne : mm ≠ n) :
    Spec.mttkrp X (fun m x c => if m = mm then Uf m x c * w c else Uf m x c) (fun _ => 1) n i r =
      Spec.mttkrp X Uf w n i r := by
  unfold Spec.mttkrp Spec.sumOver
  rw [one_mul, ← List.sum_map_mul_left]
  apply sum_congr
  intro k _
  have hL : ((List.range X.shape.length).filter (· != n)).Nodup := List.nodup_range.filter _
  have hmem : mm ∈ (List.range X.shape.length).filter (· != n) := by
    rw [List.mem_filter]; exact ⟨List.mem_range.2 hmm, by simpa using hne⟩
  have := prod_scale_one _ hL mm hmem (fun m => Uf m (k.getD m 0) r) (w r)
  rw [show (((List.range X.shape.length).filter (· != n)).map fun m =>
      (if m = mm then Uf m (k.getD m 0) r * w r else Uf m (k.getD m 0) r)) =
      ((List.range X.shape.length).filter (· != n)).map fun m =>
        if m = mm then Uf m (k.getD m 0) r * w r else Uf m (k.getD m 0) r from rfl] at this
  have h2 : (((List.range X.shape.length).filter (· != n)).map fun m =>
      (fun m x c => if m = mm then Uf m x c * w c else Uf m x c) m (k.getD m 0) r) =
      ((List.range X.shape.length).filter (· != n)).map fun m =>
        if m = mm then Uf m (k.getD m 0) r * w r else Uf m (k.getD m 0) r := rfl
  rw [h2, this]
  ring

/-- The factor list `get_mttkrp_factors` hands on for a Kruskal operand. -/
theorem absorbWeights_getD [Mul α] (w : List α) (fs : List (Mat α)) (n m : Nat) (hm : m < fs.length) :
    (absorbWeights w fs n).getD m [] =
      if m = (if n == 0 then 1 else 0) then (fs.getD m []).map (fun row => List.zipWith (· * ·) row w)
      else fs.getD m [] := by
  unfold absorbWeights
  rw [getD_map_range _ _ _ _ hm]
  by_cases h : m = (if n == 0 then 1 else 0)
  · rw [if_pos h]; simp [h]
  · rw [if_neg h]
    have : (m == if n == 0 then 1 else 0) = false := by simpa using h
    rw [this]; rfl

/-- **Dense `mttkrp` with a Kruskal operand**: the weights multiply the columns of the answer. -/
theorem dense_mttkrp_kruskal_spec [CommSemiring α] (T : Dense α) (K : Ktensor α) (n R : Nat)
    (hT : T.WF) (hN2 : 2 ≤ T.shape.length) (hn : n < T.shape.length) (hlen : K.factors.length = T.shape.length)
    (hw : K.weights.length = R)
    (hrows : ∀ m, m < T.shape.length → m ≠ n → (K.factors.getD m []).length = T.shape.getD m 0)
    (hcols : ∀ m, m < T.shape.length → m ≠ n → ∀ row ∈ K.factors.getD m [], row.length = R)
    (hpos : ∀ e ∈ T.shape, 0 < e) :
    ∃ V, T.mttkrp (.kruskal K) n = .ok V ∧
      ∀ i r, i < T.shape.getD n 0 → r < R →
        V.get i r = Spec.mttkrp T.den (fun m x c => (K.factors.getD m []).get x c)
          (fun r => K.weights.getD r 0) n i r := by
  set N := T.shape.length with hN
  set mm := (if n == 0 then 1 else 0) with hmmdef
  have hmmN : mm < N := by rw [hmmdef]; split <;> omega
  have hmmn : mm ≠ n := by
    rw [hmmdef]
    by_cases h0 : n = 0
    · subst h0; simp
    · have : (n == 0) = false := by simpa using h0
      rw [this]; simp only [Bool.false_eq_true, if_false]; exact fun h => h0 h.symm
  set U' := absorbWeights K.weights K.factors n with hU'
  have hU'len : U'.length = N := by simp [hU', absorbWeights, hlen]
  have hU'get : ∀ m, m < N → U'.getD m [] =
      if m = mm then (K.factors.getD m []).map (fun row => List.zipWith (· * ·) row K.weights)
      else K.factors.getD m [] := fun m hm => absorbWeights_getD K.weights K.factors n m (by rw [hlen]; exact hm)
  have hgmf : getMttkrpFactors (.kruskal K) n N = .ok U' := by
    unfold getMttkrpFactors
    simp only [← hmmdef, ← hU']
    have h1 : ¬ (mm ≥ K.factors.length) := by rw [hlen]; omega
    have h2 : (U'.length != N) = false := by rw [hU'len]; exact bne_self_eq_false _
    simp [h1, h2]
  obtain ⟨V, hV, hval⟩ := dense_mttkrpCore_spec T U' n R hT hN2 hn hU'len
    (by
      intro m hm hmn
      rw [hU'get m hm]
      split
      · rw [List.length_map]; exact hrows m hm hmn
      · exact hrows m hm hmn)
    (by
      intro m hm hmn row hrow
      rw [hU'get m hm] at hrow
      split at hrow
      · obtain ⟨row', hr', rfl⟩ := List.mem_map.1 hrow
        rw [List.length_zipWith, hcols m hm hmn row' hr', hw, Nat.min_self]
      · exact hcols m hm hmn row hrow)
    hpos
  refine ⟨V, ?_, ?_⟩
  · unfold Dense.mttkrp
    have : ¬ (N < 2) := by omega
    simp only [← hN, this, if_false, hgmf]
    exact hV
  · intro i r hi hr
    rw [hval i r hi hr, ← spec_mttkrp_absorb T.den (fun m x c => (K.factors.getD m []).get x c)
      (fun r => K.weights.getD r 0) n mm i r hmmN hmmn]
    unfold Spec.mttkrp Spec.sumOver
    congr 1
    apply sum_congr
    intro k _
    congr 2
    apply List.map_congr_left
    intro m hm
    have hm' : m < N := List.mem_range.1 (List.mem_filter.1 hm).1
    simp only
    rw [hU'get m hm']
    by_cases h : m = mm
    · rw [if_pos h, if_pos h, get_scaled_rows]
    · rw [if_neg h, if_neg h]

end ML
end Pyttb
