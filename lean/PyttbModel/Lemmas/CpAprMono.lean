/-
Lemmas for C11 (CP-APR), part 10: the negative Poisson log-likelihood of the model TENSOR,
its invariance under the re-parameterisations between modes, and its decomposition into the
row objectives of one mode (the rows are independent given Pi).
-/
import PyttbModel.Lemmas.CpAprObjective
import PyttbModel.Lemmas.CpAprMajoriseModel
import PyttbModel.Lemmas.CpAprDescent
import Mathlib.Data.List.Nodup
set_option linter.unusedSectionVars false
set_option linter.unusedVariables false
namespace Pyttb.CpApr
open Pyttb.CpApr.Gen

variable {α : Type} [Field α] [LinearOrder α] [IsStrictOrderedRing α]

/-- Negative Poisson log-likelihood of the data under the tensor a Kruskal model denotes:
`Σ_cells m − Σ x · log m` (`x = 0` contributes `0 · log m = 0`; sparse data: the stored entries). -/
def negLL (log : α → α) (X : Data α) (K : Ktensor α) : α :=
  match X with
  | .dense T =>
    ((allSubs T.shape).map K.get).sum -
      ((List.range (numel T.shape)).map fun k => vget T.data k * log (K.get (ind2sub T.shape k))).sum
  | .sparse S =>
    ((allSubs S.shape).map K.get).sum -
      ((List.range S.subs.length).map fun k => vget S.vals k * log (K.get (S.subs.getD k []))).sum

/-- Stored layout is consistent: dense data has one value per cell, sparse subscripts are in
bounds and paired with values (what `validate` checks). -/
def DataWF : Data α → Prop
  | .dense T => T.data.length = numel T.shape
  | .sparse S => S.subs.length = S.vals.length ∧ ∀ sub ∈ S.subs, InBounds S.shape sub

theorem allSubs_length {s c : List Nat} (h : c ∈ allSubs s) : c.length = s.length :=
  (mem_allSubs.mp h).length_eq

/-- The likelihood depends on the model only through the tensor it denotes. -/
theorem negLL_congr (log : α → α) {X : Data α} (hX : DataWF X) {K K' : Ktensor α}
    (h : ∀ i : List Nat, i.length = X.shape.length → K.get i = K'.get i) :
    negLL log X K = negLL log X K' := by
  cases X with
  | dense T =>
    unfold negLL
    simp only
    congr 1
    · congr 1
      apply List.map_congr_left
      intro c hc
      exact h c (allSubs_length hc)
    · congr 1
      apply List.map_congr_left
      intro k hk
      rw [h _ (ind2sub_inBounds (List.mem_range.mp hk)).length_eq]
  | sparse S =>
    unfold negLL
    simp only
    congr 1
    · congr 1
      apply List.map_congr_left
      intro c hc
      exact h c (allSubs_length hc)
    · congr 1
      apply List.map_congr_left
      intro k hk
      have hk' := List.mem_range.mp hk
      have e : S.subs.getD k [] = S.subs[k] := by
        rw [List.getD_eq_getElem?_getD, List.getElem?_eq_getElem hk']; rfl
      rw [e, h _ (hX.2 _ (List.getElem_mem hk')).length_eq]

/-! ### redistribute preserves the tensor -/

theorem redistribute_get (K : Ktensor α) (n : Nat) (hn : n < K.factors.length) (i : List Nat)
    (hi : i.length = K.factors.length) : (redistribute K n).get i = K.get i := by
  unfold redistribute
  apply get_set_scaled K n hn _ _ (fun r => vget K.weights r) i hi (by simp)
  · intro r hr k
    by_cases hk : k < (factor K n).length
    · rw [tab_get _ hk hr, mul_comm]
    · rw [tab_get_of_le _ (Nat.le_of_not_lt hk), get_of_le_length (Nat.le_of_not_lt hk), mul_zero]
  · intro r hr; rw [vget_map_const_one hr, one_mul]

theorem redistribute_nfactors (K : Ktensor α) (n : Nat) :
    (redistribute K n).factors.length = K.factors.length := by
  simp [redistribute]

theorem redistribute_unit (K : Ktensor α) (n : Nat) :
    ∀ r < (redistribute K n).weights.length, vget (redistribute K n).weights r = 1 := by
  intro r hr
  unfold redistribute at hr ⊢
  simp only [List.length_map] at hr
  exact vget_map_const_one hr

theorem redistribute_factor_ne (K : Ktensor α) {n m : Nat} (h : n ≠ m) :
    factor (redistribute K n) m = factor K m := by
  unfold redistribute
  exact factor_set_ne h _

theorem setFactor_factor_ne (K : Ktensor α) {n m : Nat} (h : n ≠ m) (A : Mat α) :
    factor (setFactor K n A) m = factor K m := by
  unfold setFactor
  exact factor_set_ne h _

theorem setFactor_factor_self (K : Ktensor α) {n : Nat} (hn : n < K.factors.length) (A : Mat α) :
    factor (setFactor K n A) n = A := by
  unfold setFactor
  exact factor_set_self hn _

theorem normalizeMode_factor_ne (o : NumOps α) (K : Ktensor α) {n m : Nat} (h : n ≠ m) :
    factor (normalizeMode o K n) m = factor K m := by
  unfold normalizeMode
  exact factor_set_ne h _

theorem setFactor_self (K : Ktensor α) (n : Nat) : setFactor K n (factor K n) = K := by
  unfold setFactor
  rw [set_factor_self]

/-! ### the mass term: with unit weights and unit column sums in the other modes, the sum of all
entries is the sum of the entries of factor `n` -/

/-- Every mode has unit column sums (what L1 `normalize` leaves when no column norm is zero). -/
def ColsOne (K : Ktensor α) : Prop :=
  ∀ m < K.factors.length, ∀ r < K.weights.length, colSum (factor K m) r = 1

/-- All modes but `n` have unit column sums. -/
def ColsOneBut (K : Ktensor α) (n : Nat) : Prop :=
  ∀ m < K.factors.length, m ≠ n → ∀ r < K.weights.length, colSum (factor K m) r = 1

theorem prod_map_others_one (g : Mat α → α) :
    ∀ (fs : List (Mat α)) (n : Nat), n < fs.length →
      (∀ m < fs.length, m ≠ n → g (fs.getD m []) = 1) → (fs.map g).prod = g (fs.getD n []) := by
  intro fs
  induction fs with
  | nil => intro n hn; simp at hn
  | cons A fs ih =>
    intro n hn h
    cases n with
    | zero =>
      rw [List.map_cons, List.prod_cons, prod_eq_one_of_all, mul_one]
      · rfl
      · intro x hx
        simp only [List.mem_map] at hx
        obtain ⟨B, hB, rfl⟩ := hx
        obtain ⟨k, hk, rfl⟩ := List.mem_iff_getElem.mp hB
        have := h (k + 1) (by simpa using hk) (by omega)
        simpa [List.getD_eq_getElem?_getD, hk] using this
    | succ n =>
      rw [List.map_cons, List.prod_cons]
      have h0 := h 0 (by simp) (by omega)
      simp only [List.getD_cons_zero] at h0
      rw [h0, one_mul, List.getD_cons_succ]
      apply ih n (by simpa using hn)
      intro m hm hne
      have := h (m + 1) (by simpa using hm) (by omega)
      simpa using this

theorem sum_cells_eq_factor (K : Ktensor α) (n : Nat) {shape : List Nat} {R : Nat}
    (hs : ShapeK shape R K) (hn : n < K.factors.length)
    (hw : ∀ r < K.weights.length, vget K.weights r = 1) (hc : ColsOneBut K n) :
    ((allSubs shape).map K.get).sum =
      sumOver (factor K n).length fun i => sumOver R fun r => (factor K n).get i r := by
  rw [← hs.2.1, sum_get_allSubs, hs.1]
  have e : ∀ r ∈ List.range R,
      vget K.weights r * (K.factors.map fun A => colSum A r).prod = colSum (factor K n) r := by
    intro r hr
    have hr' : r < K.weights.length := by rw [hs.1]; exact List.mem_range.mp hr
    rw [hw r hr', one_mul, prod_map_others_one (fun A => colSum A r) K.factors n hn]
    · rfl
    · intro m hm hne
      exact hc m hm hne r hr'
  rw [List.map_congr_left e]
  unfold colSum sumOver
  rw [← sum_swap]

/-! ### a model entry with unit weights is `row of factor n · row of Pi` -/

theorem zipWith_eq_map_range {β : Type} (g : Mat α → Nat → β) (fs : List (Mat α)) (i : List Nat)
    (hi : i.length = fs.length) :
    List.zipWith g fs i = (List.range fs.length).map fun m => g (fs.getD m []) (i.getD m 0) := by
  apply List.ext_getElem (by simp [hi])
  intro k h1 h2
  have hk : k < fs.length := by simpa using h2
  have hk' : k < i.length := hi ▸ hk
  simp only [List.getElem_zipWith, List.getElem_map, List.getElem_range]
  rw [List.getD_eq_getElem?_getD, List.getD_eq_getElem?_getD, List.getElem?_eq_getElem hk,
    List.getElem?_eq_getElem hk']
  rfl

/-- The product over the modes with mode `n` taken out, in the form of `piRows`
(`Pi = ones; for m ≠ n: Pi *= …`). -/
theorem prod_zipWith_split (g : Mat α → Nat → α) (fs : List (Mat α)) (i : List Nat) (n : Nat)
    (hn : n < fs.length) (hi : i.length = fs.length) :
    (List.zipWith g fs i).prod = g (fs.getD n []) (i.getD n 0) *
      ((List.range fs.length).filter (fun m => m != n)).foldl
        (fun acc m => acc * g (fs.getD m []) (i.getD m 0)) 1 := by
  rw [zipWith_eq_map_range g fs i hi,
    ← List.prod_map_erase (fun m => g (fs.getD m []) (i.getD m 0)) (List.mem_range.mpr hn),
    List.nodup_range.erase_eq_filter]
  congr 1
  generalize (List.range fs.length).filter (fun m => m != n) = l
  have : ∀ (a : α), l.foldl (fun acc m => acc * g (fs.getD m []) (i.getD m 0)) a =
      a * (l.map fun m => g (fs.getD m []) (i.getD m 0)).prod := by
    induction l with
    | nil => intro a; simp
    | cons x xs ih => intro a; rw [List.foldl_cons, ih, List.map_cons, List.prod_cons, mul_assoc]
  rw [this, one_mul]

/-- Entry `(k, r)` of `piRows`. -/
theorem piRows_get (K : Ktensor α) (n : Nat) (subs : List (List Nat)) {k r : Nat}
    (hk : k < subs.length) (hr : r < K.weights.length) :
    (piRows K n subs).get k r =
      ((List.range K.factors.length).filter (fun m => m != n)).foldl
        (fun acc m => acc * (factor K m).get ((subs.getD k []).getD m 0) r) 1 := by
  have hsub : subs.getD k [] = subs[k] := by
    rw [List.getD_eq_getElem?_getD, List.getElem?_eq_getElem hk]; rfl
  have e : (piRows K n subs).getD k [] = (List.range K.weights.length).map fun r =>
      ((List.range K.factors.length).filter (fun m => m != n)).foldl
        (fun acc m => acc * (factor K m).get (subs[k].getD m 0) r) 1 := by
    unfold piRows
    rw [List.getD_eq_getElem?_getD]
    simp [hk]
  unfold Mat.get
  rw [e, hsub]
  exact vget_map_range hr _

theorem piRows_length (K : Ktensor α) (n : Nat) (subs : List (List Nat)) :
    (piRows K n subs).length = subs.length := by
  simp [piRows]

theorem piRows_setFactor (K : Ktensor α) (n : Nat) (A : Mat α) (subs : List (List Nat)) :
    piRows (setFactor K n A) n subs = piRows K n subs := by
  unfold piRows
  apply List.map_congr_left
  intro sub _
  have hlen : (setFactor K n A).factors.length = K.factors.length := by simp [setFactor]
  have hw : (setFactor K n A).weights = K.weights := rfl
  rw [hw, hlen]
  apply List.map_congr_left
  intro r _
  apply List.foldl_ext
  intro acc m hm
  have hne : n ≠ m := by
    simp only [List.mem_filter, bne_iff_ne] at hm
    exact fun h => hm.2 h.symm
  rw [setFactor_factor_ne K hne]

/-- With unit weights, the model value at a full subscript is the dot product of the row of
factor `n` with the row of Pi for that subscript. -/
theorem get_eq_rowV (K : Ktensor α) (n : Nat) (hn : n < K.factors.length)
    (hw : ∀ r < K.weights.length, vget K.weights r = 1) (subs : List (List Nat)) (k : Nat)
    (hk : k < subs.length) (hlen : (subs.getD k []).length = K.factors.length) :
    K.get (subs.getD k []) =
      rowV (piRows K n subs) ((factor K n).getD ((subs.getD k []).getD n 0) []) K.weights.length k := by
  unfold Ktensor.get Ktensor.ncomp Ktensor.comp rowV sumOver
  apply congrArg
  apply List.map_congr_left
  intro r hr
  have hr' := List.mem_range.mp hr
  have h1 := hw r hr'
  unfold vget at h1
  rw [h1, one_mul, prod_zipWith_split (fun (A : Mat α) ik => A.get ik r) K.factors _ n hn hlen,
    piRows_get K n subs hk hr']
  rfl

/-! ### sparse data: the stored entries grouped by their mode-`n` subscript -/

theorem sumOver_ite_eq (I k : Nat) (hk : k < I) (v : α) :
    (sumOver I fun i => if k = i then v else 0) = v := by
  rw [sumOver_eq_finset, Finset.sum_ite_eq]
  simp [hk]

theorem sumOver_add (n : Nat) (f g : Nat → α) :
    (sumOver n fun i => f i + g i) = sumOver n f + sumOver n g := by
  unfold sumOver
  exact List.sum_map_add

theorem sumOver_congr {n : Nat} {f g : Nat → α} (h : ∀ i < n, f i = g i) : sumOver n f = sumOver n g := by
  unfold sumOver
  apply congrArg
  apply List.map_congr_left
  intro i hi
  exact h i (List.mem_range.mp hi)

theorem sumOver_le {n : Nat} {f g : Nat → α} (h : ∀ i < n, f i ≤ g i) : sumOver n f ≤ sumOver n g := by
  rw [sumOver_eq_finset, sumOver_eq_finset]
  exact Finset.sum_le_sum fun i hi => h i (Finset.mem_range.mp hi)

/-- A sum over a list of indices, grouped by a key with values below `I`. -/
theorem sum_partition (key : Nat → Nat) (I : Nat) (g : Nat → α) :
    ∀ l : List Nat, (∀ k ∈ l, key k < I) →
      (l.map g).sum = sumOver I fun i => ((l.filter fun k => key k == i).map g).sum := by
  intro l
  induction l with
  | nil => intro _; simp [sumOver]
  | cons k l ih =>
    intro h
    rw [List.map_cons, List.sum_cons, ih (fun x hx => h x (by simp [hx]))]
    have e : ∀ i < I, (((k :: l).filter fun k => key k == i).map g).sum =
        (if key k = i then g k else 0) + ((l.filter fun k => key k == i).map g).sum := by
      intro i _
      rw [List.filter_cons]
      by_cases hki : key k = i
      · simp [hki]
      · simp [hki]
    rw [sumOver_congr e, sumOver_add, sumOver_ite_eq I (key k) (h k (by simp))]

theorem sum_map_eq_sumOver (l : List Nat) (g : Nat → α) :
    (l.map g).sum = sumOver l.length fun j => g (l.getD j 0) := by
  unfold sumOver
  rw [map_range_getD l g]

theorem vget_map_nat (l : List Nat) (f : Nat → α) {j : Nat} (hj : j < l.length) :
    vget (l.map f) j = f (l.getD j 0) := by
  unfold vget
  rw [List.getD_eq_getElem?_getD, List.getD_eq_getElem?_getD]
  simp [hj]

/-- The index set of row `i` in the sparse path (`np.where(subs[:, n] == i)`). -/
def rowIdx (S : Sparse α) (n i : Nat) : List Nat :=
  (List.range S.subs.length).filter fun k => (S.subs.getD k []).getD n 0 == i

theorem mem_rowIdx {S : Sparse α} {n i k : Nat} (h : k ∈ rowIdx S n i) :
    k < S.subs.length ∧ (S.subs.getD k []).getD n 0 = i := by
  unfold rowIdx at h
  simp only [List.mem_filter, List.mem_range, beq_iff_eq] at h
  exact h

theorem getD_mem_of_lt {l : List Nat} {j : Nat} (hj : j < l.length) : l.getD j 0 ∈ l := by
  rw [List.getD_eq_getElem?_getD, List.getElem?_eq_getElem hj]
  exact List.getElem_mem hj

/-- Sparse data, `Σ x log m` term: the stored entries, grouped by rows of mode `n`, with the
model value written as `row of factor n · gathered row of Pi` — exactly what the row
sub-problems of mode `n` see. -/
theorem sparse_log_rows (log : α → α) (S : Sparse α) (K : Ktensor α) (n I : Nat) (hn : n < K.factors.length)
    (hw : ∀ r < K.weights.length, vget K.weights r = 1)
    (hlen : ∀ sub ∈ S.subs, sub.length = K.factors.length)
    (hI : ∀ sub ∈ S.subs, sub.getD n 0 < I) :
    ((List.range S.subs.length).map fun k => vget S.vals k * log (K.get (S.subs.getD k []))).sum =
      sumOver I fun i =>
        sumOver (rowIdx S n i).length fun j =>
          vget ((rowIdx S n i).map (vget S.vals)) j *
            log (rowV (piRows K n ((rowIdx S n i).map fun k => S.subs.getD k []))
              ((factor K n).getD i []) K.weights.length j) := by
  have hsub : ∀ k, k < S.subs.length → S.subs.getD k [] ∈ S.subs := by
    intro k hk
    rw [List.getD_eq_getElem?_getD, List.getElem?_eq_getElem hk]
    exact List.getElem_mem hk
  rw [sum_partition (fun k => (S.subs.getD k []).getD n 0) I _ (List.range S.subs.length)
    (fun k hk => hI _ (hsub k (List.mem_range.mp hk)))]
  apply sumOver_congr
  intro i _
  show ((rowIdx S n i).map _).sum = _
  rw [sum_map_eq_sumOver]
  apply sumOver_congr
  intro j hj
  obtain ⟨hk, hkey⟩ := mem_rowIdx (getD_mem_of_lt hj)
  rw [vget_map_nat _ _ hj]
  congr 2
  rw [get_eq_rowV K n hn hw S.subs _ hk (hlen _ (hsub _ hk)), hkey]
  unfold rowV
  apply sumOver_congr
  intro r hr
  congr 1
  rw [piRows_get K n S.subs hk hr, piRows_get K n _ (by simpa using hj) hr]
  congr 2
  rw [List.getD_eq_getElem?_getD, List.getD_eq_getElem?_getD (l := (rowIdx S n i).map _)]
  simp [hj, List.getD_eq_getElem?_getD]

/-! ### the likelihood of the tensor is the sum of the row objectives of mode `n` -/

/-- Objective of row `i` of mode `n` when the factor of that mode is `A` (the other modes and
the data enter through `rowData`). -/
def rowObj (log : α → α) (md : ModeData α) (K : Ktensor α) (n R : Nat) (A : Mat α) (i : Nat) : α :=
  rowNegLL (NumOps.ofField log) (mdSparse md) (rowData md K n i).1 (rowData md K n i).2 (A.getD i []) R

theorem sumOver_sub (n : Nat) (f g : Nat → α) :
    (sumOver n fun i => f i - g i) = sumOver n f - sumOver n g := by
  rw [sumOver_eq_finset, sumOver_eq_finset, sumOver_eq_finset, Finset.sum_sub_distrib]

theorem inBounds_getD_lt : ∀ {s i : List Nat} (n : Nat), InBounds s i → n < s.length →
    i.getD n 0 < s.getD n 0 := by
  intro s
  induction s with
  | nil => intro i n _ hn; simp at hn
  | cons a s ih =>
    intro i n h hn
    cases i with
    | nil => simp [InBounds] at h
    | cons b i =>
      simp only [InBounds] at h
      cases n with
      | zero => simpa using h.1
      | succ n => simpa using ih n h.2 (by simpa using hn)

theorem factor_length_of_shape {shape : List Nat} {R : Nat} {K : Ktensor α} (hs : ShapeK shape R K)
    (n : Nat) : (factor K n).length = shape.getD n 0 := by
  unfold factor
  rw [← hs.2.1, List.getD_eq_getElem?_getD, List.getD_eq_getElem?_getD, List.getElem?_map]
  cases K.factors[n]? <;> rfl

theorem nfactors_of_shape {shape : List Nat} {R : Nat} {K : Ktensor α} (hs : ShapeK shape R K) :
    K.factors.length = shape.length := by
  have := congrArg List.length hs.2.1
  rwa [List.length_map] at this

/-- Sparse data: with unit weights and unit column sums in the other modes, the negative
log-likelihood of the tensor is the sum over the rows of mode `n` of the row objectives. -/
theorem negLL_rows_sparse (log : α → α) (S : Sparse α) (K : Ktensor α) (n : Nat) {R : Nat}
    (hs : ShapeK S.shape R K) (hn : n < K.factors.length) (hX : DataWF (.sparse S))
    (hw : ∀ r < K.weights.length, vget K.weights r = 1) (hc : ColsOneBut K n) :
    negLL log (.sparse S) K =
      sumOver (factor K n).length (rowObj log (.sparse S) K n R (factor K n)) := by
  have hN := nfactors_of_shape hs
  unfold negLL
  simp only
  rw [sum_cells_eq_factor K n hs hn hw hc,
    sparse_log_rows log S K n (factor K n).length hn hw
      (fun sub h => by rw [hN]; exact (hX.2 sub h).length_eq)
      (fun sub h => by
        rw [factor_length_of_shape hs n]
        exact inBounds_getD_lt n (hX.2 sub h) (hN ▸ hn)),
    ← sumOver_sub]
  apply sumOver_congr
  intro i _
  unfold rowObj
  rw [rowNegLL_eq, ← sumOver_eq_finset, ← sumOver_eq_finset, hs.1]
  congr 1
  show _ = sumOver (piRows K n ((rowIdx S n i).map fun k => S.subs.getD k [])).length _
  rw [piRows_length, List.length_map]
  rfl

end Pyttb.CpApr
