/-
C05: the static analysis of Heap/Prog.lean is compositional.

* `foldl_reloc`: analysing a callee's program placed in a caller (`Built.at`) gives the callee's
  own roots with `op j` replaced by the caller's root of the register passed as operand `j`.
* `Blk`: a Hoare-style triple over the analysis state – "from any state in which the registers
  `R0` are good, the steps `p` lead to a state in which `R0 ++ R1` are good and every write went
  to an allowed target" – with rules for raw steps, for calls of callees that pass the
  `pureFresh` check (whatever registers they are given), for sequencing, and the final link to
  `specCheck`.  Entries of arbitrary length (any number of factor matrices / parts) are proved
  by induction with these rules.  Core Lean only.
-/
import PyttbModel.Lemmas.HeapTable
import PyttbModel.Heap.Compose
namespace Pyttb.Heap
set_option linter.unusedSimpArgs false
set_option linter.unusedVariables false

/-! ### relocation -/

/-- root of a callee register, seen from a caller whose registers have the roots `ρ0` -/
def Root.subst (ρ0 : List Root) (args : List Nat) : Root → Root
  | .op j => ρ0.getD (args.getD j 0) .any
  | .fresh => .fresh
  | .any => .any

theorem reloc_isWrite (k : Nat) (args : List Nat) (free : Nat) (s : Step) :
    (s.reloc k args free).isWrite = s.isWrite := by cases s <;> rfl

theorem ndefs_reloc (k : Nat) (args : List Nat) (free : Nat) (q : Prog) :
    ndefs (q.map (Step.reloc k args free)) = ndefs q := by
  induction q with
  | nil => rfl
  | cons s ss ih => simp only [List.map_cons, ndefs_cons, ih, reloc_isWrite]

theorem getD_reloc (k : Nat) (args : List Nat) (free : Nat) (ρ0 ρ : List Root)
    (hlen : ρ0.length = free) (hargs : ∀ j, j < k → args.getD j 0 < free)
    (hk : k ≤ ρ.length) (hpre : ∀ r, r < k → ρ.getD r .any = .op r) (r : Nat) :
    (ρ0 ++ (ρ.drop k).map (Root.subst ρ0 args)).getD (relocReg k args free r) .any =
      Root.subst ρ0 args (ρ.getD r .any) := by
  unfold relocReg
  by_cases hr : r < k
  · simp only [hr, if_true]
    rw [hpre r hr]
    have := hargs r hr
    simp only [Root.subst, List.getD_eq_getElem?_getD] at this ⊢
    rw [List.getElem?_append_left (by omega)]
  · simp only [hr, if_false]
    simp only [List.getD_eq_getElem?_getD]
    rw [List.getElem?_append_right (by omega)]
    have e1 : free + (r - k) - ρ0.length = r - k := by omega
    rw [e1, List.getElem?_map, List.getElem?_drop]
    have e2 : k + (r - k) = r := by omega
    rw [e2]
    cases h : ρ[r]? with
    | none => rfl
    | some x => rfl

theorem drop_append_one {β : Type} (l : List β) (x : β) (k : Nat) (h : k ≤ l.length) :
    (l ++ [x]).drop k = l.drop k ++ [x] := by
  rw [List.drop_append_of_le_length h]

theorem staticStep_reloc (k : Nat) (args : List Nat) (free : Nat) (ρ0 ω0 ρ ω : List Root)
    (hlen : ρ0.length = free) (hargs : ∀ j, j < k → args.getD j 0 < free)
    (hk : k ≤ ρ.length) (hpre : ∀ r, r < k → ρ.getD r .any = .op r) (s : Step) :
    staticStep (ρ0 ++ (ρ.drop k).map (Root.subst ρ0 args), ω0 ++ ω.map (Root.subst ρ0 args))
        (s.reloc k args free) =
      (ρ0 ++ ((staticStep (ρ, ω) s).1.drop k).map (Root.subst ρ0 args),
       ω0 ++ (staticStep (ρ, ω) s).2.map (Root.subst ρ0 args)) := by
  have G := getD_reloc k args free ρ0 ρ hlen hargs hk hpre
  cases s <;>
    simp only [Step.reloc, staticStep, rootStep, G, drop_append_one _ _ _ hk, List.map_append,
      List.map_cons, List.map_nil, List.append_assoc, Root.subst]

theorem staticStep_fst_length (acc : List Root × List Root) (s : Step) :
    (staticStep acc s).1.length = acc.1.length + (if s.isWrite then 0 else 1) := by
  cases s <;> simp [staticStep, rootStep, Step.isWrite]

theorem getD_append_left' {β : Type} (l m : List β) (d : β) (r : Nat) (h : r < l.length) :
    (l ++ m).getD r d = l.getD r d := by
  simp only [List.getD_eq_getElem?_getD]; rw [List.getElem?_append_left h]

theorem staticStep_fst_prefix (acc : List Root × List Root) (s : Step) :
    ∃ ext, (staticStep acc s).1 = acc.1 ++ ext := by
  cases s <;> first | exact ⟨_, rfl⟩ | exact ⟨[], by simp [staticStep, rootStep]⟩

theorem foldl_static_prefix (p : Prog) (acc : List Root × List Root) :
    ∃ ext, (p.foldl staticStep acc).1 = acc.1 ++ ext ∧ ext.length = ndefs p := by
  induction p generalizing acc with
  | nil => exact ⟨[], by simp, rfl⟩
  | cons s ss ih =>
    obtain ⟨e1, h1⟩ := staticStep_fst_prefix acc s
    obtain ⟨e2, h2, h3⟩ := ih (staticStep acc s)
    refine ⟨e1 ++ e2, by simp only [List.foldl_cons, h2, h1, List.append_assoc], ?_⟩
    have hl := staticStep_fst_length acc s
    rw [h1] at hl
    simp only [List.length_append] at hl ⊢
    rw [ndefs_cons, h3]
    omega

theorem foldl_reloc (k : Nat) (args : List Nat) (free : Nat) (ρ0 ω0 : List Root)
    (hlen : ρ0.length = free) (hargs : ∀ j, j < k → args.getD j 0 < free) (q : Prog) :
    ∀ (ρ ω : List Root), k ≤ ρ.length → (∀ r, r < k → ρ.getD r .any = .op r) →
    (q.map (Step.reloc k args free)).foldl staticStep
        (ρ0 ++ (ρ.drop k).map (Root.subst ρ0 args), ω0 ++ ω.map (Root.subst ρ0 args)) =
      (ρ0 ++ ((q.foldl staticStep (ρ, ω)).1.drop k).map (Root.subst ρ0 args),
       ω0 ++ (q.foldl staticStep (ρ, ω)).2.map (Root.subst ρ0 args)) := by
  induction q with
  | nil => intro ρ ω _ _; rfl
  | cons s ss ih =>
    intro ρ ω hk hpre
    simp only [List.map_cons, List.foldl_cons]
    rw [staticStep_reloc k args free ρ0 ω0 ρ ω hlen hargs hk hpre s]
    obtain ⟨ext, hext'⟩ := staticStep_fst_prefix (ρ, ω) s
    have hext : (staticStep (ρ, ω) s).1 = ρ ++ ext := hext'
    have := ih (staticStep (ρ, ω) s).1 (staticStep (ρ, ω) s).2
      (by rw [hext]; simp only [List.length_append]; omega)
      (by intro r hr; rw [hext, getD_append_left' _ _ _ _ (by omega)]; exact hpre r hr)
    exact this

/-- The analysis of a callee placed in a caller: the callee's own roots (computed for its `k`
operands) with every `op j` replaced by the caller's root of the register passed for `j`. -/
theorem static_at (k : Nat) (args : List Nat) (free : Nat) (ρ0 ω0 : List Root)
    (hlen : ρ0.length = free) (hargs : ∀ j, j < k → args.getD j 0 < free) (q : Prog) :
    (q.map (Step.reloc k args free)).foldl staticStep (ρ0, ω0) =
      (ρ0 ++ ((roots k q).drop k).map (Root.subst ρ0 args),
       ω0 ++ (writeRoots k q).map (Root.subst ρ0 args)) := by
  have := foldl_reloc k args free ρ0 ω0 hlen hargs q (initRoots k) []
    (by simp [initRoots]) (by intro r hr; rw [initRoots_getD]; simp [hr])
  have e : (initRoots k).drop k = [] := by
    apply List.drop_eq_nil_of_le; simp [initRoots]
  simpa [e, roots, writeRoots, static] using this

/-! ### triples over the analysis state -/

/-- the analysis state of a caller: `free` registers, the operands classified as themselves,
every write so far to a target in `W` (or a new array), the registers `R` good (new, or inside an
operand of `A`) -/
structure Ctx (b : Nat) (W A : List Nat) (free : Nat) (R : List Nat) (acc : List Root × List Root) : Prop where
  len : acc.1.length = free
  pre : ∀ r, r < b → acc.1.getD r .any = .op r
  wr : ∀ x ∈ acc.2, goodRoot W x
  good : ∀ r ∈ R, goodRoot A (acc.1.getD r .any)

def Blk (b : Nat) (W A : List Nat) (free : Nat) (R0 : List Nat) (p : Prog) (R1 : List Nat) : Prop :=
  ∀ acc, Ctx b W A free R0 acc → Ctx b W A (free + ndefs p) (R0 ++ R1) (p.foldl staticStep acc)

theorem goodRoot_in_range {A : List Nat} {ρ : List Root} {r : Nat}
    (h : goodRoot A (ρ.getD r .any)) : r < ρ.length := by
  by_cases hr : r < ρ.length
  · exact hr
  · rw [List.getD_eq_getElem?_getD, List.getElem?_eq_none (by omega)] at h
    exact h.elim

theorem Blk.nil {b : Nat} {W A : List Nat} {free : Nat} {R0 : List Nat} : Blk b W A free R0 [] [] := by
  intro acc I
  simpa [ndefs] using I

theorem Blk.append {b : Nat} {W A : List Nat} {free : Nat} {R0 R1 R2 : List Nat} {p q : Prog}
    (hp : Blk b W A free R0 p R1) (hq : Blk b W A (free + ndefs p) (R0 ++ R1) q R2) :
    Blk b W A free R0 (p ++ q) (R1 ++ R2) := by
  intro acc I
  have := hq _ (hp acc I)
  simpa [List.foldl_append, ndefs_append, Nat.add_assoc, List.append_assoc] using this

/-- fewer promises, more assumptions -/
theorem Blk.weaken {b : Nat} {W A : List Nat} {free : Nat} {R0 R0' R1 R1' : List Nat} {p : Prog}
    (hp : Blk b W A free R0 p R1) (h0 : ∀ r ∈ R0, r ∈ R0') (h1 : ∀ r ∈ R1', r ∈ R1)
    (hkeep : ∀ r ∈ R0', r < free) : Blk b W A free R0' p R1' := by
  intro acc I
  have I0 : Ctx b W A free R0 acc := ⟨I.len, I.pre, I.wr, fun r hr => I.good r (h0 r hr)⟩
  have J := hp acc I0
  obtain ⟨ext, hext, _⟩ := foldl_static_prefix p acc
  refine ⟨J.len, J.pre, J.wr, ?_⟩
  intro r hr
  rcases List.mem_append.mp hr with h | h
  · have hr' := hkeep r h
    rw [hext, getD_append_left' _ _ _ _ (by rw [I.len]; exact hr')]
    exact I.good r h
  · exact J.good r (List.mem_append_right _ (h1 r h))

/-- what every step preserves: length, operands, earlier good registers -/
theorem Ctx.step_frame {b : Nat} {W A : List Nat} {free : Nat} {R : List Nat} {acc : List Root × List Root}
    (I : Ctx b W A free R acc) (s : Step) (hw : ∀ x ∈ (staticStep acc s).2, goodRoot W x) :
    Ctx b W A (free + (if s.isWrite then 0 else 1)) R (staticStep acc s) := by
  obtain ⟨ext, hext⟩ := staticStep_fst_prefix acc s
  refine ⟨by rw [staticStep_fst_length, I.len], ?_, hw, ?_⟩
  · intro r hr
    have : r < acc.1.length := by
      have := goodRoot_in_range (A := [r]) (ρ := acc.1) (r := r) (by rw [I.pre r hr]; exact List.mem_singleton.mpr rfl)
      exact this
    rw [hext, getD_append_left' _ _ _ _ this]; exact I.pre r hr
  · intro r hr
    have h := I.good r hr
    rw [hext, getD_append_left' _ _ _ _ (goodRoot_in_range h)]; exact h

theorem staticStep_snd_nonwrite (acc : List Root × List Root) (s : Step) (h : s.isWrite = false) :
    (staticStep acc s).2 = acc.2 := by
  cases s <;> first | rfl | (simp [Step.isWrite] at h)

theorem getD_append_self {β : Type} (l : List β) (x d : β) : (l ++ [x]).getD l.length d = x := by
  simp [List.getD_eq_getElem?_getD]

/-- a step that allocates: the new register is good -/
theorem Blk.alloc {b : Nat} {W A : List Nat} {free : Nat} {R0 : List Nat} (s : Step)
    (hs : (∃ r, s = .copy r) ∨ (∃ sh rs, s = .fresh sh rs)) : Blk b W A free R0 [s] [free] := by
  intro acc I
  have hnw : s.isWrite = false := by rcases hs with ⟨r, rfl⟩ | ⟨sh, rs, rfl⟩ <;> rfl
  have J := I.step_frame s (by rw [staticStep_snd_nonwrite _ _ hnw]; exact I.wr)
  simp only [List.foldl_cons, List.foldl_nil, ndefs_cons, ndefs_nil, hnw, Bool.false_eq_true, if_false] at J ⊢
  refine ⟨by simpa using J.len, J.pre, J.wr, ?_⟩
  intro r hr
  rcases List.mem_append.mp hr with h | h
  · exact J.good r h
  · have : r = free := List.mem_singleton.mp h
    subst this
    have e : (staticStep acc s).1 = acc.1 ++ [Root.fresh] := by
      rcases hs with ⟨r, rfl⟩ | ⟨sh, rs, rfl⟩ <;> rfl
    rw [e, ← I.len, getD_append_self]; trivial

/-- a view of a good register or of an allowed operand is good -/
theorem Blk.view {b : Nat} {W A : List Nat} {free : Nat} {R0 : List Nat} (s : Step) (r : Nat)
    (hs : s.viewSrc = some r) (hr : r ∈ R0 ∨ (r < b ∧ r ∈ A)) : Blk b W A free R0 [s] [free] := by
  intro acc I
  have hnw : s.isWrite = false := by cases s <;> first | rfl | (simp [Step.viewSrc] at hs)
  have J := I.step_frame s (by rw [staticStep_snd_nonwrite _ _ hnw]; exact I.wr)
  simp only [List.foldl_cons, List.foldl_nil, ndefs_cons, ndefs_nil, hnw, Bool.false_eq_true, if_false] at J ⊢
  refine ⟨by simpa using J.len, J.pre, J.wr, ?_⟩
  intro r' hr'
  rcases List.mem_append.mp hr' with h | h
  · exact J.good r' h
  · have : r' = free := List.mem_singleton.mp h
    subst this
    have e : (staticStep acc s).1 = acc.1 ++ [acc.1.getD r .any] := by
      cases s <;> simp [Step.viewSrc] at hs <;> subst hs <;> rfl
    rw [e, ← I.len, getD_append_self]
    rcases hr with h | ⟨h1, h2⟩
    · exact I.good r h
    · rw [I.pre r h1]; exact h2

/-- a view that is only an intermediate value (nothing is promised about it) -/
theorem Blk.view_any {b : Nat} {W A : List Nat} {free : Nat} {R0 : List Nat} (s : Step)
    (hs : s.isWrite = false) : Blk b W A free R0 [s] [] := by
  intro acc I
  have J := I.step_frame s (by rw [staticStep_snd_nonwrite _ _ hs]; exact I.wr)
  simpa [ndefs_cons, ndefs_nil, hs] using J

/-- a write into a good register or a receiver operand -/
theorem Blk.write {b : Nat} {W A : List Nat} {free : Nat} {R0 : List Nat} (t : Nat) (rs : List Nat)
    (hA : ∀ k ∈ A, k ∈ W) (ht : t ∈ R0 ∨ (t < b ∧ t ∈ W)) : Blk b W A free R0 [.write t rs] [] := by
  intro acc I
  have J := I.step_frame (.write t rs) (by
    intro x hx
    have hx' : x ∈ acc.2 ++ [acc.1.getD t .any] := hx
    rcases List.mem_append.mp hx' with h | h
    · exact I.wr x h
    · have : x = acc.1.getD t .any := List.mem_singleton.mp h
      subst this
      rcases ht with h | ⟨h1, h2⟩
      · exact goodRoot_mono (I.good t h) hA
      · rw [I.pre t h1]; exact h2)
  simpa [ndefs_cons, ndefs_nil, Step.isWrite] using J

theorem subst_fresh_of_good {W : List Nat} {ρ0 : List Root} {args : List Nat} {x : Root}
    (h : x = .fresh) : goodRoot W (Root.subst ρ0 args x) := by subst h; trivial

/-- a call of a callee that passes the `pureFresh` check for its own operands: whatever
registers it is given, it writes only to arrays it allocated and its results are new. -/
theorem Blk.call {b : Nat} {W A : List Nat} {free : Nat} {R0 : List Nat} (B : Built) (k : Nat)
    (args : List Nat) (pre : String) (hB : specCheck .pureFresh k B = true)
    (hargs : ∀ j, j < k → args.getD j 0 < free) :
    Blk b W A free R0 (B.at k args free pre).prog ((B.at k args free pre).res.map (·.2)) := by
  intro acc I
  simp only [specCheck, Bool.and_eq_true] at hB
  obtain ⟨hpure, hfresh⟩ := hB
  have hst := static_at k args free acc.1 acc.2 I.len hargs B.prog
  have hacc : acc = (acc.1, acc.2) := rfl
  simp only [Built.at]
  rw [hacc, hst, ndefs_reloc]
  have hlenroots : (roots k B.prog).length = k + ndefs B.prog := by
    obtain ⟨ext, h1, h2⟩ := foldl_static_prefix B.prog (initRoots k, [])
    show (static k B.prog).1.length = _
    unfold static; rw [h1]; simp [initRoots, h2]
  refine ⟨?_, ?_, ?_, ?_⟩
  · simp [I.len, hlenroots]
  · intro r hr
    have : r < acc.1.length := goodRoot_in_range (A := [r]) (by rw [I.pre r hr]; exact List.mem_singleton.mpr rfl)
    show (acc.1 ++ _).getD r .any = _
    rw [getD_append_left' _ _ _ _ this]; exact I.pre r hr
  · intro x hx
    rcases List.mem_append.mp hx with h | h
    · exact I.wr x h
    · obtain ⟨y, hy, rfl⟩ := List.mem_map.mp h
      have := List.all_eq_true.mp hpure y hy
      exact subst_fresh_of_good (by simpa using this)
  · intro r hr
    show goodRoot A ((acc.1 ++ _).getD r .any)
    rcases List.mem_append.mp hr with h | h
    · have hg := I.good r h
      rw [getD_append_left' _ _ _ _ (goodRoot_in_range hg)]; exact hg
    · simp only [List.map_map] at h
      obtain ⟨q, hq, rfl⟩ := List.mem_map.mp h
      have hq2 : q.2 ∈ B.res.map (·.2) := List.mem_map.mpr ⟨q, hq, rfl⟩
      have hfr := List.all_eq_true.mp hfresh q.2 hq2
      have hfr' : (roots k B.prog).getD q.2 .any = .fresh := by simpa using hfr
      -- a fresh root is not an operand's: q.2 ≥ k
      have hge : k ≤ q.2 := by
        by_cases hlt : q.2 < k
        · exfalso
          have hpre : (roots k B.prog).getD q.2 .any = .op q.2 := by
            obtain ⟨ext, h1, _⟩ := foldl_static_prefix B.prog (initRoots k, [])
            show (static k B.prog).1.getD q.2 .any = _
            unfold static
            rw [h1, getD_append_left' _ _ _ _ (by simp [initRoots]; exact hlt), initRoots_getD]; simp [hlt]
          rw [hpre] at hfr'; cases hfr'
        · omega
      have hin : q.2 < (roots k B.prog).length := goodRoot_in_range (A := []) (by rw [hfr']; trivial)
      show goodRoot A ((acc.1 ++ _).getD (relocReg k args free q.2) .any)
      unfold relocReg
      have hnlt : ¬ q.2 < k := by omega
      simp only [hnlt, if_false]
      simp only [List.getD_eq_getElem?_getD]
      rw [List.getElem?_append_right (by rw [I.len]; omega)]
      have e1 : free + (q.2 - k) - acc.1.length = q.2 - k := by rw [I.len]; omega
      rw [e1, List.getElem?_map, List.getElem?_drop]
      have e2 : k + (q.2 - k) = q.2 := by omega
      rw [e2, List.getElem?_eq_getElem hin]
      have : (roots k B.prog)[q.2] = .fresh := by
        rw [List.getD_eq_getElem?_getD, List.getElem?_eq_getElem hin] at hfr'
        exact hfr'
      simp [this, Root.subst, goodRoot]

theorem ctx_init (b : Nat) (W A : List Nat) : Ctx b W A b [] (initRoots b, []) := by
  refine ⟨by simp [initRoots], ?_, ?_, ?_⟩
  · intro r hr; rw [initRoots_getD]; simp [hr]
  · intro x h; cases h
  · intro r h; cases h

/-- the link to the static checks: a program that is a block from the initial state whose
result registers are among the promised ones passes `writesWithin` and `resultsWithin`. -/
theorem Blk.sound {b : Nat} {W A : List Nat} {p : Prog} {R : List Nat} (h : Blk b W A b [] p R)
    (res : List Nat) (hres : ∀ r ∈ res, r ∈ R) :
    writesWithin b W p = true ∧ resultsWithin b A p res = true := by
  have J := h _ (ctx_init b W A)
  constructor
  · apply List.all_eq_true.mpr
    intro ρ hρ
    have := J.wr ρ hρ
    cases ρ with
    | fresh => rfl
    | op k => exact List.contains_iff_mem.mpr this
    | any => exact this.elim
  · apply List.all_eq_true.mpr
    intro r hr
    have := J.good r (by simpa using hres r hr)
    show (match (static b p).1.getD r .any with
      | .fresh => true | .op k => A.contains k | .any => false) = true
    have h3 : (static b p).1 = (List.foldl staticStep (initRoots b, []) p).1 := rfl
    rw [h3]
    cases hρ : (List.foldl staticStep (initRoots b, []) p).1.getD r .any with
    | fresh => rfl
    | op k => rw [hρ] at this; exact List.contains_iff_mem.mpr this
    | any => rw [hρ] at this; exact this.elim

theorem Blk.pureFresh {b : Nat} {B : Built} {R : List Nat} (h : Blk b [] [] b [] B.prog R)
    (hres : ∀ r ∈ B.res.map (·.2), r ∈ R) : specCheck .pureFresh b B = true := by
  obtain ⟨h1, h2⟩ := h.sound (B.res.map (·.2)) hres
  have p1 : pureProg b B.prog = true := by
    apply List.all_eq_true.mpr
    intro ρ hρ
    have := List.all_eq_true.mp h1 ρ hρ
    cases ρ with
    | fresh => rfl
    | op k => simp at this
    | any => simp at this
  have p2 : freshResults b B.prog (B.res.map (·.2)) = true := by
    apply List.all_eq_true.mpr
    intro r hr
    have := List.all_eq_true.mp h2 r hr
    cases hρ : (roots b B.prog).getD r .any with
    | fresh => rfl
    | op k => rw [hρ] at this; simp at this
    | any => rw [hρ] at this; simp at this
  simp [specCheck, p1, p2]

theorem Blk.noCopy {b : Nat} {A : List Nat} {B : Built} {R : List Nat} (h : Blk b [] A b [] B.prog R)
    (hres : ∀ r ∈ B.res.map (·.2), r ∈ R) : specCheck (.noCopy A) b B = true := by
  obtain ⟨h1, h2⟩ := h.sound (B.res.map (·.2)) hres
  have p1 : pureProg b B.prog = true := by
    apply List.all_eq_true.mpr
    intro ρ hρ
    have := List.all_eq_true.mp h1 ρ hρ
    cases ρ with
    | fresh => rfl
    | op k => simp at this
    | any => simp at this
  simp [specCheck, p1, h2]

theorem Blk.inPlace {b : Nat} {recv : List Nat} {B : Built} {R : List Nat}
    (h : Blk b recv recv b [] B.prog R) (hres : ∀ r ∈ B.res.map (·.2), r ∈ R) :
    specCheck (.inPlace recv) b B = true := by
  obtain ⟨h1, h2⟩ := h.sound (B.res.map (·.2)) hres
  simp [specCheck, h1, h2]

/-! ### programs under construction -/

/-- the steps so far form a block from the initial state; the results so far and the registers
`G` are among its good registers -/
def AccOK (b : Nat) (W A0 : List Nat) (A : Acc) (G : List Nat) : Prop :=
  A.free = b + ndefs A.prog ∧
  ∃ R, Blk b W A0 b [] A.prog R ∧ (∀ q ∈ A.res, q.2 ∈ R) ∧ (∀ r ∈ G, r ∈ R)

theorem AccOK.init (b : Nat) (W A0 : List Nat) : AccOK b W A0 (Acc.init b) [] :=
  ⟨rfl, [], Blk.nil, (by intro q h; cases h), (by intro r h; cases h)⟩

theorem AccOK.le_free {b : Nat} {W A0 : List Nat} {A : Acc} {G : List Nat} (h : AccOK b W A0 A G) :
    b ≤ A.free := by rw [h.1]; omega

theorem AccOK.mono {b : Nat} {W A0 : List Nat} {A : Acc} {G G' : List Nat} (h : AccOK b W A0 A G)
    (hG : ∀ r ∈ G', r ∈ G) : AccOK b W A0 A G' := by
  obtain ⟨h1, R, h2, h3, h4⟩ := h
  exact ⟨h1, R, h2, h3, fun r hr => h4 r (hG r hr)⟩

/-- appending a block whose assumptions are among the known good registers -/
theorem AccOK.raw {b : Nat} {W A0 : List Nat} {A : Acc} {G R0 R1 : List Nat} (h : AccOK b W A0 A G)
    (f : Nat → Prog) (hR0 : ∀ r ∈ R0, r ∈ G) (hf : Blk b W A0 A.free R0 (f A.free) R1) :
    AccOK b W A0 (A.raw f) (G ++ R1) := by
  obtain ⟨h1, R, h2, h3, h4⟩ := h
  have hR : ∀ r ∈ R, r < A.free := by
    intro r hr
    have J := h2 _ (ctx_init b W A0)
    have := goodRoot_in_range (J.good r (by simpa using hr))
    rw [J.len] at this
    rw [h1]; exact this
  have hf' : Blk b W A0 (b + ndefs A.prog) ([] ++ R) (f A.free) R1 := by
    rw [← h1]
    exact hf.weaken (fun r hr => by simpa using h4 r (hR0 r hr)) (fun r hr => hr)
      (fun r hr => hR r (by simpa using hr))
  refine ⟨by simp [Acc.raw, ndefs_append, h1]; omega, R ++ R1, h2.append hf', ?_, ?_⟩
  · intro q hq; exact List.mem_append_left _ (h3 q hq)
  · intro r hr
    rcases List.mem_append.mp hr with h | h
    · exact List.mem_append_left _ (h4 r h)
    · exact List.mem_append_right _ h

/-- calling a callee that passes the `pureFresh` check, on any registers defined so far -/
theorem AccOK.call {b : Nat} {W A0 : List Nat} {A : Acc} {G : List Nat} (h : AccOK b W A0 A G)
    (B : Built) (args : List Nat) (pre : String) (keep : Bool)
    (hB : specCheck .pureFresh args.length B = true) (hargs : ∀ a ∈ args, a < A.free) :
    AccOK b W A0 (A.call B args pre keep) (G ++ (B.at args.length args A.free pre).res.map (·.2)) := by
  obtain ⟨h1, R, h2, h3, h4⟩ := h
  have hj : ∀ j, j < args.length → args.getD j 0 < A.free := by
    intro j hj
    apply hargs
    rw [List.getD_eq_getElem?_getD, List.getElem?_eq_getElem hj]
    exact List.getElem_mem hj
  have hc : Blk b W A0 (b + ndefs A.prog) ([] ++ R) (B.at args.length args A.free pre).prog
      ((B.at args.length args A.free pre).res.map (·.2)) := by
    rw [← h1]; exact Blk.call B args.length args pre hB hj
  refine ⟨?_, R ++ (B.at args.length args A.free pre).res.map (·.2), ?_, ?_, ?_⟩
  · simp only [Acc.call, ndefs_append, Built.at, ndefs_reloc, h1]; omega
  · exact h2.append hc
  · intro q hq
    simp only [Acc.call] at hq
    cases keep with
    | true =>
      simp only [if_true] at hq
      rcases List.mem_append.mp hq with h | h
      · exact List.mem_append_left _ (h3 q h)
      · exact List.mem_append_right _ (List.mem_map.mpr ⟨q, h, rfl⟩)
    | false =>
      simp only [Bool.false_eq_true, if_false] at hq
      exact List.mem_append_left _ (h3 q hq)
  · intro r hr
    rcases List.mem_append.mp hr with h | h
    · exact List.mem_append_left _ (h4 r h)
    · exact List.mem_append_right _ h

theorem Acc.call_free (A : Acc) (B : Built) (args : List Nat) (pre : String) (keep : Bool) :
    (A.call B args pre keep).free = A.free + ndefs B.prog := rfl

theorem AccOK.calls {b : Nat} {W A0 : List Nat} (l : List (Built × List Nat × String)) :
    ∀ {A : Acc} {G : List Nat}, AccOK b W A0 A G →
    (∀ t ∈ l, specCheck .pureFresh t.2.1.length t.1 = true ∧ ∀ a ∈ t.2.1, a < A.free) →
    AccOK b W A0 (A.calls l) G := by
  induction l with
  | nil => intro A G h _; exact h
  | cons t rest ih =>
    intro A G h hl
    have ht := hl t (List.mem_cons_self)
    have h1 := (h.call t.1 t.2.1 t.2.2 true ht.1 ht.2).mono (G' := G) (fun r hr => List.mem_append_left _ hr)
    apply ih h1
    intro t' ht'
    have := hl t' (List.mem_cons_of_mem _ ht')
    refine ⟨this.1, fun a ha => ?_⟩
    have := this.2 a ha
    rw [Acc.call_free]; omega

theorem AccOK.out {b : Nat} {W A0 : List Nat} {A : Acc} {G : List Nat} (h : AccOK b W A0 A G)
    (name : String) (r : Nat) (hr : r ∈ G) : AccOK b W A0 (A.out name r) G := by
  obtain ⟨h1, R, h2, h3, h4⟩ := h
  refine ⟨h1, R, h2, ?_, h4⟩
  intro q hq
  simp only [Acc.out] at hq
  rcases List.mem_append.mp hq with h | h
  · exact h3 q h
  · have : q = (name, r) := List.mem_singleton.mp h
    subst this; exact h4 r hr

theorem AccOK.pureFresh {b : Nat} {A : Acc} {G : List Nat} (h : AccOK b [] [] A G) :
    specCheck .pureFresh b A.built = true := by
  obtain ⟨_, R, h2, h3, _⟩ := h
  apply Blk.pureFresh (R := R) h2
  intro r hr
  obtain ⟨q, hq, rfl⟩ := List.mem_map.mp hr
  exact h3 q hq

theorem AccOK.noCopy {b : Nat} {A0 : List Nat} {A : Acc} {G : List Nat} (h : AccOK b [] A0 A G) :
    specCheck (.noCopy A0) b A.built = true := by
  obtain ⟨_, R, h2, h3, _⟩ := h
  apply Blk.noCopy (R := R) h2
  intro r hr
  obtain ⟨q, hq, rfl⟩ := List.mem_map.mp hr
  exact h3 q hq

theorem AccOK.inPlace {b : Nat} {recv : List Nat} {A : Acc} {G : List Nat} (h : AccOK b recv recv A G) :
    specCheck (.inPlace recv) b A.built = true := by
  obtain ⟨_, R, h2, h3, _⟩ := h
  apply Blk.inPlace (R := R) h2
  intro r hr
  obtain ⟨q, hq, rfl⟩ := List.mem_map.mp hr
  exact h3 q hq

end Pyttb.Heap
