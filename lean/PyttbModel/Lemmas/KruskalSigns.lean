/-
C08 lemmas: `fixsigns` (alone and against a reference) flips an even number of factor columns
per component, so the tensor is unchanged; `tolist` returns factor matrices that denote the
tensor with unit weights.
-/
import PyttbModel.Lemmas.KruskalNormalize
import Mathlib.Algebra.Ring.Parity
set_option linter.unusedSectionVars false
namespace Pyttb
namespace Ktensor

variable {α : Type}

section field
variable [Field α] [LinearOrder α] [IsStrictOrderedRing α]

/-! ### negating one column -/

theorem negCol_ncomp (K : Ktensor α) (n r : Nat) : (negCol K n r).ncomp = K.ncomp := rfl

theorem negCol_ndims (K : Ktensor α) (n r : Nat) : (negCol K n r).factors.length = K.factors.length := by
  simp [negCol]

theorem negCol_shape (K : Ktensor α) (n r : Nat) : (negCol K n r).shape = K.shape := by
  unfold negCol Ktensor.shape
  exact shape_set _ _ _ (Mat.length_scaleL _ _)

theorem negCol_weights (K : Ktensor α) (n r : Nat) : (negCol K n r).weights = K.weights := rfl

theorem negCol_comp (K : Ktensor α) (n r r' : Nat) (i : List Nat) (hn : n < K.factors.length)
    (hi : i.length = K.factors.length) (hr' : r' < K.ncomp) :
    (negCol K n r).comp r' i = K.comp r' i * (if r' = r then -1 else 1) := by
  unfold negCol
  apply comp_set K _ n _ r' _ i hn hi
  intro j
  rw [Mat.get_scaleL, mul_comm, getD_map_range _ _ _ _ hr']
  simp

/-- Negating column `r` in the modes listed in `ms` multiplies component `r` by `(-1)^|ms|`. -/
theorem foldl_negCol (K : Ktensor α) (ms : List Nat) (r : Nat) (hms : ∀ n ∈ ms, n < K.factors.length) :
    let K' := ms.foldl (fun K n => negCol K n r) K
    K'.weights = K.weights ∧ K'.factors.length = K.factors.length ∧ K'.shape = K.shape ∧
    ∀ r' i, i.length = K.factors.length → r' < K.ncomp →
      K'.comp r' i = K.comp r' i * (if r' = r then (-1) ^ ms.length else 1) := by
  induction ms generalizing K with
  | nil => simp
  | cons n ms ih =>
    simp only [List.foldl_cons]
    have hn := hms n (List.mem_cons_self ..)
    obtain ⟨h1, h2, h3, h4⟩ := ih (negCol K n r) (fun m hm => by
      rw [negCol_ndims]; exact hms m (List.mem_cons_of_mem _ hm))
    refine ⟨h1, h2.trans (negCol_ndims K n r), h3.trans (negCol_shape K n r), ?_⟩
    intro r' i hi hr'
    rw [h4 r' i (by rw [negCol_ndims]; exact hi) hr', negCol_comp K n r r' i hn hi hr']
    split
    · rw [List.length_cons, pow_succ]; ring
    · ring

theorem foldl_negCol_reparam (K : Ktensor α) (ms : List Nat) (r : Nat) (hms : ∀ n ∈ ms, n < K.factors.length)
    (heven : ms.length % 2 = 0) : Reparam K (ms.foldl (fun K n => negCol K n r) K) := by
  obtain ⟨h1, h2, h3, h4⟩ := foldl_negCol K ms r hms
  refine ⟨by simp [ncomp, h1], h2, h3, ?_⟩
  intro i hi
  apply get_congr i (by simp [ncomp, h1])
  intro r' hr'
  rw [h1, h4 r' i hi hr']
  split
  · rw [Even.neg_one_pow (Nat.even_iff.2 heven), mul_one]
  · rw [mul_one]

/-! ### `fixsigns()` -/

theorem fixsignsComp_reparam (K : Ktensor α) (r : Nat) : Reparam K (fixsignsComp K r) := by
  unfold fixsignsComp
  apply foldl_negCol_reparam
  · intro n hn
    have := List.mem_of_mem_take hn
    simp only [List.mem_filter, List.mem_range, ndims] at this
    exact this.1
  · rw [List.length_take]
    omega

theorem foldl_fixsignsComp (K : Ktensor α) (rs : List Nat) : Reparam K (rs.foldl fixsignsComp K) := by
  induction rs generalizing K with
  | nil => exact Reparam.refl K
  | cons r rs ih => exact (fixsignsComp_reparam K r).trans (ih _)

theorem fixsigns_reparam (K : Ktensor α) : Reparam K (fixsigns K) := foldl_fixsignsComp K _

/-! ### `fixsigns(other)` -/

theorem fixsignsEndpt_even (sorted : List α) (N RB e : Nat)
    (h : fixsignsEndpt true sorted N RB = .ok (some e)) : e % 2 = 0 := by
  unfold fixsignsEndpt at h
  split at h
  · cases h
  · rename_i bp _
    split at h
    · rename_i hb
      injection h with h; injection h with h
      simp at hb
      omega
    · rename_i hb
      simp only [if_true] at h
      simp at hb
      split at h <;> (injection h with h; injection h with h; omega)

theorem fixsignsRefComp_reparam {S : Services α} (hS : S.Lawful) (B A : Ktensor α) (r : Nat) {A' : Ktensor α}
    (hN : 0 < A.factors.length) (h : fixsignsRefComp S true B A r = .ok A') : Reparam A A' := by
  unfold fixsignsRefComp at h
  simp only at h
  split at h
  · cases h
  · split at h
    · cases h
    · split at h
      · cases h
      · injection h with h; subst h; exact Reparam.refl A
      · rename_i endpt he
        injection h with h
        subst h
        apply foldl_negCol_reparam
        · intro n hn
          simp only [List.mem_map, List.mem_range] at hn
          obtain ⟨j, _, rfl⟩ := hn
          have hp := hS.argsort_perm ((List.range A.ndims).map fun n =>
            dot ((A.factors.getD n []).col r) ((B.factors.getD n []).col r))
          simp only [List.length_map, List.length_range] at hp
          by_cases hj : j < (S.argsort ((List.range A.ndims).map fun n =>
              dot ((A.factors.getD n []).col r) ((B.factors.getD n []).col r))).length
          · have := isPermOf_lt_of_mem hp (getD0_mem _ j hj)
            simpa [ndims] using this
          · rw [getD0_of_le _ _ (by omega)]
            exact hN
        · simp only [List.length_map, List.length_range]
          exact fixsignsEndpt_even _ _ _ _ he

theorem foldlM_fixsignsRefComp {S : Services α} (hS : S.Lawful) (B A : Ktensor α) (rs : List Nat)
    {A' : Ktensor α} (hN : 0 < A.factors.length)
    (h : rs.foldlM (fixsignsRefComp S true B) A = .ok A') : Reparam A A' := by
  induction rs generalizing A with
  | nil =>
    simp only [List.foldlM_nil] at h
    injection h with h
    subst h
    exact Reparam.refl A
  | cons r rs ih =>
    rw [List.foldlM_cons] at h
    cases h1 : fixsignsRefComp S true B A r with
    | error e => rw [h1] at h; cases h
    | ok A1 =>
      rw [h1] at h
      have r1 := fixsignsRefComp_reparam hS B A r hN h1
      exact r1.trans (ih A1 (by rw [r1.ndims]; exact hN) h)

/-- `fixsigns(other)` (repaired code) is a re-parameterisation of the receiver. -/
theorem fixsignsRef_reparam {S : Services α} (hS : S.Lawful) (K other : Ktensor α) {K' : Ktensor α}
    (h : fixsignsRef S K other = .ok K') : Reparam K K' := by
  unfold fixsignsRef fixsignsRefG at h
  split at h
  · cases h
  · split at h
    · rename_i A B hA hB
      have r1 := normalize_reparam hS K none false .two none hA
      have hN := (normalize_none_eq S K none false .two hA).1
      exact r1.trans (foldlM_fixsignsRefComp hS B A _ (by rw [r1.ndims]; exact hN) h)
    · cases h

/-! ### `tolist` -/

theorem signOf_mul_abs (x : α) : signOf x * absOf x = x := by
  unfold signOf absOf
  split
  · ring
  · rename_i h
    split
    · ring
    · rename_i h2
      have : x = 0 := le_antisymm (not_lt.1 h2) (not_lt.1 h)
      rw [this]; ring

theorem absOf_nonneg (x : α) : 0 ≤ absOf x := by
  unfold absOf
  split
  · rename_i h; linarith
  · rename_i h; exact not_lt.1 h

theorem absOf_eq_abs (x : α) : absOf x = |x| := by
  unfold absOf
  split
  · rename_i h; exact (abs_of_neg h).symm
  · rename_i h; exact (abs_of_nonneg (not_lt.1 h)).symm

theorem numEq_iff (x y : α) : numEq x y = true ↔ x = y := by
  unfold numEq
  simp only [Bool.and_eq_true, Bool.not_eq_true', decide_eq_false_iff_not, not_lt]
  exact ⟨fun ⟨a, b⟩ => le_antisymm b a, fun h => by subst h; exact ⟨le_refl _, le_refl _⟩⟩

/-- `tolist(mode)` returns a list of factor matrices which, with unit weights, denotes the
tensor. -/
theorem tolist_get {S : Services α} (hS : S.Lawful) (K : Ktensor α) (mode : Option Int) {fs : List (Mat α)}
    (h : tolist S K mode = .ok fs) (i : List Nat) (hi : i.length = K.factors.length) :
    (⟨K.weights.map fun _ => 1, fs⟩ : Ktensor α).get i = K.get i ∧ fs.map List.length = K.shape := by
  unfold tolist at h
  split at h
  · -- one mode absorbs the weights
    rename_i m
    split at h
    · rename_i hm
      cases hn : normalize S K.copy (some (.mode m)) false .two none with
      | error e => rw [hn] at h; cases h
      | ok K1 =>
        rw [hn] at h
        simp only [Except.map] at h
        injection h with h
        subst h
        have hK : K.copy = K := rfl
        rw [hK] at hn
        have r1 := normalize_reparam hS K _ false .two none hn
        have w1 := normalize_absorb hS K _ false .two hn (by simp)
        refine ⟨?_, r1.shape⟩
        have hw : K1.weights = K.weights.map fun _ => 1 := by
          apply List.ext_getElem
          · rw [List.length_map]; exact r1.ncomp
          · intro k h1 h2
            rw [List.getElem_map]
            exact w1 _ (List.getElem_mem h1)
        rw [← hw]
        exact r1.get i hi
    · cases h
  · split at h
    · -- all weights are one
      rename_i hone
      injection h with h
      subst h
      refine ⟨?_, rfl⟩
      have hw : (K.weights.map fun _ => (1 : α)) = K.weights := by
        apply List.ext_getElem
        · simp
        · intro k h1 h2
          rw [List.getElem_map]
          exact ((numEq_iff _ _).1 (List.all_eq_true.1 hone _ (List.getElem_mem h2))).symm
      rw [hw]
    · split at h
      · cases h
      · rename_i hN
        injection h with h
        subst h
        have hN' := ndims_pos_of_ne hN
        constructor
        · apply get_congr i (by simp [ncomp])
          intro r hr
          have hr' : r < K.weights.length := hr
          have h1 : (K.weights.map fun _ => (1 : α)).getD r 0 = 1 := getD_map_of_lt _ _ _ 0 _ hr'
          simp only
          rw [h1, one_mul]
          -- first the sign into mode 0, then the root into every mode
          have hroot : (S.root K.ndims (absOf (K.weights.getD r 0))) ^ K.factors.length
              = absOf (K.weights.getD r 0) := by
            rw [← ndims_eq]
            exact hS.root_pow _ _ (by rw [ndims_eq]; exact hN') (absOf_nonneg _)
          unfold Ktensor.comp
          simp only
          rw [prod_zipWith_map_scale (fun A ik => Mat.get A ik r) (fun A => A.scaleR _)
            (S.root K.ndims (absOf (K.weights.getD r 0))) _ i]
          · rw [List.length_set, hi, Nat.min_self, hroot]
            rw [prod_zipWith_set (fun A ik => Mat.get A ik r) K.factors i 0 _ [] (signOf (K.weights.getD r 0))
              hN' (by omega)]
            · rw [mul_assoc, signOf_mul_abs, mul_comm]
            · rw [Mat.get_scaleR, getD_map_of_lt _ _ _ 0 _ hr']
          · intro A j
            rw [Mat.get_scaleR, getD_map_of_lt _ _ _ 0 _ hr']
        · simp only [List.map_map]
          unfold Ktensor.shape
          rw [← shape_set K.factors 0 ((K.factors.getD 0 []).scaleR (K.weights.map signOf))
            (Mat.length_scaleR _ _)]
          apply List.map_congr_left
          intro A _
          simp [Mat.scaleR]

end field
end Ktensor
end Pyttb
