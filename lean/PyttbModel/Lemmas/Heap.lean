/-
Lemmas about the heap model (C05): frame properties of the store operations, soundness of
the static root classification of programs, F-contiguity of transposed / reshaped views.
Core Lean only.
-/
import PyttbModel.Heap.Prog
import PyttbModel.Lemmas.Idx
namespace Pyttb.Heap

variable {α : Type}

/-! ### store frame lemmas -/

theorem writeCell_length (st : Store α) (b a : Nat) (x : α) :
    (writeCell st b a x).length = st.length := by
  unfold writeCell; split <;> simp

theorem writeCell_other (st : Store α) (b a : Nat) (x : α) {b' : Nat} (h : b' ≠ b) :
    (writeCell st b a x)[b']? = st[b']? := by
  unfold writeCell; split
  · rw [List.getElem?_set_ne (Ne.symm h)]
  · rfl

theorem cell_writeCell_other (st : Store α) (b a : Nat) (x : α) {b' a' : Nat}
    (h : b' ≠ b ∨ a' ≠ a) : cell (writeCell st b a x) b' a' = cell st b' a' := by
  unfold cell
  by_cases hb : b' = b
  · subst hb
    have ha : a' ≠ a := by rcases h with h | h; exact absurd rfl h; exact h
    unfold writeCell
    cases hst : st[b']? with
    | none => simp [hst]
    | some buf =>
      simp only
      have hlt : b' < st.length := by
        rcases Nat.lt_or_ge b' st.length with h1 | h1
        · exact h1
        · rw [List.getElem?_eq_none h1] at hst; cases hst
      rw [List.getElem?_set_self hlt]
      simp only [Option.bind]
      rw [List.getElem?_set_ne (Ne.symm ha)]
  · rw [writeCell_other st b a x hb]

theorem foldl_writeCell_length (st : Store α) (b : Nat) (x : α) (l : List Nat) :
    (l.foldl (fun s a => writeCell s b a x) st).length = st.length := by
  induction l generalizing st with
  | nil => rfl
  | cons a l ih => simp only [List.foldl_cons]; rw [ih, writeCell_length]

theorem writeAll_length (st : Store α) (v : View) (x : α) :
    (writeAll st v x).length = st.length := foldl_writeCell_length st v.buf x v.cells

theorem foldl_writeCell_other (st : Store α) (b : Nat) (x : α) (l : List Nat) {b' : Nat}
    (h : b' ≠ b) : (l.foldl (fun s a => writeCell s b a x) st)[b']? = st[b']? := by
  induction l generalizing st with
  | nil => rfl
  | cons a l ih => simp only [List.foldl_cons]; rw [ih, writeCell_other st b a x h]

/-- Writing through a view leaves every other buffer as it was. -/
theorem writeAll_other (st : Store α) (v : View) (x : α) {b' : Nat} (h : b' ≠ v.buf) :
    (writeAll st v x)[b']? = st[b']? := foldl_writeCell_other st v.buf x v.cells h

theorem foldl_cell_other (st : Store α) (b : Nat) (x : α) (l : List Nat) {b' a' : Nat}
    (h : b' ≠ b ∨ a' ∉ l) :
    cell (l.foldl (fun s a => writeCell s b a x) st) b' a' = cell st b' a' := by
  induction l generalizing st with
  | nil => rfl
  | cons a l ih =>
    simp only [List.foldl_cons]
    have h1 : b' ≠ b ∨ a' ∉ l := by
      rcases h with h | h
      · exact Or.inl h
      · exact Or.inr (fun hm => h (List.mem_cons_of_mem _ hm))
    have h2 : b' ≠ b ∨ a' ≠ a := by
      rcases h with h | h
      · exact Or.inl h
      · exact Or.inr (fun he => h (he ▸ List.mem_cons_self))
    rw [ih _ h1, cell_writeCell_other st b a x h2]

/-- Writing through a view leaves every cell outside the view as it was. -/
theorem cell_writeAll_other (st : Store α) (v : View) (x : α) {b' a' : Nat}
    (h : b' ≠ v.buf ∨ a' ∉ v.cells) : cell (writeAll st v x) b' a' = cell st b' a' :=
  foldl_cell_other st v.buf x v.cells h

theorem overlaps_false_iff (v w : View) :
    v.overlaps w = false ↔ (v.buf ≠ w.buf ∨ ∀ a ∈ v.cells, a ∉ w.cells) := by
  unfold View.overlaps
  constructor
  · intro h
    by_cases hb : v.buf = w.buf
    · right
      intro a ha hw
      have h1 : (v.cells.any fun a => w.cells.contains a) = true :=
        List.any_eq_true.mpr ⟨a, ha, List.contains_iff_mem.mpr hw⟩
      have h2 : (v.buf == w.buf) = true := by rw [hb]; exact beq_self_eq_true _
      rw [h1, h2] at h
      cases h
    · exact Or.inl hb
  · intro h
    rcases h with h | h
    · have : (v.buf == w.buf) = false := by
        cases hc : (v.buf == w.buf)
        · rfl
        · exact absurd (eq_of_beq hc) h
      rw [this]; rfl
    · have : (v.cells.any fun a => w.cells.contains a) = false := by
        apply Bool.eq_false_iff.mpr
        intro hc
        obtain ⟨a, ha, hw⟩ := List.any_eq_true.mp hc
        exact h a ha (List.contains_iff_mem.mp hw)
      rw [this]; exact Bool.and_false _

/-- The elements seen through `w` do not change when something is written through a view
that has no cell in common with `w`. -/
theorem read_writeAll_disjoint (st : Store α) (v w : View) (x : α)
    (h : v.overlaps w = false) : read (writeAll st v x) w = read st w := by
  unfold read
  apply List.map_congr_left
  intro a ha
  apply cell_writeAll_other
  rcases (overlaps_false_iff v w).mp h with h1 | h1
  · exact Or.inl (Ne.symm h1)
  · exact Or.inr (fun hv => h1 a hv ha)

theorem read_congr_buf (st st' : Store α) (w : View) (h : st'[w.buf]? = st[w.buf]?) :
    read st' w = read st w := by
  unfold read cell; rw [h]

theorem alloc_old (st : Store α) (c : List α) {b : Nat} (h : b < st.length) :
    (alloc st c).1[b]? = st[b]? := by
  unfold alloc; exact List.getElem?_append_left h

/-! ### every store operation keeps old buffers and only adds new ones -/

/-- What a non-writing call may do: keep the store or append buffers; the returned view is
in the source's buffer or in a new one. -/
structure Ext (st st' : Store α) (src v : View) : Prop where
  len : st.length ≤ st'.length
  old : ∀ b < st.length, st'[b]? = st[b]?
  buf : v.buf = src.buf ∨ st.length ≤ v.buf

theorem copyF_ext (d : α) (st : Store α) (v : View) :
    st.length ≤ (copyF d st v).1.length ∧ (∀ b < st.length, (copyF d st v).1[b]? = st[b]?) ∧
    (copyF d st v).2.buf = st.length := by
  unfold copyF alloc
  refine ⟨by simp, fun b hb => List.getElem?_append_left hb, rfl⟩

theorem freshF_ext (d : α) (st : Store α) (s : List Nat) :
    st.length ≤ (freshF d st s).1.length ∧ (∀ b < st.length, (freshF d st s).1[b]? = st[b]?) ∧
    (freshF d st s).2.buf = st.length := by
  unfold freshF alloc
  refine ⟨by simp, fun b hb => List.getElem?_append_left hb, rfl⟩

theorem asF_ext (d : α) (st : Store α) (v : View) : Ext st (asF d st v).1 v (asF d st v).2 := by
  unfold asF
  split
  · exact ⟨Nat.le_refl _, fun _ _ => rfl, Or.inl rfl⟩
  · obtain ⟨h1, h2, h3⟩ := copyF_ext d st v
    exact ⟨h1, h2, Or.inr (by rw [h3]; exact Nat.le_refl _)⟩

theorem reshapeF_ext (d : α) (st : Store α) (v : View) (s : List Nat) :
    Ext st (reshapeF d st v s).1 v (reshapeF d st v s).2 := by
  unfold reshapeF
  split
  · exact ⟨Nat.le_refl _, fun _ _ => rfl, Or.inl rfl⟩
  · split
    · exact ⟨Nat.le_refl _, fun _ _ => rfl, Or.inl rfl⟩
    · obtain ⟨h1, h2, h3⟩ := copyF_ext d st v
      refine ⟨h1, h2, Or.inr ?_⟩
      show st.length ≤ ((copyF d st v).2.reF s).buf
      simp only [View.reF]; rw [h3]; exact Nat.le_refl _

/-! ### soundness of the static classification -/

/-- What the root of a register promises about the register's buffer. -/
def soundFor (n0 : Nat) (ops : List View) : Root → View → Prop
  | .fresh, v => n0 ≤ v.buf
  | .op k, v => v.buf = (ops.getD k default).buf ∨ n0 ≤ v.buf
  | .any, _ => True

theorem getD_append_one {β : Type} (l : List β) (x dflt : β) (i : Nat) :
    (l ++ [x]).getD i dflt =
      if i < l.length then l.getD i dflt else if i = l.length then x else dflt := by
  simp only [List.getD_eq_getElem?_getD]
  split
  · rename_i h; rw [List.getElem?_append_left h]
  · rename_i h
    rw [List.getElem?_append_right (Nat.le_of_not_lt h)]
    split
    · rename_i h2; subst h2; simp
    · rename_i h2
      have : i - l.length ≠ 0 := by omega
      cases hk : i - l.length with
      | zero => exact absurd hk this
      | succ k => simp

/-- Invariant of the execution relative to the static analysis. -/
structure Inv (st0 : Store α) (ops : List View) (S : State α) (acc : List Root × List Root) :
    Prop where
  len : st0.length ≤ S.st.length
  regsLen : S.regs.length = acc.1.length
  sound : ∀ r, soundFor st0.length ops (acc.1.getD r .any) (S.reg r)
  wsound : ∀ w ∈ S.wlog, ∃ ρ ∈ acc.2, soundFor st0.length ops ρ w
  frame : ∀ b < st0.length, (∀ w ∈ S.wlog, w.buf ≠ b) → S.st[b]? = st0[b]?

theorem soundFor_mono {n0 : Nat} {ops : List View} {ρ : Root} {src v : View}
    (h : soundFor n0 ops ρ src) (hb : v.buf = src.buf ∨ n0 ≤ v.buf) : soundFor n0 ops ρ v := by
  cases ρ with
  | fresh =>
    simp only [soundFor] at *
    rcases hb with hb | hb
    · rw [hb]; exact h
    · exact hb
  | op k =>
    simp only [soundFor] at *
    rcases hb with hb | hb
    · rw [hb]; exact h
    · exact Or.inr hb
  | any => trivial

/-- Pushing a register whose buffer is the source's or a new one, with the source's root. -/
theorem Inv.push_from {st0 : Store α} {ops : List View} {S : State α}
    {acc : List Root × List Root} (I : Inv st0 ops S acc) (r : Nat) (st' : Store α) (v : View)
    (E : Ext S.st st' (S.reg r) v) (wr : List Root) (hwr : wr = acc.2) :
    Inv st0 ops (S.push st' v) (acc.1 ++ [acc.1.getD r .any], wr) := by
  subst hwr
  refine ⟨Nat.le_trans I.len E.len, ?_, ?_, I.wsound, ?_⟩
  · simp [State.push, I.regsLen]
  · intro r'
    have hs : (S.push st' v).reg r' =
        if r' < S.regs.length then S.reg r' else if r' = S.regs.length then v else default := by
      simp only [State.reg, State.push]; exact getD_append_one _ _ _ _
    show soundFor _ _ ((acc.1 ++ [acc.1.getD r .any]).getD r' .any) _
    rw [hs, getD_append_one, ← I.regsLen]
    split
    · exact I.sound r'
    · split
      · apply soundFor_mono (I.sound r)
        rcases E.buf with h | h
        · exact Or.inl h
        · exact Or.inr (Nat.le_trans I.len h)
      · trivial
  · intro b hb hw
    show st'[b]? = st0[b]?
    rw [E.old b (Nat.lt_of_lt_of_le hb I.len)]
    exact I.frame b hb hw

/-- Pushing a register that lives in a buffer allocated now. -/
theorem Inv.push_fresh {st0 : Store α} {ops : List View} {S : State α}
    {acc : List Root × List Root} (I : Inv st0 ops S acc) (st' : Store α) (v : View)
    (hlen : S.st.length ≤ st'.length) (hold : ∀ b < S.st.length, st'[b]? = S.st[b]?)
    (hbuf : v.buf = S.st.length) :
    Inv st0 ops (S.push st' v) (acc.1 ++ [.fresh], acc.2) := by
  refine ⟨Nat.le_trans I.len hlen, ?_, ?_, I.wsound, ?_⟩
  · simp [State.push, I.regsLen]
  · intro r'
    have hs : (S.push st' v).reg r' =
        if r' < S.regs.length then S.reg r' else if r' = S.regs.length then v else default := by
      simp only [State.reg, State.push]; exact getD_append_one _ _ _ _
    show soundFor _ _ ((acc.1 ++ [Root.fresh]).getD r' .any) _
    rw [hs, getD_append_one, ← I.regsLen]
    split
    · exact I.sound r'
    · split
      · show st0.length ≤ v.buf
        rw [hbuf]; exact I.len
      · trivial
  · intro b hb hw
    show st'[b]? = st0[b]?
    rw [hold b (Nat.lt_of_lt_of_le hb I.len)]
    exact I.frame b hb hw

theorem Ext.same (st : Store α) (src v : View) (h : v.buf = src.buf) : Ext st st src v :=
  ⟨Nat.le_refl _, fun _ _ => rfl, Or.inl h⟩

theorem step_inv (d : α) {st0 : Store α} {ops : List View} {S : State α}
    {acc : List Root × List Root} (I : Inv st0 ops S acc) (s : Step) :
    Inv st0 ops (step d S s) (staticStep acc s) := by
  cases s with
  | transpose r p => exact I.push_from r S.st ((S.reg r).transpose p) (Ext.same _ _ _ rfl) _ rfl
  | tr r => exact I.push_from r S.st (S.reg r).T (Ext.same _ _ _ rfl) _ rfl
  | reshapeF r s => exact I.push_from r _ _ (reshapeF_ext d S.st (S.reg r) s) _ rfl
  | asF r => exact I.push_from r _ _ (asF_ext d S.st (S.reg r)) _ rfl
  | copy r =>
    obtain ⟨h1, h2, h3⟩ := copyF_ext d S.st (S.reg r)
    exact I.push_fresh _ _ h1 h2 h3
  | squeeze r => exact I.push_from r S.st (S.reg r).squeeze (Ext.same _ _ _ rfl) _ rfl
  | slice r ax lo hi => exact I.push_from r S.st ((S.reg r).slice ax lo hi) (Ext.same _ _ _ rfl) _ rfl
  | select r ax i => exact I.push_from r S.st ((S.reg r).select ax i) (Ext.same _ _ _ rfl) _ rfl
  | newaxis r ax => exact I.push_from r S.st ((S.reg r).newaxis ax) (Ext.same _ _ _ rfl) _ rfl
  | alias r => exact I.push_from r S.st (S.reg r) (Ext.same _ _ _ rfl) _ rfl
  | fresh s rs =>
    obtain ⟨h1, h2, h3⟩ := freshF_ext d S.st s
    exact I.push_fresh _ _ h1 h2 h3
  | write r rs =>
    refine ⟨?_, I.regsLen, I.sound, ?_, ?_⟩
    · show st0.length ≤ (writeAll S.st (S.reg r) d).length
      rw [writeAll_length]; exact I.len
    · intro w hw
      show ∃ ρ ∈ acc.2 ++ [acc.1.getD r .any], _
      rcases List.mem_cons.mp hw with h | h
      · subst h
        exact ⟨acc.1.getD r .any, List.mem_append_right _ (List.mem_singleton.mpr rfl), I.sound r⟩
      · obtain ⟨ρ, hρ, hs⟩ := I.wsound w h
        exact ⟨ρ, List.mem_append_left _ hρ, hs⟩
    · intro b hb hw
      show (writeAll S.st (S.reg r) d)[b]? = st0[b]?
      have h1 : (S.reg r).buf ≠ b := hw _ (List.mem_cons_self)
      rw [writeAll_other _ _ _ (Ne.symm h1)]
      exact I.frame b hb (fun w hw' => hw w (List.mem_cons_of_mem _ hw'))

theorem foldl_inv (d : α) {st0 : Store α} {ops : List View} (p : Prog) {S : State α}
    {acc : List Root × List Root} (I : Inv st0 ops S acc) :
    Inv st0 ops (p.foldl (step d) S) (p.foldl staticStep acc) := by
  induction p generalizing S acc with
  | nil => exact I
  | cons s p ih => simp only [List.foldl_cons]; exact ih (step_inv d I s)

theorem initRoots_getD (n r : Nat) :
    (initRoots n).getD r .any = if r < n then Root.op r else Root.any := by
  simp only [initRoots, List.getD_eq_getElem?_getD]
  split
  · rename_i h; simp [h]
  · rename_i h
    rw [List.getElem?_eq_none (by simp; omega)]; rfl

theorem init_inv (st0 : Store α) (ops : List View) :
    Inv st0 ops ⟨st0, ops, []⟩ (initRoots ops.length, []) := by
  refine ⟨Nat.le_refl _, by simp [initRoots], ?_, ?_, fun _ _ _ => rfl⟩
  · intro r
    rw [initRoots_getD]
    split
    · exact Or.inl rfl
    · trivial
  · intro w hw; cases hw

/-- The execution of any program satisfies the invariant. -/
theorem exec_inv (d : α) (st0 : Store α) (ops : List View) (p : Prog) :
    Inv st0 ops (exec d st0 ops p) (static ops.length p) :=
  foldl_inv d p (init_inv st0 ops)

/-! ### the semantic consequences of the static checks -/

/-- No write can reach an operand ⇒ every buffer that existed before is unchanged. -/
theorem pure_sound (d : α) (st0 : Store α) (ops : List View) (p : Prog)
    (h : pureProg ops.length p = true) :
    ∀ b < st0.length, (exec d st0 ops p).st[b]? = st0[b]? := by
  intro b hb
  have I := exec_inv d st0 ops p
  apply I.frame b hb
  intro w hw
  obtain ⟨ρ, hρ, hs⟩ := I.wsound w hw
  have : ρ = .fresh := by
    have := List.all_eq_true.mp h ρ hρ
    simpa using this
  subst this
  simp only [soundFor] at hs
  omega

/-- Writes stay inside the receiver's buffers (or fresh ones) ⇒ every other old buffer is
unchanged. -/
theorem writesWithin_sound (d : α) (st0 : Store α) (ops : List View) (p : Prog) (recv : List Nat)
    (h : writesWithin ops.length recv p = true) :
    ∀ b < st0.length, (∀ k ∈ recv, (ops.getD k default).buf ≠ b) →
      (exec d st0 ops p).st[b]? = st0[b]? := by
  intro b hb hrecv
  have I := exec_inv d st0 ops p
  apply I.frame b hb
  intro w hw
  obtain ⟨ρ, hρ, hs⟩ := I.wsound w hw
  have hc := List.all_eq_true.mp h ρ hρ
  cases ρ with
  | fresh => simp only [soundFor] at hs; omega
  | op k =>
    simp only [soundFor] at hs
    have hk : k ∈ recv := List.contains_iff_mem.mp (by simpa using hc)
    rcases hs with hs | hs
    · rw [hs]; exact hrecv k hk
    · omega
  | any => simp at hc

/-- A result register classified fresh lives in a buffer that did not exist before. -/
theorem freshResults_sound (d : α) (st0 : Store α) (ops : List View) (p : Prog) (res : List Nat)
    (h : freshResults ops.length p res = true) :
    ∀ r ∈ res, st0.length ≤ ((exec d st0 ops p).reg r).buf := by
  intro r hr
  have I := exec_inv d st0 ops p
  have hc := List.all_eq_true.mp h r hr
  have hs := I.sound r
  have : (static ops.length p).1.getD r .any = .fresh := by
    simpa [roots] using hc
  rw [this] at hs
  exact hs

/-- A result register is fresh or inside one of the allowed operands' buffers. -/
theorem resultsWithin_sound (d : α) (st0 : Store α) (ops : List View) (p : Prog)
    (allowed res : List Nat) (h : resultsWithin ops.length allowed p res = true) :
    ∀ r ∈ res, st0.length ≤ ((exec d st0 ops p).reg r).buf ∨
      ∃ k ∈ allowed, ((exec d st0 ops p).reg r).buf = (ops.getD k default).buf := by
  intro r hr
  have I := exec_inv d st0 ops p
  have hc := List.all_eq_true.mp h r hr
  have hs := I.sound r
  simp only [roots] at hc
  cases hρ : (static ops.length p).1.getD r .any with
  | fresh => rw [hρ] at hs; exact Or.inl hs
  | op k =>
    rw [hρ] at hs hc
    have hk : k ∈ allowed := List.contains_iff_mem.mp (by simpa using hc)
    rcases hs with hs | hs
    · exact Or.inr ⟨k, hk, hs⟩
    · exact Or.inl hs
  | any => rw [hρ] at hc; simp at hc

theorem overlaps_of_buf_ne (v w : View) (h : v.buf ≠ w.buf) : v.overlaps w = false :=
  (overlaps_false_iff v w).mpr (Or.inl h)

end Pyttb.Heap
