/-
Lemmas for C11 (CP-APR), part 8: the multiplicative update is a majorisation step.
For `f(b) = Σ_r b_r − Σ_j x_j log(Σ_r b_r π_jr)` (the negative row log-likelihood) and
`Φ_r = Σ_j (x_j / v_j) π_jr`, the step `b ↦ b ⊙ Φ` does not increase `f` — for any function
`log` with `log t ≤ t − 1` and `log (s t) = log s + log t` on the positive numbers.
-/
import Mathlib.Algebra.Order.Field.Basic
import Mathlib.Algebra.BigOperators.Ring.Finset
import Mathlib.Algebra.Order.BigOperators.Group.Finset
import Mathlib.Algebra.BigOperators.Field
import Mathlib.Tactic.Ring
import Mathlib.Tactic.Linarith
import Mathlib.Tactic.FieldSimp
import Mathlib.Tactic.Positivity
namespace Pyttb.CpApr
open Finset

variable {α : Type} [Field α] [LinearOrder α] [IsStrictOrderedRing α]

section
variable (log : α → α)
  (hL1 : ∀ t, 0 < t → log t ≤ t - 1)
  (hL2 : ∀ s t, 0 < s → 0 < t → log (s * t) = log s + log t)
include hL1 hL2

theorem log_one_eq_zero : log 1 = 0 := by
  have := hL2 1 1 one_pos one_pos
  rw [mul_one] at this
  linarith

/-- `Φ − 1 ≤ Φ log Φ` for `Φ ≥ 0` (with `0 · log 0 = 0`). -/
theorem sub_one_le_mul_log {p : α} (hp : 0 ≤ p) : p - 1 ≤ p * log p := by
  rcases hp.eq_or_lt with h | h
  · rw [← h]; simp
  · have h1 := hL1 (1 / p) (one_div_pos.mpr h)
    have h2 := hL2 p (1 / p) h (one_div_pos.mpr h)
    rw [mul_one_div_cancel h.ne', log_one_eq_zero log hL1 hL2] at h2
    have h3 : -log p ≤ 1 / p - 1 := by linarith
    have h4 : p * (-log p) ≤ p * (1 / p - 1) := mul_le_mul_of_nonneg_left h3 h.le
    have h5 : p * (1 / p - 1) = 1 - p := by field_simp
    linarith

/-- The weighted tangent inequality behind Jensen: for weights `q ≥ 0` with `Σ q = 1` and
`Σ q Φ = S > 0`, where `Φ_r > 0` whenever `q_r > 0`:  `Σ q_r log Φ_r ≤ log S`. -/
theorem sum_mul_log_le (R : ℕ) (q p : ℕ → α) (S : α) (hq : ∀ r, 0 ≤ q r)
    (hpos : ∀ r, 0 < q r → 0 < p r) (hsum : ∑ r ∈ range R, q r = 1)
    (hS : ∑ r ∈ range R, q r * p r = S) (hSpos : 0 < S) :
    ∑ r ∈ range R, q r * log (p r) ≤ log S := by
  have hterm : ∀ r ∈ range R, q r * log (p r) ≤ q r * log S + (q r * p r / S - q r) := by
    intro r _
    rcases (hq r).eq_or_lt with h | h
    · rw [← h]; simp
    · have hp := hpos r h
      have h1 := hL1 (p r / S) (div_pos hp hSpos)
      have h2 := hL2 S (p r / S) hSpos (div_pos hp hSpos)
      rw [mul_div_cancel₀ _ hSpos.ne'] at h2
      have h3 : log (p r) ≤ log S + (p r / S - 1) := by linarith
      have h4 := mul_le_mul_of_nonneg_left h3 h.le
      have h5 : q r * (log S + (p r / S - 1)) = q r * log S + (q r * p r / S - q r) := by ring
      linarith
  have := Finset.sum_le_sum hterm
  rw [Finset.sum_add_distrib, Finset.sum_sub_distrib, ← Finset.sum_mul, ← Finset.sum_div, hsum, hS,
    div_self hSpos.ne', one_mul] at this
  linarith

/-- One multiplicative update does not increase the negative Poisson row log-likelihood. -/
theorem mu_majorise (R J : ℕ) (b : ℕ → α) (π : ℕ → ℕ → α) (x : ℕ → α)
    (hb : ∀ r, 0 ≤ b r) (hπ : ∀ j r, 0 ≤ π j r) (hx : ∀ j, 0 ≤ x j)
    (v : ℕ → α) (hvdef : ∀ j, v j = ∑ r ∈ range R, b r * π j r) (hv : ∀ j < J, 0 < v j)
    (Φ : ℕ → α) (hΦ : ∀ r, Φ r = ∑ j ∈ range J, x j / v j * π j r)
    (v' : ℕ → α) (hv' : ∀ j, v' j = ∑ r ∈ range R, b r * Φ r * π j r) :
    (∑ r ∈ range R, b r * Φ r) - ∑ j ∈ range J, x j * log (v' j) ≤
      (∑ r ∈ range R, b r) - ∑ j ∈ range J, x j * log (v j) := by
  have hΦnn : ∀ r, 0 ≤ Φ r := by
    intro r
    rw [hΦ]
    apply Finset.sum_nonneg
    intro j hj
    exact mul_nonneg (div_nonneg (hx j) (hv j (mem_range.mp hj)).le) (hπ j r)
  -- Step A: per data point
  have hA : ∀ j ∈ range J,
      x j * log (v j) + ∑ r ∈ range R, x j / v j * (b r * π j r) * log (Φ r) ≤ x j * log (v' j) := by
    intro j hj
    have hvj := hv j (mem_range.mp hj)
    rcases (hx j).eq_or_lt with h0 | hxpos
    · rw [← h0]; simp
    · -- weights q_r = b_r π_jr / v_j
      have hq : ∀ r, 0 ≤ b r * π j r / v j := fun r => div_nonneg (mul_nonneg (hb r) (hπ j r)) hvj.le
      have hpos : ∀ r, 0 < b r * π j r / v j → 0 < Φ r := by
        intro r hr
        have hbp : 0 < b r * π j r := by
          rcases (mul_nonneg (hb r) (hπ j r)).eq_or_lt with h | h
          · rw [← h] at hr; simp at hr
          · exact h
        have hpi : 0 < π j r := by
          rcases (hπ j r).eq_or_lt with h | h
          · rw [← h] at hbp; simp at hbp
          · exact h
        rw [hΦ]
        apply Finset.sum_pos'
        · intro i hi
          exact mul_nonneg (div_nonneg (hx i) (hv i (mem_range.mp hi)).le) (hπ i r)
        · exact ⟨j, hj, mul_pos (div_pos hxpos hvj) hpi⟩
      have hsum : ∑ r ∈ range R, b r * π j r / v j = 1 := by
        rw [← Finset.sum_div, ← hvdef j, div_self hvj.ne']
      have hS : ∑ r ∈ range R, b r * π j r / v j * Φ r = v' j / v j := by
        rw [hv' j, Finset.sum_div]
        apply Finset.sum_congr rfl
        intro r _
        ring
      have hv'pos : 0 < v' j := by
        -- some weight is positive, and there the new term is positive
        have hex : ∃ r ∈ range R, 0 < b r * π j r := by
          by_contra hcon
          have hall : ∀ r ∈ range R, b r * π j r = 0 := by
            intro r hr
            have h1 := mul_nonneg (hb r) (hπ j r)
            by_contra hne
            exact hcon ⟨r, hr, lt_of_le_of_ne h1 (Ne.symm hne)⟩
          have : v j = 0 := by rw [hvdef j]; exact Finset.sum_eq_zero hall
          exact hvj.ne' this
        obtain ⟨r, hr, hbp⟩ := hex
        rw [hv' j]
        apply Finset.sum_pos'
        · intro i _
          exact mul_nonneg (mul_nonneg (hb i) (hΦnn i)) (hπ j i)
        · refine ⟨r, hr, ?_⟩
          have hΦr := hpos r (div_pos hbp hvj)
          have : b r * Φ r * π j r = (b r * π j r) * Φ r := by ring
          rw [this]
          exact mul_pos hbp hΦr
      have hSpos : 0 < v' j / v j := div_pos hv'pos hvj
      have hJ := sum_mul_log_le log hL1 hL2 R (fun r => b r * π j r / v j) Φ (v' j / v j) hq hpos hsum hS hSpos
      have hlogv' : log (v' j) = log (v j) + log (v' j / v j) := by
        have := hL2 (v j) (v' j / v j) hvj hSpos
        rwa [mul_div_cancel₀ _ hvj.ne'] at this
      have hrew : ∑ r ∈ range R, x j / v j * (b r * π j r) * log (Φ r) =
          x j * ∑ r ∈ range R, b r * π j r / v j * log (Φ r) := by
        rw [Finset.mul_sum]
        apply Finset.sum_congr rfl
        intro r _
        ring
      rw [hrew, hlogv', mul_add]
      have := mul_le_mul_of_nonneg_left hJ hxpos.le
      linarith
  -- Step B: sum over the data points and exchange the sums
  have hB := Finset.sum_le_sum hA
  rw [Finset.sum_add_distrib] at hB
  have hswap : ∑ j ∈ range J, ∑ r ∈ range R, x j / v j * (b r * π j r) * log (Φ r) =
      ∑ r ∈ range R, b r * Φ r * log (Φ r) := by
    rw [Finset.sum_comm]
    apply Finset.sum_congr rfl
    intro r _
    rw [hΦ r, Finset.mul_sum, Finset.sum_mul]
    apply Finset.sum_congr rfl
    intro j _
    ring
  rw [hswap] at hB
  -- Step C: component-wise tangent inequality
  have hC : ∑ r ∈ range R, b r * Φ r - ∑ r ∈ range R, b r ≤ ∑ r ∈ range R, b r * Φ r * log (Φ r) := by
    rw [← Finset.sum_sub_distrib]
    apply Finset.sum_le_sum
    intro r _
    have := mul_le_mul_of_nonneg_left (sub_one_le_mul_log log hL1 hL2 (hΦnn r)) (hb r)
    have e1 : b r * (Φ r - 1) = b r * Φ r - b r := by ring
    have e2 : b r * (Φ r * log (Φ r)) = b r * Φ r * log (Φ r) := by ring
    linarith
  linarith

end

end Pyttb.CpApr
