/-
C03: refinement lemmas for `!=` of Ops/SparseElem.
-/
import PyttbModel.Lemmas.SparseElemEq
namespace Pyttb
open SpElem
variable {α : Type}

section ne
variable [AddMonoid α] [One α] [DecidableEq α]

theorem ne_scalar_spec (A : Sparse α) (hA : A.WF) (c : α) (h1 : (1 : α) ≠ 0) :
    ∃ R, SpElem.ne A (.scalar c) = .ok R ∧ R.WF ∧ R.shape = A.shape ∧
      ∀ i, InBounds A.shape i → R.get i = if A.get i ≠ c then 1 else 0 := by
  unfold SpElem.ne
  by_cases hc : c = 0
  · subst hc
    simp only [beq_self_eq_true, ↓reduceIte]
    refine ⟨_, rfl, ofSubs_char _ _ hA.nodup h1 (fun i => A.get i ≠ 0) (fun i => ?_)⟩
    constructor
    · intro h; exact ⟨hA.inb i h, A.get_ne_zero_of_mem hA i h⟩
    · rintro ⟨_, h⟩; exact (A.get_ne_zero_iff hA i).1 h
  · have hcb : (c == 0) = false := by simpa using hc
    simp only [hcb, Bool.false_eq_true, ↓reduceIte]
    rw [Sparse.vals_eq_map_get A hA, List.map_map, maskSel_map]
    refine ⟨_, rfl, ofSubs_char _ _ ?_ h1 (fun i => A.get i ≠ c) (fun i => ?_)⟩
    · rw [List.nodup_append]
      refine ⟨List.Nodup.filter _ hA.nodup, zeroSubs_nodup A, ?_⟩
      intro a ha b hb hab
      subst hab
      exact A.get_ne_zero_of_mem hA a (List.mem_filter.1 ha).1 ((mem_zeroSubs A hA a).1 hb).2
    · simp only [List.mem_append, List.mem_filter, Function.comp, Bool.not_eq_true', beq_eq_false_iff_ne,
        mem_zeroSubs A hA]
      constructor
      · rintro (⟨h, e⟩ | ⟨hi, e⟩)
        · exact ⟨hA.inb i h, e⟩
        · exact ⟨hi, fun h => hc (h ▸ e)⟩
      · rintro ⟨hi, e⟩
        by_cases ha : A.get i = 0
        · right; exact ⟨hi, ha⟩
        · left; exact ⟨(A.get_ne_zero_iff hA i).1 ha, e⟩

/-- the third group of `!=`: stored in both, values differ. -/
theorem ne_both_mask (A B : Sparse α) (hA : A.WF) (hB : B.WF) :
    maskSel (scatterMask A.subs.length (intersectRows (toRows A.subs) (toRows B.subs))
      (List.zipWith (fun a b => !(a == b))
        (extractD A (rowsAt A.subs (intersectRows (toRows A.subs) (toRows B.subs))))
        (extractD B (rowsAt A.subs (intersectRows (toRows A.subs) (toRows B.subs)))))) A.subs
      = A.subs.filter (fun r => B.subs.contains r && !(A.get r == B.get r)) := by
  rw [extractD_eq A hA, extractD_eq B hB, zipWith_map_map]
  unfold rowsAt
  rw [List.map_map, scatterMask_map]
  have : (List.range A.subs.length).map (fun k =>
        (intersectRows (toRows A.subs) (toRows B.subs)).contains k &&
          ((fun x => !(A.get x == B.get x)) ∘ fun k => A.subs.getD k []) k)
      = A.subs.map (fun r => B.subs.contains r && !(A.get r == B.get r)) := by
    rw [← map_range_getD A.subs [] (fun r => B.subs.contains r && !(A.get r == B.get r))]
    apply List.map_congr_left
    intro k hk
    rw [List.mem_range] at hk
    simp only [Function.comp]
    congr 1
    rw [Bool.eq_iff_iff, List.contains_iff_mem, mem_intersect_nodup A.subs B.subs hA.nodup]
    simp [hk]
  rw [this, maskSel_map]

theorem ne_sparse_spec (A B : Sparse α) (hA : A.WF) (hB : B.WF) (hs : A.shape = B.shape) (h1 : (1 : α) ≠ 0) :
    ∃ R, SpElem.ne A (.sparse B) = .ok R ∧ R.WF ∧ R.shape = A.shape ∧
      ∀ i, R.get i = if A.get i ≠ B.get i then 1 else 0 := by
  unfold SpElem.ne
  simp only [hs, bne_self_eq_false, Bool.false_eq_true, ↓reduceIte]
  rw [notInter_mask A.subs B.subs hA.nodup, notInter_mask B.subs A.subs hB.nodup, maskSel_map, maskSel_map]
  have hs2 : (if (A.nnz != 0 && B.nnz != 0) = true then
        maskSel (scatterMask A.subs.length (intersectRows (toRows A.subs) (toRows B.subs))
          (List.zipWith (fun a b => !(a == b))
            (extractD A (rowsAt A.subs (intersectRows (toRows A.subs) (toRows B.subs))))
            (extractD B (rowsAt A.subs (intersectRows (toRows A.subs) (toRows B.subs)))))) A.subs
        else [])
      = A.subs.filter (fun r => B.subs.contains r && !(A.get r == B.get r)) := by
    split
    · exact ne_both_mask A B hA hB
    · next h =>
      simp only [Sparse.nnz, bne_iff_ne, ne_eq, List.length_eq_zero_iff, Bool.and_eq_true,
        decide_eq_true_eq, not_and_or, not_not] at h
      rcases h with h | h
      · simp [h]
      · simp [h]
  rw [hs2]
  have hU : (A.subs.filter (fun r => !B.subs.contains r) ++ B.subs.filter (fun r => !A.subs.contains r) ++
      A.subs.filter (fun r => B.subs.contains r && !(A.get r == B.get r))).Nodup := by
    rw [List.nodup_append, List.nodup_append]
    refine ⟨⟨List.Nodup.filter _ hA.nodup, List.Nodup.filter _ hB.nodup, ?_⟩, List.Nodup.filter _ hA.nodup, ?_⟩
    · intro a ha b hb hab
      subst hab
      have h1 := (List.mem_filter.1 ha).1
      have h2 := (List.mem_filter.1 hb).2
      simp [h1] at h2
    · intro a ha b hb hab
      subst hab
      have hb' := (List.mem_filter.1 hb)
      simp only [Bool.and_eq_true, List.contains_iff_mem] at hb'
      rcases List.mem_append.1 ha with h | h
      · have := (List.mem_filter.1 h).2
        simp [hb'.2.1] at this
      · have := (List.mem_filter.1 h).2
        simp [hb'.1] at this
  obtain ⟨w, sh, g⟩ := ofSubs_spec (α := α) B.shape _ hU (fun u hu => by
    rcases List.mem_append.1 hu with h | h
    · rcases List.mem_append.1 h with h | h
      · rw [← hs]; exact hA.inb u (List.mem_filter.1 h).1
      · exact hB.inb u (List.mem_filter.1 h).1
    · rw [← hs]; exact hA.inb u (List.mem_filter.1 h).1) h1
  refine ⟨_, rfl, w, sh, fun i => ?_⟩
  rw [g i]
  congr 1
  simp only [List.mem_append, List.mem_filter, Bool.not_eq_true', Bool.and_eq_true, List.contains_iff_mem,
    beq_eq_false_iff_ne, eq_iff_iff]
  by_cases ha : i ∈ A.subs <;> by_cases hb : i ∈ B.subs
  · simp [ha, hb]
  · simp [ha, hb, B.get_of_not_mem i hb, A.get_ne_zero_of_mem hA i ha]
  · simp [ha, hb, A.get_of_not_mem i ha, (B.get_ne_zero_of_mem hB i hb).symm]
  · simp [ha, hb, A.get_of_not_mem i ha, B.get_of_not_mem i hb]

/-- when the stored subscripts of `A` and the zero cells of `D` fill the whole shape, there is
no cell left for the first group (the code's shortcut). -/
theorem union_full (s : List Nat) (U : List Row) (hU : U.Nodup)
    (hsub : ∀ x ∈ U, x ∈ toRows (allSubsC s)) (hlen : U.length = numel s) :
    ∀ r ∈ allSubsC s, toRow r ∈ U := by
  have hl : (toRows (allSubsC s)).length = numel s := by
    simp [toRows, allSubsC, length_allSubs, numel_reverse]
  have hp := (List.subperm_of_subset hU hsub).perm_of_length_le (by rw [hl, hlen])
  intro r hr
  exact hp.mem_iff.2 (mem_toRows.2 hr)

theorem ne_dense_spec (A : Sparse α) (hA : A.WF) (D : Dense α) (hs : A.shape = D.shape) (h1 : (1 : α) ≠ 0) :
    ∃ R, SpElem.ne A (.dense D) = .ok R ∧ R.WF ∧ R.shape = A.shape ∧
      ∀ i, InBounds A.shape i → R.get i = if A.get i ≠ D.get i then 1 else 0 := by
  unfold SpElem.ne
  simp only [hs, bne_self_eq_false, Bool.false_eq_true, ↓reduceIte]
  obtain ⟨hun, hum⟩ := union_spec (toRows A.subs) (toRows (whereC (fun v => v == 0) D))
  have hs1 : (if ((unionRows (toRows A.subs) (toRows (whereC (fun v => v == 0) D))).length != numel D.shape) = true then
        rowsAt (allSubsC D.shape) (setdiffRows (toRows (allSubsC D.shape))
          (unionRows (toRows A.subs) (toRows (whereC (fun v => v == 0) D)))) else [])
      = (allSubsC D.shape).filter (fun r => !A.subs.contains r && !(D.get r == 0)) := by
    have hgen : rowsAt (allSubsC D.shape) (setdiffRows (toRows (allSubsC D.shape))
          (unionRows (toRows A.subs) (toRows (whereC (fun v => v == 0) D))))
        = (allSubsC D.shape).filter (fun r => !A.subs.contains r && !(D.get r == 0)) := by
      rw [rowsAt_setdiff _ _ (allSubsC_nodup _)]
      apply List.filter_congr
      intro r hr
      rw [Bool.eq_iff_iff]
      simp only [Bool.not_eq_true', List.contains_eq_mem, decide_eq_false_iff_not, hum, mem_toRows,
        mem_whereC, not_or, Bool.and_eq_true, beq_eq_false_iff_ne, mem_allSubsC.1 hr, true_and,
        beq_iff_eq, decide_eq_true_eq]
    split
    · exact hgen
    · next hlen =>
      simp only [bne_iff_ne, ne_eq, not_not] at hlen
      symm
      rw [List.filter_eq_nil_iff]
      intro r hr
      have := union_full D.shape _ hun (fun x hx => by
        rcases (hum x).1 hx with h | h
        · obtain ⟨a, ha, rfl⟩ := List.mem_map.1 h
          exact mem_toRows.2 (mem_allSubsC.2 (hs ▸ hA.inb a ha))
        · obtain ⟨a, ha, rfl⟩ := List.mem_map.1 h
          exact mem_toRows.2 (mem_allSubsC.2 ((mem_whereC _ D a).1 ha).1)) hlen r hr
      rw [hum, mem_toRows, mem_toRows, mem_whereC] at this
      simp only [Bool.and_eq_true, Bool.not_eq_true', not_and_or]
      rcases this with h | h
      · left; simpa using h
      · right; simpa using h.2
  have hs2 : (if A.nnz > 0 then
        maskSel (List.zipWith (fun v o => !(v == o)) A.vals (A.subs.map D.get)) A.subs else [])
      = A.subs.filter (fun r => !(A.get r == D.get r)) := by
    split
    · rw [Sparse.vals_eq_map_get A hA, zipWith_map_map, maskSel_map]
    · next h =>
      simp only [Sparse.nnz, gt_iff_lt, Nat.not_lt, Nat.le_zero, List.length_eq_zero_iff] at h
      simp [h]
  rw [hs1, hs2]
  refine ⟨_, rfl, ?_⟩
  rw [← hs]
  apply ofSubs_char _ _ _ h1 (fun i => A.get i ≠ D.get i)
  · intro i
    simp only [List.mem_append, List.mem_filter, mem_allSubsC, Bool.and_eq_true, Bool.not_eq_true',
      List.contains_eq_mem, decide_eq_false_iff_not, beq_eq_false_iff_ne, ← hs]
    constructor
    · rintro (⟨hi, ha, hd⟩ | ⟨ha, e⟩)
      · refine ⟨hi, ?_⟩
        rw [A.get_of_not_mem i ha]; exact fun h => hd h.symm
      · exact ⟨hA.inb i ha, e⟩
    · rintro ⟨hi, e⟩
      by_cases ha : i ∈ A.subs
      · right; exact ⟨ha, e⟩
      · left
        refine ⟨hi, ha, ?_⟩
        rw [A.get_of_not_mem i ha] at e
        exact fun h => e h.symm
  · rw [List.nodup_append]
    refine ⟨List.Nodup.filter _ (allSubsC_nodup _), List.Nodup.filter _ hA.nodup, ?_⟩
    intro a ha b hb hab
    subst hab
    have h2 := (List.mem_filter.1 ha).2
    have h3 := (List.mem_filter.1 hb).1
    simp [h3] at h2

end ne

end Pyttb
