/-
Proofs about the tensor-level GCP model (`Alg/GcpFg.lean`) against the specification
(`Spec/Gcp.lean`): the objective is the weighted sum of the loss, the gradients are the
partial derivatives (chain rule over the finite sum), the two passes of `estimate_helper`
produce the leave-one-out Hadamard products, and the estimator on the full sample with
unit weights is the exact evaluation.
-/
import PyttbModel.Alg.GcpFg
import PyttbModel.Spec.Gcp
import PyttbModel.Lemmas.Idx
import Mathlib.Algebra.BigOperators.Group.List.Basic
import Mathlib.Algebra.Ring.Defs
import Mathlib.Analysis.Calculus.Deriv.Mul
import Mathlib.Analysis.Calculus.Deriv.Add
import Mathlib.Analysis.Calculus.Deriv.Comp
import Mathlib.Analysis.SpecialFunctions.Pow.Deriv
namespace Pyttb
variable {α : Type}

theorem zipWith_map_same {β γ δ ι : Type} (h : β → γ → δ) (a : ι → β) (b : ι → γ) (l : List ι) :
    List.zipWith h (l.map a) (l.map b) = l.map (fun i => h (a i) (b i)) := by
  induction l with
  | nil => rfl
  | cons x xs ih => simp [ih]

theorem map_getD_range {β : Type} (l : List β) (d : β) :
    (List.range l.length).map (fun j => l.getD j d) = l := by
  apply List.ext_getElem
  · simp
  · intro n h1 h2
    simp [List.getD_eq_getElem?_getD, List.getElem?_eq_getElem h2]

/-- a well-formed dense tensor lists its entries in the order of `allSubs` -/
theorem Dense.data_eq_map_get [Zero α] (T : Dense α) (h : T.WF) :
    T.data = (allSubs T.shape).map T.get := by
  have : (allSubs T.shape).map T.get = ((allSubs T.shape).map (sub2ind T.shape)).map (fun j => T.data.getD j 0) := by
    simp [Dense.get, List.map_map, Function.comp_def]
  rw [this, allSubs_map_sub2ind, ← h, map_getD_range]

theorem Dense.get_mk_map [Zero α] (s : List Nat) (F : List Nat → α) (i : List Nat) (hi : InBounds s i) :
    (Dense.mk s ((allSubs s).map F)).get i = F i := by
  have hlt := sub2ind_lt hi
  simp only [Dense.get, List.getD_eq_getElem?_getD]
  rw [List.getElem?_map, List.getElem?_eq_getElem (by rw [length_allSubs]; exact hlt)]
  simp [getElem_allSubs hi]

theorem Mat.get_setEntry [Zero α] (A : Mat α) (a r : Nat) (t : α) (a' r' : Nat)
    (ha : a < A.length) (hr : r < (A.getD a []).length) :
    (A.setEntry a r t).get a' r' = if a' = a ∧ r' = r then t else A.get a' r' := by
  unfold Mat.setEntry Mat.get
  simp only [List.getD_eq_getElem?_getD, List.getElem?_set]
  by_cases h1 : a = a'
  · subst h1
    simp only [ha, if_true, true_and, Option.getD_some, List.getElem?_set]
    by_cases h2 : r = r'
    · subst h2
      simp [List.getD_eq_getElem?_getD] at hr
      simp [hr]
    · simp [h2, Ne.symm h2]
  · simp [h1, Ne.symm h1]

theorem zipWith_set_left {β γ δ : Type} (G : β → γ → δ) (l : List β) (i : List γ) (k : Nat) (v : β) (d : γ) :
    List.zipWith G (l.set k v) i = (List.zipWith G l i).set k (G v (i.getD k d)) := by
  induction l generalizing k i with
  | nil => simp
  | cons x xs ih =>
    cases i with
    | nil => simp
    | cons y ys =>
      cases k with
      | zero => simp
      | succ k => simp [ih]

theorem zipWith_eraseIdx {β γ δ : Type} (G : β → γ → δ) (l : List β) (i : List γ) (k : Nat) :
    List.zipWith G (l.eraseIdx k) (i.eraseIdx k) = (List.zipWith G l i).eraseIdx k := by
  induction l generalizing k i with
  | nil => simp
  | cons x xs ih =>
    cases i with
    | nil => cases k <;> simp
    | cons y ys =>
      cases k with
      | zero => simp
      | succ k => simp [ih]

theorem prod_eq_getElem_mul_eraseIdx [CommMonoid α] (L : List α) (k : Nat) (hk : k < L.length) :
    L.prod = L[k] * (L.eraseIdx k).prod := by
  induction L generalizing k with
  | nil => simp at hk
  | cons x xs ih =>
    cases k with
    | zero => simp
    | succ k =>
      simp only [List.length_cons, Nat.add_lt_add_iff_right] at hk
      simp only [List.prod_cons, List.getElem_cons_succ, List.eraseIdx_cons_succ, ih k hk]
      rw [mul_left_comm]

/-- one Kruskal component factors as (mode-`k` entry) · (product over the other modes) -/
theorem comp_set [CommSemiring α] (K : Ktensor α) (k : Nat) (B : Mat α) (r : Nat) (i : List Nat)
    (hk : k < K.factors.length) (hi : i.length = K.factors.length) :
    (Ktensor.mk K.weights (K.factors.set k B)).comp r i
      = B.get (i.getD k 0) r * compExcept K.factors k r i := by
  unfold Ktensor.comp compExcept
  simp only
  rw [zipWith_set_left _ _ _ _ _ 0, zipWith_eraseIdx]
  have hlen : k < ((List.zipWith (fun A ik => Mat.get A ik r) K.factors i).set k
      (Mat.get B (i.getD k 0) r)).length := by
    simp [hi, hk]
  rw [prod_eq_getElem_mul_eraseIdx _ k hlen, List.eraseIdx_set_eq]
  simp

theorem comp_eq [CommSemiring α] (K : Ktensor α) (k : Nat) (r : Nat) (i : List Nat)
    (hk : k < K.factors.length) (hi : i.length = K.factors.length) :
    K.comp r i = (K.factors.getD k []).get (i.getD k 0) r * compExcept K.factors k r i := by
  have := comp_set K k (K.factors.getD k []) r i hk hi
  rw [← this]
  congr 2
  simp [List.getD_eq_getElem?_getD, List.getElem?_eq_getElem hk]

theorem hasDerivAt_list_sum {ι : Type} (l : List ι) (F : ι → ℝ → ℝ) (F' : ι → ℝ) (t0 : ℝ)
    (h : ∀ i ∈ l, HasDerivAt (F i) (F' i) t0) :
    HasDerivAt (fun t => (l.map fun i => F i t).sum) (l.map F').sum t0 := by
  induction l with
  | nil => simpa using hasDerivAt_const t0 (0 : ℝ)
  | cons x xs ih =>
    have h1 := h x (by simp)
    have h2 := ih (fun i hi => h i (by simp [hi]))
    simpa using h1.fun_add h2

theorem sum_range_single {β : Type} [AddCommMonoid β] (R r : Nat) (hr : r < R) (v : Nat → β) :
    ((List.range R).map fun r' => if r' = r then v r' else 0).sum = v r := by
  induction R with
  | zero => omega
  | succ R ih =>
    rw [List.range_succ, List.map_append, List.sum_append]
    by_cases h : r = R
    · subst h
      have : ((List.range r).map fun r' => if r' = r then v r' else 0) = (List.range r).map fun _ => (0 : β) := by
        apply List.map_congr_left
        intro x hx
        have : x ≠ r := by have := List.mem_range.1 hx; omega
        simp [this]
      rw [this]
      simp
    · have hr' : r < R := by omega
      rw [ih hr']
      simp [Ne.symm h]

/-- value of the Kruskal tensor at `i` as a function of one factor entry, and its derivative -/
theorem hasDerivAt_get_setEntry (K : Ktensor ℝ) (k a r : Nat) (i : List Nat)
    (hk : k < K.factors.length) (hi : i.length = K.factors.length)
    (ha : a < (K.factors.getD k []).length) (hr : r < ((K.factors.getD k []).getD a []).length)
    (hrR : r < K.ncomp) (t0 : ℝ) :
    HasDerivAt (fun t => (K.setEntry k a r t).get i)
      (if i.getD k 0 = a then K.weights.getD r 0 * compExcept K.factors k r i else 0) t0 := by
  unfold Ktensor.get Ktensor.setEntry
  simp only [Ktensor.ncomp]
  have hterm : ∀ r' ∈ List.range K.weights.length,
      HasDerivAt (fun t => K.weights.getD r' 0 *
          (Ktensor.mk K.weights (K.factors.set k ((K.factors.getD k []).setEntry a r t))).comp r' i)
        (if r' = r then (if i.getD k 0 = a then K.weights.getD r' 0 * compExcept K.factors k r' i else 0) else 0) t0 := by
    intro r' _
    simp only [comp_set K k _ r' i hk hi, Mat.get_setEntry _ a r _ _ _ ha hr]
    by_cases h1 : i.getD k 0 = a ∧ r' = r
    · simp only [h1, and_self, if_true]
      have := ((hasDerivAt_id' t0).mul_const (compExcept K.factors k r i)).const_mul (K.weights.getD r 0)
      simpa [h1.2] using this
    · have hc : ∀ t : ℝ, (if i.getD k 0 = a ∧ r' = r then t else (K.factors.getD k []).get (i.getD k 0) r')
          = (K.factors.getD k []).get (i.getD k 0) r' := fun t => if_neg h1
      simp only [hc]
      have h0 : (if r' = r then (if i.getD k 0 = a then K.weights.getD r' 0 * compExcept K.factors k r' i else 0) else 0) = (0:ℝ) := by
        by_cases h2 : r' = r
        · have : ¬ i.getD k 0 = a := fun h3 => h1 ⟨h3, h2⟩
          rw [if_pos h2, if_neg this]
        · rw [if_neg h2]
      rw [h0]
      exact hasDerivAt_const t0 _
  have := hasDerivAt_list_sum (List.range K.weights.length) _ _ t0 hterm
  rw [sum_range_single K.weights.length r hrR] at this
  exact this

theorem Mat.setEntry_self [Zero α] (A : Mat α) (a r : Nat) (ha : a < A.length)
    (hr : r < (A.getD a []).length) : A.setEntry a r (A.get a r) = A := by
  unfold Mat.setEntry Mat.get
  have h1 : A.getD a [] = A[a] := by simp [List.getD_eq_getElem?_getD, List.getElem?_eq_getElem ha]
  rw [h1] at hr ⊢
  have h2 : (A[a]).getD r 0 = A[a][r] := by simp [List.getD_eq_getElem?_getD, List.getElem?_eq_getElem hr]
  rw [h2, List.set_getElem_self, List.set_getElem_self]

theorem Ktensor.setEntry_self [Zero α] (K : Ktensor α) (k a r : Nat) (hk : k < K.factors.length)
    (ha : a < (K.factors.getD k []).length) (hr : r < ((K.factors.getD k []).getD a []).length) :
    K.setEntry k a r ((K.factors.getD k []).get a r) = K := by
  unfold Ktensor.setEntry
  rw [Mat.setEntry_self _ a r ha hr]
  have h1 : K.factors.getD k [] = K.factors[k] := by
    simp [List.getD_eq_getElem?_getD, List.getElem?_eq_getElem hk]
  rw [h1, List.set_getElem_self]

theorem Ktensor.shape_setEntry (K : Ktensor α) (k a r : Nat) (t : α) :
    (K.setEntry k a r t).shape = K.shape := by
  unfold Ktensor.setEntry Ktensor.shape Mat.setEntry
  simp only
  apply List.ext_getElem
  · simp
  · intro n h1 h2
    simp only [List.getElem_map, List.getElem_set]
    split
    · next h => subst h; simp [List.getD_eq_getElem?_getD]; rw [List.getElem?_eq_getElem (by simpa using h2)]; simp
    · rfl

/-- the handle applied entry by entry and weighted, as `evaluate` forms it -/
theorem weightedY_eq [Add α] [Mul α] [One α] [Zero α] (K : Ktensor α) (X : Dense α) (W : Option (Dense α))
    (h : α → α → α) (hX : X.shape = K.shape) (hXwf : X.WF)
    (hW : ∀ W', W = some W' → W'.shape = K.shape ∧ W'.WF) :
    applyWeights (applyHandle h X.data K.fullD.data) W
      = (allSubs K.shape).map (fun i => wterm W i (h (X.get i) (K.get i))) := by
  have hY : applyHandle h X.data K.fullD.data = (allSubs K.shape).map (fun i => h (X.get i) (K.get i)) := by
    unfold applyHandle Ktensor.fullD Dense.ofFn
    rw [Dense.data_eq_map_get X hXwf, hX, zipWith_map_same]
  rw [hY]
  cases W with
  | none => simp [applyWeights, wterm]
  | some W' =>
    obtain ⟨hs, hwf⟩ := hW W' rfl
    simp only [applyWeights, wterm]
    rw [Dense.data_eq_map_get W' hwf, hs, zipWith_map_same]

theorem length_shape (K : Ktensor α) : K.shape.length = K.factors.length := by simp [Ktensor.shape]

/-- what `evaluate` returns on well-formed input -/
theorem evaluate_ok [Add α] [Mul α] [One α] [Zero α] (K : Ktensor α) (X : Dense α) (W : Option (Dense α))
    (f g : Option (Handle α)) (hfg : f.isSome ∨ g.isSome) (hN : 2 ≤ K.factors.length)
    (hX : X.shape = K.shape) (hXwf : X.WF)
    (hW : ∀ W', W = some W' → W'.shape = K.shape ∧ W'.WF) :
    evaluate K X W f g = .ok ⟨f.map (gcpObjective K X W),
      g.map fun g => mttkrpsK ⟨K.shape, wY K X W g⟩ K⟩ := by
  unfold evaluate
  have h1 : (f.isNone && g.isNone) = false := by
    cases f <;> cases g <;> simp at hfg ⊢
  have h2 : ¬ K.factors.length < 2 := by omega
  have hF : f.map (fun f => (applyWeights (applyHandle f X.data K.fullD.data) W).sum)
      = f.map (gcpObjective K X W) := by
    cases f with
    | none => rfl
    | some f => simp [gcpObjective, weightedY_eq K X W f hX hXwf hW]
  have hG : g.map (fun g => mttkrpsK ⟨K.shape, applyWeights (applyHandle g X.data K.fullD.data) W⟩ K)
      = g.map fun g => mttkrpsK ⟨K.shape, wY K X W g⟩ K := by
    cases g with
    | none => rfl
    | some g => simp [wY, weightedY_eq K X W g hX hXwf hW]
  simp only [h1, h2, hX, Bool.false_eq_true, if_false, ne_eq, not_true_eq_false, hF, hG]
  cases W with
  | none => simp
  | some W' => simp [(hW W' rfl).1]

theorem getD_map_range {β : Type} (n : Nat) (F : Nat → β) (a : Nat) (d : β) (ha : a < n) :
    ((List.range n).map F).getD a d = F a := by
  simp [List.getD_eq_getElem?_getD, ha]

theorem mttkrpDef_get [Add α] [Mul α] [One α] [Zero α] (T : Dense α) (U : List (Mat α)) (R k a r : Nat)
    (ha : a < T.shape.getD k 0) (hr : r < R) :
    (mttkrpDef T U R k).get a r =
      ((allSubs T.shape).map fun i => if i.getD k 0 = a then T.get i * compExcept U k r i else 0).sum := by
  unfold mttkrpDef Mat.get
  rw [getD_map_range _ _ _ _ ha, getD_map_range _ _ _ _ hr]

theorem row_length_of_WF (K : Ktensor α) (hWF : K.WF) (k a : Nat) (hk : k < K.factors.length)
    (ha : a < (K.factors.getD k []).length) : ((K.factors.getD k []).getD a []).length = K.ncomp := by
  have h1 : K.factors.getD k [] = K.factors[k] := by
    simp [List.getD_eq_getElem?_getD, List.getElem?_eq_getElem hk]
  rw [h1] at ha ⊢
  have h2 : (K.factors[k]).getD a [] = K.factors[k][a] := by
    simp [List.getD_eq_getElem?_getD, List.getElem?_eq_getElem ha]
  rw [h2]
  exact hWF _ (List.getElem_mem hk) _ (List.getElem_mem ha)

/-- **gradient = partial derivative** (general model weights: the factor `λ_r` appears because
`evaluate` passes only the factor matrices to `mttkrps`). -/
theorem gradient_is_partial (K : Ktensor ℝ) (X : Dense ℝ) (W : Option (Dense ℝ)) (f g : ℝ → ℝ → ℝ)
    (k a r : Nat) (hWF : K.WF)
    (hk : k < K.factors.length) (ha : a < (K.factors.getD k []).length) (hr : r < K.ncomp)
    (hfg : ∀ i ∈ allSubs K.shape, HasDerivAt (f (X.get i)) (g (X.get i) (K.get i)) (K.get i)) :
    HasDerivAt (fun t => gcpObjective (K.setEntry k a r t) X W f)
      (K.weights.getD r 0 * (mttkrpDef ⟨K.shape, wY K X W g⟩ K.factors K.ncomp k).get a r)
      ((K.factors.getD k []).get a r) := by
  have hrow := row_length_of_WF K hWF k a hk ha
  have hr' : r < ((K.factors.getD k []).getD a []).length := by rw [hrow]; exact hr
  set t0 := (K.factors.getD k []).get a r with ht0
  -- per-entry derivative
  have hterm : ∀ i ∈ allSubs K.shape,
      HasDerivAt (fun t => wterm W i (f (X.get i) ((K.setEntry k a r t).get i)))
        (K.weights.getD r 0 * (if i.getD k 0 = a then wterm W i (g (X.get i) (K.get i)) * compExcept K.factors k r i else 0)) t0 := by
    intro i hi
    have hib : InBounds K.shape i := mem_allSubs.1 hi
    have hil : i.length = K.factors.length := by rw [hib.length_eq, length_shape]
    have hm := hasDerivAt_get_setEntry K k a r i hk hil ha hr' hr t0
    have hval : (K.setEntry k a r t0).get i = K.get i := by
      rw [ht0, Ktensor.setEntry_self K k a r hk ha hr']
    have hf := hfg i hi
    rw [← hval] at hf
    have hc := HasDerivAt.comp t0 hf hm
    cases W with
    | none =>
      simp only [wterm]
      refine (hc.congr_deriv ?_)
      rw [hval]
      by_cases h : i.getD k 0 = a
      · rw [if_pos h, if_pos h]; ring
      · rw [if_neg h, if_neg h]; ring
    | some W' =>
      simp only [wterm]
      refine ((hc.mul_const (W'.get i)).congr_deriv ?_)
      rw [hval]
      by_cases h : i.getD k 0 = a
      · rw [if_pos h, if_pos h]; ring
      · rw [if_neg h, if_neg h]; ring
  have hsum := hasDerivAt_list_sum (allSubs K.shape) _ _ t0 hterm
  have hshape : ∀ t, (K.setEntry k a r t).shape = K.shape := fun t => Ktensor.shape_setEntry K k a r t
  simp only [gcpObjective, hshape]
  refine hsum.congr_deriv ?_
  rw [List.sum_map_mul_left]
  congr 1
  have hak : a < (Dense.mk K.shape (wY K X W g)).shape.getD k 0 := by
    simp only [Ktensor.shape]
    simp [List.getD_eq_getElem?_getD, List.getElem?_eq_getElem hk] at ha ⊢
    simpa [List.getElem?_eq_getElem hk] using ha
  rw [mttkrpDef_get _ _ _ _ _ _ hak hr]
  apply congrArg
  apply List.map_congr_left
  intro i hi
  have hib : InBounds K.shape i := mem_allSubs.1 hi
  by_cases h : i.getD k 0 = a
  · rw [if_pos h, if_pos h, wY, Dense.get_mk_map K.shape _ i hib]
  · rw [if_neg h, if_neg h]

/-! ### estimate_helper -/

theorem getD_zipWith_mul [MulZeroClass α] (a b : List α) (r : Nat) :
    (List.zipWith (· * ·) a b).getD r 0 = a.getD r 0 * b.getD r 0 := by
  simp only [List.getD_eq_getElem?_getD, List.getElem?_zipWith]
  cases a[r]? <;> cases b[r]? <;> simp

/-- entry of a column-scaled matrix -/
theorem scaleCols_get [MulZeroClass α] (M : Mat α) (w : List α) (a r : Nat) :
    (scaleCols M w).get a r = M.get a r * w.getD r 0 := by
  unfold scaleCols Mat.get
  have : (M.map fun row => List.zipWith (· * ·) row w).getD a [] = List.zipWith (· * ·) (M.getD a []) w := by
    simp only [List.getD_eq_getElem?_getD, List.getElem?_map]
    cases M[a]? <;> simp
  rw [this, getD_zipWith_mul]

theorem zipWith_mul_one [MulOneClass α] (Y : List α) (n : Nat) (h : Y.length = n) :
    List.zipWith (· * ·) Y (List.replicate n (1 : α)) = Y := by
  subst h
  induction Y with
  | nil => rfl
  | cons y ys ih => simp [List.replicate_succ, ih]

/-- with unit weights the weighted `mttkrps` is the plain one -/
theorem mttkrpsK_unit [Semiring α] (T : Dense α) (K : Ktensor α)
    (hunit : ∀ r < K.ncomp, K.weights.getD r 0 = 1) :
    mttkrpsK T K = mttkrpsDef T K.factors K.ncomp := by
  have hw : K.weights = List.replicate K.ncomp (1 : α) := by
    apply List.ext_getElem
    · simp [Ktensor.ncomp]
    · intro n h1 h2
      have := hunit n h1
      rw [List.getD_eq_getElem?_getD, List.getElem?_eq_getElem h1, Option.getD_some] at this
      simp [this]
  unfold mttkrpsK mttkrpsDef
  rw [List.map_map]
  apply List.map_congr_left
  intro k _
  simp only [Function.comp, scaleCols, mttkrpDef]
  rw [List.map_map]
  apply List.map_congr_left
  intro a _
  simp only [Function.comp]
  conv_lhs => rw [hw]
  apply zipWith_mul_one
  simp

theorem Mat.get_hadamard [MulZeroClass α] (A B : Mat α) (s r : Nat) :
    (A.hadamard B).get s r = A.get s r * B.get s r := by
  unfold Mat.hadamard Mat.get
  have : (List.zipWith (List.zipWith (· * ·)) A B).getD s [] = List.zipWith (· * ·) (A.getD s []) (B.getD s []) := by
    simp only [List.getD_eq_getElem?_getD, List.getElem?_zipWith]
    cases A[s]? <;> cases B[s]? <;> simp
  rw [this, getD_zipWith_mul]

theorem Mat.length_hadamard [Mul α] (A B : Mat α) : (A.hadamard B).length = min A.length B.length := by
  simp [Mat.hadamard]

/-- `M` has `n` rows and entries `v` -/
def Good [Zero α] (M : Mat α) (n : Nat) (v : Nat → Nat → α) : Prop :=
  M.length = n ∧ ∀ s r, M.get s r = v s r

theorem Good.hadamard [MulZeroClass α] {A B : Mat α} {n : Nat} {u v : Nat → Nat → α}
    (hA : Good A n u) (hB : Good B n v) : Good (A.hadamard B) n (fun s r => u s r * v s r) :=
  ⟨by rw [Mat.length_hadamard, hA.1, hB.1, Nat.min_self], fun s r => by rw [Mat.get_hadamard, hA.2, hB.2]⟩

theorem Good.congr [Zero α] {A : Mat α} {n : Nat} {u v : Nat → Nat → α} (hA : Good A n u)
    (h : ∀ s r, u s r = v s r) : Good A n v := ⟨hA.1, fun s r => by rw [hA.2, h]⟩

theorem getD_set_eq {β : Type} (Z : List β) (k : Nat) (v d : β) (hk : k < Z.length) :
    (Z.set k v).getD k d = v := by
  simp [List.getD_eq_getElem?_getD, hk]

theorem getD_set_ne {β : Type} (Z : List β) (k j : Nat) (v d : β) (h : k ≠ j) :
    (Z.set k v).getD j d = Z.getD j d := by
  simp [List.getD_eq_getElem?_getD, h]

section
variable [CommSemiring α] (Uexp : List (Mat α))

/-- product of the `(s, r)` entries of the first `i` matrices -/
def preP (i s r : Nat) : α := ((Uexp.take i).map (fun A => A.get s r)).prod
/-- product of the `(s, r)` entries of the matrices from `i` on -/
def sufP (i s r : Nat) : α := ((Uexp.drop i).map (fun A => A.get s r)).prod

theorem preP_succ (i s r : Nat) (hi : i < Uexp.length) :
    preP Uexp (i + 1) s r = preP Uexp i s r * (Uexp.getD i []).get s r := by
  unfold preP
  rw [List.take_add_one, List.map_append, List.prod_append]
  simp [List.getD_eq_getElem?_getD, List.getElem?_eq_getElem hi]

theorem sufP_eq (i s r : Nat) (hi : i < Uexp.length) :
    sufP Uexp i s r = (Uexp.getD i []).get s r * sufP Uexp (i + 1) s r := by
  unfold sufP
  rw [List.drop_eq_getElem_cons hi, List.map_cons, List.prod_cons]
  simp only [List.getD_eq_getElem?_getD, List.getElem?_eq_getElem hi, Option.getD_some]

theorem sufP_length (s r : Nat) : sufP Uexp Uexp.length s r = 1 := by simp [sufP]

theorem preP_one (s r : Nat) (h : 0 < Uexp.length) : preP Uexp 1 s r = (Uexp.getD 0 []).get s r := by
  have := preP_succ Uexp 0 s r h
  simpa [preP] using this

theorem pre_mul_suf (k s r : Nat) :
    preP Uexp k s r * sufP Uexp (k + 1) s r = ((Uexp.eraseIdx k).map (fun A => A.get s r)).prod := by
  unfold preP sufP
  rw [List.eraseIdx_eq_take_drop_succ, List.map_append, List.prod_append]

/-- first loop: afterwards `Zexp[i]` is the product of the first `i` exploded factors, `1 ≤ i < 2 + c` -/
theorem zexpForward_inv (ndim n : Nat) (hU : Uexp.length = ndim)
    (hUn : ∀ j < ndim, Good (Uexp.getD j []) n (fun s r => (Uexp.getD j []).get s r))
    (c : Nat) (hc : 2 + c ≤ ndim) (Z : List (Mat α)) (hZ : Z.length = ndim)
    (h1 : Good (Z.getD 1 []) n (preP Uexp 1)) :
    let Z' := (List.range' 2 c).foldl
      (fun Z k => Z.set k (Mat.hadamard (Z.getD (k - 1) []) (Uexp.getD (k - 1) []))) Z
    Z'.length = ndim ∧ (∀ i, 1 ≤ i → i < 2 + c → Good (Z'.getD i []) n (preP Uexp i)) ∧
      Z'.getD 0 [] = Z.getD 0 [] := by
  induction c with
  | zero =>
    refine ⟨hZ, ?_, rfl⟩
    intro i h1i hi2
    have : i = 1 := by omega
    subst this
    exact h1
  | succ c ih =>
    obtain ⟨hl, hg, h0⟩ := ih (by omega)
    simp only [List.range'_concat, List.foldl_append, List.foldl_cons, List.foldl_nil, Nat.one_mul] at hl hg h0 ⊢
    set Zc := (List.range' 2 c).foldl
      (fun Z k => Z.set k (Mat.hadamard (Z.getD (k - 1) []) (Uexp.getD (k - 1) []))) Z with hZc
    refine ⟨by simp [hl], ?_, ?_⟩
    · intro i h1i hi2
      by_cases hi : i = 2 + c
      · subst hi
        rw [getD_set_eq _ _ _ _ (by omega)]
        have e : 2 + c - 1 = 1 + c := by omega
        rw [e]
        have hp := hg (1 + c) (by omega) (by omega)
        have hu := hUn (1 + c) (by omega)
        refine (hp.hadamard hu).congr ?_
        intro s r
        have := preP_succ Uexp (1 + c) s r (by omega)
        rw [show 1 + c + 1 = 2 + c by omega] at this
        rw [this]
      · rw [getD_set_ne _ _ _ _ _ (Ne.symm hi)]
        exact hg i h1i (by omega)
    · rw [getD_set_ne _ _ _ _ _ (by omega)]
      exact h0

/-- second loop, processing `k = c, c-1, …, 1` -/
theorem zexpBackward_inv (ndim n : Nat) (hU : Uexp.length = ndim)
    (hUn : ∀ j < ndim, Good (Uexp.getD j []) n (fun s r => (Uexp.getD j []).get s r))
    (c : Nat) (hc : c + 2 ≤ ndim) (Z : List (Mat α)) (hZ : Z.length = ndim)
    (h0 : Good (Z.getD 0 []) n (sufP Uexp (c + 1)))
    (hi : ∀ i, 1 ≤ i → i < ndim → Good (Z.getD i []) n
      (fun s r => if i ≤ c then preP Uexp i s r else preP Uexp i s r * sufP Uexp (i + 1) s r)) :
    let Z' := (List.range' 1 c).reverse.foldl (zexpBackStep Uexp) Z
    Z'.length = ndim ∧ Good (Z'.getD 0 []) n (sufP Uexp 1) ∧
      ∀ i, 1 ≤ i → i < ndim → Good (Z'.getD i []) n (fun s r => preP Uexp i s r * sufP Uexp (i + 1) s r) := by
  induction c generalizing Z with
  | zero =>
    refine ⟨hZ, h0, ?_⟩
    intro i h1 h2
    refine (hi i h1 h2).congr ?_
    intro s r
    rw [if_neg (by omega)]
  | succ c ih =>
    simp only [List.range'_concat, List.reverse_append, List.reverse_cons, List.reverse_nil, List.nil_append,
      List.cons_append, List.foldl_cons, Nat.one_mul]
    -- one step with k = c + 1
    set k := 1 + c with hk
    have hkpos : 1 ≤ k := by omega
    have hklt : k < ndim := by omega
    set Z1 := Z.set k (Mat.hadamard (Z.getD k []) (Z.getD 0 [])) with hZ1
    set Z2 := Z1.set 0 (Mat.hadamard (Z1.getD 0 []) (Uexp.getD k [])) with hZ2
    have hstep : zexpBackStep Uexp Z k = Z2 := rfl
    rw [hstep]
    have hZ1l : Z1.length = ndim := by simp [hZ1, hZ]
    have hZ2l : Z2.length = ndim := by simp [hZ2, hZ1l]
    have hZ10 : Z1.getD 0 [] = Z.getD 0 [] := getD_set_ne _ _ _ _ _ (by omega)
    apply ih (by omega) Z2 hZ2l
    · -- Z2[0] = suffix from k
      rw [hZ2, getD_set_eq _ _ _ _ (by omega), hZ10]
      have h0' : Good (Z.getD 0 []) n (sufP Uexp (k + 1)) := by
        rw [show k + 1 = c + 1 + 1 by omega]; exact h0
      refine (h0'.hadamard (hUn k hklt)).congr ?_
      intro s r
      rw [show c + 1 = k by omega, sufP_eq Uexp k s r (by omega), mul_comm]
    · intro i h1 h2
      have hne0 : (0 : Nat) ≠ i := by omega
      rw [hZ2, getD_set_ne _ _ _ _ _ hne0]
      by_cases hik : i = k
      · rw [hik, hZ1, getD_set_eq _ _ _ _ (by omega)]
        have hp := hi k hkpos hklt
        have h0' : Good (Z.getD 0 []) n (sufP Uexp (k + 1)) := by
          rw [show k + 1 = c + 1 + 1 by omega]; exact h0
        refine (hp.hadamard h0').congr ?_
        intro s r
        rw [if_pos (by omega), if_neg (by omega)]
      · rw [hZ1, getD_set_ne _ _ _ _ _ (Ne.symm hik)]
        refine (hi i h1 h2).congr ?_
        intro s r
        by_cases hic : i ≤ c
        · rw [if_pos (by omega), if_pos hic]
        · rw [if_neg (by omega), if_neg hic]

theorem getD_replicate_set_one {β : Type} (ndim : Nat) (x v : β) (h : 2 ≤ ndim) :
    ((List.replicate ndim x).set 1 v).getD 1 x = v := getD_set_eq _ _ _ _ (by simp; omega)

/-- **Zexp**: after `estimate_helper`'s two passes `Zexp[k]` has one row per sample and entry
`(s, r)` equal to the product over all modes `n ≠ k` of the gathered factor rows. -/
theorem zexpOf_good (ndim n : Nat) (hU : Uexp.length = ndim) (h2 : 2 ≤ ndim)
    (hUn : ∀ j < ndim, (Uexp.getD j []).length = n) (k : Nat) (hk : k < ndim) :
    Good ((zexpOf Uexp ndim).getD k []) n
      (fun s r => ((Uexp.eraseIdx k).map (fun A => A.get s r)).prod) := by
  have hUn' : ∀ j < ndim, Good (Uexp.getD j []) n (fun s r => (Uexp.getD j []).get s r) :=
    fun j hj => ⟨hUn j hj, fun _ _ => rfl⟩
  unfold zexpOf zexpForward zexpBackward
  simp only
  set Z1 := (List.replicate ndim ([] : Mat α)).set 1 (Uexp.getD 0 []) with hZ1
  have hZ1l : Z1.length = ndim := by simp [hZ1]
  have h11 : Good (Z1.getD 1 []) n (preP Uexp 1) := by
    rw [hZ1, getD_set_eq _ _ _ _ (by simp; omega)]
    exact (hUn' 0 (by omega)).congr (fun s r => (preP_one Uexp s r (by omega)).symm)
  obtain ⟨hl2, hg2, _⟩ := zexpForward_inv Uexp ndim n hU hUn' (ndim - 2) (by omega) Z1 hZ1l h11
  set Z2 := (List.range' 2 (ndim - 2)).foldl
      (fun Z k => Z.set k (Mat.hadamard (Z.getD (k - 1) []) (Uexp.getD (k - 1) []))) Z1 with hZ2
  set Z3 := Z2.set 0 (Uexp.getD (ndim - 1) []) with hZ3
  have hZ3l : Z3.length = ndim := by simp [hZ3, hl2]
  have h30 : Good (Z3.getD 0 []) n (sufP Uexp (ndim - 2 + 1)) := by
    rw [hZ3, getD_set_eq _ _ _ _ (by omega)]
    refine (hUn' (ndim - 1) (by omega)).congr ?_
    intro s r
    rw [show ndim - 2 + 1 = ndim - 1 by omega, sufP_eq Uexp (ndim - 1) s r (by omega),
      show ndim - 1 + 1 = Uexp.length by omega, sufP_length, mul_one]
  have h3i : ∀ i, 1 ≤ i → i < ndim → Good (Z3.getD i []) n
      (fun s r => if i ≤ ndim - 2 then preP Uexp i s r else preP Uexp i s r * sufP Uexp (i + 1) s r) := by
    intro i h1 hlt
    rw [hZ3, getD_set_ne _ _ _ _ _ (by omega)]
    refine (hg2 i h1 (by omega)).congr ?_
    intro s r
    by_cases hi : i ≤ ndim - 2
    · rw [if_pos hi]
    · rw [if_neg hi, show i + 1 = Uexp.length by omega, sufP_length, mul_one]
  obtain ⟨_, hb0, hbi⟩ := zexpBackward_inv Uexp ndim n hU hUn' (ndim - 2) (by omega) Z3 hZ3l h30 h3i
  by_cases hk0 : k = 0
  · subst hk0
    refine hb0.congr ?_
    intro s r
    simp [sufP]
  · refine (hbi k (by omega) hk).congr ?_
    intro s r
    exact pre_mul_suf Uexp k s r
end

theorem mapM_ok {β γ : Type} (l : List β) (f : β → Except Reject γ) (g : β → γ)
    (h : ∀ x ∈ l, f x = .ok (g x)) : l.mapM f = .ok (l.map g) := by
  induction l with
  | nil => rfl
  | cons x xs ih =>
    rw [List.mapM_cons, h x (by simp), ih (fun y hy => h y (by simp [hy]))]
    rfl

theorem gatherRows_ok (A : Mat α) (idx : List Nat) (h : ∀ i ∈ idx, i < A.length) :
    gatherRows A idx = .ok (idx.map fun i => A.getD i []) := by
  unfold gatherRows
  apply mapM_ok
  intro i hi
  have := h i hi
  simp [List.getD_eq_getElem?_getD, List.getElem?_eq_getElem this]

theorem getD_map {β γ : Type} (l : List β) (f : β → γ) (s : Nat) (d : β) (d' : γ) (hs : s < l.length) :
    (l.map f).getD s d' = f (l.getD s d) := by
  simp [List.getD_eq_getElem?_getD, List.getElem?_eq_getElem hs]

theorem zipWith_eq_map_range {β γ δ : Type} (G : β → γ → δ) (l : List β) (i : List γ) (db : β) (dc : γ)
    (h : i.length = l.length) :
    List.zipWith G l i = (List.range l.length).map (fun j => G (l.getD j db) (i.getD j dc)) := by
  apply List.ext_getElem
  · simp [h]
  · intro n h1 h2
    simp at h1 h2
    simp [List.getD_eq_getElem?_getD, List.getElem?_eq_getElem h2,
      List.getElem?_eq_getElem (show n < i.length by omega)]

theorem sum_eq_sum_range_getD [AddCommMonoid α] (l : List α) (R : Nat) (h : l.length ≤ R) :
    l.sum = ((List.range R).map fun r => l.getD r 0).sum := by
  induction l generalizing R with
  | nil => simp
  | cons x xs ih =>
    cases R with
    | zero => simp at h
    | succ R =>
      rw [List.range_succ_eq_map, List.map_cons, List.map_map, List.sum_cons, List.sum_cons]
      simp only [List.getD_cons_zero]
      rw [ih R (by simpa using h)]
      rfl

theorem zipWith_one_mul [MulOneClass α] (Y : List α) (n : Nat) (h : Y.length = n) :
    List.zipWith (· * ·) (List.replicate n (1 : α)) Y = Y := by
  subst h
  induction Y with
  | nil => rfl
  | cons y ys ih => simp [List.replicate_succ, ih]

theorem inBounds_getD {s i : List Nat} (h : InBounds s i) (k : Nat) (hk : k < s.length) :
    i.getD k 0 < s.getD k 0 := by
  induction s generalizing i k with
  | nil => simp at hk
  | cons a s ih =>
    cases i with
    | nil => simp [InBounds] at h
    | cons b i =>
      simp only [InBounds] at h
      cases k with
      | zero => simpa using h.1
      | succ k => simpa using ih h.2 k (by simpa using hk)

theorem shape_getD (K : Ktensor α) (k : Nat) (hk : k < K.factors.length) :
    K.shape.getD k 0 = (K.factors.getD k []).length := by
  unfold Ktensor.shape
  rw [getD_map _ _ _ [] _ hk]

/-- the gathered factor rows `Uexp[k] = factors[k][subs[:, k], :]` -/
def uexpOf (factors : List (Mat α)) (subs : List (List Nat)) (N : Nat) : List (Mat α) :=
  (List.range N).map fun k => (subs.map fun s => s.getD k 0).map fun i => (factors.getD k []).getD i []

theorem estimateHelper_ok [Add α] [Mul α] [Zero α] (K : Ktensor α) (subs : List (List Nat))
    (hne : subs ≠ []) (hN : 2 ≤ K.factors.length) (hin : ∀ i ∈ subs, InBounds K.shape i) :
    estimateHelper K.factors subs = .ok
      (Mat.rowSums (Mat.hadamard ((zexpOf (uexpOf K.factors subs K.factors.length) K.factors.length).getD
          (K.factors.length - 1) []) ((uexpOf K.factors subs K.factors.length).getD (K.factors.length - 1) [])),
       zexpOf (uexpOf K.factors subs K.factors.length) K.factors.length) := by
  cases subs with
  | nil => exact absurd rfl hne
  | cons s0 rest =>
    have hs0 : s0.length = K.factors.length := by
      rw [(hin s0 (by simp)).length_eq, length_shape]
    unfold estimateHelper
    simp only [hs0, gt_iff_lt, lt_irrefl, if_false]
    have hU : (List.range K.factors.length).mapM (fun k =>
        gatherRows (K.factors.getD k []) ((s0 :: rest).map fun s => s.getD k 0))
        = .ok (uexpOf K.factors (s0 :: rest) K.factors.length) := by
      unfold uexpOf
      apply mapM_ok
      intro k hk
      have hk' : k < K.factors.length := List.mem_range.1 hk
      apply gatherRows_ok
      intro i hi
      obtain ⟨s, hs, rfl⟩ := List.mem_map.1 hi
      have := inBounds_getD (hin s hs) k (by rw [length_shape]; exact hk')
      rwa [shape_getD K k hk'] at this
    rw [hU]
    have : ¬ K.factors.length < 2 := by omega
    simp [bind, Except.bind, this]

/-! ### the estimator on a sample list; the full sample -/

section sampled
variable (K : Ktensor α) (subs : List (List Nat))

/-- entries of the gathered factor rows at sample `s'` are the factor entries at that sample's subscript -/
theorem uexp_map_get [Zero α] (hin : ∀ i ∈ subs, InBounds K.shape i) (s' r : Nat) (hs : s' < subs.length) :
    (uexpOf K.factors subs K.factors.length).map (fun A => A.get s' r)
      = List.zipWith (fun A ik => Mat.get A ik r) K.factors (subs.getD s' []) := by
  have hi : InBounds K.shape (subs.getD s' []) := by
    apply hin
    simp [List.getD_eq_getElem?_getD, List.getElem?_eq_getElem hs]
  have hil : (subs.getD s' []).length = K.factors.length := by rw [hi.length_eq, length_shape]
  rw [zipWith_eq_map_range _ _ _ [] 0 hil]
  unfold uexpOf
  rw [List.map_map]
  apply List.map_congr_left
  intro k _
  simp only [Function.comp, Mat.get]
  rw [getD_map _ _ s' 0 [] (by simpa using hs), getD_map _ _ s' [] 0 hs]

theorem uexp_getD_length (j : Nat) (hj : j < K.factors.length) :
    ((uexpOf K.factors subs K.factors.length).getD j []).length = subs.length := by
  unfold uexpOf
  rw [getD_map_range _ _ _ _ hj]
  simp

theorem uexp_length : (uexpOf K.factors subs K.factors.length).length = K.factors.length := by
  simp [uexpOf]

/-- `Zexp[k][s', r] = ∏_{n ≠ k} A_n[i_n, r]` for the `s'`-th sampled subscript `i` -/
theorem zexp_get [CommRing α] (hN : 2 ≤ K.factors.length) (hin : ∀ i ∈ subs, InBounds K.shape i)
    (k s' r : Nat) (hk : k < K.factors.length) (hs : s' < subs.length) :
    ((zexpOf (uexpOf K.factors subs K.factors.length) K.factors.length).getD k []).get s' r
      = compExcept K.factors k r (subs.getD s' []) := by
  have hg := zexpOf_good (uexpOf K.factors subs K.factors.length) K.factors.length subs.length
    (uexp_length K subs) hN (fun j hj => uexp_getD_length K subs j hj) k hk
  rw [hg.2 s' r]
  simp only []
  rw [← List.eraseIdx_map, uexp_map_get K subs hin s' r hs, compExcept, zipWith_eraseIdx]

theorem zexp_rows [CommRing α] (hN : 2 ≤ K.factors.length) (k : Nat) (hk : k < K.factors.length) :
    ((zexpOf (uexpOf K.factors subs K.factors.length) K.factors.length).getD k []).length = subs.length :=
  (zexpOf_good (uexpOf K.factors subs K.factors.length) K.factors.length subs.length
    (uexp_length K subs) hN (fun j hj => uexp_getD_length K subs j hj) k hk).1

theorem getElem_eq_getD' {β : Type} (l : List β) (s : Nat) (d : β) (h : s < l.length) : l[s] = l.getD s d := by
  rw [List.getD_eq_getElem?_getD, List.getElem?_eq_getElem h, Option.getD_some]

theorem Mat.get_eq_getElem [Zero α] (A : Mat α) (s r : Nat) (h : s < A.length) :
    A.get s r = (A[s]).getD r 0 := by
  unfold Mat.get
  rw [← getElem_eq_getD' A s [] h]

/-- entries and row lengths of one gathered factor -/
theorem uexp_get [Zero α] (k s' r : Nat) (hk : k < K.factors.length) (hs : s' < subs.length) :
    ((uexpOf K.factors subs K.factors.length).getD k []).get s' r
      = (K.factors.getD k []).get ((subs.getD s' []).getD k 0) r := by
  unfold uexpOf
  rw [getD_map_range _ _ _ _ hk]
  unfold Mat.get
  rw [getD_map _ _ s' 0 [] (by simpa using hs), getD_map _ _ s' [] 0 hs]

theorem uexp_row_length (hWF : K.WF) (hin : ∀ i ∈ subs, InBounds K.shape i) (k s' : Nat)
    (hk : k < K.factors.length) (hs : s' < subs.length) :
    (((uexpOf K.factors subs K.factors.length).getD k []).getD s' []).length = K.ncomp := by
  have hi : InBounds K.shape (subs.getD s' []) := by
    apply hin
    rw [← getElem_eq_getD' subs s' [] hs]
    exact List.getElem_mem hs
  unfold uexpOf
  rw [getD_map_range _ _ _ _ hk, getD_map _ _ s' 0 [] (by simpa using hs), getD_map _ _ s' [] 0 hs]
  apply row_length_of_WF K hWF k _ hk
  have := inBounds_getD hi k (by rw [length_shape]; exact hk)
  rwa [shape_getD K k hk] at this

/-- the model values `estimate_helper` returns are the values the Kruskal tensor (with unit
weights) denotes at the sampled subscripts -/
theorem mvals_eq [CommRing α] (hN : 2 ≤ K.factors.length) (hWF : K.WF)
    (hunit : ∀ r < K.ncomp, K.weights.getD r 0 = 1) (hin : ∀ i ∈ subs, InBounds K.shape i) :
    Mat.rowSums (Mat.hadamard ((zexpOf (uexpOf K.factors subs K.factors.length) K.factors.length).getD
        (K.factors.length - 1) []) ((uexpOf K.factors subs K.factors.length).getD (K.factors.length - 1) []))
      = subs.map K.get := by
  have hlast : K.factors.length - 1 < K.factors.length := by omega
  obtain ⟨Zl, hZd⟩ : ∃ Zl, Zl = (zexpOf (uexpOf K.factors subs K.factors.length) K.factors.length).getD
        (K.factors.length - 1) [] := ⟨_, rfl⟩
  obtain ⟨Ul, hUd⟩ : ∃ Ul, Ul = (uexpOf K.factors subs K.factors.length).getD (K.factors.length - 1) [] := ⟨_, rfl⟩
  rw [← hZd, ← hUd]
  have hZl : Zl.length = subs.length := by rw [hZd]; exact zexp_rows K subs hN _ hlast
  have hUl : Ul.length = subs.length := by rw [hUd]; exact uexp_getD_length K subs _ hlast
  apply List.ext_getElem
  · rw [Mat.rowSums, List.length_map, Mat.length_hadamard, hZl, hUl, Nat.min_self, List.length_map]
  · intro s' h1 h2
    have hs : s' < subs.length := by simpa using h2
    have hsZ : s' < Zl.length := by rw [hZl]; exact hs
    have hsU : s' < Ul.length := by rw [hUl]; exact hs
    have hi : InBounds K.shape (subs[s']) := hin _ (List.getElem_mem hs)
    have hil : (subs[s']).length = K.factors.length := by rw [hi.length_eq, length_shape]
    have hrow : (Ul[s']).length = K.ncomp := by
      rw [getElem_eq_getD' Ul s' [] hsU, hUd]
      exact uexp_row_length K subs hWF hin _ s' hlast hs
    simp only [Mat.rowSums, Mat.hadamard, List.getElem_map, List.getElem_zipWith]
    rw [sum_eq_sum_range_getD _ K.ncomp (by rw [List.length_zipWith, hrow]; exact Nat.min_le_right _ _)]
    unfold Ktensor.get
    apply congrArg
    apply List.map_congr_left
    intro r hr
    have hr' : r < K.ncomp := List.mem_range.1 hr
    rw [getD_zipWith_mul, hunit r hr', one_mul, comp_eq K (K.factors.length - 1) r _ hlast hil,
      ← Mat.get_eq_getElem Zl s' r hsZ, ← Mat.get_eq_getElem Ul s' r hsU, hZd, hUd,
      zexp_get K subs hN hin _ s' r hlast hs, uexp_get K subs _ s' r hlast hs,
      ← getElem_eq_getD' subs s' [] hs, mul_comm]

theorem map_eq_map_range {β γ : Type} (l : List β) (d : β) (F : β → γ) :
    l.map F = (List.range l.length).map fun s => F (l.getD s d) := by
  conv_lhs => rw [← map_getD_range l d]
  rw [List.map_map]
  rfl

/-- `accumulate` (sparse matrix × Zexp[k]) on the full sample is the mode-`k` MTTKRP of the
weighted derivative tensor -/
theorem accumulate_full [CommRing α] (hN : 2 ≤ K.factors.length) (Yf : List Nat → α)
    (k : Nat) (hk : k < K.factors.length) :
    accumulate (K.factors.getD k []).length K.ncomp ((allSubs K.shape).map fun s => s.getD k 0)
        ((allSubs K.shape).map Yf)
        ((zexpOf (uexpOf K.factors (allSubs K.shape) K.factors.length) K.factors.length).getD k [])
      = mttkrpDef ⟨K.shape, (allSubs K.shape).map Yf⟩ K.factors K.ncomp k := by
  have hin : ∀ i ∈ allSubs K.shape, InBounds K.shape i := fun i hi => mem_allSubs.1 hi
  unfold accumulate mttkrpDef
  simp only
  rw [shape_getD K k hk]
  apply List.map_congr_left
  intro a _
  apply List.map_congr_left
  intro r _
  apply congrArg
  refine Eq.trans ?_ (map_eq_map_range (allSubs K.shape) [] _).symm
  rw [List.length_map]
  apply List.map_congr_left
  intro s' hs'
  have hs : s' < (allSubs K.shape).length := List.mem_range.1 hs'
  have hi : InBounds K.shape ((allSubs K.shape).getD s' []) := by
    apply hin
    rw [← getElem_eq_getD' _ s' [] hs]
    exact List.getElem_mem hs
  rw [getD_map _ _ s' [] 0 hs, getD_map _ _ s' [] 0 hs, zexp_get K _ hN hin k s' r hk hs,
    Dense.get_mk_map K.shape Yf _ hi]

/-- **the sampled estimator on every entry with unit weights is the exact evaluation** -/
theorem estimate_full_sample [CommRing α] (X : Dense α) (f g : Handle α)
    (hN : 2 ≤ K.factors.length) (hWF : K.WF) (hunit : ∀ r < K.ncomp, K.weights.getD r 0 = 1)
    (hpos : 0 < numel K.shape) (hX : X.shape = K.shape) (hXwf : X.WF) :
    estimate K (allSubs K.shape) X.data (List.replicate (numel K.shape) 1) (some f) (some g) none
      = evaluate K X none (some f) (some g) := by
  have hin : ∀ i ∈ allSubs K.shape, InBounds K.shape i := fun i hi => mem_allSubs.1 hi
  have hne : allSubs K.shape ≠ [] := by
    intro h
    have := length_allSubs K.shape
    rw [h] at this
    simp at this
    omega
  rw [evaluate_ok K X none (some f) (some g) (Or.inl rfl) hN hX hXwf (by intro W' h; cases h)]
  have hH := estimateHelper_ok K (allSubs K.shape) hne hN hin
  rw [mvals_eq K (allSubs K.shape) hN hWF hunit hin] at hH
  have hXd : X.data = (allSubs K.shape).map X.get := by rw [Dense.data_eq_map_get X hXwf, hX]
  have hlen : X.data.length = (allSubs K.shape).length := by rw [hXd, List.length_map]
  unfold estimate
  have hc1 : (X.data.length ≠ (allSubs K.shape).length ||
      (List.replicate (numel K.shape) (1 : α)).length ≠ (allSubs K.shape).length) = false := by
    simp [hlen, length_allSubs]
  have hhead : ((allSubs K.shape).headD []).length = K.factors.length := by
    cases h : allSubs K.shape with
    | nil => exact absurd h hne
    | cons s0 rest =>
      have : InBounds K.shape s0 := hin s0 (by rw [h]; simp)
      simp [this.length_eq, length_shape]
  have hemp : (allSubs K.shape).isEmpty = false := by
    cases h : allSubs K.shape with
    | nil => exact absurd h hne
    | cons s0 rest => rfl
  simp only [Option.isNone_some, Bool.false_and, Bool.false_eq_true, if_false, hc1, hH, bind, Except.bind,
    hhead, hemp, ne_eq, not_true_eq_false, Option.map_some, crngCorrect]
  have hYf : ∀ h : Handle α, applyHandle h X.data ((allSubs K.shape).map K.get)
      = (allSubs K.shape).map (fun i => h (X.get i) (K.get i)) := by
    intro h
    unfold applyHandle
    rw [hXd, zipWith_map_same]
  have hone : ∀ h : Handle α, List.zipWith (· * ·) (List.replicate (numel K.shape) (1 : α))
      ((allSubs K.shape).map (fun i => h (X.get i) (K.get i)))
      = (allSubs K.shape).map (fun i => h (X.get i) (K.get i)) := by
    intro h
    apply zipWith_one_mul
    rw [List.length_map, length_allSubs]
  rw [hYf f, hYf g, hone f, hone g]
  simp only [decide_false, Bool.or_false, Bool.false_eq_true, if_false]
  congr 2
  congr 1
  rw [mttkrpsK_unit _ K hunit]
  unfold mttkrpsDef
  simp only [length_shape, wY, wterm]
  apply List.map_congr_left
  intro k hk
  exact accumulate_full K hN _ k (List.mem_range.1 hk)
end sampled
end Pyttb
