/-
C02 — sparse `scale`, `collapse`, `contract`.
-/
import PyttbModel.Lemmas.MLInner
import PyttbModel.Lemmas.MLModes
namespace Pyttb
namespace ML

variable {α : Type}

/-- `tt_dimscheck(N, dims=dims)`: the listed modes in increasing order. -/
theorem resolveDims_some (N : Nat) (d : List Nat) (hd : d.Nodup) (hN : ∀ x ∈ d, x < N) :
    resolveDims N (some (d.map Int.ofNat)) = .ok (sdimsOf d) := by
  have h1 : dimscheck N none (some (d.map Int.ofNat)) none = .ok ⟨sdimsOf d, none⟩ := by
    rw [dimscheck_dims_valid N none d hd hN]; rfl
  have h3 := sdimsOf_perm d
  unfold resolveDims
  rw [h1]
  have hnd : (sdimsOf d).Nodup := h3.nodup_iff.2 hd
  have h4 : (sdimsOf d).all (· < N) = true := by
    rw [List.all_eq_true]; intro x hx; simpa using hN x (h3.subset hx)
  simp [h4, eraseDups_of_nodup _ hnd]

theorem resolveDims_none (N : Nat) : resolveDims N none = .ok (List.range N) := by
  unfold resolveDims
  rw [dimscheck_all]
  have h4 : (List.range N).all (· < N) = true := by
    rw [List.all_eq_true]; intro x hx; simpa using List.mem_range.1 hx
  simp [h4, eraseDups_of_nodup _ List.nodup_range]

/-! ### scale -/

theorem kvSum_scale [CommSemiring α] (E : List (List Nat × α)) (f : List Nat → α) (i : List Nat) :
    kvSum (E.map fun e => (e.1, e.2 * f e.1)) i = kvSum E i * f i := by
  induction E with
  | nil => simp [kvSum_nil]
  | cons e E ih =>
    rw [List.map_cons, kvSum_cons, kvSum_cons, ih, add_mul]
    congr 1
    by_cases h : e.1 = i
    · simp [h]
    · simp [h]

theorem kvSum_filter_nz [AddMonoid α] [DecidableEq α] (l : List (List Nat × α)) (i : List Nat) :
    kvSum (l.filter fun e => !(e.2 == 0)) i = kvSum l i := by
  induction l with
  | nil => rfl
  | cons e l ih =>
    by_cases hz : e.2 = 0
    · have : (!(e.2 == 0)) = false := by simp [hz]
      rw [List.filter_cons, this]
      simp only [Bool.false_eq_true, if_false]
      rw [ih, kvSum_cons]
      by_cases hk : e.1 = i
      · rw [if_pos hk, hz, zero_add]
      · rw [if_neg hk, zero_add]
    · have : (!(e.2 == 0)) = true := by simp [hz]
      rw [List.filter_cons, this]
      simp only [if_true]
      rw [kvSum_cons, kvSum_cons, ih]

/-- The denotation of the scaled tensor for any per-cell factor `f`, and its well-formedness. -/
theorem sparse_scale_get [CommSemiring α] [DecidableEq α] (S : Sparse α) (hS : S.WF)
    (f : List Nat → α) :
    (S.scaleWith f).shape = S.shape ∧ (S.scaleWith f).WF ∧ ∀ i, (S.scaleWith f).get i = S.get i * f i := by
  have hsubs : S.subs = S.entries.map (·.1) := (S.entries_keys hS.len).symm
  set ev := S.entries.map fun e => (e.1, e.2 * f e.1) with hev
  set nz := ev.filter fun e => !(e.2 == 0) with hnz
  have hform : S.scaleWith f = ⟨S.shape, nz.map (·.1), nz.map (·.2)⟩ := rfl
  have hkeys : ev.map (·.1) = S.subs := by rw [hev, List.map_map, hsubs]; rfl
  have hsub : (nz.map (·.1)).Sublist S.subs := by
    rw [← hkeys]; exact (List.filter_sublist).map _
  refine ⟨rfl, ?_, ?_⟩
  · rw [hform]
    refine ⟨by simp, ?_, hsub.nodup hS.nodup, ?_⟩
    · intro k hk; exact hS.inb k (hsub.subset hk)
    · intro v hv
      obtain ⟨e, he, rfl⟩ := List.mem_map.1 hv
      have := (List.mem_filter.1 he).2
      simpa using this
  · intro i
    rw [hform]
    show kvSum ((nz.map (·.1)).zip (nz.map (·.2))) i = _
    rw [zip_fst_snd, hnz, kvSum_filter_nz, hev, kvSum_scale]
    rfl

/-- **Sparse `scale`** with a dense, sparse or plain-array factor whose modes are the selected
modes in increasing order: `Y[i] = X[i] · F[i[sel]]`; vanishing products are not stored, so the
result is well-formed. -/
theorem sparse_scale_spec [CommSemiring α] [DecidableEq α] (S : Sparse α) (hS : S.WF) (F : Sparse.ScaleFactor α)
    (d : List Nat) (hd : d.Nodup) (hN : ∀ x ∈ d, x < S.shape.length)
    (Fden : Den α)
    (hF : match F with
      | .dense D => D.shape = gather S.shape (sdimsOf d) ∧ Fden = D.den
      | .sparse G => G.shape = gather S.shape (sdimsOf d) ∧ G.WF ∧ Fden = G.den
      | .array v => d.length = 1 ∧ [v.length] = gather S.shape (sdimsOf d) ∧ Fden = (⟨[v.length], v⟩ : Dense α).den) :
    ∃ Y, S.scale F (d.map Int.ofNat) = .ok Y ∧ Y.shape = S.shape ∧ Y.WF ∧
      ∀ i, Y.get i = Spec.scale S.den Fden (sdimsOf d) i := by
  have h1 := resolveDims_some S.shape.length d hd hN
  unfold Sparse.scale
  simp only [h1]
  cases F with
  | dense D =>
    obtain ⟨hs, rfl⟩ := hF
    simp only [hs, bne_self_eq_false, Bool.false_eq_true, if_false]
    obtain ⟨e1, e2, e3⟩ := sparse_scale_get S hS (fun k => D.get (gather k (sdimsOf d)))
    exact ⟨_, rfl, e1, e2, e3⟩
  | sparse G =>
    obtain ⟨hs, hG, rfl⟩ := hF
    simp only [hs, bne_self_eq_false, Bool.false_eq_true, if_false]
    have : (fun k => G.lookup (gather k (sdimsOf d))) = fun k => G.get (gather k (sdimsOf d)) := by
      funext k; exact lookup_eq_get G hG _
    rw [this]
    obtain ⟨e1, e2, e3⟩ := sparse_scale_get S hS (fun k => G.get (gather k (sdimsOf d)))
    exact ⟨_, rfl, e1, e2, e3⟩
  | array v =>
    obtain ⟨hl1, hs, rfl⟩ := hF
    have hsl : (sdimsOf d).length = 1 := by rw [(sdimsOf_perm d).length_eq]; exact hl1
    obtain ⟨m0, hm0⟩ : ∃ m0, sdimsOf d = [m0] := by
      match sdimsOf d, hsl with
      | [m], _ => exact ⟨m, rfl⟩
    have g : ([v.length] != gather S.shape (sdimsOf d)) = false := by rw [hs]; simp
    simp only [hsl, bne_self_eq_false, Bool.false_eq_true, if_false, g]
    have : (fun (k : List Nat) => v.getD (k.getD ((sdimsOf d).getD 0 0) 0) 0) =
        fun k => (⟨[v.length], v⟩ : Dense α).get (gather k (sdimsOf d)) := by
      funext k
      simp [hm0, Dense.get, sub2ind, gather]
    rw [this]
    obtain ⟨e1, e2, e3⟩ := sparse_scale_get S hS (fun k => (⟨[v.length], v⟩ : Dense α).get (gather k (sdimsOf d)))
    exact ⟨_, rfl, e1, e2, e3⟩

/-! ### contract -/

/-- **Sparse `contract`** on every branch (nothing stored, 2-way scalar, kept sparse, densified). -/
theorem sparse_contract_spec [CommSemiring α] [DecidableEq α] (S : Sparse α) (hS : S.WF) (a b : Nat)
    (ha : a < S.shape.length) (hb : b < S.shape.length) (hab : a ≠ b)
    (hsz : S.shape.getD a 0 = S.shape.getD b 0) :
    ∃ r, S.contract a b = .ok r ∧ r.shape = gather S.shape (complDims S.shape.length [a, b]) ∧
      ∀ i, InBounds r.shape i → r.get i = Spec.contract S.den a b i := by
  set N := S.shape.length with hN
  set rem := complDims N [a, b] with hrem
  set W : List Nat → α := fun k => if k.getD a 0 = k.getD b 0 then 1 else 0 with hW
  have hspec : ∀ i, Spec.contract S.den a b i =
      kvSum ((S.entries.filter fun e => e.1.getD a 0 == e.1.getD b 0).map fun e => (gather e.1 rem, e.2)) i := by
    intro i
    unfold Spec.contract Spec.sumOver
    show (((Spec.fiber S.shape rem i).filter fun k => k.getD a 0 == k.getD b 0).map S.den.get).sum = _
    rw [sum_filter]
    have h1 : ((Spec.fiber S.shape rem i).map fun k => if (k.getD a 0 == k.getD b 0) = true then S.den.get k else 0) =
        (Spec.fiber S.shape rem i).map fun k => kvSum S.entries k * W k := by
      apply List.map_congr_left
      intro k _
      have hWk : W k = if k.getD a 0 = k.getD b 0 then 1 else 0 := rfl
      by_cases h : k.getD a 0 = k.getD b 0
      · have hb' : (k.getD a 0 == k.getD b 0) = true := by simpa using h
        rw [if_pos hb', hWk, if_pos h, mul_one]; rfl
      · have hb' : ¬ ((k.getD a 0 == k.getD b 0) = true) := by simpa using h
        rw [if_neg hb', hWk, if_neg h, mul_zero]
    rw [h1, sparse_fiber_sum S.entries S.shape rem i (entries_inb S hS) W, kvSum_map_entries, kvSum_map_entries,
      List.filter_filter, sum_filter, sum_filter]
    apply sum_congr
    intro e _
    have hWk : W e.1 = if e.1.getD a 0 = e.1.getD b 0 then 1 else 0 := rfl
    by_cases h1 : e.1.getD a 0 = e.1.getD b 0 <;> by_cases h2 : gather e.1 rem = i <;> simp [hWk, h1, h2]
  unfold Sparse.contract
  have g1 : (decide (a ≥ N) || decide (b ≥ N)) = false := by simp; omega
  have g2 : (S.shape.getD a 0 != S.shape.getD b 0) = false := by rw [hsz]; exact bne_self_eq_false _
  have g3 : (a == b) = false := by simpa using hab
  simp only [← hN, g1, g2, g3, Bool.false_eq_true, if_false, ← hrem]
  rw [show S.subs.zip S.vals = S.entries from rfl]
  have hzipd : ∀ (D : List (List Nat × α)),
      (D.map fun e => gather e.1 rem).zip (D.map (·.2)) = D.map fun e => (gather e.1 rem, e.2) :=
    fun D => zip_map_map D _ _
  by_cases h0 : (S.nnz == 0) = true
  · rw [if_pos h0]
    have hE := entries_nil_of_nnz S h0
    by_cases h2 : (N == 2) = true
    · rw [if_pos h2]
      have hr : rem = [] := by
        have hN2 : N = 2 := by simpa using h2
        rw [hrem, hN2]
        have : (a = 0 ∧ b = 1) ∨ (a = 1 ∧ b = 0) := by omega
        rcases this with ⟨rfl, rfl⟩ | ⟨rfl, rfl⟩ <;> decide
      refine ⟨_, rfl, by simp [ML.Res.shape, hr], ?_⟩
      intro i _
      rw [hspec, hE]; rfl
    · rw [if_neg h2]
      refine ⟨_, rfl, rfl, ?_⟩
      intro i _
      rw [hspec, hE]; rfl
  · rw [if_neg h0]
    by_cases h2 : (N == 2) = true
    · rw [if_pos h2]
      have hN2 : N = 2 := by simpa using h2
      have hcase : (a = 0 ∧ b = 1) ∨ (a = 1 ∧ b = 0) := by omega
      have hr : rem = [] := by
        rw [hrem, hN2]
        rcases hcase with ⟨rfl, rfl⟩ | ⟨rfl, rfl⟩ <;> decide
      refine ⟨_, rfl, by simp [ML.Res.shape, hr], ?_⟩
      intro i hi
      have hi0 : i = [] := by
        simp only [ML.Res.shape] at hi
        cases i <;> simp_all [InBounds]
      subst hi0
      simp only [ML.Res.get]
      rw [hspec, kvSum_map_entries]
      have hf : ∀ (l : List (List Nat × α)), l.filter (fun e => gather e.1 rem == []) = l := by
        intro l; rw [List.filter_eq_self]; intro e _; rw [hr]; rfl
      rw [hf]
      congr 2
      apply List.filter_congr
      intro e _
      rcases hcase with ⟨rfl, rfl⟩ | ⟨rfl, rfl⟩
      · rfl
      · rw [Bool.eq_iff_iff, beq_iff_eq, beq_iff_eq]; exact eq_comm
    · rw [if_neg h2]
      by_cases hnnz : 2 * (ML.fromAggregator
          ((S.entries.filter fun e => e.1.getD a 0 == e.1.getD b 0).map fun e => gather e.1 rem)
          ((S.entries.filter fun e => e.1.getD a 0 == e.1.getD b 0).map (·.2)) (gather S.shape rem) List.sum).nnz
            > numel (gather S.shape rem)
      · refine ⟨_, by rw [if_pos hnnz], rfl, ?_⟩
        intro i hi
        have hi' : InBounds (gather S.shape rem) i := hi
        simp only [ML.Res.get]
        rw [fromAggregator_full_get _ _ _ _ hi', hzipd, hspec]
      · refine ⟨_, by rw [if_neg hnnz], rfl, ?_⟩
        intro i _
        simp only [ML.Res.get]
        rw [fromAggregator_get, hzipd, hspec]

end ML
end Pyttb
